package main

import (
	"bytes"
	"fmt"
	"strconv"
	"strings"

	"github.com/iDigitalFlame/xmt/com"
	"github.com/iDigitalFlame/xmt/data"
	"github.com/iDigitalFlame/xmt/device"
)

func init() {
	factProviders = append(factProviders, func(f *factSet, repo string) error {
		f.Nat("packetMaxTags", uint64(com.PacketMaxTags))
		f.Nat("packetHeaderSize", uint64(com.PacketHeaderSize))
		f.Nat("idSize", uint64(device.IDSize))
		f.Nat("flagFrag", uint64(com.FlagFrag))
		f.Nat("flagMulti", uint64(com.FlagMulti))
		f.Nat("flagMultiDevice", uint64(com.FlagMultiDevice))
		f.Nat("flagProxy", uint64(com.FlagProxy))
		f.Nat("flagChannel", uint64(com.FlagChannel))
		f.Nat("flagError", uint64(com.FlagError))
		f.Nat("flagCrypt", uint64(com.FlagCrypt))
		f.Nat("flagOneshot", uint64(com.FlagOneshot))
		return nil
	})
	register("C01", runC01)
}

// pktTok renders a packet as "id,job,flags,tags(;sep),dev,payload"
func pktTok(p *com.Packet) string {
	ts := make([]string, len(p.Tags))
	for i, t := range p.Tags {
		ts[i] = strconv.FormatUint(uint64(t), 10)
	}
	tg := strings.Join(ts, ";")
	if tg == "" {
		tg = "."
	}
	return fmt.Sprintf("%d,%d,%d,%s,%s,%s", p.ID, p.Job, uint64(p.Flags), tg, hx(p.Device[:]), hx(p.Payload()))
}

func pktErr(err error) string {
	if err == nil {
		return "nil"
	}
	s := err.Error()
	switch {
	case strings.HasSuffix(s, "unexpected EOF"):
		return "ueof"
	case strings.HasSuffix(s, "EOF"):
		return "eof"
	case strings.Contains(s, "multiple Read calls return no data"):
		return "noprogress"
	case strings.Contains(s, data.ErrInvalidType.Error()):
		return "badtype"
	case strings.Contains(s, com.ErrMalformedTag.Error()):
		return "badtag"
	case strings.Contains(s, data.ErrTooLarge.Error()):
		return "toolarge"
	case strings.Contains(s, "tags list is too large") || strings.Contains(s, "0x2B"):
		return "toomanytags"
	}
	return "other:" + strings.ReplaceAll(s, " ", "_")
}

var payLens = []int{0, 1, 2, 5, 31, 127, 128, 254, 255, 256, 257, 1000, 16383, 16384, 16385, 32768, 65534, 65535, 65536, 65537, 70000, 131072}

func genPacket(r *Rng, big bool) *com.Packet {
	p := &com.Packet{ID: uint8(r.U64()), Job: uint16(r.U64())}
	switch r.Intn(4) {
	case 0:
		p.Flags = com.Flag(r.U64())
	case 1:
		p.Flags = com.Flag(r.U64() & 0xFFFF)
	case 2:
		p.Flags = com.Flag(uint64(r.Intn(3)) << uint(r.Intn(64)))
	default:
		p.Flags = com.Flag(^uint64(0) >> uint(r.Intn(64)))
	}
	copy(p.Device[:], r.Bytes(32))
	if p.Device[0] == 0 {
		p.Device[0] = 1
	}
	if r.Chance(10) {
		for i := 1; i < 32; i++ {
			p.Device[i] = 0
		}
	}
	nt := 0
	switch x := r.Intn(20); {
	case x < 10:
	case x < 16:
		nt = 1 + r.Intn(4)
	case x < 18:
		nt = []int{255, 256, 257}[r.Intn(3)]
	case x < 19 && big:
		nt = []int{32767, 32768}[r.Intn(2)]
	default:
		nt = r.Intn(40)
	}
	for i := 0; i < nt; i++ {
		t := uint32(r.U64())
		if t == 0 || r.Chance(10) {
			t = 1 + uint32(r.Intn(3))
		}
		p.Tags = append(p.Tags, t)
	}
	var n int
	switch x := r.Intn(10); {
	case x < 3:
		n = r.Intn(8)
	case x < 8:
		n = payLens[r.Intn(10)]
	default:
		if big {
			n = payLens[r.Intn(len(payLens))]
		} else {
			n = r.Intn(300)
		}
	}
	if n > 0 {
		p.Write(r.Bytes(n))
	}
	return p
}

// frozen is a packet captured before marshalling (Marshal/MarshalStream move the read cursor).
type frozen struct {
	tok string
	pay []byte
	p   *com.Packet
}

func freeze(p *com.Packet) frozen {
	return frozen{tok: pktTok(p), pay: append([]byte(nil), p.Payload()...), p: p}
}

func eqFrozen(a frozen, b *com.Packet) string {
	if !bytes.Equal(a.pay, b.Payload()) {
		return "payload"
	}
	return eqHeader(a.p, b)
}

func eqHeader(a, b *com.Packet) string {
	switch {
	case a.ID != b.ID:
		return "id"
	case a.Job != b.Job:
		return "job"
	case a.Flags != b.Flags:
		return "flags"
	case a.Device != b.Device:
		return "device"
	case len(a.Tags) != len(b.Tags):
		return "tagcount"
	}
	for i := range a.Tags {
		if a.Tags[i] != b.Tags[i] {
			return "tags"
		}
	}
	return ""
}

func eqPacket(a, b *com.Packet) string {
	switch {
	case a.ID != b.ID:
		return "id"
	case a.Job != b.Job:
		return "job"
	case a.Flags != b.Flags:
		return "flags"
	case a.Device != b.Device:
		return "device"
	case len(a.Tags) != len(b.Tags):
		return "tagcount"
	case !bytes.Equal(a.Payload(), b.Payload()):
		return "payload"
	}
	for i := range a.Tags {
		if a.Tags[i] != b.Tags[i] {
			return "tags"
		}
	}
	return ""
}

func runC01(c *Ctx) {
	// A. flag algebra: model differential + independence oracle
	c.Cases("flag", c.N(3000, 60000), func(r *Rng, i int) {
		var f com.Flag
		switch r.Intn(3) {
		case 0:
			f = com.Flag(r.U64())
		case 1:
			f = com.Flag(r.U64() & 0xFFFF)
		default:
			f = com.Flag(uint64(1) << uint(r.Intn(64)))
		}
		v := uint16(r.U64())
		if r.Chance(20) {
			v = []uint16{0, 1, 0xFFFF, 0x8000, 0x7FFF}[r.Intn(5)]
		}
		op := []string{"len", "pos", "group", "clear", "set", "unset"}[r.Intn(6)]
		g := f
		arg := uint64(v)
		switch op {
		case "len":
			g.SetLen(v)
		case "pos":
			g.SetPosition(v)
		case "group":
			g.SetGroup(v)
		case "clear":
			g.Clear()
		case "set":
			arg = uint64(1) << uint(r.Intn(16))
			g.Set(com.Flag(arg))
		case "unset":
			arg = uint64(1) << uint(r.Intn(16))
			g.Unset(com.Flag(arg))
		}
		c.Op(fmt.Sprintf("flag %s %d %d", op, uint64(f), arg),
			fmt.Sprintf("%d len=%d pos=%d group=%d bits=%d", uint64(g), g.Len(), g.Position(), g.Group(), uint16(g)))
		bad := func(what string) {
			c.Fail("flag-independence", "flag:"+op+":"+what, fmt.Sprintf("%s(%d) on %#x gives %#x: %s changed", op, arg, uint64(f), uint64(g), what), map[string]interface{}{"flag": uint64(f), "op": op, "arg": arg})
		}
		frag := uint16(f) | uint16(com.FlagFrag)
		switch op {
		case "len":
			if g.Len() != v {
				bad("len-not-set")
			}
			if g.Position() != f.Position() {
				bad("position")
			}
			if g.Group() != f.Group() {
				bad("group")
			}
			if uint16(g) != frag {
				bad("bits")
			}
		case "pos":
			if g.Position() != v {
				bad("position-not-set")
			}
			if g.Len() != f.Len() {
				bad("len")
			}
			if g.Group() != f.Group() {
				bad("group")
			}
			if uint16(g) != frag {
				bad("bits")
			}
		case "group":
			if g.Group() != v {
				bad("group-not-set")
			}
			if g.Len() != f.Len() {
				bad("len")
			}
			if g.Position() != f.Position() {
				bad("position")
			}
			if uint16(g) != frag {
				bad("bits")
			}
		case "set", "unset":
			if g.Len() != f.Len() || g.Position() != f.Position() || g.Group() != f.Group() {
				bad("fragment-fields")
			}
		case "clear":
			if g.Len() != 0 || g.Position() != 0 || g.Group() != 0 {
				bad("fragment-fields-not-cleared")
			}
			if uint16(f)&1 == 1 && uint16(g) != uint16(f)&^1 {
				bad("bits")
			}
		}
		c.Eval(uint64(f) > 0xFFFF, fmt.Sprint(op, uint64(f), arg))
	})
	// A2. directed: every byte of the 4- and 8-byte length prefixes matters. (i) round trips of
	// payloads around 2^24 (oracle only: too large for the model run); (ii) headers announcing large
	// lengths followed by a short body: model and implementation must both report the truncation.
	c.Cases("biglen", c.N(4, 7), func(r *Rng, i int) {
		n := []int{1 << 24, 1<<24 - 1, 1<<24 + 1, 1<<24 + 70001, 1<<25 + 3, 1<<26 + 5, 1 << 16}[i]
		p := &com.Packet{ID: uint8(0x20 + i), Job: uint16(700 + i)}
		copy(p.Device[:], r.Bytes(32))
		p.Device[0] = 5
		pay := r.Bytes(n)
		p.Write(pay)
		var bb bytes.Buffer
		if err := p.Marshal(&bb); err != nil {
			c.Fail("marshal", "marshal-error", "Marshal failed: "+err.Error(), n)
			return
		}
		wire := append(bb.Bytes(), 0xEE, 0xEF)
		pr := &PieceReader{P: [][]byte{wire[:40], wire[40:50], wire[50 : len(wire)/2], wire[len(wire)/2:]}}
		var q com.Packet
		if err := q.Unmarshal(pr); err != nil {
			c.Fail("roundtrip", "unmarshal-error", fmt.Sprintf("payload of %d bytes: Unmarshal failed: %v", n, err), n)
		} else if !bytes.Equal(q.Payload(), pay) {
			c.Fail("roundtrip", "wire-field:payload", fmt.Sprintf("payload of %d bytes read back as %d bytes", n, len(q.Payload())), n)
		} else if pr.Remaining() != 2 {
			c.Fail("consumption", "wire-consumed-wrong", fmt.Sprintf("payload of %d bytes: %d bytes left, 2 trailing", n, pr.Remaining()), n)
		}
		c.Eval(true, fmt.Sprint("biglen", n))
		c.Count("class:5-large")
	})
	c.Cases("lenhdr", 24, func(r *Rng, i int) {
		var lens = []uint64{1 << 24, 1<<24 + 5, 0x01020304, 0xFF000000, 0x00FF0000, 0x0000FF00, 0xFFFFFFFF, 0x01000000,
			1 << 32, 1<<32 + 3, 0x0102030405060708 & 0x7FFFFFFFFFFFFFFF, 1 << 40, 1 << 48, 1 << 56, 0x00FF000000000000, 0x0000FF0000000000,
			0x000000FF00000000, 0x00000000FF000000, 70000, 65536, 0x00010000, 0x7FFFFFFF, 1<<32 - 1, 1 << 31}
		L := lens[i]
		hdr := make([]byte, 46)
		copy(hdr, r.Bytes(32))
		hdr[0] = 9
		hdr[32] = 0x33
		var lb []byte
		if L < 1<<32 && i != 8 {
			hdr[45] = 5
			lb = []byte{byte(L >> 24), byte(L >> 16), byte(L >> 8), byte(L)}
		} else {
			hdr[45] = 7
			lb = []byte{byte(L >> 56), byte(L >> 48), byte(L >> 40), byte(L >> 32), byte(L >> 24), byte(L >> 16), byte(L >> 8), byte(L)}
		}
		wire := append(append(hdr, lb...), r.Bytes(20)...)
		pcs := r.Split(wire)
		pr := &PieceReader{P: append([][]byte(nil), pcs...)}
		var q com.Packet
		err := q.Unmarshal(pr)
		out := "err " + pktErr(err)
		if err == nil {
			out = "ok " + pktTok(&q)
			c.Fail("truncation", "short-body-accepted", fmt.Sprintf("header announces %d payload bytes, 20 follow, Unmarshal returned no error (payload %d bytes)", L, len(q.Payload())), hx(wire))
		}
		c.Op(fmt.Sprintf("unmarshal 1 %s", hxChunks(pcs)), out+remStr(err == nil, pr.Remaining()))
		c.Eval(true, fmt.Sprint("lenhdr", L))
	})
	// B. wire form round trip, concatenation, short reads
	c.Cases("wire", c.N(700, 12000), func(r *Rng, i int) {
		big := r.Chance(c.N(6, 12))
		k := 1 + r.Intn(3)
		var ps []frozen
		var wire []byte
		for j := 0; j < k; j++ {
			p := genPacket(r, big)
			fz := freeze(p)
			ps = append(ps, fz)
			if len(fz.pay) > 0 && r.Chance(25) {
				// a packet that was (partly or wholly) read before it is sent on - a relay looked at it, or it
				// is marshalled a second time: Marshal rewinds and writes the whole payload
				n := 1 + r.Intn(len(fz.pay))
				if r.Bool() {
					n = len(fz.pay)
				}
				p.Read(make([]byte, n))
				c.Count("wire:read-before-marshal")
			}
			var mw multiWrites
			if err := p.Marshal(&mw); err != nil {
				c.Fail("marshal", "marshal-error", "Marshal failed: "+err.Error(), fz.tok)
				return
			}
			enc := bytes.Join(mw.w, nil)
			small := len(enc) <= 600
			if small {
				c.Op("marshal "+fz.tok, "ok "+hx(enc))
			}
			wire = append(wire, enc...)
			c.Count(fmt.Sprintf("class:%d", lenClassOf(len(fz.pay))))
		}
		trail := r.Bytes(r.Intn(3))
		full := append(append([]byte(nil), wire...), trail...)
		pieces := r.Split(full)
		if len(full) > 3000 && len(pieces) > 400 { // keep the model run fast: coarse pieces for big packets
			pieces = nil
			for rest := full; len(rest) > 0; {
				n := 1 + r.Intn(9000)
				if n > len(rest) {
					n = len(rest)
				}
				pieces = append(pieces, rest[:n])
				rest = rest[n:]
			}
		}
		pr := &PieceReader{P: append([][]byte(nil), pieces...)}
		var outs []string
		okAll, noErr := true, true
		for j := 0; j < k; j++ {
			var q com.Packet
			err := q.Unmarshal(pr)
			if err != nil {
				c.Fail("roundtrip", "unmarshal-error", fmt.Sprintf("packet %d of %d: Unmarshal failed: %v", j, k, err), ps[j].tok)
				okAll, noErr = false, false
				outs = append(outs, "err "+pktErr(err))
				break
			}
			outs = append(outs, "ok "+pktTok(&q))
			if d := eqFrozen(ps[j], &q); d != "" {
				c.Fail("roundtrip", "wire-field:"+d, fmt.Sprintf("packet %d of %d: field %s differs after Marshal/Unmarshal", j, k, d), ps[j].tok)
				okAll = false
			}
		}
		if okAll && pr.Remaining() != len(trail) {
			c.Fail("consumption", "wire-consumed-wrong", fmt.Sprintf("%d bytes left on the stream, %d trailing bytes were appended", pr.Remaining(), len(trail)), ps[0].tok)
		}
		if len(full) <= 40000 {
			c.Op(fmt.Sprintf("unmarshal %d %s", k, hxChunks(pieces)), strings.Join(outs, " ")+remStr(noErr, pr.Remaining()))
		}
		c.Eval(len(pieces) > 1 || len(ps[0].p.Tags) > 0 || len(wire) > 300, hx(wire[:minInt(len(wire), 64)])+fmt.Sprint(len(wire)))
		// truncations / corruptions of the first packet: model differential only
		if len(wire) < 400 {
			for t := 0; t < 6; t++ {
				mut := append([]byte(nil), wire...)
				if r.Bool() {
					mut = mut[:r.Intn(len(mut))]
				} else {
					mut[32+r.Intn(14)] = byte(r.Intn(9))
				}
				if len(mut) > 45 && mut[45] >= 5 { // 4/8-byte announced lengths: C04 territory
					continue
				}
				pcs := r.Split(mut)
				pr := &PieceReader{P: append([][]byte(nil), pcs...)}
				var q com.Packet
				err := q.Unmarshal(pr)
				out := "err " + pktErr(err)
				if err == nil {
					out = "ok " + pktTok(&q)
				}
				c.Op(fmt.Sprintf("unmarshal 1 %s", hxChunks(pcs)), out+remStr(err == nil, pr.Remaining()))
				if err == nil {
					c.Count("mut:ok")
				} else {
					c.Count("mut:err:" + pktErr(err))
				}
			}
		}
	})
	// C. nested stream form through both codec implementations
	c.Cases("stream", c.N(700, 12000), func(r *Rng, i int) {
		big := r.Chance(c.N(6, 12))
		k := 1 + r.Intn(3)
		var ps []frozen
		var ch data.Chunk
		switch r.Intn(5) { // the container's storage was used before (a batch packet is built in a reused buffer)
		case 0:
			ch.Write(bytes.Repeat([]byte{0xFF}, 64+r.Intn(3000)))
			ch.Reset()
			c.Count("stream:container-reused")
		case 1:
			g := bytes.Repeat([]byte{0xA5}, 64+r.Intn(3000))
			ch.Write(g)
			for len(g) > 0 {
				n, _ := ch.Read(make([]byte, 1+r.Intn(len(g))))
				if n == 0 {
					break
				}
				g = g[n:]
			}
			c.Count("stream:container-drained")
		}
		var mw multiWrites
		sw := data.NewWriter(&mw)
		for j := 0; j < k; j++ {
			p := genPacket(r, big)
			fz := freeze(p)
			ps = append(ps, fz)
			before := len(ch.Payload())
			if err := p.MarshalStream(&ch); err != nil {
				c.Fail("marshal", "marshalstream-error", "MarshalStream failed: "+err.Error(), fz.tok)
				return
			}
			if err := p.MarshalStream(sw); err != nil {
				c.Fail("marshal", "marshalstream-error", "MarshalStream (stream writer) failed: "+err.Error(), fz.tok)
				return
			}
			if len(ch.Payload())-before <= 600 {
				c.Op("marshalstream "+fz.tok, "ok "+hx(ch.Payload()[before:]))
			}
			if d := eqFrozen(fz, p); d != "" {
				c.Fail("marshal", "marshalstream-mutates:"+d, "MarshalStream changed the packet it wrote", fz.tok)
			}
		}
		enc := append([]byte(nil), ch.Payload()...)
		if !bytes.Equal(enc, bytes.Join(mw.w, nil)) {
			c.Fail("writers-agree", "marshalstream-writers-differ", "MarshalStream differs between Chunk and stream writer", ps[0].tok)
		}
		trail := r.Bytes(r.Intn(3))
		full := append(append([]byte(nil), enc...), trail...)
		for _, reader := range []string{"chunk", "stream"} {
			pieces := r.Split(full)
			if len(full) > 3000 && len(pieces) > 400 {
				pieces = [][]byte{full[:len(full)/2], full[len(full)/2:]}
			}
			var rd data.Reader
			var rem func() int
			if reader == "chunk" {
				cc := data.NewChunk(append([]byte(nil), full...))
				rd, rem = cc, cc.Remaining
			} else {
				pr := &PieceReader{P: append([][]byte(nil), pieces...)}
				rd, rem = data.NewReader(pr), pr.Remaining
			}
			var outs []string
			okAll := true
			for j := 0; j < k; j++ {
				var q com.Packet
				if err := q.UnmarshalStream(rd); err != nil {
					c.Fail("roundtrip", "unmarshalstream-error:"+reader, fmt.Sprintf("packet %d of %d: UnmarshalStream failed: %v", j, k, err), ps[j].tok)
					okAll = false
					outs = append(outs, "err "+pktErr(err))
					break
				}
				outs = append(outs, "ok "+pktTok(&q))
				if d := eqFrozen(ps[j], &q); d != "" {
					c.Fail("roundtrip", "stream-field:"+d, fmt.Sprintf("packet %d of %d: field %s differs after MarshalStream/UnmarshalStream (%s reader)", j, k, d, reader), ps[j].tok)
					okAll = false
				}
			}
			if okAll && rem() != len(trail) {
				c.Fail("consumption", "stream-consumed-wrong:"+reader, fmt.Sprintf("%d bytes left, %d trailing", rem(), len(trail)), ps[0].tok)
			}
			if len(full) <= 40000 {
				pc := pieces
				if reader == "chunk" {
					pc = [][]byte{full}
				}
				c.Op(fmt.Sprintf("unmarshalstream %s %d %s", reader, k, hxChunks(pc)), strings.Join(outs, " ")+remStr(!strings.Contains(strings.Join(outs, " "), "err "), rem()))
			}
		}
		c.Eval(true, hx(enc[:minInt(len(enc), 64)])+fmt.Sprint(len(enc)))
	})
	runC01S3(c) // extension round 3: c01_s3.go (flag-bit laws of Set/Unset, setter sequences)
}

func remStr(ok bool, n int) string {
	if !ok {
		return " rem=?"
	}
	return fmt.Sprintf(" rem=%d", n)
}

func lenClassOf(n int) int {
	switch {
	case n < 256:
		return 1
	case n < 65536:
		return 3
	}
	return 5
}

func minInt(a, b int) int {
	if a < b {
		return a
	}
	return b
}
