package main

import (
	"fmt"

	"github.com/iDigitalFlame/xmt/com"
)

// C01, extension round 3 ("xlate"): direct oracles for the flag-bit operations. The models of
// com/flag.go are now proved equal to definitions regenerated from the source (xlate.go,
// XMT/TieXlate.lean); when such a proof breaks the Lean build fails and the model differential cannot
// run, so the search for a concrete failing input rests on the direct oracles alone. Group "flag"
// (c01.go) checks the three setters and Clear field by field but Set/Unset only on the fragment
// fields and only with single-bit masks; this group adds the flag-bit laws of Set/Unset (theorems
// flag_set_fields / flag_unset_fields) with arbitrary masks, whole-word masks, and sequences of
// setters on one word (each field keeps the last value written to it).
func runC01S3(c *Ctx) {
	c.Cases("flagbits", c.N(1500, 30000), func(r *Rng, i int) {
		var f com.Flag
		switch r.Intn(4) {
		case 0:
			f = com.Flag(r.U64())
		case 1:
			f = com.Flag(r.U64() & 0xFFFF)
		case 2:
			f = com.Flag(^uint64(0))
		default:
			f = com.Flag(uint64(1) << uint(r.Intn(64)))
		}
		var m uint64
		switch r.Intn(4) {
		case 0:
			m = r.U64() & 0xFFFF
		case 1:
			m = uint64(1) << uint(r.Intn(16))
		case 2:
			m = []uint64{0, 0xFFFF, 0x8000, 1, 0xFFFE}[r.Intn(5)]
		default:
			m = r.U64() // a mask that reaches into the fragment fields
		}
		op := []string{"set", "unset"}[r.Intn(2)]
		g := f
		if op == "set" {
			g.Set(com.Flag(m))
		} else {
			g.Unset(com.Flag(m))
		}
		c.Op(fmt.Sprintf("flag %s %d %d", op, uint64(f), m),
			fmt.Sprintf("%d len=%d pos=%d group=%d bits=%d", uint64(g), g.Len(), g.Position(), g.Group(), uint16(g)))
		bad := func(what string) {
			c.Fail("flag-independence", "flag:"+op+":"+what, fmt.Sprintf("%s(%#x) on %#x gives %#x: %s", op, m, uint64(f), uint64(g), what),
				map[string]interface{}{"flag": uint64(f), "op": op, "arg": m})
		}
		// bit by bit: Set turns on exactly the mask's bits, Unset turns off exactly the mask's bits
		for b := uint(0); b < 64; b++ {
			fb, mb, gb := uint64(f)>>b&1, m>>b&1, uint64(g)>>b&1
			want := fb
			if mb == 1 {
				want = 1
				if op == "unset" {
					want = 0
				}
			}
			if gb != want {
				if b < 16 {
					bad("bits")
				} else {
					bad("fragment-fields")
				}
				break
			}
		}
		c.Eval(m > 1 && uint64(f) != 0, fmt.Sprint("fb", op, uint64(f), m))
		c.Count("flagbits:" + op)
	})
	// sequences of setters on one word: afterwards every field holds the last value written to it,
	// unwritten fields hold their initial value, the flag bits are the initial ones plus FlagFrag
	c.Cases("flagseq", c.N(500, 10000), func(r *Rng, i int) {
		f0 := com.Flag(r.U64())
		if r.Chance(30) {
			f0 = com.Flag(r.U64() & 0xFFFF)
		}
		f := f0
		wl, wp, wg := f.Len(), f.Position(), f.Group()
		n := 1 + r.Intn(6)
		desc := fmt.Sprintf("%#x", uint64(f0))
		for k := 0; k < n; k++ {
			v := uint16(r.U64())
			if r.Chance(25) {
				v = []uint16{0, 1, 0xFFFF, 0x8000}[r.Intn(4)]
			}
			before := f
			var op string
			switch r.Intn(3) {
			case 0:
				op = "len"
				f.SetLen(v)
				wl = v
			case 1:
				op = "pos"
				f.SetPosition(v)
				wp = v
			default:
				op = "group"
				f.SetGroup(v)
				wg = v
			}
			desc += fmt.Sprintf(" %s(%d)", op, v)
			c.Op(fmt.Sprintf("flag %s %d %d", op, uint64(before), v),
				fmt.Sprintf("%d len=%d pos=%d group=%d bits=%d", uint64(f), f.Len(), f.Position(), f.Group(), uint16(f)))
		}
		what := ""
		switch {
		case f.Len() != wl:
			what = "len"
		case f.Position() != wp:
			what = "position"
		case f.Group() != wg:
			what = "group"
		case uint16(f) != uint16(f0)|uint16(com.FlagFrag):
			what = "bits"
		}
		if what != "" {
			c.Fail("flag-independence", "flagseq:"+what, fmt.Sprintf("%s gives %#x: %s is not the last value written (want len=%d pos=%d group=%d)", desc, uint64(f), what, wl, wp, wg),
				map[string]interface{}{"sequence": desc})
		}
		c.Eval(n > 1, "fs"+desc)
	})
}
