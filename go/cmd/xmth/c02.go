package main

import (
	"bytes"
	"fmt"
	"sort"
	"strings"

	"github.com/iDigitalFlame/xmt/c2"
	"github.com/iDigitalFlame/xmt/com"
	"github.com/iDigitalFlame/xmt/com/limits"
	"github.com/iDigitalFlame/xmt/device"
)

func init() {
	factProviders = append(factProviders, func(f *factSet, repo string) error {
		f.Nat("fragMaxMisses", uint64(c2.VerifC02FragMaxMisses))
		f.Nat("fragMax", uint64(c2.VerifC02FragMax))
		f.Nat("svDrop", uint64(c2.VerifC02SvDrop))
		f.Nat("svRegister", uint64(c2.VerifC02SvRegister))
		f.Nat("svComplete", uint64(c2.VerifC02SvComplete))
		f.Nat("limitsFrag", uint64(limits.Frag))
		f.Nat("limitsPackets", uint64(limits.Packets))
		return nil
	})
	register("C02", runC02)
}

func newDevID(r *Rng) device.ID {
	var d device.ID
	copy(d[:], r.Bytes(32))
	if d[0] == 0 {
		d[0] = 7
	}
	return d
}

// wireCopy sends a packet through Marshal / Unmarshal (what the receiver really gets).
func wireCopy(p *com.Packet) (*com.Packet, error) {
	var b bytes.Buffer
	if err := p.Marshal(&b); err != nil {
		return nil, err
	}
	var q com.Packet
	if err := q.Unmarshal(&b); err != nil {
		return nil, err
	}
	return &q, nil
}

var c02F = []int{64, 100, 257, 1000, 4096}

// genBigPacket makes a packet whose Size() exceeds F: payload k*F + r, r in [-80, 80].
func genBigPacket(r *Rng, F int, dev device.ID) *com.Packet {
	p := &com.Packet{ID: uint8(0x10 + r.Intn(0xE0)), Job: uint16(2 + r.Intn(65000)), Device: dev}
	if r.Chance(12) {
		p.Job = 0 // queued without a Job number: write() gives it one before splitting
	}
	if r.Chance(40) {
		p.Flags = com.Flag([]uint64{0x8, 0x10, 0x40, 0x100, 0x118, 0x8000}[r.Intn(6)]) // Error, Channel, Oneshot?, Crypt ...
		if p.Flags&com.FlagOneshot != 0 {
			p.Flags = 0
		}
	}
	k := 1 + r.Intn(4)
	d := r.Intn(161) - 80
	n := k*F + d
	for n+com.PacketHeaderSize+1 <= F || n <= 0 {
		n += F
	}
	p.Write(r.Bytes(n))
	return p
}

type fragCase struct {
	orig  frozen
	frags []*com.Packet // wire copies, in sender order
	g     uint16
}

func groupsStr(s *c2.Session) string {
	gs := s.VerifC02Groups()
	ks := make([]int, 0, len(gs))
	for k := range gs {
		ks = append(ks, int(k))
	}
	sort.Ints(ks)
	o := make([]string, len(ks))
	for i, k := range ks {
		v := gs[uint16(k)]
		o[i] = fmt.Sprintf("%d:%d/%d/%d/%d", k, v[0], v[1], v[2], v[3])
	}
	if len(o) == 0 {
		return "-"
	}
	return strings.Join(o, ",")
}

// group identifiers the real sender handed out during this run (Session.write draws a random 16-bit
// identifier per split packet): the receiver keys its reassembly state by this identifier alone, so
// two groups open at the same time must not share one. A repeat within one case happens by chance
// once in 65536 pairs; more than that means the field is being lost on the way.
var (
	c02GroupsSeen, c02GroupsDup int
	c02GroupDupEx              string
	c02GroupIDs                = map[uint16]int{}
)

func c02GroupVerdict(c *Ctx) {
	c.Cases("groupids", 1, func(r *Rng, i int) {
		in := map[string]interface{}{"groups": c02GroupsSeen, "distinct_ids": len(c02GroupIDs), "repeats_within_a_case": c02GroupsDup, "example": c02GroupDupEx}
		if c02GroupsDup >= 3 {
			c.Fail("split", "split:group-ids-repeat", fmt.Sprintf("%d of %d split packets got a group identifier already used by another group of the same case (%s): concurrent groups share one reassembly state", c02GroupsDup, c02GroupsSeen, c02GroupDupEx), in)
		}
		if c02GroupsSeen >= 40 && len(c02GroupIDs)*2 < c02GroupsSeen {
			c.Fail("split", "split:group-ids-not-distinct", fmt.Sprintf("%d split packets got only %d distinct group identifiers", c02GroupsSeen, len(c02GroupIDs)), in)
		}
		c.Eval(c02GroupsSeen > 0, "groupids")
	})
}

func runC02(c *Ctx) {
	saveF := limits.Frag
	defer func() { limits.Frag = saveF }()
	defer c02GroupVerdict(c)
	devA := device.ID{1, 2, 3}
	c.Cases("frag", c.N(500, 8000), func(r *Rng, i int) {
		F := c02F[r.Intn(len(c02F))]
		if c.Thorough() && r.Chance(10) {
			F = 47 + r.Intn(300)
		}
		limits.Frag = F
		devB := newDevID(r)
		ngroups := 1
		scen := r.Intn(6)
		if scen == 3 {
			ngroups = 2 + r.Intn(2)
		}
		var cases []fragCase
		used := map[uint16]bool{}
		for gi := 0; gi < ngroups; gi++ {
			p := genBigPacket(r, F, devB)
			fz := freeze(p)
			size := p.Size()
			snd, _ := c2.VerifC02NewSession(devA, r.Bool(), 70000)
			if err := snd.VerifC02Write(true, p); err != nil {
				c.Fail("split", "split:write-error", "Session.write failed: "+err.Error(), fz.tok)
				return
			}
			frs := snd.VerifC02Drain()
			if len(frs) == 0 {
				c.Fail("split", "split:nothing-queued", "Session.write queued nothing", fz.tok)
				return
			}
			g := frs[0].Flags.Group()
			c02GroupsSeen++
			c02GroupIDs[g]++
			if used[g] {
				// the sender drew the same random group twice within one case: by chance once in 65536
				// pairs (outside the property's quantifier) - counted, and reported at the end of the run
				// when it happens more often than chance allows (the group field is being lost)
				c02GroupsDup++
				c02GroupDupEx = fmt.Sprintf("group id 0x%X of %s", g, fz.tok)
				return
			}
			used[g] = true
			toks := make([]string, len(frs))
			var cat []byte
			bad := ""
			for j, f := range frs {
				toks[j] = pktTok(f)
				cat = append(cat, f.Payload()...)
				switch {
				case len(f.Payload()) > F:
					bad = "fragment-larger-than-limit"
				case f.ID != p.ID || (fz.p.Job != 0 && f.Job != fz.p.Job) || f.Job != frs[0].Job || f.Job == 0:
					bad = "fragment-id-job"
				case int(f.Flags.Len()) != len(frs):
					bad = "fragment-len-field"
				case int(f.Flags.Position()) != j:
					bad = "fragment-position-field"
				case f.Flags.Group() != g:
					bad = "fragment-group-field"
				case f.Device != devB:
					bad = "fragment-device"
				case f.Flags&com.FlagFrag == 0:
					bad = "fragment-not-marked"
				}
			}
			if !bytes.Equal(cat, fz.pay) {
				bad = "payload-concat"
			}
			if bad != "" {
				c.Fail("split", "split:"+bad, fmt.Sprintf("F=%d size=%d: %s", F, size, bad), map[string]interface{}{"F": F, "packet": fz.tok})
			}
			c.Op(fmt.Sprintf("split %d %d %d %s", F, g, frs[0].Job, fz.tok), strings.Join(toks, " "))
			c.Count(fmt.Sprintf("frags:%d", minInt(len(frs), 6)))
			if len(frs) > 0 && len(frs[len(frs)-1].Payload()) == 0 {
				c.Count("empty-last-fragment")
			}
			fc := fragCase{orig: fz, g: g}
			for _, f := range frs {
				w, err := wireCopy(f)
				if err != nil {
					c.Fail("split", "split:fragment-not-marshalable", err.Error(), fz.tok)
					return
				}
				fc.frags = append(fc.frags, w)
			}
			// any 16-bit group identifier could have been drawn: relabel some transfers with the boundary
			// identifiers (0 is a legal group)
			if g2 := []uint16{0, 0, 1, 0xFFFF, 0x8000}[r.Intn(5)]; r.Chance(25) && !used[g2] {
				used[g2] = true
				for _, w := range fc.frags {
					w.Flags.SetGroup(g2)
				}
				fc.g = g2
				c.Count(fmt.Sprintf("group-relabelled:%#x", g2))
			}
			cases = append(cases, fc)
		}
		// arrival order
		type arr struct {
			gi int
			f  *com.Packet
		}
		var order []arr
		complete := make([]bool, len(cases)) // all fragments arrive
		zeroFirst := make([]bool, len(cases))
		for gi, fc := range cases {
			idx := make([]int, len(fc.frags))
			for j := range idx {
				idx[j] = j
			}
			shuffle := func(a []int) {
				for j := len(a) - 1; j > 0; j-- {
					k := r.Intn(j + 1)
					a[j], a[k] = a[k], a[j]
				}
			}
			complete[gi], zeroFirst[gi] = true, true
			switch scen {
			case 0: // in order
			case 1, 3: // fragment 0 first, the rest in any order
				shuffle(idx[1:])
			case 2: // any order
				shuffle(idx)
				zeroFirst[gi] = idx[0] == 0
			case 4: // some fragments never arrive
				shuffle(idx[1:])
				drop := 1 + r.Intn(len(idx)-1)
				idx = idx[:len(idx)-drop]
				if r.Chance(20) {
					idx = idx[1:] // fragment 0 itself is missing
					zeroFirst[gi] = false
				}
				complete[gi] = false
			case 5: // duplicates of an already delivered group's fragments after completion
				shuffle(idx[1:])
			}
			for _, j := range idx {
				order = append(order, arr{gi, fc.frags[j]})
			}
		}
		if len(cases) > 1 { // interleave groups, keeping each group's own order
			var mixed []arr
			pos := make([]int, len(cases))
			per := make([][]arr, len(cases))
			for _, a := range order {
				per[a.gi] = append(per[a.gi], a)
			}
			for len(mixed) < len(order) {
				gi := r.Intn(len(cases))
				if pos[gi] < len(per[gi]) {
					mixed = append(mixed, per[gi][pos[gi]])
					pos[gi]++
				}
			}
			order = mixed
		}
		rcv, msgr := c2.VerifC02NewSession(devB, r.Bool(), 256)
		var arrToks, outs []string
		delivered := make([][]*com.Packet, len(cases))
		// wake-ups of the receiver between arrivals (one fragment per wake-up is the normal rhythm):
		// markSweepFrags runs, but never often enough in a row to let a group in flight expire
		miss := make([]int, len(cases))
		started := make([]bool, len(cases))
		for ai, a := range order {
			if ai > 0 && r.Chance(45) {
				ok := true
				for gi := range cases {
					if started[gi] && miss[gi]+2 >= c2.VerifC02FragMaxMisses {
						ok = false
					}
				}
				if ok {
					rcv.VerifC02Sweep()
					arrToks, outs = append(arrToks, "sweep"), append(outs, "swept")
					for gi := range cases {
						miss[gi]++
					}
					c.Count("sweep-between-arrivals")
				}
			}
			started[a.gi], miss[a.gi] = true, 0
			arrToks = append(arrToks, pktTok(a.f))
			before := len(msgr.Evs)
			cp, _ := wireCopy(a.f) // receive consumes / clears packets
			err := rcv.VerifC02Receive(cp)
			sent := rcv.VerifC02Drain()
			out := "stored"
			switch {
			case err != nil:
				out = "err:" + strings.ReplaceAll(err.Error(), " ", "_")
			case len(msgr.Evs) > before:
				v := msgr.Evs[len(msgr.Evs)-1]
				out = "deliver:" + pktTok(v)
				delivered[a.gi] = append(delivered[a.gi], v)
			case len(sent) > 0 && sent[0].ID == c2.VerifC02SvDrop:
				out = "drop"
			}
			outs = append(outs, out)
		}
		final := groupsStr(rcv)
		c.Op(fmt.Sprintf("recv %s", strings.Join(arrToks, " ")), strings.Join(outs, " ")+" groups="+final)
		// oracles
		for gi, fc := range cases {
			in := map[string]interface{}{"F": F, "scenario": scen, "packet": fc.orig.tok[:minInt(len(fc.orig.tok), 200)], "payload_len": len(fc.orig.pay), "fragments": len(fc.frags)}
			switch {
			case complete[gi] && zeroFirst[gi]:
				if len(delivered[gi]) != 1 {
					c.Fail("reassemble", fmt.Sprintf("reassemble:delivered-%d-times", len(delivered[gi])), fmt.Sprintf("F=%d payload=%d fragments=%d: group delivered %d times", F, len(fc.orig.pay), len(fc.frags), len(delivered[gi])), in)
					continue
				}
				v := delivered[gi][0]
				if d := eqFrozen(fc.orig, v); d != "" && d != "flags" && d != "tags" && d != "tagcount" &&
					!(d == "job" && fc.orig.p.Job == 0 && v.Job == fc.frags[0].Job && v.Job != 0) { // a packet queued without a Job number arrives with the one write() drew
					c.Fail("reassemble", "reassemble:field:"+d, "reassembled packet differs from the original in "+d, in)
				}
				if uint16(v.Flags) != uint16(fc.orig.p.Flags) || v.Flags>>16 != 0 {
					c.Fail("reassemble", "reassemble:field:flags", fmt.Sprintf("flags %#x after reassembly, original %#x", uint64(v.Flags), uint64(fc.orig.p.Flags)), in)
				}
			case complete[gi] && !zeroFirst[gi]:
				c.Count("order:first-not-zero")
				if len(delivered[gi]) != 1 {
					c.Fail("reassemble", "order:first-arrival-not-fragment-0", fmt.Sprintf("all %d fragments arrived, the first one not being fragment 0: delivered %d times", len(fc.frags), len(delivered[gi])), in)
				}
			default:
				if len(delivered[gi]) != 0 {
					c.Fail("reassemble", "incomplete-group-delivered", "a group with missing fragments delivered a packet", in)
				}
			}
		}
		allDone := true
		for gi := range cases {
			if !complete[gi] || !zeroFirst[gi] {
				allDone = false
			}
		}
		if allDone && final != "-" {
			c.Fail("residual", "residual-state-after-completion", "reassembly state left behind: "+final, map[string]interface{}{"F": F, "scenario": scen})
		}
		if !allDone { // stale groups disappear after fragMaxMisses sweeps
			for k := 0; k < c2.VerifC02FragMaxMisses; k++ {
				rcv.VerifC02Sweep()
			}
			if g := groupsStr(rcv); g != "-" {
				c.Fail("residual", "sweep-leaves-state", "groups left after sweeping: "+g, map[string]interface{}{"F": F, "scenario": scen})
			}
		}
		c.Eval(true, fmt.Sprint(F, scen, len(order), cases[0].orig.tok[:minInt(80, len(cases[0].orig.tok))]))
		c.Count(fmt.Sprintf("scenario:%d", scen))
	})
	// D. sender and receiver together: several groups queued on ONE real sender (interleaved), sent
	// with the real Session.next, every transmission through Marshal/Unmarshal into the real receive()
	// of the peer; one transmission is lost in transit; the peer's SvDrop replies are fed back into
	// the real receive() of the sender (which then skips the abandoned group in next()). Every group
	// that lost nothing must arrive exactly once and intact, the others must deliver nothing.
	c.Cases("senddrop", c.N(300, 4000), func(r *Rng, i int) {
		F := c02F[r.Intn(len(c02F))]
		limits.Frag = F
		dev := newDevID(r)
		snd, _ := c2.VerifC02NewSession(dev, false, 70000)
		rcv, msgr := c2.VerifC02NewSession(dev, true, 256)
		ng := 2 + r.Intn(2)
		var per [][]*com.Packet
		var origs []frozen
		gids := map[uint16]int{}
		var jobsOf []uint16
		for gi := 0; gi < ng; gi++ {
			p := genBigPacket(r, F, dev)
			p.Job = uint16(100 + gi) // distinct jobs: the groups are independent packets
			if gi == 0 && r.Chance(25) {
				p.Job = 0 // a packet queued without a Job number (Session.Write of a user packet)
				if r.Bool() {
					// ... relayed for a proxied client (Proxy.talk sets the flag before parent.write): neither
					// write nor verifyPacket gives such a packet a Job, so all of its fragments keep Job 0
					p.Flags |= com.FlagProxy
					c.Count("senddrop:proxied-job0")
				}
			}
			if gi == 1 && r.Chance(20) {
				p.Job = 1 // the smallest Job number there is
			}
			origs = append(origs, freeze(p))
			if err := snd.VerifC02Write(true, p); err != nil {
				return
			}
			frs := snd.VerifC02Drain()
			if len(frs) < 2 {
				return
			}
			c02GroupsSeen++
			c02GroupIDs[frs[0].Flags.Group()]++
			if _, dup := gids[frs[0].Flags.Group()]; dup {
				c02GroupsDup++
				c02GroupDupEx = fmt.Sprintf("group id 0x%X (senddrop, F=%d)", frs[0].Flags.Group(), F)
				return
			}
			gids[frs[0].Flags.Group()] = gi
			// the Job the fragments carry: the packet's own, or the one write drew for a packet queued
			// without a Job number. Delivered packets are attributed to their group by this number, so a
			// drawn number that equals another group's (1 in 65536) would mis-attribute: such a case is
			// outside what this group can judge and is skipped (a false alarm of exactly this kind was seen
			// once in a thorough run: B.1)
			for _, j := range jobsOf {
				if j == frs[0].Job {
					c.Count("senddrop:drawn-job-collides(skipped)")
					return
				}
			}
			jobsOf = append(jobsOf, frs[0].Job)
			per = append(per, frs)
		}
		// queue order: group after group, or interleaved keeping each group's own order
		pos := make([]int, ng)
		total := 0
		for _, f := range per {
			total += len(f)
		}
		inter := r.Bool()
		for q, gi := 0, 0; q < total; q++ {
			if inter {
				gi = r.Intn(ng)
			}
			for pos[gi] >= len(per[gi]) {
				gi = (gi + 1) % ng
			}
			snd.VerifC02Queue(per[gi][pos[gi]])
			pos[gi]++
		}
		lose := r.Intn(total) // index of the transmission that is lost
		if r.Chance(60) {
			lose = r.Intn(minInt(total, 3)) // mostly an early one: the group is then abandoned by the peer
		}
		if r.Chance(15) {
			lose = -1
		}
		mark := -1
		if r.Chance(40) {
			mark = r.Intn(total)
		}
		hurt := make([]bool, ng)
		delivered := make([]int, ng)
		var deliveredPk []*com.Packet
		in := map[string]interface{}{"F": F, "groups": ng, "interleaved": inter, "lost_transmission": lose}
		for tx := 0; tx < 4*total+8; tx++ {
			if snd.VerifC02SendLen() == 0 && snd.VerifC02Peek() == nil {
				break
			}
			n := snd.VerifC02Next(true)
			if n == nil {
				break
			}
			w, err := wireCopy(n)
			if err != nil {
				c.Fail("split", "senddrop:not-marshalable", err.Error(), in)
				return
			}
			leaves, err := goUnpack(w, 0)
			if err != nil {
				c.Fail("split", "senddrop:not-unpackable", err.Error(), in)
				return
			}
			if tx == lose {
				for _, l := range leaves {
					if gi, ok := gids[l.Flags.Group()]; ok && l.Flags&com.FlagFrag != 0 {
						hurt[gi] = true
					}
				}
				continue
			}
			w2, _ := wireCopy(n)
			if tx == mark {
				// the per-hop marks the connection code puts on whatever single packet travels at that
				// moment (Session.session: FlagChannel, channelWrite: FlagChannelEnd)
				w2.Flags |= []com.Flag{com.FlagChannel, com.FlagChannelEnd}[r.Intn(2)]
				c.Count("senddrop:hop-mark")
			}
			before := len(msgr.Evs)
			if err := rcv.VerifC02Receive(w2); err != nil {
				c.Fail("reassemble", "senddrop:receive-error", err.Error(), in)
				return
			}
			for _, v := range msgr.Evs[before:] {
				for gi := range origs {
					if v.Job == jobsOf[gi] {
						delivered[gi]++
						deliveredPk = append(deliveredPk, v)
						if d := eqFrozen(origs[gi], v); d != "" && d != "flags" && d != "tags" && d != "tagcount" && !(d == "job" && origs[gi].p.Job == 0 && v.Job != 0) {
							c.Fail("reassemble", "senddrop:field:"+d, "reassembled packet differs from the original in "+d, in)
						}
					}
				}
			}
			// the peer's replies (SvDrop for a group it has no state for) go back to the sender
			for _, rp := range rcv.VerifC02Drain() {
				if rp.ID == c2.VerifC02SvDrop {
					cp, _ := wireCopy(rp)
					snd.VerifC02Receive(cp)
					c.Count("senddrop:svdrop-fed-back")
				}
			}
		}
		for gi := range origs {
			switch {
			case !hurt[gi] && delivered[gi] != 1:
				c.Fail("reassemble", fmt.Sprintf("senddrop:intact-group-delivered-%d-times", delivered[gi]),
					fmt.Sprintf("F=%d: a group none of whose fragments was lost was delivered %d times (another group was abandoned by the peer)", F, delivered[gi]), in)
			case hurt[gi] && delivered[gi] != 0:
				c.Fail("reassemble", "senddrop:incomplete-group-delivered", "a group with a lost fragment delivered a packet", in)
			}
		}
		c.Count(fmt.Sprintf("senddrop:lost=%v,inter=%v", lose >= 0, inter))
		c.Eval(true, fmt.Sprint("senddrop", F, ng, inter, lose, origs[0].tok[:minInt(60, len(origs[0].tok))]))
	})
	runC02S3(c) // round s3: repeated fragments, wake-ups in any number (c02_s3.go)
}
