package main

// Property C02, round s3: (1) arrival sequences that REPEAT a fragment, (2) wake-ups of the receiver
// (markSweepFrags) interleaved with arrivals in any number, including long enough to let a group
// expire, and the late fragments that follow. Both groups drive the real in-package receive() /
// markSweepFrags, compare every event with the Lean model (op recvs: answer and reassembly state after
// each event) and evaluate the property directly.

import (
	"bytes"
	"fmt"
	"strings"

	"github.com/iDigitalFlame/xmt/c2"
	"github.com/iDigitalFlame/xmt/com"
	"github.com/iDigitalFlame/xmt/com/limits"
	"github.com/iDigitalFlame/xmt/device"
)

// s3Frag is a fragment kept as header fields + payload bytes, so that it can be sent any number of
// times (Marshal moves the read cursor of a packet).
type s3Frag struct {
	id    uint8
	job   uint16
	flags com.Flag
	dev   device.ID
	pay   []byte
}

func (f *s3Frag) pkt() *com.Packet {
	q := &com.Packet{ID: f.id, Job: f.job, Flags: f.flags, Device: f.dev}
	if len(f.pay) > 0 {
		q.Write(f.pay)
	}
	return q
}
func (f *s3Frag) tok() string { return pktTok(f.pkt()) }

// s3Arrive hands one fragment (a fresh wire copy) to the real receive(); a panic is contained.
// out is the canonical answer (as in the frag group), v the packet handed to the handler (if any),
// drop the SvDrop reply queued for the peer (if any).
func s3Arrive(rcv *c2.Session, msgr *c2.VerifC02Msgr, f *s3Frag) (out string, v, drop *com.Packet, pan interface{}) {
	before := len(msgr.Evs)
	cp, _ := wireCopy(f.pkt())
	var err error
	func() {
		defer func() {
			if e := recover(); e != nil {
				pan = e
			}
		}()
		err = rcv.VerifC02Receive(cp)
	}()
	if pan != nil {
		return "panic", nil, nil, pan
	}
	sent := rcv.VerifC02Drain()
	out = "stored"
	switch {
	case err != nil:
		out = "err:" + strings.ReplaceAll(err.Error(), " ", "_")
	case len(msgr.Evs) > before:
		v = msgr.Evs[len(msgr.Evs)-1]
		out = "deliver:" + pktTok(v)
	case len(sent) > 0 && sent[0].ID == c2.VerifC02SvDrop:
		out, drop = "drop", sent[0]
	}
	return
}

// s3Split splits one generated packet with the real Session.write and returns wire copies.
func s3Split(r *Rng, F int, dev device.ID, p *com.Packet) (frozen, []*s3Frag, bool) {
	if p == nil {
		p = genBigPacket(r, F, dev)
	}
	fz := freeze(p)
	snd, _ := c2.VerifC02NewSession(device.ID{1, 2, 3}, r.Bool(), 70000)
	if err := snd.VerifC02Write(true, p); err != nil {
		return fz, nil, false
	}
	frs := snd.VerifC02Drain()
	ws := make([]*s3Frag, 0, len(frs))
	for _, f := range frs {
		w, err := wireCopy(f)
		if err != nil {
			return fz, nil, false
		}
		ws = append(ws, &s3Frag{id: w.ID, job: w.Job, flags: w.Flags, dev: w.Device, pay: append([]byte(nil), w.Payload()...)})
	}
	return fz, ws, len(ws) >= 2
}

// s3Same: the reassembled packet against the original (as the frag group compares them).
func s3Same(orig frozen, first *s3Frag, v *com.Packet) string {
	if d := eqFrozen(orig, v); d != "" && d != "flags" && d != "tags" && d != "tagcount" &&
		!(d == "job" && orig.p.Job == 0 && v.Job == first.job && v.Job != 0) {
		return d
	}
	if uint16(v.Flags) != uint16(orig.p.Flags) || v.Flags>>16 != 0 {
		return "flags"
	}
	return ""
}

func s3Shuffled(r *Rng, m int) []int {
	idx := make([]int, m)
	for j := range idx {
		idx[j] = j
	}
	for j := m - 1; j > 1; j-- { // fragment 0 stays first
		k := 1 + r.Intn(j)
		idx[j], idx[k] = idx[k], idx[j]
	}
	return idx
}

func runC02S3(c *Ctx) {
	saveF := limits.Frag
	defer func() { limits.Frag = saveF }()
	fmm := c2.VerifC02FragMaxMisses

	// 1. repeated fragments
	c.Cases("dup", c.N(150, 2500), func(r *Rng, i int) {
		F := c02F[r.Intn(len(c02F))]
		limits.Frag = F
		devB := newDevID(r)
		// case 0 replays the witness of the Lean theorem Props.C02.duplicate_delivers_corrupted_witness
		// on the real code: F = 4, ID 0x20, Job 77, payload 01..0a (15 fragments), group 9,
		// arrival positions 0,1,1,3,4,..,14,2
		witness := i == 0
		var wp *com.Packet
		if witness {
			F = 4
			limits.Frag = F
			devB = device.ID{1}
			wp = &com.Packet{ID: 0x20, Job: 77, Device: devB}
			wp.Write([]byte{1, 2, 3, 4, 5, 6, 7, 8, 9, 10})
		}
		fz, ws, ok := s3Split(r, F, devB, wp)
		if !ok {
			return
		}
		m := len(ws)
		if witness {
			for _, w := range ws {
				w.flags.SetGroup(9)
			}
		}
		g := ws[0].flags.Group()
		idx := s3Shuffled(r, m)
		mode := r.Intn(3)
		if witness {
			mode = 0
		}
		var arr []int
		needed := false    // a repetition among the first m arrivals
		restarted := false // fragment 0 again after the group completed: a new cluster, which later repetitions can complete
		if mode == 0 || mode == 2 {
			q := 1 + r.Intn(m-1) // the repetition becomes arrival number q (0-based), of a fragment that arrived before
			j := idx[r.Intn(q)]
			if mode == 2 { // prefer an empty trailing fragment, if one arrived before
				for _, k := range idx[:q] {
					if len(ws[k].pay) == 0 {
						j = k
					}
				}
			}
			arr = append(append(append(arr, idx[:q]...), j), idx[q:]...)
			if witness && m == 15 {
				arr = []int{0, 1, 1, 3, 4, 5, 6, 7, 8, 9, 10, 11, 12, 13, 14, 2}
				j = 1
			}
			needed = true
			if len(ws[j].pay) == 0 {
				c.Count("dup:of-empty-fragment")
			}
		} else {
			arr = append(arr, idx...)
		}
		if mode >= 1 { // repetitions after the group completed (fragment 0 among them now and then)
			for k := 1 + r.Intn(3); k > 0; k-- {
				j := r.Intn(m)
				if r.Chance(60) && m > 1 {
					j = 1 + r.Intn(m-1)
				}
				if j == 0 {
					restarted = true
				}
				arr = append(arr, j)
			}
		}
		rcv, msgr := c2.VerifC02NewSession(devB, r.Bool(), 256)
		in := map[string]interface{}{"F": F, "packet": fz.tok[:minInt(len(fz.tok), 200)], "payload_len": len(fz.pay), "fragments": m, "arrival_positions": fmt.Sprint(arr), "group": g}
		var toks, outs []string
		var delivered []*com.Packet
		for _, j := range arr {
			out, v, drop, pan := s3Arrive(rcv, msgr, ws[j])
			if pan != nil {
				c.Fail("panic", "panic:receive", fmt.Sprintf("receive() panicked on a repeated fragment: %v", pan), in)
				return
			}
			if v != nil {
				delivered = append(delivered, v)
			}
			// (with the witness's F = 4 the SvDrop reply is itself above the limit and write() splits it
			// under a group number of its own)
			if drop != nil && drop.Flags.Group() != g && !witness {
				c.Fail("reassemble", "dup:svdrop-names-another-group", fmt.Sprintf("SvDrop reply for group %#x names group %#x", g, drop.Flags.Group()), in)
			}
			toks, outs = append(toks, ws[j].tok()), append(outs, out+"@"+groupsStr(rcv))
		}
		for k := 0; k < fmm; k++ {
			rcv.VerifC02Sweep()
			toks, outs = append(toks, "sweep"), append(outs, "swept@"+groupsStr(rcv))
		}
		c.Op("recvs "+strings.Join(toks, " "), strings.Join(outs, " "))
		if witness {
			// what the Lean theorem states: 14 times stored, then the packet with payload f0++f1++f1, then SvDrop
			okw := m == 15 && len(delivered) == 1 && bytes.Equal(delivered[0].Payload(), []byte{1, 2, 3, 4, 5, 6, 7, 8, 5, 6, 7, 8}) &&
				strings.HasPrefix(outs[14], "deliver:") && strings.HasPrefix(outs[15], "drop@")
			for k := 0; k < 14 && okw; k++ {
				okw = strings.HasPrefix(outs[k], "stored@")
			}
			if !okw {
				c.Fail("reassemble", "dup:lean-witness-not-reproduced", fmt.Sprintf("the witness of Props.C02.duplicate_delivers_corrupted_witness does not behave on the real code as the theorem states: %d fragments, %d deliveries, answers %v", m, len(delivered), outs[:minInt(len(outs), 16)]), in)
			}
			c.Count("dup:lean-witness-replayed")
		}
		// the property, directly: handed to the handler exactly once, identical, state released
		switch {
		case len(delivered) > 1 && restarted:
			// the same known finding: the repetitions that follow a late fragment 0 are counted and complete a second, bogus packet
			c.Fail("reassemble", "duplicate:needed-fragment-repeated", fmt.Sprintf("F=%d fragments=%d arrival positions %v: fragment 0 arriving again after completion starts a new cluster which the following repetitions complete by count: %d packets handed to the handler", F, m, arr, len(delivered)), in)
		case len(delivered) != 1:
			c.Fail("reassemble", fmt.Sprintf("dup:delivered-%d-times", len(delivered)), fmt.Sprintf("F=%d fragments=%d arrivals=%v: delivered %d times", F, m, arr, len(delivered)), in)
		default:
			if d := s3Same(fz, ws[0], delivered[0]); d != "" {
				key := "dup:field:" + d
				if needed && d == "payload" {
					// known finding: a repetition is stored and counted; the group completes with a hole
					key = "duplicate:needed-fragment-repeated"
				}
				c.Fail("reassemble", key, fmt.Sprintf("F=%d fragments=%d arrival positions %v (every fragment arrives, fragment 0 first, one repeated while the group is incomplete): the packet handed to the handler differs from the original in %s (%d bytes, original %d)", F, m, arr, d, len(delivered[0].Payload()), len(fz.pay)), in)
			} else if needed {
				c.Count("dup:needed-but-intact") // the repetition displaced an empty fragment
			}
		}
		if gs := groupsStr(rcv); gs != "-" {
			c.Fail("residual", "dup:residual-state", "reassembly state left after the group and fragMaxMisses wake-ups: "+gs, in)
		}
		c.Count(fmt.Sprintf("dup:mode%d", mode))
		c.Eval(true, fmt.Sprint("dup", F, arr, fz.tok[:minInt(80, len(fz.tok))]))
	})

	// 2. wake-ups interleaved with arrivals, in any number
	c.Cases("sweepmix", c.N(200, 3000), func(r *Rng, i int) {
		F := c02F[r.Intn(len(c02F))]
		limits.Frag = F
		devB := newDevID(r)
		ng := 1 + r.Intn(3)
		type grp struct {
			fz        frozen
			ws        []*s3Frag
			g         uint16
			order     []int
			next      int
			fate      int // 0 fed (never fragMaxMisses wake-ups in a row while in flight), 1 starved after `stop` fragments, 2 no constraint
			stop      int
			inflight  bool
			count     int
			miss      int
			expired   bool
			delivered []*com.Packet
		}
		var gs []*grp
		used := map[uint16]bool{}
		for gi := 0; gi < ng; gi++ {
			fz, ws, ok := s3Split(r, F, devB, nil)
			if !ok || used[ws[0].flags.Group()] {
				return
			}
			x := &grp{fz: fz, ws: ws, g: ws[0].flags.Group(), order: s3Shuffled(r, len(ws)), fate: r.Intn(3)}
			if g2 := []uint16{0, 1, 0xFFFF, 0x8000}[r.Intn(4)]; r.Chance(15) && !used[g2] {
				for _, w := range ws {
					w.flags.SetGroup(g2)
				}
				x.g = g2
			}
			used[x.g] = true
			x.stop = 1 + r.Intn(len(ws)-1)
			if len(ws) < 3 && x.fate == 1 {
				x.stop = 1
			}
			gs = append(gs, x)
		}
		rcv, msgr := c2.VerifC02NewSession(devB, r.Bool(), 256)
		in := map[string]interface{}{"F": F, "groups": ng}
		var toks, outs, sched []string
		fail := func(kind, key, detail string) {
			in["schedule"] = strings.Join(sched, " ")
			c.Fail(kind, key, detail, in)
		}
		present := func(g uint16) bool { _, ok := rcv.VerifC02Groups()[g]; return ok }
		wake := func() {
			rcv.VerifC02Sweep()
			sched = append(sched, "w")
			toks, outs = append(toks, "sweep"), append(outs, "swept@"+groupsStr(rcv))
			for _, x := range gs {
				if x.inflight {
					if x.miss++; x.miss >= fmm {
						x.inflight, x.expired, x.count = false, true, 0
						c.Count("sweepmix:group-expired")
					}
				}
				if present(x.g) != x.inflight {
					fail("residual", map[bool]string{true: "sweepmix:released-too-late", false: "sweepmix:released-too-early"}[present(x.g)],
						fmt.Sprintf("group %#x after %d wake-ups without a fragment: state present=%v, expected %v", x.g, x.miss, present(x.g), x.inflight))
				}
			}
		}
		steps := 0
		for {
			// who can move
			var cand []*grp
			var forced *grp
			for _, x := range gs {
				if x.next >= len(x.order) {
					continue
				}
				paused := x.fate == 1 && x.next >= x.stop && x.inflight // starved: waits until it has expired
				if !paused {
					cand = append(cand, x)
				}
				if x.fate == 0 && x.inflight && x.miss+1 >= fmm {
					forced = x
				}
			}
			if len(cand) == 0 {
				waiting := false
				for _, x := range gs {
					if x.next < len(x.order) {
						waiting = true
					}
				}
				if !waiting {
					break
				}
			}
			if steps++; steps > 400 {
				break
			}
			if forced == nil && (len(cand) == 0 || r.Chance(45)) {
				wake()
				continue
			}
			x := forced
			if x == nil {
				x = cand[r.Intn(len(cand))]
			}
			j := x.order[x.next]
			x.next++
			sched = append(sched, fmt.Sprintf("%x:%d", x.g, j))
			out, v, drop, pan := s3Arrive(rcv, msgr, x.ws[j])
			if pan != nil {
				fail("panic", "panic:receive", fmt.Sprintf("receive() panicked: %v", pan))
				return
			}
			toks, outs = append(toks, x.ws[j].tok()), append(outs, out+"@"+groupsStr(rcv))
			// what the protocol says about this arrival
			want := "stored"
			switch {
			case !x.inflight && j > 0:
				want = "drop"
				c.Count("sweepmix:late-fragment")
			case !x.inflight:
				x.inflight, x.count, x.miss = true, 1, 0
			default:
				x.count++
				x.miss = 0
				if x.count == len(x.ws) {
					want, x.inflight = "deliver", false
				}
			}
			got := out
			if v != nil {
				got = "deliver"
				x.delivered = append(x.delivered, v)
			}
			switch {
			case want == "drop" && (drop == nil || drop.Flags.Group() != x.g):
				fail("reassemble", "sweepmix:late-fragment-not-dropped", fmt.Sprintf("fragment %d of group %#x arrived for a group without state (released after %d wake-ups): answer %q, no SvDrop for the group", j, x.g, fmm, got))
			case want != got:
				fail("reassemble", "sweepmix:answer-"+want+"-expected", fmt.Sprintf("fragment %d of group %#x: answer %q, expected %q", j, x.g, got, want))
			}
			if present(x.g) != x.inflight {
				fail("residual", "sweepmix:state-presence", fmt.Sprintf("group %#x after fragment %d: state present=%v, expected %v", x.g, j, present(x.g), x.inflight))
			}
		}
		for k := 0; k < fmm; k++ {
			wake()
		}
		c.Op("recvs "+strings.Join(toks, " "), strings.Join(outs, " "))
		for _, x := range gs {
			complete := x.next >= len(x.order)
			switch {
			case !x.expired && complete:
				if len(x.delivered) != 1 {
					fail("reassemble", fmt.Sprintf("sweepmix:fed-group-delivered-%d-times", len(x.delivered)), fmt.Sprintf("F=%d group %#x got all %d fragments with fewer than %d wake-ups between any two: delivered %d times", F, x.g, len(x.ws), fmm, len(x.delivered)))
				} else if d := s3Same(x.fz, x.ws[0], x.delivered[0]); d != "" {
					fail("reassemble", "sweepmix:field:"+d, "reassembled packet differs from the original in "+d)
				}
				c.Count("sweepmix:fed-group")
			default:
				if len(x.delivered) != 0 {
					fail("reassemble", "sweepmix:expired-group-delivered", fmt.Sprintf("group %#x was released by the wake-ups (or is incomplete) and still delivered %d packets", x.g, len(x.delivered)))
				}
			}
		}
		if g := groupsStr(rcv); g != "-" {
			fail("residual", "sweepmix:residual-state", "groups left after fragMaxMisses wake-ups: "+g)
		}
		c.Eval(true, fmt.Sprint("sweepmix", F, strings.Join(sched, " "), bytes.Count([]byte(strings.Join(sched, "")), []byte("w"))))
	})

	// 3. the order in which the fragments of a group leave the sender: real queue()/write() into a send
	// channel of a small capacity (fragments dropped when it is full), real next() until it drains,
	// every transmission through Marshal/Unmarshal and unpacked
	saveP := limits.Packets
	defer func() { limits.Packets = saveP }()
	c.Cases("sendorder", c.N(150, 2500), func(r *Rng, i int) {
		F := c02F[r.Intn(len(c02F))]
		limits.Frag = F
		limits.Packets = []int{256, 256, 8, 3, 2}[r.Intn(5)]
		dev := newDevID(r)
		capq := 3 + r.Intn(30)
		snd, _ := c2.VerifC02NewSession(dev, false, capq)
		small := func() *com.Packet {
			p := &com.Packet{ID: uint8(0x10 + r.Intn(0xE0)), Job: uint16(2 + r.Intn(65000)), Device: dev}
			if n := r.Intn(24); n > 0 {
				p.Write(r.Bytes(n))
			}
			return p
		}
		var toks, wres []string
		groups := map[uint16]int{} // group -> fragments queued
		var gorder []uint16
		nbig := 1 + r.Intn(2)
		for b := 0; b <= nbig; b++ {
			for k := r.Intn(4); k > 0; k-- {
				p := small()
				toks = append(toks, pktTok(p))
				snd.VerifC02Queue(p)
			}
			if b == nbig {
				break
			}
			p := genBigPacket(r, F, dev)
			tok := pktTok(p)
			job := p.Job
			w := r.Chance(70)
			before := len(snd.VerifC02S3Snapshot())
			err := snd.VerifC02Write(w, p)
			after := snd.VerifC02S3Snapshot()
			var g uint16
			switch {
			case err != nil && len(after) != before:
				c.Fail("split", "sender:error-but-queued", "Session.write returned "+err.Error()+" and still queued fragments", map[string]interface{}{"F": F, "cap": capq})
				return
			case err != nil:
				wres = append(wres, "full")
			default:
				wres = append(wres, fmt.Sprintf("queued%d", len(after)-before))
				if len(after) > before {
					g, job = after[before].Flags.Group(), after[before].Job
					if _, dup := groups[g]; dup {
						return // the same random group twice: outside the quantifier
					}
					groups[g] = len(after) - before
					gorder = append(gorder, g)
					for k, f := range after[before:] {
						if int(f.Flags.Position()) != k || f.Flags.Group() != g {
							c.Fail("split", "sender:queued-not-a-prefix", fmt.Sprintf("F=%d cap=%d: fragment number %d in the channel has position %d", F, capq, k, f.Flags.Position()), map[string]interface{}{"F": F, "cap": capq, "packet": tok[:minInt(len(tok), 200)]})
						}
					}
				}
			}
			toks = append(toks, "W", map[bool]string{true: "1", false: "0"}[w], fmt.Sprint(g), fmt.Sprint(job), tok)
		}
		in := map[string]interface{}{"F": F, "packets": limits.Packets, "cap": capq, "writes": strings.Join(wres, ",")}
		var txs []string
		seen := map[uint16]int{} // group -> fragments observed so far
		for tx := 0; tx < 4*capq+8; tx++ {
			if snd.VerifC02SendLen() == 0 && snd.VerifC02Peek() == nil {
				break
			}
			n := snd.VerifC02Next(true)
			if n == nil {
				break
			}
			wc, err := wireCopy(n)
			if err != nil {
				c.Fail("split", "sender:not-marshalable", err.Error(), in)
				return
			}
			leaves, err := goUnpack(wc, 0)
			if err != nil {
				c.Fail("split", "sender:not-unpackable", err.Error(), in)
				return
			}
			lt := make([]string, len(leaves))
			for k, l := range leaves {
				lt[k] = pktTok(l)
				if l.Flags&com.FlagFrag == 0 {
					continue
				}
				g, pos := l.Flags.Group(), int(l.Flags.Position())
				switch {
				case seen[g] == 0 && pos > 0:
					c.Fail("reassemble", "sender:position-before-zero", fmt.Sprintf("F=%d cap=%d: the first fragment of group %#x handed to a connection has position %d", F, capq, g, pos), in)
				case pos != seen[g]:
					c.Fail("reassemble", "sender:fragment-order", fmt.Sprintf("F=%d cap=%d: group %#x: fragment with position %d sent as number %d", F, capq, g, pos, seen[g]), in)
				}
				seen[g]++
			}
			if len(lt) == 0 {
				lt = []string{"."}
			}
			txs = append(txs, strings.Join(lt, " "))
		}
		for _, g := range gorder {
			if seen[g] != groups[g] {
				c.Fail("reassemble", "sender:fragments-lost-in-next", fmt.Sprintf("group %#x: %d fragments queued, %d sent", g, groups[g], seen[g]), in)
			}
		}
		c.Op(fmt.Sprintf("sendorder %d %d %d %s %s %s", limits.Packets, F, capq, hx(dev[:]), hx(dev[:]), strings.Join(toks, " ")),
			strings.Join(wres, " ")+" => "+strings.Join(txs, " | "))
		c.Count(fmt.Sprintf("sendorder:groups=%d", len(gorder)))
		for _, g := range gorder {
			if groups[g] > 0 {
				c.Count("sendorder:group-truncated-or-whole")
			}
		}
		c.Eval(true, fmt.Sprint("sendorder", F, capq, limits.Packets, strings.Join(wres, ","), len(txs)))
	})
}
