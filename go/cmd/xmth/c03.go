package main

import (
	"os"
	"regexp"
	"bytes"
	"fmt"
	"sort"
	"strings"

	"github.com/iDigitalFlame/xmt/c2"
	"github.com/iDigitalFlame/xmt/com"
	"github.com/iDigitalFlame/xmt/com/limits"
	"github.com/iDigitalFlame/xmt/data"
	"github.com/iDigitalFlame/xmt/device"
)

func init() { register("C03", runC03) }

func sortedTok(p *com.Packet) string {
	t := append([]uint32(nil), p.Tags...)
	sort.Slice(t, func(i, j int) bool { return t[i] < t[j] })
	q := *p
	q.Tags = t
	return pktTok(&q)
}

// goUnpack is the harness's own unpacker of a transmission (independent of c2.receive).
func goUnpack(n *com.Packet, depth int) ([]*com.Packet, error) {
	if n.Flags&com.FlagMulti == 0 || depth > 6 {
		return []*com.Packet{n}, nil
	}
	x := int(n.Flags.Len())
	if x == 0 {
		return nil, fmt.Errorf("multi packet with count 0")
	}
	var out []*com.Packet
	rd := data.NewChunk(append([]byte(nil), n.Payload()...))
	for ; x > 0; x-- {
		v := new(com.Packet)
		if err := v.UnmarshalStream(rd); err != nil {
			return out, fmt.Errorf("nested packet: %v", err)
		}
		vs, err := goUnpack(v, depth+1)
		if err != nil {
			return out, err
		}
		out = append(out, vs...)
	}
	if rd.Remaining() != 0 {
		return out, fmt.Errorf("%d bytes left in the batch after unpacking", rd.Remaining())
	}
	return out, nil
}

// eqNoTags compares ID, job, device, flags and payload (the fields the property names).
func eqNoTags(a frozen, b *com.Packet) string {
	d := eqFrozen(a, b)
	if d == "tags" || d == "tagcount" {
		return ""
	}
	return d
}

type queued struct {
	fz    frozen
	nop   bool
	group uint16
}

func runC03(c *Ctx) {
	saveF, saveP := limits.Frag, limits.Packets
	defer func() { limits.Frag, limits.Packets = saveF, saveP }()
	c.Cases("corpus", 1, func(r *Rng, i int) {
		// two keep-alives only: used to produce a Multi packet with count 0
		limits.Frag, limits.Packets = saveF, saveP
		dev := device.ID{9, 9}
		s, _ := c2.VerifC02NewSession(dev, false, 16)
		s.VerifC02Queue(&com.Packet{Device: dev})
		s.VerifC02Queue(&com.Packet{Device: dev})
		n := s.VerifC02Next(true)
		if n != nil && n.Flags&com.FlagMulti != 0 && n.Flags.Len() == 0 {
			c.Fail("batch", "batch:empty-multi", "two queued keep-alives produce a Multi packet with count 0", "corpus:two-nops")
		}
		c.Eval(true, "corpus")
	})
	c.Cases("batch", c.N(1500, 12000), func(r *Rng, i int) {
		F := []int{300, 1000, 4096, 33554432}[r.Intn(4)]
		P := []int{2, 3, 8, 256, 256}[r.Intn(5)]
		limits.Frag, limits.Packets = F, P
		devS := newDevID(r)
		others := []device.ID{newDevID(r), newDevID(r)}
		if r.Chance(50) {
			// a client on the same host as the sender: same machine part of the ID, another session part
			// (what Spawn / a second implant on the host produces); still a different device
			others[0] = devS
			for others[0] == devS {
				copy(others[0][device.MachineIDSize:], r.Bytes(device.IDSize-device.MachineIDSize))
			}
		}
		s, _ := c2.VerifC02NewSession(devS, r.Bool(), 256)
		last := uint16(0)
		if r.Chance(25) {
			last = uint16(1 + r.Intn(65535))
		}
		k := r.Intn(12)
		if r.Chance(15) {
			k = r.Intn(c.N(60, 127))
		}
		var qs []queued
		var toks []string
		mixed, hasFrag := false, false
		for j := 0; j < k; j++ {
			p := &com.Packet{Device: devS}
			q := queued{}
			switch x := r.Intn(100); {
			case x < 18: // keep-alive
				p.ID = uint8(r.Intn(2))
				if r.Chance(30) {
					p.Flags = com.FlagProxy
				}
				if r.Chance(25) {
					p.Device = others[r.Intn(2)]
					mixed = true
				}
				q.nop = c2.VerifC02IsNoP(p)
			case x < 22: // key material: a re-key announcement (ID 0) or a re-registration hello (ID 2)
				p.Flags = com.FlagCrypt
				if r.Chance(30) {
					p.ID, p.Job = 2, uint16(2+r.Intn(60000))
				}
				p.Write(r.Bytes(20 + r.Intn(100)))
			case x < 30 && last > 0: // a fragment of the group the peer asked to abandon
				p.ID, p.Job = uint8(0x10+r.Intn(0xE0)), uint16(2+r.Intn(60000))
				p.Flags.SetGroup(last)
				p.Flags.SetLen(uint16(2 + r.Intn(5)))
				p.Flags.SetPosition(uint16(r.Intn(2)))
				p.Write(r.Bytes(1 + r.Intn(40)))
				q.group = last
				hasFrag = true
			default:
				p.ID, p.Job = uint8(0x10+r.Intn(0xE0)), uint16(2+r.Intn(60000))
				if r.Chance(12) {
					p.Device = others[r.Intn(2)]
					mixed = true
				}
				if r.Chance(20) {
					p.Flags = com.Flag([]uint64{0x8, 0x10, 0x20, 0x100, 0x118}[r.Intn(5)])
				}
				if r.Chance(8) {
					p.Tags = []uint32{uint32(1 + r.Intn(5)), uint32(10 + r.Intn(5))}
				}
				n := 0
				switch y := r.Intn(10); {
				case y < 2:
				case y < 7:
					n = 1 + r.Intn(60)
				case y < 9:
					n = F/3 + r.Intn(F/3)
					if n > 20000 {
						n = 1 + r.Intn(20000)
					}
				default:
					n = []int{254, 255, 256, 257}[r.Intn(4)]
					if F > 100000 && r.Chance(35) { // the 2-byte / 4-byte length class boundary of the nested form
						n = []int{65534, 65535, 65536, 65537}[r.Intn(4)]
					}
				}
				if n+com.PacketHeaderSize+8 > F {
					n = F - com.PacketHeaderSize - 8 - r.Intn(20)
					if n < 0 {
						n = 0
					}
				}
				if n > 0 {
					p.Write(r.Bytes(n))
				}
			}
			q.fz = freeze(p)
			qs = append(qs, q)
			toks = append(toks, q.fz.tok)
			s.VerifC02Queue(p)
		}
		s.VerifC02SetLast(last)
		var txs []string
		var observed []*com.Packet
		unpackErr := ""
		for it := 0; it < k+6; it++ {
			n := s.VerifC02Next(true)
			if n == nil {
				break
			}
			w, err := wireCopy(n)
			if err != nil {
				c.Fail("batch", "batch:transmission-not-marshalable", err.Error(), toks)
				return
			}
			txs = append(txs, sortedTok(w))
			vs, err := goUnpack(w, 0)
			if err != nil && unpackErr == "" {
				unpackErr = err.Error()
			}
			// the receiver dispatches on the MultiDevice flag (conn.process): without it the batch goes
			// through processSingle -> receive, which rejects an element that names another device and
			// drops it and everything behind it
			if w.Flags&com.FlagMultiDevice == 0 {
				for _, v := range vs {
					if v.Device != devS && !v.Device.Empty() {
						c.Fail("batch", "batch:foreign-device-without-multidevice", fmt.Sprintf("transmission %d carries a packet of device %s (sender %s) but not the MultiDevice flag: the receiver rejects it and loses the rest of the batch", it, hx(v.Device[:]), hx(devS[:])), toks)
						break
					}
				}
			}
			observed = append(observed, vs...)
		}
		if s.VerifC02SendLen() != 0 || s.VerifC02Peek() != nil {
			c.Fail("batch", "batch:not-drained", "queue not drained after k+6 transmissions", toks)
		}
		out := "."
		if len(txs) > 0 {
			out = strings.Join(txs, " ")
		}
		c.Op(fmt.Sprintf("drain %d %d %d %s %s", P, F, last, hx(devS[:]), strings.Join(toks, " ")), out)
		in := map[string]interface{}{"P": P, "F": F, "last": last, "dev": hx(devS[:]), "queue": toks}
		if unpackErr != "" {
			c.Fail("batch", "batch:unpack-error", "a transmission does not unpack: "+unpackErr, in)
		}
		// oracle: observed (without keep-alives) is the queued sequence (without keep-alives), each
		// once, in order; a missing packet must belong to the abandoned group
		var obs []*com.Packet
		for _, v := range observed {
			if !c2.VerifC02IsNoP(v) {
				obs = append(obs, v)
			}
		}
		oi := 0
		for _, q := range qs {
			if q.nop {
				continue
			}
			if oi < len(obs) && eqNoTags(q.fz, obs[oi]) == "" {
				oi++
				continue
			}
			if last > 0 && q.group == last {
				c.Count("skipped-abandoned-group")
				continue
			}
			what := "lost"
			if oi < len(obs) {
				what = "differs:" + eqNoTags(q.fz, obs[oi])
			}
			c.Fail("batch", "batch:"+strings.SplitN(what, ":", 2)[0], fmt.Sprintf("queued packet %s not observed in order (%s)", q.fz.tok[:minInt(60, len(q.fz.tok))], what), in)
			return
		}
		if oi != len(obs) {
			c.Fail("batch", "batch:extra", fmt.Sprintf("%d packets observed beyond the queued ones (duplicate?)", len(obs)-oi), in)
		}
		// the real receive on the peer, when everything is for the sender's own device
		if !mixed && !hasFrag && k > 0 {
			rcv, msgr := c2.VerifC02NewSession(devS, true, 256)
			for _, t := range txs {
				_ = t
			}
			s2, _ := c2.VerifC02NewSession(devS, false, 256)
			limits.Frag, limits.Packets = F, P
			for _, q := range qs {
				cp := *q.fz.p
				cp.Chunk = *data.NewChunk(append([]byte(nil), q.fz.pay...))
				cp.Tags = append([]uint32(nil), q.fz.p.Tags...)
				s2.VerifC02Queue(&cp)
			}
			s2.VerifC02SetLast(last)
			for it := 0; it < k+6; it++ {
				n := s2.VerifC02Next(true)
				if n == nil {
					break
				}
				w, _ := wireCopy(n)
				if err := rcv.VerifC02Receive(w); err != nil {
					c.Fail("batch", "batch:receive-error", "peer receive() rejected a transmission: "+err.Error(), in)
					break
				}
			}
			j := 0
			for _, q := range qs {
				if q.nop || q.fz.p.ID < 7 { // keep-alives and system packets never reach a handler
					continue
				}
				if j >= len(msgr.Evs) || !bytes.Equal(msgr.Evs[j].Payload(), q.fz.pay) || msgr.Evs[j].ID != q.fz.p.ID || msgr.Evs[j].Job != q.fz.p.Job {
					c.Fail("batch", "batch:handler-sequence", fmt.Sprintf("peer handlers observed %d packets, mismatch at %d", len(msgr.Evs), j), in)
					break
				}
				j++
			}
			c.Count("real-receive")
		}
		c.Count(fmt.Sprintf("tx:%d", minInt(len(txs), 5)))
		c.Eval(k >= 2, fmt.Sprint(P, F, last, toks))
	})
	// R. the server's reply path when proxying (conn.process: the reply of the connection's own
	// Session merged with the batches resolved by tags): a proxy P polls with a multi-device batch that
	// carries the tag of C, for which packets are queued. The history runs on a real Server/Listener
	// (hooks and model of C15, op `srv`); every packet queued for C must be handed out exactly once.
	c.Cases("relay", c.N(250, 4000), func(r *Rng, i int) {
		limits.Frag, limits.Packets = saveF, saveP // the budgets of the build, not what the last case above left behind
		ids := []device.ID{c15RandID(r), c15RandID(r), c15RandID(r), c15RandID(r)}
		steps, queued := c15RelaySteps(r, ids)
		tight := r.Chance(30)
		if tight {
			// a size budget of four bare packets per transmission: the fifth is carried over (Session.peek)
			// and must go out with the proxy's next poll although nothing is queued behind it. The routing
			// model has no budgets: these histories are judged by the oracle only.
			limits.Frag = 200
			hello := func(d int) c15Step {
				return c15Step{kind: 'T', pkt: c15Pkt{c15Sub: c15Sub{dev: d, pid: c2.SvHello, job: uint16(1 + r.Intn(65000)), pay: 'h'}}}
			}
			steps, queued = []c15Step{hello(0), hello(1)}, nil
			for k := 0; k < 5+r.Intn(2); k++ {
				lf := c15Leaf{dev: ids[1], pid: []uint8{0x14, 0xC8, 7, 9}[r.Intn(4)], job: uint16(2 + r.Intn(60000))}
				queued = append(queued, lf)
				steps = append(steps, c15Step{kind: 'Q', id: 1, leaf: lf})
			}
			for k := 0; k < 5; k++ {
				b := c15Pkt{c15Sub: c15Sub{dev: 0, pid: 0, job: 0, pay: 'e'}}
				b.tags = []c15Tag{{idx: 1}}
				steps = append(steps, c15Step{kind: 'T', pkt: b})
			}
			c.Count("relay:tight-budget")
		}
		hexids := make([]string, len(ids))
		for k := range ids {
			hexids[k] = hx(ids[k][:])
		}
		toks := make([]string, len(steps))
		for k := range steps {
			toks[k] = steps[k].tok(ids)
		}
		op := "srv " + strings.Join(hexids, ",") + " " + strings.Join(toks, " ")
		ans := c15RunServer(c, ids, steps, op)
		if !tight {
			c.Op(op, ans)
		} else if os.Getenv("VERIF_C03_DEBUG") != "" {
			fmt.Fprintln(os.Stderr, "TIGHT", strings.Join(toks, " "), "=>", ans)
		}
		replies := ans
		if k := strings.LastIndex(ans, " | tbl="); k >= 0 {
			replies = ans[:k]
		}
		for _, q := range queued {
			re := regexp.MustCompile(fmt.Sprintf(`(^|[:,])1\.%d\.%d([,: ]|$)`, q.pid, q.job))
			if n := len(re.FindAllString(replies, -1)); n != 1 {
				c.Fail("relay", fmt.Sprintf("relay:queued-packet-handed-out-%d-times", n),
					fmt.Sprintf("packet %d/%d queued for the proxied device was handed out %d times by the server's replies", q.pid, q.job, n),
					map[string]interface{}{"op": op, "answers": ans})
			}
		}
		c.Eval(true, op)
	})
	runC03S3(c) // extension round s3 (c03_s3.go): tag-heavy queues, scripted Job draws, next(false)
}
