package main

// C03, extension round s3: the tag list of a transmission (writeUnpack appends the tags of every
// packed packet, Session.next merges them with the tags of the packet picked first, Marshal refuses
// more than PacketMaxTags tags) and the Job number verifyPacket draws for a packet queued without one.

import (
	"bytes"
	"fmt"
	"strings"
	"time"

	"github.com/iDigitalFlame/xmt/c2"
	"github.com/iDigitalFlame/xmt/com"
	"github.com/iDigitalFlame/xmt/com/limits"
	"github.com/iDigitalFlame/xmt/device"
	"github.com/iDigitalFlame/xmt/util"
)

// tagRange is a run of consecutive tag values lo..hi (inclusive).
type tagRange struct{ lo, hi uint32 }

func expandRanges(rs []tagRange) []uint32 {
	var t []uint32
	for _, x := range rs {
		for v := x.lo; v <= x.hi; v++ {
			t = append(t, v)
		}
	}
	return t
}

// pktTokR is pktTok with the tag list written as runs "lo-hi;lo-hi" (a packet with 32768 tags stays
// a short token); the model's parser (XMT/BatchS3Drv.lean parsePktR) expands the runs.
func pktTokR(p *com.Packet, rs []tagRange) string {
	tg := "."
	if len(rs) > 0 {
		ts := make([]string, len(rs))
		for i, x := range rs {
			ts[i] = fmt.Sprintf("%d-%d", x.lo, x.hi)
		}
		tg = strings.Join(ts, ";")
	}
	return fmt.Sprintf("%d,%d,%d,%s,%s,%s", p.ID, p.Job, uint64(p.Flags), tg, hx(p.Device[:]), hx(p.Payload()))
}

// txSummary is the canonical answer for one transmission of op drainT / drainJ: the packet without
// its tag list, the number of tags, their sum, and what Marshal says.
func txSummary(n *com.Packet) (string, error) {
	var b bytes.Buffer
	q := *n
	q.Tags = nil
	var sum uint64
	for _, t := range n.Tags {
		sum += uint64(t)
	}
	err := n.Marshal(&b)
	return fmt.Sprintf("%s n=%d s=%d m=%s", pktTok(&q), len(n.Tags), sum, pktErr(err)), err
}

func runC03S3(c *Ctx) {
	saveF, saveP := limits.Frag, limits.Packets
	defer func() { limits.Frag, limits.Packets = saveF, saveP }()
	defer func() { util.VerifFastRand = nil }()

	// T. tag-heavy queues: many tags per packet, totals around PacketMaxTags +- 1. Oracle: the
	// transmission marshals and every queued packet arrives.
	c.Cases("tagbatch", c.N(10, 16), func(r *Rng, i int) {
		F := 33554432
		P := []int{256, 256, 8, 3, 2}[r.Intn(5)]
		limits.Frag, limits.Packets = F, P
		devS := newDevID(r)
		other := newDevID(r)
		s, _ := c2.VerifC02NewSession(devS, r.Bool(), 256)
		k := 2 + r.Intn(5)
		if i == 0 {
			k = 3 // the witness of XMT.Props.C03.tags_overflow_witness: no tags, 16385 tags, 16385 tags
		}
		// total number of tags queued
		total := com.PacketMaxTags + []int{-2, -1, 0, 1, 2, 1, 0, -1, 700, -700, -20000}[r.Intn(11)]
		firstTagged := r.Chance(25) // the packet picked first has tags: mergeTags takes the map path
		shared := r.Chance(30)       // tag runs overlap between packets (duplicates)
		nopFirst := firstTagged && r.Chance(30)
		if i == 0 {
			total, firstTagged, shared, nopFirst = com.PacketMaxTags+2, false, true, false
		}
		single := false
		switch i {
		case 1: // exactly PacketMaxTags tags in one transmission, t empty: must marshal
			k, P, total, firstTagged, shared, nopFirst = 3, 256, com.PacketMaxTags, false, false, false
		case 2: // exactly PacketMaxTags distinct tags through the map path of mergeTags: must marshal
			k, P, total, firstTagged, shared, nopFirst = 3, 256, com.PacketMaxTags, true, false, false
		case 3: // an elided keep-alive in front carries ONE tag (t has one element, not among the batch's)
			k, P, total, firstTagged, shared, nopFirst, single = 3, 256, 5000, true, false, true, true
		}
		limits.Packets = P
		carriers := k
		if !firstTagged {
			carriers = k - 1
		}
		per := make([]int, k)
		left := total
		for j := 0; j < k; j++ {
			if j == 0 && !firstTagged {
				continue
			}
			n := left / carriers
			if carriers > 1 && i > 2 {
				n = n/2 + r.Intn(n/2+1)
			}
			if carriers == 1 {
				n = left
			}
			if n > com.PacketMaxTags {
				n = com.PacketMaxTags
			}
			if single && j == 0 {
				n = 1
			}
			per[j], left, carriers = n, left-n, carriers-1
		}
		var qs []queued
		var toks []string
		queuedTags := 0
		for j := 0; j < k; j++ {
			p := &com.Packet{Device: devS, ID: uint8(0x10 + r.Intn(0xE0)), Job: uint16(2 + r.Intn(60000))}
			if r.Chance(15) {
				p.Device = other
			}
			if j == 0 && nopFirst {
				p.ID, p.Job, p.Device = 0, 0, devS // a keep-alive that carries tags: elided, its tags stay as t
			} else if r.Chance(70) {
				p.Write(r.Bytes(1 + r.Intn(20)))
			}
			if i <= 3 {
				p.Device = devS
			}
			var rs []tagRange
			if per[j] > 0 {
				base := uint32(1 + j*70000)
				if shared {
					base = uint32(1 + (j%2)*70000)
				}
				rs = []tagRange{{base, base + uint32(per[j]) - 1}}
				if per[j] > 3 && r.Chance(40) {
					h := uint32(1 + r.Intn(per[j]-1))
					rs = []tagRange{{base, base + h - 1}, {base + h, base + uint32(per[j]) - 1}}
				}
				p.Tags = expandRanges(rs)
			}
			queuedTags += len(p.Tags)
			q := queued{fz: freeze(p), nop: c2.VerifC02IsNoP(p)}
			qs = append(qs, q)
			toks = append(toks, pktTokR(p, rs))
			s.VerifC02Queue(p)
		}
		in := map[string]interface{}{"P": P, "F": F, "dev": hx(devS[:]), "queue": toks, "queued_tags": queuedTags}
		var txs []string
		var observed []*com.Packet
		refused := 0
		for it := 0; it < k+6; it++ {
			n := s.VerifC02Next(true)
			if n == nil {
				break
			}
			sum, err := txSummary(n)
			txs = append(txs, sum)
			if err != nil {
				refused++
				c.Count("tagbatch:refused-by-marshal")
				continue // what the connection does: the write fails, the packets are gone
			}
			w, err := wireCopy(n)
			if err != nil {
				c.Fail("tagbatch", "tagbatch:transmission-not-unmarshalable", err.Error(), in)
				return
			}
			vs, err := goUnpack(w, 0)
			if err != nil {
				c.Fail("tagbatch", "tagbatch:unpack-error", "a transmission does not unpack: "+err.Error(), in)
				return
			}
			observed = append(observed, vs...)
		}
		out := "."
		if len(txs) > 0 {
			out = strings.Join(txs, " | ")
		}
		c.Op(fmt.Sprintf("drainT %d %d 0 %s %s", P, F, hx(devS[:]), strings.Join(toks, " ")), out)
		if refused > 0 {
			if queuedTags <= com.PacketMaxTags {
				// the theorem transmission_marshals says this cannot happen
				c.Fail("tagbatch", "tagbatch:marshal-refused-within-tag-budget", fmt.Sprintf("%d tags queued in total (<= PacketMaxTags) and Marshal refused a transmission", queuedTags), in)
			} else {
				c.Fail("tagbatch", "tagbatch:transmission-not-marshalable", fmt.Sprintf("%d of the transmissions built by Session.next carry more than PacketMaxTags tags: Marshal refuses them after the packets were dequeued (%d tags queued on %d packets, each within PacketMaxTags)", refused, queuedTags, k), in)
			}
		}
		var obs []*com.Packet
		for _, v := range observed {
			if !c2.VerifC02IsNoP(v) {
				obs = append(obs, v)
			}
		}
		oi := 0
		for _, q := range qs {
			if q.nop {
				continue
			}
			if oi < len(obs) && eqNoTags(q.fz, obs[oi]) == "" {
				oi++
				continue
			}
			if refused > 0 {
				c.Count("tagbatch:packet-lost-with-refused-transmission")
				continue // consequence of the refused transmission reported above
			}
			c.Fail("tagbatch", "tagbatch:lost", fmt.Sprintf("queued packet %s not observed in order", q.fz.tok[:minInt(60, len(q.fz.tok))]), in)
			return
		}
		if oi != len(obs) {
			c.Fail("tagbatch", "tagbatch:extra", fmt.Sprintf("%d packets observed beyond the queued ones", len(obs)-oi), in)
		}
		if queuedTags > com.PacketMaxTags {
			c.Count("tagbatch:over-budget")
		} else {
			c.Count("tagbatch:within-budget")
		}
		c.Eval(true, fmt.Sprint(P, toks))
	})
	// J. the Job number verifyPacket draws for a packet queued without one: the PRNG words are scripted
	// (util.VerifFastRand, the injection point of C19's rewrite of util/rand.go), the model gets the same
	// words: the comparison is exact, Job included. P = 1 (the single-packet path) is included.
	c.Cases("jobdraw", c.N(400, 4000), func(r *Rng, i int) {
		F := []int{300, 1000, 33554432}[r.Intn(3)]
		P := []int{1, 2, 3, 8, 256}[r.Intn(5)]
		limits.Frag, limits.Packets = F, P
		devS := newDevID(r)
		other := newDevID(r)
		s, _ := c2.VerifC02NewSession(devS, r.Bool(), 256)
		last := uint16(0)
		if r.Chance(20) {
			last = uint16(1 + r.Intn(65535))
		}
		nw := 1 + r.Intn(8)
		words := make([]uint32, nw)
		wtok := make([]string, nw)
		for j := range words {
			words[j] = uint32(r.U64())
			if r.Chance(20) {
				words[j] &= 0xFFFF0000 // uint16(word) == 0: the packet keeps Job 0 and draws again next time
			}
			wtok[j] = fmt.Sprint(words[j])
		}
		used := 0
		util.VerifFastRand = func() uint32 { v := words[used%nw]; used++; return v }
		defer func() { util.VerifFastRand = nil }()
		k := r.Intn(9)
		var qs []queued
		var toks []string
		needs := make([]bool, 0, k)
		for j := 0; j < k; j++ {
			p := &com.Packet{Device: devS, ID: uint8(0x10 + r.Intn(0xE0)), Job: uint16(2 + r.Intn(60000))}
			q := queued{}
			switch x := r.Intn(100); {
			case x < 12: // keep-alive
				p.ID, p.Job = uint8(r.Intn(2)), 0
				if r.Chance(30) {
					p.Flags = com.FlagProxy
				}
			case x < 18: // key material, with or without a Job
				p.Flags = com.FlagCrypt
				p.ID = []uint8{0, 2}[r.Intn(2)]
				if r.Chance(60) {
					p.Job = 0
				}
				p.Write(r.Bytes(10 + r.Intn(40)))
			case x < 26 && last > 0:
				p.Flags.SetGroup(last)
				p.Flags.SetLen(uint16(2 + r.Intn(5)))
				p.Flags.SetPosition(uint16(r.Intn(2)))
				p.Write(r.Bytes(1 + r.Intn(40)))
				q.group = last
			default:
				if r.Chance(55) {
					p.Job = 0 // queued without a Job
				}
				if r.Chance(10) {
					p.ID = uint8(r.Intn(3)) // ID 0, 1 never draw; 2 does
				}
				if r.Chance(15) {
					p.Flags = com.Flag([]uint64{0x4, 0x8, 0x10, 0x104}[r.Intn(4)]) // 0x4 = Proxy: no draw
				}
				if r.Chance(20) {
					p.Device = other
				}
				if r.Chance(8) {
					p.Tags = []uint32{uint32(1 + r.Intn(5)), uint32(10 + r.Intn(5))}
				}
				if n := r.Intn(3); n > 0 {
					m := 1 + r.Intn(60)
					if n == 2 {
						m = F/3 + r.Intn(F/3)
						if m > 4000 {
							m = 1 + r.Intn(4000)
						}
					}
					p.Write(r.Bytes(m))
				}
			}
			q.nop = c2.VerifC02IsNoP(p)
			q.fz = freeze(p)
			qs = append(qs, q)
			needs = append(needs, p.Job == 0 && p.Flags&com.FlagProxy == 0 && p.ID > 1)
			toks = append(toks, q.fz.tok)
			s.VerifC02Queue(p)
		}
		s.VerifC02SetLast(last)
		in := map[string]interface{}{"P": P, "F": F, "last": last, "dev": hx(devS[:]), "words": wtok, "queue": toks}
		var txs []string
		var observed []*com.Packet
		for it := 0; it < k+6; it++ {
			n := s.VerifC02Next(true)
			if n == nil {
				break
			}
			w, err := wireCopy(n)
			if err != nil {
				c.Fail("jobdraw", "jobdraw:transmission-not-marshalable", err.Error(), in)
				return
			}
			txs = append(txs, sortedTok(w))
			vs, err := goUnpack(w, 0)
			if err != nil {
				c.Fail("jobdraw", "jobdraw:unpack-error", err.Error(), in)
				return
			}
			observed = append(observed, vs...)
		}
		txs = append(txs, fmt.Sprintf("k=%d", used))
		c.Op(fmt.Sprintf("drainJ %d %d %d %s %s %s", P, F, last, hx(devS[:]), strings.Join(wtok, ","), strings.Join(toks, " ")), strings.Join(txs, " "))
		// oracle: every queued packet arrives once, in order; a packet queued without a Job arrives with
		// a drawn word's low 16 bits as its Job and is otherwise intact; all others arrive with their Job
		var obs []*com.Packet
		for _, v := range observed {
			if !c2.VerifC02IsNoP(v) {
				obs = append(obs, v)
			}
		}
		oi := 0
		for j, q := range qs {
			if q.nop {
				continue
			}
			if oi < len(obs) {
				d := eqNoTags(q.fz, obs[oi])
				if d == "job" && needs[j] {
					ok := false
					for _, wd := range words {
						if uint16(wd) == obs[oi].Job {
							ok = true
						}
					}
					cp := *obs[oi]
					cp.Job = 0
					if ok && eqNoTags(q.fz, &cp) == "" {
						d = ""
						c.Count("jobdraw:job-drawn")
					}
				}
				if d == "" {
					oi++
					continue
				}
			}
			if last > 0 && q.group == last {
				continue
			}
			c.Fail("jobdraw", "jobdraw:lost-or-changed", fmt.Sprintf("queued packet %d (%s) not observed in order, intact up to a drawn Job", j, q.fz.tok[:minInt(60, len(q.fz.tok))]), in)
			return
		}
		if oi != len(obs) {
			c.Fail("jobdraw", "jobdraw:extra", fmt.Sprintf("%d packets observed beyond the queued ones", len(obs)-oi), in)
		}
		c.Eval(k >= 1, fmt.Sprint(P, F, last, wtok, toks))
	})
	// B. every arm of pick: histories of queue / next(true) / next(false) events on client- and
	// server-side Sessions with channel mode on or off, keyNextSync scripted (C06's roll hook). A call
	// that blocks (server side, channel mode, nothing queued) is observed as blocked, then a packet is
	// queued and the call must complete with it.
	c.Cases("nextmodes", c.N(250, 2000), func(r *Rng, i int) {
		F := []int{300, 1000, 33554432}[r.Intn(3)]
		P := []int{2, 3, 8, 256}[r.Intn(4)]
		limits.Frag, limits.Packets = F, P
		devS := newDevID(r)
		other := newDevID(r)
		server := r.Bool()
		s, _ := c2.VerifC02NewSession(devS, server, 256)
		roll := uint32(1)
		c2.VerifC06Roll = func(_ *c2.Session, _ int) uint32 { return roll }
		defer func() { c2.VerifC06Roll = nil }()
		genPkt := func() *com.Packet {
			p := &com.Packet{Device: devS, ID: uint8(0x10 + r.Intn(0xE0)), Job: uint16(2 + r.Intn(60000))}
			switch x := r.Intn(100); {
			case x < 15:
				p.ID, p.Job = uint8(r.Intn(2)), 0
				if r.Chance(30) {
					p.Flags = com.FlagProxy
				}
				if r.Chance(25) {
					p.Device = other
				}
			default:
				if r.Chance(15) {
					p.Device = other
				}
				if r.Chance(15) {
					p.Flags = com.Flag([]uint64{0x8, 0x10, 0x20, 0x100}[r.Intn(4)])
				}
				if r.Chance(8) {
					p.Tags = []uint32{uint32(1 + r.Intn(5)), uint32(10 + r.Intn(5))}
				}
				if n := r.Intn(3); n > 0 {
					m := 1 + r.Intn(60)
					if n == 2 {
						m = F/3 + r.Intn(F/3)
						if m > 3000 {
							m = 1 + r.Intn(3000)
						}
					}
					p.Write(r.Bytes(m))
				}
			}
			return p
		}
		var qs []queued
		var evs, ans []string
		var observed []*com.Packet
		in := map[string]interface{}{"P": P, "F": F, "dev": hx(devS[:]), "server": server}
		record := func(n *com.Packet) bool {
			w, err := wireCopy(n)
			if err != nil {
				c.Fail("nextmodes", "nextmodes:transmission-not-marshalable", err.Error(), in)
				return false
			}
			ans = append(ans, sortedTok(w))
			vs, err := goUnpack(w, 0)
			if err != nil {
				c.Fail("nextmodes", "nextmodes:unpack-error", err.Error(), in)
				return false
			}
			observed = append(observed, vs...)
			return true
		}
		enqueue := func(kind string) {
			p := genPkt()
			q := queued{fz: freeze(p), nop: c2.VerifC02IsNoP(p)}
			qs = append(qs, q)
			evs = append(evs, kind+q.fz.tok)
			s.VerifC02Queue(p)
		}
		call := func(ib, ch bool) bool {
			s.VerifC03SetChannel(ch)
			empty := s.VerifC02SendLen() == 0 && s.VerifC02Peek() == nil
			roll = 1
			if r.Chance(25) {
				roll = 0 // keyNextSync rolls a re-key (client side, once per Session)
			}
			done := make(chan *com.Packet, 1)
			go func() {
				defer func() {
					if e := recover(); e != nil {
						done <- &com.Packet{ID: 255}
					}
				}()
				done <- s.VerifC02Next(ib)
			}()
			ev := "N" + map[bool]string{true: "1", false: "0"}[ib] + map[bool]string{true: "1", false: "0"}[ch]
			var n *com.Packet
			wait := 10 * time.Second
			if empty && server && ch {
				wait = 20 * time.Millisecond // the arm that blocks: give it time to show that it does
			}
			select {
			case n = <-done:
			case <-time.After(wait):
				if !(empty && server && ch) {
					c.Fail("nextmodes", "nextmodes:hang", "next("+fmt.Sprint(ib)+") did not return with channel="+fmt.Sprint(ch), append([]string(nil), evs...))
					return false
				}
				evs, ans = append(evs, ev), append(ans, "B")
				c.Count("nextmodes:blocked")
				enqueue("R")
				select {
				case n = <-done:
				case <-time.After(10 * time.Second):
					c.Fail("nextmodes", "nextmodes:blocked-call-not-resumed", "a packet was queued and the blocked next() did not return", append([]string(nil), evs...))
					return false
				}
				if n == nil {
					ans = append(ans, "-")
					return true
				}
				return record(n)
			}
			if n != nil && empty && n.Flags&com.FlagCrypt != 0 && n.ID == 0 {
				ev += "K" + hx(n.Payload()) // the key material keyNextSync generated is an input of the model
				c.Count("nextmodes:rekey-announcement")
			}
			evs = append(evs, ev)
			if n == nil {
				ans = append(ans, "-")
				c.Count("nextmodes:nothing")
				return true
			}
			if empty {
				c.Count("nextmodes:idle-packet")
			}
			return record(n)
		}
		ne := 4 + r.Intn(12)
		for j := 0; j < ne; j++ {
			if r.Chance(45) {
				enqueue("Q")
			} else if !call(r.Bool(), r.Chance(40)) {
				return
			}
		}
		for j := 0; j < len(qs)+4; j++ { // drain what is left
			if s.VerifC02SendLen() == 0 && s.VerifC02Peek() == nil {
				break
			}
			if !call(true, false) {
				return
			}
		}
		in["events"] = evs
		out := "."
		if len(ans) > 0 {
			out = strings.Join(ans, " ")
		}
		c.Op(fmt.Sprintf("histB %d %d %s %d %d %s", P, F, hx(devS[:]), map[bool]int{true: 0, false: 1}[server], map[bool]int{true: 0, false: 1}[server], strings.Join(evs, " ")), out)
		var obs []*com.Packet
		for _, v := range observed {
			if !c2.VerifC02IsNoP(v) && !(v.ID == 0 && v.Flags&com.FlagCrypt != 0) {
				obs = append(obs, v)
			}
		}
		oi := 0
		for j, q := range qs {
			if q.nop {
				continue
			}
			if oi < len(obs) && eqNoTags(q.fz, obs[oi]) == "" {
				oi++
				continue
			}
			c.Fail("nextmodes", "nextmodes:lost-or-changed", fmt.Sprintf("queued packet %d (%s) not observed in order", j, q.fz.tok[:minInt(60, len(q.fz.tok))]), in)
			return
		}
		if oi != len(obs) {
			c.Fail("nextmodes", "nextmodes:extra", fmt.Sprintf("%d packets observed beyond the queued ones", len(obs)-oi), in)
		}
		c.Eval(len(qs) >= 1, fmt.Sprint(P, F, server, evs))
	})
	_ = device.IDSize
}
