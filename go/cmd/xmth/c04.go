package main

// Property C04 — no bytes from the network can crash a listener or make it allocate without bound.
//
// Parent (runC04): generates structure-aware + mutated inputs for every decoder / entry point,
// ships them in batches to CHILD processes (re-exec of this binary, subcommand C04child) that run
// the REAL code under recover, an address-space limit and a wall-clock time-out, measures the bytes
// allocated (runtime.MemStats.TotalAlloc), compares outcome class / bytes left / read trace /
// allocation class with the Lean model (c.Op) and evaluates the property directly (c.Fail).

import (
	"bufio"
	"bytes"
	"fmt"
	"io"
	"os"
	"os/exec"
	"path/filepath"
	"sort"
	"strconv"
	"strings"
	"time"

	"github.com/iDigitalFlame/xmt/c2"
	"github.com/iDigitalFlame/xmt/com"
	"github.com/iDigitalFlame/xmt/data"
	"github.com/iDigitalFlame/xmt/device"
)

func init() {
	register("C04", runC04)
	register("C04child", runC04Child)
}

// ---- constants shared with the model (checked by the `bound` ops) ------------------------------

type c04Bound struct{ K, B uint64 }

// c04Bounds: the (K, B) of the theorems in lean/XMT/Props/C04.lean; the driver op `bound <name>`
// prints the model's pair, so a drift between the two tables is a correspondence failure.
func c04Bounds() map[string]c04Bound {
	szIface, szAddr, szProxy := uint64(48), uint64(16), uint64(56)
	bIface := 255 * szAddr
	bNetwork := 255*szIface + 255*bIface
	bProxy := 255 * szProxy
	m := map[string]c04Bound{
		"bytes": {1, 0}, "str": {1, 0}, "strlist": {129, 0},
		"devinfo": {1, bNetwork + bProxy + 8}, "proxydata": {1, bProxy}, "upkt": {2, 4 * 65535},
		"r.mounts": {129, 0}, "r.ls": {1 + 56 + 16, 0}, "r.windows": {1 + 48, 0}, "r.funcs": {1 + 24, 0},
		"r.procs": {1 + 40, 0}, "r.registry": {1 + 48, 0}, "r.logins": {1, 65535 * 104},
		"r.script": {2 + 120 + 256 + 128, 120}, "s.bytes": {1, 0}, "s.strlist": {130, 0},
	}
	for _, n := range []string{"r.pwd", "r.spawn", "r.bool", "r.upload", "r.whoami", "r.pull", "r.assembly", "r.process", "r.download", "r.systemio"} {
		m[n] = c04Bound{1, 0}
	}
	// entry points without a model: generous explicit constants (oracle only)
	m["dns"] = c04Bound{8, 1 << 16}
	m["hsw"] = c04Bound{64, 1 << 20}
	m["b64"] = c04Bound{8, 1 << 17}
	m["cbk"] = c04Bound{8, 1 << 19} // cipher tables (constant)
	m["wire"] = c04Bound{8, 4*65535 + 1<<16}
	m["rp"] = c04Bound{4200, 1 << 20}     // zlib/gzip may expand 1032:1 (stdlib, assumption)
	m["rpseq"] = c04Bound{4200, 1 << 20}
	m["handle"] = c04Bound{4200, 1 << 21} // + reply path
	m["recv"] = c04Bound{8, 1 << 20}
	m["fragseq"] = c04Bound{16, 1 << 16}
	m["hello"] = c04Bound{64, 1 << 21}
	m["process"] = c04Bound{64, 1 << 16}
	m["resolve"] = c04Bound{256, 1 << 16}
	m["procmulti"] = c04Bound{64, 1 << 20}
	m["json"] = c04Bound{64, 1 << 21}
	return m
}

// entry point name used in failure keys
var c04Entry = map[string]string{
	"bytes": "data.Chunk.Bytes", "str": "data.Chunk.StringVal", "strlist": "data.ReadStringList",
	"devinfo": "c2.readDeviceInfo", "proxydata": "c2.readProxyData", "upkt": "com.Packet.UnmarshalStream",
	"r.pwd": "result.Pwd", "r.spawn": "result.Spawn", "r.bool": "result.CheckDLL", "r.mounts": "result.Mounts",
	"r.ls": "result.Ls", "r.windows": "result.WindowList", "r.funcs": "result.FuncRemapList",
	"r.procs": "result.ProcessList", "r.logins": "result.UserLogins", "r.registry": "result.Registry",
	"r.upload": "result.Upload", "r.whoami": "result.Whoami", "r.pull": "result.Pull",
	"r.assembly": "result.Assembly", "r.process": "result.Process", "r.download": "result.Download",
	"r.systemio": "result.SystemIO", "r.script": "result.Script",
	"s.bytes": "data.reader.Bytes", "s.strlist": "data.reader.ReadStringList",
	"dns": "transform.DNS.Read", "b64": "transform.B64.Read", "cbk": "crypto.CBK.Read",
	"wire": "com.Packet.Unmarshal", "rp": "c2.readPacket", "rpseq": "c2.readPacket(sequence)", "handle": "c2.handle", "recv": "c2.receive", "fragseq": "c2.receive(fragment sequence)", "hello": "c2.Listener.talk(key material)", "process": "c2.conn.process",
	"resolve": "c2.conn.resolve", "procmulti": "c2.conn.processMultiple", "json": "c2.Session.JSON",
	"hang": "c2.readDeviceInfo", "hsw": "c2.handle", "e2e": "e2e", "e2eraw": "c2.Listener(e2e)",
}

// ---- one op -------------------------------------------------------------------------------------

type c04Op struct {
	line  string // op line (what the model / the child sees)
	name  string // decoder / entry name (bounds, keys)
	n     int    // input length in bytes
	model bool   // compared with the Lean model
	// filled by the run
	ans      string
	measured uint64
	died     string // "", "oom", "fatal:<sig>", "timeout"
}

func c04OpName(f []string) string {
	switch f[0] {
	case "dec":
		return f[1]
	case "sdec":
		return "s." + f[1]
	}
	return f[0]
}

// ---- child runner -------------------------------------------------------------------------------

// c04RunBatch executes ops in child processes; a child that dies or hangs is attributed to the op it
// was executing (answers are flushed line by line), and the rest continues in a fresh child.
func c04RunBatch(c *Ctx, ops []*c04Op) {
	i := 0
	for i < len(ops) {
		i += c04RunChild(c, ops[i:])
	}
}

func c04RunChild(c *Ctx, ops []*c04Op) int {
	dir := filepath.Join(c.OutDir, "child")
	os.MkdirAll(dir, 0o755)
	cmd := exec.Command(os.Args[0], "C04child", "--out", dir, "--seed", strconv.FormatUint(c.Seed, 10), "--tier", c.Tier)
	cmd.Env = append(os.Environ(), "GOMEMLIMIT=off", "GOGC=100")
	in, _ := cmd.StdinPipe()
	out, _ := cmd.StdoutPipe()
	var errb bytes.Buffer
	cmd.Stderr = &errb
	if err := cmd.Start(); err != nil {
		panic(err)
	}
	go func() {
		w := bufio.NewWriterSize(in, 1<<20)
		for _, o := range ops {
			w.WriteString(o.line)
			w.WriteByte('\n')
		}
		w.Flush()
		in.Close()
	}()
	lines := make(chan string, 64)
	go func() {
		sc := bufio.NewScanner(out)
		sc.Buffer(make([]byte, 1<<20), 1<<28)
		for sc.Scan() {
			lines <- sc.Text()
		}
		close(lines)
	}()
	done := 0
	perOp := time.Duration(c.N(10, 20)) * time.Second
	timedOut := false
loop:
	for done < len(ops) {
		select {
		case l, ok := <-lines:
			if !ok {
				break loop
			}
			if !strings.HasPrefix(l, "A\t") {
				continue
			}
			f := strings.SplitN(l, "\t", 3)
			if len(f) != 3 {
				continue
			}
			ops[done].measured, _ = strconv.ParseUint(f[1], 10, 64)
			ops[done].ans = f[2]
			done++
		case <-time.After(perOp):
			timedOut = true
			cmd.Process.Kill()
			break loop
		}
	}
	if done == len(ops) {
		cmd.Wait()
		return done
	}
	cmd.Process.Kill()
	cmd.Wait()
	for range lines {
	}
	// the op being executed when the child died
	o := ops[done]
	s := errb.String()
	switch {
	case timedOut:
		o.died = "timeout"
	case strings.Contains(s, "out of memory") || strings.Contains(s, "cannot allocate"):
		o.died = "oom"
	default:
		o.died = "fatal:" + c04Sig(s)
	}
	o.ans = o.died
	return done + 1
}

func c04Sig(s string) string {
	for _, l := range strings.Split(s, "\n") {
		if strings.HasPrefix(l, "fatal error:") || strings.HasPrefix(l, "panic:") || strings.HasPrefix(l, "runtime:") {
			if len(l) > 80 {
				l = l[:80]
			}
			return strings.ReplaceAll(l, " ", "_")
		}
	}
	return "exit"
}

// ---- verdict per op -----------------------------------------------------------------------------

func c04Judge(c *Ctx, o *c04Op, bounds map[string]c04Bound) {
	entry := c04Entry[o.name]
	if entry == "" {
		entry = o.name
	}
	b := bounds[o.name]
	limit := b.K*uint64(o.n) + b.B
	ac := "prop"
	// The model compares the sizes passed to make with T = limit·1.25 + 4096; the measured bytes
	// additionally carry the allocator's rounding (size classes ≤ 12.5 %, whole pages for large
	// objects), so the implementation side uses T·1.125 + 8192: whenever the model says "prop"
	// the measurement must say so too.
	t := limit + limit/4 + 4096
	if o.measured > t+t/8+8192 {
		ac = "over"
	}
	ans := o.ans
	const memCap = 1 << 30
	if o.died == "" && o.measured > memCap {
		ans = "oom" // finished, but asked for more than the cap: same class as a child that died
	}
	if strings.HasPrefix(o.name, "s.") {
		// stream reader (known finding): the request is the announced length, which may fall between
		// the two thresholds; the class is judged by the oracle only, not compared with the model
		ans = strings.Replace(ans, " ac=@", "", 1)
	}
	ans = strings.Replace(ans, "ac=@", "ac="+ac, 1)
	in := map[string]interface{}{"op": o.line}
	switch {
	case o.died == "timeout" || strings.HasPrefix(ans, "hang"):
		c.Fail("hang", "hang:"+entry, "the call did not return within the time-out", in)
	case o.died == "oom" || ans == "oom":
		c.Fail("alloc", "fatal:"+entry, fmt.Sprintf("the call asked for more memory than the %d MiB cap (input %d bytes, measured %d)", memCap>>20, o.n, o.measured), in)
	case strings.HasPrefix(o.died, "fatal"):
		c.Fail("crash", "crash:"+entry, "the process died: "+o.died, in)
	case strings.HasPrefix(ans, "panic"):
		c.Fail("panic", "panic:"+entry, "panic on attacker-controlled bytes: "+ans, in)
	case strings.HasPrefix(ans, "badjson"):
		c.Fail("json", "json:"+entry, "operator JSON view is not well-formed: "+ans, in)
	case ac == "over":
		c.Fail("alloc", "alloc:"+entry, fmt.Sprintf("allocated %d bytes for %d input bytes (bound %d·len+%d = %d)", o.measured, o.n, b.K, b.B, limit), in)
	}
	if o.model {
		c.Op(o.line, ans)
	}
	if o.name == "rpseq" && o.died == "" && !strings.HasPrefix(ans, "panic") && !strings.HasPrefix(ans, "hang") && !strings.Contains(ans, "after=6/6") {
		c.Fail("serve", "keeps-serving:"+entry, "after the first connection's bytes a well-formed packet through the same stack was not read back: "+ans, in)
	}
	if o.name == "resolve" && strings.Contains(ans, "own=1") {
		// Listener.clientSet(i, c) then moves the Session's queued packets into its own queue
		// (`for v.chn = c; len(v.send) > 0 { c <- <-v.send }` with c == v.send): with anything queued
		// the handler never returns and holds the Server lock
		c.Fail("serve", "self-redirect:"+entry, "a tag that names the connection's own client was recorded as a sub-client of the connection: "+ans, in)
	}
	if o.name == "fragseq" {
		for _, t := range strings.Fields(ans) {
			if strings.Contains(t, "=") {
				continue
			}
			if !strings.HasPrefix(t, "err:") {
				t = strings.SplitN(t, ":", 2)[0]
			}
			c.Count("fragseq:" + t)
		}
		return
	}
	cls := strings.SplitN(ans, " ", 3)
	k := cls[0]
	if k == "err" && len(cls) > 1 {
		k += ":" + cls[1]
	}
	c.Count(o.name + ":" + k)
}

// ---- generators ---------------------------------------------------------------------------------

var c04Hostile = [][]byte{
	{5, 0xFF, 0xFF, 0xFF, 0xFF}, {5, 0x7F, 0xFF, 0xFF, 0xFF}, {5, 0x01, 0, 0, 0},
	{7, 0xFF, 0xFF, 0xFF, 0xFF, 0xFF, 0xFF, 0xFF, 0xFF}, {7, 0x7F, 0xFF, 0xFF, 0xFF, 0xFF, 0xFF, 0xFF, 0xFF},
	{7, 0x10, 0, 0, 0, 0, 0, 0, 0}, {7, 0, 0, 4, 0, 0, 0, 0, 0}, {7, 0, 0, 4, 0, 0, 0, 0, 1}, {7, 0, 0, 0, 2, 0, 0, 0, 0},
	{3, 0xFF, 0xFF}, {3, 0, 0}, {1, 0}, {1, 0xFF}, {2, 3}, {4, 0, 2}, {6, 0, 0, 0, 2}, {8, 0, 0, 0, 0, 0, 0, 0, 1}, {9},
	{0xFF, 0xFF, 0xFF, 0xFF}, {0x7F, 0xFF, 0xFF, 0xFF}, {0, 0xFF, 0xFF, 0xFF}, {0xFF, 0xFF}, {0xFF},
}

func c04Mutate(r *Rng, b []byte) ([]byte, string) {
	b = append([]byte(nil), b...)
	switch m := r.Intn(12); {
	case m < 3:
		return b, "valid"
	case m < 5:
		if len(b) > 0 {
			return b[:r.Intn(len(b))], "trunc"
		}
		return b, "valid"
	case m < 7:
		if len(b) > 0 {
			for k := 1 + r.Intn(2); k > 0; k-- {
				b[r.Intn(len(b))] = []byte{0, 1, 2, 3, 5, 7, 8, 9, 0xFF, 0x7F, 0x80, 0x40}[r.Intn(12)]
			}
		}
		return b, "flip"
	case m < 9:
		h := c04Hostile[r.Intn(len(c04Hostile))]
		p := 0
		if len(b) > 0 {
			p = r.Intn(len(b) + 1)
		}
		if r.Bool() { // overwrite
			o := append(append([]byte(nil), b[:p]...), h...)
			if p+len(h) < len(b) {
				o = append(o, b[p+len(h):]...)
			}
			return o, "hostile-over"
		}
		return append(append(append([]byte(nil), b[:p]...), h...), b[p:]...), "hostile-ins"
	case m < 10:
		h := c04Hostile[r.Intn(len(c04Hostile))]
		if len(b) >= len(h) {
			copy(b, h)
			return b, "hostile-head"
		}
		return append([]byte(nil), h...), "hostile-head"
	case m < 11:
		o := r.Bytes(r.Intn(40))
		for j := range o {
			if r.Chance(50) {
				o[j] = byte(r.Intn(9))
			}
		}
		return o, "random"
	}
	// splice two copies
	if len(b) > 1 {
		p := r.Intn(len(b))
		return append(append([]byte(nil), b[p:]...), b[:p]...), "splice"
	}
	return b, "valid"
}

func c04Str(r *Rng) string {
	n := []int{0, 1, 3, 7, 20, 200, 255, 256, 300, 70000}[r.Intn(10)]
	if r.Chance(70) {
		n = r.Intn(12)
	}
	b := r.Bytes(n)
	if r.Chance(30) { // JSON / control hostile
		for j := range b {
			b[j] = []byte{'"', '\\', 0, 0x1f, '\n', 0x7f, 0xff, 0xc0, 0xe2, 0x80, 0xa8, '<', '&', '/'}[r.Intn(14)]
		}
	}
	return string(b)
}

func c04ID(r *Rng, w *data.Chunk) {
	id := r.Bytes(32)
	if id[0] == 0 && !r.Chance(5) {
		id[0] = 1
	}
	w.Write(id)
}

func c04CountU8(r *Rng) int {
	if r.Chance(80) {
		return r.Intn(4)
	}
	return []int{0, 1, 16, 254, 255}[r.Intn(5)]
}

func c04GenMachine(r *Rng, w *data.Chunk) {
	c04ID(r, w)
	w.WriteUint8(uint8(r.U64()))
	w.WriteUint32(uint32(r.U64()))
	w.WriteUint32(uint32(r.U64()))
	w.WriteString(c04Str(r))
	w.WriteString(c04Str(r))
	w.WriteString(c04Str(r))
	w.WriteUint8(uint8(r.U64()))
	w.WriteUint32(uint32(r.U64()))
	n := c04CountU8(r)
	w.WriteUint8(uint8(n))
	for i := 0; i < n; i++ {
		w.WriteString(c04Str(r))
		w.WriteUint64(r.U64())
		a := c04CountU8(r)
		w.WriteUint8(uint8(a))
		for j := 0; j < a; j++ {
			w.WriteUint64(r.U64())
			w.WriteUint64(r.U64())
		}
	}
}

func c04GenProxy(r *Rng, w *data.Chunk, f bool) {
	n := c04CountU8(r)
	w.WriteUint8(uint8(n))
	for i := 0; i < n; i++ {
		w.WriteString(c04Str(r))
		w.WriteString(c04Str(r))
		if f {
			w.WriteBytes(r.Bytes(r.Intn(20)))
		}
	}
}

func c04GenInfo(r *Rng, t int) []byte {
	var w data.Chunk
	if t == 4 {
		c04GenProxy(r, &w, false)
		return w.Payload()
	}
	switch t {
	case 0, 2, 5:
		c04GenMachine(r, &w)
	case 1:
		c04ID(r, &w)
	}
	w.WriteUint8(uint8(r.U64()))
	w.WriteInt64(int64(r.U64() >> uint(r.Intn(64))))
	k := int64(0)
	if r.Bool() {
		k = int64(r.U64() >> uint(r.Intn(64)))
		if r.Chance(20) {
			k = -k
		}
	}
	w.WriteInt64(k)
	for i := 0; i < 5; i++ {
		w.WriteUint8(uint8(r.U64() >> uint(r.Intn(8))))
	}
	if t > 2 {
		return w.Payload()
	}
	c04GenProxy(r, &w, true)
	if t == 1 {
		w.Write(r.Bytes(133 + 66 + 65))
	}
	return w.Payload()
}

func c04GenPacketStream(r *Rng) []byte {
	var w data.Chunk
	p := &com.Packet{ID: uint8(r.U64()), Job: uint16(r.U64()), Flags: com.Flag(r.U64() >> uint(r.Intn(64)))}
	id := r.Bytes(32)
	if id[0] == 0 {
		id[0] = 7
	}
	copy(p.Device[:], id)
	nt := 0
	if r.Chance(40) {
		nt = r.Intn(4)
	}
	if r.Chance(3) {
		nt = []int{300, 32767, 32768, 32769, 40000}[r.Intn(5)]
	}
	for i := 0; i < nt; i++ {
		p.Tags = append(p.Tags, uint32(r.U64())|1)
	}
	p.Write(r.Bytes(genLen(r, false)))
	p.MarshalStream(&w)
	return w.Payload()
}

// valid encodings of the result payloads
func c04GenResult(r *Rng, name string) []byte {
	var w data.Chunk
	cnt := func() int {
		if r.Chance(85) {
			return r.Intn(4)
		}
		return []int{0, 1, 50, 300}[r.Intn(4)]
	}
	switch name {
	case "r.pwd":
		w.WriteString(c04Str(r))
	case "r.spawn":
		w.WriteUint32(uint32(r.U64()))
	case "r.bool":
		w.WriteUint8(uint8(r.Intn(3)))
	case "r.mounts":
		n := cnt()
		l := make([]string, n)
		for i := range l {
			l[i] = c04Str(r)
		}
		data.WriteStringList(&w, l)
	case "r.ls":
		n := cnt()
		w.WriteUint32(uint32(n))
		for i := 0; i < n; i++ {
			w.WriteString(c04Str(r))
			w.WriteUint32(uint32(r.U64()))
			w.WriteInt64(int64(r.U64()))
			w.WriteInt64(int64(r.U64()))
		}
	case "r.windows":
		n := cnt()
		w.WriteUint32(uint32(n))
		for i := 0; i < n; i++ {
			w.WriteUint64(r.U64())
			w.WriteString(c04Str(r))
			w.WriteUint8(uint8(r.U64()))
			for j := 0; j < 4; j++ {
				w.WriteUint32(uint32(r.U64()))
			}
		}
	case "r.funcs":
		n := cnt()
		w.WriteUint32(uint32(n))
		for i := 0; i < n; i++ {
			w.WriteUint32(uint32(r.U64()))
			w.WriteUint64(r.U64())
			w.WriteUint64(r.U64())
		}
	case "r.procs":
		n := cnt()
		w.WriteUint32(uint32(n))
		for i := 0; i < n; i++ {
			w.WriteUint32(uint32(r.U64()))
			w.WriteUint32(uint32(r.U64()))
			w.WriteString(c04Str(r))
			w.WriteString(c04Str(r))
		}
	case "r.logins":
		n := cnt()
		w.WriteUint16(uint16(n))
		for i := 0; i < n; i++ {
			w.WriteUint32(uint32(r.U64()))
			w.WriteUint8(uint8(r.U64()))
			w.WriteInt64(int64(r.U64()))
			w.WriteInt64(int64(r.U64()))
			w.WriteUint64(r.U64())
			w.WriteUint64(r.U64())
			w.WriteString(c04Str(r))
			w.WriteString(c04Str(r))
		}
	case "r.registry":
		o := r.Intn(3)
		if r.Chance(10) {
			o = r.Intn(20)
		}
		w.WriteUint8(uint8(o))
		n := 1
		if o == 0 {
			n = cnt()
			w.WriteUint32(uint32(n))
		}
		for i := 0; i < n; i++ {
			w.WriteString(c04Str(r))
			w.WriteUint32(uint32(r.U64()))
			w.WriteBytes(r.Bytes(r.Intn(12)))
		}
	case "r.upload", "r.pull":
		w.WriteString(c04Str(r))
		w.WriteUint64(r.U64())
	case "r.whoami":
		w.WriteString(c04Str(r))
		w.WriteString(c04Str(r))
	case "r.assembly":
		w.WriteUint64(r.U64())
		w.WriteUint32(uint32(r.U64()))
		w.WriteUint32(uint32(r.U64()))
	case "r.process":
		w.WriteUint32(uint32(r.U64()))
		w.WriteUint32(uint32(r.U64()))
		w.Write(r.Bytes(r.Intn(10)))
	case "r.download":
		w.WriteString(c04Str(r))
		w.WriteUint8(uint8(r.Intn(2)))
		w.WriteUint64(r.U64())
	case "r.systemio":
		o := r.Intn(5)
		w.WriteUint8(uint8(o))
		w.WriteString(c04Str(r))
		w.WriteUint64(r.U64())
	case "r.script":
		for n := r.Intn(4); n > 0; n-- {
			w.WriteUint8(uint8(r.U64()))
			if r.Bool() {
				w.WriteUint8(0)
				w.WriteString(c04Str(r))
			} else {
				w.WriteUint8(1)
				w.WriteBytes(r.Bytes(r.Intn(30)))
			}
		}
	}
	return w.Payload()
}

var c04Results = []string{"r.pwd", "r.spawn", "r.bool", "r.mounts", "r.ls", "r.windows", "r.funcs", "r.procs", "r.logins",
	"r.registry", "r.upload", "r.whoami", "r.pull", "r.assembly", "r.process", "r.download", "r.systemio", "r.script"}

// a DNS-transform message as the real encoder writes it (client and server form)
func c04GenDNS(r *Rng) []byte {
	p := r.Bytes([]int{0, 1, 5, 100, 255, 256, 257, 600, 2048, 2049, 5000}[r.Intn(11)])
	return c04ChildEncode("dns", p)
}

// c04GenDNSHostile builds a DNS-shaped message by hand: header counts q/c/t in 0..2, well-formed
// names, and record length fields that may lie about what follows.
func c04GenDNSHostile(r *Rng) []byte {
	q, cn, t := r.Intn(3), r.Intn(3), r.Intn(3)
	b := make([]byte, 12)
	b[0], b[1] = byte(r.U64()), byte(r.U64())
	b[5], b[7], b[11] = byte(q), byte(cn), byte(t)
	if r.Chance(5) {
		b[4+2*r.Intn(4)] = byte(1 + r.Intn(255))
	}
	lie := func(rd int) int {
		switch r.Intn(6) {
		case 0:
			return rd + 1 + r.Intn(300)
		case 1:
			return 0xFFFF
		case 2:
			if rd > 0 {
				return rd - 1
			}
		}
		return rd
	}
	for i := 0; i < q; i++ {
		for l := r.Intn(3); l > 0; l-- {
			n := 1 + r.Intn(6)
			if r.Chance(5) {
				n = 62 + r.Intn(3)
			}
			b = append(b, byte(n))
			b = append(b, r.Bytes(n)...)
		}
		b = append(b, 0, 0, 1, 0, 1)
	}
	for i := 0; i < cn; i++ {
		b = append(b, r.Bytes(10)...)
		rd := r.Intn(8)
		a := lie(rd)
		b = append(b, byte(a>>8), byte(a))
		b = append(b, r.Bytes(rd)...)
	}
	for i := 0; i < t; i++ {
		h := []byte{0xC0, 0x0C, 0, 0xA, 0, 1, 0, 0, 0, 0}
		if r.Chance(8) {
			h[r.Intn(6)] ^= byte(1 + r.Intn(255))
		}
		b = append(b, h...)
		rd := r.Intn(20)
		a := lie(rd)
		b = append(b, byte(a>>8), byte(a))
		b = append(b, r.Bytes(rd)...)
	}
	return b
}

// ---- the run ------------------------------------------------------------------------------------

func runC04(c *Ctx) {
	bounds := c04Bounds()
	var ops []*c04Op
	add := func(line string, n int, model bool) *c04Op {
		f := strings.Fields(line)
		o := &c04Op{line: line, name: c04OpName(f), n: n, model: model}
		if n > 200000 {
			// the list-based model is quadratic in (entries × bytes left); such inputs add nothing
			c.Count("skipped:over-200k")
			return o
		}
		ops = append(ops, o)
		return o
	}
	flush := func() {
		c04RunBatch(c, ops)
		for _, o := range ops {
			c04Judge(c, o, bounds)
		}
		ops = ops[:0]
	}
	// 0. the model's and the harness' (K, B) tables agree
	names := make([]string, 0, len(bounds))
	for n := range bounds {
		names = append(names, n)
	}
	sort.Strings(names)
	for _, n := range names {
		if _, ok := c04Entry[n]; ok && (strings.HasPrefix(n, "r.") || strings.HasPrefix(n, "s.") || n == "bytes" || n == "str" || n == "strlist" || n == "devinfo" || n == "proxydata" || n == "upkt") {
			c.Op("bound "+n, fmt.Sprintf("%d %d", bounds[n].K, bounds[n].B))
		}
	}
	// 1. corpus of past / designed witnesses
	files, _ := filepath.Glob(filepath.Join(os.Getenv("VERIF_BUILD"), "..", "corpus", "C04", "*.ops"))
	sort.Strings(files)
	nc := 0
	for _, f := range files {
		b, err := os.ReadFile(f)
		if err != nil {
			continue
		}
		for _, l := range strings.Split(string(b), "\n") {
			l = strings.TrimSpace(l)
			if l == "" || strings.HasPrefix(l, "#") {
				continue
			}
			fs := strings.Fields(l)
			n := 0
			if h := fs[len(fs)-1]; h != "-" {
				n = len(strings.ReplaceAll(h, "|", "")) / 2
			}
			add(l, n, c04HasModel(fs))
			nc++
		}
	}
	c.Extra["corpus_cases"] = nc
	c.Cases("corpus", 1, func(r *Rng, i int) { flush(); c.Eval(nc > 0, "corpus") })

	// 2. data layer, in-memory reader
	c.Cases("data", c.N(400, 6000), func(r *Rng, i int) {
		var w data.Chunk
		kind := []string{"bytes", "str", "strlist"}[r.Intn(3)]
		if kind == "strlist" {
			n := r.Intn(5)
			if r.Chance(5) {
				n = []int{255, 256, 300}[r.Intn(3)]
			}
			l := make([]string, n)
			for j := range l {
				l[j] = c04Str(r)
			}
			data.WriteStringList(&w, l)
		} else {
			w.WriteBytes(r.Bytes(genLen(r, true)))
		}
		w.Write(r.Bytes(r.Intn(3)))
		b, m := c04Mutate(r, w.Payload())
		add(fmt.Sprintf("dec %s 0 %s", kind, hx(b)), len(b), true)
		c.Count("mut:" + m)
		c.Eval(true, kind+hx(b))
	})
	flush()
	// 3. stream reader (known finding: allocation by announced length)
	c.Cases("stream", c.N(200, 3000), func(r *Rng, i int) {
		var w data.Chunk
		kind := []string{"bytes", "strlist"}[r.Intn(2)]
		if kind == "strlist" {
			n := r.Intn(4)
			l := make([]string, n)
			for j := range l {
				l[j] = c04Str(r)
			}
			data.WriteStringList(&w, l)
		} else {
			w.WriteBytes(r.Bytes(genLen(r, true)))
		}
		b, m := c04Mutate(r, w.Payload())
		b = c04AvoidMidAlloc(b)
		add(fmt.Sprintf("sdec %s %s", kind, hxChunks(r.Split(b))), len(b), true)
		c.Count("mut:" + m)
		c.Eval(true, "s"+kind+hx(b))
	})
	flush()
	// 4. registration / device info / proxy lists / nested packets
	c.Cases("info", c.N(500, 8000), func(r *Rng, i int) {
		t := r.Intn(6)
		if r.Chance(3) {
			t = 6 + r.Intn(250)
		}
		raw := c04GenInfo(r, t%6)
		for len(raw) > 150000 { // keep the model run fast: huge name × huge count combinations are rare anyway
			raw = c04GenInfo(r, t%6)
		}
		b, m := c04Mutate(r, raw)
		add(fmt.Sprintf("dec devinfo %d %s", t, hx(b)), len(b), true)
		if r.Chance(30) {
			add(fmt.Sprintf("json %s", hx(b)), len(b), false)
		}
		c.Count("mut:" + m)
		c.Eval(true, "info"+hx(b))
	})
	flush()
	// 4b. the fragment dispatcher as a state machine: whole connection histories of hostile fragment
	// packets into one Session (counts, positions, groups, IDs and jobs unrelated to each other; empty
	// and non-empty bodies; the control IDs), compared with the Lean model packet by packet
	c.Cases("fragseq", c.N(600, 12000), func(r *Rng, i int) {
		var dev device.ID
		dev[0], dev[3] = 5, 1
		ngr := 1 + r.Intn(3)
		type gk struct {
			id   uint8
			job  uint16
			grp  uint16
			ln   int
			mode int
		}
		gs := make([]gk, ngr)
		for k := range gs {
			gs[k] = gk{id: uint8(0x20 + r.Intn(3)), job: uint16(2 + r.Intn(3)), grp: uint16(1 + r.Intn(3)), ln: []int{2, 2, 3, 3, 4, 5, 8}[r.Intn(7)], mode: r.Intn(6)}
			if r.Chance(5) {
				gs[k].grp = []uint16{0, 65535}[r.Intn(2)]
			}
		}
		nf := 2 + r.Intn(10)
		if i < 40 {
			nf = 2 + i%5 // the short histories first: every group shape with 2..6 fragments
		}
		toks := make([]string, 0, nf)
		total := 0
		for k := 0; k < nf; k++ {
			g := gs[r.Intn(ngr)]
			if i < 40 {
				g = gs[0]
				g.mode = i / 5 % 6
			}
			n := &com.Packet{ID: g.id, Job: g.job, Device: dev}
			ln, pos := g.ln, k%(g.ln+1)
			empty := false
			switch g.mode {
			case 0: // every fragment empty
				empty = true
			case 1: // empty first, data later
				empty = k < nf/2
			case 2: // data first, then empty ones
				empty = k >= 1
			case 3: // random
				empty = r.Bool()
			case 4: // count changes from fragment to fragment
				ln = []int{0, 1, 2, 3, 65535, g.ln}[r.Intn(6)]
				empty = r.Chance(40)
			case 5: // positions repeated / out of range, IDs and jobs drift
				pos = []int{0, 0, 1, g.ln, 65535, r.Intn(4)}[r.Intn(6)]
				empty = r.Chance(30)
				if r.Chance(25) {
					n.ID = uint8(0x20 + r.Intn(3))
				}
				if r.Chance(25) {
					n.Job = uint16(2 + r.Intn(3))
				}
			}
			if r.Chance(4) {
				n.ID = []uint8{c2.VerifC04SvDrop, c2.VerifC04SvRegister}[r.Intn(2)]
			}
			if r.Chance(10) {
				pos = 0
			}
			n.Flags = com.FlagFrag
			if r.Chance(15) {
				n.Flags |= com.FlagError
			}
			n.Flags.SetGroup(g.grp)
			n.Flags.SetLen(uint16(ln))
			n.Flags.SetPosition(uint16(pos))
			if !empty {
				n.Write(r.Bytes(1 + r.Intn(12)))
			}
			total += 46 + n.Size()
			toks = append(toks, pktTok(n))
		}
		add("fragseq "+strings.Join(toks, " "), total, true)
		c.Count(fmt.Sprintf("fragseq:mode%d", gs[0].mode))
		c.Eval(true, "fragseq"+strings.Join(toks, " "))
	})
	flush()
	// 4c. hostile key material at registration and re-key (real Listener.talk, real ECDH)
	c.Cases("hello", c.N(60, 1200), func(r *Rng, i int) {
		var kp data.KeyPair
		kp.Fill()
		k := append([]byte(nil), kp.Public[:]...)
		kind := i % 8
		switch kind {
		case 0: // valid
		case 1: // one bit flipped (not on the curve)
			k[1+r.Intn(len(k)-1)] ^= 1 << uint(r.Intn(8))
		case 2: // uncompressed-point marker + filler
			k = append([]byte{4}, r.Bytes(len(k)-1)...)
		case 3:
			k = append([]byte{4}, make([]byte, len(k)-1)...)
		case 4: // coordinates at / above the field size
			k = append([]byte{4}, bytes.Repeat([]byte{0xFF}, len(k)-1)...)
		case 5: // other markers
			k[0] = []byte{0, 2, 3, 5, 0xFF}[r.Intn(5)]
		case 6: // short
			k = k[:r.Intn(len(k))]
		case 7: // long / random
			k = r.Bytes(len(k) + r.Intn(40))
		}
		mode := "reg"
		if r.Bool() {
			mode = "rekey"
		}
		add(fmt.Sprintf("hello %s %s", mode, hx(k)), 200+len(k), false)
		c.Count(fmt.Sprintf("hello:%s:kind%d", mode, kind))
		c.Eval(true, "hello"+mode+hx(k))
	})
	flush()
	c.Cases("proxy", c.N(150, 2000), func(r *Rng, i int) {
		var w data.Chunk
		f := r.Bool()
		c04GenProxy(r, &w, f)
		b, m := c04Mutate(r, w.Payload())
		fa := 0
		if r.Chance(85) == f {
			fa = 1
		}
		add(fmt.Sprintf("dec proxydata %d %s", fa, hx(b)), len(b), true)
		c.Count("mut:" + m)
		c.Eval(true, "proxy"+hx(b))
	})
	flush()
	c.Cases("upkt", c.N(300, 5000), func(r *Rng, i int) {
		b, m := c04Mutate(r, c04GenPacketStream(r))
		add(fmt.Sprintf("dec upkt 0 %s", hx(b)), len(b), true)
		// the same bytes as a batch container fed to the real dispatchers (oracle only)
		x := 1 + r.Intn(3)
		if r.Chance(10) {
			x = []int{0, 1, 200, 65535}[r.Intn(4)]
		}
		add(fmt.Sprintf("recv %d %d %s", x, r.Intn(2), hx(b)), len(b), false)
		add(fmt.Sprintf("procmulti %d %d %s", x, r.Intn(2), hx(b)), len(b), false)
		c.Count("mut:" + m)
		c.Eval(true, "upkt"+hx(b))
	})
	flush()
	// 5. result decoders
	c.Cases("result", c.N(1200, 20000), func(r *Rng, i int) {
		name := c04Results[r.Intn(len(c04Results))]
		b, m := c04Mutate(r, c04GenResult(r, name))
		fl := 0
		if r.Chance(5) {
			fl = 8
		}
		add(fmt.Sprintf("dec %s %d %s", name, fl, hx(b)), len(b), true)
		c.Count("mut:" + m)
		c.Eval(true, name+hx(b))
	})
	flush()
	// 6. transforms, wrappers, wire form, connection handler (oracle only, except dns)
	c.Cases("dns", c.N(300, 5000), func(r *Rng, i int) {
		b, m := c04Mutate(r, c04GenDNS(r))
		if r.Chance(15) {
			b = r.Bytes(r.Intn(14)) // the short messages
		}
		add("dns "+hx(b), len(b), true)
		c.Count("mut:" + m)
		c.Eval(true, "dns"+hx(b))
	})
	flush()
	c.Cases("dnshdr", c.N(800, 12000), func(r *Rng, i int) {
		// synthesised messages: every combination of small question / answer / additional counts with
		// announced record lengths below, at and beyond what follows (the encoder never writes these)
		b := c04GenDNSHostile(r)
		if r.Chance(20) {
			b = append(b, c04GenDNSHostile(r)...)
		}
		if r.Chance(15) && len(b) > 0 {
			b = b[:r.Intn(len(b)+1)]
		}
		add("dns "+hx(b), len(b), true)
		c.Eval(true, "dnshdr"+hx(b))
	})
	flush()
	c.Cases("wire", c.N(400, 6000), func(r *Rng, i int) {
		p := r.Bytes(genLen(r, false))
		stack := r.Intn(len(c04Stacks))
		enc := c04ChildEncode("pkt:"+strconv.Itoa(stack), p)
		b, m := c04Mutate(r, enc)
		if stack == 0 {
			add("wire "+hxChunks(r.Split(b)), len(b), false)
		}
		add(fmt.Sprintf("rp %d %s", stack, hx(b)), len(b), false)
		add(fmt.Sprintf("handle %d %s", stack, hx(b)), len(b), false)
		if i%4 == 1 { // the same bytes, followed by six well-formed packets through the same stack
			add(fmt.Sprintf("rpseq %d %s", stack, hx(b)), len(b), false)
		}
		if r.Chance(20) {
			add(fmt.Sprintf("b64 %d %s", r.Intn(3), hx(b)), len(b), false)
			add("cbk "+hx(b), len(b), false)
		}
		c.Count("mut:" + m)
		c.Count("stack:" + c04Stacks[stack])
		c.Eval(true, "wire"+hx(b))
	})
	flush()
	c.Cases("resolve", c.N(100, 1500), func(r *Rng, i int) {
		n := r.Intn(6)
		if r.Chance(5) {
			n = []int{300, 32768, 32769, 32770, 40000}[r.Intn(5)]
		}
		t := make([]string, n)
		for j := range t {
			v := uint32(1 + r.Intn(6))
			if r.Chance(5) {
				v = 0
			}
			if r.Chance(20) {
				v = uint32(r.U64())
			}
			t[j] = strconv.FormatUint(uint64(v), 10)
		}
		s := "-"
		if n > 0 {
			s = strings.Join(t, ",")
		}
		add(fmt.Sprintf("resolve %d %d %s", r.Intn(2), r.Intn(8), s), 4*n, false)
		c.Eval(true, "resolve"+s)
	})
	flush()
	// 6b. the channel-or-close decision of handle(): all 12 combinations, model-compared
	for _, h := range []string{"nil", "0", "1"} {
		for _, a := range []string{"0", "1"} {
			for _, b := range []string{"0", "1"} {
				add(fmt.Sprintf("hsw %s %s %s", h, a, b), 46, true)
			}
		}
	}
	flush()
	// 6c. conn.process: all 24 combinations of (host has nothing to send, single / multi-device packet,
	// channel mode, 0..2 tag-resolved batches)
	for _, a := range []string{"0", "1"} {
		for _, b := range []string{"0", "1"} {
			for _, o := range []string{"0", "1"} {
				for _, k := range []string{"0", "1", "2"} {
					add(fmt.Sprintf("process %s %s %s %s", a, b, o, k), 46, false)
				}
			}
		}
	}
	flush()
	// 6d. the wire header announces far more than follows (length classes 5 and 7): memory must follow
	// the bytes received, not the announcement
	c.Cases("wirelen", c.N(60, 600), func(r *Rng, i int) {
		ann := []uint64{1 << 20, 1 << 24, 1 << 28, 1<<31 - 1, 1 << 31, 1<<32 - 1, 1 << 33, 1 << 40}[i%8]
		body := r.Bytes([]int{0, 1, 63, 64, 65, 200, 1000, 4096, 20000}[r.Intn(9)])
		b := make([]byte, 32, 64+len(body))
		copy(b, r.Bytes(32))
		b[0] |= 1
		b = append(b, 0x20, 0, 9, 0, 0, 0, 0, 0, 0, 0, 0, 0, 0)
		if ann < 1<<32 {
			b = append(b, 5, byte(ann>>24), byte(ann>>16), byte(ann>>8), byte(ann))
		} else {
			b = append(b, 7, byte(ann>>56), byte(ann>>48), byte(ann>>40), byte(ann>>32), byte(ann>>24), byte(ann>>16), byte(ann>>8), byte(ann))
		}
		b = append(b, body...)
		add("wire "+hxChunks(r.Split(b)), len(b), false)
		add(fmt.Sprintf("rp 0 %s", hx(b)), len(b), false)
		add(fmt.Sprintf("handle 0 %s", hx(b)), len(b), false)
		c.Eval(true, "wirelen"+hx(b[:50]))
	})
	flush()
	// 7. the hang witness (nil-buffer Chunk) and end-to-end smoke
	add("hang -", 0, false)
	flush()
	c.Cases("e2e", 1, func(r *Rng, i int) {
		for st := range c04Stacks {
			if !c.Thorough() && st%4 != int(c.Seed%4) {
				continue
			}
			add(fmt.Sprintf("e2e %d %d", st, c.N(4, 10)), 0, false)
		}
		c.Eval(true, "e2e")
	})
	flush()
	runC04S3(c) // extension round 3: dispatch arms (c04_s3.go)
}

func c04HasModel(f []string) bool {
	switch f[0] {
	case "dec", "sdec", "dns", "bound", "hsw", "fragseq":
		return true
	}
	return false
}

// c04AvoidMidAlloc keeps announced stream lengths away from the cap itself (the child either
// finishes far below the cap or cannot get the memory at all; the class is then unambiguous).
func c04AvoidMidAlloc(b []byte) []byte {
	for i := 0; i+4 < len(b); i++ {
		if (b[i] == 5 || b[i] == 6) && b[i+1] >= 0x04 && b[i+1] < 0xF0 {
			b[i+1] |= 0xF0
		}
	}
	return b
}

// c04ChildEncode asks a helper child for the real encoder's output (DNS transform, wrapped
// packets); it runs in-process here because the encoders are not under test.
func c04ChildEncode(kind string, p []byte) []byte { return c04Encode(kind, p) }

var _ = io.EOF
var _ = c2.RvResult
