package main

// C04 child: executes ops on the REAL code, one per stdin line, answering "A\t<allocated>\t<answer>".
// The process runs under an address-space limit; a fatal error (out of memory, stack overflow,
// unrecovered panic in another goroutine) kills only this child and is attributed by the parent.

import (
	"bufio"
	"bytes"
	"context"
	"encoding/hex"
	"encoding/json"
	"fmt"
	"io"
	"net"
	"os"
	"runtime"
	"strconv"
	"strings"
	"syscall"
	"time"

	"github.com/PurpleSec/logx"
	"github.com/iDigitalFlame/xmt/c2"
	"github.com/iDigitalFlame/xmt/c2/cfg"
	"github.com/iDigitalFlame/xmt/c2/task/result"
	"github.com/iDigitalFlame/xmt/c2/transform"
	"github.com/iDigitalFlame/xmt/c2/wrapper"
	"github.com/iDigitalFlame/xmt/com"
	"github.com/iDigitalFlame/xmt/data"
	"github.com/iDigitalFlame/xmt/data/crypto"
	"github.com/iDigitalFlame/xmt/device"
)

// ---- wrapper / transform stacks -------------------------------------------------------------------

var c04Stacks = []string{"none", "hex", "b64w", "zlib", "gzip", "xor", "cbk", "aes", "b64t", "b64t-shift", "dns", "zlib+aes+b64t", "hex+dns"}

func c04Stack(i int) (cfg.Wrapper, cfg.Transform) {
	aes := func() cfg.Wrapper {
		b, _ := crypto.NewAes([]byte("0123456789abcdef0123456789abcdef"))
		w, _ := wrapper.NewBlock(b, []byte("ABCDEFGHIJKLMNOP"))
		return w
	}
	switch c04Stacks[i%len(c04Stacks)] {
	case "hex":
		return wrapper.Hex, nil
	case "b64w":
		return wrapper.Base64, nil
	case "zlib":
		return wrapper.Zlib, nil
	case "gzip":
		return wrapper.Gzip, nil
	case "xor":
		return wrapper.NewXOR([]byte("verif-c04-xor-key")), nil
	case "cbk":
		return wrapper.NewCBK(10, 20, 30, 40, 128), nil
	case "aes":
		return aes(), nil
	case "b64t":
		return nil, transform.Base64
	case "b64t-shift":
		return nil, transform.B64Shift(7)
	case "dns":
		return nil, transform.DNSTransform{"example.com"}
	case "zlib+aes+b64t":
		return cfg.MultiWrapper{wrapper.Zlib, aes()}, transform.Base64
	case "hex+dns":
		return wrapper.Hex, transform.DNSTransform{"a.example.org"}
	}
	return nil, nil
}

// c04Encode: the real encoders' output for a payload (inputs of the mutators).
func c04Encode(kind string, p []byte) []byte {
	var o data.Chunk
	switch {
	case kind == "dns":
		transform.DNSTransform{"example.com"}.Write(append([]byte(nil), p...), &o)
	case strings.HasPrefix(kind, "pkt:"):
		st, _ := strconv.Atoi(kind[4:])
		w, t := c04Stack(st)
		n := &com.Packet{ID: 0x14, Job: 77, Flags: 0}
		n.Device[0], n.Device[5] = 9, 3
		n.Write(p)
		conn := &c04Conn{}
		c2.VerifC04WritePacket(conn, w, t, n)
		return conn.out.Bytes()
	}
	return append([]byte(nil), o.Payload()...)
}

// ---- scripted net.Conn ----------------------------------------------------------------------------

type c04Conn struct {
	in     PieceReader
	out    bytes.Buffer
	closed bool
}

func (c *c04Conn) Read(b []byte) (int, error) {
	if c.closed {
		return 0, io.ErrClosedPipe
	}
	return c.in.Read(b)
}
func (c *c04Conn) Write(b []byte) (int, error)    { return c.out.Write(b) }
func (c *c04Conn) Close() error                   { c.closed = true; return nil }
func (*c04Conn) LocalAddr() net.Addr              { return &net.TCPAddr{} }
func (*c04Conn) RemoteAddr() net.Addr             { return &net.TCPAddr{} }
func (*c04Conn) SetDeadline(time.Time) error      { return nil }
func (*c04Conn) SetReadDeadline(time.Time) error  { return nil }
func (*c04Conn) SetWriteDeadline(time.Time) error { return nil }

// ---- tracing reader -------------------------------------------------------------------------------

// c04Trace wraps the real *data.Chunk and records every primitive read the decoder makes through
// the data.Reader interface (the model emits the same tokens).
type c04Trace struct {
	c   *data.Chunk
	log []string
}

func (t *c04Trace) add(k string, v uint64)  { t.log = append(t.log, k+":"+strconv.FormatUint(v, 10)) }
func (t *c04Trace) addb(k string, b []byte) { t.log = append(t.log, k+":"+hx(b)) }
func (t *c04Trace) Close() error            { return nil }
func (t *c04Trace) Read(b []byte) (int, error) {
	n, err := t.c.Read(b)
	if n > 0 {
		t.addb("r", b[:n])
	}
	return n, err
}
func (t *c04Trace) Uint8() (uint8, error) {
	v, err := t.c.Uint8()
	if err == nil {
		t.add("u8", uint64(v))
	}
	return v, err
}
func (t *c04Trace) Uint16() (uint16, error) {
	v, err := t.c.Uint16()
	if err == nil {
		t.add("u16", uint64(v))
	}
	return v, err
}
func (t *c04Trace) Uint32() (uint32, error) {
	v, err := t.c.Uint32()
	if err == nil {
		t.add("u32", uint64(v))
	}
	return v, err
}
func (t *c04Trace) Uint64() (uint64, error) {
	v, err := t.c.Uint64()
	if err == nil {
		t.add("u64", v)
	}
	return v, err
}
func (t *c04Trace) Bool() (bool, error) {
	v, err := t.c.Bool()
	if err == nil {
		x := uint64(0)
		if v {
			x = 1
		}
		t.add("b", x)
	}
	return v, err
}
func (t *c04Trace) Bytes() ([]byte, error) {
	v, err := t.c.Bytes()
	if err == nil {
		t.addb("by", v)
	}
	return v, err
}
func (t *c04Trace) StringVal() (string, error) {
	v, err := t.c.StringVal()
	if err == nil {
		t.addb("s", []byte(v))
	}
	return v, err
}
func (t *c04Trace) Int() (int, error)         { v, err := t.Uint64(); return int(v), err }
func (t *c04Trace) Uint() (uint, error)       { v, err := t.Uint64(); return uint(v), err }
func (t *c04Trace) Int8() (int8, error)       { v, err := t.Uint8(); return int8(v), err }
func (t *c04Trace) Int16() (int16, error)     { v, err := t.Uint16(); return int16(v), err }
func (t *c04Trace) Int32() (int32, error)     { v, err := t.Uint32(); return int32(v), err }
func (t *c04Trace) Int64() (int64, error)     { v, err := t.Uint64(); return int64(v), err }
func (t *c04Trace) Float32() (float32, error) { return t.c.Float32() }
func (t *c04Trace) Float64() (float64, error) { return t.c.Float64() }
func (t *c04Trace) ReadInt(p *int) error {
	v, err := t.Int()
	if err == nil {
		*p = v
	}
	return err
}
func (t *c04Trace) ReadBool(p *bool) error {
	v, err := t.Bool()
	if err == nil {
		*p = v
	}
	return err
}
func (t *c04Trace) ReadInt8(p *int8) error {
	v, err := t.Int8()
	if err == nil {
		*p = v
	}
	return err
}
func (t *c04Trace) ReadUint(p *uint) error {
	v, err := t.Uint()
	if err == nil {
		*p = v
	}
	return err
}
func (t *c04Trace) ReadInt16(p *int16) error {
	v, err := t.Int16()
	if err == nil {
		*p = v
	}
	return err
}
func (t *c04Trace) ReadInt32(p *int32) error {
	v, err := t.Int32()
	if err == nil {
		*p = v
	}
	return err
}
func (t *c04Trace) ReadInt64(p *int64) error {
	v, err := t.Int64()
	if err == nil {
		*p = v
	}
	return err
}
func (t *c04Trace) ReadUint8(p *uint8) error {
	v, err := t.Uint8()
	if err == nil {
		*p = v
	}
	return err
}
func (t *c04Trace) ReadBytes(p *[]byte) error {
	v, err := t.Bytes()
	if err == nil {
		*p = v
	}
	return err
}
func (t *c04Trace) ReadUint16(p *uint16) error {
	v, err := t.Uint16()
	if err == nil {
		*p = v
	}
	return err
}
func (t *c04Trace) ReadUint32(p *uint32) error {
	v, err := t.Uint32()
	if err == nil {
		*p = v
	}
	return err
}
func (t *c04Trace) ReadUint64(p *uint64) error {
	v, err := t.Uint64()
	if err == nil {
		*p = v
	}
	return err
}
func (t *c04Trace) ReadString(p *string) error {
	v, err := t.StringVal()
	if err == nil {
		*p = v
	}
	return err
}
func (t *c04Trace) ReadFloat32(p *float32) error { return t.c.ReadFloat32(p) }
func (t *c04Trace) ReadFloat64(p *float64) error { return t.c.ReadFloat64(p) }

// ---- error classes --------------------------------------------------------------------------------

func c04Err(err error) string {
	switch err {
	case io.EOF:
		return "eof"
	case io.ErrUnexpectedEOF:
		return "ueof"
	case data.ErrInvalidType:
		return "badtype"
	case data.ErrTooLarge:
		return "toolarge"
	case io.ErrNoProgress:
		return "noprogress"
	case com.ErrMalformedTag:
		return "malformedtag"
	case c2.ErrMalformedPacket:
		return "malformedpacket"
	case c2.ErrInvalidPacketCount:
		return "invalidcount"
	case io.ErrShortBuffer:
		return "shortbuffer"
	case io.ErrClosedPipe:
		return "closedpipe"
	}
	s := err.Error()
	if len(s) > 60 {
		s = s[:60]
	}
	return "other:" + strings.ReplaceAll(s, " ", "_")
}

// ---- decoders -------------------------------------------------------------------------------------

// c04Decode runs the real decoder `name` on in through r (the Chunk itself or the tracing wrapper).
func c04Decode(name string, arg uint64, ch *data.Chunk, r data.Reader) error {
	switch name {
	case "bytes":
		_, err := r.Bytes()
		return err
	case "str":
		_, err := r.StringVal()
		return err
	case "strlist":
		var l []string
		return data.ReadStringList(r, &l)
	case "devinfo":
		_, err := c2.VerifC12NewServer().VerifC12Read(uint8(arg), r)
		return err
	case "proxydata":
		_, err := c2.VerifC04ReadProxyData(arg == 1, r)
		return err
	case "upkt":
		var p com.Packet
		return p.UnmarshalStream(r)
	}
	return fmt.Errorf("bad decoder %s", name)
}

func c04Result(name string, n *com.Packet) error {
	var err error
	switch name {
	case "r.pwd":
		_, err = result.Pwd(n)
	case "r.spawn":
		_, err = result.Spawn(n)
	case "r.bool":
		_, err = result.CheckDLL(n)
	case "r.mounts":
		_, err = result.Mounts(n)
	case "r.ls":
		_, err = result.Ls(n)
	case "r.windows":
		_, err = result.WindowList(n)
	case "r.funcs":
		_, err = result.FuncRemapList(n)
	case "r.procs":
		_, err = result.ProcessList(n)
	case "r.logins":
		_, err = result.UserLogins(n)
	case "r.registry":
		_, _, err = result.Registry(n)
	case "r.upload":
		_, _, err = result.Upload(n)
	case "r.whoami":
		_, _, err = result.Whoami(n)
	case "r.pull":
		_, _, _, err = result.Pull(n)
	case "r.assembly":
		_, _, _, err = result.Assembly(n)
	case "r.process":
		_, _, _, err = result.Process(n)
	case "r.download":
		_, _, _, _, err = result.Download(n)
	case "r.systemio":
		_, _, _, err = result.SystemIO(n)
	case "r.script":
		_, err = result.Script(n)
	default:
		err = fmt.Errorf("bad decoder %s", name)
	}
	return err
}

func c04Measure(fn func()) uint64 {
	var a, b runtime.MemStats
	runtime.ReadMemStats(&a)
	fn()
	runtime.ReadMemStats(&b)
	return b.TotalAlloc - a.TotalAlloc
}

func c04Line(err error, rem int, tr []string) string {
	t := "-"
	if len(tr) > 0 {
		t = strings.Join(tr, ",")
	}
	if err == nil {
		return fmt.Sprintf("ok rem=%d ac=@ tr=%s", rem, t)
	}
	return fmt.Sprintf("err %s rem=%d ac=@ tr=%s", c04Err(err), rem, t)
}

func c04Hex(s string) []byte {
	if s == "-" || s == "" {
		return nil
	}
	b, err := hex.DecodeString(s)
	if err != nil {
		panic("bad hex in op")
	}
	return b
}

func c04Pieces(s string) [][]byte {
	if s == "." || s == "" {
		return nil
	}
	var p [][]byte
	for _, x := range strings.Split(s, "|") {
		p = append(p, c04Hex(x))
	}
	return p
}

// c04Exec runs one op; returns the answer and the bytes allocated by the call under test.
func c04Exec(f []string) (ans string, alloc uint64) {
	defer func() {
		if e := recover(); e != nil {
			s := fmt.Sprint(e)
			if len(s) > 100 {
				s = s[:100]
			}
			ans = "panic " + strings.ReplaceAll(s, " ", "_")
		}
	}()
	switch f[0] {
	case "dec":
		name := f[1]
		arg, _ := strconv.ParseUint(f[2], 10, 64)
		in := c04Hex(f[3])
		if strings.HasPrefix(name, "r.") {
			n := &com.Packet{Flags: com.Flag(arg), Chunk: *data.NewChunk(append([]byte(nil), in...))}
			var err error
			alloc = c04Measure(func() { err = c04Result(name, n) })
			return c04Line(err, n.Remaining(), nil), alloc
		}
		// pass 1: plain (allocation), pass 2: traced (read sequence)
		ch := data.NewChunk(append([]byte(nil), in...))
		var err error
		alloc = c04Measure(func() { err = c04Decode(name, arg, ch, ch) })
		ch2 := data.NewChunk(append([]byte(nil), in...))
		t := &c04Trace{c: ch2}
		err2 := c04Decode(name, arg, ch2, t)
		if (err == nil) != (err2 == nil) || ch.Remaining() != ch2.Remaining() {
			return fmt.Sprintf("trace-run-differs %v/%v", err, err2), alloc
		}
		return c04Line(err, ch.Remaining(), t.log), alloc
	case "sdec":
		pr := &PieceReader{P: c04Pieces(f[2])}
		rd := data.NewReader(pr)
		switch f[1] {
		case "bytes":
			var b []byte
			var err error
			alloc = c04Measure(func() { b, err = rd.Bytes() })
			if err != nil {
				return "err " + c04Err(err) + " ac=@", alloc
			}
			return fmt.Sprintf("ok len=%d rem=%d ac=@", len(b), pr.Remaining()), alloc
		case "strlist":
			var l []string
			var err error
			alloc = c04Measure(func() { err = data.ReadStringList(rd, &l) })
			if err != nil {
				return "err " + c04Err(err) + " ac=@", alloc
			}
			return fmt.Sprintf("ok n=%d rem=%d ac=@", len(l), pr.Remaining()), alloc
		}
	case "dns":
		in := c04Hex(f[1])
		var o data.Chunk
		var err error
		alloc = c04Measure(func() { err = transform.DNS.Read(in, &o) })
		if err != nil {
			return "err " + c04Err(err), alloc
		}
		return "ok " + hx(o.Payload()), alloc
	case "b64":
		sh, _ := strconv.Atoi(f[1])
		in := c04Hex(f[2])
		var o data.Chunk
		var err error
		alloc = c04Measure(func() { err = transform.B64Shift(sh).Read(in, &o) })
		return c04Cls(err), alloc
	case "cbk":
		in := c04Hex(f[1])
		var err error
		alloc = c04Measure(func() {
			var rd io.Reader
			if rd, err = wrapper.NewCBK(10, 20, 30, 40, 128).Unwrap(bytes.NewReader(in)); err == nil {
				var p com.Packet
				err = p.Unmarshal(rd)
			}
		})
		return c04Cls(err), alloc
	case "wire":
		pr := &PieceReader{P: c04Pieces(f[1])}
		var p com.Packet
		var err error
		alloc = c04Measure(func() { err = p.Unmarshal(pr) })
		return c04Cls(err), alloc
	case "rp":
		st, _ := strconv.Atoi(f[1])
		w, t := c04Stack(st)
		conn := &c04Conn{in: PieceReader{P: [][]byte{c04Hex(f[2])}}}
		var err error
		alloc = c04Measure(func() { _, err = c2.VerifC04ReadPacket(conn, w, t) })
		return c04Cls(err), alloc
	case "rpseq":
		// "the server keeps serving": after a connection whose bytes were rejected, well-formed packets
		// through the same stack are still read, one after the other, each with its own contents
		st, _ := strconv.Atoi(f[1])
		w, t := c04Stack(st)
		conn := &c04Conn{in: PieceReader{P: [][]byte{c04Hex(f[2])}}}
		var err error
		alloc = c04Measure(func() { _, err = c2.VerifC04ReadPacket(conn, w, t) })
		first := c04Cls(err)
		good := 0
		why := ""
		for k := 0; k < 6 && why == ""; k++ {
			var id device.ID
			id[0], id[5] = 3, byte(k+1)
			n := &com.Packet{ID: uint8(0x20 + k), Job: uint16(100 + k), Device: id}
			pay := bytes.Repeat([]byte{byte(0x41 + k)}, 10+37*k)
			n.Write(pay)
			cw := &c04Conn{}
			if e := c2.VerifC04WritePacket(cw, w, t, n); e != nil {
				why = "write:" + e.Error()
				break
			}
			cr := &c04Conn{in: PieceReader{P: [][]byte{append([]byte(nil), cw.out.Bytes()...)}}}
			g, e := c2.VerifC04ReadPacket(cr, w, t)
			switch {
			case e != nil:
				why = "read:" + e.Error()
			case g.ID != uint8(0x20+k) || g.Job != uint16(100+k) || g.Device != id || !bytes.Equal(g.Payload(), pay):
				why = "differs"
			default:
				good++
			}
		}
		return fmt.Sprintf("%s after=%d/6 %s", first, good, strings.ReplaceAll(why, " ", "_")), alloc
	case "handle":
		st, _ := strconv.Atoi(f[1])
		w, t := c04Stack(st)
		conn := &c04Conn{in: PieceReader{P: [][]byte{c04Hex(f[2])}}}
		srv := &c2.VerifC04Server{W: w, T: t}
		alloc = c04Measure(func() { c2.VerifC04Handle(conn, srv) })
		return fmt.Sprintf("ok talked=%d", len(srv.Events)), alloc
	case "hsw":
		// the channel-or-close decision at the end of the real handle(): host nil / chanStart 0|1,
		// FlagChannel on the received Packet, FlagChannel on the reply
		var id device.ID
		id[0], id[7] = 9, 2
		srv := &c2.VerifC04Server{}
		if f[1] != "nil" {
			srv.TalkHost = &c2.VerifC04Host{ID: id, Srv: srv, ChanStart: f[1] == "1"}
		}
		n := &com.Packet{ID: 0x20, Job: 3, Device: id}
		if f[2] == "1" {
			n.Flags |= com.FlagChannel
		}
		if f[3] == "1" {
			srv.TalkNextFlags = com.FlagChannel
		}
		conn := &c04Conn{}
		c2.VerifC04WritePacket(conn, nil, nil, n)
		conn.in = PieceReader{P: [][]byte{append([]byte(nil), conn.out.Bytes()...)}}
		conn.out.Reset()
		c2.VerifC04Handle(conn, srv)
		time.Sleep(2 * time.Millisecond) // the channel reader goroutine ends on its own (chanRunning() = false)
		if srv.VerifC04Has("stateSet") {
			return "start", 0
		}
		return "close", 0
	case "recv":
		// a batch container (FlagMulti, Len = x) or a fragment around the given bytes
		x, _ := strconv.Atoi(f[1])
		frag := f[2] == "1"
		in := c04Hex(f[3])
		var id device.ID
		id[0], id[3] = 5, 1
		s := c2.VerifC04NewSession(id)
		n := &com.Packet{ID: 0x20, Job: 9, Device: id, Chunk: *data.NewChunk(append([]byte(nil), in...))}
		if frag {
			n.Flags.SetGroup(uint16(x))
			n.Flags.SetLen(uint16(x))
			n.Flags.SetPosition(uint16(x / 2))
		} else {
			n.Flags = com.FlagMulti
			n.Flags.SetLen(uint16(x))
		}
		var err error
		var lv, rp []string
		alloc = c04Measure(func() { lv, rp, _, err = c2.VerifC04Receive(s, n) })
		return fmt.Sprintf("%s leaves=%d replies=%d", c04Cls(err), len(lv), len(rp)), alloc
	case "fragseq":
		// a connection history of fragment packets (pktTok form) into ONE server-side Session: the
		// stateful part of the fragment dispatcher (cluster.add / cluster.done across packets)
		var id device.ID
		id[0], id[3] = 5, 1
		s := c2.VerifC04NewSession(id)
		var outs []string
		groups := 0
		alloc = c04Measure(func() {
			for _, tok := range f[1:] {
				n := c04ParsePkt(tok)
				if n == nil {
					outs = append(outs, "bad-op")
					continue
				}
				n.Device = id
				sys := n.ID == c2.VerifC04SvDrop || n.ID == c2.VerifC04SvRegister
				lv, rp, g, err := c2.VerifC04Receive(s, n)
				groups = g
				drop := false
				for _, x := range rp {
					if strings.HasPrefix(x, fmt.Sprintf("R:%d:", c2.VerifC04SvDrop)) {
						drop = true
					}
				}
				switch {
				case err == c2.ErrInvalidPacketCount:
					outs = append(outs, "err:count")
				case err != nil:
					outs = append(outs, "err:mismatch")
				case sys:
					outs = append(outs, "control")
				case len(lv) > 0:
					outs = append(outs, "deliver:"+strings.TrimPrefix(lv[len(lv)-1], "L:"))
				case drop:
					outs = append(outs, "drop")
				default:
					outs = append(outs, "stored")
				}
			}
		})
		return fmt.Sprintf("%s groups=%d held=%d", strings.Join(outs, " "), groups, s.VerifC04Held()), alloc
	case "hello":
		// registration and re-key with hostile key material through the REAL Listener.talk (key parsing,
		// ECDH): f[1] = "reg" (a well-formed SvHello whose key bytes are the given ones) or "rekey" (a
		// registered peer sends a FlagCrypt packet whose decrypted body is the given bytes)
		key := c04Hex(f[2])
		env := c2.VerifC15NewEnv()
		defer env.Close()
		var id device.ID
		id[0], id[5] = 7, 3
		n := &com.Packet{ID: c2.SvHello, Device: id, Job: 9}
		res := ""
		alloc = c04Measure(func() {
			if f[1] == "reg" {
				c2.VerifC15HelloPayload(n, id, false)
				n.Write(key)
				o := env.Talk("A", n)
				res = "reg " + c04Cls(o.Err)
				return
			}
			c2.VerifC15HelloPayload(n, id, true)
			if o := env.Talk("A", n); o.Err != nil {
				res = "rekey setup-err"
				return
			}
			v := &com.Packet{ID: 0x20, Device: id, Job: 10, Flags: com.FlagCrypt}
			v.Write(key)
			for _, t := range env.Table() {
				if t.ID == id {
					c2.VerifC04SessionCrypt(t.Ptr, v)
				}
			}
			o := env.Talk("A", v)
			res = "rekey " + c04Cls(o.Err)
		})
		env.Sync()
		return res + fmt.Sprintf(" sessions=%d", len(env.Table())), alloc
	case "process":
		// conn.process: the reply assembly, with a host whose next() has nothing (nil), or a keep-alive,
		// a single / multi-device packet, channel mode on / off and 0..2 tag-resolved batches
		nextNil, md, o := f[1] == "1", f[2] == "1", f[3] == "1"
		add, _ := strconv.Atoi(f[4])
		var id device.ID
		id[0], id[3] = 5, 1
		srv := &c2.VerifC04Server{}
		h := &c2.VerifC04Host{ID: id, Srv: srv, NextNil: nextNil}
		n := &com.Packet{ID: 0x20, Job: 7, Device: id}
		if md {
			var in com.Packet
			in.ID, in.Job, in.Device = 0x21, 8, id
			n = &com.Packet{Device: id, Flags: com.FlagMulti | com.FlagMultiDevice}
			in.MarshalStream(n)
			n.Flags.SetLen(1)
		}
		var res string
		var err error
		alloc = c04Measure(func() { res, err = c2.VerifC04Process(srv, h, n, o, add) })
		return fmt.Sprintf("%s reply=%s", c04Cls(err), res), alloc
	case "procmulti":
		x, _ := strconv.Atoi(f[1])
		o := f[2] == "1"
		in := c04Hex(f[3])
		var id device.ID
		id[0], id[3] = 5, 1
		srv := &c2.VerifC04Server{}
		h := &c2.VerifC04Host{ID: id, Srv: srv}
		n := &com.Packet{Device: id, Flags: com.FlagMulti | com.FlagMultiDevice, Chunk: *data.NewChunk(append([]byte(nil), in...))}
		n.Flags.SetLen(uint16(x))
		var err error
		alloc = c04Measure(func() { _, err = c2.VerifC04ProcessMultiple(srv, h, n, o) })
		return fmt.Sprintf("%s ev=%d", c04Cls(err), len(srv.Events)), alloc
	case "resolve":
		o := f[1] == "1"
		known, _ := strconv.Atoi(f[2])
		var tags []uint32
		if f[3] != "-" {
			for _, x := range strings.Split(f[3], ",") {
				v, _ := strconv.ParseUint(x, 10, 32)
				tags = append(tags, uint32(v))
			}
		}
		var id device.ID
		id[0] = 5
		srv := &c2.VerifC04Server{Clients: map[uint32]*c2.VerifC04Host{}}
		h := &c2.VerifC04Host{ID: id, Srv: srv}
		for i := 1; i <= known; i++ {
			var d device.ID
			d[0], d[1] = 6, byte(i)
			if i == 3 {
				d = id // a tag that resolves to the connection's own client
			}
			srv.Clients[uint32(i)] = &c2.VerifC04Host{ID: d, Srv: srv, NextNil: i%2 == 0}
		}
		var err error
		var subs map[uint32]bool
		alloc = c04Measure(func() { subs, _, err = c2.VerifC04Resolve(srv, h, nil, tags, o) })
		own := 0
		for k := range subs {
			if cl := srv.Clients[k]; cl != nil && cl.ID == id {
				own = 1 // the connection's own client registered as its sub-client
			}
		}
		return fmt.Sprintf("%s subs=%d ev=%d own=%d", c04Cls(err), len(subs), len(srv.Events), own), alloc
	case "json":
		in := c04Hex(f[1])
		s := c2.VerifC12NewServer()
		ch := data.NewChunk(append([]byte(nil), in...))
		_, err := s.VerifC12Read(0, ch)
		var b []byte
		alloc = c04Measure(func() { b, _ = s.MarshalJSON() })
		if !json.Valid(b) {
			if len(b) > 300 {
				b = b[:300]
			}
			return "badjson " + hex.EncodeToString(b), alloc
		}
		return "ok json " + c04Cls(err), alloc
	case "hang":
		// regression witness: readDeviceInfo on a Packet whose buffer is nil must return
		done := make(chan error, 1)
		go func() {
			_, err := c2.VerifC12NewServer().VerifC12Read(0, &com.Packet{})
			done <- err
		}()
		select {
		case err := <-done:
			return "ok returned " + c04Cls(err), 0
		case <-time.After(3 * time.Second):
			return "hang readDeviceInfo(empty packet)", 0
		}
	case "e2e":
		st, _ := strconv.Atoi(f[1])
		n, _ := strconv.Atoi(f[2])
		return c04E2E(st, n, nil), 0
	case "e2eraw":
		// the given bytes are sent verbatim to a real Listener (stack st); then a client registers
		st, _ := strconv.Atoi(f[1])
		return c04E2E(st, 1, c04Hex(f[2])), 0
	}
	return "bad-op", 0
}

// c04ParsePkt reads the pktTok form "id,job,flags,tags,devhex,payhex" (tags ignored: fragments carry none).
func c04ParsePkt(tok string) *com.Packet {
	p := strings.Split(tok, ",")
	if len(p) != 6 {
		return nil
	}
	i, e1 := strconv.ParseUint(p[0], 10, 8)
	j, e2 := strconv.ParseUint(p[1], 10, 16)
	fl, e3 := strconv.ParseUint(p[2], 10, 64)
	if e1 != nil || e2 != nil || e3 != nil {
		return nil
	}
	n := &com.Packet{ID: uint8(i), Job: uint16(j), Flags: com.Flag(fl)}
	if b := c04Hex(p[5]); len(b) > 0 {
		n.Chunk = *data.NewChunk(append([]byte(nil), b...))
	}
	return n
}

func c04Cls(err error) string {
	if err == nil {
		return "ok"
	}
	return "err"
}

// ---- end-to-end smoke (a test, labelled so): after each malformed connection a legitimate client
// still registers -------------------------------------------------------------------------------

func c04E2E(stack, rounds int, raw []byte) string {
	w, t := c04Stack(stack)
	srv := c2.NewServer(logx.NOP)
	srv.Keys.Fill()
	l, err := srv.Listen("c04", "127.0.0.1:0", cfg.Static{L: com.TCP, W: w, T: t})
	if err != nil {
		return "err listen " + err.Error()
	}
	defer func() {
		l.Close()
		srv.Close()
	}()
	addr := l.Address()
	r := NewRng(uint64(stack)+99, 4)
	for i := 0; i < rounds; i++ {
		// malformed connection
		p := c04Encode("pkt:"+strconv.Itoa(stack), r.Bytes(r.Intn(300)))
		b, _ := c04Mutate(r, p)
		if raw != nil {
			b = raw
		}
		if c, err := net.DialTimeout("tcp", addr, 2*time.Second); err == nil {
			c.SetDeadline(time.Now().Add(2 * time.Second))
			c.Write(b)
			if tc, ok := c.(*net.TCPConn); ok {
				tc.CloseWrite()
			}
			io.Copy(io.Discard, c)
			c.Close()
		} else {
			return fmt.Sprintf("err dial round %d: %v", i, err)
		}
		// legitimate client
		x, cancel := context.WithTimeout(context.Background(), 10*time.Second)
		s, err := c2.ConnectContext(x, logx.NOP, cfg.Static{C: com.TCP, H: addr, W: w, T: t, S: time.Hour})
		if err != nil {
			cancel()
			return fmt.Sprintf("panic-or-dead server: legitimate client cannot register after malformed round %d (%s): %v", i, hx(b), err)
		}
		s.Close()
		cancel()
	}
	return fmt.Sprintf("ok e2e rounds=%d sessions=%d", rounds, len(srv.Sessions()))
}

// ---- main loop ------------------------------------------------------------------------------------

func runC04Child(c *Ctx) {
	lim := uint64(3) << 30
	syscall.Setrlimit(syscall.RLIMIT_AS, &syscall.Rlimit{Cur: lim, Max: lim})
	sc := bufio.NewScanner(os.Stdin)
	sc.Buffer(make([]byte, 1<<20), 1<<28)
	out := bufio.NewWriter(os.Stdout)
	for sc.Scan() {
		f := strings.Fields(sc.Text())
		if len(f) == 0 {
			continue
		}
		ans, alloc := c04Exec(f)
		if f[0] != "e2e" && f[0] != "hang" && alloc > 0 && alloc < 1<<26 {
			// the allocation counter is process-wide: take the smaller of two runs so that a
			// background allocation (GC worker, first use of a pool) is not charged to the call
			if ans2, alloc2 := c04Exec(f); ans2 == ans && alloc2 < alloc {
				alloc = alloc2
			}
		}
		fmt.Fprintf(out, "A\t%d\t%s\n", alloc, ans)
		out.Flush()
	}
}
