package main

import (
	"unsafe"

	"github.com/iDigitalFlame/xmt/c2"
	"github.com/iDigitalFlame/xmt/c2/task/result"
	"github.com/iDigitalFlame/xmt/cmd"
	"github.com/iDigitalFlame/xmt/com"
	"github.com/iDigitalFlame/xmt/device"
	"github.com/iDigitalFlame/xmt/device/regedit"
)

// Facts for property C04: the element sizes of every slice a decoder allocates from a peer-supplied
// count (the models charge count × size), flag bits and the system packet IDs the dispatcher tests.
func init() {
	factProviders = append(factProviders, func(f *factSet, repo string) error {
		var fi interface{}
		f.Nat("c04_sizeofAddress", uint64(device.VerifC04SizeofAddress))
		f.Nat("c04_sizeofIface", uint64(device.VerifC04SizeofIface))
		f.Nat("c04_sizeofLogin", uint64(device.VerifC04SizeofLogin))
		f.Nat("c04_sizeofProxyData", uint64(c2.VerifC04SizeofProxyData))
		f.Nat("c04_sizeofPacket", uint64(c2.VerifC04SizeofPacket))
		f.Nat("c04_sizeofFileInfo", uint64(result.VerifC04SizeofFileInfo))
		f.Nat("c04_sizeofWindow", uint64(result.VerifC04SizeofWindow))
		f.Nat("c04_sizeofFuncEntry", uint64(result.VerifC04SizeofFuncEntry))
		f.Nat("c04_sizeofProcessInfo", uint64(unsafe.Sizeof(cmd.ProcessInfo{})))
		f.Nat("c04_sizeofRegEntry", uint64(unsafe.Sizeof(regedit.Entry{})))
		f.Nat("c04_sizeofInterface", uint64(unsafe.Sizeof(fi)))
		f.Nat("c04_flagFrag", uint64(com.FlagFrag))
		f.Nat("c04_flagMulti", uint64(com.FlagMulti))
		f.Nat("c04_flagProxy", uint64(com.FlagProxy))
		f.Nat("c04_flagError", uint64(com.FlagError))
		f.Nat("c04_flagChannel", uint64(com.FlagChannel))
		f.Nat("c04_flagOneshot", uint64(com.FlagOneshot))
		f.Nat("c04_flagMultiDevice", uint64(com.FlagMultiDevice))
		f.Nat("c04_flagCrypt", uint64(com.FlagCrypt))
		f.Nat("c04_svDrop", uint64(c2.VerifC04SvDrop))
		f.Nat("c04_svRegister", uint64(c2.VerifC04SvRegister))
		f.Nat("c04_svComplete", uint64(c2.VerifC04SvComplete))
		f.Nat("c04_fragMax", uint64(c2.VerifC04FragMax))
		return nil
	})
}
