package main

// Property C04, extension round 3: the dispatch arms of conn.process / processSingle /
// processMultiple / resolve, the tail of handle() and receive() over nested batch containers, driven
// on the REAL functions against a scripted connServer / connHost (go/hooks/c2/zz_verif_c04_s3.go) and
// compared with the outcome-valued Lean model XMT/Dispatch.lean (ops dsp-process, dsp-resolve,
// dsp-handle, dsp-recv): outcome class (ok / error class / panic), the reply left in the conn, the
// sub-client table, and the sequence of calls made on the server and the hosts (= which arm ran).
//
// Oracle: a panic of the real code on a state the server can be in (conn with a host, no nil entry in
// c.add, talk returning a conn with a reply) is a failure `panic:c2.conn.<fn>(dispatch)`.  States that
// the sequential server cannot be in (nil host, nil *Packet in c.add, talk returning a conn without a
// reply) are generated too — there model and code must BOTH panic (the panicking primitives of the
// model are real).

import (
	"fmt"
	"sort"
	"strconv"
	"strings"
	"time"

	"github.com/iDigitalFlame/xmt/c2"
	"github.com/iDigitalFlame/xmt/com"
	"github.com/iDigitalFlame/xmt/data"
	"github.com/iDigitalFlame/xmt/device"
)

func init() {
	factProviders = append(factProviders, func(f *factSet, repo string) error {
		f.Nat("c04s3_flagChannelEnd", uint64(com.FlagChannelEnd))
		f.Nat("c04s3_packetMaxTags", uint64(com.PacketMaxTags))
		return nil
	})
}

// ---- tokens ---------------------------------------------------------------------------------------

func s3Dev(a, b byte) device.ID {
	var d device.ID
	d[0], d[1] = a, b
	return d
}

func s3DevTok(d device.ID) string { return hx(d[:2]) }

func s3PTok(p *c2.VerifC04S3Pkt) string {
	if p == nil {
		return "-"
	}
	t := "_"
	if len(p.Tags) > 0 {
		x := make([]string, len(p.Tags))
		for i, v := range p.Tags {
			x[i] = strconv.FormatUint(uint64(v), 10)
		}
		t = strings.Join(x, ":")
	}
	return fmt.Sprintf("%d/%d/%d/%s/%s", p.ID, p.Job, p.Flags, t, s3DevTok(p.Device))
}

func s3B(b bool) string {
	if b {
		return "1"
	}
	return "0"
}

func s3HostTok(h *c2.VerifC04S3Host) string {
	if h == nil {
		return "nil"
	}
	return fmt.Sprintf("%s,%s,%s,%s,%s", s3DevTok(h.ID), s3PTok(h.Next), s3B(h.ChanStart), s3B(h.ChanStop), s3B(h.ChanRun))
}

func s3SubsTok(m map[uint32]bool, isNil bool) string {
	if isNil {
		return "nil"
	}
	if len(m) == 0 {
		return "_"
	}
	k := make([]int, 0, len(m))
	for i := range m {
		k = append(k, int(i))
	}
	sort.Ints(k)
	x := make([]string, len(k))
	for i, v := range k {
		x[i] = fmt.Sprintf("%d=%s", v, s3B(m[uint32(v)]))
	}
	return strings.Join(x, "+")
}

func s3ConnTok(c *c2.VerifC04S3Conn) string {
	add := "_"
	if len(c.Add) > 0 {
		x := make([]string, len(c.Add))
		for i, a := range c.Add {
			if i < len(c.AddNils) && c.AddNils[i] {
				x[i] = "-"
			} else {
				x[i] = s3PTok(a)
			}
		}
		add = strings.Join(x, "+")
	}
	return fmt.Sprintf("%s;%s;%s", s3PTok(c.Next), s3SubsTok(c.Subs, c.Subs == nil), add)
}

func s3SrvTok(v *c2.VerifC04S3Server, order []uint32, devs []device.ID) string {
	cl, sc := "_", "_"
	if len(order) > 0 {
		x := make([]string, len(order))
		for i, t := range order {
			x[i] = fmt.Sprintf("%d=%s", t, s3HostTok(v.Clients[t]))
		}
		cl = strings.Join(x, "+")
	}
	if len(devs) > 0 {
		x := make([]string, len(devs))
		for i, d := range devs {
			s := v.Subs[d]
			x[i] = fmt.Sprintf("%s=%s,%d,%s,%s", s3DevTok(d), s3B(s.K), s.Q, s3PTok(s.R), s3B(s.Err))
		}
		sc = strings.Join(x, "+")
	}
	return fmt.Sprintf("%s;%s;%s", cl, sc, s3B(v.NotifyErr))
}

func s3Err(err error) string {
	switch err {
	case c2.ErrInvalidPacketCount:
		return "count"
	case c2.ErrMalformedPacket:
		return "malformedpacket"
	case com.ErrMalformedTag:
		return "malformedtag"
	case c2.VerifC04S3ErrTooMany:
		return "toomany"
	case c2.VerifC04S3ErrTalk:
		return "talk"
	case c2.VerifC04S3ErrNotify:
		return "notify"
	}
	return "other"
}

func s3EvTok(ev []string) string {
	var rest, sets, clears []string
	var si, ci []int
	for _, e := range ev {
		switch {
		case strings.HasPrefix(e, "set:"):
			n, _ := strconv.Atoi(e[4:])
			si = append(si, n)
		case strings.HasPrefix(e, "clear:"):
			n, _ := strconv.Atoi(e[6:])
			ci = append(ci, n)
		default:
			rest = append(rest, e)
		}
	}
	sort.Ints(si)
	sort.Ints(ci)
	for _, n := range si {
		sets = append(sets, strconv.Itoa(n))
	}
	for _, n := range ci {
		clears = append(clears, strconv.Itoa(n))
	}
	j := func(l []string) string {
		if len(l) == 0 {
			return "_"
		}
		return strings.Join(l, ",")
	}
	return fmt.Sprintf("ev=%s set=%s clear=%s", j(rest), j(sets), j(clears))
}

func s3StateTok(st c2.VerifC04S3State, err error, ev []string) string {
	if err != nil {
		return "err " + s3Err(err)
	}
	return fmt.Sprintf("ok next=%s subs=%s add=%d %s", s3PTok(st.Next), s3SubsTok(st.Subs, st.SubsNil), st.Add, s3EvTok(ev))
}

// ---- generators -----------------------------------------------------------------------------------

var s3FlagPool = []uint64{0, 0, 0, uint64(com.FlagChannel), uint64(com.FlagChannelEnd), uint64(com.FlagOneshot), uint64(com.FlagMulti),
	uint64(com.FlagMultiDevice), uint64(com.FlagMulti | com.FlagMultiDevice), uint64(com.FlagFrag), uint64(com.FlagProxy), uint64(com.FlagCrypt),
	uint64(com.FlagError), uint64(com.FlagChannel | com.FlagOneshot)}

func s3Flags(r *Rng) uint64 {
	f := s3FlagPool[r.Intn(len(s3FlagPool))]
	if r.Chance(20) {
		f |= s3FlagPool[r.Intn(len(s3FlagPool))]
	}
	if r.Chance(35) { // a count field (bits 48..63); Flag.SetLen sets FlagFrag, so write the bits directly
		f |= uint64([]int{0, 1, 2, 3, 65534, 65535}[r.Intn(6)]) << 48
	}
	return f
}

func s3GenDev(r *Rng) device.ID {
	if r.Chance(8) {
		return s3Dev(0, byte(r.Intn(3))) // Empty()
	}
	return s3Dev(byte(5+r.Intn(3)), byte(r.Intn(2)))
}

func s3GenPkt(r *Rng) *c2.VerifC04S3Pkt {
	p := &c2.VerifC04S3Pkt{ID: uint8([]int{0, 1, 2, 3, 4, 6, 0x20, 0x21}[r.Intn(8)]), Job: uint16(r.Intn(4)), Flags: s3Flags(r), Device: s3GenDev(r)}
	for k := r.Intn(3); k > 0 && r.Chance(40); k-- {
		p.Tags = append(p.Tags, uint32(1+r.Intn(5)))
	}
	return p
}

func s3GenHost(r *Rng, v *c2.VerifC04S3Server, tag uint32) *c2.VerifC04S3Host {
	h := &c2.VerifC04S3Host{ID: s3GenDev(r), Tag: tag, Srv: v, ChanStart: r.Chance(30), ChanStop: r.Chance(30), ChanRun: r.Chance(30)}
	if r.Chance(65) {
		h.Next = s3GenPkt(r)
		if r.Chance(60) {
			h.Next.Device = h.ID
		}
	}
	return h
}

func s3GenSrv(r *Rng) (*c2.VerifC04S3Server, []uint32, []device.ID) {
	v := &c2.VerifC04S3Server{Clients: map[uint32]*c2.VerifC04S3Host{}, Subs: map[device.ID]c2.VerifC04S3Sub{}, NotifyErr: r.Chance(6)}
	var order []uint32
	for t := uint32(1); t <= 5; t++ {
		if r.Chance(55) {
			v.Clients[t] = s3GenHost(r, v, t)
			order = append(order, t)
		}
	}
	var devs []device.ID
	for a := byte(5); a <= 7; a++ {
		for b := byte(0); b <= 1; b++ {
			if !r.Chance(45) {
				continue
			}
			d := s3Dev(a, b)
			s := c2.VerifC04S3Sub{K: r.Chance(50), Q: uint32(r.Intn(6)), Err: r.Chance(8)}
			if r.Chance(60) {
				s.R = s3GenPkt(r)
			}
			v.Subs[d] = s
			devs = append(devs, d)
		}
	}
	return v, order, devs
}

// s3GenConn: ok = the state is one the sequential server can be in
func s3GenConn(r *Rng, v *c2.VerifC04S3Server, hostile bool) (*c2.VerifC04S3Conn, bool) {
	c := &c2.VerifC04S3Conn{}
	ok := true
	if !hostile || !r.Chance(30) {
		c.Host = s3GenHost(r, v, 0)
		if c.Host.ID.Empty() {
			c.Host.ID = s3Dev(5, 0)
		}
	} else {
		ok = false
	}
	if r.Chance(25) {
		c.Next = s3GenPkt(r)
	}
	if r.Chance(60) {
		c.Subs = map[uint32]bool{}
		for t := uint32(1); t <= 5; t++ {
			if r.Chance(30) {
				c.Subs[t] = r.Bool()
			}
		}
	}
	for k := r.Intn(4); k > 0 && r.Chance(50); k-- {
		c.Add = append(c.Add, s3GenPkt(r))
		isNil := hostile && r.Chance(25)
		c.AddNils = append(c.AddNils, isNil)
		if isNil {
			ok = false
		}
	}
	return c, ok
}

// ---- runners (real code, in-process, panics contained) ----------------------------------------------

func s3Guard(fn func() string) (ans string) {
	defer func() {
		if e := recover(); e != nil {
			ans = "panic"
		}
	}()
	return fn()
}

func runC04S3(c *Ctx) {
	fail := func(entry, op, ans string) {
		c.Fail("panic", "panic:"+entry+"(dispatch)", "panic in a dispatch arm on a decoded packet: "+ans, map[string]interface{}{"op": op})
	}
	// 1. conn.process / processSingle / processMultiple
	c.Cases("dsp-process", c.N(700, 12000), func(r *Rng, i int) {
		hostile := i%10 == 9
		v, order, devs := s3GenSrv(r)
		cs, ok := s3GenConn(r, v, hostile)
		o := r.Chance(35)
		hd := s3GenPkt(r)
		if r.Chance(55) {
			hd.Flags |= uint64(com.FlagMultiDevice | com.FlagMulti)
		}
		nk := r.Intn(5)
		if r.Chance(5) {
			nk = 0
		}
		var kids []*c2.VerifC04S3Pkt
		n := hd.New()
		for k := 0; k < nk; k++ {
			p := s3GenPkt(r)
			if cs.Host != nil && r.Chance(35) {
				p.Device = cs.Host.ID
			}
			kids = append(kids, p)
			p.New().MarshalStream(n)
		}
		if hd.Flags&uint64(com.FlagMultiDevice) != 0 && r.Chance(80) {
			// the announced count: what was packed, one more, or left as generated
			ln := nk
			if r.Chance(15) {
				ln = nk + 1
			}
			hd.Flags = hd.Flags&^(uint64(0xFFFF)<<48) | uint64(ln)<<48
			n.Flags = com.Flag(hd.Flags)
		}
		kt := "_"
		if len(kids) > 0 {
			x := make([]string, len(kids))
			for k, p := range kids {
				q := *p
				x[k] = s3PTok(&q)
			}
			kt = strings.Join(x, "+")
		}
		op := fmt.Sprintf("dsp-process %s %s %s %s %s;%s", s3B(o), s3HostTok(cs.Host), s3ConnTok(cs), s3SrvTok(v, order, devs), s3PTok(hd), kt)
		ans := s3Guard(func() string {
			st, err := c2.VerifC04S3Process(v, cs, n, o)
			return s3StateTok(st, err, v.Events)
		})
		if ans == "panic" && ok {
			fail("c2.conn.process", op, ans)
		}
		c.Op(op, ans)
		c.Count("dsp-process:" + strings.SplitN(ans, " next=", 2)[0])
		c.Eval(true, op)
	})
	// 2. conn.resolve
	c.Cases("dsp-resolve", c.N(500, 8000), func(r *Rng, i int) {
		hostile := i%10 == 9
		v, order, devs := s3GenSrv(r)
		cs, ok := s3GenConn(r, v, hostile)
		cs.AddNils = nil
		ok = cs.Host != nil
		o := r.Chance(40)
		s := cs.Host
		if s == nil {
			s = s3GenHost(r, v, 0)
		} else if r.Chance(30) && len(order) > 0 {
			// a tag names the connection's own client
			v.Clients[order[r.Intn(len(order))]].ID = s.ID
		}
		nt := r.Intn(6)
		tags := make([]uint32, nt)
		tt := make([]string, nt)
		for k := range tags {
			tags[k] = uint32(1 + r.Intn(6))
			if r.Chance(6) {
				tags[k] = 0
			}
			tt[k] = strconv.FormatUint(uint64(tags[k]), 10)
		}
		ts := "_"
		if nt > 0 {
			ts = strings.Join(tt, ":")
		}
		op := fmt.Sprintf("dsp-resolve %s %s %s %s %s %s", s3B(o), s3HostTok(cs.Host), s3HostTok(s), s3ConnTok(cs), s3SrvTok(v, order, devs), ts)
		ans := s3Guard(func() string {
			st, err := c2.VerifC04S3Resolve(v, cs, s, tags, o)
			return s3StateTok(st, err, v.Events)
		})
		if ans == "panic" && (ok || !o) {
			fail("c2.conn.resolve", op, ans)
		}
		c.Op(op, ans)
		c.Count("dsp-resolve:" + strings.SplitN(ans, " next=", 2)[0])
		c.Eval(true, op)
	})
	// 3. the tail of handle(): every combination of (talk's conn: nil host / host, reply / no reply,
	// sub-clients), talk's second result, FlagChannel on the packet / on the reply, write error
	c.Cases("dsp-handle", c.N(200, 2000), func(r *Rng, i int) {
		v := &c2.VerifC04S3Server{}
		cs := &c2.VerifC04S3Conn{}
		ok := true
		if i%3 != 0 {
			cs.Host = &c2.VerifC04S3Host{ID: s3Dev(5, 1), Srv: v, ChanStart: r.Bool()}
		}
		if r.Chance(92) {
			cs.Next = &c2.VerifC04S3Pkt{ID: uint8(r.Intn(4)), Device: s3Dev(5, 1)}
			if r.Bool() {
				cs.Next.Flags = uint64(com.FlagChannel)
			}
		} else {
			ok = false
		}
		if r.Chance(50) {
			cs.Subs = map[uint32]bool{}
			for t := uint32(1); t <= 3; t++ {
				if r.Chance(40) {
					cs.Subs[t] = true
				}
			}
		}
		v.TalkConn, v.TalkE = cs, r.Bool()
		nChan, wErr := r.Bool(), r.Chance(10)
		n := &com.Packet{ID: 0x20, Job: 3, Device: s3Dev(5, 1)}
		if nChan {
			n.Flags |= com.FlagChannel
		}
		op := fmt.Sprintf("dsp-handle 1 %s %s %s %s %s", s3HostTok(cs.Host), s3ConnTok(cs), s3B(v.TalkE), s3B(nChan), s3B(wErr))
		ans := s3Guard(func() string {
			conn := &c04Conn{}
			c2.VerifC04WritePacket(conn, nil, nil, n)
			x := &s3FailConn{c04Conn: c04Conn{in: PieceReader{P: [][]byte{append([]byte(nil), conn.out.Bytes()...)}}}, fail: wErr}
			c2.VerifC04S3Handle(x, v)
			time.Sleep(time.Millisecond)
			ev := v.VerifC04S3Freeze()
			res := "close"
			for k, e := range ev {
				if e == "stateSet" {
					res, ev = "start", ev[:k+1]
					break
				}
			}
			if res == "close" && wErr && x.wrote {
				res = "writeerr"
			}
			return res + " " + s3EvTok(ev)
		})
		if ans == "panic" && ok {
			fail("c2.handle", op, ans)
		}
		c.Op(op, ans)
		c.Count("dsp-handle:" + strings.SplitN(ans, " ", 2)[0])
		c.Eval(true, op)
	})
	// 4. receive() over nested batch containers, with and without a Session / a Listener
	c.Cases("dsp-recv", c.N(500, 8000), func(r *Rng, i int) {
		sid := s3Dev(5, 0)
		var s *c2.Session
		st := "nil"
		if !r.Chance(15) {
			s, st = c2.VerifC04NewSession(sid), s3DevTok(sid)
		}
		withL := !r.Chance(15)
		var toks []string
		fragSeen := false
		var gen func(depth int) *com.Packet
		gen = func(depth int) *com.Packet {
			p := s3GenPkt(r)
			p.Tags = nil
			if r.Chance(70) {
				p.Device = sid
			}
			if f := p.Flags; f&uint64(com.FlagFrag) != 0 && f&uint64(com.FlagMulti) == 0 {
				// at most one fragment of a longer group per history (the reassembly state across
				// packets is op fragseq / XMT.FragHostile); the others announce 0 or 1
				if fragSeen || r.Chance(50) {
					p.Flags = f&^(uint64(0xFFFF)<<48) | uint64(r.Intn(2))<<48
				} else if (f>>48)&0xFFFF >= 2 {
					fragSeen = true
				}
			}
			nk := 0
			if depth < 3 && r.Chance(45) {
				nk = 1 + r.Intn(3)
				p.Flags |= uint64(com.FlagMulti)
				if r.Chance(85) {
					ln := nk
					if r.Chance(15) {
						ln = nk + 1
					}
					p.Flags = p.Flags&^(uint64(0xFFFF)<<48) | uint64(ln)<<48
				}
			}
			n := p.New()
			idx := len(toks)
			toks = append(toks, "")
			empty := true
			for k := 0; k < nk; k++ {
				gen(depth + 1).MarshalStream(n)
				empty = false
			}
			if nk == 0 && r.Chance(50) {
				n.WriteUint8(0xFF) // a payload that is not a packet
				empty = false
			}
			q := *p
			toks[idx] = fmt.Sprintf("%s~%s~%d", s3PTok(&q), s3B(empty), nk)
			return n
		}
		n := gen(0)
		op := fmt.Sprintf("dsp-recv 1 %s %s %s", st, s3B(withL), strings.Join(toks, "+"))
		ans := s3Guard(func() string {
			lv, err := c2.VerifC04S3Receive(s, withL, n)
			if err != nil {
				return "err " + s3Err(err)
			}
			x := make([]string, 0, len(lv))
			for _, l := range lv {
				f := strings.Split(l, ":") // L:id:job:flags:size
				if len(f) == 5 {
					x = append(x, f[1]+":"+f[3])
				}
			}
			if len(x) == 0 {
				return "ok leaves=_"
			}
			return "ok leaves=" + strings.Join(x, ",")
		})
		if ans == "panic" {
			fail("c2.receive", op, ans)
		}
		c.Op(op, ans)
		c.Count("dsp-recv:" + strings.SplitN(ans, " leaves=", 2)[0])
		c.Eval(true, op)
	})
}

// s3FailConn: a scripted net.Conn whose Write can fail
type s3FailConn struct {
	c04Conn
	fail  bool
	wrote bool
}

func (c *s3FailConn) Write(b []byte) (int, error) {
	c.wrote = true
	if c.fail {
		return 0, fmt.Errorf("verif: write error")
	}
	return c.c04Conn.Write(b)
}

var _ = data.ErrLimit
