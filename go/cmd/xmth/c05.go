package main

// C05 — every task issued to a live session completes exactly once with its own result.
//
// The harness runs the REAL c2.Server / Listener / Session goroutines (one process, in-memory
// network c05_net.go, 1..3 clients with distinct device IDs), registers an echo Tasker in
// task.Mappings[0xC8], drives random histories of Task / SetSleep / SetChannel / Wake calls and
// observes the run at the hook points of go/hooks/c2/zz_verif_c05.go. Per case it produces
//   * one model-comparable op line `trace <clients> <event>…` (the observed event log, abstracted:
//     payloads are FNV-64 digests) whose implementation answer is computed from observations that
//     do NOT pass through the hooks (Job.Wait, the job table, the Tasker's own invocation log);
//     the Lean acceptor (XMT/Proto.lean) must accept the trace and arrive at the same numbers;
//   * the direct oracles: every Job.Wait returns within the budget, Job.Result equals the echo of
//     that job's own payload byte for byte, the Tasker ran exactly once per job with that job's
//     payload on the addressed client, nothing ran on another client.
// Every case runs in a child process (re-exec) with a wall-clock limit.

import (
	"bufio"
	"bytes"
	"context"
	"encoding/binary"
	"encoding/json"
	"fmt"
	"os"
	"os/exec"
	"runtime"
	"runtime/debug"
	"sort"
	"strconv"
	"strings"
	"sync"
	"sync/atomic"
	"time"

	"github.com/PurpleSec/logx"
	"github.com/iDigitalFlame/xmt/c2"
	"github.com/iDigitalFlame/xmt/c2/cfg"
	"github.com/iDigitalFlame/xmt/c2/task"
	"github.com/iDigitalFlame/xmt/c2/transform"
	"github.com/iDigitalFlame/xmt/com"
	"github.com/iDigitalFlame/xmt/com/limits"
	"github.com/iDigitalFlame/xmt/data"
	"github.com/iDigitalFlame/xmt/device"
	"github.com/iDigitalFlame/xmt/device/local"
	"github.com/iDigitalFlame/xmt/util"
)

const c05EchoID = 0xC8

// ---- the echo Tasker and its result function ---------------------------------------------------

// c05Mix is XMT.Proto.echoF for kind 0.
func c05Mix(c int, j uint16, p uint64) uint64 {
	return (p*0x9E3779B97F4A7C15 + uint64(j)*0x10001 + uint64(c) + 1) | 1
}

// c05ResultBytes is what the echo Tasker answers for a request payload with digest p on client c:
// be64(mix) be64(p) pad, pad[i] = byte(p >> 8(i mod 8)) xor byte(i).
func c05ResultBytes(c int, j uint16, p uint64, pad int) []byte {
	b := make([]byte, 16+pad)
	binary.BigEndian.PutUint64(b, c05Mix(c, j, p))
	binary.BigEndian.PutUint64(b[8:], p)
	for i := 0; i < pad; i++ {
		b[16+i] = byte(p>>(8*uint(i%8))) ^ byte(i)
	}
	return b
}

type c05Invoke struct {
	dev  device.ID
	job  uint16
	hash uint64
	n    int
}

type c05World struct {
	mu      sync.Mutex
	ids     map[device.ID]int
	invokes []c05Invoke
	log     []c2.VerifC05Event
	logAt   []time.Time
	gates   map[uint16]chan struct{} // job -> gate the Tasker waits on (forced-race cases)
	rekey   atomic.Int32             // percent of PRNG words that win the re-key lottery
	rng     atomic.Uint64
	after   func(client bool, sid device.ID, p *c2.VerifC05Pkt)
}

var c05W atomic.Pointer[c05World]

func c05Echo(x context.Context, r data.Reader, w data.Writer) error {
	n, ok := r.(*com.Packet)
	if !ok {
		return fmt.Errorf("c05: reader is %T", r)
	}
	b := n.Payload()
	h := c2.VerifC05Hash(b)
	wd := c05W.Load()
	if wd == nil {
		return nil
	}
	wd.mu.Lock()
	c, known := wd.ids[n.Device]
	if !known {
		c = 255
	}
	wd.invokes = append(wd.invokes, c05Invoke{dev: n.Device, job: n.Job, hash: h, n: len(b)})
	g := wd.gates[n.Job]
	wd.mu.Unlock()
	pad, delay := 0, 0
	if len(b) >= 6 {
		pad = int(binary.BigEndian.Uint32(b))
		delay = int(binary.BigEndian.Uint16(b[4:]))
	}
	if pad > 64<<20 {
		pad = 0
	}
	if g != nil {
		select {
		case <-g:
		case <-time.After(2 * time.Second):
		}
	} else if delay > 0 && delay <= 2000 {
		time.Sleep(time.Duration(delay) * time.Millisecond)
	}
	_, err := w.Write(c05ResultBytes(c, n.Job, h, pad))
	return err
}

// c05Rand is the PRNG word behind util.FastRand while a case runs: real randomness, except that a
// configurable share of the words is small enough to win the re-key lottery of keyNextSync
// (FastRandN(50+d) == 0), so that re-keying happens many times per case instead of once per ~110
// idle polls.
func c05Rand() uint32 {
	w := c05W.Load()
	if w == nil {
		return 0x9E3779B9
	}
	z := w.rng.Add(0x9E3779B97F4A7C15)
	z = (z ^ (z >> 30)) * 0xBF58476D1CE4E5B9
	z = (z ^ (z >> 27)) * 0x94D049BB133111EB
	z ^= z >> 31
	if int32(z>>40%100) < w.rekey.Load() {
		return uint32(z) % 30000000 // FastRandN(110) == 0
	}
	return uint32(z) | 1<<31
}

// ---- cases -------------------------------------------------------------------------------------

type c05Op struct {
	Kind   string `json:"k"`           // task | sleep | chanS | chanC | wake | pause | netpause | netresume | waitexec
	Client int    `json:"c"`           // which client
	Size   int    `json:"n,omitempty"` // task: request payload size (>= 6)
	Pad    int    `json:"pad,omitempty"`
	Delay  int    `json:"d,omitempty"`  // task: Tasker delay (ms); pause: ms
	On     bool   `json:"on,omitempty"` // chanS / chanC
	Gate   bool   `json:"g,omitempty"`  // task: Tasker waits for the forced-race gate
	Auto   bool   `json:"a,omitempty"`  // task: let newJobID pick the number
	Expect string `json:"x,omitempty"`  // task: "full" = ErrFullBuffer expected
	Count  int    `json:"cnt,omitempty"`
}

type c05Case struct {
	Group   string  `json:"group"`
	Index   int     `json:"index"`
	Clients int     `json:"clients"`
	Stack   string  `json:"stack"`
	SleepMs int     `json:"sleep_ms"`
	Procs   int     `json:"gomaxprocs"`
	Rekey   int     `json:"rekey_pct"`
	Force   string  `json:"force,omitempty"` // forced race: "rekey-batch"
	OwnID   bool    `json:"own_id,omitempty"`
	NoModel bool    `json:"no_model,omitempty"`
	Frag    int     `json:"frag,omitempty"` // fragment limit for this case (limits.Frag is a variable in the overlay)
	Ops     []c05Op `json:"ops"`
	Seed    uint64  `json:"seed"`
}

// (WrapCBK is not used: (*crypto.CBK).blockIndex divides by t+1 with t = 0xFFFF for some key/data
// bytes and panics in the connection goroutines - that is property C07's territory.)
var c05Stacks = []string{"none", "hex+xor", "zlib+aes", "gzip+b64", "dns"}

func c05Settings(stack string, r *Rng) []cfg.Setting {
	switch stack {
	case "hex+xor":
		return []cfg.Setting{cfg.WrapHex, cfg.WrapXOR(r.Bytes(1 + r.Intn(40)))}
	case "zlib+aes":
		return []cfg.Setting{cfg.WrapZlib, cfg.WrapAES(r.Bytes(32), r.Bytes(16))}
	case "gzip+b64":
		return []cfg.Setting{cfg.WrapGzip, cfg.TransformB64Shift(1 + r.Intn(200))}
	case "dns":
		return nil // cfg.TransformDNS does not build (C08); the transform is attached directly, see c05Run
	}
	return nil
}

var c05Sizes = []int{6, 7, 8, 16, 64, 100, 255, 256, 1000, 4096, 16383, 16384, 16385, 65535, 65536, 70000, 200000}

func c05GenTask(r *Rng, cl int, big bool) c05Op {
	o := c05Op{Kind: "task", Client: cl, Size: c05Sizes[r.Intn(9)], Pad: r.Intn(40)}
	if big || r.Chance(15) {
		o.Size = c05Sizes[r.Intn(len(c05Sizes))]
	}
	if r.Chance(15) {
		o.Pad = c05Sizes[r.Intn(len(c05Sizes))]
	}
	if o.Pad == 6 { // 16+6 = 22 is the length of a MvTime answer
		o.Pad = 5
	}
	if r.Chance(35) {
		o.Delay = 1 + r.Intn(40)
	}
	o.Auto = r.Chance(20)
	return o
}

func c05Gen(group string, idx int, seed uint64, r *Rng, thorough bool) *c05Case {
	cs := &c05Case{Group: group, Index: idx, Clients: 1, Stack: "none", SleepMs: 5 + r.Intn(16), Procs: []int{1, 2, 4, 8}[r.Intn(4)], Seed: seed}
	switch group {
	case "basic":
		n := 1 + r.Intn(6)
		for i := 0; i < n; i++ {
			cs.Ops = append(cs.Ops, c05GenTask(r, 0, false))
			if r.Chance(50) {
				cs.Ops = append(cs.Ops, c05Op{Kind: "pause", Delay: r.Intn(25)})
			}
		}
	case "mixed":
		cs.Clients = 1 + r.Intn(3)
		cs.Rekey = []int{0, 5, 25, 60}[r.Intn(4)]
		n := 4 + r.Intn(c05pick(thorough, 60, 24))
		for i := 0; i < n; i++ {
			cl := r.Intn(cs.Clients)
			switch x := r.Intn(100); {
			case x < 50:
				cs.Ops = append(cs.Ops, c05GenTask(r, cl, false))
			case x < 58:
				cs.Ops = append(cs.Ops, c05Op{Kind: "sleep", Client: cl, Delay: 5 + r.Intn(25)})
			case x < 66:
				cs.Ops = append(cs.Ops, c05Op{Kind: "chanS", Client: cl, On: r.Chance(60)})
			case x < 72:
				cs.Ops = append(cs.Ops, c05Op{Kind: "chanC", Client: cl, On: r.Chance(60)})
			case x < 80:
				cs.Ops = append(cs.Ops, c05Op{Kind: "wake", Client: cl})
			case x < 88:
				k := 2 + r.Intn(12)
				for q := 0; q < k; q++ {
					cs.Ops = append(cs.Ops, c05GenTask(r, cl, false))
				}
			default:
				cs.Ops = append(cs.Ops, c05Op{Kind: "pause", Client: cl, Delay: r.Intn(40)})
			}
		}
	case "rekey": // poll mode only, heavy re-keying, tasks with delays so that results meet re-key packets
		cs.Clients = 1 + r.Intn(2)
		cs.Rekey = []int{60, 100}[r.Intn(2)]
		n := 4 + r.Intn(10)
		for i := 0; i < n; i++ {
			cl := r.Intn(cs.Clients)
			o := c05GenTask(r, cl, false)
			o.Delay = r.Intn(3 * cs.SleepMs)
			cs.Ops = append(cs.Ops, o, c05Op{Kind: "pause", Client: cl, Delay: r.Intn(2 * cs.SleepMs)})
		}
	case "channel": // channel mode switched on (server or client side), tasks inside, switched off
		cs.Clients = 1 + r.Intn(2)
		cs.Rekey = []int{0, 0, 25}[r.Intn(3)]
		for cl := 0; cl < cs.Clients; cl++ {
			k := "chanS"
			if r.Bool() {
				k = "chanC"
			}
			cs.Ops = append(cs.Ops, c05Op{Kind: k, Client: cl, On: true})
			if r.Bool() {
				cs.Ops = append(cs.Ops, c05Op{Kind: "pause", Client: cl, Delay: 3 * cs.SleepMs})
			}
			n := 2 + r.Intn(8)
			for i := 0; i < n; i++ {
				cs.Ops = append(cs.Ops, c05GenTask(r, cl, false))
				if r.Chance(40) {
					cs.Ops = append(cs.Ops, c05Op{Kind: "pause", Client: cl, Delay: r.Intn(20)})
				}
			}
			if r.Chance(70) {
				cs.Ops = append(cs.Ops, c05Op{Kind: k, Client: cl, On: false})
				cs.Ops = append(cs.Ops, c05GenTask(r, cl, false))
			}
		}
	case "stacks":
		cs.Stack = c05Stacks[1+idx%4]
		cs.SleepMs = 10 + r.Intn(10)
		n := 1 + r.Intn(4)
		for i := 0; i < n; i++ {
			o := c05GenTask(r, 0, false)
			if o.Size > 4096 {
				o.Size = 4096
			}
			if o.Pad > 4096 {
				o.Pad = 4096
			}
			if cs.Stack == "dns" {
				o.Size, o.Pad = 6+r.Intn(200), r.Intn(200)
			}
			cs.Ops = append(cs.Ops, o, c05Op{Kind: "pause", Delay: 60 + r.Intn(60)})
		}
		if idx%8 >= 4 { // the same stacks in channel mode: sleep well above the (compressed) read time-out, tasks well apart
			cs.SleepMs = 110 + r.Intn(30)
			for i := range cs.Ops {
				if cs.Ops[i].Kind == "pause" {
					cs.Ops[i].Delay = 180 + r.Intn(60)
				}
			}
			cs.Ops = append([]c05Op{{Kind: "chanS", On: true}, {Kind: "pause", Delay: 300}}, cs.Ops...)
		}
	case "wrapped-chan-burst": // wrapped stream in channel mode, two tasks back to back
		cs.Stack = c05Stacks[1+idx%3]
		cs.SleepMs = 120
		cs.Ops = []c05Op{{Kind: "chanS", On: true}, {Kind: "pause", Delay: 300}, {Kind: "task", Size: 40, Pad: 4}, {Kind: "task", Size: 50, Pad: 5}, {Kind: "pause", Delay: 300}, {Kind: "task", Size: 60, Pad: 7}}
	case "channel-idle": // channel mode, nothing to send for longer than the channel read deadline (5 x sleep)
		cs.SleepMs = 8 + r.Intn(8)
		k := "chanS"
		if idx%2 == 1 {
			k = "chanC"
		}
		cs.Ops = []c05Op{{Kind: k, On: true}, {Kind: "pause", Delay: cs.SleepMs * (7 + r.Intn(6))}, c05GenTask(r, 0, false), {Kind: "pause", Delay: cs.SleepMs * (6 + r.Intn(6))}, c05GenTask(r, 0, false), c05GenTask(r, 0, false)}
	case "capacity": // queue capacity: the network is paused while the operator fills the queue
		cs.SleepMs = 5 + r.Intn(6)
		n := 127
		if idx%3 == 1 {
			n = 100 + r.Intn(27)
		}
		cs.Ops = append(cs.Ops, c05Op{Kind: "netpause"})
		for i := 0; i < n; i++ {
			o := c05Op{Kind: "task", Size: 6 + r.Intn(40), Pad: r.Intn(8), Auto: idx%2 == 1}
			if idx%3 == 2 {
				o.Delay = 60
			}
			cs.Ops = append(cs.Ops, o)
		}
		if n == 127 {
			k := 1 + r.Intn(3)
			for i := 0; i < k; i++ {
				cs.Ops = append(cs.Ops, c05Op{Kind: "task", Size: 8, Expect: "full"})
			}
		}
		cs.Ops = append(cs.Ops, c05Op{Kind: "netresume"})
		if idx%3 == 2 {
			// all results are produced while the network is paused again; the client toggles the
			// channel setting twice (two more packets in its 128-slot queue)
			cs.Ops = append(cs.Ops, c05Op{Kind: "waitexec", Count: n}, c05Op{Kind: "netpause"},
				c05Op{Kind: "chanC", On: true}, c05Op{Kind: "chanC", On: false}, c05Op{Kind: "pause", Delay: 150}, c05Op{Kind: "netresume"})
		}
	case "force-rekey-batch": // a result is queued between pick() and the batching test of next()
		cs.Rekey = 100
		cs.Force = "rekey-batch"
		cs.SleepMs = 10
		cs.Ops = []c05Op{{Kind: "task", Size: 32, Pad: 8, Gate: true}, {Kind: "pause", Delay: 120},
			{Kind: "task", Size: 64, Pad: 16}, {Kind: "pause", Delay: 60}, {Kind: "task", Size: 48, Pad: 3}}
	case "chan-cycle": // channel on, off and on AGAIN (server- or client-side), one task in every phase, no Job
		// outstanding while the mode is switched (a result in flight during a switch-off is a separate matter)
		cs.SleepMs = 12 + idx%3*4
		k := "chanS"
		if idx%2 == 1 {
			k = "chanC"
		}
		t := func(sz int) c05Op { return c05Op{Kind: "task", Size: sz, Pad: 6 + idx} }
		p := c05Op{Kind: "pause", Delay: 320}
		cs.Ops = []c05Op{t(30), p, {Kind: k, On: true}, p, t(40), p, {Kind: k, On: false}, p, t(50), p,
			{Kind: k, On: true}, p, t(60), p, t(70), p, {Kind: k, On: false}, p, t(80), p, {Kind: k, On: true}, p, t(90)}
	case "lenclass": // (session 3) single packets whose payload length sits on a boundary of the top-level wire
		// form's length classes (1/2/4-byte length field: 255|256, 65535|65536), in both directions, each
		// travelling alone (a pause lets the Job finish before the next is issued): a batched or
		// fragmented packet goes through the nested form and never meets the top-level header switch
		cs.SleepMs = 5
		for _, n := range []int{255, 256, 65535, 65536, 65537} {
			cs.Ops = append(cs.Ops, c05Op{Kind: "task", Client: 0, Size: n, Pad: r.Intn(30)}, c05Op{Kind: "pause", Delay: 120})
			cs.Ops = append(cs.Ops, c05Op{Kind: "task", Client: 0, Size: 8 + r.Intn(20), Pad: n - 16}, c05Op{Kind: "pause", Delay: 120})
		}
	case "fragedge": // payloads in the band below a multiple of the (lowered) fragment limit, both directions:
		// the sizes for which the announced fragment count exceeds the number of payload pieces
		cs.OwnID, cs.NoModel = true, true
		cs.SleepMs = 8
		cs.Procs = 8
		cs.Frag = []int{2048, 3000, 4096}[idx%3]
		k := 1 + idx%2
		for d := 0; d < 72; d += 1 + idx%2 {
			o := c05Op{Kind: "task", Size: 64, Pad: 16}
			if (d+idx)%2 == 0 {
				o.Pad = k*cs.Frag - d
			} else {
				o.Size = k*cs.Frag - d
			}
			cs.Ops = append(cs.Ops, o)
			if d%12 == 11 {
				cs.Ops = append(cs.Ops, c05Op{Kind: "pause", Delay: 40})
			}
		}
		// long groups: a task (server to client, polling: the client sweeps stale groups on every wake-up)
		// and a result of 6..9 fragments
		cs.Ops = append(cs.Ops, c05Op{Kind: "pause", Delay: 200},
			c05Op{Kind: "task", Size: (6+idx%4)*cs.Frag - 13, Pad: 16}, c05Op{Kind: "pause", Delay: 400},
			c05Op{Kind: "task", Size: 64, Pad: (7+idx%3)*cs.Frag + 5})
	case "big": // payloads above the fragment limit (thorough only; the process' own device ID)
		cs.OwnID, cs.NoModel = true, true
		cs.SleepMs = 20
		cs.Procs = 8
		o := c05Op{Kind: "task", Size: 64, Pad: 16}
		if idx%2 == 0 {
			o.Pad = c2.VerifC05LimitsFrag + 1000*(1+r.Intn(50))
		} else {
			o.Size = c2.VerifC05LimitsFrag + 1000*(1+r.Intn(50))
		}
		cs.Ops = []c05Op{o, c05GenTask(r, 0, false)}
	}
	return cs
}
func c05pick(b bool, x, y int) int {
	if b {
		return x
	}
	return y
}

// ---- one run -----------------------------------------------------------------------------------

type c05Issued struct {
	client  int
	id      uint16
	kind    int
	payload []byte
	phash   uint64
	pad     int
	sleep   time.Duration
	job     *c2.Job
	done    atomic.Bool
	at      time.Duration
}

type c05Fail struct{ kind, key, detail string }

type c05Out struct {
	op, impl string
	fails    []c05Fail
	counts   []string
	nontriv  bool
	sig      string
	teardown func() bool
}

func c05Tok(p uint64) string { return strconv.FormatUint(p, 10) }

func (cs *c05Case) mode() string {
	m := "plain"
	if cs.Stack != "none" {
		m = "wrapped"
	}
	for _, o := range cs.Ops {
		if (o.Kind == "chanS" || o.Kind == "chanC") && o.On {
			return m + ":chan"
		}
	}
	return m + ":poll"
}

func c05Run(cs *c05Case) (out *c05Out) {
	out = &c05Out{}
	fail := func(kind, key, f string, a ...interface{}) {
		out.fails = append(out.fails, c05Fail{kind, key, fmt.Sprintf(f, a...)})
	}
	defer func() {
		if e := recover(); e != nil {
			fail("panic", "panic:harness", "panic in C05 case: %v\n%s", e, debug.Stack())
		}
	}()
	r := NewRng(cs.Seed, uint64(cs.Index)+7777)
	runtime.GOMAXPROCS(cs.Procs)
	if cs.Frag > 0 {
		// cases run one after the other in this (child) process; the limit is restored for the next one
		old := limits.Frag
		limits.Frag = cs.Frag
		defer func() { limits.Frag = old }()
	}
	w := &c05World{ids: map[device.ID]int{}, gates: map[uint16]chan struct{}{}}
	w.rng.Store(cs.Seed*977 + uint64(cs.Index))
	w.rekey.Store(int32(cs.Rekey))
	c05W.Store(w)
	util.VerifFastRand = c05Rand
	task.Mappings[c05EchoID] = c05Echo
	t0 := time.Now()
	c2.VerifC05Install(&c2.VerifC05Hooks{
		Tap: func(e *c2.VerifC05Event) {
			w.mu.Lock()
			w.log = append(w.log, *e)
			w.logAt = append(w.logAt, time.Now())
			w.mu.Unlock()
		},
		AfterPick: func(client bool, sid device.ID, p *c2.VerifC05Pkt) {
			if f := w.after; f != nil {
				f(client, sid, p)
			}
		},
	})
	scale := 1
	if cs.Stack != "none" {
		scale = 10
	}
	nw := newC05Net(scale)
	set := append([]cfg.Setting{cfg.ConnectTCP, cfg.Host("c05mem:1"), cfg.Sleep(time.Duration(cs.SleepMs) * time.Millisecond), cfg.Jitter(0)}, c05Settings(cs.Stack, r)...)
	bp, err := cfg.Build(set...)
	if err != nil {
		fail("setup", "setup:profile", "cfg.Build(%s): %v", cs.Stack, err)
		return
	}
	prof := &c05Profile{Profile: bp, n: nw}
	if cs.Stack == "dns" {
		prof.t = transform.DNSTransform{"example.com", "c05.test"}
	}
	var lg logx.Log
	if os.Getenv("VERIF_C05_LOG") != "" {
		lg = logx.Writer(os.Stderr, logx.Trace, logx.Flags(int(logx.FlagTime|logx.FlagMicroseconds)))
	}
	srv := c2.NewServer(lg)
	srv.Keys.Fill()
	if _, err = srv.Listen("c05", "c05mem:1", prof); err != nil {
		fail("setup", "setup:listen", "Listen: %v", err)
		return
	}
	ctx, cancel := context.WithCancel(context.Background())
	clients := make([]*c2.Session, cs.Clients)
	servs := make([]*c2.Session, cs.Clients)
	ids := make([]device.ID, cs.Clients)
	for i := range clients {
		var id device.ID
		if cs.OwnID {
			id = local.UUID
		} else {
			copy(id[:], r.Bytes(len(id)))
			id[0] |= 1
		}
		ids[i] = id
		w.mu.Lock()
		w.ids[id] = i
		w.mu.Unlock()
		s, err := c2.VerifC05Connect(ctx, lg, prof, id)
		if err != nil {
			fail("setup", "setup:connect:"+cs.Stack, "Connect client %d (%s): %v", i, cs.Stack, err)
			cancel()
			return
		}
		clients[i] = s
		if servs[i] = srv.Session(id); servs[i] == nil {
			fail("setup", "setup:no-server-session", "client %d registered but the Server has no Session for it", i)
			cancel()
			return
		}
	}
	// ---- forced races
	var gateJob atomic.Int32
	if cs.Force == "rekey-batch" {
		var once sync.Once
		w.after = func(client bool, sid device.ID, p *c2.VerifC05Pkt) {
			if !client || p.ID != 0 || p.Flags&com.FlagCrypt == 0 || p.Len == 0 {
				return
			}
			j := uint16(gateJob.Load())
			if j == 0 {
				return
			}
			w.mu.Lock()
			started := false
			for _, v := range w.invokes {
				if v.job == j {
					started = true
				}
			}
			g := w.gates[j]
			w.mu.Unlock()
			if !started || g == nil {
				return
			}
			once.Do(func() {
				close(g)
				for end := time.Now().Add(500 * time.Millisecond); time.Now().Before(end); time.Sleep(200 * time.Microsecond) {
					w.mu.Lock()
					q := false
					for _, e := range w.log {
						if e.Kind == c2.VerifC05Queue && e.Client && e.P.ID == c2.VerifC05RvResult && e.P.Job == j {
							q = true
						}
					}
					w.mu.Unlock()
					if q {
						time.Sleep(300 * time.Microsecond) // Q is recorded just before the channel send
						break
					}
				}
			})
		}
	}
	// ---- the history: one operator goroutine per client
	var (
		issued  []*c05Issued
		imu     sync.Mutex
		usedIDs = make([]map[uint16]bool, cs.Clients)
		reuse   atomic.Bool
		opEvs   []c05OpEv
		wg      sync.WaitGroup
		fmu     sync.Mutex
	)
	pfail := func(kind, key, f string, a ...interface{}) {
		fmu.Lock()
		fail(kind, key, f, a...)
		fmu.Unlock()
	}
	for i := range usedIDs {
		usedIDs[i] = map[uint16]bool{}
	}
	opLog := func(c int, tok string) {
		w.mu.Lock()
		opEvs = append(opEvs, c05OpEv{at: len(w.log), c: c, tok: tok})
		w.mu.Unlock()
	}
	nextID := make([]uint16, cs.Clients)
	for i := range nextID {
		nextID[i] = uint16(2 + r.Intn(60000))
	}
	perClient := make([][]c05Op, cs.Clients)
	for _, o := range cs.Ops {
		if o.Client < cs.Clients {
			perClient[o.Client] = append(perClient[o.Client], o)
		}
	}
	rs := make([]*Rng, cs.Clients)
	for i := range rs {
		rs[i] = NewRng(cs.Seed, uint64(cs.Index)*16+uint64(i)+99)
	}
	for cl := 0; cl < cs.Clients; cl++ {
		wg.Add(1)
		go func(cl int) {
			defer wg.Done()
			defer func() {
				if e := recover(); e != nil {
					pfail("panic", "panic:operator", "panic in operator call: %v", e)
				}
			}()
			rr := rs[cl]
			for _, o := range perClient[cl] {
				switch o.Kind {
				case "pause":
					time.Sleep(time.Duration(o.Delay) * time.Millisecond)
				case "netpause":
					nw.Pause(true)
					if !nw.Quiesce(2 * time.Second) {
						pfail("setup", "setup:quiesce", "network did not become idle after pause")
					}
				case "netresume":
					nw.Pause(false)
				case "waitexec":
					for end := time.Now().Add(5 * time.Second); time.Now().Before(end); time.Sleep(time.Millisecond) {
						w.mu.Lock()
						n := len(w.invokes)
						w.mu.Unlock()
						if n >= o.Count {
							break
						}
					}
				case "wake":
					opLog(cl, "W."+strconv.Itoa(cl))
					clients[cl].Wake()
				case "chanS":
					opLog(cl, "SC."+strconv.Itoa(cl)+"."+b01(o.On))
					servs[cl].SetChannel(o.On)
				case "chanC":
					opLog(cl, "CC."+strconv.Itoa(cl)+"."+b01(o.On))
					clients[cl].SetChannel(o.On)
				case "sleep":
					d := time.Duration(o.Delay) * time.Millisecond
					it := &c05Issued{client: cl, kind: 1, sleep: d, at: time.Since(t0)}
					j, err := servs[cl].SetSleep(d)
					if err != nil {
						pfail("task", "task-error:sleep", "SetSleep: %v", err)
						continue
					}
					it.job, it.id = j, j.ID
					imu.Lock()
					if usedIDs[cl][j.ID] {
						reuse.Store(true)
					}
					usedIDs[cl][j.ID] = true
					issued = append(issued, it)
					imu.Unlock()
				case "task":
					size := o.Size
					if size < 6 {
						size = 6
					}
					b := rr.Bytes(size)
					binary.BigEndian.PutUint32(b, uint32(o.Pad))
					binary.BigEndian.PutUint16(b[4:], uint16(o.Delay))
					n := &com.Packet{ID: c05EchoID}
					n.Write(b)
					it := &c05Issued{client: cl, kind: 0, payload: b, phash: c2.VerifC05Hash(b), pad: o.Pad, at: time.Since(t0)}
					if !o.Auto {
						imu.Lock()
						for usedIDs[cl][nextID[cl]] || nextID[cl] < 2 {
							nextID[cl] += 7
						}
						n.Job = nextID[cl]
						nextID[cl] += uint16(1 + rr.Intn(300))
						if o.Gate {
							w.mu.Lock()
							w.gates[n.Job] = make(chan struct{})
							w.mu.Unlock()
							gateJob.Store(int32(n.Job))
						}
						imu.Unlock()
					}
					j, err := servs[cl].Task(n)
					if err != nil {
						if err == c2.ErrFullBuffer {
							opLog(cl, "F."+strconv.Itoa(cl))
							if o.Expect != "full" {
								pfail("capacity", "task-refused:"+cs.mode(), "Task returned ErrFullBuffer with %d jobs pending and %d packets queued", c2.VerifC05Pending(servs[cl]), c2.VerifC05QueueLen(servs[cl]))
							}
						} else {
							pfail("task", "task-error", "Task: %v", err)
						}
						continue
					}
					if o.Expect == "full" {
						pfail("capacity", "task-accepted-over-capacity", "Task accepted although %d packets are queued (cap %d)", c2.VerifC05QueueLen(servs[cl]), c2.VerifC05QueueCap(servs[cl]))
					}
					it.job, it.id = j, j.ID
					imu.Lock()
					if usedIDs[cl][j.ID] {
						reuse.Store(true)
					}
					usedIDs[cl][j.ID] = true
					issued = append(issued, it)
					imu.Unlock()
				}
			}
		}(cl)
	}
	wg.Wait()
	nw.Pause(false)
	// ---- wait for the jobs (each Job has its own waiter: Wait must return)
	var ww sync.WaitGroup
	for _, it := range issued {
		ww.Add(1)
		go func(it *c05Issued) {
			defer ww.Done()
			it.job.Wait()
			it.done.Store(true)
		}(it)
	}
	budget := 2500*time.Millisecond + time.Duration(len(issued))*40*time.Millisecond
	if cs.Stack != "none" {
		budget += 3 * time.Second
	}
	if cs.Group == "big" {
		budget += 60 * time.Second
	}
	if cs.Group == "fragedge" {
		budget += 10 * time.Second
	}
	allDone := make(chan struct{})
	go func() { ww.Wait(); close(allDone) }()
	select {
	case <-allDone:
		time.Sleep(time.Duration(2*cs.SleepMs) * time.Millisecond) // let stragglers (duplicates) show up
	case <-time.After(budget):
	}
	// ---- snapshot
	w.mu.Lock()
	log := append([]c2.VerifC05Event(nil), w.log...)
	logAt := append([]time.Time(nil), w.logAt...)
	invokes := append([]c05Invoke(nil), w.invokes...)
	ops := append([]c05OpEv(nil), opEvs...)
	w.mu.Unlock()
	pend := make([]int, cs.Clients)
	for i := range servs {
		pend[i] = c2.VerifC05Pending(servs[i])
	}
	diag := make([]string, cs.Clients)
	for i := range servs {
		diag[i] = fmt.Sprintf("client closed=%v inChannel=%v queued=%d | server-side closed=%v inChannel=%v queued=%d", clients[i].IsClosed(), c2.VerifC05InChannel(clients[i]), c2.VerifC05QueueLen(clients[i]),
			servs[i].IsClosed(), c2.VerifC05InChannel(servs[i]), c2.VerifC05QueueLen(servs[i]))
	}
	keysEq := make([]bool, cs.Clients)
	for i := range servs {
		keysEq[i] = c2.VerifC05KeyHash(servs[i]) == c2.VerifC05KeyHash(clients[i])
	}
	// ---- teardown (bounded; closing is property C16): runs after the verdict of the case has been
	// printed, so that a crash while closing cannot take the observations with it
	out.teardown = func() bool {
		td := make(chan struct{})
		go func() {
			cancel()
			for _, s := range clients {
				s.Close()
			}
			srv.Close()
			close(td)
		}()
		ok := true
		select {
		case <-td:
		case <-time.After(3 * time.Second):
			ok = false
		}
		nw.Close()
		c2.VerifC05Install(nil)
		util.VerifFastRand = nil
		return ok
	}
	// ---- abstraction of the event log
	tr := c05Abstract(cs, ids, issued, log, ops)
	rekeys := 0
	for _, e := range log {
		if e.Kind == c2.VerifC05Sync {
			rekeys++
		}
	}
	// ---- oracles (independent of the model and of the hooks except where stated)
	mode := cs.mode()
	if rekeys > 0 {
		// at least one client switched its session key during the run: failures are keyed
		// rekey-desync:<poll|chan>:<symptom> (the key-agreement property is C06)
		mode += ":rekey"
		m := "poll"
		if strings.HasSuffix(cs.mode(), ":chan") {
			m = "chan"
		}
		if cs.Stack != "none" {
			m += ":wrapped"
		}
		f0 := fail
		fail = func(kind, key, f string, a ...interface{}) {
			if i := strings.Index(key, ":"+cs.mode()); i > 0 {
				key = "rekey-desync:" + m + ":" + strings.ReplaceAll(key[:i], ":", "-")
			}
			f0(kind, key, f, a...)
		}
	}
	safety := false
	comp := make([]int, cs.Clients)
	execs := make([]int, cs.Clients)
	byJob := map[[2]int][]c05Invoke{}
	for _, v := range invokes {
		c, ok := -1, false
		if c, ok = w.ids[v.dev]; !ok {
			c = -1
		}
		byJob[[2]int{c, int(v.job)}] = append(byJob[[2]int{c, int(v.job)}], v)
		if c >= 0 {
			execs[c]++
		}
	}
	known := map[[2]int]*c05Issued{}
	for _, it := range issued {
		known[[2]int{it.client, int(it.id)}] = it
	}
	for k, vs := range byJob {
		it := known[k]
		if it == nil || it.kind != 0 {
			safety = true
			fail("exec", "foreign-exec:"+mode, "Tasker ran for client %d job %d which was never issued to that client (device %s, payload digest %x)", k[0], k[1], vs[0].dev, vs[0].hash)
			continue
		}
		if len(vs) > 1 {
			safety = true
			fail("exec", "dup-exec:"+mode, "Tasker ran %d times for client %d job %d", len(vs), k[0], k[1])
		}
		for _, v := range vs {
			if v.hash != it.phash || v.n != len(it.payload) {
				safety = true
				fail("exec", "wrong-payload:"+mode, "Tasker of client %d job %d got %d bytes digest %x, issued %d bytes digest %x", k[0], k[1], v.n, v.hash, len(it.payload), it.phash)
			}
		}
	}
	stuck := 0
	for _, it := range issued {
		if !it.done.Load() {
			stuck++
			st := c05Stage(tr.stage, it)
			if (st == "s2c" || st == "c2s") && strings.HasSuffix(cs.mode(), ":chan") {
				// handed to a connection by next() and never received: was that connection torn
				// down afterwards (the client connected again later)?
				if i, ok := tr.lastNext[[2]int{it.client, int(it.id)}]; ok && i < len(logAt) {
					nw.mu.Lock()
					for _, t := range nw.connAt {
						if t.After(logAt[i]) {
							st += ":teardown"
							break
						}
					}
					nw.mu.Unlock()
				}
			}
			fail("progress", "stuck:"+st+":"+mode, "client %d job %d (kind %d, %d bytes, issued at %s) did not complete within %s; last seen: %s; %d jobs still in the table; %s",
				it.client, it.id, it.kind, len(it.payload), it.at, budget, st, pend[it.client], diag[it.client])
			continue
		}
		comp[it.client]++
		j := it.job
		if j.Status != c2.StatusCompleted || j.Result == nil {
			safety = true
			fail("result", "bad-status:"+mode, "client %d job %d finished with status %d error %q", it.client, it.id, j.Status, j.Error)
			continue
		}
		got := j.Result.Payload()
		if it.kind == 0 {
			want := c05ResultBytes(it.client, it.id, it.phash, it.pad)
			if !bytes.Equal(got, want) {
				safety = true
				fail("result", "wrong-result:"+mode, "client %d job %d: Result has %d bytes digest %x, the echo of its own payload has %d bytes digest %x", it.client, it.id, len(got), c2.VerifC05Hash(got), len(want), c2.VerifC05Hash(want))
			} else if len(byJob[[2]int{it.client, int(it.id)}]) == 0 {
				safety = true
				fail("result", "complete-without-exec:"+mode, "client %d job %d completed but its Tasker never ran", it.client, it.id)
			}
		} else {
			if len(got) != 22 || time.Duration(binary.BigEndian.Uint64(got[1:9])) != it.sleep {
				// a later SetSleep may already have been applied on the client when this one is
				// answered only if it was executed out of order; the mux is sequential, so the
				// answer must carry this job's own value
				safety = true
				fail("result", "wrong-result:sleep:"+mode, "client %d SetSleep job %d (%s): result payload %x", it.client, it.id, it.sleep, got)
			}
		}
	}
	if stuck == 0 {
		for i := range keysEq {
			if !keysEq[i] && tr.pendingRekey[i] == 0 {
				out.counts = append(out.counts, "keys-differ-at-end")
			}
		}
	}
	for _, a := range tr.anomalies {
		fail("trace", a+":"+mode, "event log anomaly %s", a)
	}
	// ---- the model line
	parts := make([]string, cs.Clients)
	for i := range parts {
		parts[i] = fmt.Sprintf("e=%d,c=%d,p=%d,d=%d,u=%d", execs[i], comp[i], pend[i], tr.dropped[i], tr.untracked[i])
	}
	if !cs.NoModel && !reuse.Load() {
		out.op = "trace " + strconv.Itoa(cs.Clients) + " " + strings.Join(tr.toks, " ")
		if len(tr.toks) == 0 {
			out.op = "trace " + strconv.Itoa(cs.Clients)
		}
		if safety {
			out.impl = "reject"
		} else {
			out.impl = "accept " + strings.Join(parts, " ")
		}
	} else if reuse.Load() {
		out.counts = append(out.counts, "job-number-reused:model-skipped")
	}
	out.counts = append(out.counts, "group:"+cs.Group, "mode:"+mode, "stack:"+cs.Stack, "clients:"+strconv.Itoa(cs.Clients), "procs:"+strconv.Itoa(cs.Procs))
	out.counts = append(out.counts, c05Bucket("tasks", len(issued)), c05Bucket("rekeys", rekeys), c05Bucket("events", len(tr.toks)), c05Bucket("batched", tr.batched), c05Bucket("conns", nw.conns))
	if tr.maxPayload > 16384 {
		out.counts = append(out.counts, "payload>16K")
	}
	out.nontriv = len(issued) > 0 && stuck == 0
	out.sig = fmt.Sprintf("%s/%d/%d/%s", cs.Group, cs.Index, cs.Seed, strings.Join(parts, " "))
	return out
}

func c05Bucket(k string, n int) string {
	switch {
	case n == 0:
		return k + ":0"
	case n == 1:
		return k + ":1"
	case n <= 4:
		return k + ":2-4"
	case n <= 16:
		return k + ":5-16"
	case n <= 64:
		return k + ":17-64"
	case n <= 126:
		return k + ":65-126"
	case n <= 512:
		return k + ":127-512"
	}
	return k + ":>512"
}

// ---- abstraction: hook records -> model events ---------------------------------------------------

type c05OpEv struct {
	at  int // position in the hook log at which the operator call started
	c   int
	tok string
}

type c05Trace struct {
	lastNext     map[[2]int]int // job -> index of the hook record of the next() call that handed it out last
	toks         []string
	stage        map[[2]int]string
	dropped      []int
	untracked    []int
	pendingRekey []int
	anomalies    []string
	batched      int
	maxPayload   int
}

func c05Stage(m map[[2]int]string, it *c05Issued) string {
	if s, ok := m[[2]int{it.client, int(it.id)}]; ok {
		return s
	}
	return "never-queued"
}

func c05Class(p *c2.VerifC05Pkt) string {
	switch {
	case p.ID == c2.VerifC05RvResult:
		return "result"
	case p.ID >= c2.VerifC05MvRefresh:
		return "task"
	case p.ID == 0 && p.Flags&com.FlagCrypt != 0:
		return "rekey"
	case p.ID < 2 && p.Len == 0 && (p.Flags == 0 || p.Flags == com.FlagProxy):
		return "nop"
	}
	return "ctrl"
}

func c05Abstract(cs *c05Case, ids []device.ID, issued []*c05Issued, log []c2.VerifC05Event, ops []c05OpEv) *c05Trace {
	t := &c05Trace{lastNext: map[[2]int]int{}, stage: map[[2]int]string{}, dropped: make([]int, cs.Clients), untracked: make([]int, cs.Clients), pendingRekey: make([]int, cs.Clients)}
	idx := map[device.ID]int{}
	for i, id := range ids {
		idx[id] = i
	}
	kinds := map[[2]int]*c05Issued{}
	for _, it := range issued {
		kinds[[2]int{it.client, int(it.id)}] = it
	}
	// abstract payload of a task packet / result packet
	taskTok := func(c int, p *c2.VerifC05Pkt) string {
		k, v := 2, p.Hash
		switch p.ID {
		case c05EchoID:
			k = 0
		case c2.VerifC05MvTime:
			k = 1
			v = 0
			if p.Len == 10 {
				v = binary.BigEndian.Uint64(p.Head[2:10])
			}
		}
		if p.Len > t.maxPayload {
			t.maxPayload = p.Len
		}
		return fmt.Sprintf("%d,%d,%s", k, p.Job, c05Tok(v))
	}
	resVal := func(c int, p *c2.VerifC05Pkt) uint64 {
		if p.Len > t.maxPayload {
			t.maxPayload = p.Len
		}
		it := kinds[[2]int{c, int(p.Job)}]
		if it == nil || p.Flags&com.FlagError != 0 {
			return 0
		}
		if it.kind == 1 {
			if p.Len == 22 {
				return binary.BigEndian.Uint64(p.Head[1:9])
			}
			return 0
		}
		if p.Len < 16 {
			return 0
		}
		mix, ph := binary.BigEndian.Uint64(p.Head[0:8]), binary.BigEndian.Uint64(p.Head[8:16])
		// well-formed = exactly the bytes the echo Tasker writes for (mix, ph, length)
		b := make([]byte, p.Len)
		binary.BigEndian.PutUint64(b, mix)
		binary.BigEndian.PutUint64(b[8:], ph)
		for i := 0; i < p.Len-16; i++ {
			b[16+i] = byte(ph>>(8*uint(i%8))) ^ byte(i)
		}
		if c2.VerifC05Hash(b) != p.Hash {
			return 0
		}
		return mix
	}
	pktTok := func(c int, p *c2.VerifC05Pkt) string {
		switch c05Class(p) {
		case "task":
			return "t," + taskTok(c, p)
		case "result":
			return fmt.Sprintf("r,%d,%s", p.Job, c05Tok(resVal(c, p)))
		case "rekey":
			return "k"
		case "ctrl":
			return "c"
		}
		return ""
	}
	// which Queue records were dropped (a Drop record follows its Queue record in the same goroutine).
	// The Queue record is written when queue() is entered, the Drop record after the non-blocking send
	// found the channel full. A dropped packet is reported to the model at the position of its Drop
	// record: at that point every packet that filled the channel has already entered queue() (its
	// record precedes), so "the queue is full" is true of the recorded history as well. Reporting it at
	// the position of the Queue record made the model reject real histories in which two later
	// results overtook the dropped one between its record and its send (false alarm, thorough tier).
	dropped := map[int]bool{}
	dropOf := map[int]int{} // index of a Drop record -> index of its Queue record
	for i, e := range log {
		if e.Kind != c2.VerifC05Drop {
			continue
		}
		for k := i - 1; k >= 0; k-- {
			q := &log[k]
			if q.Kind == c2.VerifC05Queue && !dropped[k] && q.Client == e.Client && q.SID == e.SID && q.P.ID == e.P.ID && q.P.Job == e.P.Job && q.P.Hash == e.P.Hash {
				dropped[k] = true
				dropOf[i] = k
				break
			}
		}
	}
	oi := 0
	emit := func(s string) { t.toks = append(t.toks, s) }
	if os.Getenv("VERIF_C05_DEBUG") != "" {
		for i := range log {
			e := &log[i]
			fmt.Fprintf(os.Stderr, "%4d %c client=%v id=%#x job=%d flags=%#x len=%d inner=%d tracked=%v\n", i, e.Kind, e.Client, e.P.ID, e.P.Job, uint64(e.P.Flags), e.P.Len, len(e.Inner), e.Tracked)
		}
	}
	for i := range log {
		for oi < len(ops) && ops[oi].at <= i {
			emit(ops[oi].tok)
			oi++
		}
		e := &log[i]
		c, ok := idx[e.SID]
		if !ok {
			continue // a Session of an earlier case
		}
		cc := strconv.Itoa(c)
		key := [2]int{c, int(e.P.Job)}
		if e.Kind == c2.VerifC05Queue && dropped[i] {
			continue // reported at its Drop record
		}
		if k, ok := dropOf[i]; ok && e.Kind == c2.VerifC05Drop {
			e = &log[k]
			i0 := i
			_ = i0
			c, ok = idx[e.SID]
			if !ok {
				continue
			}
			cc = strconv.Itoa(c)
			key = [2]int{c, int(e.P.Job)}
		}
		switch e.Kind {
		case c2.VerifC05Queue:
			cl := c05Class(&e.P)
			isDrop := log[i].Kind == c2.VerifC05Drop
			d := b01(isDrop)
			switch {
			case !e.Client && cl == "task":
				if isDrop {
					t.anomalies = append(t.anomalies, "task-dropped-by-queue")
				}
				emit("T." + cc + "." + strings.ReplaceAll(taskTok(c, &e.P), ",", "."))
				t.stage[key] = "sq"
			case e.Client && cl == "result":
				emit(fmt.Sprintf("RS.%s.%d.%s.%s", cc, e.P.Job, c05Tok(resVal(c, &e.P)), d))
				if isDrop {
					t.dropped[c]++
					t.stage[key] = "dropped"
				} else {
					t.stage[key] = "cq"
				}
			case cl == "ctrl" || cl == "rekey":
				if e.Client {
					emit("CQ." + cc + "." + d)
				} else {
					emit("SQ." + cc + "." + d)
				}
			case cl == "nop":
			default:
				t.anomalies = append(t.anomalies, "unexpected-queue:"+cl)
			}
		case c2.VerifC05Next:
			ps := e.Inner
			if e.P.Flags&com.FlagMulti == 0 {
				ps = []c2.VerifC05Pkt{e.P}
			}
			var l []string
			for k := range ps {
				if s := pktTok(c, &ps[k]); s != "" {
					if s == "k" && !e.Client {
						s = "c"
					}
					l = append(l, s)
					kk := [2]int{c, int(ps[k].Job)}
					switch c05Class(&ps[k]) {
					case "task":
						t.stage[kk] = "s2c"
						t.lastNext[kk] = i
					case "result":
						t.stage[kk] = "c2s"
						t.lastNext[kk] = i
					case "rekey":
						if e.Client {
							t.pendingRekey[c]++
						}
					}
				}
			}
			if len(l) == 0 {
				continue
			}
			if len(l) > 1 {
				t.batched++
			}
			if e.Client {
				emit("CN." + cc + "." + strings.Join(l, ";"))
			} else {
				emit("SN." + cc + "." + strings.Join(l, ";"))
			}
		case c2.VerifC05Recv:
			switch cl := c05Class(&e.P); {
			case e.Client && cl == "task":
				emit("CR." + cc + ".t," + taskTok(c, &e.P))
				t.stage[key] = "cmux"
			case !e.Client && cl == "result":
				emit(fmt.Sprintf("SR.%s.r,%d,%s", cc, e.P.Job, c05Tok(resVal(c, &e.P))))
				t.stage[key] = "smux"
			case !e.Client && cl == "rekey":
				emit("SR." + cc + ".k")
			case e.Client && cl == "result", !e.Client && cl == "task":
				t.anomalies = append(t.anomalies, "wrong-direction:"+cl)
			}
		case c2.VerifC05Mux:
			if e.Client && c05Class(&e.P) == "task" {
				emit("X." + cc + "." + strings.ReplaceAll(taskTok(c, &e.P), ",", "."))
				t.stage[key] = "run"
			}
		case c2.VerifC05Handle:
			if !e.Client && e.P.ID == c2.VerifC05RvResult && e.P.Job >= 2 && !e.P.Dev.Empty() {
				emit(fmt.Sprintf("H.%s.%d.%s.%s", cc, e.P.Job, c05Tok(resVal(c, &e.P)), b01(e.Tracked)))
				if e.Tracked {
					t.stage[key] = "handled"
				} else {
					t.untracked[c]++
				}
			}
		case c2.VerifC05Sync:
			emit("K." + cc)
			if t.pendingRekey[c] > 0 {
				t.pendingRekey[c]--
			}
		case c2.VerifC05Revert:
			emit("V." + cc)
			if t.pendingRekey[c] > 0 {
				t.pendingRekey[c]--
			}
		case c2.VerifC05Regen:
			emit("G." + cc)
		}
	}
	for ; oi < len(ops); oi++ {
		emit(ops[oi].tok)
	}
	return t
}

// ---- parent / child ------------------------------------------------------------------------------

type c05Job struct {
	group string
	index int
}

func c05Plan(c *Ctx) []c05Job {
	var js []c05Job
	add := func(g string, n int) {
		for i := 0; i < n; i++ {
			js = append(js, c05Job{g, i})
		}
	}
	add("basic", c.N(40, 300))
	add("mixed", c.N(36, 300))
	add("rekey", c.N(24, 200))
	add("channel", c.N(24, 200))
	add("stacks", c.N(16, 96))
	add("capacity", c.N(6, 30))
	add("force-rekey-batch", c.N(3, 20))
	add("wrapped-chan-burst", c.N(3, 12))
	add("channel-idle", c.N(8, 60))
	add("fragedge", c.N(2, 8))
	add("lenclass", c.N(1, 4))
	add("chan-cycle", c.N(2, 10))
	if c.Thorough() {
		add("big", 2)
	}
	return js
}

func c05Base(group string) uint64 {
	base := uint64(0)
	for _, ch := range group {
		base = base*131 + uint64(ch)
	}
	return base
}

func c05CaseID(j c05Job) int { return int(c05Base(j.group)%1000)*1000000 + j.index }

func c05MakeCase(seed uint64, tier string, j c05Job) *c05Case {
	r := NewRng(seed, c05Base(j.group)<<20+uint64(j.index))
	return c05Gen(j.group, j.index, seed, r, tier == "thorough")
}

// runC05Child executes the cases listed in VERIF_C05_CASES ("group:index,group:index,...") and prints
// one JSON line per case on stdout.
func runC05Child(c *Ctx) {
	list := os.Getenv("VERIF_C05_CASES")
	wr := bufio.NewWriter(os.Stdout)
	defer wr.Flush()
	for _, f := range strings.Split(list, ",") {
		p := strings.Split(f, ":")
		if len(p) != 2 {
			continue
		}
		i, _ := strconv.Atoi(p[1])
		j := c05Job{p[0], i}
		cs := c05MakeCase(c.Seed, c.Tier, j)
		fmt.Fprintf(wr, "BEGIN %s:%d\n", j.group, j.index)
		wr.Flush()
		out := c05Run(cs)
		if out.teardown == nil {
			c2.VerifC05Install(nil)
			util.VerifFastRand = nil
		}
		m := map[string]interface{}{"group": j.group, "index": j.index, "op": out.op, "impl": out.impl, "counts": out.counts, "nontriv": out.nontriv, "sig": out.sig}
		var fl []map[string]string
		for _, x := range out.fails {
			fl = append(fl, map[string]string{"kind": x.kind, "key": x.key, "detail": x.detail})
		}
		m["fails"] = fl
		b, _ := json.Marshal(m)
		fmt.Fprintf(wr, "CASE %s\n", b)
		wr.Flush()
		if out.teardown != nil {
			if !out.teardown() {
				fmt.Fprintf(wr, "NOTE teardown-timeout %s:%d\n", j.group, j.index)
			}
			fmt.Fprintf(wr, "CLOSED %s:%d\n", j.group, j.index)
			wr.Flush()
		}
	}
	fmt.Fprintln(wr, "END")
}

func runC05(c *Ctx) {
	plan := c05Plan(c)
	if c.Only >= 0 {
		var p2 []c05Job
		for _, j := range plan {
			if c05CaseID(j) == c.Only {
				p2 = append(p2, j)
			}
		}
		plan = p2
	}
	workers := 6
	if n := runtime.NumCPU() / 2; n < workers && n > 0 {
		workers = n
	}
	// fixed-size chunks so that a crashed / hung child costs few cases
	chunk := 6
	type res = c05Res
	var chunks [][]c05Job
	for i := 0; i < len(plan); i += chunk {
		e := i + chunk
		if e > len(plan) {
			e = len(plan)
		}
		chunks = append(chunks, plan[i:e])
	}
	results := make([]res, len(chunks))
	var wg sync.WaitGroup
	sem := make(chan struct{}, workers)
	for ci := range chunks {
		wg.Add(1)
		sem <- struct{}{}
		go func(ci int) {
			defer wg.Done()
			defer func() { <-sem }()
			var names []string
			for _, j := range chunks[ci] {
				names = append(names, j.group+":"+strconv.Itoa(j.index))
			}
			var acc res
			acc.jobs = chunks[ci]
			for attempt := 0; attempt < 3 && len(names) > 0; attempt++ {
				r := c05Child(c, names, chunks[ci][0].group == "big")
				acc.lines = append(acc.lines, r.lines...)
				if r.err == "" {
					break
				}
				// the child died: keep the first failure, run the cases it did not get to again
				if acc.err == "" {
					acc.err = r.err
					acc.errLines = r.lines
				}
				done := map[string]bool{}
				last := ""
				for _, l := range r.lines {
					if strings.HasPrefix(l, "BEGIN ") {
						last = l[6:]
					}
					if strings.HasPrefix(l, "CASE ") {
						done[last] = true
					}
				}
				var rest []string
				for _, n := range names {
					if !done[n] && (n != last || strings.Contains(r.err, "send on closed channel")) {
						rest = append(rest, n)
					}
				}
				names = rest
			}
			results[ci] = acc
			return
		}(ci)
	}
	wg.Wait()
	c05Collect(c, results)
	if c.Only < 0 {
		c05MuxOnce(c)
	}
}

type c05Res struct {
	jobs     []c05Job
	lines    []string
	errLines []string
	err      string
}

func c05Child(c *Ctx, names []string, big bool) c05Res {
	{
		{
			cmd := exec.Command(os.Args[0], "C05child", "--out", c.OutDir, "--seed", strconv.FormatUint(c.Seed, 10), "--tier", c.Tier)
			cmd.Env = append(os.Environ(), "VERIF_C05_CASES="+strings.Join(names, ","))
			var ob, eb bytes.Buffer
			cmd.Stdout, cmd.Stderr = &ob, &eb
			tmo := time.Duration(len(names))*20*time.Second + 30*time.Second
			if big {
				tmo += 5 * time.Minute
			}
			done := make(chan error, 1)
			if err := cmd.Start(); err != nil {
				return c05Res{err: "start: " + err.Error()}
			}
			go func() { done <- cmd.Wait() }()
			var err error
			select {
			case err = <-done:
			case <-time.After(tmo):
				cmd.Process.Kill()
				<-done
				err = fmt.Errorf("TIMEOUT after %s", tmo)
			}
			r := c05Res{lines: strings.Split(ob.String(), "\n")}
			if err != nil {
				s := eb.String()
				if len(s) > 3000 {
					s = s[:1500] + "\n...\n" + s[len(s)-1500:]
				}
				r.err = err.Error() + "\n" + s
			}
			return r
		}
	}
}

func c05Collect(c *Ctx, results []c05Res) {
	for _, r := range results {
		seen := map[string]bool{}
		last, closing := "", false
		for _, line := range r.lines {
			if strings.HasPrefix(line, "BEGIN ") {
				last, closing = line[6:], false
				continue
			}
			if strings.HasPrefix(line, "NOTE teardown-timeout") {
				c.Count("teardown-timeout")
				continue
			}
			if strings.HasPrefix(line, "CLOSED ") {
				closing = false
				continue
			}
			if !strings.HasPrefix(line, "CASE ") {
				continue
			}
			var m struct {
				Group   string
				Index   int
				Op      string
				Impl    string
				Counts  []string
				Nontriv bool
				Sig     string
				Fails   []map[string]string
			}
			if json.Unmarshal([]byte(line[5:]), &m) != nil {
				continue
			}
			j := c05Job{m.Group, m.Index}
			seen[m.Group+":"+strconv.Itoa(m.Index)] = true
			closing = true
			c.curCase = c05CaseID(j)
			if m.Op != "" {
				c.Op(m.Op, m.Impl)
			}
			for _, k := range m.Counts {
				c.Count(k)
			}
			for _, f := range m.Fails {
				key := f["key"]
				if m.Group == "chan-cycle" || m.Group == "fragedge" {
					// directed histories built to stay clear of the recorded channel-mode findings (no Job is
					// outstanding while the mode is switched, no re-key, nothing near the queue capacity): a
					// failure here is a different violation and gets a key of its own
					key = "directed:" + m.Group + ":" + key
				}
				c.Fail(f["kind"], key, f["detail"], c05MakeCase(c.Seed, c.Tier, j))
			}
			c.Eval(m.Nontriv, m.Sig)
		}
		if r.err != "" {
			// the child died or hung in the case after the last completed one (of the failed attempt)
			last, closing = "", false
			for _, line := range r.errLines {
				switch {
				case strings.HasPrefix(line, "BEGIN "):
					last, closing = line[6:], false
				case strings.HasPrefix(line, "CASE "):
					closing = true
				case strings.HasPrefix(line, "CLOSED "):
					closing = false
				}
			}
			key := "crash:child"
			switch {
			case strings.Contains(r.err, "TIMEOUT"):
				key = "hang:child"
			case strings.Contains(r.err, "concurrent map"):
				key = "fatal:concurrent-map-access"
			case strings.Contains(r.err, "close of closed channel"):
				key = "panic:double-close"
			case strings.Contains(r.err, "all goroutines are asleep"):
				key = "fatal:deadlock"
			}
			if strings.Contains(r.err, "nil pointer dereference") && strings.Contains(r.err, "c2.(*conn).stop") {
				// not a closing problem: the two channel threads of one connection race in conn.stop
				key = "panic:conn-stop:nil-host"
			} else if strings.Contains(r.err, "send on closed channel") && (strings.Contains(r.err, "(*Server).Remove") || strings.Contains(r.err, "chanWake")) {
				// Server / Session being closed by the teardown of this or of the previous case
				key = "teardown:panic:send-on-closed-channel"
			} else if closing && key != "hang:child" {
				// the verdict of the case was already printed: the process died while the Server
				// and the Sessions were being closed (closing cleanly is property C16)
				key = "teardown:" + key
				if strings.Contains(r.err, "send on closed channel") {
					key = "teardown:panic:send-on-closed-channel"
				}
			}
			var in interface{} = last
			for _, j := range r.jobs {
				if j.group+":"+strconv.Itoa(j.index) == last {
					c.curCase = c05CaseID(j)
					in = c05MakeCase(c.Seed, c.Tier, j)
				}
			}
			c.Fail("child", key, "child process running case "+last+" failed: "+r.err, in)
		}
	}
	// the result function of the echo Tasker agrees with the model's on a few points
	for _, v := range [][3]uint64{{0, 2, 0}, {1, 65535, 1<<64 - 1}, {2, 4242, 0x123456789abcdef0}, {0, 7, 14695981039346656037}} {
		c.Op(fmt.Sprintf("f 0 %d %d %d", v[0], v[1], v[2]), strconv.FormatUint(c05Mix(int(v[0]), uint16(v[1]), v[2]), 10))
	}
	c.Op("f 1 0 9 5000000", "5000000")
	keys := make([]string, 0)
	for k := range c.Stats {
		keys = append(keys, k)
	}
	sort.Strings(keys)
}

func init() {
	register("C05", runC05)
	register("C05child", runC05Child)
}
