package main

import (
	"fmt"
	"os"
	"regexp"
	"strconv"

	"github.com/iDigitalFlame/xmt/c2"
)

// Facts for C05, regenerated from the current tree on every run:
//   - the capacity of the per-Session send queue (literal of the three `make(chan *com.Packet, N)`
//     that build a Session: Listener.talk, Listener.talkSub, connectContextInner) — they must agree;
//   - the slack of the "buffer full" test of Session.write (`len(s.send)+K >= cap(s.send)`);
//   - the smallest job number Session.handle accepts (`p.Job < K`);
//   - the packet ids that route a packet to the job table (RvResult) / to the client mux (>= MvRefresh).
func init() {
	factProviders = append(factProviders, func(f *factSet, repo string) error {
		rd := func(rel string) (string, error) {
			b, err := os.ReadFile(repo + "/" + rel)
			return string(b), err
		}
		all := func(src, re, what string, want int) (uint64, error) {
			m := regexp.MustCompile(re).FindAllStringSubmatch(src, -1)
			if len(m) < want {
				return 0, fmt.Errorf("c05 facts: %s: %d matches of %q, want >= %d", what, len(m), re, want)
			}
			v, err := strconv.ParseUint(m[0][1], 0, 64)
			if err != nil {
				return 0, err
			}
			for _, x := range m[1:] {
				if w, _ := strconv.ParseUint(x[1], 0, 64); w != v {
					return 0, fmt.Errorf("c05 facts: %s: literals disagree (%d vs %d)", what, v, w)
				}
			}
			return v, nil
		}
		lst, err := rd("c2/listener.go")
		if err != nil {
			return err
		}
		cc, err := rd("c2/c2.go")
		if err != nil {
			return err
		}
		ses, err := rd("c2/session.go")
		if err != nil {
			return err
		}
		sni, err := rd("c2/session_no_implant.go")
		if err != nil {
			return err
		}
		capS, err := all(lst, `send:\s+make\(chan \*com\.Packet, (\d+)\)`, "server send queue", 2)
		if err != nil {
			return err
		}
		capC, err := all(cc, `s\.send, s\.tick = x, make\(chan \*com\.Packet, (\d+)\)`, "client send queue", 2)
		if err != nil {
			return err
		}
		if capS != capC {
			return fmt.Errorf("c05 facts: server (%d) and client (%d) send queue capacities differ", capS, capC)
		}
		f.Nat("c05QueueCap", capS)
		slack, err := all(ses, `case len\(s\.send\)\+(\d+) >= cap\(s\.send\):`, "write full test", 1)
		if err != nil {
			return err
		}
		f.Nat("c05FullSlack", slack)
		minJob, err := all(sni, `p\.ID != RvResult \|\| p\.Job < (\d+)`, "handle job guard", 1)
		if err != nil {
			return err
		}
		f.Nat("c05MinJob", minJob)
		f.Nat("c05RvResult", uint64(c2.VerifC05RvResult))
		f.Nat("c05MvRefresh", uint64(c2.VerifC05MvRefresh))
		f.Nat("c05MvTime", uint64(c2.VerifC05MvTime))
		return nil
	})
}
