package main

// C05, group "muxonce": the client's task dispatcher (defaultClientMux) answers every task it is
// handed with exactly one result packet carrying the task's Job number - whichever class the task ID
// falls in (handled in place, handled on its own thread: Spawn, Script, external Taskers, unmapped
// IDs). The abstract machine of C05 has one "execute" step per delivered task that queues one
// result; this group ties that step to the dispatcher for every ID class, with payloads that make
// the handlers fail fast (empty) so that nothing is executed on the machine.

import (
	"context"
	"fmt"
	"time"

	"github.com/iDigitalFlame/xmt/c2"
	"github.com/iDigitalFlame/xmt/c2/task"
	"github.com/iDigitalFlame/xmt/com"
	"github.com/iDigitalFlame/xmt/data"
)

func c05MuxOnce(c *Ctx) {
	ids := []uint8{task.MvRefresh, task.MvTime, task.MvPwd, task.MvProxy, task.MvSpawn, task.MvMigrate, task.MvCheckDebug,
		task.MvMounts, task.MvProfile, task.MvWhoami, task.MvScript, 0xD9, 0xEE, 0xF7, c05EchoID}
	c.Cases("muxonce", len(ids)*c.N(2, 6), func(r *Rng, i int) {
		if task.Mappings[c05EchoID] == nil {
			task.Mappings[c05EchoID] = func(_ context.Context, _ data.Reader, w data.Writer) error { w.Write([]byte("ok")); return nil }
		}
		id := ids[i%len(ids)]
		d := c2.VerifC06NewDirect()
		if e1, e2 := d.Hello(nil); e1 != nil || e2 != nil {
			return
		}
		d.Arm(nil, nil)
		job := uint16(2 + r.Intn(65000))
		n := &com.Packet{ID: id, Job: job, Device: d.C.ID}
		if id == task.MvTime && i >= len(ids) { // one well-formed order among the malformed ones
			n = task.Duration(time.Duration(1+r.Intn(1000))*time.Second, r.Intn(100))
			n.Job, n.Device = job, d.C.ID
		}
		in := map[string]interface{}{"task_id": id, "job": job, "payload_bytes": n.Size() - com.PacketHeaderSize}
		if p := guardC08("mux", func() { c2.VerifC05ClientMux(d.C, n) }); p != "" {
			c.Fail("panic", fmt.Sprintf("muxonce:panic:%#x", id), "defaultClientMux panicked: "+p, in)
			return
		}
		// the asynchronous classes answer from their own thread: wait for the first result, then give
		// a second one time to show up
		var jobs []uint16
		dl := time.Now().Add(3 * time.Second)
		for time.Now().Before(dl) {
			j, _ := c2.VerifC05TakeResults(d.C)
			if jobs = append(jobs, j...); len(jobs) > 0 {
				break
			}
			time.Sleep(200 * time.Microsecond)
		}
		time.Sleep(30 * time.Millisecond)
		j, _ := c2.VerifC05TakeResults(d.C)
		jobs = append(jobs, j...)
		own := 0
		for _, x := range jobs {
			if x == job {
				own++
			}
		}
		in["results"] = jobs
		switch {
		case id == task.MvMigrate && own == 0:
			// a Migrate that succeeded answers from the new process; with an empty payload it fails
			// and answers here - no answer at all would be a lost task
			c.Fail("once", fmt.Sprintf("muxonce:no-result:%#x", id), "no result for the task", in)
		case own != 1:
			c.Fail("once", fmt.Sprintf("muxonce:%d-results:%#x", own, id), fmt.Sprintf("task %#x Job %d was answered %d times", id, job, own), in)
		case len(jobs) != own:
			c.Fail("once", fmt.Sprintf("muxonce:foreign-result:%#x", id), "a result for another Job number was queued", in)
		}
		c.Count(fmt.Sprintf("muxonce:id=%#x", id))
		c.Eval(true, fmt.Sprint("muxonce", id, i))
	})
}
