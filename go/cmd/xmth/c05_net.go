package main

// C05: in-memory network for running the REAL Server / Listener / Session goroutines in one process.
// A c05Net is one listening endpoint; Connect hands one end of a buffered, bidirectional byte pipe
// to the dialer and the other to Accept. Writes never block (so the zero-length header write of
// Packet.writeHeader that dead-locks net.Pipe is harmless), reads honour deadlines, Close gives the
// peer EOF after the buffered bytes. The network can be paused (Connect blocks) so that the harness
// can build queue states that do not race with the poll loop.

import (
	"context"
	"errors"
	"io"
	"net"
	"os"
	"sync"
	"sync/atomic"
	"time"

	"github.com/iDigitalFlame/xmt/c2/cfg"
)

type c05Addr struct{}

func (c05Addr) Network() string { return "c05mem" }
func (c05Addr) String() string  { return "c05mem:1" }

type c05Half struct {
	mu      sync.Mutex
	cond    *sync.Cond
	buf     []byte
	wclosed bool // writer side closed: reader gets EOF after draining
	rclosed bool // reader side closed: writer gets an error
	rdl     time.Time
	timer   *time.Timer
}

func newHalf() *c05Half {
	h := &c05Half{}
	h.cond = sync.NewCond(&h.mu)
	return h
}

type c05Conn struct {
	r, w   *c05Half
	n      *c05Net
	closed atomic.Bool
	wdl    atomic.Int64 // write deadline, unix nanos (0 = none)
}

func (c *c05Conn) scale(t time.Time) time.Time {
	if t.IsZero() || c.n.scale <= 1 {
		return t
	}
	// only the fixed 350 ms "end of stream" time-out of readPacket is compressed: the in-memory
	// transport delivers a whole write at once, so waiting for stragglers is pointless
	if d := time.Until(t); d > 300*time.Millisecond && d < 400*time.Millisecond {
		return time.Now().Add(d / time.Duration(c.n.scale))
	}
	return t
}
func (c *c05Conn) Read(b []byte) (int, error) {
	h := c.r
	h.mu.Lock()
	defer h.mu.Unlock()
	for {
		if c.closed.Load() {
			return 0, net.ErrClosed
		}
		if len(b) == 0 {
			return 0, nil
		}
		if len(h.buf) > 0 {
			n := copy(b, h.buf)
			h.buf = h.buf[n:]
			if len(h.buf) == 0 {
				h.buf = nil
			}
			return n, nil
		}
		if h.wclosed {
			return 0, io.EOF
		}
		if !h.rdl.IsZero() && !time.Now().Before(h.rdl) {
			return 0, os.ErrDeadlineExceeded
		}
		h.cond.Wait()
	}
}
func (c *c05Conn) Write(b []byte) (int, error) {
	if c.closed.Load() {
		return 0, net.ErrClosed
	}
	if d := c.wdl.Load(); d != 0 && time.Now().UnixNano() >= d {
		return 0, os.ErrDeadlineExceeded
	}
	h := c.w
	h.mu.Lock()
	defer h.mu.Unlock()
	if h.rclosed {
		return 0, io.ErrClosedPipe
	}
	if len(b) > 0 {
		h.buf = append(h.buf, b...)
		atomic.AddInt64(&c.n.bytes, int64(len(b)))
		h.cond.Broadcast()
	}
	return len(b), nil
}
func (c *c05Conn) Close() error {
	if c.closed.Swap(true) {
		return nil
	}
	c.r.mu.Lock()
	c.r.rclosed = true
	if c.r.timer != nil {
		c.r.timer.Stop()
	}
	c.r.cond.Broadcast()
	c.r.mu.Unlock()
	c.w.mu.Lock()
	c.w.wclosed = true
	c.w.cond.Broadcast()
	c.w.mu.Unlock()
	c.n.mu.Lock()
	c.n.open--
	c.n.cond.Broadcast()
	c.n.mu.Unlock()
	return nil
}
func (c *c05Conn) LocalAddr() net.Addr  { return c05Addr{} }
func (c *c05Conn) RemoteAddr() net.Addr { return c05Addr{} }
func (c *c05Conn) SetDeadline(t time.Time) error {
	c.SetReadDeadline(t)
	c.SetWriteDeadline(t)
	return nil
}
func (c *c05Conn) SetReadDeadline(t time.Time) error {
	t = c.scale(t)
	h := c.r
	h.mu.Lock()
	h.rdl = t
	if h.timer != nil {
		h.timer.Stop()
		h.timer = nil
	}
	if !t.IsZero() {
		if d := time.Until(t); d > 0 {
			h.timer = time.AfterFunc(d, func() {
				h.mu.Lock()
				h.cond.Broadcast()
				h.mu.Unlock()
			})
		}
	}
	h.cond.Broadcast()
	h.mu.Unlock()
	return nil
}
func (c *c05Conn) SetWriteDeadline(t time.Time) error {
	if t.IsZero() {
		c.wdl.Store(0)
	} else {
		c.wdl.Store(t.UnixNano())
	}
	return nil
}

type c05Net struct {
	mu     sync.Mutex
	cond   *sync.Cond
	paused bool
	closed bool
	open   int // connection ends not yet closed
	conns  int
	connAt []time.Time
	bytes  int64
	acc    chan net.Conn
	done   chan struct{}
	scale  int
}

func newC05Net(scale int) *c05Net {
	n := &c05Net{acc: make(chan net.Conn, 4096), done: make(chan struct{}), scale: scale}
	n.cond = sync.NewCond(&n.mu)
	return n
}
func (n *c05Net) Pause(p bool) {
	n.mu.Lock()
	n.paused = p
	n.cond.Broadcast()
	n.mu.Unlock()
}

// Quiesce waits until no connection is open (use after Pause(true)).
func (n *c05Net) Quiesce(d time.Duration) bool {
	end := time.Now().Add(d)
	for {
		n.mu.Lock()
		o := n.open
		n.mu.Unlock()
		if o == 0 {
			return true
		}
		if time.Now().After(end) {
			return false
		}
		time.Sleep(time.Millisecond)
	}
}
func (n *c05Net) Connect(x context.Context) (net.Conn, error) {
	stop := context.AfterFunc(x, func() {
		n.mu.Lock()
		n.cond.Broadcast()
		n.mu.Unlock()
	})
	defer stop()
	n.mu.Lock()
	for n.paused && !n.closed && x.Err() == nil {
		n.cond.Wait()
	}
	if n.closed {
		n.mu.Unlock()
		return nil, errors.New("c05mem: connection refused")
	}
	if err := x.Err(); err != nil {
		n.mu.Unlock()
		return nil, err
	}
	a, b := newHalf(), newHalf()
	cl := &c05Conn{r: a, w: b, n: n}
	sv := &c05Conn{r: b, w: a, n: n}
	n.open += 2
	n.conns++
	n.connAt = append(n.connAt, time.Now())
	n.mu.Unlock()
	select {
	case n.acc <- sv:
	default:
		cl.Close()
		sv.Close()
		return nil, errors.New("c05mem: backlog full")
	}
	return cl, nil
}

// net.Listener
func (n *c05Net) Accept() (net.Conn, error) {
	select {
	case c := <-n.acc:
		return c, nil
	case <-n.done:
		return nil, net.ErrClosed
	}
}
func (n *c05Net) Close() error {
	n.mu.Lock()
	if !n.closed {
		n.closed = true
		close(n.done)
	}
	n.cond.Broadcast()
	n.mu.Unlock()
	return nil
}
func (n *c05Net) Addr() net.Addr { return c05Addr{} }

// c05Profile is a real built cfg.Profile (sleep, jitter, wrapper stack, transform all come from
// cfg.Build) whose Connect / Listen go to the in-memory network.
type c05Profile struct {
	cfg.Profile
	n *c05Net
	t cfg.Transform // when set, replaces the transform of the built profile
}

func (p *c05Profile) Next() (string, cfg.Wrapper, cfg.Transform) {
	h, w, t := p.Profile.Next()
	if p.t != nil {
		t = p.t
	}
	return h, w, t
}

func (p *c05Profile) Connect(x context.Context, _ string) (net.Conn, error) { return p.n.Connect(x) }
func (p *c05Profile) Listen(context.Context, string) (net.Listener, error)  { return p.n, nil }
