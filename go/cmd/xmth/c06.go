package main

// C06 — both ends always hold the same session key; encryption is an exact involution.
//
// Groups (see lib/props/C06.json "rule"):
//   xor   subtle.XorOp / (*Chunk).KeyCrypt differential + involution/length/no-op/pointwise oracles
//   fill  real data.KeyPair, real P-521: both sides of a handshake from equal previous buffers
//   hist  histories through the real unexported c2 key functions (direct, no connection)
//   e2e   histories through the real Server/Listener/Connect/Session over an in-memory conn (c06_e2e.go)
//   boot  start-up schedules (c06_e2e.go)

import (
	"bytes"
	"crypto/ecdh"
	"crypto/elliptic"
	"encoding/hex"
	"fmt"
	"os"
	"strings"

	"github.com/iDigitalFlame/xmt/c2"
	"github.com/iDigitalFlame/xmt/com"
	"github.com/iDigitalFlame/xmt/data"
	"github.com/iDigitalFlame/xmt/data/crypto/subtle"
)

func init() { register("C06", runC06) }

func runC06(c *Ctx) {
	// VERIF_C06_GROUPS=xor,fill,hist,e2e,boot restricts the groups (development aid only)
	g := os.Getenv("VERIF_C06_GROUPS")
	on := func(n string) bool { return g == "" || strings.Contains(","+g+",", ","+n+",") }
	if on("xor") {
		c06Xor(c)
	}
	if on("fill") {
		c06Fill(c)
	}
	if on("hist") {
		c06Hist(c)
	}
	if on("e2e") {
		c06E2E(c)
	}
	if on("boot") {
		c06Boot(c)
	}
	if on("chan") {
		c06Chan(c)
	}
	if on("histw") {
		c06HistW(c)
	}
	if on("relaykeys") {
		c06Relay(c)
	}
	if on("pickwait") {
		c06PickWait(c)
	}
	c06S3(c, on)
}

// ---- xor --------------------------------------------------------------------------------------

var c06Lens = []int{0, 1, 2, 3, 4, 7, 8, 9, 15, 16, 17, 31, 32, 33, 63, 64, 65, 66, 67, 127, 128, 129, 130, 131, 195, 199, 200}

func c06XorCase(c *Ctx, value, key []byte) {
	v := append([]byte(nil), value...)
	func() {
		defer func() {
			if e := recover(); e != nil {
				c.Fail("panic", "panic:XorOp", fmt.Sprint(e), map[string]string{"value": hx(value), "key": hx(key)})
			}
		}()
		subtle.XorOp(v, key)
	}()
	c.Op("xor "+hx(value)+" "+hx(key), hx(v))
	in := map[string]string{"value": hx(value), "key": hx(key)}
	if len(v) != len(value) {
		c.Fail("length", "xor:length", "XorOp changed the length", in)
	}
	// pointwise: byte i is value[i]^key[i mod len(key)] (no-op for an empty key)
	for i := range value {
		w := value[i]
		if len(key) > 0 {
			w ^= key[i%len(key)]
		}
		if i < len(v) && v[i] != w {
			c.Fail("pointwise", "xor:pointwise", fmt.Sprintf("byte %d is %02x, want %02x", i, v[i], w), in)
			break
		}
	}
	// involution
	w := append([]byte(nil), v...)
	subtle.XorOp(w, key)
	if !bytes.Equal(w, value) {
		c.Fail("involution", "xor:involution", "applying XorOp twice does not restore the bytes", in)
	}
	c.Eval(len(value) > len(key) && len(key) > 0, "xor"+hx(value)+hx(key))
	switch {
	case len(key) == 0 || len(value) == 0:
		c.Count("xor:noop")
	case len(key) == len(value):
		c.Count("xor:equal-len")
	case len(key) > len(value):
		c.Count("xor:key-longer")
	case len(value)%len(key) == 0:
		c.Count("xor:whole-blocks")
	default:
		c.Count("xor:partial-last-block")
	}
}

func c06Xor(c *Ctx) {
	if c.Thorough() {
		c.Cases("xorgrid", 201, func(r *Rng, kl int) {
			for vl := 0; vl <= 200; vl++ {
				c06XorCase(c, r.Bytes(vl), r.Bytes(kl))
			}
		})
	} else {
		c.Cases("xorpool", len(c06Lens), func(r *Rng, i int) {
			for vl := 0; vl <= 200; vl++ {
				if vl > 70 && vl%3 != i%3 && vl < 190 {
					continue
				}
				c06XorCase(c, r.Bytes(vl), r.Bytes(c06Lens[i]))
			}
		})
	}
	// (*Chunk).KeyCrypt: whole backing buffer, also after part of it was read; key = 65-byte share
	c.Cases("keycrypt", c.N(300, 3000), func(r *Rng, i int) {
		var k data.KeyPair
		share := r.Bytes(data.VerifC06SharedKeySize)
		if i%7 == 0 {
			share = make([]byte, data.VerifC06SharedKeySize)
		}
		data.VerifC06SetShare(&k, share)
		p := r.Bytes(c06Lens[r.Intn(len(c06Lens))] + r.Intn(3))
		var ch data.Chunk
		ch.Write(p)
		if len(p) > 0 && r.Bool() {
			ch.Read(make([]byte, 1+r.Intn(len(p))))
		}
		rem := ch.Remaining()
		ch.KeyCrypt(k)
		got := append([]byte(nil), data.VerifC06Buf(&ch)...)
		c.Op("xor "+hx(p)+" "+hx(share), hx(got))
		if ch.Remaining() != rem || ch.Size() != len(p) {
			c.Fail("length", "keycrypt:length", "KeyCrypt changed the size or the read position", map[string]string{"value": hx(p), "key": hx(share)})
		}
		ch.KeyCrypt(k)
		if !bytes.Equal(data.VerifC06Buf(&ch), p) {
			c.Fail("involution", "keycrypt:involution", "KeyCrypt twice does not restore the buffer", map[string]string{"value": hx(p), "key": hx(share)})
		}
		c.Eval(len(p) > 65, "kc"+hx(p)+hx(share))
		c.Count("keycrypt")
	})
}

// ---- real P-521 -------------------------------------------------------------------------------

func c06Strip(b []byte) []byte {
	for len(b) > 0 && b[0] == 0 {
		b = b[1:]
	}
	return b
}

// c06Secret computes ScalarMult(pub, priv).Bytes() independently of data.KeyPair: with crypto/ecdh
// when it accepts the scalar, else with crypto/elliptic. ok=false: the public key does not parse.
func c06Secret(priv []byte, pub []byte) ([]byte, bool) {
	if k, err := ecdh.P521().NewPrivateKey(priv); err == nil {
		p, err := ecdh.P521().NewPublicKey(pub)
		if err != nil {
			return nil, false
		}
		s, err := k.ECDH(p)
		if err != nil {
			return nil, false
		}
		return c06Strip(s), true
	}
	x, y := elliptic.Unmarshal(elliptic.P521(), pub)
	if x == nil || y == nil {
		return nil, false
	}
	v, _ := elliptic.P521().ScalarMult(x, y, priv)
	if v == nil {
		return nil, false
	}
	return v.Bytes(), true
}

func c06SecTok(s []byte, ok bool) string {
	if !ok {
		return "!"
	}
	return hx(s)
}

func c06Fill(c *Ctx) {
	short, trunc := 0, 0
	c.Cases("fill", c.N(2500, 40000), func(r *Rng, i int) {
		var kc, ks data.KeyPair
		kc.Fill()
		ks.Fill()
		prev := make([]byte, data.VerifC06SharedKeySize)
		if i%3 != 0 {
			prev = r.Bytes(len(prev)) // a previous (stale) secret, equal on both sides
		}
		in := map[string]string{"clientPriv": hx(kc.Private[:]), "clientPub": hx(kc.Public[:]), "serverPriv": hx(ks.Private[:]), "serverPub": hx(ks.Public[:]), "prev": hx(prev)}
		s1, ok1 := c06Secret(kc.Private[:], ks.Public[:])
		s2, ok2 := c06Secret(ks.Private[:], kc.Public[:])
		if !ok1 || !ok2 || !bytes.Equal(s1, s2) {
			c.Fail("assumption", "curve:comm", "dh a (pubOf b) ≠ dh b (pubOf a) on the real curve", in)
		}
		// client side: Read(server public) + Sync   (keySessionSync)
		cl := kc
		data.VerifC06SetShare(&cl, prev)
		cl.Public = ks.Public
		e1 := cl.Sync()
		// server side: Read(client public) + FillPrivate(server private)   (keyListenerInit)
		sv := data.KeyPair{}
		data.VerifC06SetShare(&sv, prev)
		sv.Public = kc.Public
		e2 := sv.FillPrivate(ks.Private)
		a, b := cl.Shared(), sv.Shared()
		c.Op("fill "+hx(prev)+" "+c06SecTok(s1, ok1), errTok(e1)+" "+hx(a[:]))
		c.Op("fill "+hx(prev)+" "+c06SecTok(s2, ok2), errTok(e2)+" "+hx(b[:]))
		if e1 != nil || e2 != nil {
			c.Fail("handshake", "handshake:error", fmt.Sprintf("honest keys failed: %v / %v", e1, e2), in)
		}
		if a != b {
			c.Fail("agree", "handshake:mismatch", fmt.Sprintf("client %x server %x", a[:], b[:]), in)
		}
		if sv.Private != ks.Private {
			c.Fail("handshake", "handshake:private", "FillPrivate did not store the private key", in)
		}
		switch {
		case len(s1) < len(prev):
			short++
			c.Count("fill:secret-shorter-than-buffer")
		case len(s1) > len(prev):
			trunc++
			c.Count("fill:secret-66-bytes")
		default:
			c.Count("fill:secret-65-bytes")
		}
		c.Eval(len(s1) != len(prev) || i%3 != 0, "fill"+hx(s1)+hx(prev))
		// unparseable public key: error, buffer untouched
		if i%10 == 0 {
			g := r.Bytes(data.VerifC06PublicKeySize)
			var gp data.PublicKey
			copy(gp[:], g)
			bad := kc
			data.VerifC06SetShare(&bad, prev)
			e := bad.FillPublic(gp)
			sg, okg := c06Secret(kc.Private[:], g)
			sh := bad.Shared()
			c.Op("fill "+hx(prev)+" "+c06SecTok(sg, okg), errTok(e)+" "+hx(sh[:]))
			if e != nil && (!bytes.Equal(sh[:], prev) || bad.Public != kc.Public) {
				c.Fail("handshake", "fill:error-modifies", "failed FillPublic changed the KeyPair", in)
			}
			c.Count("fill:garbage-public")
		}
	})
	c.Extra["fill_short_secrets"] = short
	c.Extra["fill_66_byte_secrets"] = trunc
}

func errTok(e error) string {
	if e != nil {
		return "err"
	}
	return "ok"
}

// ---- histories (shared between the direct and the end-to-end group) -----------------------------

type c06Ev struct {
	Kind  string // "con", "x", "drop"
	Rekey bool
	Data  []byte // payload the client sends (data) / drawn private key (rekey, con)
	Info  []byte
	Reply []byte
	Fresh []byte
	Fault int // 0 ok 1 write failed 2 reply lost 3 request lost (histw only: written without error, never received)
	// Batched: (end-to-end only) a packet was queued on the client between pick() and the queue
	// check of next() while a re-key packet was being sent. Not part of the model token: the
	// repaired code sends the re-key packet alone whatever is queued.
	Batched bool
}

var c06FaultTok = []string{"o", "w", "l", "q"} // ok, write failed, reply lost, request lost (written without error, never received)

func (e c06Ev) tok() string {
	switch e.Kind {
	case "drop":
		return "drop"
	case "con":
		return "con:" + hx(e.Data) + ":" + hx(e.Info) + ":" + c06FaultTok[e.Fault]
	}
	k := "D"
	if e.Rekey {
		k = "R"
	}
	return "x:" + k + ":" + hx(e.Data) + ":" + hx(e.Reply) + ":" + hx(e.Fresh) + ":" + c06FaultTok[e.Fault]
}

// c06Keys collects every key pair seen in a history and renders the pubOf / dh tables the model
// driver needs (all private × public combinations; garbage public keys are simply absent, which the
// driver reads as "does not parse").
type c06Keys struct {
	priv, pub [][]byte
}

func (k *c06Keys) add(p data.KeyPair) {
	for i := range k.priv {
		if bytes.Equal(k.priv[i], p.Private[:]) {
			return
		}
	}
	k.priv = append(k.priv, append([]byte(nil), p.Private[:]...))
	k.pub = append(k.pub, append([]byte(nil), p.Public[:]...))
}

func (k *c06Keys) tables(all bool, srv int) (string, string) {
	var pt, dt []string
	for i := range k.priv {
		pt = append(pt, hex.EncodeToString(k.priv[i])+":"+hex.EncodeToString(k.pub[i]))
		for j := range k.pub {
			if !all && i != srv && j != srv {
				continue
			}
			s, ok := c06Secret(k.priv[i], k.pub[j])
			dt = append(dt, hex.EncodeToString(k.priv[i])+":"+hex.EncodeToString(k.pub[j])+":"+c06SecTok(s, ok))
		}
	}
	return strings.Join(pt, ","), strings.Join(dt, ",")
}

func c06State(cl *data.KeyPair, next bool, sv *data.KeyPair) string {
	cs, ss := "none", "none"
	if cl != nil {
		s := cl.Shared()
		n := "0"
		if next {
			n = "1"
		}
		cs = hex.EncodeToString(s[:]) + "/" + n
	}
	if sv != nil {
		s := sv.Shared()
		ss = hex.EncodeToString(s[:])
	}
	return "c=" + cs + " s=" + ss
}

// c06Classify names the situation in which a desynchronisation was seen, from the faults that
// preceded it (canonical key for the known-findings matcher).
func c06Classify(evs []c06Ev, upto int) string {
	if upto >= len(evs) {
		upto = len(evs) - 1
	}
	// replay who knows what: does the server hold a Session, is a re-registration hello queued
	sess, hello := false, false
	lost := make([]string, len(evs))
	for i := 0; i <= upto; i++ {
		e := evs[i]
		switch {
		case e.Kind == "drop":
			sess = false
		case e.Kind == "con":
			hello = false
			if e.Fault != 1 {
				sess = true
			}
		case e.Fault == 3:
			hello = false // the packet left the client and never arrived
			if e.Rekey {
				lost[i] = "requestLost:rekey"
			}
		case e.Fault == 1:
			hello = false // whatever was picked (also a queued hello) is gone
		case hello:
			hello, sess = false, true
			if e.Fault == 2 {
				lost[i] = "replyLost:rehello"
			}
		case !sess:
			if e.Fault == 0 {
				hello = true // SvRegister received: a hello is queued
			}
		case e.Fault == 2 && e.Rekey:
			lost[i] = "replyLost:rekey"
		case e.Fault == 2:
			lost[i] = "replyLost:data"
		}
	}
	// the most recent loss that touches key material explains a split; a lost data reply alone never
	// does (it is reported only when nothing else happened)
	other := ""
	for i := upto; i >= 0; i-- {
		if evs[i].Kind == "x" && evs[i].Batched && evs[i].Fault == 0 {
			return "rekey-batched"
		}
		if lost[i] == "replyLost:data" {
			if other == "" {
				other = lost[i]
			}
			continue
		}
		if lost[i] != "" {
			return lost[i]
		}
	}
	if other != "" {
		return other
	}
	return "no-fault"
}

func c06Hist(c *Ctx) {
	c.Cases("hist", c.N(250, 4000), func(r *Rng, i int) {
		d := c2.VerifC06NewDirect()
		var keys c06Keys
		keys.add(d.Srv.Keys)
		info := r.Bytes(r.Intn(40))
		var evs []c06Ev
		var out []string
		e1, e2 := d.Hello(info)
		ck := c2.VerifC06Keys(d.C)
		keys.add(d.Gen)
		evs = append(evs, c06Ev{Kind: "con", Data: d.Gen.Private[:], Info: info})
		if e1 != nil || e2 != nil {
			c.Fail("handshake", "handshake:error", fmt.Sprintf("%v / %v", e1, e2), nil)
		}
		sk := c2.VerifC06Keys(d.S)
		out = append(out, c06State(&ck, false, &sk))
		n := 1 + r.Intn(9)
		faulty, rekeys := false, 0
		desync := ""
		for j := 0; j < n; j++ {
			ev := c06Ev{Kind: "x", Reply: r.Bytes(c06Lens[r.Intn(12)]), Fresh: nil}
			switch f := r.Intn(100); {
			case f < 12:
				ev.Fault = 1
			case f < 22:
				ev.Fault = 2
			}
			var p *com.Packet
			if r.Chance(45) {
				ev.Rekey = true
				if p = d.Rekey(); p != nil {
					nk, _ := c2.VerifC06KeysNext(d.C)
					keys.add(nk)
					ev.Data = nk.Private[:]
					rekeys++
				} else {
					nk, _ := c2.VerifC06KeysNext(d.C) // roll ignored: a sync is already pending
					ev.Data = nk.Private[:]
					p = &com.Packet{Device: d.C.ID}
				}
			} else {
				ev.Data = r.Bytes(c06Lens[r.Intn(len(c06Lens))])
				p = &com.Packet{Device: d.C.ID}
				p.Write(ev.Data)
			}
			crypt := p.Flags&com.FlagCrypt != 0
			srvSaw, cliSaw := d.Exchange(p, ev.Reply, ev.Fault)
			evs = append(evs, ev)
			ck, sk = c2.VerifC06Keys(d.C), c2.VerifC06Keys(d.S)
			_, pending := c2.VerifC06KeysNext(d.C)
			st := c06State(&ck, pending, &sk)
			if ev.Fault != 1 && !crypt {
				st += " S:" + hx(srvSaw)
				if !bytes.Equal(srvSaw, ev.Data) && desync == "" {
					desync = "payload:" + c06Classify(evs, len(evs)-2)
				}
			}
			if ev.Fault == 0 {
				st += " C:" + hx(cliSaw)
				if !bytes.Equal(cliSaw, ev.Reply) && desync == "" {
					desync = "payload:" + c06Classify(evs, len(evs)-2)
				}
			}
			out = append(out, st)
			if ev.Fault != 0 {
				faulty = true
			}
			// the property, directly: both ends hold the same secret after every step
			if ck.Shared() != sk.Shared() && desync == "" {
				desync = "desync:" + c06Classify(evs, len(evs)-1)
			}
			if ev.Fault == 1 && pending {
				c.Fail("revert", "revert:pending", "a failed write left a queued KeyPair", c06Toks(evs))
			}
		}
		pt, dt := keys.tables(false, 0)
		c.Op("hist obs=1 srv="+hex.EncodeToString(keys.priv[0])+" pub="+pt+" dh="+dt+" "+strings.Join(c06Toks(evs), " "), strings.Join(out, " | "))
		if desync != "" {
			c.Fail("desync", desync, "client and server disagree (secret or delivered payload)", c06Toks(evs))
			c.Count("hist:desync")
		}
		c.Eval(faulty || rekeys > 0, strings.Join(c06Toks(evs), " "))
		if rekeys > 3 {
			rekeys = 3
		}
		c.Count(fmt.Sprintf("hist:rekeys=%d", rekeys))
		if faulty {
			c.Count("hist:with-fault")
		}
	})
}

func c06Toks(evs []c06Ev) []string {
	t := make([]string, len(evs))
	for i := range evs {
		t[i] = evs[i].tok()
	}
	return t
}
