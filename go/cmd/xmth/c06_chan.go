package main

// C06, channel (full duplex) mode — oracle only, not modelled (open statement in lib/props/C06.json).
// One long-lived connection: echo task, forced re-key inside the channel, echo task again.  The
// server side of a channel encrypts/decrypts with the conn-local KeyPair copy taken when the
// connection was accepted.

import (
	"bytes"
	"fmt"
	"time"

	"github.com/iDigitalFlame/xmt/c2"
	"github.com/iDigitalFlame/xmt/com"
)

func c06Poll(d time.Duration, f func() bool) bool {
	dl := time.Now().Add(d)
	for !f() {
		if time.Now().After(dl) {
			return false
		}
		time.Sleep(100 * time.Microsecond)
	}
	return true
}

// echoRound queues an echo task on the server-side Session and waits for the result.
func (w *c06World) echoRound(p []byte) (delivered, result []byte, ok bool) {
	ss := w.serverSession()
	if ss == nil {
		return nil, nil, false
	}
	c06EchoMu.Lock()
	n0 := len(c06EchoGot)
	c06EchoMu.Unlock()
	n := &com.Packet{ID: c06TaskID}
	n.Write(p)
	j, err := ss.Task(n)
	if err != nil {
		return nil, nil, false
	}
	if !c06Poll(2*time.Second, func() bool { return j.IsDone() }) {
		c06EchoMu.Lock()
		if len(c06EchoGot) > n0 {
			delivered = c06EchoGot[n0]
		}
		c06EchoMu.Unlock()
		return delivered, nil, false
	}
	c06EchoMu.Lock()
	if len(c06EchoGot) > n0 {
		delivered = c06EchoGot[n0]
	}
	c06EchoMu.Unlock()
	if j.Result != nil {
		result = j.Result.Payload()
	}
	return delivered, result, true
}

func c06Chan(c *Ctx) {
	c.Cases("chan", c.N(3, 40), func(r *Rng, i int) {
		w, err := c06NewWorld(c, true)
		if err != nil {
			c.Fail("harness", "harness:chan", err.Error(), nil)
			return
		}
		defer func() {
			w.net.mu.Lock()
			cl, sv := w.net.cli, w.net.srv
			w.net.mu.Unlock()
			w.close()
			if cl != nil {
				cl.Close()
				sv.Close()
			}
		}()
		if err := w.connect(0); err != nil || w.cli == nil {
			c.Fail("harness", "harness:chan", fmt.Sprint("connect: ", err), nil)
			return
		}
		// open the channel: the queued FlagChannel packet starts one exchange that never closes
		st := make(chan struct{})
		w.net.plans <- c06Plan{started: st}
		w.cli.SetChannel(true)
		w.cli.Wake()
		if !c06Wait(st, 5*time.Second) || !c06Poll(2*time.Second, func() bool { return w.cli.InChannel() }) {
			c.Fail("harness", "harness:chan", "channel did not start", nil)
			return
		}
		p1 := r.Bytes(64)
		d1, r1, ok1 := w.echoRound(p1)
		if !ok1 || !bytes.Equal(d1, p1) || !bytes.Equal(r1, p1) {
			c.Fail("payload", "chan:before-rekey", fmt.Sprintf("echo inside a channel before any re-key: done=%v delivered=%x result=%x", ok1, d1, r1), hx(p1))
			return
		}
		// force a re-key inside the channel
		before := c2.VerifC06Keys(w.cli)
		w.net.mu.Lock()
		w.net.cur.rekey = true
		w.net.mu.Unlock()
		w.cli.Wake()
		swapped := c06Poll(3*time.Second, func() bool {
			w.net.mu.Lock()
			defer w.net.mu.Unlock()
			return w.net.rolled
		})
		w.net.mu.Lock()
		w.net.cur.rekey = false
		w.net.mu.Unlock()
		swapped = swapped && c06Poll(3*time.Second, func() bool {
			ss := w.serverSession()
			return ss != nil && c2.VerifC06Keys(w.cli).Shared() != before.Shared() && c2.VerifC06Keys(ss).Shared() == c2.VerifC06Keys(w.cli).Shared()
		})
		if !swapped {
			ck := c2.VerifC06Keys(w.cli)
			sk := c2.VerifC06Keys(w.serverSession())
			a, b, o := ck.Shared(), sk.Shared(), before.Shared()
			c.Fail("desync", "chan:rekey-not-agreed", fmt.Sprintf("re-key inside a channel: old %x client %x server %x", o[:8], a[:8], b[:8]), nil)
			return
		}
		c.Count("chan:rekey-in-channel")
		// both Sessions hold the new secret; traffic on the still-open channel:
		p2 := r.Bytes(64)
		d2, r2, ok2 := w.echoRound(p2)
		c.Eval(true, "chan"+hx(p2))
		if !ok2 || !bytes.Equal(d2, p2) || !bytes.Equal(r2, p2) {
			c.Fail("payload", "chan:payload-after-rekey", fmt.Sprintf("both Sessions hold the new secret, but the running channel still uses the conn-local copy: task payload %x delivered as %x, result %x, job done=%v", p2[:8], c06Head(d2), c06Head(r2), ok2), hx(p2))
			c.Count("chan:desync")
		}
	})
}

func c06Head(b []byte) []byte {
	if len(b) > 8 {
		return b[:8]
	}
	return b
}
