package main

// C06 end to end: the real Server, Listener, Connect and client Session goroutines exchange
// packets over an in-memory net.Conn with fault injection.  One exchange at a time: the client's
// Connector blocks until the harness hands it a plan (fault, re-key or not); the harness then
// waits until both ends of that connection are closed before it looks at the keys.

import (
	"bytes"
	"context"
	"encoding/hex"
	"errors"
	"fmt"
	"go/ast"
	"io"
	"net"
	"os"
	"strings"
	"sync"
	"sync/atomic"
	"time"

	"github.com/PurpleSec/logx"
	"github.com/iDigitalFlame/xmt/c2"
	"github.com/iDigitalFlame/xmt/c2/cfg"
	"github.com/iDigitalFlame/xmt/c2/task"
	"github.com/iDigitalFlame/xmt/com"
	"github.com/iDigitalFlame/xmt/data"
	"github.com/iDigitalFlame/xmt/device/local"
)

// ---- in-memory connection ---------------------------------------------------------------------

type c06Half struct {
	mu     sync.Mutex
	cond   *sync.Cond
	buf    []byte
	closed bool
}

func newC06Half() *c06Half { h := &c06Half{}; h.cond = sync.NewCond(&h.mu); return h }

func (h *c06Half) close() {
	h.mu.Lock()
	h.closed = true
	h.cond.Broadcast()
	h.mu.Unlock()
}

var errC06Injected = errors.New("c06: injected connection failure")

type c06Addr struct{}

func (c06Addr) Network() string { return "mem" }
func (c06Addr) String() string  { return "mem" }

// c06Conn is one end. Faults (client end only): failWrite — every Write fails, nothing is
// delivered; failRead — Read waits until the peer has closed its end (the server finished with the
// connection) and then fails, i.e. the reply is lost.
type c06Conn struct {
	in, out   *c06Half
	failWrite bool
	failRead  bool
	onWrite   func()
	wrote     int32
	closed    chan struct{}
	once      sync.Once
}

func (c *c06Conn) Read(b []byte) (int, error) {
	h := c.in
	h.mu.Lock()
	defer h.mu.Unlock()
	if c.failRead {
		for !h.closed {
			h.cond.Wait()
		}
		return 0, errC06Injected
	}
	for len(h.buf) == 0 && !h.closed {
		h.cond.Wait()
	}
	if len(h.buf) == 0 {
		return 0, io.EOF
	}
	n := copy(b, h.buf)
	h.buf = h.buf[n:]
	return n, nil
}
func (c *c06Conn) Write(b []byte) (int, error) {
	if atomic.AddInt32(&c.wrote, 1) == 1 && c.onWrite != nil {
		c.onWrite()
	}
	if c.failWrite {
		return 0, errC06Injected
	}
	h := c.out
	h.mu.Lock()
	defer h.mu.Unlock()
	if h.closed {
		return 0, io.ErrClosedPipe
	}
	h.buf = append(h.buf, b...)
	h.cond.Broadcast()
	return len(b), nil
}
func (c *c06Conn) Close() error {
	c.once.Do(func() {
		c.out.close()
		c.in.close()
		close(c.closed)
	})
	return nil
}
func (c *c06Conn) LocalAddr() net.Addr              { return c06Addr{} }
func (c *c06Conn) RemoteAddr() net.Addr             { return c06Addr{} }
func (c *c06Conn) SetDeadline(time.Time) error      { return nil }
func (c *c06Conn) SetReadDeadline(time.Time) error  { return nil }
func (c *c06Conn) SetWriteDeadline(time.Time) error { return nil }

type c06Plan struct {
	fault int
	rekey bool
	batch bool // queue a packet on the client right after pick() returned the re-key packet
	// started is closed by the connector once the connection pair of this plan is in place
	started chan struct{}
}

// c06Net is Accepter, Connector and net.Listener at once.
type c06Net struct {
	plans  chan c06Plan
	accept chan net.Conn
	done   chan struct{}
	once   sync.Once
	mu     sync.Mutex
	cur    c06Plan
	cli    *c06Conn
	srv    *c06Conn
	client *c2.Session
	next   *data.KeyPair // KeyPair queued by keyNextSync, captured at the first write of the exchange
	rolled bool
}

func newC06Net() *c06Net {
	return &c06Net{plans: make(chan c06Plan, 1), accept: make(chan net.Conn, 4), done: make(chan struct{})}
}
func (n *c06Net) Listen(context.Context, string) (net.Listener, error) { return n, nil }
func (n *c06Net) Accept() (net.Conn, error) {
	select {
	case c := <-n.accept:
		return c, nil
	case <-n.done:
		// not a "closed" error: Listener.listen spins on those until its state says closing
		return nil, c06NetErr{}
	}
}

type c06NetErr struct{}

func (c06NetErr) Error() string   { return "c06: listener shut down" }
func (c06NetErr) Timeout() bool   { return false }
func (c06NetErr) Temporary() bool { return false }

func (n *c06Net) Close() error   { n.once.Do(func() { close(n.done) }); return nil }
func (n *c06Net) Addr() net.Addr { return c06Addr{} }
func (n *c06Net) Connect(x context.Context, _ string) (net.Conn, error) {
	var p c06Plan
	select {
	case p = <-n.plans:
	case <-n.done:
		// world is over: park this client for good (a closed client Session's event thread spins)
		<-x.Done()
		return nil, x.Err()
	case <-x.Done():
		return nil, x.Err()
	}
	a, b := newC06Half(), newC06Half()
	cl := &c06Conn{in: a, out: b, closed: make(chan struct{}), failWrite: p.fault == 1, failRead: p.fault == 2}
	sv := &c06Conn{in: b, out: a, closed: make(chan struct{})}
	cl.onWrite = func() {
		// same goroutine as (*Session).session: next() has run, keysNext is what it queued
		n.mu.Lock()
		if n.client != nil {
			if k, ok := c2.VerifC06KeysNext(n.client); ok {
				n.next = &k
			}
		}
		n.mu.Unlock()
	}
	n.mu.Lock()
	n.cur, n.cli, n.srv, n.next, n.rolled = p, cl, sv, nil, false
	n.mu.Unlock()
	if p.started != nil {
		close(p.started)
	}
	if p.fault == 1 {
		// nothing will ever be delivered: the server only sees the connection go away
		go func() { <-cl.closed }()
	}
	n.accept <- sv
	return cl, nil
}

// ---- echo task ----------------------------------------------------------------------------------

const c06TaskID = 0xC8

var (
	c06EchoMu  sync.Mutex
	c06EchoGot [][]byte
	c06Once    sync.Once
	c06RollNet atomic.Value // *c06Net currently allowed to force a re-key
)

func c06Setup() {
	c06Once.Do(func() {
		task.Mappings[c06TaskID] = func(_ context.Context, r data.Reader, w data.Writer) error {
			b, _ := io.ReadAll(r)
			c06EchoMu.Lock()
			c06EchoGot = append(c06EchoGot, b)
			c06EchoMu.Unlock()
			w.Write(b)
			return nil
		}
		c2.VerifC06Picked = func(s *c2.Session, p *com.Packet) {
			n, _ := c06RollNet.Load().(*c06Net)
			if n == nil || p == nil {
				return
			}
			n.mu.Lock()
			hit := n.client == s && n.cur.batch && n.rolled
			n.mu.Unlock()
			if hit {
				// what the mux goroutine does when a task finishes at this very moment
				r := &com.Packet{ID: c2.RvResult, Job: 4242, Device: local.UUID}
				r.Write([]byte("late result"))
				s.Write(r)
			}
		}
		c2.VerifC06Roll = func(s *c2.Session, k int) uint32 {
			n, _ := c06RollNet.Load().(*c06Net)
			if n == nil {
				return 1
			}
			n.mu.Lock()
			defer n.mu.Unlock()
			if n.client == s && n.cur.rekey {
				n.rolled = true
				return 0
			}
			return 1
		}
	})
}

// ---- one end-to-end world -----------------------------------------------------------------------

type c06World struct {
	c       *Ctx
	net     *c06Net
	srv     *c2.Server
	lis     *c2.Listener
	cli     *c2.Session
	prof    cfg.Static
	keys    c06Keys
	evs     []c06Ev
	out     []string
	srvPub  data.PublicKey
	desync  string
	pending [][]byte // payloads of the echo tasks in jobs
	jobs    []*c2.Job
	sent    map[string]bool // every task payload queued on the server in this world
	echoed  int             // Tasker invocations already checked
	queuedS int             // tasks queued on the server and not yet handed to a connection
	fakes   int
	stats   map[string]int
	log     logx.Log
}

func c06NewWorld(c *Ctx, fillKeys bool) (*c06World, error) {
	c06Setup()
	w := &c06World{c: c, net: newC06Net(), stats: map[string]int{}, sent: map[string]bool{}}
	c06EchoMu.Lock()
	c06EchoGot = nil
	c06EchoMu.Unlock()
	c06RollNet.Store(w.net)
	w.prof = cfg.Static{L: w.net, C: w.net, H: "mem", S: time.Hour, J: 0}
	if os.Getenv("VERIF_C06_DEBUG") != "" {
		w.log = logx.Console(logx.Trace)
	}
	w.srv = c2.NewServer(w.log)
	if fillKeys {
		w.srv.Keys.Fill()
	}
	l, err := w.srv.Listen("c06", "mem", w.prof)
	if err != nil {
		return nil, err
	}
	w.lis = l
	return w, nil
}

func (w *c06World) close() {
	c06RollNet.Store((*c06Net)(nil))
	// the connector parks every later attempt; client Sessions are deliberately not closed
	w.net.Close()
	go w.srv.Close()
}

func c06Wait(ch <-chan struct{}, d time.Duration) bool {
	select {
	case <-ch:
		return true
	case <-time.After(d):
		return false
	}
}

func (w *c06World) waitConn() error {
	w.net.mu.Lock()
	cl, sv := w.net.cli, w.net.srv
	w.net.mu.Unlock()
	if cl == nil {
		return errors.New("no connection was made")
	}
	if !c06Wait(cl.closed, 5*time.Second) {
		return errors.New("client end not closed")
	}
	if !c06Wait(sv.closed, 5*time.Second) {
		return errors.New("server end not closed")
	}
	return nil
}

func (w *c06World) serverSession() *c2.Session { return w.srv.Session(local.UUID) }

func (w *c06World) record(ev c06Ev) {
	w.evs = append(w.evs, ev)
	var ck, sk *data.KeyPair
	pending := false
	if w.cli != nil {
		k := c2.VerifC06Keys(w.cli)
		ck = &k
		_, pending = c2.VerifC06KeysNext(w.cli)
	}
	if s := w.serverSession(); s != nil {
		k := c2.VerifC06Keys(s)
		sk = &k
	}
	w.out = append(w.out, c06State(ck, pending, sk))
	if ck != nil && sk != nil && ck.Shared() != sk.Shared() && w.desync == "" {
		w.desync = "desync:" + c06Classify(w.evs, len(w.evs)-1)
	}
}

func (w *c06World) fakePriv() []byte {
	w.fakes++
	b := make([]byte, data.VerifC06PrivateKeySize)
	b[0], b[1], b[2] = 0xFA, 0xCE, byte(w.fakes)
	return b
}

// connect runs c2.Connect under the given fault.
func (w *c06World) connect(fault int) error {
	w.cli = nil // an earlier client Session (if any) is abandoned: it never gets another connection
	w.net.mu.Lock()
	w.net.client = nil
	w.net.mu.Unlock()
	st := make(chan struct{})
	w.net.plans <- c06Plan{fault: fault, started: st}
	s, err := c2.Connect(w.log, w.prof)
	if !c06Wait(st, 5*time.Second) {
		return errors.New("Connect did not use the connector")
	}
	if e := w.waitConn(); e != nil {
		return e
	}
	w.srvPub = w.srv.Keys.Public
	ev := c06Ev{Kind: "con", Fault: fault, Info: []byte{0}}
	if err == nil {
		w.cli = s
		w.net.mu.Lock()
		w.net.client = s
		w.net.mu.Unlock()
		k := c2.VerifC06Keys(s)
		ev.Data = k.Private[:]
		// own public key: what the server-side Session read from the hello
		if ss := w.serverSession(); ss != nil {
			sk := c2.VerifC06Keys(ss)
			k.Public = sk.Public
		}
		w.keys.add(k)
	} else {
		// the client is gone; the server may have registered it from the hello it received
		var k data.KeyPair
		copy(k.Private[:], w.fakePriv())
		if ss := w.serverSession(); ss != nil && fault == 2 {
			k.Public = c2.VerifC06Keys(ss).Public
		}
		w.keys.add(k)
		ev.Data = k.Private[:]
	}
	if (err == nil) != (fault == 0) {
		key := "connect:unexpected"
		for i := len(w.evs) - 1; i >= 0 && w.evs[i].Kind != "drop"; i-- {
			if w.evs[i].Kind == "con" && w.evs[i].Fault == 2 {
				// the server still holds the Session it created from the hello whose reply was lost
				key = "connect:rejected:after-replyLost-hello"
				break
			}
		}
		w.c.Fail("connect", key, fmt.Sprintf("fault=%d err=%v", fault, err), c06Toks(append(w.evs, ev)))
	}
	w.record(ev)
	return nil
}

// exchange performs one client wake-up → connection → reply round.
func (w *c06World) exchange(rekey, batch bool, taskPayload []byte, fault int) error {
	if w.cli == nil {
		return nil
	}
	ss := w.serverSession()
	hadSession := ss != nil
	before := c2.VerifC06Keys(w.cli)
	if c2.VerifC06QueueLen(w.cli) > 0 {
		rekey = false // a queued packet goes first; keyNextSync is not consulted
	}
	if taskPayload != nil && hadSession {
		n := &com.Packet{ID: c06TaskID}
		n.Write(taskPayload)
		if j, err := ss.Task(n); err == nil {
			w.sent[string(taskPayload)] = true
			w.jobs = append(w.jobs, j)
			w.pending = append(w.pending, taskPayload)
			w.queuedS++
		}
	}
	st := make(chan struct{})
	w.net.plans <- c06Plan{fault: fault, rekey: rekey, batch: batch, started: st}
	w.cli.Wake()
	if !c06Wait(st, 5*time.Second) {
		return errors.New("client did not connect")
	}
	if err := w.waitConn(); err != nil {
		return err
	}
	w.net.mu.Lock()
	rolled, next := w.net.rolled, w.net.next
	w.net.mu.Unlock()
	ev := c06Ev{Kind: "x", Fault: fault, Rekey: rolled, Batched: rolled && batch}
	after := c2.VerifC06Keys(w.cli)
	if rolled {
		if next == nil {
			return errors.New("re-key rolled but no KeyPair was queued")
		}
		w.keys.add(*next)
		ev.Data = next.Private[:]
		w.stats["rekey"]++
	}
	if !hadSession && fault == 0 && before.Private != after.Private && after.Public != w.srvPub {
		// SvRegister: keySessionGenerate drew a fresh pair (own public key still in place)
		w.keys.add(after)
		ev.Fresh = after.Private[:]
		w.stats["reregister"]++
	}
	// tasks handed to this connection: delivered (ok) or gone (reply lost); a failed write leaves
	// them queued on the server
	expect := 0
	if fault != 1 && hadSession {
		if fault == 0 {
			expect = w.queuedS
		}
		w.queuedS = 0
	}
	if expect > 0 {
		// wait for the Taskers to run and their results to be queued on the client
		dl := time.Now().Add(2 * time.Second)
		for {
			c06EchoMu.Lock()
			k := len(c06EchoGot)
			c06EchoMu.Unlock()
			if (k >= w.echoed+expect && c2.VerifC06QueueLen(w.cli) >= expect) || time.Now().After(dl) {
				break
			}
			time.Sleep(50 * time.Microsecond)
		}
	}
	w.checkPayloads(append(w.evs, ev))
	w.record(ev)
	return nil
}

// checkPayloads is the payload half of the property on the real code: whatever a Tasker on the
// client received is a payload the operator queued, and a finished Job carries its own payload back.
func (w *c06World) checkPayloads(evs []c06Ev) {
	c06EchoMu.Lock()
	for ; w.echoed < len(c06EchoGot); w.echoed++ {
		w.stats["task-delivered"]++
		if !w.sent[string(c06EchoGot[w.echoed])] && w.desync == "" {
			w.desync = "payload:" + c06Classify(evs, len(evs)-2)
		}
	}
	c06EchoMu.Unlock()
	for i := 0; i < len(w.jobs); {
		j := w.jobs[i]
		if !j.IsDone() {
			i++
			continue
		}
		var got []byte
		if j.Result != nil {
			got = j.Result.Payload()
		}
		if !bytes.Equal(got, w.pending[i]) && w.desync == "" {
			w.desync = "payload:" + c06Classify(evs, len(evs)-2)
		}
		w.stats["result-checked"]++
		w.jobs = append(w.jobs[:i], w.jobs[i+1:]...)
		w.pending = append(w.pending[:i], w.pending[i+1:]...)
	}
}

func (w *c06World) drop() {
	c2.VerifC06Drop(w.srv, local.UUID)
	w.jobs, w.pending, w.queuedS = nil, nil, 0
	w.record(c06Ev{Kind: "drop"})
}

func (w *c06World) finish(group string) {
	c := w.c
	if len(w.evs) == 0 {
		return
	}
	time.Sleep(2 * time.Millisecond)
	w.checkPayloads(append(w.evs, c06Ev{Kind: "drop"}))
	var srvKeys data.KeyPair = w.srv.Keys
	ks := c06Keys{}
	ks.add(srvKeys)
	for i := range w.keys.priv {
		var k data.KeyPair
		copy(k.Private[:], w.keys.priv[i])
		copy(k.Public[:], w.keys.pub[i])
		ks.add(k)
	}
	pt, dt := ks.tables(true, 0)
	c.Op("hist obs=0 srv="+hex.EncodeToString(srvKeys.Private[:])+" pub="+pt+" dh="+dt+" "+strings.Join(c06Toks(w.evs), " "), strings.Join(w.out, " | "))
	if w.desync != "" {
		c.Fail("desync", w.desync, "client and server disagree (secret or delivered payload)", c06Toks(w.evs))
		c.Count(group + ":desync")
	}
	faulty := false
	for _, e := range w.evs {
		if e.Fault != 0 {
			faulty = true
		}
	}
	c.Eval(faulty || w.stats["rekey"] > 0 || w.stats["reregister"] > 0, strings.Join(c06Toks(w.evs), " "))
	for k, v := range w.stats {
		for i := 0; i < v; i++ {
			c.Count(group + ":" + k)
		}
	}
}

// script: list of steps "c<f>" connect, "d<f>" data exchange, "t<f>" exchange with an echo task,
// "r<f>" re-key exchange, "b<f>" re-key exchange during which a packet is queued on the client right
// after pick() (schedule replay), "x" drop; f in o,w,l.
func (w *c06World) runScript(r *Rng, script []string) error {
	for _, s := range script {
		f := 0
		if len(s) > 1 {
			f = strings.Index("owl", s[1:2])
		}
		var err error
		switch s[0] {
		case 'c':
			err = w.connect(f)
		case 'd':
			err = w.exchange(false, false, nil, f)
		case 't':
			err = w.exchange(false, false, r.Bytes(c06Lens[5+r.Intn(len(c06Lens)-5)]), f)
		case 'r':
			err = w.exchange(true, false, nil, f)
		case 'b':
			err = w.exchange(true, true, nil, f)
		case 'x':
			w.drop()
		}
		if err != nil {
			return fmt.Errorf("step %q: %w", s, err)
		}
	}
	return nil
}

var c06Scripts = [][]string{
	// the two reply-lost witnesses (Lean: replyLost_desync, rehello_replyLost_desync)
	{"co", "to", "do", "rl", "to", "do", "to", "do"},
	{"co", "x", "do", "dl", "to", "do", "ro", "to", "do"},
	// clean histories: re-keys, write failures, re-registration
	{"co", "ro", "to", "do", "ro", "ro", "to", "do"},
	{"co", "rw", "to", "do", "ro", "tw", "do", "to", "do"},
	{"co", "to", "do", "x", "do", "do", "to", "do", "ro", "to", "do"},
	{"co", "x", "dw", "do", "dw", "do", "do", "to", "do"},
	{"cw", "co", "ro", "to", "do"},
	// lost reply to the very first hello, then a new attempt (server still holds a Session)
	{"cl", "co", "to", "do"},
	{"cl", "x", "co", "to", "do", "ro", "to", "do"},
	// reply lost then a write failure: the queued KeyPair is dropped while the server switched
	{"co", "rl", "dw", "to", "do", "ro", "to", "do"},
	// traffic queued between pick() and the queue check of next(): the re-key must still go alone
	{"co", "to", "do", "bo", "do", "to", "do", "ro", "to", "do"},
	{"co", "bo", "bo", "to", "do", "do"},
}

func c06E2E(c *Ctx) {
	run := func(group string, r *Rng, script []string) {
		w, err := c06NewWorld(c, true)
		if err != nil {
			c.Fail("harness", "harness:e2e", err.Error(), script)
			return
		}
		defer w.close()
		if err := w.runScript(r, script); err != nil {
			c.Fail("harness", "harness:e2e", err.Error(), map[string]interface{}{"script": script, "events": c06Toks(w.evs)})
			return
		}
		w.finish(group)
	}
	if d := os.Getenv("VERIF_C06_DEBUG"); d != "" {
		c.Cases("e2edebug", 1, func(r *Rng, i int) { run("e2e", r, strings.Split(d, ",")) })
		return
	}
	c.Cases("e2escript", len(c06Scripts), func(r *Rng, i int) { run("e2e", r, c06Scripts[i]) })
	c.Cases("e2erandom", c.N(200, 2500), func(r *Rng, i int) {
		script := []string{"co"}
		n := 2 + r.Intn(10)
		clean := i%2 == 0 // half of the histories without a lost reply
		for j := 0; j < n; j++ {
			f := "o"
			switch p := r.Intn(100); {
			case p < 12:
				f = "w"
			case p < 22 && !clean:
				f = "l"
			}
			switch p := r.Intn(100); {
			case p < 35:
				script = append(script, "r"+f)
			case p < 60:
				script = append(script, "t"+f)
			case p < 92:
				script = append(script, "d"+f)
			default:
				script = append(script, "x")
			}
		}
		script = append(script, "do", "to", "do")
		run("e2e", r, script)
	})
}

// ---- start-up schedules ---------------------------------------------------------------------

// Threads: S = the Server event loop (one step: generate Server.Keys if empty), L = the Listener
// serving the first hello (two steps: keyListenerInit reads Keys.Private; keyHostSync reads
// Keys.Public).  The three interleavings are replayed on the real goroutines through the yield
// points listen#keys / listen#ready / talk#hostsync.
var c06BootScheds = [][]string{{"S", "L", "L"}, {"L", "S", "L"}, {"L", "L", "S"}}

type c06Gate struct {
	mu      sync.Mutex
	hold    map[string]chan struct{} // point → released when closed
	arrived map[string]chan struct{}
}

func (g *c06Gate) yield(p string) {
	g.mu.Lock()
	a, h := g.arrived[p], g.hold[p]
	if a != nil {
		delete(g.arrived, p)
		close(a)
	}
	g.mu.Unlock()
	if h != nil {
		<-h
	}
}

func c06Boot(c *Ctx) {
	prefill, err := c06Order(os.Getenv("VERIF_REPO")+"/c2/server.go", "ListenContext",
		func(n ast.Node) bool { return c06IsCall(n, "Fill") },
		func(n ast.Node) bool {
			g, ok := n.(*ast.GoStmt)
			return ok && c06IsCall(g.Call, "listen")
		})
	if err != nil {
		c.Fail("harness", "harness:boot", err.Error(), nil)
		return
	}
	c.Cases("boot", len(c06BootScheds)*c.N(2, 20), func(r *Rng, i int) {
		sched := c06BootScheds[i%len(c06BootScheds)]
		name := strings.Join(sched, "")
		g := &c06Gate{hold: map[string]chan struct{}{}, arrived: map[string]chan struct{}{}}
		keysHold, hostHold := make(chan struct{}), make(chan struct{})
		ready, atHost := make(chan struct{}), make(chan struct{})
		g.arrived["listen#ready"], g.arrived["talk#hostsync"] = ready, atHost
		if name != "SLL" {
			g.hold["listen#keys"] = keysHold
		}
		if name == "LSL" {
			g.hold["talk#hostsync"] = hostHold
		}
		c2.VerifC06Yield = g.yield
		defer func() { c2.VerifC06Yield = nil }()
		w, err := c06NewWorld(c, false)
		if err != nil {
			c.Fail("harness", "harness:boot", err.Error(), sched)
			return
		}
		defer w.close()
		type res struct {
			s   *c2.Session
			err error
		}
		done := make(chan res, 1)
		connect := func() {
			w.net.plans <- c06Plan{}
			s, err := c2.Connect(nil, w.prof)
			done <- res{s, err}
		}
		ok := true
		switch name {
		case "SLL":
			ok = c06Wait(ready, 5*time.Second)
			go connect()
		case "LSL":
			go connect()
			ok = c06Wait(atHost, 5*time.Second)
			close(keysHold)
			ok = ok && c06Wait(ready, 5*time.Second)
			close(hostHold)
		case "LLS":
			go connect()
		}
		var rs res
		select {
		case rs = <-done:
		case <-time.After(5 * time.Second):
			ok = false
		}
		if name == "LLS" {
			close(keysHold)
			ok = ok && c06Wait(ready, 5*time.Second)
		}
		if !ok {
			c.Fail("harness", "harness:boot", "schedule could not be replayed (a yield point was not reached)", sched)
			return
		}
		var ks c06Keys
		ks.add(w.srv.Keys)
		ks.add(data.KeyPair{})
		var ck data.KeyPair
		impl := "failed"
		ss := w.serverSession()
		if rs.err == nil {
			w.cli = rs.s
			ck = c2.VerifC06Keys(rs.s)
			if ss != nil {
				sk := c2.VerifC06Keys(ss)
				a, b := ck.Shared(), sk.Shared()
				impl = "c=" + hex.EncodeToString(a[:]) + " s=" + hex.EncodeToString(b[:])
				if a != b {
					c.Fail("startup", "startup:mismatch:"+name, fmt.Sprintf("first registration: client %x server %x", a[:], b[:]), sched)
				}
				ck.Public = sk.Public
			}
		} else {
			copy(ck.Private[:], w.fakePriv())
			if ss != nil {
				ck.Public = c2.VerifC06Keys(ss).Public
			}
			c.Fail("startup", "startup:connect-failed:"+name, "first registration fails: "+rs.err.Error(), sched)
		}
		ks.add(ck)
		pt, dt := ks.tables(true, 0)
		pf := "0"
		if prefill {
			pf = "1"
		}
		c.Op("boot prefill="+pf+" srv="+hex.EncodeToString(ks.priv[0])+" a="+hex.EncodeToString(ck.Private[:])+" pub="+pt+" dh="+dt+" "+strings.Join(sched, " "), impl)
		c.Eval(name != "SLL", "boot"+name+hex.EncodeToString(ck.Private[:]))
		c.Count("boot:" + name)
	})
}
