package main

import (
	"fmt"
	"go/ast"
	"go/parser"
	"go/token"

	"github.com/iDigitalFlame/xmt/data"
)

// Facts for C06: the sizes of the fixed KeyPair arrays (from the compiled package) and two
// syntactic facts about statement order that the model relies on:
//   c06KeysBeforeListen      — in (*Server).ListenContext a `….Keys.Fill()` call precedes
//                              `go s.listen()` (the Server KeyPair exists before a Listener accepts)
//   c06ConnCopyBeforeUpdate  — in (*Listener).talk `l.resolve(` (which copies s.keys into the conn)
//                              precedes the `s.keyCryptAndUpdate(…, true)` call
func init() {
	factProviders = append(factProviders, func(f *factSet, repo string) error {
		f.Nat("c06SharedKeySize", uint64(data.VerifC06SharedKeySize))
		f.Nat("c06PublicKeySize", uint64(data.VerifC06PublicKeySize))
		f.Nat("c06PrivateKeySize", uint64(data.VerifC06PrivateKeySize))
		b1, err := c06Order(repo+"/c2/server.go", "ListenContext",
			func(n ast.Node) bool { return c06IsCall(n, "Fill") },
			func(n ast.Node) bool {
				g, ok := n.(*ast.GoStmt)
				return ok && c06IsCall(g.Call, "listen")
			})
		if err != nil {
			return err
		}
		f.Raw("c06KeysBeforeListen", "Bool", fmt.Sprint(b1))
		b2, err := c06Order(repo+"/c2/listener.go", "talk",
			func(n ast.Node) bool { return c06IsCall(n, "resolve") },
			func(n ast.Node) bool { return c06IsCall(n, "keyCryptAndUpdate") })
		if err != nil {
			return err
		}
		f.Raw("c06ConnCopyBeforeUpdate", "Bool", fmt.Sprint(b2))
		return nil
	})
}

func c06IsCall(n ast.Node, sel string) bool {
	c, ok := n.(*ast.CallExpr)
	if !ok {
		return false
	}
	s, ok := c.Fun.(*ast.SelectorExpr)
	return ok && s.Sel.Name == sel
}

// c06Order reports whether, inside function fn of file, the first node matching a occurs before
// the first node matching b (both must exist for true; b must exist at all).
func c06Order(file, fn string, a, b func(ast.Node) bool) (bool, error) {
	fs := token.NewFileSet()
	pf, err := parser.ParseFile(fs, file, nil, 0)
	if err != nil {
		return false, err
	}
	for _, d := range pf.Decls {
		fd, ok := d.(*ast.FuncDecl)
		if !ok || fd.Name.Name != fn || fd.Body == nil {
			continue
		}
		pa, pb := token.NoPos, token.NoPos
		ast.Inspect(fd.Body, func(n ast.Node) bool {
			if n == nil {
				return true
			}
			if pa == token.NoPos && a(n) {
				pa = n.Pos()
			}
			if pb == token.NoPos && b(n) {
				pb = n.Pos()
			}
			return true
		})
		if pb == token.NoPos {
			return false, fmt.Errorf("c06 facts: %s: anchor not found in %s", file, fn)
		}
		return pa != token.NoPos && pa < pb, nil
	}
	return false, fmt.Errorf("c06 facts: function %s not found in %s", fn, file)
}
