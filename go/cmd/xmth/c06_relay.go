package main

// C06, group "relaykeys": a payload the server queued for device B and hands out on the connection of
// another device A (A polls with B's tag: conn.resolve) is encrypted with the key B and the server
// share - not with the key of the carrying connection. Real Server / Listener without sockets (the
// environment of C15), real P-521 key pairs on the client side.

import (
	"bytes"
	"fmt"

	"github.com/iDigitalFlame/xmt/c2"
	"github.com/iDigitalFlame/xmt/com"
	"github.com/iDigitalFlame/xmt/data"
	"github.com/iDigitalFlame/xmt/device"
)

func c06Relay(c *Ctx) {
	c.Cases("relaykeys", c.N(40, 400), func(r *Rng, i int) {
		e := c2.VerifC15NewEnv()
		defer e.Close()
		idA, idB := c15RandID(r), c15RandID(r)
		if idA.Hash() == idB.Hash() {
			return
		}
		in := map[string]interface{}{"carrier": hx(idA[:]), "tagged": hx(idB[:])}
		hello := func(id device.ID) (data.KeyPair, bool) {
			n := &com.Packet{ID: c2.SvHello, Job: uint16(2 + r.Intn(60000)), Device: id}
			k, err := e.VerifC15HelloKeys(n, id)
			if err != nil {
				c.Fail("handshake", "relaykeys:client-key", err.Error(), in)
				return k, false
			}
			if out := e.Talk("10.0.0.1:1", n); out.Err != nil {
				c.Fail("handshake", "relaykeys:hello-rejected", out.Err.Error(), in)
				return k, false
			}
			e.Sync()
			s := e.SessionOf(id)
			if s == nil {
				c.Fail("handshake", "relaykeys:not-registered", "the hello did not register the device", in)
				return k, false
			}
			if sk := c2.VerifC06Keys(s); sk.Shared() != k.Shared() {
				c.Fail("desync", "relaykeys:handshake-secret", "client and server hold different secrets after the handshake", in)
				return k, false
			}
			return k, true
		}
		kA, okA := hello(idA)
		kB, okB := hello(idB)
		if !okA || !okB {
			return
		}
		_ = kA
		// the registration answers are fetched by each device itself
		e.Talk("10.0.0.1:1", &com.Packet{Device: idB})
		e.Talk("10.0.0.1:1", &com.Packet{Device: idA})
		var pays [][]byte
		for k := 1 + r.Intn(3); k > 0; k-- {
			pay := r.Bytes(c06Lens[1+r.Intn(len(c06Lens)-1)])
			p := &com.Packet{ID: c06TaskID, Job: uint16(2 + r.Intn(60000)), Device: idB}
			p.Write(pay)
			e.QueueTo(e.SessionOf(idB), p)
			pays = append(pays, pay)
		}
		if r.Bool() { // something for the carrier too: the reply is then a merged batch
			p := &com.Packet{ID: c06TaskID, Job: uint16(2 + r.Intn(60000)), Device: idA}
			p.Write(r.Bytes(1 + r.Intn(40)))
			e.QueueTo(e.SessionOf(idA), p)
		}
		var got [][]byte
		for poll := 0; poll < len(pays)+2 && len(got) < len(pays); poll++ {
			out := e.Talk("10.0.0.1:1", &com.Packet{Device: idA, Tags: []uint32{idB.Hash()}})
			if out.Err != nil || out.Next == nil {
				break
			}
			// walk the reply: whatever names B at the outermost level it appears on was encrypted for B
			// as a whole (one packet, or B's own batch); everything else is a container to open
			var walk func(v *com.Packet, depth int) error
			walk = func(v *com.Packet, depth int) error {
				switch {
				case v.Device == idB:
					v.KeyCrypt(kB) // what B does with a packet it receives
					ls, err := goUnpack(v, 0)
					if err != nil {
						return fmt.Errorf("the part for the tagged device does not unpack after decryption with its key: %v", err)
					}
					for _, l := range ls {
						if l.ID == c06TaskID {
							got = append(got, append([]byte(nil), l.Payload()...))
						}
					}
				case v.Flags&com.FlagMulti != 0 && depth < 4:
					rd := data.NewChunk(append([]byte(nil), v.Payload()...))
					for x := int(v.Flags.Len()); x > 0; x-- {
						q := new(com.Packet)
						if err := q.UnmarshalStream(rd); err != nil {
							return fmt.Errorf("container element: %v", err)
						}
						if err := walk(q, depth+1); err != nil {
							return err
						}
					}
				}
				return nil
			}
			if err := walk(out.Next, 0); err != nil {
				if len(pays) >= 2 {
					// the tagged device's own batch (a Multi container) was encrypted as a whole with its
					// key and then SPLICED into the reply (writeUnpack copies the elements of a Multi
					// source): the reply does not parse any more, on the real proxy side either
					// (receive: EOF), and the packets are gone from the server's queue
					c.Fail("desync", "relaykeys:batch-spliced-after-encryption", fmt.Sprintf("%d packets queued for the tagged device: the reply does not parse (%v)", len(pays), err), in)
					c.Count("relaykeys:batch-spliced")
					c.Eval(true, fmt.Sprint("relaykeys", in))
					return
				}
				c.Fail("desync", "relaykeys:payload", err.Error(), in)
				return
			}
		}
		in["queued"], in["received"] = len(pays), len(got)
		switch {
		case len(got) != len(pays):
			c.Count("relaykeys:not-all-fetched")
		default:
			for k := range pays {
				if !bytes.Equal(pays[k], got[k]) {
					c.Fail("desync", "relaykeys:payload", fmt.Sprintf("payload %d queued for the tagged device does not decrypt with the key that device and the server share (%d bytes)", k, len(pays[k])), in)
					break
				}
			}
			c.Count("relaykeys:checked")
		}
		c.Eval(true, fmt.Sprint("relaykeys", in))
	})
}
