package main

// C06, extension "per-connection key handling" (conn.keys, Listener.resolve, handle, channels, the
// copy of the secret into the fixed array). Groups:
//   s3resolve  the real (*Listener).resolve on a real Server/Listener (no socket): which KeyPair the
//              conn carries, with and without Tags; op `resolve` (model: Keys.listenerResolve)
//   s3poll     scripted polls (data / re-key, with and without Tags) through the real handle() over an
//              in-memory connection: which key (by fingerprint) decrypted the request and encrypted
//              the reply; op `polls` (model: Keys.pollUses + Keys.xchgStep)
//   s3chan     a channel on the real handle() → (*conn).start → channelRead / channelWrite with a
//              scripted client: which key each packet was encrypted / decrypted with; op `chan`
//              (model: Keys.chanOpen / chanStep)
//   s3share    real KeyPair.Sync / FillPrivate with secrets SHORTER than the array (searched for: a
//              leading zero byte), from equal and from different previous contents; op `fill2`
// Facts: c06ResolveConnKeys, c06ConnStartRefresh.

import (
	"bytes"
	"encoding/hex"
	"fmt"
	"go/ast"
	"go/parser"
	"go/printer"
	"go/token"
	"strings"
	"sync"
	"time"

	"github.com/iDigitalFlame/xmt/c2"
	"github.com/iDigitalFlame/xmt/com"
	"github.com/iDigitalFlame/xmt/data"
	"github.com/iDigitalFlame/xmt/device"
)

func init() {
	factProviders = append(factProviders, func(f *factSet, repo string) error {
		// c06ResolveConnKeys: for every composite literal of type conn in (*Listener).resolve, the
		// source text of its `keys:` field ("-" when the literal has none); a later assignment
		// `<x>.keys = <e>` in that function is listed as "=<e>".
		fs := token.NewFileSet()
		pf, err := parser.ParseFile(fs, repo+"/c2/listener.go", nil, 0)
		if err != nil {
			return err
		}
		src := func(n ast.Node) string {
			var b bytes.Buffer
			printer.Fprint(&b, fs, n)
			return b.String()
		}
		var lits []string
		found := false
		for _, d := range pf.Decls {
			fd, ok := d.(*ast.FuncDecl)
			if !ok || fd.Name.Name != "resolve" || fd.Recv == nil || fd.Body == nil {
				continue
			}
			found = true
			ast.Inspect(fd.Body, func(n ast.Node) bool {
				switch v := n.(type) {
				case *ast.CompositeLit:
					if id, ok := v.Type.(*ast.Ident); ok && id.Name == "conn" {
						k := "-"
						for _, e := range v.Elts {
							if kv, ok := e.(*ast.KeyValueExpr); ok {
								if ki, ok := kv.Key.(*ast.Ident); ok && ki.Name == "keys" {
									k = src(kv.Value)
								}
							}
						}
						lits = append(lits, k)
					}
				case *ast.AssignStmt:
					for i, l := range v.Lhs {
						if s, ok := l.(*ast.SelectorExpr); ok && s.Sel.Name == "keys" && i < len(v.Rhs) {
							lits = append(lits, "="+src(v.Rhs[i]))
						}
					}
				}
				return true
			})
		}
		if !found {
			return fmt.Errorf("c2/listener.go: (*Listener).resolve not found")
		}
		q := make([]string, len(lits))
		for i := range lits {
			q[i] = fmt.Sprintf("%q", lits[i])
		}
		f.Raw("c06ResolveConnKeys", "List String", "["+strings.Join(q, ", ")+"]")
		// c06ConnStartRefresh: handle or (*conn).start assign a `keys` field (the conn's copy would be
		// renewed before the channel runs)
		pc, err := parser.ParseFile(fs, repo+"/c2/channel.go", nil, 0)
		if err != nil {
			return err
		}
		refresh, seen := false, 0
		for _, d := range pc.Decls {
			fd, ok := d.(*ast.FuncDecl)
			if !ok || fd.Body == nil || (fd.Name.Name != "handle" && fd.Name.Name != "start") {
				continue
			}
			seen++
			ast.Inspect(fd.Body, func(n ast.Node) bool {
				if a, ok := n.(*ast.AssignStmt); ok {
					for _, l := range a.Lhs {
						if s, ok := l.(*ast.SelectorExpr); ok && s.Sel.Name == "keys" {
							refresh = true
						}
					}
				}
				return true
			})
		}
		if seen < 2 {
			return fmt.Errorf("c2/channel.go: handle / (*conn).start not found")
		}
		f.Raw("c06ConnStartRefresh", "Bool", fmt.Sprint(refresh))
		return nil
	})
}

func c06S3(c *Ctx, on func(string) bool) {
	if on("s3resolve") {
		c06S3Resolve(c)
	}
	if on("s3poll") {
		c06S3Poll(c)
	}
	if on("s3chan") {
		c06S3Chan(c)
	}
	if on("s3share") {
		c06S3Share(c)
	}
}

// ---- helpers -------------------------------------------------------------------------------------

func c06Share(k data.KeyPair) []byte { s := k.Shared(); return append([]byte(nil), s[:]...) }

func c06Fp(b []byte) string {
	if len(b) > 4 {
		b = b[:4]
	}
	return hex.EncodeToString(b)
}

func c06XorB(v, k []byte) []byte {
	o := append([]byte(nil), v...)
	if len(k) == 0 {
		return o
	}
	for i := range o {
		o[i] ^= k[i%len(k)]
	}
	return o
}

// c06Which returns the candidate key k with xor(wire, k) == plain ("?" when none or several match).
func c06Which(wire, plain []byte, cands [][]byte) []byte {
	var hit []byte
	n := 0
	for _, k := range cands {
		if bytes.Equal(c06XorB(wire, k), plain) {
			dup := false
			if hit != nil && bytes.Equal(hit, k) {
				dup = true
			}
			if !dup {
				hit = k
				n++
			}
		}
	}
	if n != 1 {
		return nil
	}
	return hit
}

func c06FpOr(b []byte) string {
	if b == nil {
		return "?"
	}
	return c06Fp(b)
}

func c06TagTok(t []uint32) string {
	if len(t) == 0 {
		return "-"
	}
	s := make([]string, len(t))
	for i := range t {
		s[i] = fmt.Sprint(t[i])
	}
	return strings.Join(s, ",")
}

// c06S3Client is the scripted client of one device: a real KeyPair driven the way
// (*Session).session / channelWrite / keyCheckSync drive it.
type c06S3Client struct {
	id   device.ID
	keys data.KeyPair
	next *data.KeyPair
	env  *c2.VerifC15Env
	mu   sync.Mutex
	seen [][]byte // payloads the server-side handler was given
}

func c06MemPair() (*c06Conn, *c06Conn) {
	a, b := newC06Half(), newC06Half()
	return &c06Conn{in: a, out: b, closed: make(chan struct{})}, &c06Conn{in: b, out: a, closed: make(chan struct{})}
}

// register: hello through the real handle(); the SvComplete reply carries the server public key.
func c06S3Register(c *Ctx, e *c2.VerifC15Env, id device.ID) (*c06S3Client, bool) {
	cl := &c06S3Client{id: id, env: e}
	n := &com.Packet{ID: c2.SvHello, Job: 7, Device: id}
	// what connectContextInner does: device info, keySessionGenerate; the pair with the server's
	// public key filled in is what keySessionSync leaves
	k, err := e.VerifC15HelloKeys(n, id)
	if err != nil {
		c.Fail("handshake", "s3:client-key", err.Error(), nil)
		return nil, false
	}
	cc, sc := c06MemPair()
	if err := c2.VerifC06S3Write(cc, n); err != nil {
		c.Fail("harness", "harness:s3", err.Error(), nil)
		return nil, false
	}
	e.VerifC06S3Handle(sc)
	r, err := c2.VerifC06S3Read(cc)
	if err != nil || r.ID != c2.SvComplete {
		c.Fail("handshake", "s3:hello-rejected", fmt.Sprint("hello through handle(): ", err), nil)
		return nil, false
	}
	cl.keys = k
	e.Sync()
	s := e.SessionOf(id)
	if s == nil {
		c.Fail("handshake", "s3:not-registered", "hello did not register the device", nil)
		return nil, false
	}
	if sk := c2.VerifC06Keys(s); sk.Shared() != k.Shared() {
		c.Fail("desync", "s3:handshake-secret", "different secrets after the handshake", nil)
		return nil, false
	}
	e.VerifC06S3OnReceive(id, func(p *com.Packet) {
		cl.mu.Lock()
		cl.seen = append(cl.seen, append([]byte(nil), data.VerifC06Buf(&p.Chunk)...))
		cl.mu.Unlock()
	})
	return cl, true
}

func (cl *c06S3Client) takeSeen() [][]byte {
	cl.env.Sync()
	cl.mu.Lock()
	s := cl.seen
	cl.seen = nil
	cl.mu.Unlock()
	return s
}

// packet builds the next client packet: data (payload) or a re-key announcement (keyNextSync).
func (cl *c06S3Client) packet(rekey bool, payload []byte, tags []uint32, flags com.Flag) (*com.Packet, []byte) {
	n := &com.Packet{Device: cl.id, Tags: tags, Flags: flags}
	if rekey {
		var v data.KeyPair
		v.Fill()
		n.Flags |= com.FlagCrypt
		v.Write(n)
		cl.next = &v
	} else {
		n.ID, n.Job = c06TaskID, 9
		n.Write(payload)
	}
	plain := append([]byte(nil), data.VerifC06Buf(&n.Chunk)...)
	n.KeyCrypt(cl.keys)
	return n, plain
}

// swap is keyCheckSync; it returns the secret that was copied (for the model) when a pair was pending.
func (cl *c06S3Client) swap() {
	if cl.next == nil {
		return
	}
	v := cl.next
	cl.next = nil
	cl.keys.FillPrivate(v.Private)
}

// ---- s3resolve -----------------------------------------------------------------------------------

func c06S3Resolve(c *Ctx) {
	c.Cases("s3resolve", c.N(40, 200), func(r *Rng, i int) {
		e := c2.VerifC15NewEnv()
		defer e.Close()
		ids := []device.ID{c15RandID(r), c15RandID(r), c15RandID(r)}
		if ids[0].Hash() == ids[1].Hash() || ids[0].Hash() == ids[2].Hash() || ids[1].Hash() == ids[2].Hash() {
			return
		}
		var cls []*c06S3Client
		for _, id := range ids {
			cl, ok := c06S3Register(c, e, id)
			if !ok {
				return
			}
			cls = append(cls, cl)
		}
		queued := make([][]byte, 3)
		for k := 1; k < 3; k++ {
			if r.Chance(70) {
				queued[k] = r.Bytes(c06Lens[1+r.Intn(len(c06Lens)-1)])
				p := &com.Packet{ID: c06TaskID, Job: uint16(2 + r.Intn(60000)), Device: ids[k]}
				p.Write(queued[k])
				e.QueueTo(e.SessionOf(ids[k]), p)
			}
		}
		hA, hB, hC := ids[0].Hash(), ids[1].Hash(), ids[2].Hash()
		unk := hA ^ hB ^ hC ^ 0x5A5A
		if unk == 0 || unk == hA || unk == hB || unk == hC {
			unk = 1
			for unk == hA || unk == hB || unk == hC {
				unk++
			}
		}
		pats := [][]uint32{nil, {hB}, {hB, hC}, {hB, hB}, {unk}, {hA}, {0}, {hB, 0}, {unk, hC}, {hC, unk, hB, hC}, {unk, unk + 1}}
		tags := pats[(i+r.Intn(2))%len(pats)]
		in := map[string]interface{}{"tags": c06TagTok(tags), "host": hx(ids[0][:])}
		var hosts []string
		for k := range ids {
			q := "!"
			if queued[k] != nil {
				q = hx(queued[k])
			}
			hosts = append(hosts, fmt.Sprintf("%d:%s:%s", ids[k].Hash(), hex.EncodeToString(c06Share(cls[k].keys)), q))
		}
		o := e.VerifC06S3Resolve(ids[0], tags)
		if o.NoSession || o.Nil {
			c.Fail("harness", "harness:s3resolve", "no conn", in)
			return
		}
		live := c06Share(o.Live)
		// the property, directly: the conn carries the Session's key on every path
		if !bytes.Equal(c06Share(o.Keys), live) || o.Keys.Public != o.Live.Public {
			c.Fail("desync", "resolve:conn-keys", fmt.Sprintf("the conn built by Listener.resolve (tags %s) does not carry the Session's KeyPair: conn %s session %s", c06TagTok(tags), c06Fp(c06Share(o.Keys)), c06Fp(live)), in)
		}
		if o.HostNil || o.HostID != ids[0] {
			c.Fail("desync", "resolve:conn-host", "the conn does not name the Session as its host", in)
		}
		var add, subs []string
		for _, p := range o.Add {
			buf := data.VerifC06Buf(&p.Chunk)
			add = append(add, fmt.Sprintf("%d:%s", p.Device.Hash(), hx(buf)))
			for k := 1; k < 3; k++ {
				if p.Device == ids[k] && !bytes.Equal(c06XorB(buf, c06Share(cls[k].keys)), queued[k]) {
					c.Fail("desync", "resolve:add-key", "a packet collected for a tagged device does not decrypt with that device's key", in)
				}
			}
		}
		seen := map[uint32]bool{}
		for _, t := range tags {
			if !seen[t] && o.Subs[t] {
				subs = append(subs, fmt.Sprint(t))
			}
			seen[t] = true
		}
		okTok := "1"
		if o.Err != nil {
			okTok = "0"
		}
		dash := func(s []string) string {
			if len(s) == 0 {
				return "-"
			}
			return strings.Join(s, ",")
		}
		c.Op(fmt.Sprintf("resolve host=%d tags=%s hosts=%s", hA, c06TagTok(tags), strings.Join(hosts, ",")),
			fmt.Sprintf("ok=%s keys=%s add=%s subs=%s", okTok, hex.EncodeToString(c06Share(o.Keys)), dash(add), dash(subs)))
		c.Eval(len(tags) > 0, "s3resolve"+c06TagTok(tags)+hosts[0])
		switch {
		case len(tags) == 0:
			c.Count("s3resolve:no-tags")
		case o.Err != nil:
			c.Count("s3resolve:tag-error")
		case len(o.Add) > 0:
			c.Count("s3resolve:tags-with-packets")
		default:
			c.Count("s3resolve:tags-nothing-queued")
		}
	})
}

// ---- s3poll --------------------------------------------------------------------------------------

// poll sends one packet through the real handle() and returns the reply (nil: connection closed
// without one).
func (cl *c06S3Client) poll(n *com.Packet) (*com.Packet, error) {
	cc, sc := c06MemPair()
	if err := c2.VerifC06S3Write(cc, n); err != nil {
		return nil, err
	}
	cl.env.VerifC06S3Handle(sc)
	r, err := c2.VerifC06S3Read(cc)
	if err != nil {
		return nil, nil
	}
	return r, nil
}

func c06S3Poll(c *Ctx) {
	c.Cases("s3poll", c.N(30, 150), func(r *Rng, i int) {
		e := c2.VerifC15NewEnv()
		defer e.Close()
		id := c15RandID(r)
		cl, ok := c06S3Register(c, e, id)
		if !ok {
			return
		}
		share0 := c06Share(cl.keys)
		var toks, out []string
		var in []string
		rekeys, tagged := 0, 0
		n := 2 + r.Intn(5)
		for j := 0; j < n; j++ {
			var tags []uint32
			switch r.Intn(4) {
			case 0:
				tags = []uint32{0x7001 + uint32(r.Intn(50))}
			case 1:
				tags = []uint32{0x7001 + uint32(r.Intn(50)), 0x9001}
			}
			rekey := r.Chance(40)
			// a zero tag cannot be put on the wire (Packet.Marshal refuses it): the failing arm of
			// resolve is exercised directly in group s3resolve
			zero := false
			if len(tags) > 0 {
				tagged++
			}
			reply := r.Bytes(65 + r.Intn(70))
			payload := r.Bytes(65 + r.Intn(70))
			q := &com.Packet{ID: c06TaskID, Job: uint16(2 + r.Intn(60000)), Device: id}
			q.Write(reply)
			ss := e.SessionOf(id)
			if !zero {
				e.QueueTo(ss, q)
			}
			old := c06Share(cl.keys)
			p, plain := cl.packet(rekey, payload, tags, 0)
			wire := append([]byte(nil), data.VerifC06Buf(&p.Chunk)...)
			var newShare, secret []byte
			if rekey {
				rekeys++
				nk := cl.keys
				nk.FillPrivate(cl.next.Private)
				newShare = c06Share(nk)
				secret, _ = c06Secret(cl.next.Private[:], cl.keys.Public[:])
			}
			cands := [][]byte{make([]byte, len(old)), old}
			if newShare != nil && !bytes.Equal(newShare, old) {
				cands = append(cands, newShare)
			}
			rp, err := cl.poll(p)
			if err != nil {
				c.Fail("harness", "harness:s3poll", err.Error(), nil)
				return
			}
			step := ""
			if rekey {
				step = "R:" + c06TagTok(tags) + ":" + hx(secret) + ":" + hx(reply)
			} else {
				step = "D:" + c06TagTok(tags) + ":" + hx(payload) + ":" + hx(reply)
			}
			toks = append(toks, step)
			in = append(in, step)
			if rp == nil {
				// resolve failed (zero tag): nothing decrypted, no reply; the scripted client keeps its state
				cl.takeSeen()
				sk := c2.VerifC06Keys(e.SessionOf(id))
				out = append(out, fmt.Sprintf("c=%s s=%s closed", c06Fp(c06Share(cl.keys)), c06Fp(c06Share(sk))))
				if !zero {
					c.Fail("desync", "poll:no-reply", "a poll of a registered client got no reply", in)
					return
				}
				continue
			}
			line := ""
			if !rekey {
				seen := cl.takeSeen()
				var dec []byte
				if len(seen) == 1 {
					dec = c06Which(wire, seen[0], cands)
				}
				okq := len(seen) == 1 && bytes.Equal(seen[0], plain)
				line += fmt.Sprintf(" rq=%s/%s/%d", c06Fp(old), c06FpOr(dec), b2i(okq))
				if !okq {
					c.Fail("payload", "poll:request-key", fmt.Sprintf("the server-side handler did not get the payload the client encrypted (tags %s)", c06TagTok(tags)), in)
				}
			}
			// the reply: which key did the server encrypt it with; the client decrypts BEFORE keyCheckSync
			rwire := append([]byte(nil), data.VerifC06Buf(&rp.Chunk)...)
			enc := c06Which(rwire, reply, cands)
			rp.KeyCrypt(cl.keys)
			got := data.VerifC06Buf(&rp.Chunk)
			okp := bytes.Equal(got, reply)
			line += fmt.Sprintf(" rp=%s/%s/%d", c06FpOr(enc), c06Fp(old), b2i(okp))
			if !okp {
				what := "poll:reply-key"
				if rekey {
					what = "poll:reply-key:rekey"
				}
				c.Fail("payload", what, fmt.Sprintf("the reply does not decrypt with the client's key (tags %s, re-key %v): encrypted with %s, client key %s", c06TagTok(tags), rekey, c06FpOr(enc), c06Fp(old)), in)
			}
			cl.swap()
			sk := c2.VerifC06Keys(e.SessionOf(id))
			if sk.Shared() != cl.keys.Shared() {
				c.Fail("desync", "poll:secret", "different secrets after a completed poll", in)
			}
			out = append(out, fmt.Sprintf("c=%s s=%s%s", c06Fp(c06Share(cl.keys)), c06Fp(c06Share(sk)), line))
		}
		c.Op("polls share="+hex.EncodeToString(share0)+" "+strings.Join(toks, " "), strings.Join(out, " | "))
		c.Eval(rekeys > 0 || tagged > 0, "s3poll"+strings.Join(toks, " "))
		if rekeys > 0 {
			c.Count("s3poll:with-rekey")
		}
		if tagged > 0 {
			c.Count("s3poll:with-tags")
		}
	})
}

// ---- s3chan --------------------------------------------------------------------------------------

var c06ChanScripts = [][]string{
	// opened by a data poll; no re-key
	{"oD", "sS", "cr", "cD", "sr", "cD", "cD", "sr", "sr", "sS", "sS", "cr", "cr"},
	// re-key inside the channel (known finding chan:payload-after-rekey)
	{"oD", "sS", "cr", "cR", "sr", "sS", "cr", "cD", "sr"},
	// a server packet in flight while the client swaps
	{"oD", "sS", "cR", "cr", "sr"},
	// opened BY the re-key poll (known finding chan:opened-by-rekey)
	{"oR", "sS", "cr", "cD", "sr"},
	{"oD", "cD", "sr", "sS", "cr", "cR", "sr", "cD", "sr", "sS", "cr"},
}

func c06S3Chan(c *Ctx) {
	c.Cases("s3chan", c.N(len(c06ChanScripts), 8*len(c06ChanScripts)), func(r *Rng, i int) {
		script := c06ChanScripts[i%len(c06ChanScripts)]
		e := c2.VerifC15NewEnv()
		defer e.Close()
		id := c15RandID(r)
		cl, ok := c06S3Register(c, e, id)
		if !ok {
			return
		}
		ss := e.SessionOf(id)
		share0 := c06Share(cl.keys)
		cands := [][]byte{make([]byte, len(share0)), share0}
		addCand := func(k []byte) {
			for _, x := range cands {
				if bytes.Equal(x, k) {
					return
				}
			}
			cands = append(cands, k)
		}
		type flight struct {
			rekey            bool
			wire, plain, enc []byte
			newShare         []byte
		}
		var c2s []flight
		var seenQ [][]byte // payloads the server-side handler was given, in order, not yet matched
		var s2cPlain [][]byte // payloads written by the server side and not yet read by the client
		var toks, uses []string
		var cc, sc *c06Conn
		done := make(chan struct{})
		defer func() {
			if cc != nil {
				cc.Close()
				sc.Close()
				c06Wait(done, 3*time.Second)
			}
		}()
		rekeyInside, openedByRekey, bad := false, false, ""
		fail := func(k, d string) {
			if bad == "" {
				bad = k + "|" + d
			}
		}
		var pendingSecret []byte
		send := func(rekey bool, flags com.Flag) (*com.Packet, flight) {
			payload := r.Bytes(65 + r.Intn(40))
			p, plain := cl.packet(rekey, payload, nil, flags)
			f := flight{rekey: rekey, wire: append([]byte(nil), data.VerifC06Buf(&p.Chunk)...), plain: plain, enc: c06Share(cl.keys)}
			if rekey {
				nk := cl.keys
				nk.FillPrivate(cl.next.Private)
				f.newShare = c06Share(nk)
				addCand(f.newShare)
				pendingSecret, _ = c06Secret(cl.next.Private[:], cl.keys.Public[:])
			}
			return p, f
		}
		for _, st := range script {
			switch st {
			case "oD", "oR":
				// the opening poll: a packet with the Channel flag; handle() serves it like a poll
				// and then runs the channel on the same conn
				rekey := st == "oR"
				openedByRekey = rekey
				cc, sc = c06MemPair()
				p, f := send(rekey, com.FlagChannel)
				if err := c2.VerifC06S3Write(cc, p); err != nil {
					c.Fail("harness", "harness:s3chan", err.Error(), nil)
					return
				}
				go func() { defer close(done); e.VerifC06S3Handle(sc) }()
				rp, err := c2.VerifC06S3Read(cc)
				if err != nil {
					c.Fail("harness", "harness:s3chan", fmt.Sprint("no reply to the opening poll: ", err), nil)
					return
				}
				rp.KeyCrypt(cl.keys)
				cl.swap()
				if !c06Poll(3*time.Second, func() bool { return c2.VerifC06S3InChannel(ss) }) {
					c.Fail("harness", "harness:s3chan", "channel did not start", nil)
					return
				}
				if rekey {
					toks = append(toks, "oR:"+hx(pendingSecret))
				} else {
					cl.takeSeen()
					toks = append(toks, "oD:"+hx(f.plain))
				}
			case "cD", "cR":
				rekey := st == "cR"
				p, f := send(rekey, 0)
				if err := c2.VerifC06S3Write(cc, p); err != nil {
					c.Fail("harness", "harness:s3chan", err.Error(), nil)
					return
				}
				cl.swap() // keyCheckSync after every write
				c2s = append(c2s, f)
				if rekey {
					rekeyInside = true
					toks = append(toks, "cR:"+hx(pendingSecret))
				} else {
					toks = append(toks, "cD:"+hx(f.plain))
				}
			case "sr":
				if len(c2s) == 0 {
					continue
				}
				f := c2s[0]
				c2s = c2s[1:]
				toks = append(toks, "sr")
				if f.rekey {
					// no handler call; the effect is observable: the Session's secret
					okk := c06Poll(2*time.Second, func() bool { return bytes.Equal(c06Share(c2.VerifC06Keys(ss)), f.newShare) })
					if okk {
						uses = append(uses, fmt.Sprintf("S:%s/%s/1", c06Fp(f.enc), c06Fp(f.enc)))
					} else {
						uses = append(uses, fmt.Sprintf("S:%s/?/0", c06Fp(f.enc)))
						fail("announce", "a re-key announcement inside the channel did not move the server Session to the new secret")
					}
					continue
				}
				c06Poll(2*time.Second, func() bool { seenQ = append(seenQ, cl.takeSeen()...); return len(seenQ) > 0 })
				if len(seenQ) == 0 {
					uses = append(uses, fmt.Sprintf("S:%s/?/0", c06Fp(f.enc)))
					fail("c2s", "a client packet did not reach the server-side handler")
					continue
				}
				seen := seenQ[:1]
				seenQ = seenQ[1:]
				dec := c06Which(f.wire, seen[0], cands)
				okk := bytes.Equal(seen[0], f.plain)
				uses = append(uses, fmt.Sprintf("S:%s/%s/%d", c06Fp(f.enc), c06FpOr(dec), b2i(okk)))
				if !okk {
					fail("c2s", fmt.Sprintf("client payload encrypted with %s reached the handler decrypted with %s", c06Fp(f.enc), c06FpOr(dec)))
				}
			case "sS":
				pay := r.Bytes(65 + r.Intn(40))
				q := &com.Packet{ID: c06TaskID, Job: uint16(2 + r.Intn(60000)), Device: id}
				q.Write(pay)
				before := len(cc.in.snapshot())
				e.QueueTo(ss, q)
				// wait until the server's channelWrite has put it on the wire (it is encrypted by then)
				if !c06Poll(2*time.Second, func() bool { return len(cc.in.snapshot()) > before }) {
					c.Fail("harness", "harness:s3chan", "the server did not write a queued packet", nil)
					return
				}
				time.Sleep(2 * time.Millisecond)
				toks = append(toks, "sS:"+hx(pay))
				s2cPlain = append(s2cPlain, pay)
			case "cr":
				if len(s2cPlain) == 0 {
					continue
				}
				pay := s2cPlain[0]
				s2cPlain = s2cPlain[1:]
				rp, err := c2.VerifC06S3Read(cc)
				toks = append(toks, "cr")
				if err != nil {
					uses = append(uses, "C:?/?/0")
					fail("s2c", "a server packet could not be read: "+err.Error())
					continue
				}
				w := append([]byte(nil), data.VerifC06Buf(&rp.Chunk)...)
				enc := c06Which(w, pay, cands)
				rp.KeyCrypt(cl.keys)
				okk := bytes.Equal(data.VerifC06Buf(&rp.Chunk), pay)
				uses = append(uses, fmt.Sprintf("C:%s/%s/%d", c06FpOr(enc), c06Fp(c06Share(cl.keys)), b2i(okk)))
				if !okk {
					fail("s2c", fmt.Sprintf("server payload encrypted with %s, client decrypts with %s", c06FpOr(enc), c06Fp(c06Share(cl.keys))))
				}
			}
		}
		sess := b2i(bytes.Equal(c06Share(c2.VerifC06Keys(ss)), c06Share(cl.keys)))
		res := fmt.Sprintf("sess=%d", sess)
		if len(uses) > 0 {
			res += " " + strings.Join(uses, " ")
		}
		c.Op("chan share="+hex.EncodeToString(share0)+" "+strings.Join(toks, " "), res)
		c.Eval(true, "s3chan"+strings.Join(toks, " "))
		if bad != "" {
			key := "chan:payload-no-rekey"
			switch {
			case openedByRekey:
				key = "chan:opened-by-rekey"
			case rekeyInside:
				key = "chan:payload-after-rekey"
			}
			c.Fail("payload", key, strings.SplitN(bad, "|", 2)[1], toks)
			c.Count("s3chan:desync")
		} else {
			c.Count("s3chan:all-agree")
		}
	})
}

func (h *c06Half) snapshot() []byte {
	h.mu.Lock()
	defer h.mu.Unlock()
	return h.buf
}

// ---- s3share -------------------------------------------------------------------------------------

func c06S3Share(c *Ctx) {
	c.Cases("s3share", c.N(6, 30), func(r *Rng, i int) {
		// search for a pair whose secret is SHORTER than the array (leading zero byte: 1 in 512)
		var ks, kc data.KeyPair
		ks.Fill()
		var sec []byte
		for tries := 0; tries < 6000; tries++ {
			kc.Fill()
			s, ok := c06Secret(kc.Private[:], ks.Public[:])
			if ok && len(s) < data.VerifC06SharedKeySize {
				sec = s
				break
			}
		}
		if sec == nil {
			c.Count("s3share:none-found")
			return
		}
		c.Count(fmt.Sprintf("s3share:secret-%d-bytes", len(sec)))
		prevA := r.Bytes(data.VerifC06SharedKeySize)
		prevB := append([]byte(nil), prevA...)
		switch i % 3 {
		case 1: // differ only inside the part the secret overwrites
			prevB[r.Intn(len(sec))] ^= 0x41
		case 2: // differ in the stale tail
			prevB[len(sec)+r.Intn(len(prevB)-len(sec))] ^= 0x41
		}
		in := map[string]string{"clientPriv": hx(kc.Private[:]), "serverPub": hx(ks.Public[:]), "prevA": hx(prevA), "prevB": hx(prevB)}
		// client side: Read(server public) + Sync (derive in place over prevA)
		cl := kc
		data.VerifC06SetShare(&cl, prevA)
		cl.Public = ks.Public
		e1 := cl.Sync()
		// server side: Read(client public) + FillPrivate(server private) over prevB
		sv := data.KeyPair{}
		data.VerifC06SetShare(&sv, prevB)
		sv.Public = kc.Public
		e2 := sv.FillPrivate(ks.Private)
		a, b := c06Share(cl), c06Share(sv)
		c.Op("fill2 "+hx(prevA)+" "+hx(prevB)+" "+hx(sec), fmt.Sprintf("%s %s eq=%d a=%s b=%s", errTok(e1), errTok(e2), b2i(bytes.Equal(a, b)), hx(a), hx(b)))
		if e1 != nil || e2 != nil {
			c.Fail("handshake", "handshake:error", fmt.Sprintf("honest keys failed: %v / %v", e1, e2), in)
		}
		// both ends compute the same array from the same starting contents, for a short secret too
		if i%3 != 2 && !bytes.Equal(a, b) {
			c.Fail("agree", "handshake:mismatch", fmt.Sprintf("short secret (%d bytes): client %x server %x", len(sec), a, b), in)
		}
		// the tail is NOT cleared
		if !bytes.Equal(a[len(sec):], prevA[len(sec):]) || !bytes.Equal(a[:len(sec)], sec) {
			c.Fail("agree", "fill:short-layout", "a short secret is not left-aligned over the previous contents", in)
		}
		c.Eval(true, "s3share"+hx(sec)+hx(prevB))
	})
}
