package main

// C06, group "histw": the histories of group "hist", but the client half of every round is the real
// (*Session).session(c) over a scripted connection and a profile stack (any wrappers, any
// transform), and the server half decodes the client's wire bytes with the real readPacket through
// the same stack. What the direct driver of "hist" hard-codes ("a failed write calls
// keyCheckRevert", "a lost reply skips keyCheckSync") is here decided by the code under test, for
// every stack: the outcome of the send is whatever writePacket reports for that stack.

import (
	"bytes"
	"encoding/hex"
	"errors"
	"fmt"
	"io"
	"net"
	"strings"
	"time"

	"github.com/iDigitalFlame/xmt/c2"
	"github.com/iDigitalFlame/xmt/com"
	"github.com/iDigitalFlame/xmt/data"
)

var (
	errC06Write = errors.New("c06: connection reset while writing")
	errC06Read  = errors.New("c06: connection reset while reading")
)

type c06Script struct {
	wrote   bytes.Buffer
	failAt  int // -1: never; else the number of bytes accepted before every Write fails
	failed  bool
	lossAt  int // -1: the whole reply is delivered; else only that many bytes, then an error
	serve   func(wire []byte) ([]byte, error)
	served  bool
	r       *bytes.Reader
	rerr    error
	onWrite func()
	writes  int
	// reqLost: every Write is accepted without error but nothing ever reaches the server (the
	// connection died after the kernel took the bytes); the Read that follows fails
	reqLost bool
}

func (c *c06Script) Write(b []byte) (int, error) {
	if c.writes++; c.writes == 1 && c.onWrite != nil {
		c.onWrite()
	}
	if c.failed {
		return 0, errC06Write
	}
	if c.failAt >= 0 && c.wrote.Len()+len(b) > c.failAt {
		k := c.failAt - c.wrote.Len()
		c.wrote.Write(b[:k])
		c.failed = true
		return k, errC06Write
	}
	return c.wrote.Write(b)
}
func (c *c06Script) Read(b []byte) (int, error) {
	if c.failed {
		return 0, errC06Read
	}
	if c.reqLost {
		return 0, errC06Read
	}
	if !c.served {
		c.served = true
		w, err := c.serve(c.wrote.Bytes())
		c.rerr = io.EOF
		if err != nil {
			w, c.rerr = nil, err
		} else if c.lossAt >= 0 && c.lossAt < len(w) {
			w, c.rerr = w[:c.lossAt], errC06Read
		}
		c.r = bytes.NewReader(w)
	}
	if c.r.Len() == 0 {
		return 0, c.rerr
	}
	return c.r.Read(b)
}
func (*c06Script) Close() error                     { return nil }
func (*c06Script) LocalAddr() net.Addr              { return c06Addr{} }
func (*c06Script) RemoteAddr() net.Addr             { return c06Addr{} }
func (*c06Script) SetDeadline(time.Time) error      { return nil }
func (*c06Script) SetReadDeadline(time.Time) error  { return nil }
func (*c06Script) SetWriteDeadline(time.Time) error { return nil }

func c06HistW(c *Ctx) {
	c.Cases("histw", c.N(300, 5000), func(r *Rng, i int) {
		// the profile stack
		var ws []wdesc
		t := tdesc{kind: "none"}
		shape := "plain"
		switch x := r.Intn(100); {
		case x < 12:
		case x < 50:
			shape = "wrapper"
		case x < 70:
			shape = "transform"
		default:
			shape = "both"
		}
		if shape == "wrapper" || shape == "both" {
			for k := 1 + r.Intn(2); k > 0; k-- {
				ws = append(ws, genW(r, wkinds[r.Intn(len(wkinds))]))
			}
		}
		if shape == "transform" || shape == "both" {
			for t.kind == "none" {
				t = genT(r)
			}
		}
		if invalidCbk(ws) {
			return
		}
		w, tr, err := buildProfile(ws, t)
		if err != nil {
			return
		}
		stack := descs(ws) + "/" + t.String()
		d := c2.VerifC06NewDirect()
		var keys c06Keys
		keys.add(d.Srv.Keys)
		info := r.Bytes(r.Intn(40))
		var evs []c06Ev
		var out []string
		e1, e2 := d.Hello(info)
		d.Arm(w, tr)
		ck := c2.VerifC06Keys(d.C)
		keys.add(d.Gen)
		evs = append(evs, c06Ev{Kind: "con", Data: d.Gen.Private[:], Info: info})
		if e1 != nil || e2 != nil {
			c.Fail("handshake", "handshake:error", fmt.Sprintf("%v / %v", e1, e2), nil)
		}
		sk := c2.VerifC06Keys(d.S)
		out = append(out, c06State(&ck, false, &sk))
		n := 1 + r.Intn(7)
		faulty, rekeys := false, 0
		reqLost := false // the history contains a fault the model has no constructor for: oracle only
		desync := ""
		input := func() map[string]interface{} {
			return map[string]interface{}{"stack": stack, "history": c06Toks(evs)}
		}
		for j := 0; j < n; j++ {
			ev := c06Ev{Kind: "x", Reply: r.Bytes(c06Lens[r.Intn(12)])}
			sc := &c06Script{failAt: -1, lossAt: -1}
			switch f := r.Intn(100); {
			case f < 9:
				sc.failAt = 0
			case f < 18:
				sc.failAt = 1 + r.Intn(40)
			case f < 28:
				sc.lossAt = 0
				if r.Chance(50) {
					sc.lossAt = r.Intn(30)
				}
			case f < 33:
				sc.reqLost = true
			}
			wantRekey := r.Chance(45)
			if !wantRekey {
				ev.Data = r.Bytes(c06Lens[r.Intn(len(c06Lens))])
				p := &com.Packet{ID: c06TaskID, Job: uint16(1 + r.Intn(60000)), Device: d.C.ID}
				p.Write(ev.Data)
				d.Queue(p)
			}
			var next *data.KeyPair
			sc.onWrite = func() {
				if k, ok := c2.VerifC06KeysNext(d.C); ok {
					next = &k
				}
			}
			var (
				crypt  bool
				srvSaw []byte
				srvErr error
			)
			sc.serve = func(wire []byte) ([]byte, error) {
				var rw []byte
				crypt, srvSaw, rw, srvErr = d.Serve(wire, w, tr, c06TaskID, ev.Reply)
				return rw, srvErr
			}
			var ok bool
			if p := guardC08("session", func() { ok = d.Round(sc, wantRekey) }); p != "" {
				c.Fail("no-panic", "panic:session:"+shape, "(*Session).session panicked: "+p, input())
				return
			}
			switch {
			case sc.reqLost:
				ev.Fault = 3
				reqLost = true
			case sc.failed:
				ev.Fault = 1
			case !sc.served || srvErr != nil:
				// the server could not decode what the client wrote in full
				evs = append(evs, ev)
				c.Fail("wire", "wire:undecodable:"+shape, fmt.Sprintf("the server could not read the client's packet (%v) although every write succeeded", srvErr), input())
				return
			case sc.rerr != io.EOF && sc.lossAt > 0 && ok:
				// only bytes the decoder never asks for were cut (the checksum trailer of a compressed
				// stream): the reply did get through; it is checked as a delivered one below
				c.Count("histw:loss-in-unread-trailer")
			case sc.rerr != io.EOF:
				ev.Fault = 2
			}
			if wantRekey {
				ev.Rekey = true
				if next != nil {
					keys.add(*next)
					ev.Data = next.Private[:]
					if crypt || ev.Fault == 1 {
						rekeys++
					}
				}
			}
			if ok != (ev.Fault == 0) {
				evs = append(evs, ev)
				c.Fail("round", "round:result:"+shape+":"+c06FaultTok[ev.Fault], fmt.Sprintf("session() returned %v on a round with fault %q", ok, c06FaultTok[ev.Fault]), input())
				c.Eval(true, stack)
				return
			}
			evs = append(evs, ev)
			ck, sk = c2.VerifC06Keys(d.C), c2.VerifC06Keys(d.S)
			_, pending := c2.VerifC06KeysNext(d.C)
			st := c06State(&ck, pending, &sk)
			seen := d.Seen()
			if ev.Fault != 1 && ev.Fault != 3 && !crypt {
				st += " S:" + hx(srvSaw)
				if !bytes.Equal(srvSaw, ev.Data) && desync == "" {
					desync = "payload:" + c06Classify(evs, len(evs)-2)
				}
			}
			if ev.Fault == 0 {
				cliSaw := []byte("<nothing reached the mux>")
				if len(seen) == 1 {
					cliSaw = seen[0]
				}
				st += " C:" + hx(cliSaw)
				if !bytes.Equal(cliSaw, ev.Reply) && desync == "" {
					desync = "payload:" + c06Classify(evs, len(evs)-2)
				}
			}
			out = append(out, st)
			if ev.Fault != 0 {
				faulty = true
			}
			if ck.Shared() != sk.Shared() && desync == "" {
				desync = "desync:" + c06Classify(evs, len(evs)-1)
			}
			if ev.Fault == 1 && pending {
				c.Fail("revert", "revert:pending:"+shape, "a failed write left a queued KeyPair", input())
			}
			c.Count("histw:fault=" + c06FaultTok[ev.Fault])
		}
		if reqLost {
			c.Count("histw:with-request-lost(oracle-only)")
		} else {
			pt, dt := keys.tables(false, 0)
			c.Op("hist obs=1 srv="+hex.EncodeToString(keys.priv[0])+" pub="+pt+" dh="+dt+" "+strings.Join(c06Toks(evs), " "), strings.Join(out, " | "))
		}
		if desync != "" {
			c.Fail("desync", desync, "client and server disagree (secret or delivered payload) on stack "+stack, input())
			c.Count("histw:desync")
		}
		c.Eval(faulty || rekeys > 0, stack+" "+strings.Join(c06Toks(evs), " "))
		c.Count("histw:stack=" + shape)
		if faulty {
			c.Count("histw:with-fault")
		}
		if rekeys > 0 {
			c.Count("histw:with-rekey")
		}
	})
}

// group "pickwait": the helper thread pick() starts for a client in Channel mode. When the helper was
// abandoned (a packet was queued while it slept) it must not leave a re-key behind: the announcement
// it would have produced is never sent, so a queued KeyPair would be swapped in by the next
// successful write although the server never saw it.
func c06PickWait(c *Ctx) {
	c.Cases("pickwait", c.N(24, 120), func(r *Rng, i int) {
		d := c2.VerifC06NewDirect()
		if e1, e2 := d.Hello(r.Bytes(r.Intn(20))); e1 != nil || e2 != nil {
			return
		}
		d.Arm(nil, nil)
		abandoned, rekey := i%2 == 0, i%4 < 2 || r.Bool()
		before := c2.VerifC06Keys(d.C)
		pending, queued, crypt := d.PickWait(abandoned, rekey)
		c.Op(fmt.Sprintf("pickwait %d %d 0", b2i(abandoned), b2i(rekey)), fmt.Sprintf("pending=%d queued=%d crypt=%d", b2i(pending), queued, b2i(crypt)))
		in := map[string]interface{}{"abandoned": abandoned, "rekey_rolled": rekey, "keypair_queued": pending, "packets_queued": queued}
		switch {
		case abandoned && (pending || queued != 0):
			c.Fail("revert", "pickwait:abandoned-helper-left-rekey", fmt.Sprintf("the abandoned helper left keypair_queued=%v packets_queued=%d", pending, queued), in)
		case !abandoned && queued != 1:
			c.Fail("revert", "pickwait:no-packet", fmt.Sprintf("the helper queued %d packets, expected one (re-key or keep-alive)", queued), in)
		case !abandoned && pending != rekey:
			c.Fail("revert", "pickwait:rekey-roll", fmt.Sprintf("re-key rolled=%v but keypair queued=%v", rekey, pending), in)
		}
		if after := c2.VerifC06Keys(d.C); after.Shared() != before.Shared() {
			c.Fail("desync", "pickwait:key-changed", "the helper changed the key in use", in)
		}
		d.DrainSend()
		c.Count(fmt.Sprintf("pickwait:abandoned=%v,rekey=%v", abandoned, rekey))
		c.Eval(true, fmt.Sprint("pickwait", i, in))
	})
}


func b2i(b bool) int {
	if b {
		return 1
	}
	return 0
}
