package main

// C07 — every wrapper stack and transform is lossless for every payload.
//
// Real code exercised: wrapper.{Hex,Base64,Zlib,Gzip,XOR,Block(AES),CBK}, cfg.MultiWrapper (through a
// built cfg profile), transform.{B64,DNSTransform}, c2.writePacket/readPacket (in-package hook).
// Model-comparable ops (byte for byte): CBK writer/reader, XOR(CFB) writer/reader, DNS encoder and
// decoder, Base64-shift, stacks made of XOR/CBK layers.  Everything else is covered by the direct
// round-trip oracles.

import (
	"bytes"
	"errors"
	"fmt"
	"io"
	"net"
	"strconv"
	"strings"
	"time"

	"github.com/iDigitalFlame/xmt/c2"
	"github.com/iDigitalFlame/xmt/c2/cfg"
	"github.com/iDigitalFlame/xmt/c2/transform"
	"github.com/iDigitalFlame/xmt/c2/wrapper"
	"github.com/iDigitalFlame/xmt/com"
	"github.com/iDigitalFlame/xmt/data/crypto"
)

func init() {
	register("C07", runC07)
	factProviders = append(factProviders, func(f *factSet, repo string) error {
		f.Nat("cbkSize", uint64(crypto.VerifCBKSize))
		f.Nat("dnsMax", uint64(transform.VerifDNSMax))
		f.Nat("dnsSeg", uint64(transform.VerifDNSSeg))
		f.Nat("dnsPacketCap", uint64(transform.VerifDNSPacketCap()))
		v := uint64(0)
		if transform.VerifDNSServer() {
			v = 1
		}
		f.Nat("dnsServer", v)
		return nil
	})
}

// recSink records every Write separately; Close is counted.
type recSink struct {
	w      [][]byte
	closed int
}

func (s *recSink) Write(b []byte) (int, error) {
	s.w = append(s.w, append([]byte(nil), b...))
	return len(b), nil
}
func (s *recSink) Close() error { s.closed++; return nil }
func (s *recSink) all() []byte  { return bytes.Join(s.w, nil) }

// memConn is an in-memory net.Conn: writes are recorded, reads hand out scripted pieces then EOF.
type memConn struct {
	recSink
	r PieceReader
}

func (c *memConn) Read(b []byte) (int, error)     { return c.r.Read(b) }
func (*memConn) LocalAddr() net.Addr              { return nil }
func (*memConn) RemoteAddr() net.Addr             { return nil }
func (*memConn) SetDeadline(time.Time) error      { return nil }
func (*memConn) SetReadDeadline(time.Time) error  { return nil }
func (*memConn) SetWriteDeadline(time.Time) error { return nil }

// guard runs f, converting a panic of the code under test into an error string.
func guard(f func() error) (err error, pan string) {
	defer func() {
		if e := recover(); e != nil {
			pan = fmt.Sprint(e)
		}
	}()
	return f(), ""
}

// writeThrough wraps sink with w, writes the pieces, closes.
func writeThrough(w cfg.Wrapper, sink io.WriteCloser, pieces [][]byte) (error, string) {
	return guard(func() error {
		o, err := w.Wrap(sink)
		if err != nil {
			return fmt.Errorf("wrap: %w", err)
		}
		for _, p := range pieces {
			n, err := o.Write(p)
			if err != nil {
				return fmt.Errorf("write: %w", err)
			}
			if n != len(p) {
				return fmt.Errorf("write: short count %d/%d", n, len(p))
			}
		}
		if err := o.Close(); err != nil {
			return fmt.Errorf("close: %w", err)
		}
		return nil
	})
}

// readThrough unwraps a scripted reader and issues Reads with the given buffer sizes (cycled)
// until EOF / error / budget; returns the pieces delivered and the terminating error.
func readThrough(w cfg.Wrapper, wire [][]byte, reqs []int, budget int) (got [][]byte, rerr error, pan string) {
	_, pan = guard(func() error {
		r, err := w.Unwrap(&PieceReader{P: wire})
		if err != nil {
			rerr = fmt.Errorf("unwrap: %w", err)
			return nil
		}
		total, zero := 0, 0
		for i := 0; total <= budget; i++ {
			buf := make([]byte, reqs[i%len(reqs)])
			n, err := r.Read(buf)
			got = append(got, buf[:n]) // got[i] is what the i-th Read delivered
			total += n
			if err != nil {
				rerr = err
				return nil
			}
			if n == 0 {
				if zero++; zero > 100 {
					rerr = errors.New("reader makes no progress")
					return nil
				}
			} else {
				zero = 0
			}
		}
		rerr = errors.New("reader exceeded budget")
		return nil
	})
	return
}

func genReqs(r *Rng) []int {
	switch r.Intn(5) {
	case 0:
		return []int{512}
	case 1:
		return []int{1}
	case 2:
		return []int{1 + r.Intn(40), 1 + r.Intn(300), 1 + r.Intn(5)}
	case 3:
		return []int{16, 17, 15, 128, 129, 127, 33}
	}
	return []int{1 + r.Intn(5000)}
}

func intsCSV(v []int) string {
	s := make([]string, len(v))
	for i := range v {
		s[i] = strconv.Itoa(v[i])
	}
	return strings.Join(s, ",")
}

// lengths around cipher block sizes, the DNS 256/2048 limits and the CBK index wrap (31 blocks)
func c07Len(r *Rng, blk int, big int) int {
	pool := []int{0, 1, 2, 15, 16, 17, 31, 32, 33, 63, 64, 65, 127, 128, 129, 255, 256, 257, 511, 512, 513, 2047, 2048, 2049, 4095, 4096, 4097}
	switch x := r.Intn(10); {
	case x < 4:
		return pool[r.Intn(len(pool))]
	case x < 7 && blk > 0:
		k := []int{1, 2, 3, 30, 31, 32, 62}[r.Intn(7)]
		return k*blk + r.Intn(3) - 1
	case x < 8:
		return r.Intn(700)
	case x == 8:
		return r.Intn(big + 1)
	}
	return r.Intn(40)
}

func joinB(p [][]byte) []byte { return bytes.Join(p, nil) }

func errName(e error) string {
	switch {
	case e == nil:
		return "nil"
	case errors.Is(e, io.EOF):
		return "eof"
	case errors.Is(e, io.ErrUnexpectedEOF):
		return "ueof"
	case errors.Is(e, io.ErrShortBuffer):
		return "short"
	case errors.Is(e, io.ErrNoProgress):
		return "noprogress"
	}
	return "other:" + e.Error()
}

// keys that made blockIndex divide by zero before the repair (first failing block within 31 blocks of 16)
var cbkDivZeroKeys = [][4]byte{{119, 84, 48, 3}, {106, 140, 231, 178}, {27, 100, 128, 148}, {145, 249, 109, 0},
	{212, 180, 98, 0}, {37, 120, 94, 6}, {89, 71, 82, 242}, {44, 40, 5, 51}}

var cbkSizes = []byte{0, 16, 32, 64, 128}

// ---- wrapper descriptors ------------------------------------------------------------------------

type wdesc struct {
	kind string // hex b64 zlib gzip xor aes cbk
	key  []byte // xor key / aes key / cbk a,b,c,d,size
	iv   []byte
}

var wkinds = []string{"hex", "b64", "zlib", "gzip", "xor", "aes", "cbk"}

func genW(r *Rng, kind string) wdesc {
	d := wdesc{kind: kind}
	switch kind {
	case "xor":
		n := []int{1, 2, 3, 7, 15, 16, 17, 32, 64, 200, 255}[r.Intn(11)]
		if r.Chance(40) {
			n = 1 + r.Intn(40)
		}
		d.key = r.Bytes(n)
	case "aes":
		d.key = r.Bytes([]int{16, 24, 32}[r.Intn(3)])
		d.iv = r.Bytes(16)
	case "cbk":
		d.key = append(r.Bytes(4), cbkSizes[r.Intn(len(cbkSizes))])
		if r.Chance(15) {
			d.key[0] = 0
		}
		if r.Chance(10) {
			k := cbkDivZeroKeys[r.Intn(len(cbkDivZeroKeys))]
			copy(d.key, k[:])
		}
	}
	return d
}
func (d wdesc) setting() cfg.Setting {
	switch d.kind {
	case "hex":
		return cfg.WrapHex
	case "b64":
		return cfg.WrapBase64
	case "zlib":
		return cfg.WrapZlib
	case "gzip":
		return cfg.WrapGzip
	case "xor":
		return cfg.WrapXOR(d.key)
	case "aes":
		return cfg.WrapAES(d.key, d.iv)
	}
	return cfg.WrapCBKSize(d.key[4], d.key[0], d.key[1], d.key[2], d.key[3])
}
func (d wdesc) String() string {
	switch d.kind {
	case "xor":
		return "xor:" + hx(d.key)
	case "aes":
		return "aes:" + hx(d.key) + "/" + hx(d.iv)
	case "cbk":
		return fmt.Sprintf("cbk:%d.%d.%d.%d.%d", d.key[0], d.key[1], d.key[2], d.key[3], d.key[4])
	}
	return d.kind
}
func (d wdesc) modelled() bool { return d.kind == "xor" || d.kind == "cbk" }

func descs(ds []wdesc) string {
	if len(ds) == 0 {
		return "."
	}
	s := make([]string, len(ds))
	for i := range ds {
		s[i] = ds[i].String()
	}
	return strings.Join(s, ",")
}

type tdesc struct {
	kind    string // none b64 dns
	shift   int
	domains []string
}

func (t tdesc) String() string {
	switch t.kind {
	case "b64":
		return "b64s:" + strconv.Itoa(t.shift)
	case "dns":
		q := make([]string, len(t.domains))
		for i := range q {
			q[i] = hx([]byte(t.domains[i]))
		}
		return "dns:" + strings.Join(q, ",")
	}
	return "none"
}
func (t tdesc) setting() cfg.Setting {
	switch t.kind {
	case "b64":
		if t.shift == 0 {
			return cfg.TransformB64
		}
		return cfg.TransformB64Shift(t.shift)
	case "dns":
		return cfg.TransformDNS(t.domains...)
	}
	return nil
}

func genLabel(r *Rng, n int) string {
	const al = "abcdefghijklmnopqrstuvwxyz0123456789-"
	b := make([]byte, n)
	for i := range b {
		b[i] = al[r.Intn(len(al))]
	}
	return string(b)
}

// genDomain: mostly ordinary names, plus the shapes a profile can carry that are not valid DNS
// names: empty labels (leading / trailing / double dots), labels of 63, 64, 70, 255 bytes, arbitrary bytes.
func genDomain(r *Rng) string {
	switch x := r.Intn(20); {
	case x < 8:
		n := 1 + r.Intn(4)
		l := make([]string, n)
		for i := range l {
			l[i] = genLabel(r, 1+r.Intn(12))
		}
		return strings.Join(l, ".")
	case x == 8:
		return genLabel(r, 1+r.Intn(10)) + "." + genLabel(r, 3) + "."
	case x == 9:
		return genLabel(r, 3) + ".." + genLabel(r, 3)
	case x == 10:
		return "." + genLabel(r, 5)
	case x == 11:
		return genLabel(r, 63) + "." + genLabel(r, 3)
	case x == 12:
		return genLabel(r, 64) + "." + genLabel(r, 3)
	case x == 13:
		return genLabel(r, []int{65, 70, 128, 200, 255}[r.Intn(5)])
	case x == 14:
		return strings.Repeat(".", 1+r.Intn(4))
	case x == 15:
		b := r.Bytes(1 + r.Intn(60))
		return string(b)
	case x == 16:
		n := 20 + r.Intn(100)
		l := make([]string, n)
		for i := range l {
			l[i] = genLabel(r, 1)
		}
		return strings.Join(l, ".")[:minC07(2*n-1, 255)]
	case x == 17:
		return genLabel(r, 62) + "." + genLabel(r, 63) + "." + genLabel(r, 63) + "." + genLabel(r, 61)
	}
	return genLabel(r, 1+r.Intn(20)) + ".com"
}

func minC07(a, b int) int {
	if a < b {
		return a
	}
	return b
}

func genT(r *Rng) tdesc {
	switch r.Intn(4) {
	case 0:
		return tdesc{kind: "none"}
	case 1:
		return tdesc{kind: "b64", shift: []int{0, 1, 127, 128, 255, r.Intn(256)}[r.Intn(6)]}
	}
	n := 1
	if r.Chance(30) {
		n = 1 + r.Intn(4)
	}
	t := tdesc{kind: "dns"}
	for i := 0; i < n; i++ {
		t.domains = append(t.domains, genDomain(r))
	}
	return t
}

// build a profile from the descriptors through the public cfg API and take its wrapper/transform.
func buildProfile(ws []wdesc, t tdesc) (cfg.Wrapper, cfg.Transform, error) {
	// The transform setting goes first: Config.build accepts a DNS domain list only while the
	// setting's offset does not exceed the number of domains (`x < i` in its guard) — a profile
	// parser matter (C08), avoided here so that DNS profiles can be built at all.
	var s []cfg.Setting
	if ts := t.setting(); ts != nil {
		s = append(s, ts)
	}
	s = append(s, cfg.Host("127.0.0.1:1"), cfg.ConnectTCP)
	for _, w := range ws {
		s = append(s, w.setting())
	}
	p, err := cfg.Build(s...)
	if err != nil {
		return nil, nil, err
	}
	_, w, tr := p.Next()
	return w, tr, nil
}

func runC07(c *Ctx) {
	big := c.N(6000, 40000)

	// A. CBK wrapper: writer bytes and reader results against the model, round trip oracle.
	cbkCase := func(r *Rng, key [5]byte, n int, heavy bool) {
		in := map[string]interface{}{"key": key[:], "len": n}
		w := wrapper.NewCBK(key[0], key[1], key[2], key[3], key[4])
		payload := r.Bytes(n)
		pieces := r.Split(payload)
		ks := fmt.Sprintf("%d %d %d %d %d", key[0], key[1], key[2], key[3], key[4])
		valid := key[4] == 0 || key[4] == 16 || key[4] == 32 || key[4] == 64 || key[4] == 128
		var sink recSink
		err, pan := writeThrough(w, &sink, pieces)
		c.Count(fmt.Sprintf("cbk:size=%d", key[4]))
		switch {
		case pan != "":
			c.Op("cbkw "+ks+" "+hxChunks(pieces), "panic")
			c.Fail("panic", "panic:wrapper.CBK.Write", "CBK writer panicked: "+pan, in)
			return
		case err != nil && !valid:
			c.Op("cbkw "+ks+" "+hxChunks(pieces), "err")
			c.Eval(false, "")
			return
		case err != nil:
			c.Fail("roundtrip", "cbk-write-error", err.Error(), in)
			return
		}
		if !heavy {
			c.Op("cbkw "+ks+" "+hxChunks(pieces), "ok "+hxChunks(sink.w))
		}
		// chunking independence of the writer
		var sink2 recSink
		writeThrough(w, &sink2, r.Split(payload))
		if !bytes.Equal(sink.all(), sink2.all()) {
			c.Fail("chunking", "cbk-writer-chunking", "CBK wire bytes depend on the write chunking", in)
		}
		wire := r.Split(sink.all())
		wireHex := hxChunks(wire) // the scripted reader consumes the pieces
		reqs := genReqs(r)
		got, rerr, pan := readThrough(w, wire, reqs, n+1)
		if pan != "" {
			c.Fail("panic", "panic:wrapper.CBK.Read", "CBK reader panicked: "+pan, in)
			return
		}
		if !heavy {
			// the model is asked for exactly the Reads that were issued
			if len(got) < 3000 {
				k := make([]int, len(got))
				for i := range k {
					k[i] = reqs[i%len(reqs)]
				}
				c.Op(fmt.Sprintf("cbkr %s %s %s", ks, wireHex, intsCSV(k)), "ok "+hxChunks(got)+" "+errName(rerr))
			}
		}
		if rerr != io.EOF {
			c.Fail("roundtrip", "cbk-read-error", fmt.Sprintf("CBK reader ended with %v", rerr), in)
		} else if !bytes.Equal(joinB(got), payload) {
			c.Fail("roundtrip", "cbk-roundtrip", fmt.Sprintf("CBK read back %d bytes, wrote %d, differ", len(joinB(got)), n), in)
		}
		c.Eval(n > int(key[4]) || len(pieces) > 1, ks+strconv.Itoa(n))
	}
	c.Cases("cbk-divzero", len(cbkDivZeroKeys), func(r *Rng, i int) {
		k := cbkDivZeroKeys[i]
		cbkCase(r, [5]byte{k[0], k[1], k[2], k[3], 16}, 16*31+3, false)
	})
	c.Cases("cbk", c.N(700, 4000), func(r *Rng, i int) {
		var key [5]byte
		copy(key[:], r.Bytes(4))
		key[4] = cbkSizes[r.Intn(len(cbkSizes))]
		if r.Chance(5) {
			key[4] = byte(r.Intn(256))
		}
		if r.Chance(10) {
			key[0] = 0
		}
		blk := int(key[4])
		if blk == 0 {
			blk = 128
		}
		n := c07Len(r, blk, big)
		cbkCase(r, key, n, n > 20000)
	})

	// B. XOR wrapper (CFB over crypto.XOR)
	c.Cases("xor", c.N(400, 3000), func(r *Rng, i int) {
		d := genW(r, "xor")
		if r.Chance(10) {
			d.key = r.Bytes([]int{256, 257, 1000}[r.Intn(3)])
		}
		n := c07Len(r, len(d.key), big)
		payload := r.Bytes(n)
		pieces := r.Split(payload)
		in := map[string]interface{}{"key": hx(d.key), "len": n}
		w := wrapper.NewXOR(d.key)
		var sink recSink
		if err, pan := writeThrough(w, &sink, pieces); pan != "" || err != nil {
			c.Fail("roundtrip", "xor-write", fmt.Sprint(err, pan), in)
			return
		}
		c.Op("xorw "+hx(d.key)+" "+hxChunks(pieces), "ok "+hxChunks(sink.w))
		got, rerr, pan := readThrough(w, r.Split(sink.all()), genReqs(r), n+1)
		if pan != "" {
			c.Fail("panic", "panic:wrapper.XOR.Read", pan, in)
			return
		}
		c.Op("xorr "+hx(d.key)+" "+hx(sink.all()), "ok "+hx(joinB(got)))
		if rerr != io.EOF || !bytes.Equal(joinB(got), payload) {
			c.Fail("roundtrip", "xor-roundtrip", fmt.Sprintf("XOR read back differs (err %v)", rerr), in)
		}
		c.Eval(n > len(d.key), hx(d.key)+strconv.Itoa(n))
	})

	// C. Base64-shift transform
	c.Cases("b64", c.N(400, 3000), func(r *Rng, i int) {
		shift := []int{0, 1, 2, 127, 128, 254, 255, r.Intn(256)}[r.Intn(8)]
		n := c07Len(r, 3, big)
		if i%16 == 5 {
			// around the transform's own buffer limit (bufMax = 32 KiB of decoded bytes): Read takes a
			// different branch above it
			n = []int{24574, 24575, 24576, 24577, 32765, 32766, 32767, 32768, 32769, 40000, 65536, 98303, 98304, 98305}[r.Intn(14)]
		}
		payload := r.Bytes(n)
		t := transform.B64(shift)
		in := map[string]interface{}{"shift": shift, "len": n, "payload": hx(payload[:minC07(n, 4096)])}
		var out, back bytes.Buffer
		if err, pan := guard(func() error { return t.Write(append([]byte(nil), payload...), &out) }); err != nil || pan != "" {
			c.Fail("roundtrip", "b64-write", fmt.Sprint(err, pan), in)
			return
		}
		c.Op(fmt.Sprintf("b64w %d %s", shift, hx(payload)), "ok "+hx(out.Bytes()))
		text := append([]byte(nil), out.Bytes()...)
		if err, pan := guard(func() error { return t.Read(text, &back) }); err != nil || pan != "" {
			c.Fail("roundtrip", "b64-read", fmt.Sprint(err, pan), in)
			return
		}
		c.Op(fmt.Sprintf("b64r %d %s", shift, hx(out.Bytes())), "ok "+hx(back.Bytes()))
		if !bytes.Equal(back.Bytes(), payload) {
			c.Fail("roundtrip", "b64-roundtrip", "Base64 transform read back differs", in)
		}
		c.Eval(n > 0 && shift != 0, fmt.Sprint(shift, n))
	})

	// D. DNS transform, both dnsServer modes, every domain shape
	dnsCase := func(r *Rng, domains []string, n int, server bool, viaProfile bool) {
		transform.VerifSetDNSServer(server)
		defer transform.VerifSetDNSServer(true)
		payload := r.Bytes(n)
		in := map[string]interface{}{"domains": domains, "len": n, "server": server}
		var t cfg.Transform = transform.DNSTransform(append([]string(nil), domains...))
		if viaProfile {
			domains = append([]string(nil), domains...)
			for i := range domains {
				if len(domains[i]) > 255 { // cfg.TransformDNS keeps 255 bytes
					domains[i] = domains[i][:255]
				}
			}
			_, tr, err := buildProfile(nil, tdesc{kind: "dns", domains: domains})
			if err != nil {
				c.Count("dns:profile-rejected")
				c.Eval(false, "")
				return
			}
			t = tr
		}
		c.Count(fmt.Sprintf("dns:server=%v", server))
		var sink recSink
		werr, pan := guard(func() error { return t.Write(append([]byte(nil), payload...), &sink) })
		if pan != "" {
			c.Fail("panic", "panic:transform.DNS.Write", pan, in)
			return
		}
		single := len(domains) == 1
		srv := strconv.Itoa(btoi(server))
		if werr != nil {
			if single && n < 20000 {
				c.Op(fmt.Sprintf("dnsenc %s %s %s %s", srv, hx([]byte(domains[0])), hx(payload), "."), "short")
			}
			big := false
			for _, d := range domains {
				big = big || len(d) > 255
			}
			if !big {
				c.Fail("roundtrip", "dns-write-error:"+domainShape(domains), "DNS transform Write failed: "+werr.Error(), in)
			}
			c.Eval(false, "")
			return
		}
		oversize := false
		for _, d := range domains {
			oversize = oversize || len(d) > 255
		}
		if oversize {
			// a "domain" of more than 255 bytes is not a DNS name and cannot be carried by a profile
			// (cfg.TransformDNS keeps 255 bytes): outside the property (and outside dns_roundtrip's
			// hypothesis). When Write accepts it all the same, only "Read does not panic" is checked;
			// the packet-buffer overflow behaviour of Write is not modelled (DESIGN B.4).
			if _, pan := guard(func() error { var b recSink; return t.Read(sink.all(), &b) }); pan != "" {
				c.Fail("panic", "panic:transform.DNS.Read:"+domainShape(domains), pan, in)
			}
			c.Count("dns:oversize-domain:write-accepted(outside the property)")
			c.Eval(false, "")
			return
		}
		if single && n < 20000 {
			c.Op(fmt.Sprintf("dnsenc %s %s %s %s", srv, hx([]byte(domains[0])), hx(payload), hxChunks(sink.w)), fmt.Sprintf("ok n=%d", len(sink.w)))
		}
		wire := sink.all()
		wire = wire[:len(wire):len(wire)]
		var back recSink
		rerr, pan := guard(func() error { return t.Read(wire, &back) })
		if pan != "" {
			c.Fail("panic", "panic:transform.DNS.Read:"+domainShape(domains), pan, in)
			return
		}
		if n < 20000 {
			if rerr == nil {
				c.Op("dnsdec v "+hx(wire), "ok "+hxChunks(back.w))
			} else {
				c.Op("dnsdec v "+hx(wire), "err "+errName(rerr))
			}
		}
		if rerr != nil {
			c.Fail("roundtrip", "dns-read-error:"+domainShape(domains), "DNS transform cannot read its own output: "+rerr.Error(), in)
		} else if !bytes.Equal(back.all(), payload) {
			c.Fail("roundtrip", "dns-roundtrip:"+domainShape(domains), "DNS transform read back differs", in)
		}
		c.Eval(n > 256 || domainShape(domains) != "plain", fmt.Sprint(domains, n, server))
		// malformed: truncations / flips of a valid message, outcome class only (crashes are C04's subject)
		if n < 600 && r.Chance(30) {
			for k := 0; k < 6; k++ {
				m := append([]byte(nil), wire...)
				if r.Bool() && len(m) > 0 {
					m = m[:r.Intn(len(m))]
				} else if len(m) > 0 {
					m[r.Intn(len(m))] = byte(r.Intn(256))
				}
				m = m[:len(m):len(m)]
				var o recSink
				e, p := guard(func() error { return t.Read(m, &o) })
				if e != nil || p != "" {
					c.Op("dnsdec m "+hx(m), "fail")
				} else {
					c.Op("dnsdec m "+hx(m), "ok "+hxChunks(o.w))
				}
				c.Count("dns:malformed")
			}
		}
	}
	c.Cases("dns-shapes", 1, func(r *Rng, i int) {
		x63, x64 := strings.Repeat("x", 63), strings.Repeat("y", 64)
		for _, d := range []string{"example.com", "example.com.", "a..b", ".a", x63 + ".com", x64 + ".com", strings.Repeat("z", 70), strings.Repeat("w", 255), "a", ".", "..."} {
			for _, n := range []int{1, 255, 256, 257, 2047, 2048, 2049, 5000} {
				for _, srv := range []bool{true, false} {
					dnsCase(r, []string{d}, n, srv, d != "." && d != "...")
				}
			}
		}
	})
	c.Cases("dns", c.N(600, 4000), func(r *Rng, i int) {
		t := genT(r)
		for t.kind != "dns" {
			t = genT(r)
		}
		if r.Chance(3) {
			t.domains = []string{genLabel(r, 40) + "." + strings.Repeat(genLabel(r, 50)+".", 45)}
		}
		n := 1 + c07Len(r, 256, big)
		dnsCase(r, t.domains, n, r.Bool(), r.Chance(60))
	})

	// E. wrapper stacks of depth 0..4 through a built profile, with transform, any chunking
	stackCase := func(r *Rng, ws []wdesc, t tdesc, n int) {
		in := map[string]interface{}{"stack": descs(ws), "kinds": kindsOfW(ws), "transform": t.String(), "len": n}
		w, tr, err := buildProfile(ws, t)
		if err != nil { // not a losslessness failure; building profiles is C08's subject
			c.Count("profile-build-rejected")
			c.Eval(false, "")
			return
		}
		for _, d := range ws {
			c.Count("layer:" + d.kind)
		}
		c.Count(fmt.Sprintf("depth:%d", len(ws)))
		c.Count("transform:" + t.kind)
		payload := r.Bytes(n)
		if r.Chance(30) { // compressible
			for i := range payload {
				payload[i] = byte(i / 7)
			}
		}
		in["payload_head"] = hx(payload[:minC07(n, 32)])
		pieces := r.Split(payload)
		var cache []byte
		if w == nil {
			if len(ws) != 0 {
				c.Fail("build", "profile-no-wrapper", "profile dropped the wrappers", in)
				return
			}
			cache = payload
		} else {
			var sink recSink
			if err, pan := writeThrough(w, &sink, pieces); pan != "" {
				c.Fail("panic", "panic:stack.Write", pan, in)
				return
			} else if err != nil {
				if invalidCbk(ws) {
					c.Eval(false, "")
					return
				}
				c.Fail("roundtrip", "stack-write-error", err.Error(), in)
				return
			}
			cache = sink.all()
			if allModelled(ws) && n <= 3000 {
				c.Op("stackw "+descs(ws)+" "+hxChunks(pieces), "ok "+hx(cache))
			}
		}
		wire := cache
		if tr != nil {
			var conn recSink
			if err, pan := guard(func() error { return tr.Write(append([]byte(nil), cache...), &conn) }); err != nil || pan != "" {
				if len(cache) == 0 {
					// nothing to transform: writePacket never sends an empty cache (a packet has a header)
				} else {
					c.Fail("roundtrip", "transform-write:"+t.kind, fmt.Sprint(err, pan), in)
					return
				}
			}
			var back bytes.Buffer
			all := conn.all()
			if err, pan := guard(func() error { return tr.Read(all[:len(all):len(all)], &back) }); err != nil || pan != "" {
				c.Fail("roundtrip", "transform-read:"+t.kind, fmt.Sprint(err, pan), in)
				return
			}
			wire = back.Bytes()
			if !bytes.Equal(wire, cache) {
				c.Fail("roundtrip", "transform-roundtrip:"+t.kind, "transform read back differs", in)
				return
			}
		}
		var got []byte
		if w == nil {
			got = wire
		} else {
			g, rerr, pan := readThrough(w, r.Split(wire), genReqs(r), n+1)
			if pan != "" {
				c.Fail("panic", "panic:stack.Read", pan, in)
				return
			}
			if rerr != io.EOF {
				c.Fail("roundtrip", "stack-read-error", fmt.Sprintf("stack reader ended with %v after %d/%d bytes", rerr, len(joinB(g)), n), in)
				return
			}
			got = joinB(g)
			if allModelled(ws) && n <= 3000 {
				c.Op("stackr "+descs(ws)+" "+hx(wire), "ok "+hx(got))
			}
		}
		if !bytes.Equal(got, payload) {
			c.Fail("roundtrip", "stack-roundtrip", fmt.Sprintf("read back %d bytes, wrote %d, differ", len(got), n), in)
		}
		c.Eval(len(ws) >= 2 || t.kind != "none", descs(ws)+t.String()+strconv.Itoa(n))
	}
	c.Cases("stack", c.N(1200, 6000), func(r *Rng, i int) {
		depth := r.Intn(5)
		ws := make([]wdesc, depth)
		for j := range ws {
			ws[j] = genW(r, wkinds[r.Intn(len(wkinds))])
		}
		if r.Chance(25) { // stacks the model can follow
			for j := range ws {
				ws[j] = genW(r, []string{"xor", "cbk"}[r.Intn(2)])
			}
		}
		stackCase(r, ws, genT(r), c07Len(r, 16, big))
	})
	if c.Thorough() {
		// every stack of depth 0..4 over the seven wrappers (7^0+..+7^4 = 2801), a boundary length each
		c.Cases("stack-all", 2801, func(r *Rng, i int) {
			var ws []wdesc
			k := i
			for _, lvl := range []int{1, 7, 49, 343, 2401} {
				if k < lvl {
					break
				}
				k -= lvl
				ws = append(ws, wdesc{})
			}
			for j := range ws {
				ws[j] = genW(r, wkinds[k%7])
				k /= 7
			}
			stackCase(r, ws, genT(r), c07Len(r, 16, big))
		})
		c.Cases("stack-large", 12, func(r *Rng, i int) {
			depth := 1 + r.Intn(4)
			ws := make([]wdesc, depth)
			for j := range ws {
				ws[j] = genW(r, wkinds[r.Intn(len(wkinds))])
				if ws[j].kind == "cbk" && ws[j].key[4] == 16 {
					ws[j].key[4] = 128
				}
			}
			stackCase(r, ws, genT(r), 300*1024+r.Intn(3)-1)
		})
	}

	// F. full send path -> full receive path (c2.writePacket / c2.readPacket) over an in-memory conn
	c.Cases("pkt", c.N(800, 5000), func(r *Rng, i int) {
		depth := r.Intn(4)
		ws := make([]wdesc, depth)
		for j := range ws {
			ws[j] = genW(r, wkinds[r.Intn(len(wkinds))])
			if ws[j].kind == "cbk" && ws[j].key[4] != 0 && ws[j].key[4] != 16 && ws[j].key[4] != 32 && ws[j].key[4] != 64 {
				ws[j].key[4] = 128
			}
		}
		t := genT(r)
		w, tr, err := buildProfile(ws, t)
		in := map[string]interface{}{"stack": descs(ws), "transform": t.String()}
		if err != nil {
			c.Count("profile-build-rejected")
			c.Eval(false, "")
			return
		}
		n := c07Len(r, 16, big)
		p := &com.Packet{ID: uint8(1 + r.Intn(255)), Job: uint16(r.Intn(65536)), Flags: com.Flag(r.U64())}
		copy(p.Device[:], r.Bytes(32))
		p.Device[0] |= 1
		for k := r.Intn(4); k > 0; k-- {
			p.Tags = append(p.Tags, uint32(1+r.Intn(1<<30)))
		}
		payload := r.Bytes(n)
		p.Write(payload)
		in["len"], in["id"], in["job"], in["tags"] = n, p.ID, p.Job, p.Tags
		want := fmt.Sprintf("id=%d job=%d flags=%x dev=%x tags=%v", p.ID, p.Job, uint64(p.Flags), p.Device[:], p.Tags)
		var conn memConn
		if err, pan := guard(func() error { return c2.VerifWritePacket(&conn, w, tr, p) }); err != nil || pan != "" {
			key := "send-error"
			if pan != "" {
				key = "panic:writePacket"
			}
			c.Fail("sendrecv", key, fmt.Sprint(err, pan), in)
			return
		}
		rc := &memConn{r: PieceReader{P: r.Split(conn.all())}}
		var q *com.Packet
		if err, pan := guard(func() error { var e error; q, e = c2.VerifReadPacket(rc, w, tr); return e }); err != nil || pan != "" {
			key := "recv-error"
			if pan != "" {
				key = "panic:readPacket"
			}
			c.Fail("sendrecv", key, fmt.Sprint(err, pan), in)
			return
		}
		got := fmt.Sprintf("id=%d job=%d flags=%x dev=%x tags=%v", q.ID, q.Job, uint64(q.Flags), q.Device[:], q.Tags)
		if got != want || !bytes.Equal(q.Payload(), payload) {
			c.Fail("sendrecv", "packet-differs", "received packet differs: want "+want+" got "+got, in)
		}
		c.Count("pkt:transform:" + t.kind)
		c.Eval(depth > 0 || t.kind != "none", descs(ws)+t.String()+want)
	})
	runC07S3(c) // extension round 3: hex / base64 codecs against their Lean models (c07_s3.go)
}

func btoi(b bool) int {
	if b {
		return 1
	}
	return 0
}
func allModelled(ws []wdesc) bool {
	for _, d := range ws {
		if !d.modelled() {
			return false
		}
		if d.kind == "cbk" && invalidCbk([]wdesc{d}) {
			return false
		}
	}
	return true
}
func invalidCbk(ws []wdesc) bool {
	for _, d := range ws {
		if d.kind == "cbk" {
			if s := d.key[4]; s != 0 && s != 16 && s != 32 && s != 64 && s != 128 {
				return true
			}
		}
	}
	return false
}
func kindsOfW(ws []wdesc) string {
	s := make([]string, len(ws))
	for i := range ws {
		s[i] = ws[i].kind
	}
	return strings.Join(s, "+")
}

// domainShape classifies a domain list for the finding key: plain | empty-label | long-label | both
func domainShape(ds []string) string {
	empty, long := false, false
	for _, d := range ds {
		for _, l := range strings.Split(d, ".") {
			if len(l) == 0 {
				empty = true
			}
			if len(l) > 63 {
				long = true
			}
		}
	}
	switch {
	case empty && long:
		return "empty+long-label"
	case empty:
		return "empty-label"
	case long:
		return "long-label"
	}
	return "plain"
}
