package main

// C07, extension round 3: encoding/hex and encoding/base64 (StdEncoding) are no longer parameters of
// the model. The Lean models XMT/HexCodec.lean and XMT/B64Codec.lean (streaming encoder and decoder
// state machines, transcribed from the toolchain's standard library source) are compared here with
// the REAL standard library through the REAL wrappers (wrapper.Hex, wrapper.Base64) and the real
// transform (transform.B64): every Write call the encoders make below, every Read the decoders
// answer (bytes and error class), for all small lengths, the chunk boundaries of both codecs, random
// write chunkings, random wire chunkings (empty pieces, EOF with or after the last bytes), random
// Read sizes (0 included) and malformed streams (odd hex length, bad alphabet, bad / missing /
// misplaced padding, new-lines, trailing garbage).

import (
	"bytes"
	"encoding/base64"
	"encoding/hex"
	"errors"
	"fmt"
	"go/ast"
	"go/parser"
	"go/printer"
	"go/token"
	"io"
	"os"
	"os/exec"
	"path/filepath"
	"runtime"
	"sort"
	"strconv"
	"strings"

	"github.com/iDigitalFlame/xmt/c2/cfg"
	"github.com/iDigitalFlame/xmt/c2/transform"
	"github.com/iDigitalFlame/xmt/c2/wrapper"
)

func s3GoRoot() string {
	if g := runtime.GOROOT(); g != "" {
		if _, err := os.Stat(filepath.Join(g, "src", "encoding", "hex", "hex.go")); err == nil {
			return g
		}
	}
	out, err := exec.Command("go", "env", "GOROOT").Output()
	if err != nil {
		return ""
	}
	return strings.TrimSpace(string(out))
}

// s3ArrayLen returns the length N of field `field [N]T` of struct type `typ` in file f.
func s3ArrayLen(f *ast.File, typ, field string) (uint64, bool) {
	var res uint64
	ok := false
	ast.Inspect(f, func(n ast.Node) bool {
		ts, is := n.(*ast.TypeSpec)
		if !is || ts.Name.Name != typ {
			return true
		}
		st, is := ts.Type.(*ast.StructType)
		if !is {
			return true
		}
		for _, fl := range st.Fields.List {
			for _, nm := range fl.Names {
				if nm.Name != field {
					continue
				}
				if at, is := fl.Type.(*ast.ArrayType); is && at.Len != nil {
					if v, good := s3ConstExpr(f, at.Len); good {
						res, ok = v, true
					}
				}
			}
		}
		return false
	})
	return res, ok
}

// s3ConstExpr evaluates integer literals, named constants of the file and * / of them.
func s3ConstExpr(f *ast.File, e ast.Expr) (uint64, bool) {
	switch x := e.(type) {
	case *ast.BasicLit:
		v, err := strconv.ParseUint(x.Value, 0, 64)
		return v, err == nil
	case *ast.ParenExpr:
		return s3ConstExpr(f, x.X)
	case *ast.Ident:
		var res uint64
		ok := false
		ast.Inspect(f, func(n ast.Node) bool {
			vs, is := n.(*ast.ValueSpec)
			if !is {
				return true
			}
			for i, nm := range vs.Names {
				if nm.Name == x.Name && i < len(vs.Values) {
					res, ok = s3ConstExpr(f, vs.Values[i])
				}
			}
			return true
		})
		return res, ok
	case *ast.BinaryExpr:
		a, ok1 := s3ConstExpr(f, x.X)
		b, ok2 := s3ConstExpr(f, x.Y)
		if !ok1 || !ok2 {
			return 0, false
		}
		switch x.Op {
		case token.MUL:
			return a * b, true
		case token.QUO:
			if b == 0 {
				return 0, false
			}
			return a / b, true
		case token.ADD:
			return a + b, true
		}
	}
	return 0, false
}

func s3Expr(fs *token.FileSet, e ast.Node) string {
	var b bytes.Buffer
	printer.Fprint(&b, fs, e)
	return strings.Join(strings.Fields(b.String()), " ")
}

func s3StrList(v []string) string {
	q := make([]string, len(v))
	for i := range v {
		q[i] = strconv.Quote(v[i])
	}
	return "[" + strings.Join(q, ", ") + "]"
}

func init() {
	factProviders = append(factProviders, func(f *factSet, repo string) error {
		root := s3GoRoot()
		fs := token.NewFileSet()
		hf, err := parser.ParseFile(fs, filepath.Join(root, "src", "encoding", "hex", "hex.go"), nil, 0)
		if err != nil {
			return fmt.Errorf("C07 facts: %w", err)
		}
		v, ok := s3ConstExpr(hf, &ast.Ident{Name: "bufferSize"})
		if !ok {
			return errors.New("C07 facts: encoding/hex bufferSize not found")
		}
		f.Nat("hexBufferSize", v)
		bf, err := parser.ParseFile(fs, filepath.Join(root, "src", "encoding", "base64", "base64.go"), nil, 0)
		if err != nil {
			return fmt.Errorf("C07 facts: %w", err)
		}
		if v, ok = s3ArrayLen(bf, "encoder", "out"); !ok {
			return errors.New("C07 facts: base64 encoder.out not found")
		}
		f.Nat("b64EncOut", v)
		if v, ok = s3ArrayLen(bf, "decoder", "buf"); !ok {
			return errors.New("C07 facts: base64 decoder.buf not found")
		}
		f.Nat("b64DecBuf", v)

		// c2/wrapper/simple.go: which standard library constructors the Hex / Base64 wrappers are
		sf, err := parser.ParseFile(fs, filepath.Join(repo, "c2", "wrapper", "simple.go"), nil, 0)
		if err != nil {
			return fmt.Errorf("C07 facts: %w", err)
		}
		var calls []string
		for _, d := range sf.Decls {
			fn, is := d.(*ast.FuncDecl)
			if !is || fn.Recv == nil || (fn.Name.Name != "Wrap" && fn.Name.Name != "Unwrap") {
				continue
			}
			ast.Inspect(fn.Body, func(n ast.Node) bool {
				cc, is := n.(*ast.CaseClause)
				if !is {
					return true
				}
				lab := make([]string, len(cc.List))
				for i := range cc.List {
					lab[i] = s3Expr(fs, cc.List[i])
				}
				for _, st := range cc.Body {
					calls = append(calls, fn.Name.Name+" "+strings.Join(lab, ",")+": "+s3Expr(fs, st))
				}
				return true
			})
		}
		sort.Strings(calls)
		f.Raw("simpleWrapperCalls", "List String", s3StrList(calls))

		// every wrapper implementation of c2/wrapper (types with Wrap and Unwrap methods; for the
		// enum-like ones their constants)
		ents, err := os.ReadDir(filepath.Join(repo, "c2", "wrapper"))
		if err != nil {
			return fmt.Errorf("C07 facts: %w", err)
		}
		has := map[string]int{}
		consts := map[string][]string{}
		for _, e := range ents {
			if e.IsDir() || !strings.HasSuffix(e.Name(), ".go") || strings.HasSuffix(e.Name(), "_test.go") {
				continue
			}
			wf, err := parser.ParseFile(fs, filepath.Join(repo, "c2", "wrapper", e.Name()), nil, 0)
			if err != nil {
				return fmt.Errorf("C07 facts: %w", err)
			}
			for _, d := range wf.Decls {
				switch x := d.(type) {
				case *ast.FuncDecl:
					if x.Recv == nil || len(x.Recv.List) != 1 {
						continue
					}
					t := strings.TrimPrefix(s3Expr(fs, x.Recv.List[0].Type), "*")
					if x.Name.Name == "Wrap" {
						has[t] |= 1
					}
					if x.Name.Name == "Unwrap" {
						has[t] |= 2
					}
				case *ast.GenDecl:
					if x.Tok != token.CONST {
						continue
					}
					for _, sp := range x.Specs {
						vs := sp.(*ast.ValueSpec)
						for i, nm := range vs.Names {
							if i < len(vs.Values) {
								if ce, is := vs.Values[i].(*ast.CallExpr); is {
									if id, is := ce.Fun.(*ast.Ident); is {
										consts[id.Name] = append(consts[id.Name], nm.Name)
									}
								}
							}
						}
					}
				}
			}
		}
		var kinds []string
		for t, m := range has {
			if m != 3 {
				continue
			}
			if cs := consts[t]; len(cs) > 0 {
				for _, cn := range cs {
					kinds = append(kinds, t+":"+cn)
				}
			} else {
				kinds = append(kinds, t)
			}
		}
		sort.Strings(kinds)
		f.Raw("wrapperKinds", "List String", s3StrList(kinds))
		return nil
	})
}

// s3Reader is the reader below of the Lean models (HexCodec.Src): one piece (or the part of it that
// fits) per Read, an empty piece is a (0, nil) Read, io.EOF with the last bytes (withEOF) or after.
type s3Reader struct {
	P       [][]byte
	withEOF bool
}

func (p *s3Reader) Read(b []byte) (int, error) {
	if len(p.P) == 0 {
		return 0, io.EOF
	}
	h := p.P[0]
	if len(h) <= len(b) {
		n := copy(b, h)
		p.P = p.P[1:]
		if p.withEOF && len(p.P) == 0 {
			return n, io.EOF
		}
		return n, nil
	}
	n := copy(b, h)
	p.P[0] = h[n:]
	return n, nil
}

func s3ErrName(e error) string {
	var ib hex.InvalidByteError
	var ci base64.CorruptInputError
	switch {
	case e == nil:
		return "nil"
	case e == io.EOF:
		return "eof"
	case e == io.ErrUnexpectedEOF:
		return "ueof"
	case errors.Is(e, hex.ErrLength):
		return "length"
	case errors.As(e, &ib):
		return "invalid:" + strconv.Itoa(int(byte(ib)))
	case errors.As(e, &ci):
		return "corrupt"
	}
	return "other:" + e.Error()
}

// c07s3Split cuts b into pieces; unlike Rng.Split it also produces empty pieces.
func c07s3Split(r *Rng, b []byte) [][]byte {
	p := r.Split(b)
	if r.Chance(35) {
		var q [][]byte
		for _, x := range p {
			if r.Chance(30) {
				q = append(q, []byte{})
			}
			q = append(q, x)
		}
		if r.Chance(50) {
			q = append(q, []byte{})
		}
		p = q
	}
	return p
}

// s3SplitWire is c07s3Split for short streams; long ones are cut into few large pieces (plus the odd
// empty or tiny one) - the model's reader is quadratic in pieces x Reads.
func s3SplitWire(r *Rng, b []byte) [][]byte {
	if len(b) <= 1200 {
		return c07s3Split(r, b)
	}
	var out [][]byte
	for len(b) > 0 {
		n := 1 + r.Intn(900)
		if r.Chance(15) {
			n = 1 + r.Intn(4)
		}
		if n > len(b) {
			n = len(b)
		}
		out = append(out, b[:n])
		if r.Chance(10) {
			out = append(out, []byte{})
		}
		b = b[n:]
	}
	return out
}

func s3Copy(p [][]byte) [][]byte {
	q := make([][]byte, len(p))
	for i := range p {
		q[i] = append([]byte{}, p[i]...)
	}
	return q
}

// s3Reads issues Reads with buffer sizes from pat (cycled) until an error or maxReads; returns the
// pieces delivered, the sizes asked for and the terminating error (nil: gave up).
func s3Reads(rd io.Reader, pat []int, maxReads int) (got [][]byte, ks []int, rerr error, pan string) {
	_, pan = guard(func() error {
		for i := 0; i < maxReads; i++ {
			k := pat[i%len(pat)]
			buf := make([]byte, k)
			n, err := rd.Read(buf)
			ks = append(ks, k)
			got = append(got, append([]byte{}, buf[:n]...))
			if err != nil {
				rerr = err
				return nil
			}
		}
		return nil
	})
	return
}

func s3Pat(r *Rng) []int {
	switch r.Intn(7) {
	case 0:
		return []int{512}
	case 1:
		return []int{1}
	case 2:
		return []int{1 + r.Intn(7), 0, 1 + r.Intn(300), 2}
	case 3:
		return []int{3, 4, 5, 767, 768, 769, 2}
	case 4:
		return []int{1024, 1, 1025, 2}
	case 5:
		return []int{1 + r.Intn(12)}
	}
	return []int{1 + r.Intn(5000)}
}

var s3LenPool = []int{255, 256, 257, 383, 384, 385, 511, 512, 513, 575, 576, 577, 766, 767, 768, 769, 770,
	1023, 1024, 1025, 1151, 1152, 1153, 1535, 1536, 1537, 2047, 2048, 2049, 2303, 2304, 2305, 3071, 3072, 3073}

func s3Len(r *Rng, i, small, big int) int {
	if i <= small {
		return i // every length 0..small: every residue mod 3 and mod 4
	}
	switch x := r.Intn(10); {
	case x < 5:
		return s3LenPool[r.Intn(len(s3LenPool))]
	case x < 8:
		return r.Intn(200)
	}
	return r.Intn(big + 1)
}

func runC07S3(c *Ctx) {
	big := c.N(4000, 8000)
	small := c.N(70, 200)

	// readBack runs the real decoder of wrapper w over the wire pieces and compares every Read with
	// the model (op `name`), returning the concatenation and the final error.
	readBack := func(r *Rng, w cfg.Wrapper, name string, wire [][]byte, in map[string]interface{}) ([]byte, error, bool) {
		withEOF := r.Bool()
		wireHex := hxChunks(wire)
		total := 0
		for _, x := range wire {
			total += len(x)
		}
		var rd io.Reader
		if _, pan := guard(func() (err error) { rd, err = w.Unwrap(&s3Reader{P: s3Copy(wire), withEOF: withEOF}); return }); pan != "" || rd == nil {
			c.Fail("panic", "panic:"+name+".Unwrap", pan, in)
			return nil, nil, false
		}
		pat := s3Pat(r)
		got, ks, rerr, pan := s3Reads(rd, pat, total+len(wire)+8)
		if pan != "" {
			c.Fail("panic", "panic:"+name+".Read", pan, in)
			return nil, nil, false
		}
		c.Op(fmt.Sprintf("%s %d %s %s", name, btoi(withEOF), wireHex, intsCSV(ks)), "ok "+hxChunks(got)+" "+s3ErrName(rerr))
		return joinB(got), rerr, true
	}

	// A. Hex wrapper
	c.Cases("hex-s3", c.N(260, 1200), func(r *Rng, i int) {
		n := s3Len(r, i, small, big)
		payload := r.Bytes(n)
		pieces := c07s3Split(r, payload)
		in := map[string]interface{}{"len": n, "pieces": len(pieces), "payload": hx(payload)}
		var sink recSink
		if err, pan := writeThrough(wrapper.Hex, &sink, pieces); err != nil || pan != "" {
			c.Fail("roundtrip", "hex-s3-write", fmt.Sprint(err, pan), in)
			return
		}
		c.Op("hexw "+hxChunks(pieces), "ok "+hxChunks(sink.w))
		if sink.closed != 0 {
			c.Fail("close", "hex-s3-closes-under", "the Hex wrapper closed the writer below", in)
		}
		all := sink.all()
		if !bytes.Equal(all, []byte(hex.EncodeToString(payload))) {
			c.Fail("roundtrip", "hex-s3-encoding", "wire bytes are not the hex encoding of the payload", in)
		}
		c.Count("hex:mod2k=" + strconv.Itoa(btoi(n > 512)))
		got, rerr, ok := readBack(r, wrapper.Hex, "hexr", c07s3Split(r, all), in)
		if !ok {
			return
		}
		if rerr != io.EOF || !bytes.Equal(got, payload) {
			c.Fail("roundtrip", "hex-s3-roundtrip", fmt.Sprintf("Hex read back %d/%d bytes, err %v", len(got), n, rerr), in)
		}
		// malformed streams: model and standard library must agree on every Read and on the error class
		if len(all) > 0 || r.Chance(50) {
			bad := append([]byte{}, all...)
			kind := r.Intn(6)
			switch kind {
			case 0: // odd length
				if len(bad) > 0 {
					bad = bad[:len(bad)-1]
				} else {
					bad = []byte{'a'}
				}
			case 1: // bad alphabet somewhere
				if len(bad) > 0 {
					bad[r.Intn(len(bad))] = []byte{'g', 'G', 0, 0xff, '=', ' ', '/', ':', '@', '`'}[r.Intn(10)]
				} else {
					bad = []byte{'x', 'y'}
				}
			case 2: // upper case digits (valid)
				bad = bytes.ToUpper(bad)
			case 3: // one extra valid digit at the end
				bad = append(bad, "0123456789abcdefABCDEF"[r.Intn(22)])
			case 4: // one extra invalid byte at the end
				bad = append(bad, []byte{'z', '\n', 0x80}[r.Intn(3)])
			case 5: // bad alphabet in the last pair
				if len(bad) > 0 {
					bad[len(bad)-1-r.Intn(2)%len(bad)] = 'h'
				}
			}
			c.Count("hex:malformed=" + strconv.Itoa(kind))
			in2 := map[string]interface{}{"wire": hx(bad), "kind": kind}
			g2, e2, ok := readBack(r, wrapper.Hex, "hexr", c07s3Split(r, bad), in2)
			if ok && e2 == io.EOF && len(bad)%2 == 1 {
				c.Fail("malformed", "hex-s3-odd-accepted", fmt.Sprintf("odd-length hex stream read to EOF without error (%d bytes)", len(g2)), in2)
			}
		}
		c.Eval(n > 512 || len(pieces) > 1, "hex"+strconv.Itoa(n)+"/"+strconv.Itoa(len(pieces)))
	})

	// B. Base64 wrapper
	c.Cases("b64-s3", c.N(300, 1500), func(r *Rng, i int) {
		n := s3Len(r, i, small, big)
		payload := r.Bytes(n)
		pieces := c07s3Split(r, payload)
		in := map[string]interface{}{"len": n, "pieces": len(pieces), "payload": hx(payload)}
		var sink recSink
		if err, pan := writeThrough(wrapper.Base64, &sink, pieces); err != nil || pan != "" {
			c.Fail("roundtrip", "b64-s3-write", fmt.Sprint(err, pan), in)
			return
		}
		c.Op("b64ew "+hxChunks(pieces), "ok "+hxChunks(sink.w))
		if sink.closed != 0 {
			c.Fail("close", "b64-s3-closes-under", "the Base64 wrapper closed the writer below", in)
		}
		all := sink.all()
		if !bytes.Equal(all, []byte(base64.StdEncoding.EncodeToString(payload))) {
			c.Fail("chunking", "b64-s3-encoding", "wire bytes are not the base64 encoding of the payload (write chunking leaked)", in)
		}
		c.Count("b64:mod3=" + strconv.Itoa(n%3))
		got, rerr, ok := readBack(r, wrapper.Base64, "b64er", s3SplitWire(r, all), in)
		if !ok {
			return
		}
		if rerr != io.EOF || !bytes.Equal(got, payload) {
			c.Fail("roundtrip", "b64-s3-roundtrip", fmt.Sprintf("Base64 read back %d/%d bytes, err %v", len(got), n, rerr), in)
		}
		// the transform on the same payload (encoder + Close in one go; Decode on the whole text)
		shift := []int{0, 0, 1, 128, 255, r.Intn(256)}[r.Intn(6)]
		var out, back bytes.Buffer
		tw := append([]byte{}, payload...)
		if err, pan := guard(func() error { return transform.B64(shift).Write(tw, &out) }); err != nil || pan != "" {
			c.Fail("roundtrip", "b64-s3-twrite", fmt.Sprint(err, pan), in)
			return
		}
		c.Op(fmt.Sprintf("b64tw %d %s", shift, hx(payload)), "ok "+hx(out.Bytes()))
		text := append([]byte{}, out.Bytes()...)
		err, pan := guard(func() error { return transform.B64(shift).Read(text, &back) })
		if pan != "" {
			c.Fail("panic", "panic:transform.B64.Read", pan, in)
			return
		}
		if err != nil || !bytes.Equal(back.Bytes(), payload) {
			c.Fail("roundtrip", "b64-s3-troundtrip", fmt.Sprintf("B64(%d) transform read back differs (err %v)", shift, err), in)
		}
		c.Op(fmt.Sprintf("b64td %d %s", shift, hx(out.Bytes())), "ok "+hx(back.Bytes()))

		// malformed streams
		bad := append([]byte{}, all...)
		kind := r.Intn(9)
		pos := func() int {
			if len(bad) == 0 {
				return 0
			}
			if r.Chance(50) { // near the end: the padding rules live there
				return len(bad) - 1 - r.Intn(minC07(len(bad), 5))
			}
			return r.Intn(len(bad))
		}
		ins := func(at int, x ...byte) {
			bad = append(bad[:at:at], append(x, bad[at:]...)...)
		}
		switch kind {
		case 0: // truncated: length not a multiple of 4
			if len(bad) > 0 {
				bad = bad[:len(bad)-1-r.Intn(minC07(len(bad), 3))]
			} else {
				bad = []byte("QUJ")[:1+r.Intn(3)]
			}
		case 1: // bad alphabet
			if len(bad) > 0 {
				bad[pos()] = []byte{'-', '_', 0, 0xff, ' ', '.', '@', '[', '`', '{'}[r.Intn(10)]
			} else {
				bad = []byte("A-AA")
			}
		case 2: // padding where a digit should be
			if len(bad) > 0 {
				bad[pos()] = '='
			} else {
				bad = [][]byte{[]byte("===="), []byte("A==="), []byte("=AAA"), []byte("AA=A"), []byte("AAA="), []byte("AA==")}[r.Intn(6)]
			}
		case 3: // data after the padding
			bad = append(bad, [][]byte{[]byte("QUJD"), []byte("="), []byte("Q"), []byte("\n"), []byte("QQ==")}[r.Intn(5)]...)
		case 4: // new-lines inside (valid: they are skipped)
			for k := 1 + r.Intn(4); k > 0; k-- {
				ins(r.Intn(len(bad)+1), []byte{'\n', '\r'}[r.Intn(2)])
			}
		case 5: // a run of new-lines long enough to fill whole read buffers
			ins(r.Intn(len(bad)+1), bytes.Repeat([]byte{'\n'}, 1+r.Intn(9))...)
		case 6: // two streams back to back (padding in the middle)
			bad = append(bad, bad...)
		case 7: // digit after one '='
			if len(bad) >= 2 {
				bad[len(bad)-2] = '='
				bad[len(bad)-1] = 'A'
			} else {
				bad = []byte("AA=A")
			}
		case 8: // only padding / only new-lines
			bad = [][]byte{[]byte("="), []byte("=="), []byte("\n"), []byte("\r\n\r\n"), []byte("A"), []byte("AA"), []byte("AAA")}[r.Intn(7)]
		}
		c.Count("b64:malformed=" + strconv.Itoa(kind))
		in2 := map[string]interface{}{"wire": hx(bad), "kind": kind}
		readBack(r, wrapper.Base64, "b64er", s3SplitWire(r, bad), in2)
		// … and through the transform's whole-buffer Decode
		var back2 bytes.Buffer
		text2 := append([]byte{}, bad...)
		err, pan = guard(func() error { return transform.B64(shift).Read(text2, &back2) })
		if pan != "" {
			c.Fail("panic", "panic:transform.B64.Read", pan, in2)
			return
		}
		if err != nil {
			if back2.Len() != 0 {
				c.Fail("malformed", "b64-s3-partial-write", "B64.Read wrote output although it returned an error", in2)
			}
			c.Op(fmt.Sprintf("b64td %d %s", shift, hx(bad)), "err "+s3ErrName(err))
		} else {
			c.Op(fmt.Sprintf("b64td %d %s", shift, hx(bad)), "ok "+hx(back2.Bytes()))
		}
		c.Eval(n > 768 || len(pieces) > 1, "b64"+strconv.Itoa(n)+"/"+strconv.Itoa(len(pieces))+"/"+strconv.Itoa(kind))
	})

	// C. stacks made only of layers that have a proved model: XOR, CBK, Hex, Base64
	c.Cases("stack-s3", c.N(160, 600), func(r *Rng, i int) {
		depth := 1 + r.Intn(4)
		ws := make([]wdesc, depth)
		ok := true
		for j := range ws {
			ws[j] = genW(r, []string{"xor", "cbk", "hex", "b64", "hex", "b64"}[r.Intn(6)])
			if ws[j].kind == "cbk" {
				k := ws[j].key[4]
				if !(k == 0 || k == 16 || k == 32 || k == 64 || k == 128) {
					ok = false
				}
			}
		}
		if !ok {
			c.Eval(false, "")
			return
		}
		n := s3Len(r, i, 40, 1500)
		if n > 1500 {
			n = 1500
		}
		payload := r.Bytes(n)
		pieces := c07s3Split(r, payload)
		in := map[string]interface{}{"stack": descs(ws), "len": n, "payload": hx(payload)}
		w, _, err := buildProfile(ws, tdesc{kind: "none"})
		if err != nil || w == nil {
			c.Fail("build", "stack-s3-build", fmt.Sprint(err), in)
			return
		}
		var sink recSink
		if err, pan := writeThrough(w, &sink, pieces); err != nil || pan != "" {
			c.Fail("roundtrip", "stack-s3-write", fmt.Sprint(err, pan), in)
			return
		}
		wire := sink.all()
		c.Op("stackw3 "+s3Descs(ws)+" "+hxChunks(pieces), "ok "+hx(wire))
		got, rerr, pan := readThrough(w, r.Split(wire), genReqs(r), n+1)
		if pan != "" {
			c.Fail("panic", "panic:stack.Read", pan, in)
			return
		}
		if rerr != io.EOF || !bytes.Equal(joinB(got), payload) {
			c.Fail("roundtrip", "stack-s3-roundtrip", fmt.Sprintf("stack read back %d/%d bytes, err %v", len(joinB(got)), n, rerr), in)
		}
		c.Op("stackr3 "+s3Descs(ws)+" "+hx(wire), "ok "+hx(payload))
		c.Count("stack-s3:depth=" + strconv.Itoa(depth))
		c.Eval(depth >= 2, s3Descs(ws)+strconv.Itoa(n))
	})
}

func s3Descs(ws []wdesc) string {
	s := make([]string, len(ws))
	for i, d := range ws {
		switch d.kind {
		case "hex", "b64":
			s[i] = d.kind
		default:
			s[i] = d.String()
		}
	}
	return strings.Join(s, ",")
}
