package main

// C08 — a binary profile built from settings means exactly those settings.
// Also holds the helpers shared with C09 (real-code runners with panic containment, canonical
// rendering of Build results, certificate material, the setting generators).

import (
	"bytes"
	"crypto/ed25519"
	"crypto/rand"
	"crypto/x509"
	"crypto/x509/pkix"
	"encoding/pem"
	"errors"
	"fmt"
	"math/big"
	"os"
	"sort"
	"strconv"
	"strings"
	"sync/atomic"
	"time"

	"github.com/iDigitalFlame/xmt/c2/cfg"
	"github.com/iDigitalFlame/xmt/data"
)

// ---- watchdog: a parser that loops must not hang the run ----------------------------------------

var cfgWatch atomic.Value // string: the input being processed
var cfgWatchTick atomic.Int64

func cfgWatchdog() {
	go func() {
		last, since := int64(-1), time.Now()
		for {
			time.Sleep(500 * time.Millisecond)
			t := cfgWatchTick.Load()
			if t != last {
				last, since = t, time.Now()
				continue
			}
			if time.Since(since) > 60*time.Second {
				in, _ := cfgWatch.Load().(string)
				if len(in) > 4000 {
					in = in[:4000] + "..."
				}
				fmt.Printf("TIMEOUT: cfg parser entry point did not return within 60s on input %s\n", in)
				os.Exit(3)
			}
		}
	}()
}
func cfgBegin(in string) { cfgWatch.Store(in); cfgWatchTick.Add(1) }

// ---- certificate material ----------------------------------------------------------------------

type cfgMat struct{ cert, key []byte }

var cfgMatCache *cfgMat

// cfgMaterial returns a genuine self-signed certificate and its key (PEM), generated
// deterministically (ed25519 from a fixed seed, fixed serial and validity).
func cfgMaterial() cfgMat {
	if cfgMatCache != nil {
		return *cfgMatCache
	}
	seed := bytes.Repeat([]byte{0x42}, ed25519.SeedSize)
	k := ed25519.NewKeyFromSeed(seed)
	t := &x509.Certificate{
		SerialNumber: big.NewInt(77), Subject: pkix.Name{CommonName: "verif"},
		NotBefore: time.Unix(1600000000, 0), NotAfter: time.Unix(4000000000, 0),
		IsCA: true, BasicConstraintsValid: true, KeyUsage: x509.KeyUsageCertSign | x509.KeyUsageDigitalSignature,
	}
	der, err := x509.CreateCertificate(rand.Reader, t, t, k.Public(), k)
	if err != nil {
		panic(err)
	}
	kd, err := x509.MarshalPKCS8PrivateKey(k)
	if err != nil {
		panic(err)
	}
	m := cfgMat{
		cert: pem.EncodeToMemory(&pem.Block{Type: "CERTIFICATE", Bytes: der}),
		key:  pem.EncodeToMemory(&pem.Block{Type: "PRIVATE KEY", Bytes: kd}),
	}
	cfgMatCache = &m
	return m
}

// padTo returns b followed by filler up to n bytes (PEM parsers ignore trailing text); when
// n < len(b) the material is cut (and is then no longer valid).
func padTo(b []byte, n int) []byte {
	if n <= len(b) {
		return append([]byte(nil), b[:n]...)
	}
	o := make([]byte, n)
	copy(o, b)
	for i := len(b); i < n; i++ {
		o[i] = "#pad\n"[(i-len(b))%5]
	}
	return o
}

// ---- running the real code with panic containment ----------------------------------------------

func cfgErrLine(err error) string {
	if err == nil {
		return "ok"
	}
	s, label := err.Error(), ""
	if k := strings.Index(s, ": "); k >= 0 {
		label = s[:k]
	}
	switch {
	case errors.Is(err, cfg.ErrInvalidSetting):
		return "err:" + label + ":invalid"
	case errors.Is(err, cfg.ErrMultipleConnections):
		return "err:" + label + ":multiconn"
	case errors.Is(err, cfg.ErrMultipleTransforms):
		return "err:" + label + ":multitrans"
	}
	return "err:" + label + ":ext"
}

// exact returns a copy with cap == len (Go checks slice bounds against the capacity; the model's
// capacity is the length).
func exact(b []byte) cfg.Config {
	if len(b) == 0 {
		return cfg.Config{}
	}
	o := make([]byte, len(b))
	copy(o, b)
	return cfg.Config(o[:len(o):len(o)])
}

func guardC08(entry string, fn func()) (pan string) {
	defer func() {
		if e := recover(); e != nil {
			pan = fmt.Sprint(e)
		}
	}()
	fn()
	return ""
}

type cfgBuilt struct {
	line  string // nil | ok <dump> | err:l:c | panic
	err   error
	pan   string
	vb    cfg.VerifBuilt
	prof  cfg.Profile
	table string // successful NewTLSConfig argument triples, for the model
}

func canonEntries(vb cfg.VerifBuilt) string {
	switch vb.Kind {
	case "nil":
		return "nil"
	case "profile":
		return vb.Entries[0]
	}
	type ent struct {
		w int
		s string
	}
	es := make([]ent, len(vb.Entries))
	for i := range es {
		es[i] = ent{vb.Weights[i], vb.Entries[i]}
	}
	sort.SliceStable(es, func(i, j int) bool {
		if es[i].w != es[j].w {
			return es[i].w > es[j].w
		}
		return es[i].s < es[j].s
	})
	s := make([]string, len(es))
	for i := range es {
		s[i] = es[i].s
	}
	return "G{sel=" + strconv.Itoa(vb.Sel) + ";" + strings.Join(s, "|") + "}"
}

func cfgRunBuild(c cfg.Config) cfgBuilt {
	var r cfgBuilt
	var tab []string
	seen := map[string]bool{}
	cfg.VerifReset()
	cfg.VerifTLSLog = func(t cfg.VerifTLSCall) {
		if t.OK {
			k := hx(t.CA) + ":" + hx(t.PEM) + ":" + hx(t.Key)
			if !seen[k] {
				seen[k] = true
				tab = append(tab, k)
			}
		}
	}
	r.pan = guardC08("Build", func() { r.prof, r.err = c.Build() })
	cfg.VerifTLSLog = nil
	r.table = "."
	if len(tab) > 0 {
		r.table = strings.Join(tab, ",")
	}
	switch {
	case r.pan != "":
		r.line = "panic"
	case r.err != nil:
		r.line = cfgErrLine(r.err)
	default:
		r.vb = cfg.VerifDump(r.prof)
		if r.vb.Kind == "nil" {
			r.line = "nil"
		} else {
			r.line = "ok " + canonEntries(r.vb)
		}
	}
	return r
}

func cfgRunValidate(c cfg.Config) (string, error, string) {
	var err error
	if p := guardC08("Validate", func() { err = c.Validate() }); p != "" {
		return "panic", nil, p
	}
	return cfgErrLine(err), err, ""
}

type cfgAll struct {
	v, g, j, s string
	b          cfgBuilt
	verr       error
	groups     int
	pans       []string // entry points that panicked
}

func (a cfgAll) line() string {
	return "v=" + a.v + " g=" + a.g + " j=" + a.j + " s=" + a.s + " b=" + a.b.line
}

// cfgRunAll calls every parsing entry point of the real code on c.
func cfgRunAll(c cfg.Config) cfgAll {
	var a cfgAll
	cfgBegin(hx(c))
	var p string
	if a.v, a.verr, p = cfgRunValidate(c); p != "" {
		a.pans = append(a.pans, "Validate")
	}
	a.b = cfgRunBuild(c)
	if a.b.pan != "" {
		a.pans = append(a.pans, "Build")
	}
	if p = guardC08("Groups", func() { a.groups = c.Groups() }); p != "" {
		a.g, a.pans = "panic", append(a.pans, "Groups")
	} else {
		a.g = strconv.Itoa(a.groups)
	}
	var jerr error
	if p = guardC08("MarshalJSON", func() { _, jerr = c.MarshalJSON() }); p != "" {
		a.j, a.pans = "panic", append(a.pans, "MarshalJSON")
	} else {
		a.j = cfgErrLine(jerr)
	}
	if p = guardC08("String", func() { _ = c.String() }); p != "" {
		a.s, a.pans = "panic", append(a.pans, "String")
	} else {
		a.s = "ok"
	}
	return a
}

func cfgRunGroup(c cfg.Config, p int) (string, []byte, bool) {
	var g cfg.Config
	if pn := guardC08("Group", func() { g = c.Group(p) }); pn != "" {
		return "panic", nil, true
	}
	if g == nil {
		return "nil", nil, false
	}
	return hx(g), g, false
}

// cfgCommonOracles evaluates, on the real code only, what C08 and C09 both state about ANY bytes:
// no panic, validate <=> build (certificate/key contents aside), source retention, partition.
func cfgCommonOracles(c *Ctx, raw cfg.Config, a cfgAll, in interface{}) {
	for _, e := range a.pans {
		c.Fail("no-panic", "panic:"+e, "cfg.Config."+e+" panicked", in)
	}
	if a.v != "panic" && a.b.pan == "" {
		vok, bok := a.verr == nil, a.b.err == nil
		bext := a.b.err != nil && strings.HasSuffix(a.b.line, ":ext")
		switch {
		case vok && !bok && !bext:
			c.Fail("validate-iff-build", "validate-ok-build-fails:"+a.b.line, "Validate() accepts but Build() returns "+a.b.err.Error(), in)
		case !vok && bok:
			c.Fail("validate-iff-build", "build-ok-validate-fails:"+a.v, "Build() accepts but Validate() returns "+a.verr.Error(), in)
		}
	}
	if a.b.pan == "" && a.b.err == nil && a.b.vb.Kind != "nil" {
		if !bytes.Equal(a.b.vb.Src, raw) {
			c.Fail("marshal-binary", "marshal:src", "the built profile does not retain the identical bytes", in)
		}
		if m, ok := a.b.prof.(interface{ MarshalBinary() ([]byte, error) }); ok {
			b, err := m.MarshalBinary()
			if err != nil || !bytes.Equal(b, raw) {
				c.Fail("marshal-binary", "marshal:binary", "MarshalBinary does not hand back the identical bytes", in)
			}
		}
		for i := 1; i < len(a.b.vb.Weights); i++ {
			if a.b.vb.Weights[i] > a.b.vb.Weights[i-1] {
				c.Fail("sort", "sort:weights", "group entries are not in descending weight order", in)
				break
			}
		}
	}
	// partition: the groups, joined by the separator, are the config
	if a.g != "panic" && len(raw) > 0 && a.groups <= 4096 {
		var parts [][]byte
		bad := false
		for p := 0; p < a.groups; p++ {
			_, g, pn := cfgRunGroup(raw, p)
			if pn {
				c.Fail("no-panic", "panic:Group", "cfg.Config.Group panicked", in)
				bad = true
				break
			}
			parts = append(parts, g)
		}
		if !bad && !bytes.Equal(bytes.Join(parts, []byte{byte(cfg.Separator)}), raw) {
			c.Fail("partition", "groups:partition", "Group(0..Groups-1) joined by the separator is not the config", in)
		}
	}
}

// ---- Go-side meaning (independent of the Lean model) ------------------------------------------

type eProf struct {
	hosts   [][]byte
	sleep   int64
	jit     int
	kill    *int64
	work    *[5]int
	keys    []uint32
	weight  int
	conn    string
	wraps   []string
	trans   string
	nconn   int
	ntrans  int
	encoded bool
}

func hxListC08(l [][]byte) string {
	s := make([]string, len(l))
	for i := range l {
		s[i] = hx(l[i])
	}
	return strings.Join(s, ",")
}

func (e *eProf) dump() string {
	var b strings.Builder
	b.WriteString("P{hosts=" + hxListC08(e.hosts) + ";sleep=" + strconv.FormatInt(e.sleep, 10) + ";jit=" + strconv.Itoa(e.jit))
	if e.kill == nil {
		b.WriteString(";kill=-")
	} else {
		b.WriteString(";kill=" + strconv.FormatInt(*e.kill, 10))
	}
	if e.work == nil {
		b.WriteString(";work=-")
	} else {
		w := e.work
		b.WriteString(fmt.Sprintf(";work=%d.%d.%d.%d.%d", w[0], w[1], w[2], w[3], w[4]))
	}
	k := make([]string, len(e.keys))
	for i := range k {
		k[i] = strconv.FormatUint(uint64(e.keys[i]), 10)
	}
	conn, wr, tr := e.conn, "-", e.trans
	if conn == "" {
		conn = "-"
	}
	if len(e.wraps) > 0 {
		wr = strings.Join(e.wraps, "+")
	}
	if tr == "" {
		tr = "-"
	}
	b.WriteString(";keys=" + strings.Join(k, ",") + ";w=" + strconv.Itoa(e.weight) + ";conn=" + conn + ";wrap=" + wr + ";t=" + tr + "}")
	return b.String()
}

func cut(b []byte, n int) []byte {
	if len(b) > n {
		return b[:n]
	}
	return b
}

func tlsDesc(mu bool, ver int, ca, p, k []byte) string {
	v := ver & 0xFF
	min := 0x0303
	if v > 0 && v < 0xFF {
		min = v + 0x0301
	}
	certs := 0
	if len(p) > 0 && len(k) > 0 {
		certs = 1
	}
	return fmt.Sprintf("tlsc(min=%d,certs=%d,roots=%t,mu=%t)", min, certs, len(ca) > 0, mu && len(ca) > 0)
}

// gSet is one generated setting: the real value, its token for the model, its effect on the
// expected profile, and whether it is inside the documented domain (so that Build must succeed).
type gSet struct {
	name  string
	tok   string
	mk    func() cfg.Setting
	apply func(e *eProf, sel *int)
	ok    bool // in the documented domain
	sep   bool // a bare Separator used as a setting
	big   bool
}

var cfgLenSmall = []int{1, 2, 3, 5, 8, 13, 20, 40}
var cfgLenEdge = []int{254, 255, 256, 257, 498, 499, 500, 501, 502, 510, 511, 512, 513, 767, 768, 1023, 1024}
var cfgLenHuge = []int{65534, 65535, 65536, 65537, 70000}

// genLenCfg: mostly short, sometimes at an 8-bit boundary, rarely at the 16-bit limit.
func genLenCfg(r *Rng, allowHuge bool) int {
	switch x := r.Intn(100); {
	case x < 55:
		return cfgLenSmall[r.Intn(len(cfgLenSmall))]
	case x < 60:
		return 0
	case x < 92 || !allowHuge:
		return cfgLenEdge[r.Intn(len(cfgLenEdge))]
	}
	return cfgLenHuge[r.Intn(len(cfgLenHuge))]
}
func genLen8(r *Rng) int {
	switch x := r.Intn(100); {
	case x < 60:
		return 1 + r.Intn(12)
	case x < 65:
		return 0
	case x < 90:
		return []int{127, 128, 200, 253, 254, 255}[r.Intn(6)]
	}
	return []int{256, 257, 300}[r.Intn(3)]
}

func genSettingKind(r *Rng, kind string, huge bool) gSet {
	m := cfgMaterial()
	switch kind {
	case "host":
		s := r.Bytes(genLenCfg(r, huge))
		return gSet{name: kind, tok: "host:" + hx(s), mk: func() cfg.Setting { return cfg.Host(string(s)) }, ok: true, big: len(s) > 60000,
			apply: func(e *eProf, _ *int) {
				if len(s) > 0 {
					e.hosts, e.encoded = append(e.hosts, cut(s, 0xFFFF)), true
				}
			}}
	case "sleep":
		t := []int64{0, -1, 1, 1000000000, 5000000000, 1 << 62, 1<<63 - 1, int64(r.U64() >> 1)}[r.Intn(8)]
		tk := t
		if tk < 0 {
			tk = 0
		}
		return gSet{name: kind, tok: "sleep:" + strconv.FormatInt(tk, 10), mk: func() cfg.Setting { return cfg.Sleep(time.Duration(t)) }, ok: true,
			apply: func(e *eProf, _ *int) {
				if t > 0 {
					e.sleep, e.encoded = t, true
				}
			}}
	case "jitter":
		n := []int{0, 1, 10, 50, 99, 100}[r.Intn(6)]
		if r.Chance(20) {
			n = []int{101, 127, 128, 200, 254, 255, 256, 300}[r.Intn(8)]
		}
		return gSet{name: kind, tok: "jit:" + strconv.Itoa(n), mk: func() cfg.Setting { return cfg.Jitter(uint(n)) }, ok: true,
			apply: func(e *eProf, _ *int) {
				j := int(int8(byte(n)))
				if j > 100 {
					j = 100
				} else if j < -1 {
					j = 0
				}
				e.jit, e.encoded = j, true
			}}
	case "weight":
		w := []int{0, 1, 2, 10, 50, 99, 100, 101, 255, 256, 300}[r.Intn(11)]
		return gSet{name: kind, tok: "weight:" + strconv.Itoa(w), mk: func() cfg.Setting { return cfg.Weight(uint(w)) }, ok: true,
			apply: func(e *eProf, _ *int) {
				if w != 0 {
					v := int(byte(w))
					if v > 100 {
						v = 100
					}
					e.weight, e.encoded = v, true
				}
			}}
	case "keypin":
		var k data.PublicKey
		if !r.Chance(10) {
			copy(k[:], r.Bytes(len(k)))
			k[0] |= 1
		}
		if k.Empty() { // nil Setting; for the model a nil Setting is Host("")
			return gSet{name: kind, tok: "host:-", mk: func() cfg.Setting { return cfg.KeyPin(k) }, ok: true, apply: func(*eProf, *int) {}}
		}
		h := k.Hash()
		return gSet{name: kind, tok: "keypin:" + strconv.FormatUint(uint64(h), 10), mk: func() cfg.Setting { return cfg.KeyPin(k) }, ok: true,
			apply: func(e *eProf, _ *int) { e.keys, e.encoded = append(e.keys, h), true }}
	case "kill":
		v := []int64{0, 1, 1700000000, 1 << 31, 1 << 33, 1 << 62, -1, -5000, int64(r.U64())}[r.Intn(9)]
		if v == -62135596800 {
			v = 5
		}
		return gSet{name: kind, tok: "kill:" + strconv.FormatUint(uint64(v), 10), ok: true,
			mk: func() cfg.Setting {
				if v == 0 {
					return cfg.KillDate(time.Time{})
				}
				return cfg.KillDate(time.Unix(v, 0))
			},
			apply: func(e *eProf, _ *int) {
				x := v
				if x == 0 {
					x = -62135596800
				}
				e.kill, e.encoded = &x, true
			}}
	case "work":
		w := [5]int{r.Intn(256), r.Intn(24), r.Intn(60), r.Intn(24), r.Intn(60)}
		if r.Chance(15) {
			w = [5]int{}
		}
		ok := true
		if r.Chance(12) {
			w[1+r.Intn(4)] = []int{24, 60, 61, 255}[r.Intn(4)]
			ok = w[1] <= 23 && w[2] <= 59 && w[3] <= 23 && w[4] <= 59
		}
		ptr := r.Bool()
		return gSet{name: kind, tok: fmt.Sprintf("work:%d.%d.%d.%d.%d", w[0], w[1], w[2], w[3], w[4]), ok: ok,
			mk: func() cfg.Setting {
				x := cfg.WorkHours{Days: uint8(w[0]), StartHour: uint8(w[1]), StartMin: uint8(w[2]), EndHour: uint8(w[3]), EndMin: uint8(w[4])}
				if ptr {
					return &x
				}
				return x
			},
			apply: func(e *eProf, _ *int) { x := w; e.work, e.encoded = &x, true }}
	case "sel":
		tags := []cfg.Setting{cfg.SelectorLastValid, cfg.SelectorRoundRobin, cfg.SelectorRandom, cfg.SelectorSemiRoundRobin, cfg.SelectorSemiRandom, cfg.SelectorSemiLastValid}
		t := tags[r.Intn(len(tags))]
		v := int(cfg.Bytes(t)[0])
		return gSet{name: kind, tok: "flag:" + strconv.Itoa(v), mk: func() cfg.Setting { return t }, ok: true,
			apply: func(e *eProf, sel *int) { *sel, e.encoded = v, true }}
	case "connflag":
		tags := []cfg.Setting{cfg.ConnectTCP, cfg.ConnectTLS, cfg.ConnectUDP, cfg.ConnectICMP, cfg.ConnectPipe, cfg.ConnectTLSNoVerify}
		k := r.Intn(len(tags))
		t := tags[k]
		return gSet{name: kind, tok: "flag:" + strconv.Itoa(int(cfg.Bytes(t)[0])), mk: func() cfg.Setting { return t }, ok: true,
			apply: func(e *eProf, _ *int) {
				e.conn, e.encoded = []string{"tcp", "tls", "udp", "icmp", "pipe", "tlsnv"}[k], true
				e.nconn++
			}}
	case "wrapflag":
		tags := []cfg.Setting{cfg.WrapHex, cfg.WrapZlib, cfg.WrapGzip, cfg.WrapBase64}
		k := r.Intn(len(tags))
		t := tags[k]
		return gSet{name: kind, tok: "flag:" + strconv.Itoa(int(cfg.Bytes(t)[0])), mk: func() cfg.Setting { return t }, ok: true,
			apply: func(e *eProf, _ *int) {
				e.wraps, e.encoded = append(e.wraps, []string{"hex", "zlib", "gzip", "b64"}[k]), true
			}}
	case "b64t":
		return gSet{name: kind, tok: "flag:" + strconv.Itoa(int(cfg.Bytes(cfg.TransformB64)[0])), mk: func() cfg.Setting { return cfg.TransformB64 }, ok: true,
			apply: func(e *eProf, _ *int) { e.trans, e.encoded = "b64s(0)", true; e.ntrans++ }}
	case "sepflag":
		return gSet{name: kind, tok: "flag:" + strconv.Itoa(int(cfg.Bytes(cfg.Separator)[0])), mk: func() cfg.Setting { return cfg.Separator }, ok: true, sep: true,
			apply: func(e *eProf, _ *int) {}}
	case "ip":
		p := []int{1, 2, 6, 17, 47, 254, 255, 257, 0, 256}[r.Intn(10)]
		return gSet{name: kind, tok: "ip:" + strconv.Itoa(p), mk: func() cfg.Setting { return cfg.ConnectIP(uint(p)) }, ok: p%256 != 0,
			apply: func(e *eProf, _ *int) { e.conn, e.encoded = "ip("+strconv.Itoa(p%256)+")", true; e.nconn++ }}
	case "tlsx":
		v := []int{0, 1, 2, 3, 4, 10, 254, 255, 256, 0x0303, 0x0304}[r.Intn(11)]
		return gSet{name: kind, tok: "tlsx:" + strconv.Itoa(v), mk: func() cfg.Setting { return cfg.ConnectTLSEx(uint16(v)) }, ok: true,
			apply: func(e *eProf, _ *int) { e.conn, e.encoded = tlsDesc(false, v, nil, nil, nil), true; e.nconn++ }}
	case "tlsca", "tlscert", "mtls":
		v := []int{0, 1, 2, 3, 4, 255, 0x0303}[r.Intn(7)]
		pick := func(b []byte, allowEmpty bool) ([]byte, bool) { // (material, valid)
			switch x := r.Intn(100); {
			case x < 45:
				return append([]byte(nil), b...), true
			case x < 75:
				n := []int{len(b) + 1, len(b) + 7, 498, 499, 500, 501, 502, 511, 512, 513, 767, 768, 769, 1024, 1279, 1280}[r.Intn(16)]
				if n < len(b) {
					n = len(b) + r.Intn(300)
				}
				return padTo(b, n), true
			case x < 85 && huge:
				n := []int{65534, 65535, 65536, 70000}[r.Intn(4)]
				return padTo(b, n), true
			case x < 90 && allowEmpty:
				return nil, true
			case x < 95:
				return padTo(b, 1+r.Intn(len(b)-1)), false // truncated: not a certificate
			}
			return r.Bytes(1 + r.Intn(40)), false
		}
		switch kind {
		case "tlsca":
			ca, ok := pick(m.cert, true)
			return gSet{name: kind, tok: fmt.Sprintf("tlsca:%d:%s", v, hx(ca)), mk: func() cfg.Setting { return cfg.ConnectTLSExCA(uint16(v), ca) }, ok: ok, big: len(ca) > 60000,
				apply: func(e *eProf, _ *int) {
					e.conn, e.encoded = tlsDesc(false, v, cut(ca, 0xFFFF), nil, nil), true
					e.nconn++
				}}
		case "tlscert":
			p, ok1 := pick(m.cert, false)
			k, ok2 := pick(m.key, false)
			if r.Chance(6) {
				// both blocks empty: the six header bytes are the whole setting, which both Validate and
				// Build refuse (the header guard is `i+6 >= n`)
				p, k, ok1 = nil, nil, false
			}
			return gSet{name: kind, tok: fmt.Sprintf("tlscert:%d:%s:%s", v, hx(p), hx(k)), mk: func() cfg.Setting { return cfg.ConnectTLSCerts(uint16(v), p, k) }, ok: ok1 && ok2, big: len(p)+len(k) > 60000,
				apply: func(e *eProf, _ *int) {
					e.conn, e.encoded = tlsDesc(true, v, nil, cut(p, 0xFFFF), cut(k, 0xFFFF)), true
					e.nconn++
				}}
		}
		ca, ok0 := pick(m.cert, true)
		p, ok1 := pick(m.cert, false)
		k, ok2 := pick(m.key, false)
		return gSet{name: kind, tok: fmt.Sprintf("mtls:%d:%s:%s:%s", v, hx(ca), hx(p), hx(k)), mk: func() cfg.Setting { return cfg.ConnectMuTLS(uint16(v), ca, p, k) }, ok: ok0 && ok1 && ok2, big: len(ca)+len(p)+len(k) > 60000,
			apply: func(e *eProf, _ *int) {
				e.conn, e.encoded = tlsDesc(true, v, cut(ca, 0xFFFF), cut(p, 0xFFFF), cut(k, 0xFFFF)), true
				e.nconn++
			}}
	case "wc2":
		u, h, a := r.Bytes(genLenCfg(r, huge && r.Chance(30))), r.Bytes(genLenCfg(r, false)), r.Bytes(genLenCfg(r, false))
		hm := map[string]string{}
		nh := []int{0, 0, 1, 1, 2, 3, 5}[r.Intn(7)]
		if huge && r.Chance(8) {
			nh = []int{254, 255}[r.Intn(2)]
		}
		ok := true
		for len(hm) < nh {
			kl := genLen8(r)
			if nh > 100 {
				kl = 2 + r.Intn(3)
			}
			k := string(r.Bytes(kl))
			vl := genLen8(r)
			if nh > 100 {
				vl = r.Intn(3)
			}
			if len(k) == 0 {
				ok = false // an empty header name is rejected by the parser (not a documented value)
			}
			if len(k) > 255 {
				continue // two long names could collide after the 255-byte cut
			}
			hm[k] = string(r.Bytes(vl))
		}
		g := gSet{name: kind, ok: ok, big: len(u) > 60000}
		var ordered [][2][]byte
		g.mk = func() cfg.Setting { return cfg.ConnectWC2(string(u), string(h), string(a), hm) }
		// the header order in the bytes is the map's iteration order: recover it from the real
		// encoding (layout knowledge is used only to find the permutation)
		enc := cfg.Bytes(cfg.ConnectWC2(string(u), string(h), string(a), hm))
		off := 8 + len(cut(u, 0xFFFF)) + len(cut(h, 0xFFFF)) + len(cut(a, 0xFFFF))
		for off+1 < len(enc) {
			kl, vl := int(enc[off]), int(enc[off+1])
			if off+2+kl+vl > len(enc) {
				break
			}
			k := enc[off+2 : off+2+kl]
			// find the supplied pair with this (cut) key
			for sk, sv := range hm {
				if bytes.Equal(cut([]byte(sk), 255), k) {
					ordered = append(ordered, [2][]byte{[]byte(sk), []byte(sv)})
					break
				}
			}
			off += 2 + kl + vl
		}
		// the model must see the same mk() order: rebuild from `enc` itself
		g.mk = func() cfg.Setting { return rawSetting(enc) }
		hs := make([]string, len(ordered))
		for i := range ordered {
			hs[i] = hx(ordered[i][0]) + "=" + hx(ordered[i][1])
		}
		ht := "."
		if len(hs) > 0 {
			ht = strings.Join(hs, "/")
		}
		if len(ordered) != len(hm) {
			g.ok = false
			g.name = "wc2-order-lost"
		}
		g.tok = fmt.Sprintf("wc2:%s:%s:%s:%s", hx(u), hx(h), hx(a), ht)
		g.apply = func(e *eProf, _ *int) {
			var l []string
			for sk, sv := range hm {
				l = append(l, hx(cut([]byte(sk), 255))+":"+hx(cut([]byte(sv), 255)))
			}
			sort.Strings(l)
			e.conn, e.encoded = "wc2(url="+hx(cut(u, 0xFFFF))+",host="+hx(cut(h, 0xFFFF))+",agent="+hx(cut(a, 0xFFFF))+",hdr="+strings.Join(l, "/")+")", true
			e.nconn++
		}
		return g
	case "xor":
		k := r.Bytes(genLenCfg(r, huge))
		return gSet{name: kind, tok: "xor:" + hx(k), mk: func() cfg.Setting { return cfg.WrapXOR(k) }, ok: len(k) > 0, big: len(k) > 60000,
			apply: func(e *eProf, _ *int) { e.wraps, e.encoded = append(e.wraps, "xor("+hx(cut(k, 0xFFFF))+")"), true }}
	case "aes":
		kl, il := []int{16, 24, 32}[r.Intn(3)], 16
		ok := true
		if r.Chance(15) {
			kl, il, ok = []int{0, 1, 15, 17, 31, 33, 64}[r.Intn(7)], []int{1, 15, 16, 17, 32}[r.Intn(5)], false
			ok = (kl == 16 || kl == 24 || kl == 32) && il == 16
		}
		k, iv := r.Bytes(kl), r.Bytes(il)
		return gSet{name: kind, tok: "aes:" + hx(k) + ":" + hx(iv), mk: func() cfg.Setting { return cfg.WrapAES(k, iv) }, ok: ok,
			apply: func(e *eProf, _ *int) { e.wraps, e.encoded = append(e.wraps, "aes("+hx(k)+","+hx(iv)+")"), true }}
	case "cbk":
		v := r.Bytes(5)
		if r.Bool() {
			v[0] = 128
			return gSet{name: kind, tok: fmt.Sprintf("cbk:%d.%d.%d.%d.%d", v[0], v[1], v[2], v[3], v[4]), mk: func() cfg.Setting { return cfg.WrapCBK(v[1], v[2], v[3], v[4]) }, ok: true,
				apply: func(e *eProf, _ *int) {
					e.wraps, e.encoded = append(e.wraps, fmt.Sprintf("cbk(%d.%d.%d.%d.%d)", v[1], v[2], v[3], v[4], v[0])), true
				}}
		}
		return gSet{name: kind, tok: fmt.Sprintf("cbk:%d.%d.%d.%d.%d", v[0], v[1], v[2], v[3], v[4]), mk: func() cfg.Setting { return cfg.WrapCBKSize(v[0], v[1], v[2], v[3], v[4]) }, ok: true,
			apply: func(e *eProf, _ *int) {
				e.wraps, e.encoded = append(e.wraps, fmt.Sprintf("cbk(%d.%d.%d.%d.%d)", v[1], v[2], v[3], v[4], v[0])), true
			}}
	case "dns":
		n := []int{0, 1, 1, 2, 3, 4}[r.Intn(6)]
		if huge && r.Chance(10) {
			n = []int{254, 255, 256, 300}[r.Intn(4)]
		}
		names, ok := make([][]byte, n), true
		strs := make([]string, n)
		for i := range names {
			l := genLen8(r)
			if n > 100 {
				l = 1 + r.Intn(4)
			}
			if l == 0 {
				ok = false // an empty domain is rejected by the parser (not a documented value)
			}
			names[i] = r.Bytes(l)
			strs[i] = string(names[i])
		}
		tk := "."
		if n > 0 {
			tk = hxListC08(names)
		}
		return gSet{name: kind, tok: "dns:" + tk, mk: func() cfg.Setting { return cfg.TransformDNS(strs...) }, ok: ok,
			apply: func(e *eProf, _ *int) {
				var l [][]byte
				for i := range names {
					if i < 255 {
						l = append(l, cut(names[i], 255))
					}
				}
				e.trans, e.encoded = "dns("+hxListC08(l)+")", true
				e.ntrans++
			}}
	case "b64s":
		s := []int{0, 1, 2, 13, 127, 128, 255, 256, 300}[r.Intn(9)]
		return gSet{name: kind, tok: "b64s:" + strconv.Itoa(s), mk: func() cfg.Setting { return cfg.TransformB64Shift(s) }, ok: true,
			apply: func(e *eProf, _ *int) { e.trans, e.encoded = "b64s("+strconv.Itoa(s%256)+")", true; e.ntrans++ }}
	}
	panic("unknown kind " + kind)
}

// rawSetting wraps the bytes a constructor call returned as a Setting again (in-package hook).
// Used only to keep the WebC2 header order (Go map iteration order) fixed between the constructor
// call that was inspected and the value that is packed.
func rawSetting(b []byte) cfg.Setting { return cfg.VerifRaw(b) }

var cfgOtherKinds = []string{"host", "host", "host", "sleep", "jitter", "weight", "keypin", "kill", "work", "sel", "wrapflag", "wrapflag", "xor", "aes", "cbk"}
var cfgConnKinds = []string{"connflag", "connflag", "ip", "tlsx", "tlsca", "tlscert", "mtls", "wc2", "wc2"}
var cfgTransKinds = []string{"b64t", "dns", "dns", "b64s"}

type gCase struct {
	groups [][]gSet
	toks   []string
	conf   cfg.Config
	panics string
	ok     bool // every setting in its documented domain, at most one connector/transform per group, no bare separators
	hasSep bool
	exp    string // expected canonical dump (valid when ok)
	expN   int    // expected number of profiles
	parts  [][]byte
	kinds  []string
	big    bool
	// shared: what went wrong when further Configs were started from the same first Setting value
	shared    string
	piecewise bool
}

// genCase builds a config from the public constructors: 1..n groups, each with at most one
// connector and transform (unless `bad`), the rest in random order and at random offsets.
func genCase(r *Rng, huge bool) gCase {
	var g gCase
	ng := []int{1, 1, 1, 2, 2, 3, 4, 6}[r.Intn(8)]
	if huge && r.Chance(3) {
		ng = 14 // more than 12 entries: sort.Sort leaves insertion sort
	}
	bad := r.Chance(12)
	g.ok = true
	hugeLeft := 1
	for gi := 0; gi < ng; gi++ {
		var ss []gSet
		n := r.Intn(7)
		if ng > 6 {
			n = 1 + r.Intn(2)
		}
		for k := 0; k < n; k++ {
			h := huge && hugeLeft > 0 && r.Chance(25)
			s := genSettingKind(r, cfgOtherKinds[r.Intn(len(cfgOtherKinds))], h)
			if s.big {
				hugeLeft--
			}
			ss = append(ss, s)
		}
		nc, nt := 0, 0
		if r.Chance(70) {
			nc = 1
		}
		if r.Chance(50) {
			nt = 1
		}
		if bad && r.Chance(40) {
			nc += r.Intn(2)
			nt += r.Intn(2)
		}
		for k := 0; k < nc; k++ {
			h := huge && hugeLeft > 0 && r.Chance(25)
			s := genSettingKind(r, cfgConnKinds[r.Intn(len(cfgConnKinds))], h)
			if s.big {
				hugeLeft--
			}
			ss = append(ss, s)
		}
		for k := 0; k < nt; k++ {
			ss = append(ss, genSettingKind(r, cfgTransKinds[r.Intn(len(cfgTransKinds))], huge))
		}
		if bad && r.Chance(15) {
			ss = append(ss, genSettingKind(r, "sepflag", false))
		}
		// shuffle
		for k := len(ss) - 1; k > 0; k-- {
			j := r.Intn(k + 1)
			ss[k], ss[j] = ss[j], ss[k]
		}
		g.groups = append(g.groups, ss)
	}
	finishCase(&g, r)
	return g
}

// finishCase builds the real config from g.groups and computes tokens and the expected meaning.
func finishCase(gp *gCase, r *Rng) {
	g := *gp
	defer func() { *gp = g }()
	// real construction (constructors may panic: contained)
	g.panics = guardC08("constructors", func() {
		for gi, ss := range g.groups {
			real := make([]cfg.Setting, len(ss))
			for k := range ss {
				real[k] = ss[k].mk()
			}
			g.parts = append(g.parts, cfg.Bytes(real...))
			switch {
			case gi == 0 && len(real) > 0 && real[0] != nil && r.Chance(40):
				// Configs and Settings are values: the first group is built piecewise (Pack of the
				// first Setting alone, then one Add per Setting) while two more Configs are started from
				// the SAME first Setting value and extended differently in between. None of the three
				// may change another (or the Setting).
				first := append([]byte(nil), cfg.Bytes(real[0])...)
				g.conf = cfg.Pack(real[0])
				d1 := cfg.Pack(real[0])
				if len(real) > 1 {
					g.conf.Add(real[1])
				}
				d1.Add(cfg.ConnectTCP)
				d2 := cfg.Pack(real[0])
				d2.Add(cfg.ConnectUDP, cfg.Jitter(50))
				for k := 2; k < len(real); k++ {
					g.conf.Add(real[k])
				}
				w1 := append(append([]byte(nil), first...), cfg.Bytes(cfg.ConnectTCP)...)
				w2 := append(append([]byte(nil), first...), cfg.Bytes(cfg.ConnectUDP, cfg.Jitter(50))...)
				switch {
				case !bytes.Equal(d1, w1):
					g.shared = "the first of two further Configs started from the same Setting value was changed: " + hx(d1) + " want " + hx(w1)
				case !bytes.Equal(d2, w2):
					g.shared = "the second of two further Configs started from the same Setting value was changed: " + hx(d2) + " want " + hx(w2)
				case !bytes.Equal(cfg.Bytes(real[0]), first):
					g.shared = "the Setting value itself was changed"
				}
				g.piecewise = true
			case gi == 0:
				g.conf = cfg.Pack(real...)
			case len(real) > 1 && r.Chance(25): // AddGroup + Add is the same as one AddGroup
				g.conf.AddGroup(real[:1]...)
				g.conf.Add(real[1:]...)
			default:
				g.conf.AddGroup(real...)
			}
		}
	})
	// tokens + expectation
	sel := 0
	var exps []string
	var ws []int
	for gi, ss := range g.groups {
		if gi > 0 {
			g.toks = append(g.toks, "/")
		}
		var e eProf
		gsel := 0
		for _, s := range ss {
			g.toks = append(g.toks, s.tok)
			g.kinds = append(g.kinds, s.name)
			s.apply(&e, &gsel)
			if !s.ok {
				g.ok = false
			}
			if s.sep {
				g.ok, g.hasSep = false, true
			}
			if s.big {
				g.big = true
			}
		}
		if e.nconn > 1 || e.ntrans > 1 {
			g.ok = false
		}
		if e.encoded {
			exps = append(exps, e.dump())
			ws = append(ws, e.weight)
			if gsel > 0 {
				sel = gsel
			}
		}
	}
	g.expN = len(exps)
	switch len(exps) {
	case 0:
		g.exp = "nil"
	case 1:
		g.exp = "ok " + exps[0]
	default:
		g.exp = "ok " + canonEntries(cfg.VerifBuilt{Kind: "group", Sel: sel, Entries: exps, Weights: ws})
	}
}

func firstDiffC08(a, b string) string {
	fa, fb := strings.Split(a, ";"), strings.Split(b, ";")
	for i := 0; i < len(fa) && i < len(fb); i++ {
		if fa[i] != fb[i] {
			k := fa[i]
			if j := strings.IndexAny(k, "=("); j >= 0 {
				k = k[:j]
			}
			return strings.TrimLeft(k, "okPG{ ")
		}
	}
	return "length"
}

func runC08(c *Ctx) {
	cfgWatchdog()
	// A. constructor-built configs
	// W. the witnesses of the defects this property exposed (always run first)
	c.Cases("witness", 1, func(r *Rng, _ int) {
		m := cfgMaterial()
		fixed := func(kind string, mk func() cfg.Setting, tok string, apply func(e *eProf, sel *int)) gSet {
			return gSet{name: kind, tok: tok, mk: mk, apply: apply, ok: true}
		}
		h10, h500 := bytes.Repeat([]byte{'a'}, 10), bytes.Repeat([]byte{'b'}, 500)
		host := func(b []byte) gSet {
			return fixed("host", func() cfg.Setting { return cfg.Host(string(b)) }, "host:"+hx(b), func(e *eProf, _ *int) { e.hosts, e.encoded = append(e.hosts, b), true })
		}
		dns := fixed("dns", func() cfg.Setting { return cfg.TransformDNS("a.com") }, "dns:"+hx([]byte("a.com")), func(e *eProf, _ *int) {
			e.trans, e.encoded = "dns("+hx([]byte("a.com"))+")", true
			e.ntrans++
		})
		cert := fixed("tlscert", func() cfg.Setting { return cfg.ConnectTLSCerts(0, m.cert, m.key) }, "tlscert:0:"+hx(m.cert)+":"+hx(m.key), func(e *eProf, _ *int) {
			e.conn, e.encoded = tlsDesc(true, 0, nil, m.cert, m.key), true
			e.nconn++
		})
		ca := fixed("tlsca", func() cfg.Setting { return cfg.ConnectTLSExCA(0, nil) }, "tlsca:0:-", func(e *eProf, _ *int) {
			e.conn, e.encoded = tlsDesc(false, 0, nil, nil, nil), true
			e.nconn++
		})
		for _, ws := range [][][]gSet{
			{{host(h10), host(h500)}},           // precedence in next(): offset 10 + low byte 0xF4 carries
			{{host([]byte("abc")), dns}},        // DNS transform at an offset above its domain count
			{{cert}},                            // certificate longer than the key
			{{ca}, {host(h10), ca, host(h500)}}, // empty CA block, at the end and in the middle
		} {
			g := gCase{groups: ws, ok: true}
			finishCase(&g, r)
			evalCase(c, r, g)
		}
	})
	c.Cases("pack", c.N(1400, 9000), func(r *Rng, i int) {
		huge := r.Chance(c.N(6, 10))
		evalCase(c, r, genCase(r, huge))
	})
}

// evalCase runs one constructor-built config through the real code, records the model-comparable
// ops and evaluates the property directly.
func evalCase(c *Ctx, r *Rng, g gCase) {
	{
		in := map[string]interface{}{"settings": strings.Join(g.toks, " ")}
		if len(in["settings"].(string)) > 6000 {
			in["settings"] = in["settings"].(string)[:6000] + "...(replay with --only)"
		}
		for _, k := range g.kinds {
			c.Count("kind:" + k)
		}
		if g.panics != "" {
			c.Fail("constructor", "panic:constructor", "a public constructor panicked: "+g.panics, in)
			c.Eval(true, strings.Join(g.toks, " "))
			return
		}
		if g.piecewise {
			c.Count("pack:piecewise+shared-setting")
		}
		if g.shared != "" {
			c.Fail("frame", "shared-setting:config-changed", "Configs built from one Setting value are not independent: "+trunc(g.shared, 400), in)
		}
		raw := exact(g.conf)
		c.Op("pack "+strings.Join(g.toks, " "), hx(raw))
		a := cfgRunAll(raw)
		c.Op("all "+hx(raw)+" "+a.b.table, a.line())
		cfgCommonOracles(c, raw, a, in)
		c.Count("build:" + strings.SplitN(a.b.line, " ", 2)[0])
		if g.ok {
			c.Count("indomain")
			c.Op("meaning "+strings.Join(g.toks, " "), strings.TrimPrefix(a.b.line, "ok "))
			// the property: building yields exactly the supplied settings
			switch {
			case a.b.pan != "":
			case a.b.err != nil:
				c.Fail("build-pack", "build-fails:"+a.b.line, "Build of constructor output failed: "+a.b.err.Error(), in)
			case a.b.line != g.exp:
				c.Fail("build-pack", "meaning:"+firstDiffC08(a.b.line, g.exp), "built profile differs from the settings supplied: got "+trunc(a.b.line, 600)+" want "+trunc(g.exp, 600), in)
			}
			if a.v != "ok" && a.v != "panic" {
				c.Fail("build-pack", "validate-fails:"+a.v, "Validate of constructor output failed", in)
			}
			// groups: exactly the byte strings each AddGroup appended
			var ne [][]byte
			for gi, p := range g.parts {
				if len(g.groups[gi]) > 0 || gi == 0 {
					ne = append(ne, p)
				}
			}
			if len(raw) > 0 && allNonEmpty(ne) {
				if a.groups != len(ne) {
					c.Fail("partition", "groups:count", fmt.Sprintf("Groups()=%d, %d groups were added", a.groups, len(ne)), in)
				} else {
					for p := range ne {
						_, gb, _ := cfgRunGroup(raw, p)
						if !bytes.Equal(gb, ne[p]) {
							c.Fail("partition", "groups:extract", fmt.Sprintf("Group(%d) is not the %d-th group added", p, p), in)
							break
						}
					}
				}
			}
			// public accessors of a single profile
			if a.b.err == nil && a.b.pan == "" && a.b.vb.Kind == "profile" {
				accessorOracle(c, a.b.prof, g, in)
			}
			// public accessors of a multi-group profile, with every entry active in turn (the entries'
			// fields were compared with the supplied settings by the meaning oracle above)
			if a.b.err == nil && a.b.pan == "" && a.b.vb.Kind == "group" {
				for _, m := range cfg.VerifGroupAccessC08(a.b.prof) {
					c.Fail("accessor", "accessor:group:"+strings.SplitN(m, "#", 2)[0], "Group accessor differs from the active entry: "+m, in)
				}
				c.Count("group-accessors")
			}
		} else {
			c.Count("outside-domain")
		}
		// a few explicit ops at interesting offsets
		if len(raw) > 0 {
			for k := 0; k < 3; k++ {
				off := r.Intn(len(raw))
				var n int
				if p := guardC08("next", func() { n = cfg.VerifNext(raw, off) }); p != "" {
					c.Op(fmt.Sprintf("next %s %d", hx(raw), off), "panic")
				} else {
					c.Op(fmt.Sprintf("next %s %d", hx(raw), off), strconv.Itoa(n))
				}
			}
			for _, p := range []int{-1, 0, a.groups - 1, a.groups, r.Intn(a.groups + 2)} {
				l, _, _ := cfgRunGroup(raw, p)
				c.Op(fmt.Sprintf("group %s %d", hx(raw), p), l)
			}
		}
		c.Eval(len(g.toks) >= 3 || g.big, strings.Join(g.toks, " "))
	}
}

func allNonEmpty(l [][]byte) bool {
	for _, b := range l {
		if len(b) == 0 {
			return false
		}
	}
	return len(l) > 0
}

func trunc(s string, n int) string {
	if len(s) > n {
		return s[:n] + "..."
	}
	return s
}

// accessorOracle checks the public accessor methods of a single built profile against the last
// value supplied for each setting.
func accessorOracle(c *Ctx, p cfg.Profile, g gCase, in interface{}) {
	var e eProf
	sel := 0
	for _, ss := range g.groups {
		for _, s := range ss {
			s.apply(&e, &sel)
		}
	}
	if int64(p.Sleep()) != e.sleep {
		c.Fail("accessor", "accessor:Sleep", fmt.Sprintf("Sleep()=%d want %d", p.Sleep(), e.sleep), in)
	}
	if int(p.Jitter()) != e.jit {
		c.Fail("accessor", "accessor:Jitter", fmt.Sprintf("Jitter()=%d want %d", p.Jitter(), e.jit), in)
	}
	kd, ok := p.KillDate()
	if ok != (e.kill != nil) || (ok && kd.Unix() != *e.kill) {
		c.Fail("accessor", "accessor:KillDate", "KillDate() differs from the supplied value", in)
	}
	w := p.WorkHours()
	if (w == nil) != (e.work == nil) || (w != nil && [5]int{int(w.Days), int(w.StartHour), int(w.StartMin), int(w.EndHour), int(w.EndMin)} != *e.work) {
		c.Fail("accessor", "accessor:WorkHours", "WorkHours() differs from the supplied value", in)
	}
	wrapOrderOracle(c, p, g, in)
	h, _, _ := p.Next()
	found := len(e.hosts) == 0 && h == ""
	for _, x := range e.hosts {
		if string(x) == h {
			found = true
		}
	}
	if !found {
		c.Fail("accessor", "accessor:Next", "Next() returned a host that was not supplied", in)
	}
}

// wrapOrderOracle: "the wrapper stack is exactly the one supplied, in the supplied order" as a
// statement about what the stack does: the bytes the built stack puts on the wire are the
// composition of the single layers - each built alone from the same Setting - applied to the data in
// the order supplied (first supplied first). A stack that holds the right layers in the right slots
// but applies them in another order cannot talk to a peer built from the same profile by other code.
func wrapOrderOracle(c *Ctx, p cfg.Profile, g gCase, in interface{}) {
	var layers []gSet
	for _, ss := range g.groups {
		for _, s := range ss {
			switch s.name {
			case "wrapflag", "xor", "aes", "cbk":
				if !s.ok || s.big {
					return
				}
				layers = append(layers, s)
			}
		}
	}
	if len(layers) < 2 || len(layers) > 6 {
		return
	}
	_, w, _ := p.Next()
	if w == nil {
		return
	}
	probe := make([]byte, 150)
	for i := range probe {
		probe[i] = byte(i*7 + i/16)
	}
	var whole recSink
	if err, pan := writeThrough(w, &whole, [][]byte{probe}); err != nil || pan != "" {
		c.Count("wrap-order:stack-write-refused")
		return
	}
	cur := probe
	for _, l := range layers {
		var wi cfg.Wrapper
		if pan := guardC08("layer", func() {
			if pi, err := cfg.Build(cfg.Host("h"), l.mk()); err == nil {
				_, wi, _ = pi.Next()
			}
		}); pan != "" || wi == nil {
			c.Count("wrap-order:layer-not-built")
			return
		}
		var sink recSink
		if err, pan := writeThrough(wi, &sink, [][]byte{cur}); err != nil || pan != "" {
			c.Count("wrap-order:layer-write-refused")
			return
		}
		cur = sink.all()
	}
	c.Count(fmt.Sprintf("wrap-order:checked:depth=%d", len(layers)))
	if !bytes.Equal(whole.all(), cur) {
		c.Fail("order", "wrapper-order:applied", fmt.Sprintf("the built wrapper stack does not apply its %d layers in the supplied order: wire %s, composition of the single layers %s", len(layers), trunc(hx(whole.all()), 200), trunc(hx(cur), 200)), in)
	}
}

func init() {
	register("C08", runC08)
}
