package main

import (
	"fmt"
	"go/ast"
	"go/parser"
	"go/printer"
	"go/token"
	"sort"
	"strconv"
	"strings"

	"github.com/iDigitalFlame/xmt/c2/cfg"
)

// Facts for C08/C09: every setting tag of c2/cfg (from the compiled package), DefaultSleep, the
// case-label sets of Config.next / validate / build / MarshalJSON and the stride expressions of
// next's variable-length cases, printed fully parenthesised from the parsed tree.
func init() {
	factProviders = append(factProviders, func(f *factSet, repo string) error {
		val := map[string]uint64{}
		for _, t := range cfg.VerifTags {
			f.Nat("cfg_"+t.Name, uint64(t.V))
			val[t.Name] = uint64(t.V)
		}
		f.Nat("cfg_DefaultSleep", uint64(cfg.DefaultSleep))
		fs := token.NewFileSet()
		for _, spec := range []struct{ file, fn, name string }{
			{"c2/cfg/convert.go", "next", "cfg_cases_next"},
			{"c2/cfg/convert.go", "validate", "cfg_cases_validate"},
			{"c2/cfg/convert.go", "build", "cfg_cases_build"},
		} {
			af, err := parser.ParseFile(fs, repo+"/"+spec.file, nil, 0)
			if err != nil {
				return err
			}
			var fd *ast.FuncDecl
			for _, d := range af.Decls {
				if x, ok := d.(*ast.FuncDecl); ok && x.Name.Name == spec.fn && x.Recv != nil {
					fd = x
				}
			}
			if fd == nil {
				return fmt.Errorf("facts: func %s not found in %s", spec.fn, spec.file)
			}
			// the first switch whose tag is cBit(c[i]) — collect its case labels
			var labels []uint64
			var exprs []string
			seen := false
			ast.Inspect(fd.Body, func(n ast.Node) bool {
				sw, ok := n.(*ast.SwitchStmt)
				if !ok || seen {
					return true
				}
				if !strings.HasPrefix(exprString(fs, sw.Tag), "cBit(c[i])") {
					return true
				}
				seen = true
				for _, st := range sw.Body.List {
					cc := st.(*ast.CaseClause)
					var names []string
					for _, e := range cc.List {
						nm := exprString(fs, e)
						names = append(names, nm)
						v, ok := val[nm]
						if !ok {
							v = 1 << 20 // unknown label: shows up in the fact and breaks the obligation
						}
						labels = append(labels, v)
					}
					if spec.fn == "next" {
						for _, s := range cc.Body {
							if r, ok := s.(*ast.ReturnStmt); ok && len(r.Results) == 1 && len(names) > 0 {
								exprs = append(exprs, strings.Join(names, ",")+" => "+parenString(fs, r.Results[0]))
							}
						}
					}
				}
				return false
			})
			sort.Slice(labels, func(i, j int) bool { return labels[i] < labels[j] })
			s := make([]string, len(labels))
			for i := range labels {
				s[i] = strconv.FormatUint(labels[i], 10)
			}
			f.Raw(spec.name, "List Nat", "["+strings.Join(s, ", ")+"]")
			if spec.fn == "next" {
				// one fact per case: cfg_next_ret_<labels> := "<return expression>"
				for _, e := range exprs {
					k := strings.SplitN(e, " => ", 2)
					f.Raw("cfg_next_ret_"+strings.ReplaceAll(k[0], ",", "_"), "String", strconv.Quote(k[1]))
				}
			}
		}
		return nil
	})
}

func exprString(fs *token.FileSet, e ast.Expr) string {
	var b strings.Builder
	printer.Fprint(&b, fs, e)
	return b.String()
}

// parenString prints an expression with every binary sub-expression parenthesised, so that a change
// of operator grouping is a change of the text.
func parenString(fs *token.FileSet, e ast.Expr) string {
	switch v := e.(type) {
	case *ast.BinaryExpr:
		return "(" + parenString(fs, v.X) + " " + v.Op.String() + " " + parenString(fs, v.Y) + ")"
	case *ast.ParenExpr:
		return parenString(fs, v.X)
	case *ast.UnaryExpr:
		return v.Op.String() + parenString(fs, v.X)
	case *ast.CallExpr:
		a := make([]string, len(v.Args))
		for i := range v.Args {
			a[i] = parenString(fs, v.Args[i])
		}
		return parenString(fs, v.Fun) + "(" + strings.Join(a, ",") + ")"
	case *ast.IndexExpr:
		return parenString(fs, v.X) + "[" + parenString(fs, v.Index) + "]"
	}
	return exprString(fs, e)
}
