package main

// C09 — arbitrary profile bytes never crash the parser and validate iff they build.

import (
	"encoding/hex"
	"fmt"
	"os"
	"path/filepath"
	"strconv"
	"strings"

	"github.com/iDigitalFlame/xmt/c2/cfg"
)

// cfgAlphabet: every setting tag (incl. 0 = invalid) plus a few small / extreme values that act as
// lengths and counts.
func cfgAlphabet() []byte {
	seen := map[byte]bool{}
	var a []byte
	for _, t := range cfg.VerifTags {
		if !seen[t.V] {
			seen[t.V] = true
			a = append(a, t.V)
		}
	}
	for _, v := range []byte{1, 2, 3, 255} {
		if !seen[v] {
			seen[v] = true
			a = append(a, v)
		}
	}
	return a
}

// lengthFields walks a (valid) config with the real stride function and returns the offsets of the
// bytes that are length or count fields (by tag; the tag values come from the package).
func lengthFields(c cfg.Config) []int {
	tag := map[string]byte{}
	for _, t := range cfg.VerifTags {
		tag[t.Name] = t.V
	}
	var out []int
	add := func(i int, offs ...int) {
		for _, o := range offs {
			if i+o < len(c) {
				out = append(out, i+o)
			}
		}
	}
	for i := 0; i >= 0 && i < len(c); {
		n := -1
		if p := guardC08("next", func() { n = cfg.VerifNext(c, i) }); p != "" || n <= i || n > len(c) {
			n = len(c)
		}
		switch c[i] {
		case tag["valHost"], tag["valXOR"], tag["valAES"]:
			add(i, 1, 2)
		case tag["valTLSxCA"]:
			add(i, 2, 3)
		case tag["valTLSCert"]:
			add(i, 2, 3, 4, 5)
		case tag["valMuTLS"]:
			add(i, 2, 3, 4, 5, 6, 7)
		case tag["valWC2"]:
			add(i, 1, 2, 3, 4, 5, 6, 7)
			if i+7 < len(c) {
				o := i + 8 + (int(c[i+2]) | int(c[i+1])<<8) + (int(c[i+4]) | int(c[i+3])<<8) + (int(c[i+6]) | int(c[i+5])<<8)
				for x := int(c[i+7]); x > 0 && o+1 < n; x-- {
					out = append(out, o, o+1)
					o += int(c[o]) + int(c[o+1]) + 2
				}
			}
		case tag["valDNS"]:
			add(i, 1)
			o := i + 2
			for x := 0; i+1 < len(c) && x < int(c[i+1]) && o < n; x++ {
				out = append(out, o)
				o += int(c[o]) + 1
			}
		}
		i = n
	}
	return out
}

func runC09(c *Ctx) {
	cfgWatchdog()
	runXlate2C09(c) // session 3, translator part 2: regenerated definition of Config.next vs the real function
	one := func(raw cfg.Config, withModel bool, grp string) cfgAll {
		a := cfgRunAll(raw)
		if withModel {
			c.Op("all "+hx(raw)+" "+a.b.table, a.line())
		}
		cfgCommonOracles(c, raw, a, map[string]interface{}{"config": hx(raw)})
		c.Count(grp + ":v=" + a.v[:2] + ",b=" + a.b.line[:2])
		return a
	}
	// W. corpus: the witnesses of past failures (corpus/C09/*.hex, one config per line), run first
	c.Cases("corpus", 1, func(r *Rng, _ int) {
		files, _ := filepath.Glob(filepath.Join("..", "corpus", "C09", "*.hex"))
		n := 0
		for _, f := range files {
			b, err := os.ReadFile(f)
			if err != nil {
				continue
			}
			for _, line := range strings.Split(string(b), "\n") {
				line = strings.TrimSpace(strings.SplitN(line, "#", 2)[0])
				raw, err := hex.DecodeString(line)
				if err != nil || len(raw) == 0 {
					continue
				}
				one(exact(raw), true, "corpus")
				c.Eval(true, line)
				n++
			}
		}
		c.Extra["corpus_inputs"] = n
	})
	// A. exhaustive short strings over the tag alphabet (a test, labelled so in the evidence)
	alpha := cfgAlphabet()
	c.Extra["alphabet"] = len(alpha)
	c.Cases("exh", 1, func(r *Rng, _ int) {
		maxLen := c.N(3, 4)
		buf := make([]byte, 0, 4)
		var rec func(d int)
		cnt := 0
		rec = func(d int) {
			if d > 0 {
				cnt++
				// every string is run on the real code; the model sees all strings up to length 3 and a
				// 1-in-9 slice of length 4
				one(exact(buf), d <= 3 || cnt%9 == 0, "exh")
				if d <= 3 {
					for p := -1; p <= d; p++ {
						l, _, _ := cfgRunGroup(exact(buf), p)
						if d <= 2 || cnt%5 == 0 {
							c.Op(fmt.Sprintf("group %s %d", hx(buf), p), l)
						}
					}
				}
				c.Eval(d >= 2, hx(buf))
			}
			if d == maxLen {
				return
			}
			for _, b := range alpha {
				buf = append(buf, b)
				rec(d + 1)
				buf = buf[:len(buf)-1]
			}
		}
		rec(0)
		c.Extra["exhaustive_strings"] = cnt
	})
	// A2. minimal forms: every tag followed by every string over {0,1} of length <= 8 and by runs of
	// zeros / ones up to 16 bytes (all length and count fields zero or one, cut at every offset), alone,
	// after a host setting and before a separator. These are the shortest inputs that reach each
	// setting's header guard with the header exactly at, one short of and one past the end.
	c.Cases("minimal", 1, func(r *Rng, _ int) {
		tags := map[byte]bool{}
		pre := []byte(cfg.Pack(cfg.Host("a")))
		cnt := 0
		for _, t := range cfg.VerifTags {
			if tags[t.V] || t.V == 0 {
				continue
			}
			tags[t.V] = true
			emit := func(tail []byte) {
				b := append([]byte{t.V}, tail...)
				one(exact(b), true, "minimal")
				one(exact(append(append([]byte{}, pre...), b...)), true, "minimal")
				one(exact(append(append([]byte{}, b...), byte(cfg.Separator))), len(tail) >= 4, "minimal")
				c.Eval(true, hx(b))
				cnt += 3
			}
			maxK := c.N(7, 9)
			for k := 0; k <= maxK; k++ {
				for m := 0; m < 1<<uint(k); m++ {
					tail := make([]byte, k)
					for j := 0; j < k; j++ {
						tail[j] = byte(m >> uint(j) & 1)
					}
					emit(tail)
				}
			}
			for k := maxK + 1; k <= 16; k++ {
				emit(make([]byte, k))
				o := make([]byte, k)
				for j := range o {
					o[j] = 1
				}
				emit(o)
			}
		}
		c.Extra["minimal_inputs"] = cnt
	})
	// B. guided mutation of valid configs
	c.Cases("mut", c.N(400, 600), func(r *Rng, i int) {
		var g gCase
		maxBase := c.N(300, 1500)
		hugeCase := r.Chance(c.N(2, 4))
		for k := 0; k < 40; k++ {
			g = genCase(r, hugeCase)
			if g.panics == "" && len(g.conf) > 0 && (hugeCase || len(g.conf) <= maxBase) {
				break
			}
		}
		if g.panics != "" || len(g.conf) == 0 {
			return
		}
		base := exact(g.conf)
		one(base, true, "base")
		big := len(base) > maxBase
		// truncation at every offset (sampled for long configs)
		step := 1
		lim := c.N(80, 300)
		if big {
			lim = 12
		}
		if len(base) > lim {
			step = len(base) / lim
		}
		for cutAt := 1; cutAt < len(base); cutAt += step {
			one(exact(base[:cutAt]), true, "trunc")
		}
		// every value (thorough, short configs) / the boundary values of every length or count byte
		lf := lengthFields(base)
		if len(lf) > 10 {
			for k := len(lf) - 1; k > 0; k-- {
				j := r.Intn(k + 1)
				lf[k], lf[j] = lf[j], lf[k]
			}
			lf = lf[:10]
		}
		if big && len(lf) > 3 {
			lf = lf[:3]
		}
		for _, off := range lf {
			var vals []int
			if c.Thorough() && len(base) < 150 {
				for v := 0; v < 256; v++ {
					vals = append(vals, v)
				}
			} else {
				o := int(base[off])
				vals = []int{0, 1, 2, 3, o - 1, o + 1, o + 2, 127, 128, 254, 255, (len(base) - off) & 255, (len(base) - off - 1) & 255, (len(base) - off + 1) & 255, r.Intn(256)}
				if big {
					vals = vals[:6]
				}
			}
			for _, v := range vals {
				if v < 0 || v > 255 || byte(v) == base[off] {
					continue
				}
				m := exact(base)
				m[off] = byte(v)
				one(m, true, "len")
			}
		}
		// splice: a random tag byte or small value anywhere; a separator anywhere
		for k := 0; k < c.N(6, 20) && !big; k++ {
			m := exact(base)
			off := r.Intn(len(m))
			switch r.Intn(3) {
			case 0:
				m[off] = alpha[r.Intn(len(alpha))]
			case 1:
				m[off] = byte(cfg.Separator)
			default:
				m[off] = byte(r.Intn(256))
			}
			a := one(m, true, "splice")
			if a.g != "panic" {
				for _, p := range []int{-1, 0, a.groups - 1, a.groups} {
					l, _, _ := cfgRunGroup(m, p)
					c.Op(fmt.Sprintf("group %s %d", hx(m), p), l)
				}
			}
			off = r.Intn(len(m))
			var n int
			if p := guardC08("next", func() { n = cfg.VerifNext(m, off) }); p != "" {
				c.Op(fmt.Sprintf("next %s %d", hx(m), off), "panic")
				c.Fail("no-panic", "panic:next", "Config.next panicked", map[string]interface{}{"config": hx(m), "offset": off})
			} else {
				c.Op(fmt.Sprintf("next %s %d", hx(m), off), strconv.Itoa(n))
			}
		}
		c.Eval(true, hx(base))
	})
	// C. random short strings dense in tags (beyond length 4)
	c.Cases("rnd", c.N(4000, 60000), func(r *Rng, i int) {
		n := 5 + r.Intn(20)
		b := make([]byte, n)
		for k := range b {
			switch x := r.Intn(10); {
			case x < 5:
				b[k] = alpha[r.Intn(len(alpha))]
			case x < 8:
				b[k] = byte(r.Intn(6))
			default:
				b[k] = byte(r.Intn(256))
			}
		}
		one(exact(b), true, "rnd")
		c.Eval(true, hx(b))
	})
	// the callers on untrusted bytes use cfg.Raw / cfg.Reader, which are Build on the same bytes
	c.Cases("raw", c.N(200, 2000), func(r *Rng, i int) {
		b := r.Bytes(1 + r.Intn(30))
		for k := range b {
			if r.Chance(60) {
				b[k] = alpha[r.Intn(len(alpha))]
			}
		}
		cfgBegin(hx(b))
		if p := guardC08("Raw", func() { cfg.Raw(exact(b)) }); p != "" {
			c.Fail("no-panic", "panic:Raw", "cfg.Raw panicked: "+p, map[string]interface{}{"config": hx(b)})
		}
		if p := guardC08("Reader", func() { cfg.Reader(&PieceReader{P: r.Split(exact(b))}) }); p != "" {
			c.Fail("no-panic", "panic:Reader", "cfg.Reader panicked: "+p, map[string]interface{}{"config": hx(b)})
		}
		c.Eval(true, hx(b))
	})
}

func init() { register("C09", runC09) }
