package main

import (
	"bytes"
	"errors"
	"fmt"
	"io"
	"math"
	"strconv"
	"strings"

	"github.com/iDigitalFlame/xmt/data"
)

var errEOF = io.EOF

// ---- typed values -----------------------------------------------------------------------------

// tv is one typed value; kind is the Go-level type alias (decides which method is called),
// u holds integers / bit patterns, b bytes, l string lists.
type tv struct {
	kind string
	u    uint64
	b    []byte
	l    [][]byte
}

var tvKinds = []string{"b", "u8", "i8", "u16", "i16", "u32", "i32", "f32", "u64", "i64", "f64", "int", "uint", "by", "str", "sl"}

func (v tv) tok() string {
	switch v.kind {
	case "by", "str":
		return v.kind + ":" + hx(v.b)
	case "sl":
		s := make([]string, len(v.l))
		for i := range v.l {
			s[i] = hx(v.l[i])
		}
		return "sl:" + strings.Join(s, ",")
	}
	return v.kind + ":" + strconv.FormatUint(v.u, 10)
}

// canonical token in base types (what the model prints)
func (v tv) canon() string {
	switch v.kind {
	case "b":
		return "b:" + strconv.FormatUint(v.u, 10)
	case "u8", "i8":
		return "u8:" + strconv.FormatUint(v.u, 10)
	case "u16", "i16":
		return "u16:" + strconv.FormatUint(v.u, 10)
	case "u32", "i32", "f32":
		return "u32:" + strconv.FormatUint(v.u, 10)
	case "u64", "i64", "f64", "int", "uint":
		return "u64:" + strconv.FormatUint(v.u, 10)
	case "by", "str":
		return "by:" + hx(v.b)
	}
	s := make([]string, len(v.l))
	for i := range v.l {
		s[i] = hx(v.l[i])
	}
	return "sl:" + strings.Join(s, ",")
}

func canonVals(vs []tv) string {
	if len(vs) == 0 {
		return "."
	}
	s := make([]string, len(vs))
	for i := range vs {
		s[i] = vs[i].canon()
	}
	return strings.Join(s, " ")
}

var lenPool = []int{0, 1, 2, 3, 7, 16, 127, 128, 129, 254, 255, 256, 257, 300, 1000, 65534, 65535, 65536, 65537, 70000}

func genLen(r *Rng, big bool) int {
	switch x := r.Intn(10); {
	case x < 4:
		return r.Intn(6)
	case x < 7:
		return lenPool[r.Intn(13)]
	case x < 9 && big:
		return lenPool[r.Intn(len(lenPool))]
	}
	return r.Intn(40)
}

func genTV(r *Rng, big bool) tv {
	k := tvKinds[r.Intn(len(tvKinds))]
	v := tv{kind: k}
	edge := func(bits uint) uint64 {
		m := uint64(1)<<bits - 1
		if bits == 64 {
			m = math.MaxUint64
		}
		switch r.Intn(6) {
		case 0:
			return 0
		case 1:
			return m
		case 2:
			return (m >> 1) + uint64(r.Intn(2))
		case 3:
			return uint64(r.Intn(300)) & m
		}
		return r.U64() & m
	}
	switch k {
	case "b":
		v.u = uint64(r.Intn(2))
	case "u8", "i8":
		v.u = edge(8)
	case "u16", "i16":
		v.u = edge(16)
	case "u32", "i32", "f32":
		v.u = edge(32)
	case "u64", "i64", "f64", "int", "uint":
		v.u = edge(64)
	case "by", "str":
		v.b = r.Bytes(genLen(r, big))
	case "sl":
		n := genLen(r, false)
		if n > 300 {
			n = 300
		}
		if big && r.Chance(3) {
			n = []int{255, 256, 257}[r.Intn(3)]
		}
		v.l = make([][]byte, n)
		for i := range v.l {
			v.l[i] = r.Bytes(genLenSmall(r))
		}
	}
	return v
}
func genLenSmall(r *Rng) int {
	if r.Chance(5) {
		return []int{255, 256, 257}[r.Intn(3)]
	}
	return r.Intn(8)
}

func writeTV(w data.Writer, v tv) error {
	switch v.kind {
	case "b":
		return w.WriteBool(v.u == 1)
	case "u8":
		return w.WriteUint8(uint8(v.u))
	case "i8":
		return w.WriteInt8(int8(v.u))
	case "u16":
		return w.WriteUint16(uint16(v.u))
	case "i16":
		return w.WriteInt16(int16(v.u))
	case "u32":
		return w.WriteUint32(uint32(v.u))
	case "i32":
		return w.WriteInt32(int32(v.u))
	case "f32":
		return w.WriteFloat32(math.Float32frombits(uint32(v.u)))
	case "u64":
		return w.WriteUint64(v.u)
	case "i64":
		return w.WriteInt64(int64(v.u))
	case "f64":
		return w.WriteFloat64(math.Float64frombits(v.u))
	case "int":
		return w.WriteInt(int(v.u))
	case "uint":
		return w.WriteUint(uint(v.u))
	case "by":
		return w.WriteBytes(v.b)
	case "str":
		return w.WriteString(string(v.b))
	case "sl":
		s := make([]string, len(v.l))
		for i := range v.l {
			s[i] = string(v.l[i])
		}
		return data.WriteStringList(w, s)
	}
	return errors.New("bad kind")
}

// readTV reads one value of the given kind; half of the time through the pointer form.
func readTV(rd data.Reader, kind string, ptr bool) (tv, error) {
	v := tv{kind: kind}
	var err error
	switch kind {
	case "b":
		var x bool
		if ptr {
			err = rd.ReadBool(&x)
		} else {
			x, err = rd.Bool()
		}
		if x {
			v.u = 1
		}
	case "u8":
		var x uint8
		if ptr {
			err = rd.ReadUint8(&x)
		} else {
			x, err = rd.Uint8()
		}
		v.u = uint64(x)
	case "i8":
		var x int8
		if ptr {
			err = rd.ReadInt8(&x)
		} else {
			x, err = rd.Int8()
		}
		v.u = uint64(uint8(x))
	case "u16":
		var x uint16
		if ptr {
			err = rd.ReadUint16(&x)
		} else {
			x, err = rd.Uint16()
		}
		v.u = uint64(x)
	case "i16":
		var x int16
		if ptr {
			err = rd.ReadInt16(&x)
		} else {
			x, err = rd.Int16()
		}
		v.u = uint64(uint16(x))
	case "u32":
		var x uint32
		if ptr {
			err = rd.ReadUint32(&x)
		} else {
			x, err = rd.Uint32()
		}
		v.u = uint64(x)
	case "i32":
		var x int32
		if ptr {
			err = rd.ReadInt32(&x)
		} else {
			x, err = rd.Int32()
		}
		v.u = uint64(uint32(x))
	case "f32":
		var x float32
		if ptr {
			err = rd.ReadFloat32(&x)
		} else {
			x, err = rd.Float32()
		}
		v.u = uint64(math.Float32bits(x))
	case "u64":
		var x uint64
		if ptr {
			err = rd.ReadUint64(&x)
		} else {
			x, err = rd.Uint64()
		}
		v.u = x
	case "i64":
		var x int64
		if ptr {
			err = rd.ReadInt64(&x)
		} else {
			x, err = rd.Int64()
		}
		v.u = uint64(x)
	case "f64":
		var x float64
		if ptr {
			err = rd.ReadFloat64(&x)
		} else {
			x, err = rd.Float64()
		}
		v.u = math.Float64bits(x)
	case "int":
		var x int
		if ptr {
			err = rd.ReadInt(&x)
		} else {
			x, err = rd.Int()
		}
		v.u = uint64(x)
	case "uint":
		var x uint
		if ptr {
			err = rd.ReadUint(&x)
		} else {
			x, err = rd.Uint()
		}
		v.u = uint64(x)
	case "by":
		var x []byte
		if ptr {
			// the destination is not always fresh: one variable reused in a decode loop still holds
			// the previous (possibly longer) value
			c10Stale++
			if n := []int{0, 3, 9, 300, 70000}[c10Stale%5]; n > 0 {
				x = bytes.Repeat([]byte{0xEE}, n)
			}
			err = rd.ReadBytes(&x)
		} else {
			x, err = rd.Bytes()
		}
		if err == nil {
			// NOT copied: the caller of Bytes() keeps the returned slice while it goes on reading;
			// the values are compared after the whole sequence has been decoded
			v.b = x
		}
	case "str":
		var x string
		if ptr {
			if c10Stale++; c10Stale%2 == 0 {
				x = "stale value of an earlier round, longer than most"
			}
			err = rd.ReadString(&x)
		} else {
			x, err = rd.StringVal()
		}
		v.b = []byte(x)
	case "sl":
		var x []string
		err = data.ReadStringList(rd, &x)
		if err == nil {
			v.l = make([][]byte, len(x))
			for i := range x {
				v.l[i] = []byte(x[i])
			}
		}
	default:
		err = errors.New("bad kind")
	}
	return v, err
}

// c10Stale makes the destinations of the pointer-style readers non-fresh in a fixed rotation.
var c10Stale int

func errClass(err error) string {
	switch {
	case err == nil:
		return "nil"
	case err == io.EOF:
		return "eof"
	case err == io.ErrUnexpectedEOF:
		return "ueof"
	case err == data.ErrInvalidType:
		return "badtype"
	case err == data.ErrTooLarge:
		return "toolarge"
	case err == data.ErrLimit:
		return "limit"
	case err == data.ErrInvalidIndex:
		return "badindex"
	case err == io.ErrShortWrite:
		return "shortwrite"
	}
	return "other:" + strings.ReplaceAll(err.Error(), " ", "_")
}

type multiWrites struct{ w [][]byte }

func (m *multiWrites) Write(b []byte) (int, error) {
	m.w = append(m.w, append([]byte(nil), b...))
	return len(b), nil
}

func kindsOf(vs []tv) string {
	s := make([]string, len(vs))
	for i := range vs {
		s[i] = vs[i].kind
	}
	return strings.Join(s, ",")
}

// decodeWith decodes kinds from the given pieces with the chosen reader implementation.
func decodeWith(reader string, kinds []string, pieces [][]byte, r *Rng) (string, []tv, error) {
	var rd data.Reader
	var rem func() int
	if reader == "chunk" {
		c := data.NewChunk(bytes.Join(pieces, nil))
		rd, rem = c, c.Remaining
	} else {
		cp := make([][]byte, len(pieces))
		copy(cp, pieces)
		pr := &PieceReader{P: cp}
		rd, rem = data.NewReader(pr), pr.Remaining
	}
	var got []tv
	for _, k := range kinds {
		v, err := readTV(rd, k, r.Bool())
		if err != nil {
			return fmt.Sprintf("err %s %s", errClass(err), canonVals(got)), got, err
		}
		got = append(got, v)
	}
	return fmt.Sprintf("ok rem=%d %s", rem(), canonVals(got)), got, nil
}

func eqTV(a, b tv) bool { return a.canon() == b.canon() }

func shortToks(t []string) []string {
	o := make([]string, len(t))
	for i := range t {
		o[i] = t[i]
		if len(o[i]) > 120 {
			o[i] = o[i][:120] + fmt.Sprintf("...(%d chars)", len(t[i]))
		}
	}
	return o
}

func runC10(c *Ctx) {
	// A. round trips: both writers, both readers, random chunkings, trailing data.
	c.Cases("rt", c.N(1500, 40000), func(r *Rng, i int) {
		n := 1 + r.Intn(8)
		big := r.Chance(15)
		vs := make([]tv, n)
		toks := make([]string, n)
		nontriv := false
		for j := range vs {
			vs[j] = genTV(r, big)
			toks[j] = vs[j].tok()
			if l := len(vs[j].b); l >= 128 || len(vs[j].l) > 0 {
				nontriv = true
			}
			c.Count("kind:" + vs[j].kind)
		}
		var ch data.Chunk
		var left []byte
		// the in-memory writer on storage that was used before (a Chunk is reused after Reset and works
		// as a queue): what an earlier use left in the backing array must not show in the encoding
		switch r.Intn(6) {
		case 0:
			ch.Write(bytes.Repeat([]byte{0xFF}, 64+r.Intn(5000)))
			ch.Reset()
			c.Count("chunk:reset-reuse")
		case 1:
			g := bytes.Repeat([]byte{0xA5}, 64+r.Intn(5000))
			ch.Write(g)
			for k := 0; k < len(g); {
				n, _ := ch.Read(make([]byte, 1+r.Intn(len(g))))
				if n == 0 {
					break
				}
				k += n
			}
			c.Count("chunk:queue-reuse")
			if r.Bool() { // an explicit Grow on the drained queue (c2/mux.go, task/io.go do this before writing a result)
				ch.Grow(1 + r.Intn(6000))
				c.Count("chunk:queue-reuse+grow")
			}
		case 2:
			// a queue that still holds unread bytes, then an explicit Grow that has to compact or
			// reallocate: the unread bytes stay in front, nothing stale appears between them and the
			// values written next
			g := r.Bytes(64 + r.Intn(3000))
			ch.Write(g)
			k, _ := ch.Read(make([]byte, 1+r.Intn(len(g)-1)))
			left = append([]byte(nil), g[k:]...)
			ch.Grow([]int{1, 16, len(g), 2 * len(g), 6000}[r.Intn(5)])
			c.Count("chunk:unread+grow")
		}
		for _, v := range vs {
			if err := writeTV(&ch, v); err != nil {
				c.Fail("write", "chunk-writer-error", "chunk writer returned "+err.Error(), toks)
				return
			}
		}
		e1 := append([]byte(nil), ch.Payload()...)
		if left != nil {
			if len(e1) < len(left) || !bytes.Equal(e1[:len(left)], left) {
				c.Fail("write", "chunk-grow-lost-unread", "after Read, Grow and typed writes the unread bytes are not in front of the encoding any more", toks)
				return
			}
			e1 = e1[len(left):]
		}
		var mw multiWrites
		sw := data.NewWriter(&mw)
		for _, v := range vs {
			if err := writeTV(sw, v); err != nil {
				c.Fail("write", "stream-writer-error", "stream writer returned "+err.Error(), toks)
				return
			}
		}
		e2 := bytes.Join(mw.w, nil)
		c.Op("enc "+strings.Join(toks, " "), hx(e1)+" "+hxChunks(mw.w))
		if !bytes.Equal(e1, e2) {
			c.Fail("writers-agree", "writers-differ", "chunk and stream writer encodings differ", toks)
		}
		trail := r.Bytes(r.Intn(4))
		kinds := strings.Split(kindsOf(vs), ",")
		for _, reader := range []string{"chunk", "stream"} {
			for wi, enc := range [][]byte{e1, e2} {
				if wi == 1 && bytes.Equal(e1, e2) && !r.Chance(25) {
					continue
				}
				full := append(append([]byte(nil), enc...), trail...)
				pieces := r.Split(full)
				if len(pieces) > 1 {
					nontriv = true
				}
				out, got, err := decodeWith(reader, kinds, pieces, r)
				c.Op(fmt.Sprintf("dec %s %s %s", reader, kindsOf(vs), hxChunks(pieces)), out)
				c.Count("pair:" + reader)
				if err != nil {
					c.Fail("roundtrip", "roundtrip-error:"+reader, fmt.Sprintf("reader %s failed on writer %d output: %v", reader, wi, err), toks)
					continue
				}
				for j := range vs {
					if !eqTV(vs[j], got[j]) {
						c.Fail("roundtrip", "roundtrip-value:"+reader+":"+vs[j].kind, fmt.Sprintf("value %d: wrote %s read %s", j, vs[j].canon(), got[j].canon()), toks)
						break
					}
				}
				if !strings.HasPrefix(out, fmt.Sprintf("ok rem=%d ", len(trail))) {
					c.Fail("consumption", "consumed-wrong:"+reader, "reader did not consume exactly the written bytes: "+out[:20], toks)
				}
			}
		}
		c.Eval(nontriv, strings.Join(toks, " "))
		// B0. truncations inside the first bytes (tag, length/count prefix) of EVERY value, whatever
		// the size of the encoding
		if len(e1) > c.N(80, 400) {
			off := 0
			for j, v := range vs {
				var one data.Chunk
				writeTV(&one, v)
				for d := 0; d <= 9 && d < one.Size(); d++ {
					cut := off + d
					for _, reader := range []string{"chunk", "stream"} {
						pieces := r.Split(e1[:cut])
						if len(pieces) > 50 {
							pieces = [][]byte{e1[:cut]}
						}
						out, got, err := decodeWith(reader, kinds, pieces, r)
						if len(e1[:cut]) <= 3000 {
							c.Op(fmt.Sprintf("dec %s %s %s", reader, kindsOf(vs), hxChunks(pieces)), out)
						}
						c.Count("trunc-hdr:" + reader)
						if err == nil {
							c.Fail("truncation", "fabricated:"+reader+":"+vs[j].kind, fmt.Sprintf("reader %s returned no error on a %d/%d-byte prefix (cut %d bytes into value %d)", reader, cut, len(e1), d, j), map[string]interface{}{"values": shortToks(toks), "cut": cut})
							continue
						}
						for q := range got {
							if !eqTV(vs[q], got[q]) {
								c.Fail("truncation", "fabricated-before-error:"+reader+":"+vs[q].kind, fmt.Sprintf("prefix %d: value %d differs from what was written", cut, q), shortToks(toks))
								break
							}
						}
					}
				}
				off += one.Size()
			}
		}
		// B. truncations: every strict prefix must produce an error and no fabricated value.
		if len(e1) <= c.N(80, 400) || r.Chance(c.N(2, 10)) {
			step := 1
			if len(e1) > 600 {
				step = len(e1) / 300
			}
			for cut := 0; cut < len(e1); cut += step {
				for _, reader := range []string{"chunk", "stream"} {
					pieces := r.Split(e1[:cut])
					out, got, err := decodeWith(reader, kinds, pieces, r)
					c.Op(fmt.Sprintf("dec %s %s %s", reader, kindsOf(vs), hxChunks(pieces)), out)
					c.Count("trunc:" + reader)
					if err == nil {
						k := ""
						if len(got) > 0 {
							k = vs[len(got)-1].kind
							for j := range got {
								if j < len(vs) && !eqTV(vs[j], got[j]) {
									k = vs[j].kind
									break
								}
							}
						}
						c.Fail("truncation", "fabricated:"+reader+":"+k, fmt.Sprintf("reader %s returned no error on a %d/%d-byte prefix: %s", reader, cut, len(e1), out), map[string]interface{}{"values": toks, "cut": cut})
						continue
					}
					for j := range got {
						if !eqTV(vs[j], got[j]) {
							c.Fail("truncation", "fabricated-before-error:"+reader+":"+vs[j].kind, fmt.Sprintf("prefix %d: value %d read as %s, written %s", cut, j, got[j].canon(), vs[j].canon()), toks)
							break
						}
					}
				}
			}
		}
	})
	// A2. directed large values (oracle only; too large for the model run): every byte of the 4-byte
	// length / count prefix is exercised
	c.Cases("biglen", c.N(3, 5), func(r *Rng, i int) {
		var v tv
		switch i {
		case 0:
			v = tv{kind: "by", b: r.Bytes(1<<24 + 3)}
		case 1:
			v = tv{kind: "sl", l: make([][]byte, 65537)}
			v.l[65536] = []byte("x")
		case 2:
			v = tv{kind: "str", b: r.Bytes(1<<24 | 1<<16 | 0x0201)}
		case 3:
			v = tv{kind: "by", b: r.Bytes(1<<25 + 1<<24 + 7)}
		default:
			v = tv{kind: "sl", l: make([][]byte, 1<<17+5)}
			v.l[3] = r.Bytes(300)
		}
		vs := []tv{{kind: "u8", u: 7}, v, {kind: "u16", u: 0xBEEF}}
		var ch data.Chunk
		var mw multiWrites
		sw := data.NewWriter(&mw)
		for _, x := range vs {
			if writeTV(&ch, x) != nil || writeTV(sw, x) != nil {
				c.Fail("write", "writer-error:big", "writer failed on a large value", v.kind)
				return
			}
		}
		e1 := ch.Payload()
		if !bytes.Equal(e1, bytes.Join(mw.w, nil)) {
			c.Fail("writers-agree", "writers-differ", "chunk and stream writer encodings differ on a large value", v.kind)
		}
		kinds := strings.Split(kindsOf(vs), ",")
		for _, reader := range []string{"chunk", "stream"} {
			pieces := [][]byte{e1[:2], e1[2:5], e1[5 : len(e1)/2], e1[len(e1)/2:]}
			_, got, err := decodeWith(reader, kinds, pieces, r)
			if err != nil {
				c.Fail("roundtrip", "roundtrip-error:"+reader, fmt.Sprintf("large %s value (%d bytes encoded): %v", v.kind, len(e1), err), v.kind)
				continue
			}
			for j := range vs {
				if !eqTV(vs[j], got[j]) {
					c.Fail("roundtrip", "roundtrip-value:"+reader+":"+vs[j].kind, fmt.Sprintf("large value %d differs after the round trip", j), v.kind)
					break
				}
			}
		}
		c.Count("biglen:" + v.kind)
		c.Eval(true, fmt.Sprint("biglen", i))
	})
	// C. malformed streams: random bytes / mutated encodings decoded as random type lists
	// (pure model-vs-implementation comparison, no oracle).
	c.Cases("mal", c.N(1500, 30000), func(r *Rng, i int) {
		n := 1 + r.Intn(5)
		kinds := make([]string, n)
		for j := range kinds {
			kinds[j] = tvKinds[r.Intn(len(tvKinds))]
		}
		var raw []byte
		if r.Bool() {
			var ch data.Chunk
			for range kinds {
				writeTV(&ch, genTV(r, false))
			}
			raw = append([]byte(nil), ch.Payload()...)
			for k := r.Intn(3); k > 0 && len(raw) > 0; k-- {
				raw[r.Intn(len(raw))] = byte(r.Intn(10))
			}
		} else {
			raw = r.Bytes(r.Intn(24))
			for j := range raw {
				if r.Chance(50) {
					raw[j] = byte(r.Intn(9))
				}
			}
		}
		// keep announced sizes small: a hostile count is the subject of C04, not C10
		for _, reader := range []string{"chunk", "stream"} {
			pieces := r.Split(raw)
			if hostileLen(raw) {
				c.Count("mal:skipped-hostile")
				continue
			}
			out, _, _ := decodeWith(reader, kinds, pieces, r)
			c.Op(fmt.Sprintf("dec %s %s %s", reader, strings.Join(kinds, ","), hxChunks(pieces)), out)
			c.Count("mal:" + strings.SplitN(out, " ", 3)[0] + ":" + strings.SplitN(out, " ", 3)[1][:2])
		}
		c.Eval(true, hx(raw)+strings.Join(kinds, ","))
	})
	runC10S3(c) // extension round 3: c10_s3.go
}

// hostileLen reports whether raw could announce a 4/8-byte length or count (tags 5..8), which
// makes the real decoders allocate gigabytes (see C04); such inputs are excluded here.
func hostileLen(raw []byte) bool {
	for _, b := range raw {
		if b >= 5 && b <= 8 {
			return true
		}
	}
	return false
}

func init() { register("C10", runC10) }
