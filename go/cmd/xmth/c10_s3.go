package main

// C10, extension round 3: (1) the whole exported codec surface (facts + Go-level typed values,
// pointer readers, ReadStringList into a used destination), (2) length-prefix classes and
// non-canonical headers, (3) the stream reader over io.Readers that deliver (n>0, io.EOF),
// (0, nil), halves, single bytes and timeouts (testing/iotest).

import (
	"bytes"
	"fmt"
	"go/ast"
	"go/build"
	"go/parser"
	"go/token"
	"go/types"
	"io"
	"math"
	"os"
	"path/filepath"
	"sort"
	"strconv"
	"strings"
	"testing/iotest"

	"github.com/iDigitalFlame/xmt/data"
)

// ---- facts --------------------------------------------------------------------------------------

func c10s3Sig(ft *ast.FuncType) string {
	tl := func(fl *ast.FieldList) []string {
		var o []string
		if fl == nil {
			return o
		}
		for _, f := range fl.List {
			n := len(f.Names)
			if n == 0 {
				n = 1
			}
			for i := 0; i < n; i++ {
				o = append(o, types.ExprString(f.Type))
			}
		}
		return o
	}
	s := "(" + strings.Join(tl(ft.Params), ", ") + ")"
	switch r := tl(ft.Results); len(r) {
	case 0:
	case 1:
		s += " " + r[0]
	default:
		s += " (" + strings.Join(r, ", ") + ")"
	}
	return s
}

func c10s3LeanPairs(m map[string]string) string {
	var ks []string
	for k := range m {
		ks = append(ks, k)
	}
	sort.Strings(ks)
	var o []string
	for _, k := range ks {
		o = append(o, fmt.Sprintf("(%q, %q)", k, m[k]))
	}
	return "[" + strings.Join(o, ", ") + "]"
}

func c10s3RecvName(fd *ast.FuncDecl) string {
	if fd.Recv == nil || len(fd.Recv.List) != 1 {
		return ""
	}
	t := fd.Recv.List[0].Type
	if s, ok := t.(*ast.StarExpr); ok {
		t = s.X
	}
	if id, ok := t.(*ast.Ident); ok {
		return id.Name
	}
	return ""
}

// c10s3WriterSwitch renders the `switch l := uint64(len(x)); { ... }` of a writer as
// [(cond code, tag, number of byte(l...) length bytes)].
func c10s3WriterSwitch(fd *ast.FuncDecl) string {
	var sw *ast.SwitchStmt
	ast.Inspect(fd.Body, func(n ast.Node) bool {
		if s, ok := n.(*ast.SwitchStmt); ok && sw == nil && s.Tag == nil && s.Init != nil {
			sw = s
		}
		return sw == nil
	})
	if sw == nil {
		return "[]"
	}
	var o []string
	for _, st := range sw.Body.List {
		cc := st.(*ast.CaseClause)
		code := 99
		if cc.List == nil {
			code = 4
		} else if len(cc.List) == 1 {
			switch types.ExprString(cc.List[0]) {
			case "l == 0":
				code = 0
			case "l < LimitSmall":
				code = 1
			case "l < LimitMedium":
				code = 2
			case "l < LimitLarge":
				code = 3
			}
		}
		tag, nb := -1, 0
		for _, b := range cc.Body {
			ast.Inspect(b, func(n ast.Node) bool {
				switch x := n.(type) {
				case *ast.CompositeLit:
					if tag < 0 && len(x.Elts) > 0 {
						if bl, ok := x.Elts[0].(*ast.BasicLit); ok && bl.Kind == token.INT {
							tag, _ = strconv.Atoi(bl.Value)
						}
					}
				case *ast.AssignStmt:
					if tag < 0 && len(x.Rhs) > 0 && x.Tok == token.ASSIGN {
						if _, isIdx := x.Lhs[0].(*ast.IndexExpr); isIdx {
							if bl, ok := x.Rhs[0].(*ast.BasicLit); ok && bl.Kind == token.INT {
								tag, _ = strconv.Atoi(bl.Value)
							}
						}
					}
				case *ast.CallExpr:
					if id, ok := x.Fun.(*ast.Ident); ok && id.Name == "byte" && len(x.Args) == 1 && strings.HasPrefix(types.ExprString(x.Args[0]), "l") {
						nb++
					}
				}
				return true
			})
		}
		if tag < 0 {
			tag = 999
		}
		o = append(o, fmt.Sprintf("(%d, %d, %d)", code, tag, nb))
	}
	return "[" + strings.Join(o, ", ") + "]"
}

// c10s3ReaderCases renders the `switch t { case 1, 2: ... }` of a reader as [(labels, width)].
func c10s3ReaderCases(fd *ast.FuncDecl) (string, string) {
	var sw *ast.SwitchStmt
	var after []string
	for i, st := range fd.Body.List {
		if s, ok := st.(*ast.SwitchStmt); ok && sw == nil {
			if id, ok := s.Tag.(*ast.Ident); ok && id.Name == "t" {
				sw = s
				for _, rest := range fd.Body.List[i+1:] {
					if is, ok := rest.(*ast.IfStmt); ok {
						after = append(after, strconv.Quote(types.ExprString(is.Cond)))
					}
				}
			}
		}
	}
	if sw == nil {
		return "[]", "[]"
	}
	var o []string
	for _, st := range sw.Body.List {
		cc := st.(*ast.CaseClause)
		var labels []string
		for _, e := range cc.List {
			labels = append(labels, types.ExprString(e))
		}
		w := -1
		for _, b := range cc.Body {
			ast.Inspect(b, func(n ast.Node) bool {
				if ce, ok := n.(*ast.CallExpr); ok && w < 0 {
					if se, ok := ce.Fun.(*ast.SelectorExpr); ok {
						switch se.Sel.Name {
						case "Uint8":
							w = 1
						case "Uint16":
							w = 2
						case "Uint32":
							w = 4
						case "Uint64":
							w = 8
						}
					}
				}
				return true
			})
		}
		if w < 0 {
			w = 98
			if len(cc.Body) == 1 {
				if rs, ok := cc.Body[0].(*ast.ReturnStmt); ok {
					last := types.ExprString(rs.Results[len(rs.Results)-1])
					if last == "nil" {
						w = 0
					} else if last == "ErrInvalidType" {
						w = 99
					}
				}
			}
		}
		o = append(o, fmt.Sprintf("([%s], %d)", strings.Join(labels, ", "), w))
	}
	return "[" + strings.Join(o, ", ") + "]", "[" + strings.Join(after, ", ") + "]"
}

func c10s3Facts(f *factSet, repo string) error {
	dir := filepath.Join(repo, "data")
	ents, err := os.ReadDir(dir)
	if err != nil {
		return err
	}
	fset := token.NewFileSet()
	ifaces := map[string]map[string]string{"Reader": {}, "Writer": {}}
	impls := map[string]map[string]string{"Chunk": {}, "reader": {}, "writer": {}}
	pairTy := "List (String × String)"
	for _, n := range []string{"c10_swChunkWriter", "c10_swStreamWriter", "c10_swListWriter"} {
		f.Raw(n, "List (Nat × Nat × Nat)", "[]")
	}
	for _, n := range []string{"c10_casesChunkBytes", "c10_casesStreamBytes", "c10_casesListReader"} {
		f.Raw(n, "List (List Nat × Nat)", "[]")
	}
	f.Raw("c10_guardsChunkBytes", "List String", "[]")
	f.Raw("c10_guardsStreamBytes", "List String", "[]")
	for _, e := range ents {
		n := e.Name()
		if !strings.HasSuffix(n, ".go") || strings.HasSuffix(n, "_test.go") {
			continue
		}
		if ok, _ := build.Default.MatchFile(dir, n); !ok {
			continue
		}
		af, err := parser.ParseFile(fset, filepath.Join(dir, n), nil, 0)
		if err != nil {
			return err
		}
		for _, d := range af.Decls {
			switch x := d.(type) {
			case *ast.GenDecl:
				for _, sp := range x.Specs {
					ts, ok := sp.(*ast.TypeSpec)
					if !ok || ifaces[ts.Name.Name] == nil || n != "data.go" {
						continue
					}
					it, ok := ts.Type.(*ast.InterfaceType)
					if !ok {
						continue
					}
					for _, m := range it.Methods.List {
						ft, ok := m.Type.(*ast.FuncType)
						if !ok {
							ifaces[ts.Name.Name]["embedded:"+types.ExprString(m.Type)] = "?"
							continue
						}
						for _, nm := range m.Names {
							ifaces[ts.Name.Name][nm.Name] = c10s3Sig(ft)
						}
					}
				}
			case *ast.FuncDecl:
				rn := c10s3RecvName(x)
				if impls[rn] != nil && x.Name.IsExported() {
					impls[rn][x.Name.Name] = c10s3Sig(x.Type)
				}
				switch {
				case rn == "Chunk" && x.Name.Name == "WriteBytes":
					f.Raw("c10_swChunkWriter", "List (Nat × Nat × Nat)", c10s3WriterSwitch(x))
				case rn == "writer" && x.Name.Name == "WriteBytes":
					f.Raw("c10_swStreamWriter", "List (Nat × Nat × Nat)", c10s3WriterSwitch(x))
				case rn == "" && x.Name.Name == "WriteStringList":
					f.Raw("c10_swListWriter", "List (Nat × Nat × Nat)", c10s3WriterSwitch(x))
				case rn == "Chunk" && x.Name.Name == "Bytes":
					a, b := c10s3ReaderCases(x)
					f.Raw("c10_casesChunkBytes", "List (List Nat × Nat)", a)
					f.Raw("c10_guardsChunkBytes", "List String", b)
				case rn == "reader" && x.Name.Name == "Bytes":
					a, b := c10s3ReaderCases(x)
					f.Raw("c10_casesStreamBytes", "List (List Nat × Nat)", a)
					f.Raw("c10_guardsStreamBytes", "List String", b)
				case rn == "" && x.Name.Name == "ReadStringList":
					a, _ := c10s3ReaderCases(x)
					f.Raw("c10_casesListReader", "List (List Nat × Nat)", a)
				}
			}
		}
	}
	f.Raw("c10_ifaceReader", pairTy, c10s3LeanPairs(ifaces["Reader"]))
	f.Raw("c10_ifaceWriter", pairTy, c10s3LeanPairs(ifaces["Writer"]))
	f.Raw("c10_methodsChunk", pairTy, c10s3LeanPairs(impls["Chunk"]))
	f.Raw("c10_methodsStreamReader", pairTy, c10s3LeanPairs(impls["reader"]))
	f.Raw("c10_methodsStreamWriter", pairTy, c10s3LeanPairs(impls["writer"]))
	f.Nat("c10_intSize", uint64(strconv.IntSize))
	return nil
}

func init() { factProviders = append(factProviders, c10s3Facts) }

// ---- Go-level typed values ------------------------------------------------------------------------

var gKinds = []string{"b", "i8", "u8", "i16", "u16", "i32", "u32", "i64", "u64", "int", "uint", "f32", "f64", "by", "str", "sl"}

// gtok renders a tv as the Go caller sees it: signed kinds in signed decimal.
func gtok(v tv) string {
	switch v.kind {
	case "i8":
		return "i8:" + strconv.FormatInt(int64(int8(v.u)), 10)
	case "i16":
		return "i16:" + strconv.FormatInt(int64(int16(v.u)), 10)
	case "i32":
		return "i32:" + strconv.FormatInt(int64(int32(v.u)), 10)
	case "i64":
		return "i64:" + strconv.FormatInt(int64(v.u), 10)
	case "int":
		return "int:" + strconv.FormatInt(int64(int(v.u)), 10)
	case "uint":
		return "uint:" + strconv.FormatUint(uint64(uint(v.u)), 10)
	case "by", "str":
		return v.kind + ":" + hx(v.b)
	case "sl":
		s := make([]string, len(v.l))
		for i := range v.l {
			s[i] = hx(v.l[i])
		}
		return "sl:" + strings.Join(s, ",")
	}
	return v.kind + ":" + strconv.FormatUint(v.u, 10)
}

func gtoks(vs []tv) string {
	if len(vs) == 0 {
		return "."
	}
	s := make([]string, len(vs))
	for i := range vs {
		s[i] = gtok(vs[i])
	}
	return strings.Join(s, " ")
}

func genG(r *Rng, kind string) tv {
	v := tv{kind: kind}
	edge := func(bits uint) uint64 {
		m := uint64(math.MaxUint64)
		if bits < 64 {
			m = uint64(1)<<bits - 1
		}
		switch r.Intn(8) {
		case 0:
			return 0
		case 1:
			return m // -1 / max
		case 2:
			return m >> 1 // max signed
		case 3:
			return (m >> 1) + 1 // min signed
		case 4:
			return uint64(r.Intn(300)) & m
		case 5:
			return (m - uint64(r.Intn(300))) & m // small negative
		}
		return r.U64() & m
	}
	switch kind {
	case "b":
		v.u = uint64(r.Intn(2))
	case "i8", "u8":
		v.u = edge(8)
	case "i16", "u16":
		v.u = edge(16)
	case "i32", "u32", "f32":
		v.u = edge(32)
	case "by", "str":
		v.b = r.Bytes(genLen(r, false))
	case "sl":
		v.l = make([][]byte, r.Intn(5))
		for i := range v.l {
			v.l[i] = r.Bytes(r.Intn(6))
		}
	default:
		v.u = edge(64)
	}
	return v
}

// ---- script reader: the model's IOStream, call by call -------------------------------------------

type ioPiece struct {
	d   []byte
	eof bool
}
type scriptReader struct{ p []ioPiece }

func (s *scriptReader) Read(b []byte) (int, error) {
	if len(s.p) == 0 {
		return 0, io.EOF
	}
	if len(b) == 0 {
		return 0, nil
	}
	p := &s.p[0]
	if len(p.d) <= len(b) {
		n := copy(b, p.d)
		e := p.eof
		s.p = s.p[1:]
		if e {
			return n, io.EOF
		}
		return n, nil
	}
	n := copy(b, p.d)
	p.d = p.d[n:]
	return n, nil
}
func (s *scriptReader) remaining() int {
	n := 0
	for _, x := range s.p {
		n += len(x.d)
	}
	return n
}

func ioTok(ps []ioPiece) string {
	if len(ps) == 0 {
		return "."
	}
	o := make([]string, len(ps))
	for i, p := range ps {
		o[i] = hx(p.d)
		if p.eof {
			o[i] += "!"
		}
	}
	return strings.Join(o, "|")
}

// genScript splits b into pieces, inserts (0, nil) reads, and ends the stream in one of the ways an
// io.Reader may: nothing (exhausted = (0, EOF) from then on), EOF together with the last data,
// an explicit (0, EOF), repeated EOFs, (0, nil) reads before / after the end.
func genScript(r *Rng, b []byte) []ioPiece {
	var ps []ioPiece
	for _, c := range r.Split(b) {
		if r.Chance(15) {
			ps = append(ps, ioPiece{})
		}
		ps = append(ps, ioPiece{d: c})
	}
	switch r.Intn(6) {
	case 0:
		if len(ps) > 0 {
			ps[len(ps)-1].eof = true
		}
	case 1:
		ps = append(ps, ioPiece{eof: true})
	case 2:
		ps = append(ps, ioPiece{}, ioPiece{eof: true}, ioPiece{eof: true})
	case 3:
		if len(ps) > 0 {
			ps[len(ps)-1].eof = true
		}
		ps = append(ps, ioPiece{}, ioPiece{eof: true})
	}
	return ps
}

func cloneScript(ps []ioPiece) []ioPiece {
	o := make([]ioPiece, len(ps))
	for i := range ps {
		o[i] = ioPiece{d: append([]byte(nil), ps[i].d...), eof: ps[i].eof}
	}
	return o
}

// recorder notes what every Read of the wrapped reader returned (the script the model replays).
type recorder struct {
	r    io.Reader
	ps   []ioPiece
	bad  bool // an error other than io.EOF was seen (not expressible as a script)
	errs []error
}

func (x *recorder) Read(b []byte) (int, error) {
	n, err := x.r.Read(b)
	x.ps = append(x.ps, ioPiece{d: append([]byte(nil), b[:n]...), eof: err == io.EOF})
	if err != nil && err != io.EOF {
		x.bad = true
		x.errs = append(x.errs, err)
	}
	return n, err
}

// decodeG decodes kinds with the Go-level methods and renders what the caller sees.
func decodeG(rd data.Reader, rem func() int, kinds []string, r *Rng) (string, []tv, error) {
	var got []tv
	for _, k := range kinds {
		v, err := readTV(rd, k, r.Bool())
		if err != nil {
			return fmt.Sprintf("err %s %s", errClass(err), gtoks(got)), got, err
		}
		got = append(got, v)
	}
	return fmt.Sprintf("ok rem=%d %s", rem(), gtoks(got)), got, nil
}

// readIntoG calls the pointer reader of kind k on a destination holding old; returns the
// destination afterwards and the error.
func readIntoG(rd data.Reader, old tv) (tv, error) {
	k := old.kind
	v := tv{kind: k}
	var err error
	switch k {
	case "b":
		x := old.u == 1
		err = rd.ReadBool(&x)
		if x {
			v.u = 1
		}
	case "i8":
		x := int8(old.u)
		err = rd.ReadInt8(&x)
		v.u = uint64(uint8(x))
	case "u8":
		x := uint8(old.u)
		err = rd.ReadUint8(&x)
		v.u = uint64(x)
	case "i16":
		x := int16(old.u)
		err = rd.ReadInt16(&x)
		v.u = uint64(uint16(x))
	case "u16":
		x := uint16(old.u)
		err = rd.ReadUint16(&x)
		v.u = uint64(x)
	case "i32":
		x := int32(old.u)
		err = rd.ReadInt32(&x)
		v.u = uint64(uint32(x))
	case "u32":
		x := uint32(old.u)
		err = rd.ReadUint32(&x)
		v.u = uint64(x)
	case "i64":
		x := int64(old.u)
		err = rd.ReadInt64(&x)
		v.u = uint64(x)
	case "u64":
		x := old.u
		err = rd.ReadUint64(&x)
		v.u = x
	case "int":
		x := int(old.u)
		err = rd.ReadInt(&x)
		v.u = uint64(x)
	case "uint":
		x := uint(old.u)
		err = rd.ReadUint(&x)
		v.u = uint64(x)
	case "f32":
		x := math.Float32frombits(uint32(old.u))
		err = rd.ReadFloat32(&x)
		v.u = uint64(math.Float32bits(x))
	case "f64":
		x := math.Float64frombits(old.u)
		err = rd.ReadFloat64(&x)
		v.u = math.Float64bits(x)
	case "by":
		x := append([]byte(nil), old.b...)
		err = rd.ReadBytes(&x)
		v.b = append([]byte(nil), x...)
	case "str":
		x := string(old.b)
		err = rd.ReadString(&x)
		v.b = []byte(x)
	case "sl":
		x := make([]string, len(old.l))
		for i := range old.l {
			x[i] = string(old.l[i])
		}
		err = data.ReadStringList(rd, &x)
		v.l = make([][]byte, len(x))
		for i := range x {
			v.l[i] = []byte(x[i])
		}
	}
	return v, err
}

func newReaderOver(reader string, full []byte, r *Rng) (data.Reader, func() int, string) {
	if reader == "chunk" {
		c := data.NewChunk(append([]byte(nil), full...))
		return c, c.Remaining, hx(full)
	}
	ps := genScript(r, full)
	sr := &scriptReader{p: cloneScript(ps)}
	return data.NewReader(sr), sr.remaining, ioTok(ps)
}

func imin(a, b int) int {
	if a < b {
		return a
	}
	return b
}

func eqG(a, b tv) bool { return gtok(a) == gtok(b) }

func runC10S3(c *Ctx) {
	// ---- 1. the whole surface at the Go level ------------------------------------------------------
	c.Cases("gsurf", c.N(500, 12000), func(r *Rng, i int) {
		n := 1 + r.Intn(5)
		vs := make([]tv, n)
		kinds := make([]string, n)
		for j := range vs {
			k := gKinds[(i+j*7+r.Intn(3))%len(gKinds)]
			vs[j] = genG(r, k)
			kinds[j] = k
			c.Count("gkind:" + k)
		}
		var ch data.Chunk
		var mw multiWrites
		sw := data.NewWriter(&mw)
		for _, v := range vs {
			if writeTV(&ch, v) != nil || writeTV(sw, v) != nil {
				c.Fail("write", "writer-error:gsurf", "a writer failed", gtoks(vs))
				return
			}
		}
		e1 := append([]byte(nil), ch.Payload()...)
		c.Op("encg "+gtoks(vs), hx(e1)+" "+hxChunks(mw.w))
		if !bytes.Equal(e1, bytes.Join(mw.w, nil)) {
			c.Fail("writers-agree", "writers-differ", "chunk and stream writer encodings differ", gtoks(vs))
		}
		trail := r.Bytes(r.Intn(3))
		full := append(append([]byte(nil), e1...), trail...)
		for _, reader := range []string{"chunk", "io"} {
			rd, rem, src := newReaderOver(reader, full, r)
			out, got, err := decodeG(rd, rem, kinds, r)
			c.Op(fmt.Sprintf("decg %s %s %s", reader, strings.Join(kinds, ","), src), out)
			if err != nil {
				c.Fail("roundtrip", "roundtrip-error:"+reader+":gsurf", fmt.Sprintf("%v on %s", err, src), gtoks(vs))
				continue
			}
			for j := range vs {
				if !eqG(vs[j], got[j]) {
					c.Fail("roundtrip", "roundtrip-value:"+reader+":"+vs[j].kind, fmt.Sprintf("wrote %s read %s", gtok(vs[j]), gtok(got[j])), gtoks(vs))
					break
				}
			}
			if !strings.HasPrefix(out, fmt.Sprintf("ok rem=%d ", len(trail))) {
				c.Fail("consumption", "consumed-wrong:"+reader, out, gtoks(vs))
			}
			// a truncation, Go level
			if len(e1) > 0 {
				cut := r.Intn(len(e1))
				rd, rem, src := newReaderOver(reader, e1[:cut], r)
				out, got, err := decodeG(rd, rem, kinds, r)
				c.Op(fmt.Sprintf("decg %s %s %s", reader, strings.Join(kinds, ","), src), out)
				if err == nil {
					c.Fail("truncation", "fabricated:"+reader+":"+vs[len(vs)-1].kind, fmt.Sprintf("no error on a %d/%d-byte prefix", cut, len(e1)), gtoks(vs))
				}
				for j := range got {
					if !eqG(vs[j], got[j]) {
						c.Fail("truncation", "fabricated-before-error:"+reader+":"+vs[j].kind, "value differs", gtoks(vs))
						break
					}
				}
			}
		}
		// pointer readers: destination after the call, complete and truncated source
		v := vs[0]
		var one data.Chunk
		writeTV(&one, v)
		enc := append([]byte(nil), one.Payload()...)
		old := genG(r, v.kind)
		for _, reader := range []string{"chunk", "io"} {
			for _, cut := range []int{len(enc), r.Intn(len(enc))} {
				rd, rem, src := newReaderOver(reader, enc[:cut], r)
				dst, err := readIntoG(rd, old)
				var out string
				if err == nil {
					out = fmt.Sprintf("dst=%s nil rem=%d", gtok(dst), rem())
				} else {
					out = fmt.Sprintf("dst=%s err %s", gtok(dst), errClass(err))
				}
				if v.kind == "sl" {
					c.Op(fmt.Sprintf("sli %s %s %s", reader, gtok(old), src), out)
					c.Count("sli:" + reader)
					if err == nil {
						want := append([][]byte(nil), v.l...)
						if len(v.l) == 0 || len(old.l) >= len(v.l) {
							want = append(want, old.l[imin(len(v.l), len(old.l)):]...)
						}
						if gtok(tv{kind: "sl", l: want}) != gtok(dst) {
							c.Fail("strlist-into", "strlist-into:"+reader, fmt.Sprintf("ReadStringList into %s gave %s, want %s", gtok(old), gtok(dst), gtok(tv{kind: "sl", l: want})), gtok(v))
						}
					}
					continue
				}
				c.Op(fmt.Sprintf("decp %s %s %s", reader, gtok(old), src), out)
				c.Count("decp:" + reader)
				switch {
				case cut == len(enc) && (err != nil || !eqG(dst, v)):
					c.Fail("pointer-read", "ptr-roundtrip:"+reader+":"+v.kind, out, gtok(v))
				case cut < len(enc) && err == nil:
					c.Fail("truncation", "fabricated:"+reader+":"+v.kind, "pointer reader returned no error on a strict prefix", gtok(v))
				case cut < len(enc) && !eqG(dst, old):
					c.Fail("pointer-read", "ptr-dest-changed-on-error:"+reader+":"+v.kind, fmt.Sprintf("destination %s became %s although the read failed", gtok(old), gtok(dst)), gtok(v))
				}
			}
		}
		c.Eval(true, "gsurf"+gtoks(vs))
	})

	// ---- 2. prefix classes and non-canonical headers -----------------------------------------------
	clsPool := []int{0, 1, 2, 127, 128, 254, 255, 256, 257, 300, 65534, 65535, 65536, 65537, 70000}
	c.Cases("cls", c.N(60, 600), func(r *Rng, i int) {
		l := clsPool[i%len(clsPool)]
		if i >= len(clsPool) {
			l = r.Intn(70001)
			if r.Bool() {
				l = r.Intn(600)
			}
		}
		b := make([]byte, l)
		var ch data.Chunk
		var mw multiWrites
		sw := data.NewWriter(&mw)
		if ch.WriteBytes(b) != nil || sw.WriteBytes(b) != nil {
			c.Fail("write", "writer-error:cls", "WriteBytes failed", l)
			return
		}
		h1 := ch.Payload()[:ch.Size()-l]
		h2 := mw.w[0]
		hdrs := [][]byte{h1, h2}
		if l <= 300 || i < len(clsPool) {
			s := make([]string, l)
			var ch2 data.Chunk
			var mw2 multiWrites
			if data.WriteStringList(&ch2, s) != nil || data.WriteStringList(data.NewWriter(&mw2), s) != nil {
				c.Fail("write", "writer-error:cls", "WriteStringList failed", l)
				return
			}
			hdrs = append(hdrs, ch2.Payload()[:ch2.Size()-l], mw2.w[0])
		}
		c.Op(fmt.Sprintf("cls %d", l), hx(h1))
		for k, h := range hdrs {
			if !bytes.Equal(h, h1) {
				c.Fail("writers-agree", "header-differs", fmt.Sprintf("header %d for length %d: %s vs %s", k, l, hx(h), hx(h1)), l)
			}
		}
		// exact class: shortest width that holds l
		want := 0
		switch {
		case l == 0:
		case l < 1<<8:
			want = 1
		case l < 1<<16:
			want = 2
		default:
			want = 4
		}
		if len(h1) != 1+want {
			c.Fail("prefix-class", "class-not-minimal", fmt.Sprintf("length %d written with %d length bytes", l, len(h1)-1), l)
		}
		c.Count(fmt.Sprintf("cls:%d", want))
		c.Eval(true, fmt.Sprint("cls", l))
	})
	c.Cases("noncanon", c.N(400, 8000), func(r *Rng, i int) {
		t := byte(i % 11)
		if i%97 == 96 {
			t = byte(9 + r.Intn(247))
		}
		w := map[byte]int{1: 1, 2: 1, 3: 2, 4: 2, 5: 4, 6: 4, 7: 8, 8: 8}[t]
		kind := []string{"by", "str", "sl"}[r.Intn(3)]
		decl := uint64([]int{0, 1, 2, 5, 127, 128, 255, 256, 257, 300, 65535, 65536}[r.Intn(12)])
		if w == 1 && decl > 255 {
			decl &= 0xFF
		}
		if w == 2 && decl > 65535 {
			decl &= 0xFFFF
		}
		if kind == "sl" && decl > 300 {
			decl = uint64(r.Intn(4))
		}
		huge := false
		if w == 8 && r.Chance(15) { // over-long: beyond MaxSlice (refused before any allocation)
			decl = uint64(data.MaxSlice) + 1 + uint64(r.Intn(1000))
			huge = true
			if kind == "sl" && r.Bool() {
				decl = 1<<63 + uint64(r.Intn(1000)) // int(n) is negative: no entry is read
			}
		}
		raw := []byte{t}
		for k := w - 1; k >= 0; k-- {
			raw = append(raw, byte(decl>>(8*uint(k))))
		}
		var body []byte
		var items [][]byte
		if kind == "sl" && !huge {
			for k := uint64(0); k < decl; k++ {
				it := r.Bytes(r.Intn(4))
				items = append(items, it)
				var one data.Chunk
				one.WriteBytes(it)
				body = append(body, one.Payload()...)
			}
		} else if !huge {
			body = r.Bytes(int(decl))
		}
		mode := r.Intn(4) // 0,1 exact; 2 short; 3 extra
		extra := 0
		switch mode {
		case 2:
			if len(body) > 0 {
				body = body[:r.Intn(len(body))]
			}
		case 3:
			extra = 1 + r.Intn(3)
		}
		raw = append(append(raw, body...), r.Bytes(extra)...)
		for _, reader := range []string{"chunk", "stream"} {
			pieces := r.Split(raw)
			out, got, err := decodeWith(reader, []string{kind}, pieces, r)
			c.Op(fmt.Sprintf("dec %s %s %s", reader, kind, hxChunks(pieces)), out)
			c.Count(fmt.Sprintf("noncanon:%s:t%d:%s", reader, imin(int(t), 9), strings.SplitN(out, " ", 3)[1]))
			// what the noncanonical_* theorems say
			switch {
			case t > 8:
				if errClass(err) != "badtype" {
					c.Fail("noncanonical", "noncanon:badtag:"+reader, out, hx(raw))
				}
			case t == 0:
				if err != nil || !strings.HasPrefix(out, fmt.Sprintf("ok rem=%d ", len(raw)-1)) {
					c.Fail("noncanonical", "noncanon:tag0:"+reader, out, hx(raw))
				}
			case huge && kind == "sl":
				// a count beyond MaxSlice: entries are read until the data ends (no allocation by the
				// count); a count >= 2^63 is negative as an int and yields the empty list (model only)
				if decl >= 1<<63 && (err != nil || len(got) != 1 || len(got[0].l) != 0) {
					c.Fail("noncanonical", "noncanon:negative-count:"+reader, out, hx(raw[:9]))
				}
			case huge:
				if errClass(err) != "toolarge" {
					c.Fail("noncanonical", "noncanon:toolarge:"+reader, out, hx(raw[:9]))
				}
			case decl == 0 && kind != "sl":
				if errClass(err) != "ueof" {
					c.Fail("noncanonical", "noncanon:zero-length:"+reader, out, hx(raw))
				}
			case mode != 2 || (decl == 0 && kind == "sl"):
				ok := err == nil && len(got) == 1
				if ok && kind == "sl" {
					ok = gtok(got[0]) == gtok(tv{kind: "sl", l: items})
				} else if ok {
					ok = bytes.Equal(got[0].b, body[:decl])
				}
				if !ok || !strings.HasPrefix(out, fmt.Sprintf("ok rem=%d ", extra)) {
					c.Fail("noncanonical", "noncanon:not-accepted:"+reader, out, hx(raw))
				}
			default:
				if err == nil {
					c.Fail("truncation", "fabricated:"+reader+":"+kind, "short body behind a non-canonical header accepted: "+out, hx(raw))
				}
			}
		}
		c.Eval(true, "nc"+hx(raw)+kind)
	})

	// ---- 3. io.Readers with (n>0, EOF), (0, nil), halves, single bytes, timeouts ---------------------
	c.Cases("rf", c.N(300, 6000), func(r *Rng, i int) {
		b := r.Bytes(r.Intn(12))
		ps := genScript(r, b)
		if r.Chance(10) && len(ps) > 1 { // a reader that breaks the contract: EOF in the middle
			ps[r.Intn(len(ps))].eof = true
		}
		k := r.Intn(10)
		if r.Chance(60) {
			k = []int{1, 2, 4, 8}[r.Intn(4)]
		}
		sr := &scriptReader{p: cloneScript(ps)}
		buf := make([]byte, k)
		n, err := io.ReadFull(sr, buf)
		c.Op(fmt.Sprintf("rf %d %s", k, ioTok(ps)), fmt.Sprintf("got=%s %s rest=%s", hx(buf[:n]), errClass(err), ioTok(sr.p)))
		c.Count("rf:" + errClass(err))
		c.Eval(len(ps) > 1, fmt.Sprint("rf", k, ioTok(ps)))
	})
	wrappers := []string{"dataerr", "half", "onebyte", "dataerr+half", "dataerr+onebyte", "half+dataerr", "timeout", "timeout+onebyte"}
	c.Cases("iotest", c.N(16*len(wrappers)*2, 16*len(wrappers)*40), func(r *Rng, i int) {
		kind := gKinds[i%16]
		wn := wrappers[(i/16)%len(wrappers)]
		vs := []tv{genG(r, kind)}
		for k := r.Intn(3); k > 0; k-- {
			vs = append(vs, genG(r, gKinds[r.Intn(16)]))
		}
		if r.Bool() { // the value under test is the LAST one: its final byte comes with io.EOF
			vs[0], vs[len(vs)-1] = vs[len(vs)-1], vs[0]
		}
		kinds := strings.Split(kindsOf(vs), ",")
		var ch data.Chunk
		for _, v := range vs {
			writeTV(&ch, v)
		}
		enc := append([]byte(nil), ch.Payload()...)
		cut := len(enc)
		if r.Chance(30) {
			cut = r.Intn(len(enc))
		}
		var src io.Reader = bytes.NewReader(enc[:cut])
		for _, w := range strings.Split(wn, "+") {
			switch w {
			case "dataerr":
				src = iotest.DataErrReader(src)
			case "half":
				src = iotest.HalfReader(src)
			case "onebyte":
				src = iotest.OneByteReader(src)
			case "timeout":
				src = iotest.TimeoutReader(src)
			}
		}
		rec := &recorder{r: src}
		rd := data.NewReader(rec)
		var got []tv
		var err error
		for _, k := range kinds {
			var v tv
			if v, err = readTV(rd, k, r.Bool()); err != nil {
				break
			}
			got = append(got, v)
		}
		c.Count("iotest:" + wn + ":" + errClass(err))
		// oracle: nothing fabricated; without a timeout the complete stream round-trips
		for j := range got {
			if !eqG(vs[j], got[j]) {
				c.Fail("roundtrip", "roundtrip-value:stream:"+vs[j].kind+":"+wn, fmt.Sprintf("wrote %s read %s through %s", gtok(vs[j]), gtok(got[j]), wn), gtoks(vs))
				break
			}
		}
		timeout := strings.Contains(wn, "timeout")
		switch {
		case err == nil && cut < len(enc):
			c.Fail("truncation", "fabricated:stream:"+vs[len(got)-1].kind, "no error on a strict prefix through "+wn, gtoks(vs))
		case err != nil && cut == len(enc) && !timeout:
			c.Fail("roundtrip", "roundtrip-error:stream:"+wn, fmt.Sprintf("%v after %d values through %s", err, len(got), wn), gtoks(vs))
		case err != nil && timeout && cut == len(enc) && err != iotest.ErrTimeout:
			c.Fail("roundtrip", "roundtrip-error:stream:"+wn, fmt.Sprintf("%v (not the reader's timeout) after %d values", err, len(got)), gtoks(vs))
		}
		// model: replay what the Reads returned
		if !rec.bad {
			var out string
			if err == nil {
				out = fmt.Sprintf("ok rem=%d %s", 0, gtoks(got))
			} else {
				out = fmt.Sprintf("err %s %s", errClass(err), gtoks(got))
			}
			if err == nil && cut == len(enc) {
				// whatever was not yet requested is not in the recording: rem=0 by construction
			}
			c.Op(fmt.Sprintf("decg io %s %s", strings.Join(kinds, ","), ioTok(rec.ps)), out)
		}
		c.Eval(true, fmt.Sprint("iotest", wn, gtoks(vs), cut))
	})
}
