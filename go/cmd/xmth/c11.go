package main

import (
	"time"
	"net"
	"bytes"
	"fmt"
	"io"
	"runtime/debug"
	"strings"

	"github.com/iDigitalFlame/xmt/data"
)

type sinkAll struct{ b []byte }

func (s *sinkAll) Write(p []byte) (int, error) { s.b = append(s.b, p...); return len(p), nil }

// sinkLim takes `left` more bytes, then fails (reporting how many bytes of the piece it took).
type sinkLim struct {
	b    []byte
	left int
}

func (s *sinkLim) Write(p []byte) (int, error) {
	n := len(p)
	if n > s.left {
		n = s.left
	}
	s.b = append(s.b, p[:n]...)
	s.left -= n
	if n < len(p) {
		return n, io.ErrShortWrite
	}
	return n, nil
}

// pieceConn is a net.Conn that reads from a PieceReader.
type pieceConn struct{ r *PieceReader }

func (p *pieceConn) Read(b []byte) (int, error)       { return p.r.Read(b) }
func (p *pieceConn) Write(b []byte) (int, error)      { return len(b), nil }
func (p *pieceConn) Close() error                     { return nil }
func (p *pieceConn) LocalAddr() net.Addr              { return nil }
func (p *pieceConn) RemoteAddr() net.Addr             { return nil }
func (p *pieceConn) SetDeadline(time.Time) error      { return nil }
func (p *pieceConn) SetReadDeadline(time.Time) error  { return nil }
func (p *pieceConn) SetWriteDeadline(time.Time) error { return nil }

func hashBytes(b []byte) uint32 {
	h := uint32(7)
	for _, x := range b {
		h = h*31 + uint32(x) + 1
	}
	return h
}

func chunkSummary(c *data.Chunk) string {
	e, a := 0, 0
	if c.Empty() {
		e = 1
	}
	if c.Available(3) {
		a = 1
	}
	return fmt.Sprintf(";s=%d,m=%d,sp=%d,c=%d,h=%d,e=%d,a=%d", c.Size(), c.Remaining(), c.Space(), c.VerifCap(), hashBytes(c.Payload()), e, a)
}

var c11Limits = []int{0, 0, 0, 1, 2, 5, 10, 10, 63, 64, 65, 100, 300, 4096}

func beBytes(k int, v uint64) []byte {
	b := make([]byte, k)
	for i := 0; i < k; i++ {
		b[k-1-i] = byte(v >> (8 * i))
	}
	return b
}

func lenPrefixGo(l int) []byte {
	switch {
	case l == 0:
		return []byte{0}
	case l < 256:
		return []byte{1, byte(l)}
	case l < 65536:
		return []byte{3, byte(l >> 8), byte(l)}
	}
	return []byte{5, byte(l >> 24), byte(l >> 16), byte(l >> 8), byte(l)}
}

// runChunkSeq executes one op sequence on a real chunk, returns op tokens and outputs, and checks
// the byte-queue oracle along the way.
func runChunkSeq(c *Ctx, r *Rng, limit int, nops int) {
	ch := &data.Chunk{Limit: limit}
	var toks, outs []string
	ref := []byte{} // reference queue: the unread bytes
	limitFixed := true
	fail := func(kind, key, detail string) {
		c.Fail(kind, key, detail, map[string]interface{}{"limit": limit, "ops": append([]string(nil), toks...)})
	}
	seen := map[string]bool{}
	for i := 0; i < nops; i++ {
		var tok, out string
		before := ch.Remaining()
		switch x := r.Intn(100); {
		case x < 28: // Write
			n := genLenSmallC11(r, limit)
			b := r.Bytes(n)
			tok = "w:" + hx(b)
			w, err := ch.Write(b)
			out = fmt.Sprintf("w=%d,%s", w, errClass(err))
			if w < 0 || w > len(b) {
				fail("write-count", "write-count-range", fmt.Sprintf("Write returned %d for %d bytes", w, len(b)))
				w = 0
			}
			ref = append(ref, b[:w]...)
			if err == nil && w != len(b) {
				fail("write-count", "short-write-no-error", fmt.Sprintf("Write accepted %d of %d without error", w, len(b)))
			}
			if err != nil && err != data.ErrLimit {
				fail("write-error", "write-error:"+errClass(err), "unexpected Write error "+err.Error())
			}
			if err == data.ErrLimit && limit <= 0 {
				fail("write-error", "limit-error-without-limit", "ErrLimit with no limit set")
			}
		case x < 45: // Read
			k := r.Intn(12)
			if r.Chance(10) {
				k = r.Intn(300)
			}
			tok = fmt.Sprintf("r:%d", k)
			b := make([]byte, k)
			n, err := ch.Read(b)
			out = fmt.Sprintf("r=%s,%s", hx(b[:n]), errClass(err))
			if n > len(ref) || !bytes.Equal(b[:n], ref[:n]) {
				fail("fifo", "read-mismatch", fmt.Sprintf("Read returned %s, queue holds %s", hx(b[:n]), hx(ref)))
				ref = append([]byte(nil), ch.Payload()...)
			} else {
				ref = ref[n:]
			}
			if n < k && n < before {
				fail("fifo", "read-short", "Read returned fewer bytes than requested and available")
			}
		case x < 60: // typed writes
			k := []int{1, 2, 4, 8}[r.Intn(4)]
			v := r.U64()
			if k < 8 {
				v &= 1<<(8*uint(k)) - 1
			}
			tok = fmt.Sprintf("u%d:%d", 8*k, v)
			var err error
			switch k {
			case 1:
				err = ch.WriteUint8(uint8(v))
			case 2:
				err = ch.WriteUint16(uint16(v))
			case 4:
				err = ch.WriteUint32(uint32(v))
			default:
				err = ch.WriteUint64(v)
			}
			out = "e=" + errClass(err)
			if err == nil {
				ref = append(ref, beBytes(k, v)...)
			}
		case x < 68: // WriteBytes
			n := genLenSmallC11(r, limit)
			b := r.Bytes(n)
			tok = "by:" + hx(b)
			err := ch.WriteBytes(b)
			out = "e=" + errClass(err)
			if err == nil {
				ref = append(append(ref, lenPrefixGo(n)...), b...)
			}
		case x < 74: // typed reads
			k := []int{1, 2, 4, 8}[r.Intn(4)]
			tok = fmt.Sprintf("ru%d", 8*k)
			var v uint64
			var err error
			switch k {
			case 1:
				var t uint8
				t, err = ch.Uint8()
				v = uint64(t)
			case 2:
				var t uint16
				t, err = ch.Uint16()
				v = uint64(t)
			case 4:
				var t uint32
				t, err = ch.Uint32()
				v = uint64(t)
			default:
				v, err = ch.Uint64()
			}
			out = fmt.Sprintf("v=%d,%s", v, errClass(err))
			if err == nil {
				if len(ref) < k || !bytes.Equal(beBytes(k, v), ref[:k]) {
					fail("fifo", "typed-read-mismatch", fmt.Sprintf("Uint%d returned %d, queue holds %s", 8*k, v, hx(ref)))
					ref = append([]byte(nil), ch.Payload()...)
				} else {
					ref = ref[k:]
				}
			} else if len(ref) >= k {
				fail("fifo", "typed-read-error", fmt.Sprintf("Uint%d failed with %d bytes queued", 8*k, len(ref)))
			}
		case x < 78: // Bytes()
			tok = "rby"
			b, err := ch.Bytes()
			out = fmt.Sprintf("v=%s,%s", hx(b), errClass(err))
			if err != nil {
				out = "v=-," + errClass(err)
			}
			ref = append([]byte(nil), ch.Payload()...) // Bytes() on arbitrary queue content: model-checked only
		case x < 82: // positional write
			k := []int{1, 2, 4, 8}[r.Intn(4)]
			p := r.Intn(ch.Size() + 3)
			if r.Chance(12) { // a negative position is refused (ErrInvalidIndex), never indexed
				p = -1 - r.Intn(9)
			}
			v := r.U64()
			if k < 8 {
				v &= 1<<(8*uint(k)) - 1
			}
			tok = fmt.Sprintf("p%d:%d:%d", 8*k, p, v)
			var err error
			switch k {
			case 1:
				err = ch.WriteUint8Pos(p, uint8(v))
			case 2:
				err = ch.WriteUint16Pos(p, uint16(v))
			case 4:
				err = ch.WriteUint32Pos(p, uint32(v))
			default:
				err = ch.WriteUint64Pos(p, v)
			}
			out = "e=" + errClass(err)
			ref = append([]byte(nil), ch.Payload()...)
			if ch.Remaining() != before {
				fail("poswrite", "poswrite-changed-length", "positional write changed the number of unread bytes")
			}
		case x < 86: // Seek
			w := r.Intn(3)
			o := r.Intn(ch.Size()+4) - 2
			if w == 2 {
				o = -r.Intn(ch.Size() + 2)
			}
			tok = fmt.Sprintf("sk:%d:%d", o, w)
			p, err := ch.Seek(int64(o), w)
			out = fmt.Sprintf("sk=%d,%s", p, errClass(err))
			ref = append([]byte(nil), ch.Payload()...)
		case x < 89: // Truncate
			n := r.Intn(ch.Remaining()+3) - 1
			tok = fmt.Sprintf("tr:%d", n)
			err := ch.Truncate(n)
			out = "e=" + errClass(err)
			if err == nil {
				if n > len(ref) {
					fail("truncate", "truncate-beyond", "Truncate accepted more than the unread bytes")
				} else {
					ref = ref[:n]
				}
			}
		case x < 92: // Grow
			n := r.Intn(200) - 3
			tok = fmt.Sprintf("gr:%d", n)
			err := ch.Grow(n)
			out = "e=" + errClass(err)
		case x < 94:
			tok = "rs"
			ch.Reset()
			out = "e=nil"
			ref = ref[:0]
		case x < 95:
			tok = "cl"
			ch.Clear()
			out = "e=nil"
			ref = ref[:0]
		case x < 98: // ReadFrom
			b := r.Bytes(genLenSmallC11(r, limit) * (1 + r.Intn(3)))
			pieces := r.Split(b)
			if r.Chance(3) { // cross the 16 KiB transfer buffer, in coarse pieces
				b = r.Bytes(16384 + r.Intn(20000))
				pieces = nil
				for rest := b; len(rest) > 0; {
					n := 3000 + r.Intn(17000)
					if n > len(rest) {
						n = len(rest)
					}
					pieces = append(pieces, rest[:n])
					rest = rest[n:]
				}
			}
			tok = "rf:" + hxChunks(pieces)
			pr := &PieceReader{P: append([][]byte(nil), pieces...)}
			var t int64
			var err error
			if r.Chance(35) {
				// the net.Conn variant of the same loop (no time-outs occur on this connection)
				t, err = ch.ReadDeadline(&pieceConn{pr}, time.Duration(r.Intn(2))*time.Second)
				c.Count("op:rf-deadline")
			} else {
				t, err = ch.ReadFrom(pr)
			}
			out = fmt.Sprintf("rf=%d,rest=%d", t, pr.Remaining())
			if err != nil {
				out += "," + errClass(err)
			}
			if t < 0 || int(t) > len(b) {
				fail("readfrom", "readfrom-count", "ReadFrom count out of range")
			} else {
				ref = append(ref, b[:t]...)
				if int(t)+pr.Remaining() != len(b) {
					fail("readfrom", "readfrom-lost-bytes", fmt.Sprintf("ReadFrom reported %d, reader has %d left of %d", t, pr.Remaining(), len(b)))
				}
			}
		case x == 98 && r.Bool(): // WriteTo into a writer that takes only part of the data and then fails
			k := r.Intn(len(ref) + 3)
			if r.Chance(30) {
				k = r.Intn(4)
			}
			tok = fmt.Sprintf("wl:%d", k)
			s := sinkLim{left: k}
			n, err := ch.WriteTo(&s)
			out = fmt.Sprintf("wl=%d,%s", n, hx(s.b))
			if err != nil {
				out += ",err"
			}
			if int(n) != len(s.b) || !bytes.HasPrefix(ref, s.b) {
				fail("fifo", "writeto-count", fmt.Sprintf("WriteTo reported %d bytes, the writer took %d (%s), queue held %s", n, len(s.b), hx(s.b), hx(ref)))
				ref = append([]byte(nil), ch.Payload()...)
			} else {
				ref = ref[len(s.b):]
			}
		default: // WriteTo
			tok = "wt"
			var s sinkAll
			n, err := ch.WriteTo(&s)
			out = "wt=" + hx(s.b)
			if err != nil || int(n) != len(s.b) || !bytes.Equal(s.b, ref) {
				fail("fifo", "writeto-mismatch", fmt.Sprintf("WriteTo wrote %s, queue held %s", hx(s.b), hx(ref)))
			}
			ref = ref[:0]
		}
		toks = append(toks, tok)
		outs = append(outs, out+chunkSummary(ch))
		seen[strings.SplitN(tok, ":", 2)[0]] = true
		c.Count("op:" + strings.SplitN(tok, ":", 2)[0])
		if strings.Contains(out, "limit") {
			c.Count("hit:limit")
		}
		// invariants after every op
		if limit > 0 && limitFixed && ch.Size() > limit {
			fail("limit", "size-exceeds-limit", fmt.Sprintf("Size %d > Limit %d", ch.Size(), limit))
			break
		}
		if ch.Remaining() != len(ref) || !bytes.Equal(ch.Payload(), ref) {
			fail("fifo", "queue-mismatch:"+strings.SplitN(tok, ":", 2)[0], fmt.Sprintf("after %s: unread %s, byte-queue model %s", tok, hx(ch.Payload()), hx(ref)))
			ref = append([]byte(nil), ch.Payload()...)
		}
	}
	c.Op(fmt.Sprintf("seq %d %s", limit, strings.Join(toks, " ")), strings.Join(outs, " "))
	c.Eval(len(seen) >= 3, fmt.Sprint(limit, toks))
}

func genLenSmallC11(r *Rng, limit int) int {
	switch x := r.Intn(10); {
	case x < 5:
		return r.Intn(9)
	case x < 7 && limit > 0:
		if n := limit - 2 + r.Intn(5); n >= 0 {
			return n
		}
		return 0
	case x < 8:
		return []int{31, 32, 33, 63, 64, 65, 127, 128, 129, 255, 256, 257}[r.Intn(12)]
	case x < 9:
		return r.Intn(120)
	}
	return r.Intn(20)
}

func runC11(c *Ctx) {
	// regression corpus first (minimised past failures)
	c.Cases("corpus", 1, func(r *Rng, i int) {
		// slide path exceeding the limit; stray byte after failed WriteBytes
		for _, cs := range []struct {
			lim int
			ops []func(ch *data.Chunk) string
		}{} {
			_ = cs
		}
		ch := &data.Chunk{Limit: 10}
		ch.Write(make([]byte, 5))
		ch.Write(make([]byte, 5))
		ch.Read(make([]byte, 5))
		n, _ := ch.Write(make([]byte, 100))
		if ch.Size() > 10 {
			c.Fail("limit", "size-exceeds-limit", fmt.Sprintf("limit 10: w5 w5 r5 w100 accepted %d, Size %d", n, ch.Size()), "corpus:slide")
		}
		ch2 := &data.Chunk{Limit: 5}
		err := ch2.WriteBytes(make([]byte, 10))
		if err != nil && ch2.Size() != 0 {
			c.Fail("fifo", "queue-mismatch:by", fmt.Sprintf("limit 5: failed WriteBytes(10) left Size %d", ch2.Size()), "corpus:straybyte")
		}
		c.Eval(true, "corpus")
	})
	c.Cases("seq", c.N(4000, 25000), func(r *Rng, i int) {
		limit := c11Limits[r.Intn(len(c11Limits))]
		n := 4 + r.Intn(40)
		if r.Chance(5) {
			n = 200
		}
		func() {
			defer func() {
				if e := recover(); e != nil {
					c.Fail("panic", "panic:chunk", fmt.Sprintf("panic: %v", e), map[string]interface{}{"limit": limit, "case": i, "stack": string(debug.Stack())})
				}
			}()
			runChunkSeq(c, r, limit, n)
		}()
	})
	runC11S3(c) // extension round s3: c11_s3.go
	_ = io.EOF
}

func init() { register("C11", runC11) }
