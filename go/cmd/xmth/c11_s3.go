package main

// C11 extension (round s3): exact Seek / positional-write clauses, the exact acceptance count of Write
// (room), per-op panic containment, the remaining Chunk API (wrappers, WriteBoolPos, String,
// MarshalStream) and the regenerated method census of *data.Chunk.

import (
	"bytes"
	"fmt"
	"go/ast"
	"go/build"
	"go/parser"
	"go/token"
	"math"
	"os"
	"sort"
	"strings"

	"github.com/iDigitalFlame/xmt/data"
)

func init() {
	factProviders = append(factProviders, func(f *factSet, repo string) error {
		dir := repo + "/data"
		ents, err := os.ReadDir(dir)
		if err != nil {
			return err
		}
		var names, pos []string
		guard := 0
		fset := token.NewFileSet()
		for _, e := range ents {
			n := e.Name()
			if !strings.HasSuffix(n, ".go") || strings.HasSuffix(n, "_test.go") {
				continue
			}
			if ok, err := build.Default.MatchFile(dir, n); err != nil || !ok {
				continue // chunk_heap.go (windows && heap) and friends are not compiled here
			}
			file, err := parser.ParseFile(fset, dir+"/"+n, nil, 0)
			if err != nil {
				return err
			}
			for _, d := range file.Decls {
				fd, ok := d.(*ast.FuncDecl)
				if !ok || fd.Recv == nil || len(fd.Recv.List) != 1 || !fd.Name.IsExported() {
					continue
				}
				t := fd.Recv.List[0].Type
				if s, ok := t.(*ast.StarExpr); ok {
					t = s.X
				}
				if id, ok := t.(*ast.Ident); !ok || id.Name != "Chunk" {
					continue
				}
				names = append(names, fd.Name.Name)
				if strings.HasSuffix(fd.Name.Name, "Pos") {
					pos = append(pos, fd.Name.Name)
					if c11NegGuardFirst(fd) {
						guard++
					}
				}
			}
		}
		sort.Strings(names)
		sort.Strings(pos)
		f.Raw("c11_chunkMethods", "List String", leanStrList(names))
		f.Raw("c11_posWriters", "List String", leanStrList(pos))
		f.Nat("c11_posGuardNeg", uint64(guard))
		return nil
	})
}

// c11NegGuardFirst: the first statement of the method is `if p < 0 { return ErrInvalidIndex }`
// (p = the first parameter).
func c11NegGuardFirst(fd *ast.FuncDecl) bool {
	if fd.Body == nil || len(fd.Body.List) == 0 || len(fd.Type.Params.List) == 0 || len(fd.Type.Params.List[0].Names) == 0 {
		return false
	}
	p := fd.Type.Params.List[0].Names[0].Name
	is, ok := fd.Body.List[0].(*ast.IfStmt)
	if !ok || is.Init != nil || is.Else != nil {
		return false
	}
	be, ok := is.Cond.(*ast.BinaryExpr)
	if !ok || be.Op != token.LSS {
		return false
	}
	x, ok1 := be.X.(*ast.Ident)
	y, ok2 := be.Y.(*ast.BasicLit)
	if !ok1 || !ok2 || x.Name != p || y.Value != "0" {
		return false
	}
	if len(is.Body.List) != 1 {
		return false
	}
	rs, ok := is.Body.List[0].(*ast.ReturnStmt)
	if !ok || len(rs.Results) != 1 {
		return false
	}
	id, ok := rs.Results[0].(*ast.Ident)
	return ok && id.Name == "ErrInvalidIndex"
}

// c11Room transcribes XMT/ChunkRoom.lean `room` / `refused` (Limit > 0) on the observable state.
func c11Room(l, rp, cp, L, k int) (room int, refused bool) {
	x := l - rp
	if x < 0 {
		x = 0
	}
	req := k
	if L-x < req {
		req = L - x
	}
	if req < 0 {
		req = 0
	}
	switch {
	case l < L && k <= cp-l:
		return L - l, false
	case x == 0:
		return L, false
	case x >= L:
		return 0, true
	case l < L && req <= cp-l:
		return L - l, false
	case req <= cp/2-x:
		return L - x, false
	case cp > L+req:
		return 0, true
	}
	return L - x, false
}

func c11SummaryX(c *data.Chunk) string {
	return chunkSummary(c) + fmt.Sprintf(",r=%d,vh=%d", c.VerifC11Rpos(), hashBytes(c.VerifC11Buf()))
}

type c11Wrap struct {
	name string
	k    int
	w    func(c *data.Chunk, v uint64) error
	r    func(c *data.Chunk) (uint64, error)
}

func b2u(b bool) uint64 {
	if b {
		return 1
	}
	return 0
}

// every typed writer / reader of *data.Chunk that forwards to a fixed-width primitive
var c11Writers = []c11Wrap{
	{name: "WriteInt", k: 8, w: func(c *data.Chunk, v uint64) error { return c.WriteInt(int(v)) }},
	{name: "WriteUint", k: 8, w: func(c *data.Chunk, v uint64) error { return c.WriteUint(uint(v)) }},
	{name: "WriteInt8", k: 1, w: func(c *data.Chunk, v uint64) error { return c.WriteInt8(int8(v)) }},
	{name: "WriteBool", k: 1, w: func(c *data.Chunk, v uint64) error { return c.WriteBool(v&1 == 1) }},
	{name: "WriteInt16", k: 2, w: func(c *data.Chunk, v uint64) error { return c.WriteInt16(int16(v)) }},
	{name: "WriteInt32", k: 4, w: func(c *data.Chunk, v uint64) error { return c.WriteInt32(int32(v)) }},
	{name: "WriteInt64", k: 8, w: func(c *data.Chunk, v uint64) error { return c.WriteInt64(int64(v)) }},
	{name: "WriteUint8", k: 1, w: func(c *data.Chunk, v uint64) error { return c.WriteUint8(uint8(v)) }},
	{name: "WriteUint16", k: 2, w: func(c *data.Chunk, v uint64) error { return c.WriteUint16(uint16(v)) }},
	{name: "WriteUint32", k: 4, w: func(c *data.Chunk, v uint64) error { return c.WriteUint32(uint32(v)) }},
	{name: "WriteUint64", k: 8, w: func(c *data.Chunk, v uint64) error { return c.WriteUint64(v) }},
	{name: "WriteFloat32", k: 4, w: func(c *data.Chunk, v uint64) error { return c.WriteFloat32(math.Float32frombits(uint32(v))) }},
	{name: "WriteFloat64", k: 8, w: func(c *data.Chunk, v uint64) error { return c.WriteFloat64(math.Float64frombits(v)) }},
}

var c11Readers = []c11Wrap{
	{name: "Int", k: 8, r: func(c *data.Chunk) (uint64, error) { v, e := c.Int(); return uint64(v), e }},
	{name: "Uint", k: 8, r: func(c *data.Chunk) (uint64, error) { v, e := c.Uint(); return uint64(v), e }},
	{name: "Bool", k: 1, r: func(c *data.Chunk) (uint64, error) { v, e := c.Bool(); return b2u(v), e }},
	{name: "Int8", k: 1, r: func(c *data.Chunk) (uint64, error) { v, e := c.Int8(); return uint64(uint8(v)), e }},
	{name: "Int16", k: 2, r: func(c *data.Chunk) (uint64, error) { v, e := c.Int16(); return uint64(uint16(v)), e }},
	{name: "Int32", k: 4, r: func(c *data.Chunk) (uint64, error) { v, e := c.Int32(); return uint64(uint32(v)), e }},
	{name: "Int64", k: 8, r: func(c *data.Chunk) (uint64, error) { v, e := c.Int64(); return uint64(v), e }},
	{name: "Uint8", k: 1, r: func(c *data.Chunk) (uint64, error) { v, e := c.Uint8(); return uint64(v), e }},
	{name: "Uint16", k: 2, r: func(c *data.Chunk) (uint64, error) { v, e := c.Uint16(); return uint64(v), e }},
	{name: "Uint32", k: 4, r: func(c *data.Chunk) (uint64, error) { v, e := c.Uint32(); return uint64(v), e }},
	{name: "Uint64", k: 8, r: func(c *data.Chunk) (uint64, error) { v, e := c.Uint64(); return v, e }},
	{name: "Float32", k: 4, r: func(c *data.Chunk) (uint64, error) { v, e := c.Float32(); return uint64(math.Float32bits(v)), e }},
	{name: "Float64", k: 8, r: func(c *data.Chunk) (uint64, error) { v, e := c.Float64(); return math.Float64bits(v), e }},
	{name: "ReadInt", k: 8, r: func(c *data.Chunk) (uint64, error) { var v int; e := c.ReadInt(&v); return uint64(v), e }},
	{name: "ReadUint", k: 8, r: func(c *data.Chunk) (uint64, error) { var v uint; e := c.ReadUint(&v); return uint64(v), e }},
	{name: "ReadBool", k: 1, r: func(c *data.Chunk) (uint64, error) { var v bool; e := c.ReadBool(&v); return b2u(v), e }},
	{name: "ReadInt8", k: 1, r: func(c *data.Chunk) (uint64, error) { var v int8; e := c.ReadInt8(&v); return uint64(uint8(v)), e }},
	{name: "ReadInt16", k: 2, r: func(c *data.Chunk) (uint64, error) { var v int16; e := c.ReadInt16(&v); return uint64(uint16(v)), e }},
	{name: "ReadInt32", k: 4, r: func(c *data.Chunk) (uint64, error) { var v int32; e := c.ReadInt32(&v); return uint64(uint32(v)), e }},
	{name: "ReadInt64", k: 8, r: func(c *data.Chunk) (uint64, error) { var v int64; e := c.ReadInt64(&v); return uint64(v), e }},
	{name: "ReadUint8", k: 1, r: func(c *data.Chunk) (uint64, error) { var v uint8; e := c.ReadUint8(&v); return uint64(v), e }},
	{name: "ReadUint16", k: 2, r: func(c *data.Chunk) (uint64, error) { var v uint16; e := c.ReadUint16(&v); return uint64(v), e }},
	{name: "ReadUint32", k: 4, r: func(c *data.Chunk) (uint64, error) { var v uint32; e := c.ReadUint32(&v); return uint64(v), e }},
	{name: "ReadUint64", k: 8, r: func(c *data.Chunk) (uint64, error) { var v uint64; e := c.ReadUint64(&v); return v, e }},
	{name: "ReadFloat32", k: 4, r: func(c *data.Chunk) (uint64, error) { var v float32; e := c.ReadFloat32(&v); return uint64(math.Float32bits(v)), e }},
	{name: "ReadFloat64", k: 8, r: func(c *data.Chunk) (uint64, error) { var v float64; e := c.ReadFloat64(&v); return math.Float64bits(v), e }},
}

func c11Mask(k int, v uint64) uint64 {
	if k < 8 {
		v &= 1<<(8*uint(k)) - 1
	}
	return v
}

// runChunkSeqX: one op sequence in the extended op language (`seqx`), with the exact oracles.
func runChunkSeqX(c *Ctx, r *Rng, limit int, script []string, nops int) {
	ch := &data.Chunk{Limit: limit}
	var toks, outs []string
	cur := "" // the op being executed (part of the replayable input of a failure)
	fail := func(kind, key, detail string) {
		ops := append([]string(nil), toks...)
		if cur != "" {
			ops = append(ops, cur)
		}
		c.Fail(kind, key, detail, map[string]interface{}{"limit": limit, "ops": ops})
	}
	seen := map[string]bool{}
	for i := 0; i < nops; i++ {
		var tok, out, method string
		cur = ""
		v0, rp, cp := ch.VerifC11Buf(), ch.VerifC11Rpos(), ch.VerifCap()
		l := len(v0)
		x := r.Intn(100)
		if script != nil {
			tok, x = script[i], -1
		}
		op := func(m string, f func()) { // per-op panic containment: a panic is an outcome, never a crash
			method, cur = m, tok
			defer func() {
				if e := recover(); e != nil {
					out = "panic"
					fail("panic", "panic:chunk:"+m, fmt.Sprintf("%s panicked: %v", m, e))
				}
			}()
			f()
		}
		kind := ""
		if script != nil {
			kind = strings.SplitN(tok, ":", 2)[0]
		}
		switch {
		case kind == "w" || (script == nil && x < 22): // Write (also the empty write), exact count
			var b []byte
			if script != nil {
				b = unhx(strings.SplitN(tok, ":", 2)[1])
			} else {
				n := genLenSmallC11(r, limit)
				if r.Chance(12) {
					n = 0
				}
				b = r.Bytes(n)
				tok = "w:" + hx(b)
			}
			op("Write", func() {
				w, err := ch.Write(b)
				room, ref := -1, false
				if limit > 0 {
					room, ref = c11Room(l, rp, cp, limit, len(b))
				}
				out = fmt.Sprintf("w=%d,%s,room=%d,ref=%d", w, errClass(err), room, b2u(ref))
				want, wantErr := len(b), "nil"
				if limit > 0 {
					if room < want {
						want = room
					}
					if want < len(b) || ref {
						wantErr = "limit"
					}
				}
				if w != want || errClass(err) != wantErr {
					fail("write-count", "write-count-exact", fmt.Sprintf("Write(%d bytes) with len=%d rpos=%d cap=%d limit=%d returned (%d,%s), exact count says (%d,%s)", len(b), l, rp, cp, limit, w, errClass(err), want, wantErr))
				}
				if len(b) == 0 && err != nil {
					c.Count("hit:empty-write-limit")
				}
				if ref {
					c.Count("hit:refused")
				}
				if limit > 0 && room > limit-l && w > limit-l {
					c.Count("hit:reclaimed-read-bytes")
				}
			})
		case kind == "r" || (script == nil && x < 34):
			k := r.Intn(12)
			if script != nil {
				fmt.Sscanf(tok, "r:%d", &k)
			} else {
				tok = fmt.Sprintf("r:%d", k)
			}
			op("Read", func() {
				b := make([]byte, k)
				n, err := ch.Read(b)
				out = fmt.Sprintf("r=%s,%s", hx(b[:n]), errClass(err))
				if rp <= l && n > 0 && !bytes.Equal(b[:n], v0[rp:rp+n]) {
					fail("fifo", "read-not-retained-bytes", fmt.Sprintf("Read returned %s, retained bytes at the cursor are %s", hx(b[:n]), hx(v0[rp:])))
				}
			})
		case kind == "sk" || (script == nil && x < 50): // Seek, exact (whence 0..3, targets out of range)
			var o, w int
			if script != nil {
				fmt.Sscanf(tok, "sk:%d:%d", &o, &w)
			} else {
				w = r.Intn(3)
				if r.Chance(8) {
					w = 3 + r.Intn(3)
				}
				switch w {
				case 0:
					o = r.Intn(l+5) - 2
				case 1:
					o = r.Intn(l+5) - 2 - rp
				case 2:
					o = r.Intn(l+5) - 2 - l
				default:
					o = r.Intn(5)
				}
				tok = fmt.Sprintf("sk:%d:%d", o, w)
			}
			op("Seek", func() {
				p, err := ch.Seek(int64(o), w)
				ec := errClass(err)
				if strings.HasPrefix(ec, "other:") && w > 2 {
					ec = "whence"
				}
				out = fmt.Sprintf("sk=%d,%s", p, ec)
				aim := o
				if w == 1 {
					aim = o + rp
				} else if w == 2 {
					aim = o + l
				}
				wantP, wantR, wantE := 0, rp, "badindex"
				switch {
				case w > 2:
					wantE = "whence"
				case aim >= 0 && aim <= l:
					wantP, wantR, wantE = aim, aim, "nil"
				}
				if int(p) != wantP || ec != wantE || ch.VerifC11Rpos() != wantR || !bytes.Equal(ch.VerifC11Buf(), v0) {
					fail("seek", "seek-exact", fmt.Sprintf("Seek(%d,%d) with len=%d rpos=%d returned (%d,%s) cursor %d; exact clause says (%d,%s) cursor %d, bytes unchanged", o, w, l, rp, p, ec, ch.VerifC11Rpos(), wantP, wantE, wantR))
				}
				if wantE == "nil" && !bytes.Equal(ch.Payload(), v0[aim:]) && !(aim == l && ch.Payload() == nil) {
					fail("seek", "seek-then-read", "the unread bytes after Seek are not the retained bytes from the target on")
				}
				c.Count("seek:" + wantE)
			})
		case kind == "pb" || kind == "p8" || kind == "p16" || kind == "p32" || kind == "p64" || (script == nil && x < 68):
			// positional writers, exact
			var k, p int
			var v uint64
			isBool := false
			if script != nil {
				f := strings.Split(tok, ":")
				fmt.Sscanf(f[1], "%d", &p)
				fmt.Sscanf(f[2], "%d", &v)
				switch kind {
				case "pb":
					k, isBool = 1, true
				case "p8":
					k = 1
				case "p16":
					k = 2
				case "p32":
					k = 4
				default:
					k = 8
				}
			} else {
				k = []int{1, 2, 4, 8}[r.Intn(4)]
				p = r.Intn(l + 3)
				if r.Chance(15) {
					p = l - k + r.Intn(3) - 1 // around the last position that fits
				}
				if r.Chance(12) {
					p = -1 - r.Intn(9)
				}
				v = c11Mask(k, r.U64())
				if k == 1 && r.Chance(35) {
					isBool, v = true, v&1
					tok = fmt.Sprintf("pb:%d:%d", p, v)
				} else {
					tok = fmt.Sprintf("p%d:%d:%d", 8*k, p, v)
				}
			}
			name := fmt.Sprintf("WriteUint%dPos", 8*k)
			if isBool {
				name = "WriteBoolPos"
			}
			op(name, func() {
				var err error
				switch {
				case isBool:
					err = ch.WriteBoolPos(p, v == 1)
				case k == 1:
					err = ch.WriteUint8Pos(p, uint8(v))
				case k == 2:
					err = ch.WriteUint16Pos(p, uint16(v))
				case k == 4:
					err = ch.WriteUint32Pos(p, uint32(v))
				default:
					err = ch.WriteUint64Pos(p, v)
				}
				out = "e=" + errClass(err)
				want, wantE := v0, "nil"
				switch {
				case p < 0:
					wantE = "badindex"
				case p+k > l:
					wantE = "eof"
				default:
					want = append(append(append([]byte(nil), v0[:p]...), beBytes(k, v)...), v0[p+k:]...)
				}
				if errClass(err) != wantE || !bytes.Equal(ch.VerifC11Buf(), want) || ch.VerifC11Rpos() != rp {
					fail("poswrite", "poswrite-exact", fmt.Sprintf("%s(%d,%d) with len=%d limit=%d returned %s, bytes %s cursor %d; exact clause says %s, bytes %s cursor %d", name, p, v, l, limit, errClass(err), hx(ch.VerifC11Buf()), ch.VerifC11Rpos(), wantE, hx(want), rp))
				}
				c.Count("pos:" + wantE)
			})
		case kind == "wx" || (script == nil && x < 78): // typed writers incl. every wrapper
			var wr c11Wrap
			var v uint64
			if script != nil {
				f := strings.Split(tok, ":")
				fmt.Sscanf(f[2], "%d", &v)
				for _, q := range c11Writers {
					if q.name == f[3] {
						wr = q
					}
				}
			} else {
				wr = c11Writers[r.Intn(len(c11Writers))]
				v = c11Mask(wr.k, r.U64())
				if wr.name == "WriteBool" {
					v &= 1
				}
				tok = fmt.Sprintf("wx:%d:%d:%s", wr.k, v, wr.name)
			}
			op(wr.name, func() {
				err := wr.w(ch, v)
				out = "e=" + errClass(err)
				if err == nil && !bytes.HasSuffix(ch.VerifC11Buf(), beBytes(wr.k, v)) {
					fail("fifo", "typed-write-image", wr.name+" did not append the big-endian image of its value")
				}
			})
		case kind == "rx" || (script == nil && x < 86): // typed readers incl. every wrapper
			var rd c11Wrap
			if script != nil {
				f := strings.Split(tok, ":")
				for _, q := range c11Readers {
					if q.name == f[2] {
						rd = q
					}
				}
			} else {
				rd = c11Readers[r.Intn(len(c11Readers))]
				tok = fmt.Sprintf("rx:%d:%s", rd.k, rd.name)
			}
			op(rd.name, func() {
				v, err := rd.r(ch)
				if rd.name == "Bool" || rd.name == "ReadBool" { // Bool() = (Uint8() == 1)
					if err == nil && rp < l {
						if (v == 1) != (v0[rp] == 1) {
							fail("fifo", "typed-read-value", rd.name+" returned a value that is not the byte at the cursor")
						}
						v = uint64(v0[rp])
					}
				} else if err == nil && (rp+rd.k > l || !bytes.Equal(beBytes(rd.k, v), v0[rp:rp+rd.k])) {
					fail("fifo", "typed-read-value", rd.name+" returned a value that is not the big-endian bytes at the cursor")
				}
				out = fmt.Sprintf("v=%d,%s", v, errClass(err))
			})
		case kind == "ws" || (script == nil && x < 89): // WriteString
			var b []byte
			if script != nil {
				b = unhx(strings.SplitN(tok, ":", 2)[1])
			} else {
				b = r.Bytes(genLenSmallC11(r, limit))
				tok = "ws:" + hx(b)
			}
			op("WriteString", func() { out = "e=" + errClass(ch.WriteString(string(b))) })
		case kind == "str" || (script == nil && x < 92): // String()
			tok = "str"
			op("String", func() {
				s := ch.String()
				if ch.Empty() {
					out = "str=nil"
					if s != "<nil>" {
						fail("observer", "string-empty", "String() of an empty chunk is not <nil>")
					}
				} else {
					out = "str=" + hx([]byte(s))
				}
			})
		case kind == "ms" || (script == nil && x < 95): // MarshalStream into a fresh chunk
			tok = "ms"
			op("MarshalStream", func() {
				var d data.Chunk
				err := ch.MarshalStream(&d)
				out = fmt.Sprintf("ms=%s,%s", hx(d.Payload()), errClass(err))
				want := append(lenPrefixGo(l-rp), v0[rp:]...)
				if rp <= l && (err != nil || !bytes.Equal(d.Payload(), want)) {
					fail("fifo", "marshal-stream", fmt.Sprintf("MarshalStream wrote %s, want %s", hx(d.Payload()), hx(want)))
				}
			})
		case kind == "tr" || (script == nil && x < 97):
			n := r.Intn(l-rp+3) - 1
			if script != nil {
				fmt.Sscanf(tok, "tr:%d", &n)
			} else {
				tok = fmt.Sprintf("tr:%d", n)
			}
			op("Truncate", func() { out = "e=" + errClass(ch.Truncate(n)) })
		case kind == "gr" || (script == nil && x < 99):
			n := r.Intn(200) - 3
			if script != nil {
				fmt.Sscanf(tok, "gr:%d", &n)
			} else {
				tok = fmt.Sprintf("gr:%d", n)
			}
			op("Grow", func() { out = "e=" + errClass(ch.Grow(n)) })
		default:
			tok = "rs"
			op("Reset", func() { ch.Reset(); out = "e=nil" })
		}
		toks = append(toks, tok)
		cur = ""
		seen[strings.SplitN(tok, ":", 2)[0]] = true
		c.Count("opx:" + strings.SplitN(tok, ":", 2)[0])
		c.Count("method:" + method)
		if out == "panic" {
			outs = append(outs, out)
			break
		}
		// Payload() / String() / observers never panic and Payload is the retained bytes from the cursor on
		func() {
			defer func() {
				if e := recover(); e != nil {
					fail("panic", "panic:chunk:observer", fmt.Sprintf("observer panicked: %v", e))
				}
			}()
			outs = append(outs, out+c11SummaryX(ch))
			if limit > 0 && ch.Size() > limit {
				fail("limit", "size-exceeds-limit", fmt.Sprintf("Size %d > Limit %d", ch.Size(), limit))
			}
		}()
	}
	c.Op(fmt.Sprintf("seqx %d %s", limit, strings.Join(toks, " ")), strings.Join(outs, " "))
	c.Eval(len(seen) >= 3, fmt.Sprint("x", limit, toks))
}

func unhx(s string) []byte {
	if s == "-" || s == "" {
		return nil
	}
	b := make([]byte, len(s)/2)
	fmt.Sscanf(s, "%x", &b)
	return b
}

// runC11S3 is called from runC11 (one added line there).
func runC11S3(c *Ctx) {
	// fixed witnesses first: the empty write on a full chunk (ErrLimit although 0 of 0 bytes were
	// accepted: write_empty_on_full_reports_limit), the refused write of the scope note (limit 40:
	// w40 r5 w3), the reclaiming write (limit 100: w60 r50 w30 accepts 30 > Limit - Size), a
	// negative and a straddling positional write, every whence.
	scripts := []struct {
		lim int
		ops []string
	}{
		{5, []string{"w:0102030405", "w:-", "r:2", "w:-", "w:aa"}},
		{40, []string{"w:" + strings.Repeat("07", 40), "r:5", "w:010203", "sk:0:0", "w:010203"}},
		{100, []string{"w:" + strings.Repeat("07", 60), "r:50", "w:" + strings.Repeat("09", 30), "sk:-1:2", "r:3"}},
		{0, []string{"w:01020304", "r:3", "p8:-1:7", "p16:3:515", "p16:2:43707", "pb:0:1", "sk:-3:2", "r:9", "sk:1:3", "sk:-9:1", "sk:1:2", "str", "ms"}},
	}
	c.Cases("exact-corpus", len(scripts), func(r *Rng, i int) {
		runChunkSeqX(c, r, scripts[i].lim, scripts[i].ops, len(scripts[i].ops))
	})
	c.Cases("exact", c.N(2500, 15000), func(r *Rng, i int) {
		limit := c11Limits[r.Intn(len(c11Limits))]
		n := 4 + r.Intn(30)
		if r.Chance(4) {
			n = 120
		}
		runChunkSeqX(c, r, limit, nil, n)
	})
}
