package main

// C12 — session settings and identity survive every synchronisation path unchanged.
//
// Real code driven: (*Session).writeDeviceInfo / readDeviceInfo for all six info kinds over a
// packet body (data.Chunk) and over a stream (data.NewWriter / data.NewReader on a scripted
// io.Reader with short reads); the server setters SetDuration / SetKillDate / SetWorkHours, the
// client's muxHandleInternal (MvTime) and the server's job result handler (handleInfoResult);
// the SvResync absorption in receiveSingle.

import (
	"bytes"
	"fmt"
	"io"
	"math"
	"reflect"
	"strconv"
	"strings"
	"time"

	"github.com/iDigitalFlame/xmt/c2"
	"github.com/iDigitalFlame/xmt/c2/cfg"
	"github.com/iDigitalFlame/xmt/c2/task"
	"github.com/iDigitalFlame/xmt/com"
	"github.com/iDigitalFlame/xmt/data"
	"github.com/iDigitalFlame/xmt/device"
)

// ---- plain description of a Session -----------------------------------------------------------

type c12Proxy struct {
	active  bool
	name    string
	addr    string
	profile []byte
	marshal bool
}

type c12Sess struct {
	client   bool // IsClient() && IsActive()
	closing  bool // when !client: true = closing client, false = server-side Session
	jitter   uint8
	sleep    int64
	killSec  int64
	killNsec int64
	work     *cfg.WorkHours
	proxy    *c12Proxy
	id       []byte // 32
	pub      []byte
	priv     []byte
	share    []byte
	// machine
	mid                   []byte // 32
	system, elevated      uint8
	pid, ppid, caps       uint32
	user, version, hostnm string
	net                   []device.VerifC12Iface
}

var c12ZeroUnix = time.Time{}.Unix()

func (d *c12Sess) killTime() time.Time {
	if d.killSec == c12ZeroUnix && d.killNsec == 0 {
		return time.Time{}
	}
	return time.Unix(d.killSec, d.killNsec)
}

func (d *c12Sess) tokens() string {
	var b strings.Builder
	if d.client {
		b.WriteString("c1")
	} else {
		b.WriteString("c0")
	}
	fmt.Fprintf(&b, " j%d s%d k%d.%d w", d.jitter, d.sleep, d.killSec, d.killNsec)
	if d.work == nil {
		b.WriteString("-")
	} else {
		fmt.Fprintf(&b, "%d.%d.%d.%d.%d", d.work.Days, d.work.StartHour, d.work.StartMin, d.work.EndHour, d.work.EndMin)
	}
	b.WriteString(" p")
	if d.proxy == nil {
		b.WriteString("-")
	} else {
		a, pr := "0", "x"
		if d.proxy.active {
			a = "1"
		}
		if d.proxy.marshal {
			pr = hx(d.proxy.profile)
		}
		fmt.Fprintf(&b, "%s.%s.%s.%s", a, hx([]byte(d.proxy.name)), hx([]byte(d.proxy.addr)), pr)
	}
	fmt.Fprintf(&b, " i%s K%s.%s.%s", hx(d.id), hx(d.pub), hx(d.priv), hx(d.share))
	fmt.Fprintf(&b, " m%s.%d.%d.%d.%s.%s.%s.%d.%d n", hx(d.mid), d.system, d.pid, d.ppid, hx([]byte(d.user)),
		hx([]byte(d.version)), hx([]byte(d.hostnm)), d.elevated, d.caps)
	if len(d.net) == 0 {
		b.WriteString("-")
	}
	for i := range d.net {
		if i > 0 {
			b.WriteByte(';')
		}
		fmt.Fprintf(&b, "%s,%d,", hx([]byte(d.net[i].Name)), d.net[i].Mac)
		for j, a := range d.net[i].Addrs {
			if j > 0 {
				b.WriteByte('/')
			}
			b.WriteString(strconv.FormatUint(a[0], 10) + "_" + strconv.FormatUint(a[1], 10))
		}
	}
	return b.String()
}

// build makes a real *c2.Session from the description.
func (d *c12Sess) build() *c2.Session {
	var s *c2.Session
	if d.client || d.closing {
		s = c2.VerifC12NewClient()
		if !d.client {
			s.VerifC12SetClosing()
		}
	} else {
		s = c2.VerifC12NewServer()
	}
	s.VerifC12Set(d.jitter, time.Duration(d.sleep), d.killTime(), cloneWork(d.work))
	if d.proxy != nil {
		var p cfg.Profile = c2.VerifC12NoMarshal{}
		if d.proxy.marshal {
			p = c2.VerifC12Profile{B: d.proxy.profile}
		}
		s.VerifC12SetProxy(d.proxy.name, d.proxy.addr, p, d.proxy.active)
	}
	copy(s.ID[:], d.id)
	k := s.VerifC12Keys()
	copy(k.Public[:], d.pub)
	copy(k.Private[:], d.priv)
	k.VerifC12SetShare(d.share)
	copy(s.Device.ID[:], d.mid)
	s.Device.System, s.Device.Elevated = d.system, d.elevated
	s.Device.PID, s.Device.PPID, s.Device.Capabilities = d.pid, d.ppid, d.caps
	s.Device.User, s.Device.Version, s.Device.Hostname = d.user, d.version, d.hostnm
	s.Device.Network = device.VerifC12Network(d.net)
	return s
}

func cloneWork(w *cfg.WorkHours) *cfg.WorkHours {
	if w == nil {
		return nil
	}
	c := *w
	return &c
}

// dump reads the observable fields back from the real Session (client / proxy attachment are not
// touched by any reader and are carried over from the description).
func c12Dump(s *c2.Session, from *c12Sess) *c12Sess {
	d := &c12Sess{client: from.client, closing: from.closing, proxy: from.proxy}
	j, sl, k, w := s.VerifC12Get()
	d.jitter, d.sleep, d.work = j, int64(sl), cloneWork(w)
	d.killSec, d.killNsec = k.Unix(), int64(k.Nanosecond())
	d.id = append([]byte(nil), s.ID[:]...)
	ks := s.VerifC12Keys()
	sh := ks.Shared()
	d.pub, d.priv, d.share = append([]byte(nil), ks.Public[:]...), append([]byte(nil), ks.Private[:]...), append([]byte(nil), sh[:]...)
	d.mid = append([]byte(nil), s.Device.ID[:]...)
	d.system, d.elevated = s.Device.System, s.Device.Elevated
	d.pid, d.ppid, d.caps = s.Device.PID, s.Device.PPID, s.Device.Capabilities
	d.user, d.version, d.hostnm = s.Device.User, s.Device.Version, s.Device.Hostname
	d.net = device.VerifC12NetworkDump(s.Device.Network)
	return d
}

func c12ProxyTok(p []c2.VerifC12ProxyData) string {
	if len(p) == 0 {
		return "P-"
	}
	s := make([]string, len(p))
	for i := range p {
		s[i] = hx([]byte(p[i].Name)) + "." + hx([]byte(p[i].Addr)) + "." + hx(p[i].Profile)
	}
	return "P" + strings.Join(s, ";")
}

func c12ErrClass(err error) string {
	if err == io.ErrNoProgress {
		return "noprogress"
	}
	return errClass(err)
}

// ---- generators -------------------------------------------------------------------------------

var c12I64Pool = []int64{0, 1, -1, 2, 59, 1000, 1000000000, 30000000000, math.MaxInt64, math.MinInt64, math.MaxInt64 - 1, math.MinInt64 + 1,
	1 << 32, -(1 << 32), 1<<63 - 1<<10, 255, 256, 65536}

func c12I64(r *Rng) int64 {
	switch r.Intn(4) {
	case 0:
		return c12I64Pool[r.Intn(len(c12I64Pool))]
	case 1:
		return int64(r.Intn(100000)) - 1000
	}
	return int64(r.U64())
}

var c12JitPool = []uint8{0, 1, 50, 99, 100, 101, 126, 127, 128, 129, 200, 254, 255}

func c12Str(r *Rng, big bool) string {
	n := r.Intn(12)
	if r.Chance(8) {
		n = 0
	}
	if big && r.Chance(25) {
		n = []int{127, 128, 254, 255, 256, 257, 300}[r.Intn(7)]
	}
	return string(r.Bytes(n))
}

func c12ID(r *Rng) []byte {
	b := r.Bytes(32)
	if b[0] == 0 {
		b[0] = 1
	}
	return b
}

func c12Work(r *Rng) *cfg.WorkHours {
	switch r.Intn(8) {
	case 0, 1:
		return nil
	case 2: // Empty() but not nil
		return &cfg.WorkHours{Days: []uint8{0, 127, 128, 255, 200}[r.Intn(5)]}
	case 3: // valid
		return &cfg.WorkHours{Days: uint8(r.Intn(127)), StartHour: uint8(r.Intn(24)), StartMin: uint8(r.Intn(60)), EndHour: uint8(r.Intn(24)), EndMin: uint8(r.Intn(60))}
	case 4: // boundary
		p := []uint8{0, 1, 23, 24, 59, 60, 126, 127, 255}
		return &cfg.WorkHours{Days: p[r.Intn(9)], StartHour: p[r.Intn(9)], StartMin: p[r.Intn(9)], EndHour: p[r.Intn(9)], EndMin: p[r.Intn(9)]}
	}
	b := r.Bytes(5)
	return &cfg.WorkHours{Days: b[0], StartHour: b[1], StartMin: b[2], EndHour: b[3], EndMin: b[4]}
}

func c12Kill(r *Rng) (int64, int64) {
	switch r.Intn(10) {
	case 0, 1, 2:
		return c12ZeroUnix, 0 // none
	case 3:
		return []int64{0, 1, -1, c12ZeroUnix + 1, c12ZeroUnix - 1, math.MaxInt64, math.MinInt64}[r.Intn(7)], 0
	case 4:
		return []int64{0, c12ZeroUnix, 1, 1800000000}[r.Intn(4)], int64(r.Intn(1000000000))
	case 5:
		return c12I64(r), 0
	}
	return 1700000000 + int64(r.Intn(400000000)), 0
}

var c12CountPool = []int{0, 1, 2, 3, 4, 7}

func c12Net(r *Rng, big bool) []device.VerifC12Iface {
	n := c12CountPool[r.Intn(len(c12CountPool))]
	wide := -1 // index of an interface with a boundary number of addresses
	if big {
		if r.Bool() {
			// many interfaces (count boundary 254..257; 256/257 are outside the domain), few addresses each
			n = []int{254, 255, 255, 100, 256, 257}[r.Intn(6)]
		} else {
			n = 1 + r.Intn(3)
			wide = r.Intn(n)
		}
	}
	if n == 0 {
		return nil
	}
	l := make([]device.VerifC12Iface, n)
	for i := range l {
		l[i].Name = c12Str(r, false)
		l[i].Mac = r.U64()
		if r.Chance(30) {
			l[i].Mac &= 0xFFFFFFFFFFFF
		}
		m := c12CountPool[r.Intn(len(c12CountPool))]
		if n > 50 {
			m = r.Intn(3)
		}
		if i == wide {
			m = []int{254, 255, 255, 256, 300}[r.Intn(5)]
		}
		for j := 0; j < m; j++ {
			a := [2]uint64{r.U64(), r.U64()}
			if r.Chance(30) {
				a[0] = 0
			}
			if r.Chance(10) {
				a[1] = math.MaxUint64
			}
			l[i].Addrs = append(l[i].Addrs, a)
		}
	}
	return l
}

// genSess generates a Session description; `domain` forces the documented domain conditions
// (active client, marshalable proxy profile) so that most cases exercise the success path.
func c12Gen(r *Rng, big bool) *c12Sess {
	d := &c12Sess{client: true}
	if r.Chance(7) {
		d.client, d.closing = false, r.Bool()
	}
	if r.Bool() {
		d.jitter = c12JitPool[r.Intn(len(c12JitPool))]
	} else {
		d.jitter = uint8(r.Intn(256))
	}
	d.sleep = c12I64(r)
	d.killSec, d.killNsec = c12Kill(r)
	d.work = c12Work(r)
	if r.Chance(60) {
		d.proxy = &c12Proxy{active: !r.Chance(12), name: c12Str(r, big), addr: c12Str(r, big), profile: r.Bytes(r.Intn(20)), marshal: !r.Chance(4)}
		if big && r.Chance(30) {
			d.proxy.profile = r.Bytes([]int{255, 256, 1000, 65535, 65536}[r.Intn(5)])
		}
	}
	d.id, d.mid = c12ID(r), c12ID(r)
	if r.Chance(3) {
		d.id[0] = 0
	}
	if r.Chance(3) {
		d.mid[0] = 0
	}
	d.pub, d.priv, d.share = r.Bytes(data.VerifC12PublicKeySize), r.Bytes(data.VerifC12PrivateKeySize), r.Bytes(data.VerifC12SharedKeySize)
	if r.Chance(10) {
		d.share = make([]byte, data.VerifC12SharedKeySize)
	}
	d.system, d.elevated = uint8(r.U64()), uint8(r.U64())
	e32 := func() uint32 {
		switch r.Intn(4) {
		case 0:
			return []uint32{0, 1, math.MaxUint32, 1 << 31, 65536}[r.Intn(5)]
		}
		return uint32(r.U64())
	}
	d.pid, d.ppid, d.caps = e32(), e32(), e32()
	d.user, d.version, d.hostnm = c12Str(r, big), c12Str(r, big), c12Str(r, big)
	d.net = c12Net(r, big && r.Chance(40))
	return d
}

var c12KindName = map[uint8]string{c2.VerifC12InfoHello: "hello", c2.VerifC12InfoMigrate: "migrate", c2.VerifC12InfoRefresh: "refresh",
	c2.VerifC12InfoSync: "sync", c2.VerifC12InfoProxy: "proxy", c2.VerifC12InfoSyncMigrate: "syncmigrate"}

func c12HasDevice(t uint8) bool {
	return t == c2.VerifC12InfoHello || t == c2.VerifC12InfoRefresh || t == c2.VerifC12InfoSyncMigrate
}
func c12HasSettings(t uint8) bool { return t != c2.VerifC12InfoProxy }
func c12HasProxy(t uint8) bool {
	return t == c2.VerifC12InfoHello || t == c2.VerifC12InfoRefresh || t == c2.VerifC12InfoMigrate || t == c2.VerifC12InfoProxy
}

// c12Domain reports whether the sending Session is inside the property's stated domain for
// kind t ("" = yes, else the name of the domain condition that excludes it).
func c12Domain(t uint8, a *c12Sess) string {
	if c12HasProxy(t) {
		if !a.client {
			return "not-active-client"
		}
		if a.proxy != nil && a.proxy.active && !a.proxy.marshal && t != c2.VerifC12InfoProxy {
			return "proxy-profile-not-marshalable"
		}
	}
	if c12HasDevice(t) {
		if a.mid[0] == 0 {
			return "empty-device-id"
		}
		if len(a.net) > 255 {
			return "more-than-255-interfaces"
		}
		for i := range a.net {
			if len(a.net[i].Addrs) > 255 {
				return "more-than-255-addresses"
			}
		}
	}
	if t == c2.VerifC12InfoMigrate && a.id[0] == 0 {
		return "empty-session-id"
	}
	return ""
}

// kill date domain: the zero time, or whole seconds with a non-zero Unix value
func c12KillExact(sec, nsec int64) bool {
	if sec == c12ZeroUnix && nsec == 0 {
		return true
	}
	return sec != 0 && nsec == 0
}

// c12CheckSettings compares the settings of the receiving side with the sender's (direct oracle:
// exact equality; the two documented canonicalisations are whole seconds for the kill date and
// nil <-> Empty() work hours).
func c12CheckSettings(c *Ctx, where string, snd, got *c12Sess, input interface{}) {
	if got.jitter != snd.jitter {
		c.Fail("roundtrip", "field:"+where+":jitter", fmt.Sprintf("jitter sent %d received %d", snd.jitter, got.jitter), input)
	}
	if got.sleep != snd.sleep {
		c.Fail("roundtrip", "field:"+where+":sleep", fmt.Sprintf("sleep sent %d received %d", snd.sleep, got.sleep), input)
	}
	c12CheckKill(c, where, snd, got, input)
	c12CheckWork(c, where, snd.work, got.work, input)
}

func c12CheckKill(c *Ctx, where string, snd, got *c12Sess, input interface{}) {
	sz := snd.killSec == c12ZeroUnix && snd.killNsec == 0
	gz := got.killSec == c12ZeroUnix && got.killNsec == 0
	switch {
	case c12KillExact(snd.killSec, snd.killNsec):
		if got.killSec != snd.killSec || got.killNsec != snd.killNsec {
			c.Fail("roundtrip", "field:"+where+":kill", fmt.Sprintf("kill date sent %d.%d received %d.%d", snd.killSec, snd.killNsec, got.killSec, got.killNsec), input)
		}
	case snd.killSec == 0 || snd.killSec == c12ZeroUnix:
		// documented domain edge: Unix value 0 (and year-1 with nanoseconds) reads as "none"
		c.Count("domain:kill-epoch-reads-as-none")
		if !gz {
			c.Fail("roundtrip", "field:"+where+":kill-epoch", "epoch kill date did not read as none", input)
		}
	default: // sub-second part is not carried
		c.Count("domain:kill-subsecond")
		if got.killSec != snd.killSec || got.killNsec != 0 || sz != gz {
			c.Fail("roundtrip", "field:"+where+":kill", fmt.Sprintf("kill date sent %d.%d received %d.%d", snd.killSec, snd.killNsec, got.killSec, got.killNsec), input)
		}
	}
}

func c12CheckWork(c *Ctx, where string, snd, got *cfg.WorkHours, input interface{}) {
	se := snd == nil || snd.Empty()
	if se != (got == nil) || (!se && *got != *snd) {
		c.Fail("roundtrip", "field:"+where+":work", fmt.Sprintf("work hours sent %v received %v", snd, got), input)
	}
}

func c12SameDevice(a, b *c12Sess) string {
	switch {
	case !bytes.Equal(a.mid, b.mid):
		return "device.id"
	case a.system != b.system:
		return "device.system"
	case a.elevated != b.elevated:
		return "device.elevated"
	case a.pid != b.pid:
		return "device.pid"
	case a.ppid != b.ppid:
		return "device.ppid"
	case a.caps != b.caps:
		return "device.capabilities"
	case a.user != b.user:
		return "device.user"
	case a.version != b.version:
		return "device.version"
	case a.hostnm != b.hostnm:
		return "device.hostname"
	case len(a.net) != len(b.net):
		return "device.network.count"
	}
	for i := range a.net {
		if a.net[i].Name != b.net[i].Name || a.net[i].Mac != b.net[i].Mac {
			return "device.network.iface"
		}
		if len(a.net[i].Addrs) != len(b.net[i].Addrs) || (len(a.net[i].Addrs) > 0 && !reflect.DeepEqual(a.net[i].Addrs, b.net[i].Addrs)) {
			return "device.network.address"
		}
	}
	return ""
}

func c12SameKeys(a, b *c12Sess) bool {
	return bytes.Equal(a.pub, b.pub) && bytes.Equal(a.priv, b.priv) && bytes.Equal(a.share, b.share)
}

func c12ExpectProxies(t uint8, a *c12Sess) []c2.VerifC12ProxyData {
	if !c12HasProxy(t) || a.proxy == nil || !a.proxy.active {
		return nil
	}
	p := c2.VerifC12ProxyData{Name: a.proxy.name, Addr: a.proxy.addr}
	if t != c2.VerifC12InfoProxy {
		p.Profile = a.proxy.profile
	}
	return []c2.VerifC12ProxyData{p}
}

func c12SameProxies(a, b []c2.VerifC12ProxyData) bool {
	if len(a) != len(b) {
		return false
	}
	for i := range a {
		if a[i].Name != b[i].Name || a[i].Addr != b[i].Addr || !bytes.Equal(a[i].Profile, b[i].Profile) {
			return false
		}
	}
	return true
}

// c12Read runs the real reader of kind t on the receiving description over the given pieces.
func c12Read(reader string, t uint8, rcv *c12Sess, pieces [][]byte) (string, *c12Sess, []c2.VerifC12ProxyData, error) {
	s := rcv.build()
	var rd data.Reader
	var rem func() int
	if reader == "chunk" {
		b := bytes.Join(pieces, nil)
		if b == nil {
			b = []byte{}
		}
		ch := data.NewChunk(b)
		rd, rem = ch, ch.Remaining
	} else {
		cp := make([][]byte, len(pieces))
		copy(cp, pieces)
		pr := &PieceReader{P: cp}
		rd, rem = data.NewReader(pr), pr.Remaining
	}
	p, err := s.VerifC12Read(t, rd)
	if err != nil {
		return "err " + c12ErrClass(err), nil, nil, err
	}
	got := c12Dump(s, rcv)
	return fmt.Sprintf("ok rem=%d %s %s", rem(), got.tokens(), c12ProxyTok(p)), got, p, nil
}

// ---- the property run -------------------------------------------------------------------------

func runC12(c *Ctx) {
	kinds := []uint8{c2.VerifC12InfoHello, c2.VerifC12InfoMigrate, c2.VerifC12InfoRefresh, c2.VerifC12InfoSync, c2.VerifC12InfoProxy, c2.VerifC12InfoSyncMigrate}
	c12Noproxy(c) // the proxy-section reader of the noproxy build variant (c12_s3.go)

	// A. every message kind: write with the real writer (packet body and stream writer), read with
	// the real reader (packet body and stream with short reads) into a Session holding other values.
	c.Cases("rt", c.N(4000, 20000), func(r *Rng, i int) {
		big := r.Chance(c.N(6, 10))
		t := kinds[i%len(kinds)]
		if r.Chance(2) {
			t = uint8(6 + r.Intn(250)) // any other kind value behaves like a settings-only message
		}
		kn := c12KindName[t]
		if kn == "" {
			kn = "other"
		}
		a := c12Gen(r, big)
		atoks := a.tokens()
		input := map[string]interface{}{"kind": t, "sender": atoks}
		c.Count("kind:" + kn)
		var ch data.Chunk
		werr := a.build().VerifC12Write(t, &ch)
		var mw multiWrites
		werr2 := a.build().VerifC12Write(t, data.NewWriter(&mw))
		if (werr == nil) != (werr2 == nil) {
			c.Fail("writers-agree", "writers-differ-error:"+kn, fmt.Sprintf("chunk writer: %v, stream writer: %v", werr, werr2), input)
		}
		dom := c12Domain(t, a)
		if werr != nil {
			cls := "other:" + werr.Error()
			if strings.Contains(werr.Error(), "cannot marshal Proxy Profile") || strings.Contains(werr.Error(), "0x54") {
				cls = "proxymarshal"
			}
			c.Op(fmt.Sprintf("w %d %s", t, atoks), "err "+cls)
			c.Count("write:err:" + cls)
			if dom == "" {
				c.Fail("write", "write-error:"+kn, "writer failed inside the domain: "+werr.Error(), input)
			}
			c.Eval(false, atoks)
			return
		}
		enc := append([]byte(nil), ch.Payload()...)
		c.Op(fmt.Sprintf("w %d %s", t, atoks), "ok "+hx(enc)+" "+hxChunks(mw.w))
		if !bytes.Equal(enc, bytes.Join(mw.w, nil)) {
			c.Fail("writers-agree", "writers-differ:"+kn, "packet writer and stream writer produced different bytes", input)
		}
		if dom != "" {
			c.Count("domain:" + dom)
		}
		nontriv := len(a.net) > 0 || a.proxy != nil || a.work != nil
		trail := r.Bytes(r.Intn(3))
		for _, reader := range []string{"chunk", "stream"} {
			b := c12Gen(r, false)
			full := append(append([]byte(nil), enc...), trail...)
			pieces := [][]byte{full}
			if reader == "stream" {
				pieces = r.Split(full)
				if len(pieces) > 1 {
					nontriv = true
					c.Count("split:multi")
				}
			}
			out, got, prox, err := c12Read(reader, t, b, pieces)
			c.Op(fmt.Sprintf("r %s %d %s %s", reader, t, b.tokens(), hxChunks(pieces)), out)
			c.Count("read:" + reader + ":" + strings.SplitN(out, " ", 2)[0])
			if dom != "" {
				continue // outside the stated domain: model comparison only
			}
			in2 := map[string]interface{}{"kind": t, "sender": atoks, "receiver": b.tokens(), "reader": reader, "pieces": hxChunks(pieces)}
			if err != nil {
				c.Fail("roundtrip", "roundtrip-error:"+kn+":"+reader+":"+c12ErrClass(err), fmt.Sprintf("reading a %s message written by the real writer failed: %v", kn, err), in2)
				continue
			}
			if !strings.HasPrefix(out, fmt.Sprintf("ok rem=%d ", len(trail))) {
				c.Fail("consumption", "consumed-wrong:"+kn+":"+reader, "reader did not consume exactly the written bytes: "+out[:16], in2)
			}
			where := kn
			if c12HasSettings(t) {
				c12CheckSettings(c, where, a, got, in2)
			} else if got.jitter != b.jitter || got.sleep != b.sleep {
				c.Fail("roundtrip", "field:"+where+":clobbered-settings", "a proxy message changed the settings", in2)
			}
			if c12HasDevice(t) {
				if f := c12SameDevice(a, got); f != "" {
					c.Fail("roundtrip", "field:"+where+":"+f, "device details differ in "+f, in2)
				}
			} else if f := c12SameDevice(b, got); f != "" {
				c.Fail("roundtrip", "field:"+where+":clobbered-"+f, "message without device details changed "+f, in2)
			}
			if t == c2.VerifC12InfoMigrate {
				if !bytes.Equal(a.id, got.id) {
					c.Fail("roundtrip", "field:"+where+":id", "session ID differs", in2)
				}
				if !c12SameKeys(a, got) {
					c.Fail("roundtrip", "field:"+where+":keys", "key material differs", in2)
				}
			} else {
				if !bytes.Equal(b.id, got.id) || !c12SameKeys(b, got) {
					c.Fail("roundtrip", "field:"+where+":clobbered-identity", "non-migration message changed ID or keys", in2)
				}
			}
			if !c12SameProxies(c12ExpectProxies(t, a), prox) {
				c.Fail("roundtrip", "field:"+where+":proxies", fmt.Sprintf("proxy list differs: %v", prox), in2)
			}
		}
		c.Eval(nontriv, atoks+fmt.Sprint(t))
		// truncated messages: model comparison of the error class (a few cut points per case)
		if len(enc) > 0 && (len(enc) < 2048 || r.Chance(10)) {
			for k := 0; k < c.N(2, 3); k++ {
				cut := r.Intn(len(enc))
				if k == 0 && len(enc) > 1 {
					cut = len(enc) - 1 - r.Intn(c12Min(len(enc)-1, 70))
				}
				b := c12Gen(r, false)
				for _, reader := range []string{"chunk", "stream"} {
					pieces := [][]byte{enc[:cut]}
					if reader == "stream" {
						pieces = r.Split(enc[:cut])
					}
					out, _, _, err := c12Read(reader, t, b, pieces)
					c.Op(fmt.Sprintf("r %s %d %s %s", reader, t, b.tokens(), hxChunks(pieces)), out)
					c.Count("trunc:" + strings.SplitN(out, " ", 3)[0])
					if err == nil && dom == "" && t != c2.VerifC12InfoProxy && kn != "other" {
						c.Fail("truncation", "truncated-accepted:"+kn+":"+reader, fmt.Sprintf("a %d/%d-byte prefix was accepted", cut, len(enc)), map[string]interface{}{"kind": t, "sender": atoks, "cut": cut})
					}
				}
			}
		}
	})

	// the client parses MvProfile bytes with the package-level parser; accept anything
	c2.ProfileParser = func(b []byte) (cfg.Profile, error) { return c2.VerifC12Profile{B: b}, nil }

	// A'. fixed regression inputs (independent of the seed): a migration hand-off whose key material is
	// delivered in every kind of short read.
	c.Cases("corpus", 12, func(_ *Rng, i int) {
		r := NewRng(12, uint64(i))
		a := c12Gen(r, false)
		a.client, a.closing = true, false
		a.id[0] |= 1
		if a.proxy != nil {
			a.proxy.marshal = true
		}
		b := c12Gen(r, false)
		var ch data.Chunk
		t := c2.VerifC12InfoMigrate
		if err := a.build().VerifC12Write(t, &ch); err != nil {
			c.Fail("write", "write-error:migrate", err.Error(), a.tokens())
			return
		}
		enc := append([]byte(nil), ch.Payload()...)
		keys := data.VerifC12PublicKeySize + data.VerifC12PrivateKeySize + data.VerifC12SharedKeySize
		var pieces [][]byte
		switch i % 6 {
		case 0: // one byte per read (iotest.OneByteReader)
			for j := range enc {
				pieces = append(pieces, enc[j:j+1])
			}
		case 1: // halves (iotest.HalfReader-like)
			for rest := enc; len(rest) > 0; {
				n := (len(rest) + 1) / 2
				pieces, rest = append(pieces, rest[:n]), rest[n:]
			}
		case 2: // split inside the public key
			k := len(enc) - keys + 1 + r.Intn(data.VerifC12PublicKeySize-1)
			pieces = [][]byte{enc[:k], enc[k:]}
		case 3: // split inside the private key
			k := len(enc) - keys + data.VerifC12PublicKeySize + 1 + r.Intn(data.VerifC12PrivateKeySize-1)
			pieces = [][]byte{enc[:k], enc[k:]}
		case 4: // split inside the shared key
			k := len(enc) - data.VerifC12SharedKeySize + 1 + r.Intn(data.VerifC12SharedKeySize-1)
			pieces = [][]byte{enc[:k], enc[k:]}
		case 5: // exactly at the key boundaries
			k := len(enc) - keys
			pieces = [][]byte{enc[:k], enc[k : k+data.VerifC12PublicKeySize], enc[k+data.VerifC12PublicKeySize : len(enc)-data.VerifC12SharedKeySize], enc[len(enc)-data.VerifC12SharedKeySize:]}
		}
		out, got, _, err := c12Read("stream", t, b, pieces)
		c.Op(fmt.Sprintf("r stream %d %s %s", t, b.tokens(), hxChunks(pieces)), out)
		in2 := map[string]interface{}{"kind": t, "sender": a.tokens(), "receiver": b.tokens(), "reader": "stream", "pieces": hxChunks(pieces)}
		if err != nil {
			c.Fail("roundtrip", "roundtrip-error:migrate:stream:"+c12ErrClass(err), "migration hand-off over a pipe with short reads failed: "+err.Error(), in2)
		} else if !bytes.Equal(a.id, got.id) || !c12SameKeys(a, got) {
			c.Fail("roundtrip", "field:migrate:keys", "identity / key material differs after a split read", in2)
		}
		c.Count("corpus:migrate-split")
		c.Eval(true, "corpus"+fmt.Sprint(i))
	})

	// B. order -> effect -> echo: server setter builds the MvTime packet, the client handler applies
	// it and echoes, the server absorbs the echo.
	c.Cases("order", c.N(4000, 20000), func(r *Rng, i int) {
		srvD := c12Gen(r, false)
		srvD.client, srvD.closing = false, false
		cliD := c12Gen(r, false)
		cliD.client, cliD.closing = true, false
		if r.Chance(10) {
			cliD.client, cliD.closing = false, true // a closing client still echoes (infoSync carries no proxy data)
		}
		srv, cli := srvD.build(), cliD.build()
		var op string
		var err error
		which := i % 3
		if i%10 == 9 {
			which = 3
		}
		var ordT, ordJ int64
		var ordP []byte
		var ordW *cfg.WorkHours
		var kSec, kNsec int64
		switch which {
		case 0:
			ordT = c12I64(r)
			ordJ = []int64{-1, -1, -2, 0, 1, 50, 99, 100, 101, 127, 128, 200, 255, 256, 1000, -100, math.MaxInt64, math.MinInt64}[r.Intn(18)]
			if r.Chance(30) {
				ordJ = int64(r.Intn(140)) - 20
			}
			op = fmt.Sprintf("od %s %s %d %d", srvD.tokens(), cliD.tokens(), ordT, ordJ)
			_, err = srv.SetDuration(time.Duration(ordT), int(ordJ))
		case 1:
			kSec, kNsec = c12Kill(r)
			kt := time.Unix(kSec, kNsec)
			if kSec == c12ZeroUnix && kNsec == 0 {
				kt = time.Time{}
			}
			op = fmt.Sprintf("ok %s %s %d.%d", srvD.tokens(), cliD.tokens(), kSec, kNsec)
			_, err = srv.SetKillDate(kt)
		case 2:
			ordW = c12Work(r)
			wt := "-"
			if ordW != nil {
				wt = fmt.Sprintf("%d.%d.%d.%d.%d", ordW.Days, ordW.StartHour, ordW.StartMin, ordW.EndHour, ordW.EndMin)
			}
			op = fmt.Sprintf("ow %s %s %s", srvD.tokens(), cliD.tokens(), wt)
			_, err = srv.SetWorkHours(cloneWork(ordW))
		case 3:
			ordP = r.Bytes([]int{0, 1, 5, 40, 255, 256, 300}[r.Intn(7)])
			op = fmt.Sprintf("op %s %s %s", srvD.tokens(), cliD.tokens(), hx(ordP))
			_, err = srv.SetProfile(c2.VerifC12Profile{B: ordP})
		}
		c.Count("order:" + []string{"duration", "killdate", "workhours", "profile"}[which])
		input := map[string]interface{}{"op": op}
		if err != nil {
			if which == 2 && ordW != nil && ordW.Verify() != nil {
				c.Op(op, "verify-error")
				c.Count("order:verify-error")
				c.Eval(false, op)
				return
			}
			c.Fail("order", "setter-error:"+[]string{"duration", "killdate", "workhours", "profile"}[which], "setter failed: "+err.Error(), input)
			return
		}
		n := srv.VerifC12PopSend()
		if n == nil {
			c.Fail("order", "setter-no-packet", "setter queued no packet", input)
			return
		}
		payload := append([]byte(nil), n.Payload()...)
		w := &com.Packet{ID: c2.RvResult, Job: n.Job}
		copy(w.Device[:], c12ID(r))
		herr := c2.VerifC12Handle(cli, n, w)
		if herr != nil {
			c.Op(op, "err client "+c12ErrClass(herr))
			c.Fail("order", "client-handler-error", "client MvTime handler failed: "+herr.Error(), input)
			return
		}
		if !srv.VerifC12Result(w) {
			c.Fail("order", "server-did-not-accept-result", "server did not accept the result packet", input)
			return
		}
		srv2, cli2 := c12Dump(srv, srvD), c12Dump(cli, cliD)
		c.Op(op, fmt.Sprintf("ok %s %s %s", hx(payload), srv2.tokens(), cli2.tokens()))
		// direct oracle 1: the ordered values are in effect on the client
		switch which {
		case 0:
			if ordJ != -1 {
				want := uint8(0)
				switch {
				case ordJ > 100:
					want = 100
				case ordJ >= 0:
					want = uint8(ordJ)
				}
				if cli2.jitter != want {
					c.Fail("order", "effect:jitter", fmt.Sprintf("ordered jitter %d, client has %d (expected %d)", ordJ, cli2.jitter, want), input)
				}
			} else if srvD.jitter > 100 && srvD.jitter != 255 {
				c.Count("note:sleep-only-order-changed-client-jitter")
			}
			if ordT > 0 && cli2.sleep != ordT {
				c.Fail("order", "effect:sleep", fmt.Sprintf("ordered sleep %d, client has %d", ordT, cli2.sleep), input)
			}
			if ordT <= 0 {
				c.Count("order:sleep-kept")
			}
		case 1:
			c12CheckKill(c, "order-killdate", &c12Sess{killSec: kSec, killNsec: kNsec}, cli2, input)
			if cli2.work != nil && cliD.work == nil || cli2.work == nil && cliD.work != nil || (cli2.work != nil && *cli2.work != *cliD.work) {
				c.Fail("order", "effect:clobbered-work", "kill date order changed the work hours", input)
			}
		case 3:
			if cli2.tokens() != cliD.tokens() {
				c.Fail("order", "effect:profile-clobbered-settings", "profile order changed the client's settings", input)
			}
		case 2:
			c12CheckWork(c, "order-workhours", ordW, cli2.work, input)
			if cli2.killSec != cliD.killSec || cli2.killNsec != cliD.killNsec {
				c.Fail("order", "effect:clobbered-kill", "work hours order changed the kill date", input)
			}
		}
		// direct oracle 2: afterwards the server's view equals the client's
		c12CheckSettings(c, "order-view", cli2, srv2, input)
		// untouched settings of the client stay
		if which != 0 && (cli2.jitter != cliD.jitter || cli2.sleep != cliD.sleep) {
			c.Fail("order", "effect:clobbered-duration", "kill date / work hours order changed sleep or jitter", input)
		}
		c.Eval(true, op)
	})

	// B2. the same orders carried by a Script (task.Script, client handler muxHandleScript): the client
	// applies the settings Tasklet, queues a SvResync for the Script's Job and answers; the server
	// absorbs the SvResync while the Job is pending. Other Tasklets around it may fail, with and
	// without stop-on-error. Whenever the client applied the order, the server's view equals the
	// client's afterwards.
	c.Cases("script", c.N(600, 6000), func(r *Rng, i int) {
		srvD := c12Gen(r, false)
		srvD.client, srvD.closing = false, false
		cliD := c12Gen(r, false)
		cliD.client, cliD.closing = true, false
		srv, cli := srvD.build(), cliD.build().VerifC12WithQueue()
		stop := r.Bool()
		sc := task.NewScript(stop, r.Bool())
		var order *com.Packet
		what := ""
		switch i % 3 {
		case 0:
			d := time.Duration(1+r.Intn(3600000)) * time.Millisecond
			order, what = task.Duration(d, r.Intn(101)), "duration"
		case 1:
			order, what = task.KillDate(time.Unix(4102444800+int64(r.Intn(100000)), 0)), "killdate"
		case 2:
			order, what = task.WorkHours(uint8(1+r.Intn(126)), uint8(r.Intn(12)), uint8(r.Intn(60)), uint8(12+r.Intn(12)), uint8(r.Intn(60))), "workhours"
		}
		bad := func() *com.Packet { return &com.Packet{ID: 0xF3} } // no Task mapping: fails
		shape := r.Intn(5)                                        // where a failing Tasklet sits relative to the order
		applied := true
		switch shape {
		case 0:
			sc.Append(order)
		case 1: // failing Tasklet AFTER the order
			sc.Append(order, bad())
		case 2: // failing Tasklet BEFORE the order
			sc.Append(bad(), order)
			applied = !stop
		case 3:
			sc.Append(order, task.Pwd(), bad())
		case 4:
			sc.Append(task.Pwd(), order)
		}
		input := map[string]interface{}{"order": what, "shape": shape, "stop_on_error": stop, "server": srvD.tokens(), "client": cliD.tokens()}
		n, err := sc.Packet()
		if err != nil {
			c.Fail("script", "script-build-error", err.Error(), input)
			return
		}
		j, err := srv.Task(n)
		if err != nil || j == nil {
			c.Fail("script", "script-task-error", fmt.Sprint(err), input)
			return
		}
		q := srv.VerifC12PopSend()
		if q == nil {
			c.Fail("script", "script-no-packet", "Task queued no packet", input)
			return
		}
		w := &com.Packet{ID: c2.RvResult, Job: q.Job}
		copy(w.Device[:], cliD.id)
		herr := c2.VerifC12Script(cli, q, w)
		if herr != nil {
			w.Clear()
			w.Flags |= com.FlagError
			w.WriteString(herr.Error())
		}
		// what the client sends: first whatever it queued (the SvResync), then the result
		for p := cli.VerifC12PopSend(); p != nil; p = cli.VerifC12PopSend() {
			srv.VerifC12Receive(p)
		}
		srv.VerifC12Result(w)
		srv2, cli2 := c12Dump(srv, srvD), c12Dump(cli, cliD)
		changed := cli2.tokens() != cliD.tokens()
		c.Count(fmt.Sprintf("script:shape%d:stop=%v:applied=%v", shape, stop, applied))
		if applied {
			c12CheckSettings(c, "script-view:"+what, cli2, srv2, input)
		} else if changed {
			c.Fail("script", "script:order-after-failed-tasklet-applied", "stop-on-error Script applied a Tasklet that follows a failed one", input)
		}
		c.Eval(true, fmt.Sprint("script", i, what, shape, stop))
	})

	// C. SvResync: kind byte + info of that kind, absorbed by receiveSingle when the Job is known.
	// B4. what the server keeps when a Job's answer carries device information (handleInfoResult): the
	// settings in every kind of answer, the proxy list only in the answers that carry one (MvProxy,
	// MvRefresh). The answer to a Migrate / MvTime / MvProfile Job carries no proxy list: the list the
	// server learned before stays - the migrated client re-creates its proxies from the hand-off.
	c.Cases("jobresult", c.N(900, 6000), func(r *Rng, i int) {
		a := c12Gen(r, false)
		a.client, a.closing = true, false
		if a.mid[0] == 0 {
			a.mid[0] = 1
		}
		if a.proxy == nil || i%3 == 0 {
			a.proxy = &c12Proxy{active: true, name: "px" + strconv.Itoa(r.Intn(100)), addr: "127.0.0.1:" + strconv.Itoa(1+r.Intn(65000)), profile: r.Bytes(1 + r.Intn(40))}
		}
		a.proxy.marshal, a.proxy.active = true, true
		b := c12Gen(r, false)
		b.client, b.closing = false, false
		srv := b.build()
		dev := c12ID(r)
		answer := func(jt uint8, kind uint8, d *c12Sess, job uint16) bool {
			srv.VerifC12AddJob(job, jt)
			w := &com.Packet{ID: c2.RvResult, Job: job}
			copy(w.Device[:], dev)
			if err := d.build().VerifC12Write(kind, w); err != nil {
				return false
			}
			return srv.VerifC12Result(w)
		}
		if !answer(task.MvRefresh, c2.VerifC12InfoRefresh, a, uint16(2+r.Intn(30000))) {
			return
		}
		before := srv.VerifC12Proxies()
		// the second answer: other settings, and for the kinds that carry one another proxy list
		a2 := *a
		a2.jitter, a2.sleep = uint8(r.Intn(101)), int64(1+r.Intn(1000))*int64(time.Second)
		jt := []uint8{task.MvMigrate, task.MvTime, task.MvProfile, task.MvProxy, task.MvRefresh}[i%5]
		kind := map[uint8]uint8{task.MvMigrate: c2.VerifC12InfoSyncMigrate, task.MvTime: c2.VerifC12InfoSync, task.MvProfile: c2.VerifC12InfoSync,
			task.MvProxy: c2.VerifC12InfoProxy, task.MvRefresh: c2.VerifC12InfoRefresh}[jt]
		carries := jt == task.MvProxy || jt == task.MvRefresh
		if carries {
			px := *a.proxy
			px.name, px.addr = px.name+"-2", "10.1.2.3:"+strconv.Itoa(1+r.Intn(65000))
			a2.proxy = &px
		}
		if !answer(jt, kind, &a2, uint16(30002+r.Intn(30000))) {
			c.Fail("jobresult", fmt.Sprintf("jobresult:not-accepted:%#x", jt), "the server did not accept the Job's answer", a2.tokens())
			return
		}
		after := srv.VerifC12Proxies()
		in := map[string]interface{}{"job_type": jt, "client": a2.tokens(), "proxies_before": fmt.Sprint(before), "proxies_after": fmt.Sprint(after)}
		want := before
		if carries {
			want = []c2.VerifC12ProxyData{{Name: a2.proxy.name, Addr: a2.proxy.addr, Profile: a2.proxy.profile}}
			if jt == task.MvProxy {
				want[0].Profile = nil // the answer to a proxy order names the proxies, it does not repeat their profiles
				for k := range after {
					if len(after[k].Profile) == 0 {
						after[k].Profile = nil
					}
				}
			}
		}
		if fmt.Sprint(after) != fmt.Sprint(want) {
			c.Fail("jobresult", fmt.Sprintf("server-view:proxies-after-job:%#x", jt), fmt.Sprintf("the server lists proxies %v after the answer, expected %v", after, want), in)
		}
		if jt != task.MvProxy {
			got := c12Dump(srv, b)
			if got.jitter != a2.jitter || got.sleep != a2.sleep {
				c.Fail("jobresult", fmt.Sprintf("server-view:settings-after-job:%#x", jt), fmt.Sprintf("the server holds sleep %d jitter %d, the client answered %d / %d", got.sleep, got.jitter, a2.sleep, a2.jitter), in)
			}
		}
		c.Count(fmt.Sprintf("jobresult:%#x", jt))
		c.Eval(true, fmt.Sprint("jobresult", i, a2.tokens()))
	})

	c.Cases("resync", c.N(600, 4000), func(r *Rng, i int) {
		t := []uint8{c2.VerifC12InfoRefresh, c2.VerifC12InfoSync}[i%2]
		a := c12Gen(r, false)
		if a.mid[0] == 0 {
			a.mid[0] = 1
		}
		a.client, a.closing = true, false
		if a.proxy != nil {
			a.proxy.marshal = true
		}
		b := c12Gen(r, false)
		b.client, b.closing = false, false
		q := &com.Packet{ID: c2.SvResync, Job: uint16(2 + r.Intn(60000))}
		q.WriteUint8(t)
		if err := a.build().VerifC12Write(t, q); err != nil {
			c.Fail("resync", "resync-write-error", err.Error(), a.tokens())
			return
		}
		body := append([]byte(nil), q.Payload()...)
		srv := b.build()
		srv.VerifC12AddJob(q.Job, task.MvScript)
		srv.VerifC12Receive(q)
		got := c12Dump(srv, b)
		c.Op(fmt.Sprintf("rs chunk %s %s", b.tokens(), hx(body)), fmt.Sprintf("ok rem=%d %s", q.Remaining(), got.tokens()))
		input := map[string]interface{}{"kind": t, "sender": a.tokens(), "receiver": b.tokens()}
		c12CheckSettings(c, "resync", a, got, input)
		if t == c2.VerifC12InfoRefresh {
			if f := c12SameDevice(a, got); f != "" {
				c.Fail("resync", "field:resync:"+f, "device details differ in "+f, input)
			}
		}
		c.Eval(true, a.tokens()+b.tokens())
	})
}

func c12Min(a, b int) int {
	if a < b {
		return a
	}
	return b
}

func init() { register("C12", runC12) }
