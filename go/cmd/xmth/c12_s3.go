package main

import (
	"bytes"
	"fmt"

	"github.com/iDigitalFlame/xmt/c2"
	"github.com/iDigitalFlame/xmt/data"

	"verifharness/variants"
)

// Group "noproxy" of C12 (session 3): a peer built with the `noproxy` tag has its own reader for the
// proxy section of the synchronisation messages (c2/u_proxy_none.go readProxyData: it has to skip
// exactly what a proxy-capable sender wrote, or everything behind the section - keys on the
// migration hand-off, the public key of a hello - is read from the wrong offset). The function is
// extracted from the CURRENT source and mounted into the harness (go/variants); it is run on
// sections in both forms (short: name + address; full: name + address + profile) followed by a
// trailer, next to the default build's reader: both must stop at the same byte, the start of the
// trailer.
func c12Noproxy(c *Ctx) {
	c.Cases("noproxy", c.N(600, 6000), func(r *Rng, i int) {
		full := i%2 == 0
		n := []int{0, 1, 1, 2, 3, 5, 17, 255}[r.Intn(8)]
		var w data.Chunk
		w.WriteUint8(uint8(n))
		lens := []int{0, 1, 7, 40, 254, 255, 256, 300, 70000}
		for k := 0; k < n; k++ {
			w.WriteString(string(r.Bytes(lens[r.Intn(6)])))
			w.WriteString(string(r.Bytes(lens[r.Intn(6)])))
			if full {
				pl := lens[r.Intn(len(lens))]
				if n > 5 && pl > 300 {
					pl = 300
				}
				w.WriteBytes(r.Bytes(pl))
			}
		}
		sect := append([]byte(nil), w.Payload()...)
		trailer := r.Bytes(1 + r.Intn(40))
		msg := append(append([]byte(nil), sect...), trailer...)
		in := map[string]interface{}{"full": full, "entries": n, "section_hex": hx(sect[:minInt(len(sect), 200)]), "section_len": len(sect)}
		run := func(name string, f func(data.Reader) error) (rest []byte, ok bool) {
			ch := data.NewChunk(append([]byte(nil), msg...))
			var err error
			if p := c14Guard(func() { err = f(ch) }); p != "" {
				c.Fail("noproxy", "panic:readProxyData:"+name, fmt.Sprintf("%s reader panicked: %s", name, p), in)
				return nil, false
			}
			if err != nil {
				c.Fail("noproxy", "noproxy:error:"+name, fmt.Sprintf("%s reader failed on a well-formed proxy section: %v", name, err), in)
				return nil, false
			}
			return ch.Payload(), true
		}
		restN, okN := run("noproxy", func(rd data.Reader) error { _, e := variants.NoproxyReadProxyData(full, rd); return e })
		restD, okD := run("default", func(rd data.Reader) error { _, e := c2.VerifC04ReadProxyData(full, rd); return e })
		if okD && !bytes.Equal(restD, trailer) {
			c.Fail("noproxy", "proxy-section:default-reader-offset", fmt.Sprintf("the default reader left %d bytes, the trailer has %d", len(restD), len(trailer)), in)
		}
		if okN && !bytes.Equal(restN, trailer) {
			c.Fail("noproxy", "proxy-section:noproxy-reader-offset", fmt.Sprintf("the noproxy build's reader stops %d bytes before the end of the message instead of %d (the start of what follows the proxy section): everything behind the section is read from the wrong offset", len(restN), len(trailer)), in)
		}
		c.Count(fmt.Sprintf("noproxy:full=%v", full))
		c.Eval(n > 0, fmt.Sprintf("noproxy %v %d %d", full, n, len(sect)))
	})
}
