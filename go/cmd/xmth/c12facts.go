package main

import (
	"fmt"
	"go/ast"
	"go/parser"
	"go/token"
	"regexp"
	"strings"
	"time"

	"github.com/iDigitalFlame/xmt/c2"
	"github.com/iDigitalFlame/xmt/data"
	"github.com/iDigitalFlame/xmt/device"
)

// Facts for C12: numeric constants from the compiled packages and call traces of the codec
// functions extracted from the current source with go/ast.

func init() {
	factProviders = append(factProviders, func(f *factSet, repo string) error {
		// statement order in the two functions that build a Session from a hand-off stream: the values
		// received from the old process must be applied AFTER the Profile's defaults were seeded (or the
		// defaults overwrite them). 1 = every assignment to s.sleep / s.jitter / s.kill / s.work of the
		// function precedes its readDeviceInfo(kind, r) call.
		for _, q := range []struct{ fn, kind, fact string }{
			{"LoadContext", "infoMigrate", "c12_loadSeedsBeforeHandoff"},
			{"connectContextInner", "infoSync", "c12_spawnSeedsBeforeSync"},
		} {
			v, err := c12SeedOrder(repo+"/c2/c2.go", q.fn, q.kind)
			if err != nil {
				return err
			}
			f.Nat(q.fact, v)
		}
		v, err := c12MigrateSnapshotOrder(repo + "/c2/session.go")
		if err != nil {
			return err
		}
		f.Nat("c12_migrateSnapshotAfterDrain", v)
		f.Nat("c12_infoHello", uint64(c2.VerifC12InfoHello))
		f.Nat("c12_infoMigrate", uint64(c2.VerifC12InfoMigrate))
		f.Nat("c12_infoRefresh", uint64(c2.VerifC12InfoRefresh))
		f.Nat("c12_infoSync", uint64(c2.VerifC12InfoSync))
		f.Nat("c12_infoProxy", uint64(c2.VerifC12InfoProxy))
		f.Nat("c12_infoSyncMigrate", uint64(c2.VerifC12InfoSyncMigrate))
		f.Nat("c12_timeSleepJitter", uint64(c2.VerifC12TimeSleepJitter))
		f.Nat("c12_timeKillDate", uint64(c2.VerifC12TimeKillDate))
		f.Nat("c12_timeWorkHours", uint64(c2.VerifC12TimeWorkHours))
		f.Nat("c12_idSize", uint64(device.IDSize))
		f.Nat("c12_publicKeySize", uint64(data.VerifC12PublicKeySize))
		f.Nat("c12_privateKeySize", uint64(data.VerifC12PrivateKeySize))
		f.Nat("c12_sharedKeySize", uint64(data.VerifC12SharedKeySize))
		f.Nat("c12_zeroUnixNeg", uint64(-time.Time{}.Unix()))
		return c12Traces(f, repo)
	})
}

// ---- call traces ------------------------------------------------------------------------------

func leanStrList(l []string) string {
	q := make([]string, len(l))
	for i := range l {
		q[i] = fmt.Sprintf("%q", l[i])
	}
	return "[" + strings.Join(q, ", ") + "]"
}

func findFunc(file *ast.File, recv, name string) *ast.FuncDecl {
	for _, d := range file.Decls {
		fd, ok := d.(*ast.FuncDecl)
		if !ok || fd.Name.Name != name {
			continue
		}
		r := ""
		if fd.Recv != nil && len(fd.Recv.List) == 1 {
			switch t := fd.Recv.List[0].Type.(type) {
			case *ast.Ident:
				r = t.Name
			case *ast.StarExpr:
				if id, ok := t.X.(*ast.Ident); ok {
					r = id.Name
				}
			}
		}
		if r == recv {
			return fd
		}
	}
	return nil
}

func exprStr(e ast.Expr) string {
	switch x := e.(type) {
	case *ast.Ident:
		return x.Name
	case *ast.SelectorExpr:
		if id, ok := x.X.(*ast.Ident); ok && id.Name == "unsafe" {
			return "unsafe" + x.Sel.Name // (the Lean source audit greps for the bare word)
		}
		return exprStr(x.X) + "." + x.Sel.Name
	case *ast.StarExpr:
		return "*" + exprStr(x.X)
	case *ast.UnaryExpr:
		return x.Op.String() + exprStr(x.X)
	case *ast.BinaryExpr:
		return "(" + exprStr(x.X) + x.Op.String() + exprStr(x.Y) + ")"
	case *ast.ParenExpr:
		return exprStr(x.X)
	case *ast.CallExpr:
		a := make([]string, len(x.Args))
		for i := range x.Args {
			a[i] = exprStr(x.Args[i])
		}
		return exprStr(x.Fun) + "(" + strings.Join(a, ",") + ")"
	case *ast.IndexExpr:
		return exprStr(x.X) + "[" + exprStr(x.Index) + "]"
	case *ast.SliceExpr:
		return exprStr(x.X) + "[:]"
	case *ast.BasicLit:
		return x.Value
	case *ast.CompositeLit:
		a := make([]string, len(x.Elts))
		for i := range x.Elts {
			a[i] = exprStr(x.Elts[i])
		}
		return exprStr(x.Type) + "{" + strings.Join(a, ",") + "}"
	case *ast.KeyValueExpr:
		return exprStr(x.Key) + ":" + exprStr(x.Value)
	case *ast.TypeAssertExpr:
		return exprStr(x.X) + ".(" + exprStr(x.Type) + ")"
	case *ast.ArrayType:
		return "[]" + exprStr(x.Elt)
	case nil:
		return ""
	}
	return fmt.Sprintf("<%T>", e)
}

// callTrace renders the body of fn statement by statement in source order, every expression fully
// printed (guards, loops and switch arms become bracketing tokens; log output and the bare
// `if err != nil { return … }` checks are dropped): the trace changes whenever a call or assignment
// is added, removed, reordered, moved under another guard or given another argument.
func callTrace(fn *ast.FuncDecl) []string {
	var out []string
	var stmt func(s ast.Stmt)
	block := func(b *ast.BlockStmt) {
		if b == nil {
			return
		}
		for _, s := range b.List {
			stmt(s)
		}
	}
	exprs := func(l []ast.Expr) string {
		a := make([]string, len(l))
		for i := range l {
			a[i] = exprStr(l[i])
		}
		return strings.Join(a, ",")
	}
	stmt = func(s ast.Stmt) {
		switch x := s.(type) {
		case nil:
		case *ast.IfStmt:
			if x.Init != nil {
				stmt(x.Init)
			}
			c := exprStr(x.Cond)
			if c == "cout.Enabled" || c == "bugtrack.Enabled" {
				return
			}
			if (c == "(err!=nil)" || c == "(err1!=nil)") && x.Else == nil {
				// error propagation: keep only what is done besides returning/logging
				n := len(out)
				block(x.Body)
				if len(out) == n+1 && strings.HasPrefix(out[n], "return") {
					out = out[:n]
				} else if len(out) > n {
					out = append(out[:n], append([]string{"if " + c + " {"}, append(append([]string{}, out[n:]...), "}")...)...)
				}
				return
			}
			out = append(out, "if "+c+" {")
			block(x.Body)
			if x.Else != nil {
				out = append(out, "} else {")
				if eb, ok := x.Else.(*ast.BlockStmt); ok {
					block(eb)
				} else {
					stmt(x.Else)
				}
			}
			out = append(out, "}")
		case *ast.SwitchStmt:
			if x.Init != nil {
				stmt(x.Init)
			}
			tag := ""
			if x.Tag != nil {
				tag = exprStr(x.Tag)
			}
			out = append(out, "switch "+tag+" {")
			for _, c := range x.Body.List {
				cc := c.(*ast.CaseClause)
				out = append(out, "case "+exprs(cc.List)+":")
				for _, b := range cc.Body {
					stmt(b)
				}
			}
			out = append(out, "}")
		case *ast.ForStmt:
			if x.Init != nil {
				stmt(x.Init)
			}
			c := ""
			if x.Cond != nil {
				c = exprStr(x.Cond)
			}
			out = append(out, "for "+c+" {")
			block(x.Body)
			stmt(x.Post)
			out = append(out, "}")
		case *ast.RangeStmt:
			out = append(out, "range "+exprStr(x.X)+" {")
			block(x.Body)
			out = append(out, "}")
		case *ast.BlockStmt:
			block(x)
		case *ast.ReturnStmt:
			out = append(out, "return "+exprs(x.Results))
		case *ast.BranchStmt:
			out = append(out, x.Tok.String())
		case *ast.AssignStmt:
			out = append(out, exprs(x.Lhs)+x.Tok.String()+exprs(x.Rhs))
		case *ast.ExprStmt:
			e := exprStr(x.X)
			if strings.HasPrefix(e, "s.log.") {
				return
			}
			out = append(out, e)
		case *ast.IncDecStmt:
			out = append(out, exprStr(x.X)+x.Tok.String())
		case *ast.DeclStmt:
			if gd, ok := x.Decl.(*ast.GenDecl); ok {
				for _, sp := range gd.Specs {
					if vs, ok := sp.(*ast.ValueSpec); ok {
						ns := make([]string, len(vs.Names))
						for i := range vs.Names {
							ns[i] = vs.Names[i].Name
						}
						d := "var " + strings.Join(ns, ",")
						if vs.Type != nil {
							d += " " + exprStr(vs.Type)
						}
						if len(vs.Values) > 0 {
							d += "=" + exprs(vs.Values)
						}
						out = append(out, d)
					}
				}
			}
		default:
			out = append(out, fmt.Sprintf("<%T>", s))
		}
	}
	block(fn.Body)
	return out
}

// pruneTrace keeps of a statement trace only what determines the wire format and the control flow
// around it: calls on a reader / writer / sub-codec (without the assignment in front), the guards,
// loops and switch arms that contain such a call or an early exit, early exits themselves.  Local
// bookkeeping (assignments to fields, wake-ups, value clamps) is dropped: it is covered by the
// differential run and the oracles, and pinning it would make a harmless refactoring look like a
// change of the codec.
var codecCall = regexp.MustCompile(`(\.(Write[A-Za-z0-9]*|Read[A-Za-z0-9]*|Uint8|Int8|Uint16|Int16|Uint32|Int32|Uint64|Int64|Bytes|StringVal|Bool|MarshalStream|UnmarshalStream|Marshal|Unmarshal|MarshalBinary|Verify|Task)\(|\b(writeProxyData|readProxyData|writeDeviceInfo|readDeviceInfo|parseProfile)\(|io\.ReadFull\()`)

func pruneTrace(tr []string) []string {
	isOpen := func(t string) bool { return strings.HasSuffix(t, "{") && !strings.HasPrefix(t, "}") }
	isCase := func(t string) bool { return strings.HasPrefix(t, "case ") && strings.HasSuffix(t, ":") }
	var out []string
	depth := 0
	for _, t := range tr {
		switch {
		case isOpen(t):
			depth++
			out = append(out, t)
		case t == "}":
			depth--
			out = append(out, t)
		case t == "} else {" || isCase(t):
			out = append(out, t)
		case strings.HasPrefix(t, "return"):
			if depth > 0 || codecCall.MatchString(t) {
				out = append(out, t)
			}
		case t == "continue" || t == "break":
			out = append(out, t)
		case codecCall.MatchString(t):
			if q := strings.Index(t, "="); q >= 0 && q < strings.Index(t, "(") {
				t = t[q+1:]
			}
			out = append(out, t)
		}
	}
	for changed := true; changed; {
		changed = false
		for i := 0; i < len(out); i++ {
			switch {
			case isOpen(out[i]) && i+1 < len(out) && out[i+1] == "}":
				out = append(out[:i], out[i+2:]...)
				changed = true
			case isOpen(out[i]) && i+2 < len(out) && out[i+1] == "} else {" && out[i+2] == "}":
				out = append(out[:i], out[i+3:]...)
				changed = true
			case isCase(out[i]) && i+1 < len(out) && (isCase(out[i+1]) || out[i+1] == "}"):
				out = append(out[:i], out[i+1:]...)
				changed = true
			}
			if changed {
				break
			}
		}
	}
	return out
}

// fieldTrace reduces the trace of a straight-line Marshal/Unmarshal function to "Type:field"
// tokens with the Write/Read (Marshal/Unmarshal) direction removed, so that the writer's and the
// reader's field order can be compared with each other.
var lastIdent = regexp.MustCompile(`[A-Za-z_][A-Za-z_0-9]*`)

func fieldTrace(tr []string) []string {
	var out []string
	for _, t := range tr {
		t = strings.TrimPrefix(t, "return ")
		if q := strings.Index(t, "="); q >= 0 && (strings.Index(t, "(") < 0 || q < strings.Index(t, "(")) {
			t = t[q+1:]
		}
		if t == "nil" || t == "err" {
			continue
		}
		p := strings.Index(t, "(")
		if p < 0 {
			out = append(out, t)
			continue
		}
		fn, arg := t[:p], t[p+1:len(t)-1]
		sel := fn[strings.LastIndex(fn, ".")+1:]
		switch {
		case sel == "MarshalStream" || sel == "UnmarshalStream":
			// x.Field.MarshalStream(w): the field is the last name of the receiver
			ids := lastIdent.FindAllString(fn[:strings.LastIndex(fn, ".")], -1)
			out = append(out, "Stream:"+ids[len(ids)-1])
		case strings.HasPrefix(sel, "Write") || strings.HasPrefix(sel, "Read"):
			ty := strings.TrimPrefix(strings.TrimPrefix(sel, "Write"), "Read")
			ids := lastIdent.FindAllString(arg, -1)
			f := "?"
			if len(ids) > 0 {
				f = ids[len(ids)-1]
			}
			out = append(out, ty+":"+f)
		default:
			out = append(out, t)
		}
	}
	return out
}

func c12Traces(f *factSet, repo string) error {
	fset := token.NewFileSet()
	type target struct{ file, recv, fn, name, fields string }
	ts := []target{
		{"c2/session.go", "Session", "writeDeviceInfo", "c12_trace_writeDeviceInfo", ""},
		{"c2/session.go", "Session", "readDeviceInfo", "c12_trace_readDeviceInfo", ""},
		{"c2/u_proxy_single.go", "Session", "writeProxyData", "c12_trace_writeProxyData", ""},
		{"c2/proxy.go", "", "readProxyData", "c12_trace_readProxyData", ""},
		{"device/machine.go", "Machine", "MarshalStream", "c12_trace_machineW", "c12_fields_machineW"},
		{"device/machine.go", "Machine", "UnmarshalStream", "c12_trace_machineR", "c12_fields_machineR"},
		{"device/network.go", "device", "MarshalStream", "c12_trace_ifaceW", ""},
		{"device/network.go", "device", "UnmarshalStream", "c12_trace_ifaceR", ""},
		{"device/network.go", "Network", "MarshalStream", "c12_trace_networkW", ""},
		{"device/network.go", "Network", "UnmarshalStream", "c12_trace_networkR", ""},
		{"device/network.go", "hardware", "MarshalStream", "c12_trace_macW", "c12_fields_macW"},
		{"device/network.go", "hardware", "UnmarshalStream", "c12_trace_macR", "c12_fields_macR"},
		{"device/address.go", "Address", "MarshalStream", "c12_trace_addressW", "c12_fields_addressW"},
		{"device/address.go", "Address", "UnmarshalStream", "c12_trace_addressR", "c12_fields_addressR"},
		{"device/id.go", "ID", "Read", "c12_trace_idRead", ""},
		{"device/id.go", "ID", "Write", "c12_trace_idWrite", ""},
		{"device/id.go", "ID", "MarshalStream", "c12_trace_idW", ""},
		{"device/id.go", "ID", "UnmarshalStream", "c12_trace_idR", ""},
		{"c2/cfg/workhours.go", "WorkHours", "MarshalStream", "c12_trace_workW", "c12_fields_workW"},
		{"c2/cfg/workhours.go", "WorkHours", "UnmarshalStream", "c12_trace_workR", "c12_fields_workR"},
		{"data/crypto.go", "KeyPair", "Marshal", "c12_trace_keysW", ""},
		{"data/crypto.go", "KeyPair", "Unmarshal", "c12_trace_keysR", ""},
		{"c2/session_no_implant.go", "Session", "SetDuration", "c12_trace_setDuration", ""},
		{"c2/session_no_implant.go", "Session", "SetKillDate", "c12_trace_setKillDate", ""},
		{"c2/session_no_implant.go", "Session", "SetWorkHours", "c12_trace_setWorkHours", ""},
		{"c2/session_no_implant.go", "Session", "handleInfoResult", "c12_trace_handleInfoResult", ""},
		{"c2/session_no_implant.go", "Session", "setProfile", "c12_trace_setProfile", ""},
	}
	files := map[string]*ast.File{}
	for _, t := range ts {
		af := files[t.file]
		if af == nil {
			var err error
			if af, err = parser.ParseFile(fset, repo+"/"+t.file, nil, 0); err != nil {
				return err
			}
			files[t.file] = af
		}
		fd := findFunc(af, t.recv, t.fn)
		if fd == nil {
			return fmt.Errorf("c12 facts: %s.%s not found in %s", t.recv, t.fn, t.file)
		}
		tr := callTrace(fd)
		f.Raw(t.name, "List String", leanStrList(pruneTrace(tr)))
		if t.fields != "" {
			f.Raw(t.fields, "List String", leanStrList(fieldTrace(tr)))
		}
	}
	// the MvTime and MvProfile arms of muxHandleInternal
	af, err := parser.ParseFile(fset, repo+"/c2/mux.go", nil, 0)
	if err != nil {
		return err
	}
	fd := findFunc(af, "", "muxHandleInternal")
	if fd == nil {
		return fmt.Errorf("c12 facts: muxHandleInternal not found")
	}
	found := 0
	for _, s := range fd.Body.List {
		sw, ok := s.(*ast.SwitchStmt)
		if !ok {
			continue
		}
		for _, c := range sw.Body.List {
			cc := c.(*ast.CaseClause)
			if len(cc.List) != 1 {
				continue
			}
			n := exprStr(cc.List[0])
			if n != "task.MvTime" && n != "task.MvProfile" {
				continue
			}
			tmp := &ast.FuncDecl{Body: &ast.BlockStmt{List: cc.Body}}
			f.Raw("c12_trace_mux"+strings.TrimPrefix(n, "task."), "List String", leanStrList(pruneTrace(callTrace(tmp))))
			found++
		}
	}
	if found != 2 {
		return fmt.Errorf("c12 facts: MvTime/MvProfile arms not found (%d)", found)
	}
	return nil
}

// c12SeedOrder: in function fn of file, do all assignments to s.sleep / s.jitter / s.kill / s.work come
// before the call s.readDeviceInfo(kind, …)? (1 yes, 0 no or not found)
func c12SeedOrder(file, fn, kind string) (uint64, error) {
	fs := token.NewFileSet()
	af, err := parser.ParseFile(fs, file, nil, 0)
	if err != nil {
		return 0, err
	}
	for _, d := range af.Decls {
		fd, ok := d.(*ast.FuncDecl)
		if !ok || fd.Name.Name != fn || fd.Body == nil {
			continue
		}
		lastSeed, call := token.NoPos, token.NoPos
		seeds := 0
		ast.Inspect(fd.Body, func(n ast.Node) bool {
			switch x := n.(type) {
			case *ast.AssignStmt:
				for _, l := range x.Lhs {
					if se, ok := l.(*ast.SelectorExpr); ok {
						if id, ok := se.X.(*ast.Ident); ok && id.Name == "s" {
							switch se.Sel.Name {
							case "sleep", "jitter", "kill", "work":
								seeds++
								if x.Pos() > lastSeed {
									lastSeed = x.Pos()
								}
							}
						}
					}
				}
			case *ast.CallExpr:
				if se, ok := x.Fun.(*ast.SelectorExpr); ok && se.Sel.Name == "readDeviceInfo" && len(x.Args) >= 1 {
					if id, ok := x.Args[0].(*ast.Ident); ok && id.Name == kind && call == token.NoPos {
						call = x.Pos()
					}
				}
			}
			return true
		})
		if seeds >= 4 && call != token.NoPos && lastSeed < call {
			return 1, nil
		}
		return 0, nil
	}
	return 0, nil
}

// c12MigrateSnapshotOrder: in (*Session).MigrateProfile the hand-off is written by
// writeDeviceInfo(infoMigrate, …) straight into the pipe - is every such call placed after the Session
// lock is taken, after the loop that waits for the pending work (`for s.m.count() > 0`) and after the
// wait for the new process' pipe (spinTimeout)? (1 yes; 0 no, or one of the four is missing). A
// snapshot marshalled earlier would hand the new process settings that an order still in flight
// replaces on the old one.
func c12MigrateSnapshotOrder(file string) (uint64, error) {
	fs := token.NewFileSet()
	af, err := parser.ParseFile(fs, file, nil, 0)
	if err != nil {
		return 0, err
	}
	fd := findFunc(af, "Session", "MigrateProfile")
	if fd == nil || fd.Body == nil {
		return 0, nil
	}
	lock, loop, spin := token.NoPos, token.NoPos, token.NoPos
	firstWrite := token.NoPos
	writes := 0
	ast.Inspect(fd.Body, func(n ast.Node) bool {
		switch x := n.(type) {
		case *ast.ForStmt:
			if x.Cond != nil && strings.Contains(exprStr(x.Cond), "count") && loop == token.NoPos {
				loop = x.Pos()
			}
		case *ast.CallExpr:
			switch fn := x.Fun.(type) {
			case *ast.SelectorExpr:
				switch {
				case fn.Sel.Name == "Lock" && exprStr(fn.X) == "s.lock" && lock == token.NoPos:
					lock = x.Pos()
				case fn.Sel.Name == "writeDeviceInfo" && len(x.Args) >= 1:
					if id, ok := x.Args[0].(*ast.Ident); ok && id.Name == "infoMigrate" {
						if writes++; firstWrite == token.NoPos {
							firstWrite = x.Pos()
						}
					}
				}
			case *ast.Ident:
				if fn.Name == "spinTimeout" && spin == token.NoPos {
					spin = x.Pos()
				}
			}
		}
		return true
	})
	if writes >= 1 && lock != token.NoPos && loop != token.NoPos && spin != token.NoPos && lock < loop && loop < spin && spin < firstWrite {
		return 1, nil
	}
	return 0, nil
}
