package main

// C13 — session state word (c2/state.go): independent flags + 16-bit last group, closed dominates,
// channel request protocol, no lost update under any interleaving.
//
// Groups:
//   seq     exhaustive: all 2^16 flag states (high half from a boundary pool) x every method; one
//           model-comparable line per state + direct oracles (truth table, independence, closed
//           dominance, SetChannel / notice protocol) evaluated on the real code only.
//   enum    deterministic schedule replay: 2 and 3 threads x 1..2 mutator calls, all short schedule
//           prefixes (then drained); the same schedule is run by the Lean model (`conc` op).
//   rand    random programs (2..4 threads, 1..3 calls) under random schedules.
//   notice  2..3 goroutines calling ChannelCanStop at once under enumerated/random schedules
//           (oracle: the pending 'updated' notice is taken by exactly one of them).
//   stress  free-running goroutines (GOMAXPROCS>1), each owning one flag bit / the last value.

import (
	"fmt"
	"go/ast"
	"go/parser"
	"go/token"
	"math/bits"
	"os"
	"path/filepath"
	"runtime"
	"strconv"
	"strings"
	"sync"
	"sync/atomic"

	"github.com/iDigitalFlame/xmt/c2"
)

// ---- facts ------------------------------------------------------------------------------------

func c13Facts(f *factSet, repo string) error {
	names, vals := c2.VerifC13Consts()
	for i := range names {
		f.Nat(names[i], uint64(vals[i]))
		f.Nat(names[i]+"Bit", uint64(bits.TrailingZeros32(vals[i])))
	}
	// access shapes of the mutators: the sequence of sync/atomic primitives and loops, in source
	// order. 1=Load 2=Store 3=CompareAndSwap 4="for {" 5="}" 6=any other atomic.* call
	fs := token.NewFileSet()
	file, err := parser.ParseFile(fs, repo+"/c2/state.go", nil, 0)
	if err != nil {
		return err
	}
	shapes := map[string][]int{}
	calls := map[string][]string{}
	for _, d := range file.Decls {
		fd, ok := d.(*ast.FuncDecl)
		if !ok || fd.Recv == nil || fd.Body == nil || len(fd.Recv.List) != 1 {
			continue
		}
		st, ok := fd.Recv.List[0].Type.(*ast.StarExpr)
		if !ok {
			continue
		}
		if id, ok := st.X.(*ast.Ident); !ok || id.Name != "state" {
			continue
		}
		recv := ""
		if len(fd.Recv.List[0].Names) == 1 {
			recv = fd.Recv.List[0].Names[0].Name
		}
		var toks []int
		var cs []string
		var stack []ast.Node
		ast.Inspect(fd.Body, func(n ast.Node) bool {
			if n == nil {
				top := stack[len(stack)-1]
				stack = stack[:len(stack)-1]
				if _, ok := top.(*ast.ForStmt); ok {
					toks = append(toks, 5)
				}
				return true
			}
			stack = append(stack, n)
			switch x := n.(type) {
			case *ast.ForStmt:
				toks = append(toks, 4)
			case *ast.CallExpr:
				if se, ok := x.Fun.(*ast.SelectorExpr); ok {
					if id, ok := se.X.(*ast.Ident); ok {
						if id.Name == "atomic" {
							switch se.Sel.Name {
							case "LoadUint32":
								toks = append(toks, 1)
							case "StoreUint32":
								toks = append(toks, 2)
							case "CompareAndSwapUint32":
								toks = append(toks, 3)
							default:
								toks = append(toks, 6)
							}
						} else if id.Name == recv {
							cs = append(cs, se.Sel.Name)
						}
					}
				}
			}
			return true
		})
		shapes[fd.Name.Name] = toks
		calls[fd.Name.Name] = cs
	}
	lst := func(v []int) string {
		s := make([]string, len(v))
		for i := range v {
			s[i] = strconv.Itoa(v[i])
		}
		return "[" + strings.Join(s, ", ") + "]"
	}
	f.Raw("c13AccSet", "List Nat", lst(shapes["Set"]))
	f.Raw("c13AccUnset", "List Nat", lst(shapes["Unset"]))
	f.Raw("c13AccSetLast", "List Nat", lst(shapes["SetLast"]))
	f.Raw("c13AccTryUnset", "List Nat", lst(shapes["tryUnset"]))
	f.Raw("c13AccTrySet", "List Nat", lst(shapes["trySet"]))
	tc := 0
	has := func(l []string, s string) bool {
		for _, x := range l {
			if x == s {
				return true
			}
		}
		return false
	}
	if has(calls["ChannelCanStop"], "tryUnset") && !has(calls["ChannelCanStop"], "Unset") {
		tc = 1
	}
	f.Nat("c13CanStopTestAndClear", uint64(tc))
	// every write of a state word goes through the methods of c2/state.go: count the statements of
	// package c2 (all files, whatever their build tags) that write one directly - an assignment, an
	// operator assignment or ++/-- whose target is a field named `state` (or `*s` inside a method of
	// *state), an atomic call on such a field outside state.go, and any atomic call in state.go that
	// is not a Load or a CompareAndSwap
	direct, nonFlag := 0, 0
	var where, nonFlagWhere []string
	files, _ := filepath.Glob(repo + "/c2/*.go")
	for _, fn := range files {
		if strings.HasSuffix(fn, "_test.go") || strings.Contains(filepath.Base(fn), "zz_verif") {
			continue
		}
		af, err := parser.ParseFile(fs, fn, nil, 0)
		if err != nil {
			return err
		}
		inState := filepath.Base(fn) == "state.go"
		// func (x *T) stateSet(v uint32) { x.state.Set(v) } / stateUnset: function -> parameter name
		forwarderParam := map[string]string{}
		for _, d := range af.Decls {
			if fd, ok := d.(*ast.FuncDecl); ok && (fd.Name.Name == "stateSet" || fd.Name.Name == "stateUnset") && fd.Type.Params != nil &&
				len(fd.Type.Params.List) == 1 && len(fd.Type.Params.List[0].Names) == 1 && fd.Body != nil && len(fd.Body.List) == 1 {
				forwarderParam[fd.Name.Name] = fd.Type.Params.List[0].Names[0].Name
			}
		}
		isStateField := func(e ast.Expr) bool {
			for {
				switch x := e.(type) {
				case *ast.ParenExpr:
					e = x.X
					continue
				case *ast.SelectorExpr:
					return x.Sel.Name == "state"
				case *ast.StarExpr:
					if id, ok := x.X.(*ast.Ident); ok && inState && id.Name == "s" {
						return true
					}
					return false
				}
				return false
			}
		}
		mentionsState := func(e ast.Expr) bool {
			found := false
			ast.Inspect(e, func(n ast.Node) bool {
				if se, ok := n.(*ast.SelectorExpr); ok && se.Sel.Name == "state" {
					found = true
				}
				return true
			})
			return found
		}
		ast.Inspect(af, func(n ast.Node) bool {
			switch x := n.(type) {
			case *ast.AssignStmt:
				if x.Tok == token.DEFINE {
					return true
				}
				for _, l := range x.Lhs {
					if isStateField(l) {
						direct++
						where = append(where, fs.Position(x.Pos()).String())
					}
				}
			case *ast.IncDecStmt:
				if isStateField(x.X) {
					direct++
					where = append(where, fs.Position(x.Pos()).String())
				}
			case *ast.CallExpr:
				se, ok := x.Fun.(*ast.SelectorExpr)
				if !ok {
					return true
				}
				// the flag operations are only ever given flag constants (state...), alone or or-ed: a
				// computed mask could reach into the group half of the word
				if m := se.Sel.Name; (m == "Set" || m == "Unset" || m == "trySet" || m == "tryUnset" || m == "stateSet" || m == "stateUnset") && len(x.Args) == 1 {
					onState := m == "stateSet" || m == "stateUnset" // the forwarding methods of Session / proxyClient (interface connHost)
					switch r := se.X.(type) {
					case *ast.SelectorExpr:
						onState = onState || r.Sel.Name == "state"
					case *ast.Ident:
						onState = onState || (inState && r.Name == "s")
					}
					// the forwarders themselves pass their own parameter on
					if id, ok := x.Args[0].(*ast.Ident); ok && forwarderParam[enclosing(af, x.Pos())] == id.Name {
						onState = false
					}
					if onState && !flagConstExpr(x.Args[0]) {
						nonFlag++
						nonFlagWhere = append(nonFlagWhere, fs.Position(x.Pos()).String())
					}
				}
				id, ok := se.X.(*ast.Ident)
				if !ok || id.Name != "atomic" {
					return true
				}
				if inState {
					if se.Sel.Name != "LoadUint32" && se.Sel.Name != "CompareAndSwapUint32" {
						direct++
						where = append(where, fs.Position(x.Pos()).String())
					}
					return true
				}
				for _, a := range x.Args {
					if mentionsState(a) {
						direct++
						where = append(where, fs.Position(x.Pos()).String())
					}
				}
			}
			return true
		})
	}
	f.Nat("c13DirectStateWrites", uint64(direct))
	f.Nat("c13NonConstantFlagMasks", uint64(nonFlag))
	for i := range nonFlagWhere {
		nonFlagWhere[i] = strconv.Quote(strings.TrimPrefix(nonFlagWhere[i], repo+"/"))
	}
	f.Raw("c13NonConstantFlagMaskSites", "List String", "["+strings.Join(nonFlagWhere, ", ")+"]")
	for i := range where {
		where[i] = strconv.Quote(strings.TrimPrefix(where[i], repo+"/"))
	}
	f.Raw("c13DirectStateWriteSites", "List String", "["+strings.Join(where, ", ")+"]")
	return nil
}

// enclosing returns the name of the function declaration that contains pos.
func enclosing(af *ast.File, pos token.Pos) string {
	for _, d := range af.Decls {
		if fd, ok := d.(*ast.FuncDecl); ok && fd.Pos() <= pos && pos <= fd.End() {
			return fd.Name.Name
		}
	}
	return ""
}

// flagConstExpr: a flag constant (identifier state...), or an or / parenthesised combination of them.
func flagConstExpr(e ast.Expr) bool {
	switch x := e.(type) {
	case *ast.Ident:
		return strings.HasPrefix(x.Name, "state") && len(x.Name) > 5
	case *ast.ParenExpr:
		return flagConstExpr(x.X)
	case *ast.BinaryExpr:
		return x.Op == token.OR && flagConstExpr(x.X) && flagConstExpr(x.Y)
	}
	return false
}

// ---- helpers ----------------------------------------------------------------------------------

var c13Names []string
var c13Vals []uint32
var c13C = map[string]uint32{}

func c13Init() {
	c13Names, c13Vals = c2.VerifC13Consts()
	for i := range c13Names {
		c13C[c13Names[i]] = c13Vals[i]
	}
}

func h32(v uint32) string { return strconv.FormatUint(uint64(v), 16) }

func bitStr(bs []bool) string {
	b := make([]byte, len(bs))
	for i := range bs {
		b[i] = '0'
		if bs[i] {
			b[i] = '1'
		}
	}
	return string(b)
}

// call runs a real method on a copy of w: (new word, result)
func c13On(w uint32, op string, arg uint32) (uint32, uint32) {
	x := w
	r := c2.VerifC13Call(&x, op, arg)
	return x, r
}

var c13HiPool = []uint32{0, 0xFFFF, 1, 0x8000, 0x7FFF, 0xFFFE, 0x00FF, 0xFF00, 0xBEEF}

func c13Hi(r *Rng) uint32 {
	if r.Chance(70) {
		return c13HiPool[r.Intn(len(c13HiPool))]
	}
	return uint32(r.Intn(65536))
}

// ---- concurrent programs ------------------------------------------------------------------------

type c13Op struct {
	kind string // s u l tu ts
	v    uint32
}

func (o c13Op) tok() string { return o.kind + ":" + h32(o.v) }
func (o c13Op) real() string {
	switch o.kind {
	case "s":
		return "set"
	case "u":
		return "unset"
	case "l":
		return "setLast"
	case "tu":
		return "tryUnset"
	}
	return "trySet"
}

func progsTok(ps [][]c13Op) string {
	s := make([]string, len(ps))
	for i, p := range ps {
		if len(p) == 0 {
			s[i] = "-"
			continue
		}
		t := make([]string, len(p))
		for j := range p {
			t[j] = p[j].tok()
		}
		s[i] = strings.Join(t, ",")
	}
	return strings.Join(s, "|")
}

func schedTok(s []int) string {
	if len(s) == 0 {
		return "-"
	}
	b := make([]byte, len(s))
	for i := range s {
		b[i] = byte('0' + s[i])
	}
	return string(b)
}

func retsTok(rs [][]uint32) string {
	s := make([]string, len(rs))
	for i, r := range rs {
		if len(r) == 0 {
			s[i] = "-"
			continue
		}
		b := make([]byte, len(r))
		for j := range r {
			b[j] = byte('0' + r[j])
		}
		s[i] = string(b)
	}
	return strings.Join(s, "|")
}

// runConc executes the programs on the real code under the schedule (cooperative scheduler in the
// c2 hook), returns final word, per-thread results, executed schedule, scheduler counters.
func runConc(init uint32, ps [][]c13Op, sched []int) (uint32, [][]uint32, []int, *c2.VerifC13Sched, bool) {
	w := new(uint32)
	*w = init
	rets := make([][]uint32, len(ps))
	th := make([]func(), len(ps))
	for t := range ps {
		t := t
		th[t] = func() {
			for _, o := range ps[t] {
				rets[t] = append(rets[t], c2.VerifC13Call(w, o.real(), o.v))
			}
		}
	}
	ex, sc, ok := c2.VerifC13Run(w, th, sched, 4096)
	return atomic.LoadUint32(w), rets, ex, sc, ok
}

// every sequential order of the programs (program order kept), run on the real code without a
// scheduler: the set of (word, results) a linearizable execution may produce.
func seqOutcomes(init uint32, ps [][]c13Op, limit int) (map[string]bool, bool) {
	out := map[string]bool{}
	idx := make([]int, len(ps))
	rets := make([][]uint32, len(ps))
	n := 0
	var rec func(w uint32) bool
	rec = func(w uint32) bool {
		fin := true
		for t := range ps {
			if idx[t] < len(ps[t]) {
				fin = false
				o := ps[t][idx[t]]
				nw, r := c13On(w, o.real(), o.v)
				idx[t]++
				rets[t] = append(rets[t], r)
				ok := rec(nw)
				rets[t] = rets[t][:len(rets[t])-1]
				idx[t]--
				if !ok {
					return false
				}
			}
		}
		if fin {
			n++
			if n > limit {
				return false
			}
			out[h32(w)+" "+retsTok(rets)] = true
		}
		return true
	}
	ok := rec(init)
	return out, ok
}

// checkConc: direct oracles on one concurrent execution of the real code.
func checkConc(c *Ctx, init uint32, ps [][]c13Op, final uint32, rets [][]uint32, input interface{}) {
	fails0 := c.Fails
	// per flag bit: a set (clear) that no other call can undo must be visible at the end
	for k := 0; k < 16; k++ {
		b := uint32(1) << k
		sets, clears := false, false
		for _, p := range ps {
			for _, o := range p {
				switch o.kind {
				case "s", "ts":
					if o.v&b != 0 {
						sets = true
					}
				case "u", "tu":
					if o.v&b != 0 {
						clears = true
					}
				}
			}
		}
		switch {
		case !clears && (sets || init&b != 0) && final&b == 0:
			what := "set"
			if !sets {
				what = "bystander-bit"
			}
			c.Fail("lost-update", "lost-update:"+what, fmt.Sprintf("flag bit %d must be set at the end (no call clears it) but the final word is %#x", k, final), input)
		case !sets && (clears || init&b == 0) && final&b != 0:
			what := "unset"
			if !clears {
				what = "bystander-bit"
			}
			c.Fail("lost-update", "lost-update:"+what, fmt.Sprintf("flag bit %d must be clear at the end (no call sets it) but the final word is %#x", k, final), input)
		}
	}
	// last: with at most one thread writing it, the final value is that thread's last write
	writer, nw := -1, 0
	hiTouched := false
	for t, p := range ps {
		w := false
		for _, o := range p {
			if o.kind == "l" {
				w = true
			} else if o.v>>16 != 0 {
				hiTouched = true
			}
		}
		if w {
			writer = t
			nw++
		}
	}
	if !hiTouched {
		if nw == 0 && final>>16 != init>>16 {
			c.Fail("independence", "flags-alter-last", fmt.Sprintf("no SetLast was issued but last changed %#x -> %#x", init>>16, final>>16), input)
		}
		if nw == 1 {
			var lv uint32
			for _, o := range ps[writer] {
				if o.kind == "l" {
					lv = o.v
				}
			}
			if final>>16 != lv {
				c.Fail("lost-update", "lost-update:setLast", fmt.Sprintf("single writer's last SetLast(%#x) is not the final last value %#x", lv, final>>16), input)
			}
		}
	}
	// test-and-clear / test-and-set of one bit that nobody else moves the other way: exactly one winner
	for k := 0; k < 16; k++ {
		b := uint32(1) << k
		for _, kind := range []string{"tu", "ts"} {
			cnt, wins, other := 0, 0, false
			for t, p := range ps {
				for j, o := range p {
					if o.kind == kind && o.v == b {
						cnt++
						if rets[t][j] == 1 {
							wins++
						}
					} else if o.v&b != 0 && o.kind != "l" {
						other = true
					}
				}
			}
			if cnt == 0 || other {
				continue
			}
			want := 0
			if (kind == "tu") == (init&b != 0) {
				want = 1
			}
			if wins != want {
				c.Fail("once", "once:"+map[string]string{"tu": "tryUnset", "ts": "trySet"}[kind], fmt.Sprintf("%d concurrent %s(bit %d) calls: %d reported success, want exactly %d", cnt, kind, k, wins, want), input)
			}
		}
	}
	// linearizability by brute force against sequential runs of the real code
	tot := 0
	for _, p := range ps {
		tot += len(p)
	}
	if tot <= 7 {
		if outs, ok := seqOutcomes(init, ps, 3000); ok {
			// (reported only when none of the sharper oracles above has already named the loss)
			if !outs[h32(final)+" "+retsTok(rets)] && c.Fails == fails0 {
				c.Fail("linearizable", "not-linearizable:mutators", fmt.Sprintf("final word %#x / results %s equal no sequential order of the calls (%d orders tried)", final, retsTok(rets), len(outs)), input)
			}
			c.Count("conc:lin-checked")
		}
	}
}

func doConc(c *Ctx, init uint32, ps [][]c13Op, sched []int) {
	final, rets, ex, sc, ok := runConc(init, ps, sched)
	input := map[string]interface{}{"init": h32(init), "programs": progsTok(ps), "schedule": schedTok(ex)}
	if len(sc.Panics) > 0 {
		c.Fail("panic", "panic:state", strings.Join(sc.Panics, "; "), input)
		return
	}
	if !ok {
		c.Fail("progress", "no-progress:mutator", "a thread running alone did not finish its calls within 4096 accesses", input)
		return
	}
	c.Op(fmt.Sprintf("conc %s %s %s", h32(init), progsTok(ps), schedTok(ex)),
		fmt.Sprintf("mem=%s rets=%s casfail=%d", h32(final), retsTok(rets), sc.CASFail))
	if sc.CASFail > 0 {
		c.Count("conc:with-cas-retry")
	}
	c.Count(fmt.Sprintf("conc:threads=%d", len(ps)))
	checkConc(c, init, ps, final, rets, input)
	c.Eval(len(ex) > 2, fmt.Sprint(input))
}

// ---- the property run -------------------------------------------------------------------------

func runC13(c *Ctx) {
	c13Init()
	K := c13C
	hasTU, hasTS := c2.VerifC13Has("tryUnset"), c2.VerifC13Has("trySet")
	c.Extra["has_tryUnset"], c.Extra["has_trySet"] = hasTU, hasTS
	flagNames := c13Names
	closedBit := K["stateClosed"]

	// A. sequential, exhaustive over the 2^16 flag states
	simple := map[string]string{"Seen": "stateSeen", "Moving": "stateMoving", "Closed": "stateClosed", "Channel": "stateChannel",
		"Replacing": "stateReplacing", "ShutdownWait": "stateShutdownWait", "ChannelValue": "stateChannelValue",
		"ChannelProxy": "stateChannelProxy", "ChannelUpdated": "stateChannelUpdated"}
	domTrue := map[string]string{"Closing": "stateClosing", "Shutdown": "stateShutdown", "RecvClosed": "stateRecvClose",
		"SendClosed": "stateSendClose", "WakeClosed": "stateWakeClose"}
	c.Cases("seq", 65536, func(r *Rng, i int) {
		w := uint32(i) | c13Hi(r)<<16
		m1 := uint32(r.U64())
		m2 := uint32(r.Intn(65536))
		if r.Chance(30) {
			m2 = c13Vals[r.Intn(16)] | c13Vals[r.Intn(16)]
		}
		l1, l2 := c13Hi(r), c13Hi(r)
		in := map[string]interface{}{"word": h32(w)}
		// --- model-comparable line
		x := w
		pv := c2.VerifC13Predicates(&x)
		if x != w {
			c.Fail("read-only", "predicate-mutates", fmt.Sprintf("evaluating the predicates changed the word %#x -> %#x", w, x), in)
		}
		var sb strings.Builder
		sb.WriteString("p=" + bitStr(pv) + " set=")
		for k := 0; k < 16; k++ {
			nw, _ := c13On(w, "set", c13Vals[k])
			sb.WriteString(h32(nw) + ",")
		}
		sb.WriteString(" unset=")
		for k := 0; k < 16; k++ {
			nw, _ := c13On(w, "unset", c13Vals[k])
			sb.WriteString(h32(nw) + ",")
		}
		a, _ := c13On(w, "set", m1)
		b, _ := c13On(w, "unset", m1)
		d, _ := c13On(w, "set", m2)
		e, _ := c13On(w, "unset", m2)
		_, lv := c13On(w, "last", 0)
		s1, _ := c13On(w, "setLast", l1)
		s2, _ := c13On(w, "setLast", l2)
		fmt.Fprintf(&sb, " m=%s,%s,%s,%s last=%s sl=%s,%s", h32(a), h32(b), h32(d), h32(e), h32(lv), h32(s1), h32(s2))
		ct, rt := c13On(w, "setChannel", 1)
		cf, rf := c13On(w, "setChannel", 0)
		cs, rs := c13On(w, "canStop", 0)
		tg, rg := c13On(w, "tag", 0)
		fmt.Fprintf(&sb, " sc=%s:%d,%s:%d stop=%s:%d tag=%s:%d", h32(ct), rt, h32(cf), rf, h32(cs), rs, h32(tg), rg)
		op := "allb"
		if hasTU && hasTS {
			op = "all"
			u1, ru1 := c13On(w, "tryUnset", m2)
			u2, ru2 := c13On(w, "tryUnset", K["stateChannelUpdated"])
			t1, rt1 := c13On(w, "trySet", m2)
			t2, rt2 := c13On(w, "trySet", K["stateClosing"])
			fmt.Fprintf(&sb, " tu=%s:%d,%s:%d ts=%s:%d,%s:%d", h32(u1), ru1, h32(u2), ru2, h32(t1), rt1, h32(t2), rt2)
		}
		c.Op(fmt.Sprintf("%s %s %s %s %s %s", op, h32(w), h32(m1), h32(m2), h32(l1), h32(l2)), sb.String())

		// --- direct oracles (no model involved)
		pm := map[string]bool{}
		for j, n := range c2.VerifC13Preds {
			pm[n] = pv[j]
		}
		isClosed := w&closedBit != 0
		for n, cn := range simple {
			if pm[n] != (w&K[cn] != 0) {
				c.Fail("truth-table", "flag-read:"+n, fmt.Sprintf("%s()=%v on word %#x, flag %s=%v", n, pm[n], w, cn, w&K[cn] != 0), in)
			}
		}
		for n, cn := range domTrue {
			want := isClosed || w&K[cn] != 0
			if pm[n] != want {
				key := "flag-read:" + n
				if isClosed {
					key = "closed-dominates:" + n
				}
				c.Fail("truth-table", key, fmt.Sprintf("%s()=%v on word %#x (closed=%v)", n, pm[n], w, isClosed), in)
			}
		}
		if want := !isClosed && w&K["stateReady"] != 0; pm["Ready"] != want {
			key := "flag-read:Ready"
			if isClosed {
				key = "closed-dominates:Ready"
			}
			c.Fail("truth-table", key, fmt.Sprintf("Ready()=%v on word %#x (closed=%v)", pm["Ready"], w, isClosed), in)
		}
		if want := !isClosed && w&K["stateRecvClose"] == 0 && w&K["stateCanRecv"] != 0; pm["CanRecv"] != want {
			key := "flag-read:CanRecv"
			if isClosed {
				key = "closed-dominates:CanRecv"
			}
			c.Fail("truth-table", key, fmt.Sprintf("CanRecv()=%v on word %#x (closed=%v)", pm["CanRecv"], w, isClosed), in)
		}
		if isClosed && pm["ChannelCanStart"] {
			c.Fail("truth-table", "closed-dominates:ChannelCanStart", fmt.Sprintf("ChannelCanStart() true on closed word %#x", w), in)
		}
		if isClosed && (rs != 1 || cs != w) {
			c.Fail("truth-table", "closed-dominates:ChannelCanStop", fmt.Sprintf("ChannelCanStop()=%d, word %#x -> %#x on a closed word", rs, w, cs), in)
		}
		if lv != w>>16 {
			c.Fail("truth-table", "last-read", fmt.Sprintf("Last()=%#x on word %#x", lv, w), in)
		}
		// mutators: exact effect, flags and last independent
		for k := 0; k < 16; k++ {
			bit := c13Vals[k]
			nw, _ := c13On(w, "set", bit)
			if nw>>16 != w>>16 {
				c.Fail("independence", "set-alters-last", fmt.Sprintf("Set(%s) on %#x changed last: %#x", flagNames[k], w, nw), in)
			} else if nw != w|bit {
				c.Fail("mutator", "set-wrong", fmt.Sprintf("Set(%s) on %#x gave %#x", flagNames[k], w, nw), in)
			}
			nw, _ = c13On(w, "unset", bit)
			if nw>>16 != w>>16 {
				c.Fail("independence", "unset-alters-last", fmt.Sprintf("Unset(%s) on %#x changed last: %#x", flagNames[k], w, nw), in)
			} else if nw != w&^bit {
				c.Fail("mutator", "unset-wrong", fmt.Sprintf("Unset(%s) on %#x gave %#x", flagNames[k], w, nw), in)
			}
		}
		if d != w|m2 || e != w&^m2 {
			c.Fail("mutator", "multi-bit-wrong", fmt.Sprintf("Set/Unset(%#x) on %#x gave %#x / %#x", m2, w, d, e), in)
		}
		for _, p := range [][2]uint32{{l1, s1}, {l2, s2}} {
			if p[1]&0xFFFF != w&0xFFFF {
				c.Fail("independence", "setlast-alters-flags", fmt.Sprintf("SetLast(%#x) on %#x gave %#x", p[0], w, p[1]), in)
			}
			if _, g := c13On(p[1], "last", 0); g != p[0] {
				c.Fail("mutator", "setlast-value", fmt.Sprintf("SetLast(%#x) on %#x then Last()=%#x", p[0], w, g), in)
			}
		}
		// Tag: reports and clears exactly the seen bit
		if seen := w&K["stateSeen"] != 0; (rg == 1) != seen || tg != w&^K["stateSeen"] {
			c.Fail("mutator", "tag-wrong", fmt.Sprintf("Tag() on %#x gave %d, word %#x", w, rg, tg), in)
		}
		// channel request protocol
		val, upd, ch, prx := K["stateChannelValue"], K["stateChannelUpdated"], K["stateChannel"], K["stateChannelProxy"]
		for _, q := range []struct {
			e     uint32
			nw, r uint32
		}{{1, ct, rt}, {0, cf, rf}} {
			same := false
			if q.e == 1 {
				same = w&val != 0
			} else {
				same = w&val == 0 && !(w&ch != 0 && w&prx != 0)
			}
			tag := map[uint32]string{1: "on", 0: "off"}[q.e]
			if same {
				if q.r != 0 || q.nw != w {
					c.Fail("channel", "setchannel-not-nop:"+tag, fmt.Sprintf("SetChannel(%s) equals the standing request on %#x but returned %d, word %#x", tag, w, q.r, q.nw), in)
				}
				continue
			}
			wantW := w | val | upd
			if q.e == 0 {
				wantW = w&^val | upd
			}
			if q.r != 1 || q.nw != wantW {
				c.Fail("channel", "setchannel-change:"+tag, fmt.Sprintf("SetChannel(%s) on %#x returned %d, word %#x, want 1, %#x", tag, w, q.r, q.nw, wantW), in)
				continue
			}
			if n2, _ := c13On(q.nw, "setChannel", q.e); n2 != q.nw {
				c.Fail("channel", "setchannel-not-idempotent:"+tag, fmt.Sprintf("second SetChannel(%s) changed %#x -> %#x", tag, q.nw, n2), in)
			}
			// notice consumed exactly once (channel running, not closing)
			run := (q.nw | ch) &^ (closedBit | K["stateClosing"])
			a1, r1 := c13On(run, "canStop", 0)
			a2, r2 := c13On(a1, "canStop", 0)
			if r1 != 1-q.e || a1 != run&^upd || r2 != 0 || a2 != a1 {
				c.Fail("channel", "notice-once:"+tag, fmt.Sprintf("after SetChannel(%s): ChannelCanStop on %#x -> (%d, %#x), again -> (%d, %#x); want (%d, %#x) then (0, unchanged)", tag, run, r1, a1, r2, a2, 1-q.e, run&^upd), in)
			}
		}
		// ChannelCanStop without a pending notice never changes the word
		if w&upd == 0 && cs != w {
			c.Fail("channel", "canstop-mutates", fmt.Sprintf("ChannelCanStop on %#x (no notice) changed the word to %#x", w, cs), in)
		}
		if cs != w && cs != w&^upd {
			c.Fail("channel", "canstop-mutates", fmt.Sprintf("ChannelCanStop on %#x changed more than the notice bit: %#x", w, cs), in)
		}
		c.Count("seq:closed=" + strconv.FormatBool(isClosed))
		c.Eval(true, h32(w))
	})

	// B. enumerated schedules on the real code + the Lean model
	pool := []c13Op{{"s", K["stateClosing"]}, {"u", K["stateClosing"]}, {"s", K["stateReady"]}, {"u", K["stateChannel"]},
		{"l", 0xBEEF}, {"l", 0}, {"s", K["stateSendClose"] | K["stateWakeClose"]}}
	if hasTU {
		pool = append(pool, c13Op{"tu", K["stateChannelUpdated"]})
	}
	if hasTS {
		pool = append(pool, c13Op{"ts", K["stateClosing"]})
	}
	// corpus: recorded witnesses first
	c.Cases("corpus", 1, func(r *Rng, _ int) {
		files, _ := filepath.Glob("../corpus/C13/*.ops")
		for _, f := range files {
			b, err := os.ReadFile(f)
			if err != nil {
				continue
			}
			for _, line := range strings.Split(string(b), "\n") {
				fs := strings.Fields(line)
				if len(fs) != 4 || fs[0] != "conc" {
					continue
				}
				init, err := strconv.ParseUint(fs[1], 16, 32)
				if err != nil {
					continue
				}
				var ps [][]c13Op
				bad := false
				for _, p := range strings.Split(fs[2], "|") {
					var prog []c13Op
					for _, o := range strings.Split(p, ",") {
						if o == "-" {
							continue
						}
						kv := strings.SplitN(o, ":", 2)
						if len(kv) != 2 {
							bad = true
							continue
						}
						v, err := strconv.ParseUint(kv[1], 16, 32)
						if err != nil || (kv[0] == "tu" && !hasTU) || (kv[0] == "ts" && !hasTS) {
							bad = true
						}
						prog = append(prog, c13Op{kv[0], uint32(v)})
					}
					ps = append(ps, prog)
				}
				if bad {
					continue
				}
				var sc []int
				for _, ch := range fs[3] {
					sc = append(sc, int(ch-'0'))
				}
				doConc(c, uint32(init), ps, sc)
				c.Count("corpus:conc")
			}
		}
	})
	inits := []uint32{0, K["stateClosing"] | K["stateChannelUpdated"] | 0x12340000, 0xFFFFFFFF}
	c.Cases("enum2", 1, func(r *Rng, _ int) {
		for _, a := range pool {
			for _, b := range pool {
				for ii, init := range inits {
					if ii > 0 && !c.Thorough() && r.Chance(60) {
						continue
					}
					for bitsN := 0; bitsN < 16; bitsN++ { // all 4-access prefixes over 2 threads
						s := []int{bitsN & 1, bitsN >> 1 & 1, bitsN >> 2 & 1, bitsN >> 3 & 1}
						doConc(c, init, [][]c13Op{{a}, {b}}, s)
					}
				}
			}
		}
	})
	c.Cases("enum3", c.N(150, 3000), func(r *Rng, _ int) {
		// three threads, one or two calls each, a full random prefix of length 6..9
		ps := make([][]c13Op, 3)
		for t := range ps {
			for k := 1 + r.Intn(2); k > 0; k-- {
				ps[t] = append(ps[t], pool[r.Intn(len(pool))])
			}
		}
		s := make([]int, 6+r.Intn(4))
		for j := range s {
			s[j] = r.Intn(3)
		}
		doConc(c, inits[r.Intn(len(inits))], ps, s)
	})
	// C. random programs and schedules
	c.Cases("rand", c.N(1500, 60000), func(r *Rng, _ int) {
		n := 2 + r.Intn(3)
		ps := make([][]c13Op, n)
		tot := 0
		for t := range ps {
			for k := r.Intn(4); k > 0; k-- {
				var o c13Op
				switch x := r.Intn(10); {
				case x < 3:
					o = c13Op{"s", c13Vals[r.Intn(16)]}
				case x < 6:
					o = c13Op{"u", c13Vals[r.Intn(16)]}
				case x < 8:
					o = c13Op{"l", c13Hi(r)}
				case x == 8 && hasTU:
					o = c13Op{"tu", c13Vals[r.Intn(16)]}
				case x == 9 && hasTS:
					o = c13Op{"ts", c13Vals[r.Intn(16)]}
				default:
					o = c13Op{"s", c13Vals[r.Intn(16)] | c13Vals[r.Intn(16)]}
				}
				ps[t] = append(ps[t], o)
				tot++
			}
		}
		s := make([]int, r.Intn(2*tot+3))
		mode := r.Intn(3)
		for j := range s {
			switch mode {
			case 0:
				s[j] = r.Intn(n)
			case 1:
				s[j] = j % n // lock step: every thread loads before any writes
			default:
				s[j] = (j / 2) % n
			}
		}
		doConc(c, uint32(r.U64()), ps, s)
	})

	// D. several goroutines poll ChannelCanStop while one notice is pending (channelRead and
	// channelWrite do exactly this): the notice must be taken by exactly one of them.
	c.Cases("notice", c.N(300, 6000), func(r *Rng, i int) {
		n := 2 + r.Intn(2)
		other := uint32(r.U64()) &^ (closedBit | K["stateClosing"] | K["stateChannelValue"]) & 0xFFFF
		init := other | K["stateChannel"] | K["stateChannelUpdated"] | c13Hi(r)<<16
		w := new(uint32)
		*w = init
		res := make([]uint32, n)
		th := make([]func(), n)
		for t := range th {
			t := t
			th[t] = func() { res[t] = c2.VerifC13Call(w, "canStop", 0) }
		}
		var s []int
		switch {
		case i < 8: // blocks of i+1 accesses, round robin
			for j := 0; j < 40; j++ {
				s = append(s, (j/(i+1))%n)
			}
		default:
			s = make([]int, r.Intn(30))
			for j := range s {
				s[j] = r.Intn(n)
			}
		}
		ex, sc, ok := c2.VerifC13Run(w, th, s, 4096)
		input := map[string]interface{}{"init": h32(init), "threads": n, "call": "ChannelCanStop", "schedule": schedTok(ex)}
		if len(sc.Panics) > 0 || !ok {
			c.Fail("panic", "panic:ChannelCanStop", fmt.Sprint(sc.Panics, ok), input)
			return
		}
		wins := 0
		for _, v := range res {
			wins += int(v)
		}
		final := atomic.LoadUint32(w)
		if wins > 1 {
			c.Fail("notice", "notice-consumed-twice:ChannelCanStop", fmt.Sprintf("%d of %d concurrent ChannelCanStop calls took the one pending notice (all returned stop)", wins, n), input)
		} else if wins == 0 {
			c.Fail("notice", "notice-lost:ChannelCanStop", "no ChannelCanStop call saw the pending notice", input)
		}
		if final != init&^K["stateChannelUpdated"] {
			c.Fail("notice", "notice-corrupts-word", fmt.Sprintf("word %#x -> %#x, want only the notice bit cleared", init, final), input)
		}
		c.Count(fmt.Sprintf("notice:threads=%d", n))
		c.Eval(true, fmt.Sprint(input))
	})

	// D2. access-level replay of every method (predicates with several loads, SetChannel, Tag,
	// ChannelCanStop next to the mutators) against the Lean access-level model (`acc` op).
	type acall struct {
		tok, real string
		arg       uint32
	}
	simpleNames := []string{"Seen", "Moving", "Closed", "Channel", "Replacing", "ShutdownWait", "ChannelValue", "ChannelProxy", "ChannelUpdated"}
	domNames := []string{"Closing", "Shutdown", "RecvClosed", "SendClosed", "WakeClosed"}
	genCall := func(r *Rng) acall {
		switch x := r.Intn(20); {
		case x < 3:
			v := c13Vals[r.Intn(16)]
			return acall{"s:" + h32(v), "set", v}
		case x < 6:
			v := c13Vals[r.Intn(16)]
			return acall{"u:" + h32(v), "unset", v}
		case x == 6:
			v := c13Hi(r)
			return acall{"l:" + h32(v), "setLast", v}
		case x == 7:
			return acall{"last", "last", 0}
		case x == 8:
			n := simpleNames[r.Intn(len(simpleNames))]
			return acall{"f:" + h32(K[simple[n]]), n, 0}
		case x == 9:
			n := domNames[r.Intn(len(domNames))]
			return acall{"d:" + h32(K[domTrue[n]]), n, 0}
		case x == 10:
			return acall{"ready", "ready", 0}
		case x == 11:
			return acall{"canrecv", "canRecv", 0}
		case x == 12:
			return acall{"start", "canStart", 0}
		case x < 16:
			return acall{"stop", "canStop", 0}
		case x < 18:
			e := uint32(r.Intn(2))
			return acall{"sc:" + h32(e), "setChannel", e}
		case x == 18:
			return acall{"tag", "tag", 0}
		}
		v := K["stateClosed"]
		return acall{"s:" + h32(v), "set", v}
	}
	c.Cases("acc", c.N(1500, 40000), func(r *Rng, _ int) {
		if !hasTU {
			return // the access-level model is of the repaired ChannelCanStop
		}
		n := 1 + r.Intn(3)
		ps := make([][]acall, n)
		tot := 0
		toks := make([]string, n)
		for t := range ps {
			var tk []string
			for k := r.Intn(4); k > 0; k-- {
				a := genCall(r)
				ps[t] = append(ps[t], a)
				tk = append(tk, a.tok)
				tot++
			}
			toks[t] = strings.Join(tk, ",")
			if len(tk) == 0 {
				toks[t] = "-"
			}
		}
		init := uint32(r.U64())
		if r.Chance(60) {
			init &^= K["stateClosed"]
		}
		if r.Chance(40) {
			init |= K["stateChannel"]
			init &^= K["stateClosing"]
		}
		w := new(uint32)
		*w = init
		rets := make([][]uint32, n)
		th := make([]func(), n)
		for t := range ps {
			t := t
			th[t] = func() {
				for _, a := range ps[t] {
					rets[t] = append(rets[t], c2.VerifC13Call(w, a.real, a.arg))
				}
			}
		}
		s := make([]int, r.Intn(5*tot+3))
		mode := r.Intn(3)
		for j := range s {
			switch mode {
			case 0:
				s[j] = r.Intn(n)
			case 1:
				s[j] = j % n
			default:
				s[j] = (j / (1 + r.Intn(3))) % n
			}
		}
		ex, sc, ok := c2.VerifC13Run(w, th, s, 4096)
		input := map[string]interface{}{"init": h32(init), "programs": strings.Join(toks, "|"), "schedule": schedTok(ex)}
		if len(sc.Panics) > 0 || !ok {
			c.Fail("panic", "panic:state", fmt.Sprint(sc.Panics, ok), input)
			return
		}
		rs := make([]string, n)
		for t := range rets {
			if len(rets[t]) == 0 {
				rs[t] = "-"
				continue
			}
			x := make([]string, len(rets[t]))
			for j := range x {
				x[j] = h32(rets[t][j])
			}
			rs[t] = strings.Join(x, ",")
		}
		c.Op(fmt.Sprintf("acc %s %s %s", h32(init), strings.Join(toks, "|"), schedTok(ex)),
			fmt.Sprintf("mem=%s rets=%s casfail=%d", h32(atomic.LoadUint32(w)), strings.Join(rs, "|"), sc.CASFail))
		// oracle: a closed word stays closed and every dominated predicate evaluated on it says so
		if init&closedBit != 0 {
			noUnclose := true
			for _, p := range ps {
				for _, a := range p {
					if a.real == "unset" && a.arg&closedBit != 0 {
						noUnclose = false
					}
				}
			}
			if noUnclose {
				for t, p := range ps {
					for j, a := range p {
						var want uint32 = 2
						switch a.real {
						case "ready", "canRecv", "canStart":
							want = 0
						case "canStop", "Closing", "Shutdown", "RecvClosed", "SendClosed", "WakeClosed", "Closed":
							want = 1
						}
						if want != 2 && rets[t][j] != want {
							c.Fail("truth-table", "closed-dominates-concurrent:"+a.real, fmt.Sprintf("%s returned %d on a word that was closed throughout", a.real, rets[t][j]), input)
						}
					}
				}
				if atomic.LoadUint32(w)&closedBit == 0 {
					c.Fail("truth-table", "closed-bit-lost", "the closed flag disappeared although no call clears it", input)
				}
			}
		}
		c.Count(fmt.Sprintf("acc:threads=%d", n))
		c.Eval(len(ex) > 2, fmt.Sprint(input))
	})

	runC13S3(c, K, hasTU, hasTS) // round s3: multi-access methods under interleavings, real-time order (c13_s3.go)
	// E. free-running stress (supporting test): 15 goroutines own one flag bit each, one owns last.
	c.Cases("stress", c.N(1, 3), func(r *Rng, _ int) {
		iters := c.N(30000, 1500000)
		w := new(uint32)
		var wg sync.WaitGroup
		var lostSet, lostUnset, lostLast int64
		old := runtime.GOMAXPROCS(0)
		if old < 4 {
			runtime.GOMAXPROCS(4)
			defer runtime.GOMAXPROCS(old)
		}
		for g := 0; g < 16; g++ {
			wg.Add(1)
			go func(g int) {
				defer wg.Done()
				bit := uint32(1) << g
				for j := 0; j < iters; j++ {
					if g == 15 {
						v := uint32(j) & 0xFFFF
						c2.VerifC13Call(w, "setLast", v)
						if c2.VerifC13Call(w, "last", 0) != v {
							atomic.AddInt64(&lostLast, 1)
						}
						continue
					}
					c2.VerifC13Call(w, "set", bit)
					if atomic.LoadUint32(w)&bit == 0 {
						atomic.AddInt64(&lostSet, 1)
					}
					c2.VerifC13Call(w, "unset", bit)
					if atomic.LoadUint32(w)&bit != 0 {
						atomic.AddInt64(&lostUnset, 1)
					}
				}
				if g != 15 {
					c2.VerifC13Call(w, "set", bit)
				}
			}(g)
		}
		wg.Wait()
		final := atomic.LoadUint32(w)
		input := map[string]interface{}{"goroutines": 16, "iterations": iters, "gomaxprocs": runtime.GOMAXPROCS(0)}
		if lostSet+lostUnset+lostLast > 0 || final&0x7FFF != 0x7FFF {
			c.Fail("lost-update", "lost-update:stress", fmt.Sprintf("free-running: %d lost Set, %d lost Unset, %d lost SetLast, final word %#x", lostSet, lostUnset, lostLast, final), input)
		}
		c.Count("stress:runs")
		c.Eval(true, fmt.Sprint("stress", iters))
	})
}

func init() {
	register("C13", runC13)
	factProviders = append(factProviders, c13Facts)
}
