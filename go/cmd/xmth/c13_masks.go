package main

import (
	"fmt"
	"go/ast"
	"go/parser"
	"go/token"
	"path/filepath"
	"sort"
	"strings"

	"github.com/iDigitalFlame/xmt/c2"
)

// Fact c13FuncMasks (session 3): for every function of package c2 OUTSIDE state.go that changes
// flags of a state word (calls Set / trySet / stateSet resp. Unset / tryUnset / stateUnset on a field
// named `state`, with a mask built from the state* constants), the union of the bits it may set and
// the union of the bits it may clear, as numbers (constants from the compiled package). Which
// component may touch which flag is part of "flags are never lost or corrupted": a function that
// starts clearing a flag another component owns loses that component's update although every single
// operation is atomic. The unions are compared with the reviewed table XMT/StateOwners.lean by
// `decide` (Props.C13.flag_masks_as_reviewed); folding several calls into one with the same bits, or
// reordering them, changes nothing here.
func init() {
	factProviders = append(factProviders, func(f *factSet, repo string) error {
		names, vals := c2.VerifC13Consts()
		cv := map[string]uint64{}
		for i := range names {
			cv[names[i]] = uint64(vals[i])
		}
		var eval func(e ast.Expr) (uint64, bool)
		eval = func(e ast.Expr) (uint64, bool) {
			switch x := e.(type) {
			case *ast.ParenExpr:
				return eval(x.X)
			case *ast.Ident:
				v, ok := cv[x.Name]
				return v, ok
			case *ast.BinaryExpr:
				if x.Op == token.OR {
					a, ok1 := eval(x.X)
					b, ok2 := eval(x.Y)
					return a | b, ok1 && ok2
				}
			}
			return 0, false
		}
		type ent struct{ set, unset uint64 }
		tab := map[string]*ent{}
		var valueRecv []string
		fs := token.NewFileSet()
		files, _ := filepath.Glob(repo + "/c2/*.go")
		sort.Strings(files)
		for _, fn := range files {
			base := filepath.Base(fn)
			if strings.HasSuffix(fn, "_test.go") || strings.Contains(base, "zz_verif") || base == "state.go" {
				continue
			}
			af, err := parser.ParseFile(fs, fn, nil, 0)
			if err != nil {
				return err
			}
			for _, d := range af.Decls {
				fd, ok := d.(*ast.FuncDecl)
				if !ok || fd.Body == nil {
					continue
				}
				name := fd.Name.Name
				recvName, recvPtr := "", true
				if fd.Recv != nil && len(fd.Recv.List) == 1 {
					t := fd.Recv.List[0].Type
					if len(fd.Recv.List[0].Names) == 1 {
						recvName = fd.Recv.List[0].Names[0].Name
					}
					if st, ok := t.(*ast.StarExpr); ok {
						t = st.X
					} else {
						recvPtr = false
					}
					if id, ok := t.(*ast.Ident); ok {
						name = id.Name + "." + name
					}
				}
				ast.Inspect(fd.Body, func(n ast.Node) bool {
					x, ok := n.(*ast.CallExpr)
					if !ok || len(x.Args) != 1 {
						return true
					}
					se, ok := x.Fun.(*ast.SelectorExpr)
					if !ok {
						return true
					}
					m := se.Sel.Name
					isSet := m == "Set" || m == "trySet" || m == "stateSet"
					isUnset := m == "Unset" || m == "tryUnset" || m == "stateUnset"
					if !isSet && !isUnset {
						return true
					}
					on := m == "stateSet" || m == "stateUnset"
					if r, ok := se.X.(*ast.SelectorExpr); ok && r.Sel.Name == "state" {
						on = true
					}
					if !on {
						return true
					}
					// a method with a VALUE receiver that changes flags through that receiver changes a copy:
					// the update is lost for everyone else (the forwarders stateSet/stateUnset included)
					if r, ok := se.X.(*ast.SelectorExpr); ok && !recvPtr && recvName != "" {
						if id, ok := r.X.(*ast.Ident); ok && id.Name == recvName {
							valueRecv = append(valueRecv, fmt.Sprintf("%q", name))
						}
					}
					v, ok := eval(x.Args[0])
					if !ok {
						return true // a parameter passed on (the forwarders) or a computed mask: fact c13NonConstantFlagMasks covers these
					}
					e := tab[name]
					if e == nil {
						e = &ent{}
						tab[name] = e
					}
					if isSet {
						e.set |= v
					} else {
						e.unset |= v
					}
					return true
				})
			}
		}
		f.Raw("c13ValueReceiverMutators", "List String", "["+strings.Join(valueRecv, ", ")+"]")
		var ks []string
		for k := range tab {
			ks = append(ks, k)
		}
		sort.Strings(ks)
		var rows []string
		for _, k := range ks {
			rows = append(rows, fmt.Sprintf("(%q, %d, %d)", k, tab[k].set, tab[k].unset))
		}
		f.Raw("c13FuncMasks", "List (String × Nat × Nat)", "["+strings.Join(rows, ", ")+"]")
		return nil
	})
}
