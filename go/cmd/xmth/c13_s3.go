package main

// C13, extension round s3: the multi-access methods of c2/state.go under interleavings and
// real-time order.
//
// Facts:
//   c13AccessLists  for EVERY method of *state in c2/state.go (sorted by name) the flattened sequence
//                   of shared-memory accesses in source order, calls of other *state methods on the
//                   receiver inlined: 1=atomic.LoadUint32 2=atomic.StoreUint32 3=atomic.CompareAndSwapUint32
//                   4="for {" 5="}" 6=any other atomic.* call.  Tied by `decide` to the table
//                   XMT.StateAccShape.accessLists, against which the access programs of XMT.StateAcc are
//                   proved (every solo trace of a model method is a sublist of its row, rows are covered).
// Groups:
//   s3wit  the four witness schedules (Props/C13: setChannel_not_linearizable,
//          setChannel_off_no_linearization_point - open findings; orig_tag_not_linearizable,
//          orig_ready_not_linearizable - repaired: on the current code these two schedules must now give a
//          sequential outcome, repaired_tag_same_schedule / repaired_ready_same_schedule) replayed on
//          the real code under the cooperative scheduler; model-compared (`acc`, `lin`); the real
//          outcome is checked against every sequential order run on the real code -> known findings.
//   s3lin  random programs over ALL methods under random schedules: model-compared verdict of
//          call-level linearizability (`lin`: Lean's seqOutcomes vs sequential runs of the real code);
//          oracles that hold for all schedules (theorems acc_*): a flag no call can clear / set keeps
//          its value at the end, closed stays, calls on a closed word answer as closed.
//   s3rt   mutator programs: the position of every call's last access (`rt` op, model-compared with the
//          ghost clocks of XMT.StateRT) and a brute-force search on the real code for a sequential
//          order that keeps program order AND real-time order (A returned before B was entered).

import (
	"fmt"
	"go/ast"
	"go/parser"
	"go/token"
	"sort"
	"strconv"
	"strings"
	"sync/atomic"

	"github.com/iDigitalFlame/xmt/c2"
)

// ---- facts ------------------------------------------------------------------------------------

func c13S3Facts(f *factSet, repo string) error {
	fs := token.NewFileSet()
	file, err := parser.ParseFile(fs, repo+"/c2/state.go", nil, 0)
	if err != nil {
		return err
	}
	decls := map[string]*ast.FuncDecl{}
	recvOf := map[string]string{}
	for _, d := range file.Decls {
		fd, ok := d.(*ast.FuncDecl)
		if !ok || fd.Recv == nil || fd.Body == nil || len(fd.Recv.List) != 1 {
			continue
		}
		st, ok := fd.Recv.List[0].Type.(*ast.StarExpr)
		if !ok {
			continue
		}
		if id, ok := st.X.(*ast.Ident); !ok || id.Name != "state" {
			continue
		}
		decls[fd.Name.Name] = fd
		if len(fd.Recv.List[0].Names) == 1 {
			recvOf[fd.Name.Name] = fd.Recv.List[0].Names[0].Name
		}
	}
	var flat func(name string, depth int) []int
	flat = func(name string, depth int) []int {
		fd := decls[name]
		if fd == nil || depth > 6 {
			return []int{7} // unknown callee / recursion: never equal to a model row
		}
		recv := recvOf[name]
		var toks []int
		var stack []ast.Node
		ast.Inspect(fd.Body, func(n ast.Node) bool {
			if n == nil {
				top := stack[len(stack)-1]
				stack = stack[:len(stack)-1]
				if _, ok := top.(*ast.ForStmt); ok {
					toks = append(toks, 5)
				}
				return true
			}
			stack = append(stack, n)
			switch x := n.(type) {
			case *ast.ForStmt:
				toks = append(toks, 4)
			case *ast.CallExpr:
				if se, ok := x.Fun.(*ast.SelectorExpr); ok {
					if id, ok := se.X.(*ast.Ident); ok {
						if id.Name == "atomic" {
							switch se.Sel.Name {
							case "LoadUint32":
								toks = append(toks, 1)
							case "StoreUint32":
								toks = append(toks, 2)
							case "CompareAndSwapUint32":
								toks = append(toks, 3)
							default:
								toks = append(toks, 6)
							}
						} else if id.Name == recv && recv != "" {
							toks = append(toks, flat(se.Sel.Name, depth+1)...)
						}
					}
				}
			}
			return true
		})
		return toks
	}
	var names []string
	for n := range decls {
		names = append(names, n)
	}
	sort.Strings(names)
	var rows []string
	for _, n := range names {
		t := flat(n, 0)
		s := make([]string, len(t))
		for i := range t {
			s[i] = strconv.Itoa(t[i])
		}
		rows = append(rows, fmt.Sprintf("(%s, [%s])", strconv.Quote(n), strings.Join(s, ", ")))
	}
	f.Raw("c13AccessLists", "List (String × List Nat)", "["+strings.Join(rows, ", ")+"]")
	return nil
}

// ---- all-method programs -------------------------------------------------------------------------

type c13ACall struct {
	tok, real string
	arg       uint32
}

func c13ATok(ps [][]c13ACall) string {
	toks := make([]string, len(ps))
	for t, p := range ps {
		if len(p) == 0 {
			toks[t] = "-"
			continue
		}
		tk := make([]string, len(p))
		for j := range p {
			tk[j] = p[j].tok
		}
		toks[t] = strings.Join(tk, ",")
	}
	return strings.Join(toks, "|")
}

func c13ARets(rets [][]uint32) string {
	rs := make([]string, len(rets))
	for t := range rets {
		if len(rets[t]) == 0 {
			rs[t] = "-"
			continue
		}
		x := make([]string, len(rets[t]))
		for j := range x {
			x[j] = h32(rets[t][j])
		}
		rs[t] = strings.Join(x, ",")
	}
	return strings.Join(rs, "|")
}

// runAcc executes the programs on the real code under the schedule.
func c13RunAcc(init uint32, ps [][]c13ACall, sched []int) (final uint32, rets [][]uint32, ex []int, sc *c2.VerifC13Sched, ok bool) {
	w := new(uint32)
	*w = init
	rets = make([][]uint32, len(ps))
	th := make([]func(), len(ps))
	for t := range ps {
		t := t
		th[t] = func() {
			for _, a := range ps[t] {
				rets[t] = append(rets[t], c2.VerifC13Call(w, a.real, a.arg))
			}
		}
	}
	ex, sc, ok = c2.VerifC13Run(w, th, sched, 4096)
	return atomic.LoadUint32(w), rets, ex, sc, ok
}

// every sequential order of the calls (program order kept; optionally a precedence relation
// before[a][b]: call a must come before call b, calls numbered thread-major), run on the real code.
func c13SeqOutcomesA(init uint32, ps [][]c13ACall, before func(ta, ia, tb, ib int) bool, limit int) (map[string]bool, bool) {
	out := map[string]bool{}
	idx := make([]int, len(ps))
	rets := make([][]uint32, len(ps))
	n := 0
	var rec func(w uint32) bool
	rec = func(w uint32) bool {
		fin := true
		for t := range ps {
			if idx[t] >= len(ps[t]) {
				continue
			}
			fin = false
			// real-time precedence: every call that must precede (t, idx[t]) has been executed
			if before != nil {
				blocked := false
				for u := range ps {
					for j := idx[u]; j < len(ps[u]) && !blocked; j++ {
						if u != t && before(u, j, t, idx[t]) {
							blocked = true
						}
					}
				}
				if blocked {
					continue
				}
			}
			a := ps[t][idx[t]]
			nw, r := c13On(w, a.real, a.arg)
			idx[t]++
			rets[t] = append(rets[t], r)
			ok := rec(nw)
			rets[t] = rets[t][:len(rets[t])-1]
			idx[t]--
			if !ok {
				return false
			}
		}
		if fin {
			n++
			if n > limit {
				return false
			}
			out[h32(w)+" "+c13ARets(rets)] = true
		}
		return true
	}
	ok := rec(init)
	return out, ok
}

func runC13S3(c *Ctx, K map[string]uint32, hasTU, hasTS bool) {
	if !hasTU {
		return // the access-level model is of the repaired ChannelCanStop
	}
	simple := map[string]string{"Seen": "stateSeen", "Moving": "stateMoving", "Closed": "stateClosed", "Channel": "stateChannel",
		"Replacing": "stateReplacing", "ShutdownWait": "stateShutdownWait", "ChannelValue": "stateChannelValue",
		"ChannelProxy": "stateChannelProxy", "ChannelUpdated": "stateChannelUpdated"}
	domTrue := map[string]string{"Closing": "stateClosing", "Shutdown": "stateShutdown", "RecvClosed": "stateRecvClose",
		"SendClosed": "stateSendClose", "WakeClosed": "stateWakeClose"}
	simpleNames := []string{"Seen", "Moving", "Closed", "Channel", "Replacing", "ShutdownWait", "ChannelValue", "ChannelProxy", "ChannelUpdated"}
	domNames := []string{"Closing", "Shutdown", "RecvClosed", "SendClosed", "WakeClosed"}
	set := func(v uint32) c13ACall { return c13ACall{"s:" + h32(v), "set", v} }
	unset := func(v uint32) c13ACall { return c13ACall{"u:" + h32(v), "unset", v} }
	scOn, scOff := c13ACall{"sc:1", "setChannel", 1}, c13ACall{"sc:0", "setChannel", 0}
	tag, ready := c13ACall{"tag", "tag", 0}, c13ACall{"ready", "ready", 0}
	closedBit := K["stateClosed"]

	// one execution: model-compared `acc` + `lin` lines, verdict of call-level linearizability on the real code
	type res struct {
		final uint32
		rets  [][]uint32
		lin   bool
		ok    bool
		input map[string]interface{}
	}
	exec := func(init uint32, ps [][]c13ACall, sched []int) res {
		final, rets, ex, sc, ok := c13RunAcc(init, ps, sched)
		input := map[string]interface{}{"init": h32(init), "programs": c13ATok(ps), "schedule": schedTok(ex)}
		if len(sc.Panics) > 0 || !ok {
			c.Fail("panic", "panic:state", fmt.Sprint(sc.Panics, ok), input)
			return res{input: input}
		}
		c.Op(fmt.Sprintf("acc %s %s %s", h32(init), c13ATok(ps), schedTok(ex)),
			fmt.Sprintf("mem=%s rets=%s casfail=%d", h32(final), c13ARets(rets), sc.CASFail))
		outs, full := c13SeqOutcomesA(init, ps, nil, 5000)
		if !full {
			return res{final: final, rets: rets, lin: true, input: input}
		}
		lin := outs[h32(final)+" "+c13ARets(rets)]
		c.Op(fmt.Sprintf("lin %s %s %s", h32(init), c13ATok(ps), schedTok(ex)), fmt.Sprintf("lin=%d outcomes=%d", map[bool]int{false: 0, true: 1}[lin], len(outs)))
		return res{final, rets, lin, true, input}
	}

	// A. the witness schedules of the proved negations
	type wit struct {
		key   string
		init  uint32
		ps    [][]c13ACall
		sched []int
		what  string
	}
	wits := []wit{
		{"not-linearizable:SetChannel:both-report-changed", 0, [][]c13ACall{{scOn}, {scOn}}, []int{0, 1, 0, 0, 0, 0, 1, 1, 1, 1},
			"two concurrent SetChannel(true) both report a change (sequentially the second meets the standing request)"},
		{"not-linearizable:SetChannel:off-straddles", K["stateChannelValue"],
			[][]c13ACall{{scOff}, {set(K["stateChannel"] | K["stateChannelProxy"]), unset(K["stateChannelValue"])}}, []int{0, 1, 1, 1, 1, 0},
			"SetChannel(false) reports 'nothing to cancel' and raises no notice although the request differed from the standing one at every moment (three loads at three moments)"},
		{"not-linearizable:Tag:both-report-seen", K["stateSeen"], [][]c13ACall{{tag}, {tag}}, []int{0, 1, 0, 0, 1, 1},
			"two concurrent Tag() both report the one seen mark"},
		{"not-linearizable:Ready:straddles-close", 0, [][]c13ACall{{ready}, {set(K["stateClosed"]), set(K["stateReady"])}}, []int{0, 1, 1, 1, 1, 0},
			"Ready() returns true after the session was closed: its two loads straddle Set(closed); Set(ready) - the word was never ready and not closed"},
	}
	c.Cases("s3wit", 1, func(r *Rng, _ int) {
		for _, w := range wits {
			x := exec(w.init, w.ps, w.sched)
			if !x.ok {
				continue
			}
			if !x.lin {
				c.Fail("linearizable", w.key, fmt.Sprintf("%s: final word %#x, results %s equal no sequential order of the calls run on the real code", w.what, x.final, c13ARets(x.rets)), x.input)
			}
			c.Count("s3wit:replayed")
			c.Eval(true, fmt.Sprint(x.input))
		}
	})

	// B. random programs over all methods
	genCall := func(r *Rng) c13ACall {
		switch x := r.Intn(20); {
		case x < 3:
			return set(c13Vals[r.Intn(16)])
		case x < 6:
			return unset(c13Vals[r.Intn(16)])
		case x == 6:
			v := c13Hi(r)
			return c13ACall{"l:" + h32(v), "setLast", v}
		case x == 7:
			return c13ACall{"last", "last", 0}
		case x == 8:
			n := simpleNames[r.Intn(len(simpleNames))]
			return c13ACall{"f:" + h32(K[simple[n]]), n, 0}
		case x == 9:
			n := domNames[r.Intn(len(domNames))]
			return c13ACall{"d:" + h32(K[domTrue[n]]), n, 0}
		case x == 10:
			return ready
		case x == 11:
			return c13ACall{"canrecv", "canRecv", 0}
		case x == 12:
			return c13ACall{"start", "canStart", 0}
		case x < 15:
			return c13ACall{"stop", "canStop", 0}
		case x < 18:
			if r.Chance(50) {
				return scOn
			}
			return scOff
		case x == 18:
			return tag
		}
		return set(K["stateSeen"])
	}
	// which flag bits a call may set / clear (the rows of XMT.StateAccInv.Call.prims)
	may := func(a c13ACall) (sets, clears uint32) {
		switch a.real {
		case "set":
			return a.arg, 0
		case "unset":
			return 0, a.arg
		case "setChannel":
			if a.arg != 0 {
				return K["stateChannelValue"] | K["stateChannelUpdated"], 0
			}
			return K["stateChannelUpdated"], K["stateChannelValue"]
		case "canStop":
			return 0, K["stateChannelUpdated"]
		case "tag":
			return 0, K["stateSeen"]
		}
		return 0, 0
	}
	c.Cases("s3lin", c.N(700, 20000), func(r *Rng, _ int) {
		n := 1 + r.Intn(3)
		ps := make([][]c13ACall, n)
		tot := 0
		for t := range ps {
			for k := r.Intn(3); k > 0 && tot < 6; k-- {
				ps[t] = append(ps[t], genCall(r))
				tot++
			}
		}
		init := uint32(r.U64())
		if r.Chance(60) {
			init &^= closedBit
		}
		if r.Chance(40) {
			init |= K["stateChannel"]
			init &^= K["stateClosing"]
		}
		s := make([]int, r.Intn(5*tot+3))
		mode := r.Intn(3)
		for j := range s {
			switch mode {
			case 0:
				s[j] = r.Intn(n)
			case 1:
				s[j] = j % n
			default:
				s[j] = (j / (1 + r.Intn(3))) % n
			}
		}
		x := exec(init, ps, s)
		if !x.ok {
			return
		}
		if !x.lin {
			c.Count("s3lin:not-linearizable-as-calls")
		}
		// no update of another flag is lost, whatever multi-access calls run next to it
		var sets, clears, surely uint32
		lastW := false
		for _, p := range ps {
			for _, a := range p {
				s1, c1 := may(a)
				sets |= s1
				clears |= c1
				if a.real == "set" {
					surely |= a.arg
				}
				if a.real == "setLast" {
					lastW = true
				}
			}
		}
		for k := 0; k < 16; k++ {
			b := uint32(1) << k
			switch {
			case clears&b == 0 && (init&b != 0 || surely&b != 0) && x.final&b == 0:
				c.Fail("lost-update", "lost-update:all-methods:set", fmt.Sprintf("flag bit %d must be set at the end (no call can clear it) but the final word is %#x", k, x.final), x.input)
			case sets&b == 0 && init&b == 0 && x.final&b != 0:
				c.Fail("lost-update", "lost-update:all-methods:stray-bit", fmt.Sprintf("flag bit %d was clear and no call can set it, final word %#x", k, x.final), x.input)
			}
		}
		if !lastW && x.final>>16 != init>>16 {
			c.Fail("independence", "flags-alter-last:all-methods", fmt.Sprintf("no SetLast was issued but last changed %#x -> %#x", init>>16, x.final>>16), x.input)
		}
		// closed from the start and never cleared: every call answers as closed
		if init&closedBit != 0 && clears&closedBit == 0 {
			for t, p := range ps {
				for j, a := range p {
					var want uint32 = 2
					switch a.real {
					case "ready", "canRecv", "canStart":
						want = 0
					case "canStop", "Closing", "Shutdown", "RecvClosed", "SendClosed", "WakeClosed", "Closed":
						want = 1
					}
					if want != 2 && x.rets[t][j] != want {
						c.Fail("truth-table", "closed-dominates-concurrent:"+a.real, fmt.Sprintf("%s returned %d on a word that was closed throughout", a.real, x.rets[t][j]), x.input)
					}
				}
			}
		}
		c.Count(fmt.Sprintf("s3lin:threads=%d", n))
		c.Eval(len(s) > 2, fmt.Sprint(x.input))
	})

	// C. real-time order of the mutators
	c.Cases("s3rt", c.N(500, 20000), func(r *Rng, _ int) {
		n := 2 + r.Intn(2)
		ps := make([][]c13Op, n)
		tot := 0
		for t := range ps {
			for k := 1 + r.Intn(3); k > 0 && tot < 6; k-- {
				var o c13Op
				switch x := r.Intn(10); {
				case x < 3:
					o = c13Op{"s", c13Vals[r.Intn(4)]}
				case x < 6:
					o = c13Op{"u", c13Vals[r.Intn(4)]}
				case x < 8:
					o = c13Op{"l", uint32(r.Intn(3))}
				case x == 8:
					o = c13Op{"tu", c13Vals[r.Intn(4)]}
				case x == 9 && hasTS:
					o = c13Op{"ts", c13Vals[r.Intn(4)]}
				default:
					o = c13Op{"s", c13Vals[r.Intn(4)] | c13Vals[r.Intn(4)]}
				}
				ps[t] = append(ps[t], o)
				tot++
			}
		}
		init := uint32(r.Intn(16)) | uint32(r.Intn(3))<<16
		w := new(uint32)
		*w = init
		rets := make([][]uint32, n)
		ent := make([][]int, n) // accesses performed when the call was entered
		fin := make([][]int, n) // position of the call's last access
		th := make([]func(), n)
		for t := range ps {
			t := t
			th[t] = func() {
				for _, o := range ps[t] {
					ent[t] = append(ent[t], c13S3Count())
					rets[t] = append(rets[t], c2.VerifC13Call(w, o.real(), o.v))
					fin[t] = append(fin[t], c13S3Count()-1)
				}
			}
		}
		s := make([]int, r.Intn(3*tot+3))
		for j := range s {
			if r.Chance(70) && j > 0 {
				s[j] = s[j-1]
			} else {
				s[j] = r.Intn(n)
			}
		}
		c13S3Sched.Store(nil)
		ex, sc, ok := c13S3Run(w, th, s)
		input := map[string]interface{}{"init": h32(init), "programs": progsTok(ps), "schedule": schedTok(ex)}
		if len(sc.Panics) > 0 || !ok {
			c.Fail("panic", "panic:state", fmt.Sprint(sc.Panics, ok), input)
			return
		}
		final := atomic.LoadUint32(w)
		// schedule position of the g-th performed access (entries for finished threads are stutters)
		var pos []int
		for i, t := range ex {
			if len(fin[t]) == 0 || fin[t][len(fin[t])-1] < len(pos) {
				continue
			}
			pos = append(pos, i)
		}
		// model-compared: the log of (thread, schedule position of the last access) in the order of effect
		type ev struct{ t, f int }
		var log []ev
		for t := range fin {
			for _, f := range fin[t] {
				if f < 0 || f >= len(pos) {
					c.Fail("harness", "harness:s3rt-positions", fmt.Sprintf("access %d of %d", f, len(pos)), input)
					return
				}
				log = append(log, ev{t, pos[f]})
			}
		}
		sort.Slice(log, func(i, j int) bool { return log[i].f < log[j].f })
		ls := make([]string, len(log))
		for i := range log {
			ls[i] = fmt.Sprintf("%d:%d", log[i].t, log[i].f)
		}
		lg := strings.Join(ls, ",")
		if lg == "" {
			lg = "-"
		}
		c.Op(fmt.Sprintf("rt %s %s %s", h32(init), progsTok(ps), schedTok(ex)), fmt.Sprintf("mem=%s fin=%s", h32(final), lg))
		// oracle: some sequential order that keeps program order and real-time order gives this outcome
		aps := make([][]c13ACall, n)
		for t := range ps {
			for _, o := range ps[t] {
				aps[t] = append(aps[t], c13ACall{o.tok(), o.real(), o.v})
			}
		}
		before := func(ta, ia, tb, ib int) bool { return fin[ta][ia] < ent[tb][ib] }
		outs, full := c13SeqOutcomesA(init, aps, before, 5000)
		if full && !outs[h32(final)+" "+c13ARets(rets)] {
			c.Fail("linearizable", "not-linearizable:realtime", fmt.Sprintf("final word %#x / results %s equal no sequential order that keeps program order and real-time order (%d orders)", final, c13ARets(rets), len(outs)), input)
		}
		npre := 0
		for ta := range ps {
			for ia := range ps[ta] {
				for tb := range ps {
					for ib := range ps[tb] {
						if ta != tb && before(ta, ia, tb, ib) {
							npre++
						}
					}
				}
			}
		}
		if npre > 0 {
			c.Count("s3rt:with-cross-thread-precedence")
		}
		c.Eval(npre > 0, fmt.Sprint(input))
	})
}

// the scheduler of the run in progress (its counters are read by the thread that holds the grant)
var c13S3Sched atomic.Pointer[c2.VerifC13Sched]

func c13S3Count() int {
	sc := c13S3Sched.Load()
	if sc == nil {
		return 0
	}
	return sc.Loads + sc.Stores + sc.CASOk + sc.CASFail
}

// c13S3Run: VerifC13Run with the scheduler published to the threads.  VerifC13Run starts every
// thread up to its first access before it returns the scheduler, so the threads obtain it through
// the in-package accessor.
func c13S3Run(w *uint32, th []func(), sched []int) ([]int, *c2.VerifC13Sched, bool) {
	wrapped := make([]func(), len(th))
	for t := range th {
		t := t
		wrapped[t] = func() {
			c13S3Sched.Store(c2.VerifC13S3Current())
			th[t]()
		}
	}
	return c2.VerifC13Run(w, wrapped, sched, 4096)
}

func init() {
	factProviders = append(factProviders, c13S3Facts)
}
