package main

// C14 — a Job finishes exactly once whether it completes, errors or is cancelled.
//
// Real code under a cooperative scheduler: the rewritten copies of c2/job.go and
// c2/session_no_implant.go (lib/props/C14.json "rewrites") call verifC14Yield at the boundaries of
// the atomic actions of the Lean model (XMT/Job.lean). Every model thread is a goroutine that is
// parked at each yield; the scheduler releases exactly one goroutine at a time following the
// schedule, so the interleaving executed here is the one the model is run on. The direct oracles
// (no panic, released once, status = first finishing event, finished Jobs immutable and out of the
// table, nothing attributed to a foreign Job, Wait never stuck on a finished Job, ids fresh) are
// evaluated on the real objects after every step, independently of the model.

import (
	"fmt"
	"os"
	"os/exec"
	"path/filepath"
	"runtime"
	"sort"
	"strconv"
	"strings"
	"sync"
	"time"

	"github.com/iDigitalFlame/xmt/c2"
	"github.com/iDigitalFlame/xmt/com"
)

func init() {
	register("C14", runC14)
	register("C14stress", runC14StressChild)
}

// ---- programs ---------------------------------------------------------------------------------

type c14Thread struct {
	kind  byte // T R C W D A F
	id    int  // job number (T: 0 = newJobID)
	wf    bool
	draws []uint32
	ef    bool
	tag   int // R: index of the Task thread the result is meant for (>= 900: none)
	dep   int // C W D: index of the Task thread whose Job is used
	mx    int
	cur   int
}

func (t c14Thread) tok() string {
	b := func(x bool) string {
		if x {
			return "1"
		}
		return "0"
	}
	switch t.kind {
	case 'T':
		d := "-"
		if len(t.draws) > 0 {
			s := make([]string, len(t.draws))
			for i, v := range t.draws {
				s[i] = strconv.FormatUint(uint64(v), 10)
			}
			d = strings.Join(s, ".")
		}
		return fmt.Sprintf("T:%d:%s:%s", t.id, b(t.wf), d)
	case 'R':
		return fmt.Sprintf("R:%d:%s:%d", t.id, b(t.ef), t.tag)
	case 'C', 'W', 'D':
		return fmt.Sprintf("%c:%d", t.kind, t.dep)
	case 'A':
		return fmt.Sprintf("A:%d", t.id)
	}
	return fmt.Sprintf("F:%d:%d:%d", t.id, t.mx, t.cur)
}

func c14KindName(k byte) string {
	switch k {
	case 'T':
		return "task"
	case 'R':
		return "handle"
	case 'C':
		return "cancel"
	case 'W':
		return "wait"
	case 'D':
		return "isdone"
	case 'A':
		return "accept"
	}
	return "frag"
}

type c14Entry struct {
	t   int
	lbl string // "" = one action
}

func c14ProgTok(p []c14Thread) string {
	s := make([]string, len(p))
	for i := range p {
		s[i] = p[i].tok()
	}
	return strings.Join(s, ",")
}
func c14ScriptTok(sc []c14Entry) string {
	if len(sc) == 0 {
		return "-"
	}
	s := make([]string, len(sc))
	for i, e := range sc {
		if e.lbl == "" {
			s[i] = strconv.Itoa(e.t)
		} else {
			s[i] = strconv.Itoa(e.t) + "@" + e.lbl
		}
	}
	return strings.Join(s, ",")
}

func c14ParseCase(threads, script string) ([]c14Thread, []c14Entry, error) {
	var prog []c14Thread
	atoi := func(s string) int { v, _ := strconv.Atoi(s); return v }
	for _, tok := range strings.Split(threads, ",") {
		f := strings.Split(tok, ":")
		bad := fmt.Errorf("bad thread %q", tok)
		if len(f) < 2 || len(f[0]) != 1 {
			return nil, nil, bad
		}
		t := c14Thread{kind: f[0][0]}
		switch {
		case t.kind == 'T' && len(f) == 4:
			t.id, t.wf = atoi(f[1]), f[2] == "1"
			if f[3] != "-" {
				for _, d := range strings.Split(f[3], ".") {
					v, _ := strconv.ParseUint(d, 10, 32)
					t.draws = append(t.draws, uint32(v))
				}
			}
		case t.kind == 'R' && len(f) == 4:
			t.id, t.ef, t.tag = atoi(f[1]), f[2] == "1", atoi(f[3])
		case (t.kind == 'C' || t.kind == 'W' || t.kind == 'D') && len(f) == 2:
			t.dep = atoi(f[1])
		case t.kind == 'A' && len(f) == 2:
			t.id = atoi(f[1])
		case t.kind == 'F' && len(f) == 4:
			t.id, t.mx, t.cur = atoi(f[1]), atoi(f[2]), atoi(f[3])
		default:
			return nil, nil, bad
		}
		prog = append(prog, t)
	}
	var sc []c14Entry
	if script != "-" && script != "" {
		for _, tok := range strings.Split(script, ",") {
			f := strings.SplitN(tok, "@", 2)
			e := c14Entry{t: atoi(f[0])}
			if len(f) == 2 {
				e.lbl = f[1]
			}
			sc = append(sc, e)
		}
	}
	return prog, sc, nil
}

// ---- cooperative scheduler --------------------------------------------------------------------

type c14Msg struct {
	t     int
	label string
	done  bool
}

type c14Run struct {
	prog    []c14Thread
	s       *c2.Session
	cur     int
	msgs    chan c14Msg
	resume  []chan struct{}
	label   []string // where thread t is parked ("start" before its first action)
	fin     []bool
	out     []string
	hung    bool
	hungAt  string
	abandon bool
	drawPos []int
	retJob  []*c2.Job // Job returned by Task thread t

	// observation state (direct oracles)
	jobs          []*c2.Job // by order of first sighting in the pending table = creation order
	chans         []chan struct{}
	refOf         map[*c2.Job]int
	creator       []int // Task thread that was running when the Job appeared
	first         []string
	closedB       []bool // closed before the current step
	pub           []uint16
	pkTag         map[*com.Packet]int
	started       []bool
	closedAtStart []bool // D threads: Job closed before the thread's first action
	fails         []c14Fail
}

type c14Fail struct{ kind, key, detail string }

const c14SendCap = 8
const c14StepTimeout = 20 * time.Second

func (r *c14Run) failf(kind, key, f string, a ...interface{}) {
	for _, x := range r.fails {
		if x.key == key {
			return
		}
	}
	r.fails = append(r.fails, c14Fail{kind, key, fmt.Sprintf(f, a...)})
}

func c14PanicClass(v interface{}) string {
	s := fmt.Sprint(v)
	switch {
	case strings.Contains(s, "close of closed channel"):
		return "closed"
	case strings.Contains(s, "close of nil channel"):
		return "nil"
	}
	return "other"
}

// body of one model thread on the real code
func (r *c14Run) body(t int) (out string) {
	th := r.prog[t]
	defer func() {
		if e := recover(); e != nil {
			cl := c14PanicClass(e)
			out = "panic:" + cl
			where := c14KindName(th.kind)
			if cl == "closed" {
				r.failf("panic", "panic:double-close:"+where, "thread %d (%s): %v", t, th.tok(), e)
			} else if cl == "nil" {
				r.failf("panic", "panic:close-nil:"+where, "thread %d (%s): %v", t, th.tok(), e)
			} else {
				r.failf("panic", "panic:"+where, "thread %d (%s): %v", t, th.tok(), e)
			}
		}
	}()
	s := r.s
	switch th.kind {
	case 'T':
		n := &com.Packet{ID: 0xC8, Job: uint16(th.id)}
		j, err := s.Task(n)
		switch {
		case err == nil && j != nil:
			r.retJob[t] = j
			return "job"
		case err == c2.ErrFullBuffer:
			return "ewrite"
		case err != nil && strings.Contains(err.Error(), "already registered"):
			return "edup"
		case err != nil && strings.Contains(err.Error(), "cannot assign"):
			return "enoid"
		}
		return "e?" + fmt.Sprint(err)
	case 'R':
		p := &com.Packet{ID: c2.VerifC14RvResult, Job: uint16(th.id), Device: c2.VerifC14Device(s)}
		if th.ef {
			p.Flags |= com.FlagError
			// the error text a client sends, or what a broken / hostile client sends instead: the Job
			// finishes all the same (the model does not look at the body)
			switch (th.id + t) % 5 {
			case 0, 1:
				p.WriteString("boom")
			case 2: // no body at all
			case 3: // a string header announcing more than follows
				p.Write([]byte{1, 9, 'x', 'y'})
			case 4: // not a string
				p.Write([]byte{0xFF, 0xFF, 3})
			}
		}
		r.pkTag[p] = th.tag
		if c2.VerifC14Handle(s, p) {
			return "h1"
		}
		return "h0"
	case 'C':
		r.retJob[th.dep].Cancel()
		return "ret"
	case 'W':
		r.retJob[th.dep].Wait()
		return "ret"
	case 'D':
		if r.retJob[th.dep].IsDone() {
			return "d1"
		}
		return "d0"
	case 'A':
		c2.VerifC14Accept(s, uint16(th.id))
		return "ret"
	}
	c2.VerifC14Frag(s, uint16(th.id), 0x33, uint16(th.mx), uint16(th.cur))
	return "ret"
}

func c14NewRun(prog []c14Thread) *c14Run {
	n := len(prog)
	r := &c14Run{prog: prog, s: c2.VerifC14NewSession(c14SendCap), msgs: make(chan c14Msg), resume: make([]chan struct{}, n),
		label: make([]string, n), fin: make([]bool, n), out: make([]string, n), drawPos: make([]int, n),
		retJob: make([]*c2.Job, n), refOf: map[*c2.Job]int{}, pkTag: map[*com.Packet]int{}, started: make([]bool, n),
		closedAtStart: make([]bool, n)}
	for t := 0; t < n; t++ {
		r.label[t] = "start"
		r.resume[t] = make(chan struct{})
		go func(t int) {
			<-r.resume[t]
			if r.abandon {
				return
			}
			o := r.body(t)
			r.out[t] = o
			r.msgs <- c14Msg{t: t, done: true}
		}(t)
	}
	c2.VerifC14Install(&c2.VerifC14Hooks{
		Yield: func(label string) {
			t := r.cur
			r.msgs <- c14Msg{t: t, label: label}
			<-r.resume[t]
			if r.abandon {
				runtime.Goexit() // the case is over: parked goroutines (blocked Wait) end here
			}
		},
		Rand: func() uint32 {
			t := r.cur
			d := r.prog[t].draws
			if r.drawPos[t] < len(d) {
				r.drawPos[t]++
				return d[r.drawPos[t]-1]
			}
			return 0
		},
	})
	return r
}

func (r *c14Run) close() {
	c2.VerifC14Install(nil)
	// goroutines still parked (blocked Wait, threads never started) hold no locks: let them exit.
	r.abandon = true
	for t := range r.resume {
		if !r.fin[t] && !(r.hung && t == r.cur) {
			close(r.resume[t])
		}
	}
}

func c14ChanClosed(ch chan struct{}) bool {
	select {
	case <-ch:
		return true
	default:
		return false
	}
}

func (r *c14Run) mapped(t int) string {
	if r.fin[t] {
		return "end"
	}
	if r.label[t] == "Wb" {
		return "W2"
	}
	return r.label[t]
}

// steppable: the thread exists, is not finished and the Task thread it depends on has returned.
func (r *c14Run) steppable(t int) bool {
	if t < 0 || t >= len(r.prog) || r.fin[t] || r.hung {
		return false
	}
	th := r.prog[t]
	if th.kind == 'C' || th.kind == 'W' || th.kind == 'D' {
		if th.dep < 0 || th.dep >= len(r.prog) || !r.fin[th.dep] {
			return false
		}
	}
	return true
}

type c14Snap struct {
	status       uint8
	closed, dnil bool
	tag          int
	err          bool
	frags, cur   uint16
}

func (r *c14Run) snap(i int) c14Snap {
	j := r.jobs[i]
	tag := -1
	if j.Result != nil {
		if g, ok := r.pkTag[j.Result]; ok {
			tag = g
		} else {
			tag = -2
		}
	}
	return c14Snap{status: uint8(j.Status), closed: c14ChanClosed(r.chans[i]), dnil: c2.VerifC14DoneNil(j), tag: tag,
		err: len(j.Error) > 0, frags: j.Frags, cur: j.Current}
}

// step releases thread t for exactly one atomic action and evaluates the per-step oracles.
func (r *c14Run) step(t int) {
	if !r.steppable(t) {
		return
	}
	th := r.prog[t]
	before := make([]c14Snap, len(r.jobs))
	for i := range r.jobs {
		before[i] = r.snap(i)
	}
	if !r.started[t] {
		r.started[t] = true
		if th.kind == 'D' {
			if j := r.retJob[th.dep]; j != nil {
				if i, ok := r.refOf[j]; ok {
					r.closedAtStart[t] = before[i].closed
				}
			}
		}
	}
	if th.kind == 'T' && th.wf {
		c2.VerifC14Fill(r.s, c14SendCap-1)
	}
	tabBefore := c2.VerifC14Table(r.s)
	r.cur = t
	r.resume[t] <- struct{}{}
	select {
	case m := <-r.msgs:
		if m.done {
			r.fin[t] = true
		} else {
			r.label[t] = m.label
		}
	case <-time.After(c14StepTimeout):
		r.hung, r.hungAt = true, r.label[t]
		r.failf("hang", "hang:"+c14KindName(th.kind)+":"+r.label[t], "thread %d (%s) did not reach a yield point within %v after %s", t, th.tok(), c14StepTimeout, r.label[t])
		return
	}
	// a thread that died inside a locked region leaves the session lock held for ever: every
	// later access (ours included) would block, so the case ends here.
	if !c2.VerifC14TryLock(r.s) {
		r.hung, r.hungAt = true, "lock-held"
		r.failf("panic", "lock:held-after-quiescence", "after the step of thread %d (%s, %s) the session lock is held although no thread is running: every later use of the session blocks", t, th.tok(), r.out[t])
		return
	}
	// packets queued by this step
	pubNow := c2.VerifC14Drain(r.s)
	r.pub = append(r.pub, pubNow...)
	// new Jobs in the pending table (creation order)
	tab := c2.VerifC14Table(r.s)
	var ids []int
	for id, j := range tab {
		if j == nil {
			continue
		}
		if _, ok := r.refOf[j]; !ok {
			ids = append(ids, int(id))
		}
	}
	sort.Ints(ids)
	for _, id := range ids {
		j := tab[uint16(id)]
		r.refOf[j] = len(r.jobs)
		r.jobs = append(r.jobs, j)
		ch := c2.VerifC14Done(j)
		if ch == nil {
			ch = make(chan struct{})
			r.failf("task", "task:new-job-without-done", "Job %d appeared in the table with a nil done channel", id)
		}
		r.chans = append(r.chans, ch)
		r.creator = append(r.creator, t)
		r.first = append(r.first, "")
		if th.kind != 'T' {
			r.failf("task", "task:job-created-by-"+c14KindName(th.kind), "a Job appeared during a step of thread %d (%s)", t, th.tok())
		}
		// id freshness (direct): never 0/1 from newJobID, never the number of another unfinished Job
		if th.kind == 'T' && th.id == 0 && j.ID < 2 {
			r.failf("jobid", "jobid:zero-or-one", "newJobID handed out %d", j.ID)
		}
		if v, ok := tabBefore[j.ID]; ok && v != nil && v != j {
			k := r.refOf[v]
			r.failf("jobid", "jobid:collides-with-pending", "Job number %d handed out (thread %d) while Job object #%d with the same number was pending; it is displaced from the table", j.ID, t, k)
		}
	}
	for _, id := range pubNow {
		ok := false
		for _, j := range r.jobs {
			if j.ID == id {
				ok = true
			}
		}
		if !ok {
			r.failf("task", "task:published-before-tracked", "packet for Job %d was queued (thread %d) while no Job with that number is tracked", id, t)
		}
	}
	// per-step oracles over the Jobs known before the step
	for i := range before {
		a, b := before[i], r.snap(i)
		if !a.closed && b.closed {
			ev := "by-" + c14KindName(th.kind)
			switch {
			case th.kind == 'R' && th.ef:
				ev = "error"
			case th.kind == 'R':
				ev = "completed"
			case th.kind == 'C':
				ev = "canceled"
			default:
				r.failf("once", "closed-by:"+c14KindName(th.kind), "Job #%d closed by thread %d (%s)", i, t, th.tok())
			}
			r.first[i] = ev
		}
		if a.closed && !b.closed {
			r.failf("once", "reopened", "Job #%d done channel not closed any more", i)
		}
		changed := ""
		switch {
		case a.status != b.status:
			changed = "status"
		case a.tag != b.tag:
			changed = "result"
		case a.err != b.err:
			changed = "error"
		}
		if a.closed && changed != "" {
			r.failf("status", "finished-job-changed:"+changed+":"+c14KindName(th.kind), "Job #%d (number %d) was finished (%s) and thread %d (%s) changed its %s: %d -> %d", i, r.jobs[i].ID, r.first[i], t, th.tok(), changed, a.status, b.status)
		}
		if a != b && (th.kind == 'R' || th.kind == 'A' || th.kind == 'F') && int(r.jobs[i].ID) != th.id {
			r.failf("foreign", "foreign:other-number:"+c14KindName(th.kind), "thread %d (%s) changed Job #%d with number %d", t, th.tok(), i, r.jobs[i].ID)
		}
		if a != b && (th.kind == 'W' || th.kind == 'D') {
			r.failf("foreign", "foreign:changed-by-"+c14KindName(th.kind), "thread %d (%s) changed Job #%d", t, th.tok(), i)
		}
		if a != b && (th.kind == 'C') && r.retJob[th.dep] != r.jobs[i] {
			r.failf("foreign", "foreign:cancel-changed-other-job", "thread %d (%s) changed Job #%d", t, th.tok(), i)
		}
	}
	if r.fin[t] && th.kind == 'R' && r.out[t] == "h0" {
		for i := range before {
			if before[i] != r.snap(i) {
				r.failf("foreign", "foreign:ignored-but-changed", "handle returned false but Job #%d changed", i)
			}
		}
	}
}

func (r *c14Run) runScript(sc []c14Entry) {
	for _, e := range sc {
		if e.lbl == "" {
			r.step(e.t)
			continue
		}
		for k := 0; k < 16; k++ {
			if e.t < 0 || e.t >= len(r.prog) || r.mapped(e.t) == e.lbl || r.fin[e.t] {
				break
			}
			was := r.mapped(e.t)
			r.step(e.t)
			if r.mapped(e.t) == was {
				break
			}
		}
	}
	// drain: round-robin until nothing moves
	n := len(r.prog)
	for round := 0; round < 10*n+10 && !r.hung; round++ {
		moved := false
		for t := 0; t < n; t++ {
			was := r.mapped(t)
			r.step(t)
			if r.mapped(t) != was {
				moved = true
			}
		}
		if !moved {
			break
		}
	}
}

// canonical final state, same format as XMT.Drv.C14.showState
func (r *c14Run) canon() string {
	thr := make([]string, len(r.prog))
	for t := range r.prog {
		switch {
		case !r.fin[t]:
			thr[t] = "blk@" + r.mapped(t)
		case r.out[t] == "job":
			thr[t] = "job" + strconv.Itoa(r.refOf[r.retJob[t]])
		default:
			thr[t] = r.out[t]
		}
	}
	b := func(x bool) string {
		if x {
			return "1"
		}
		return "0"
	}
	jobs := make([]string, len(r.jobs))
	for i, j := range r.jobs {
		sn := r.snap(i)
		res := "-"
		if sn.tag != -1 {
			res = strconv.Itoa(sn.tag)
		}
		jobs[i] = fmt.Sprintf("%d/%d/%s/%s/%s/%s/%d/%d", j.ID, sn.status, b(sn.closed), b(sn.dnil), res, b(sn.err), sn.frags, sn.cur)
	}
	tab := c2.VerifC14Table(r.s)
	var ids []int
	for id := range tab {
		ids = append(ids, int(id))
	}
	sort.Ints(ids)
	var te []string
	for _, id := range ids {
		ref := -1
		if j := tab[uint16(id)]; j != nil {
			if v, ok := r.refOf[j]; ok {
				ref = v
			}
		}
		te = append(te, fmt.Sprintf("%d>%d", id, ref))
	}
	pub := make([]string, len(r.pub))
	for i, p := range r.pub {
		pub[i] = strconv.Itoa(int(p))
	}
	d := func(s string) string {
		if s == "" {
			return "-"
		}
		return s
	}
	return fmt.Sprintf("thr=%s jobs=%s tab=%s n=%d pub=%s lock=%s", d(strings.Join(thr, ",")), d(strings.Join(jobs, ";")),
		d(strings.Join(te, ",")), len(tab), d(strings.Join(pub, ".")), b(!r.hung && !c2.VerifC14TryLock(r.s)))
}

var c14StatusName = map[string]uint64{"completed": c2.VerifC14StatusCompleted, "error": c2.VerifC14StatusError, "canceled": c2.VerifC14StatusCanceled}

// end-of-run oracles (after quiescence)
func (r *c14Run) finalOracles() {
	if r.hung {
		return
	}
	tab := c2.VerifC14Table(r.s)
	if !r.hung && !c2.VerifC14TryLock(r.s) {
		r.failf("panic", "lock:held-after-quiescence", "the session lock is still held after every thread stopped")
	}
	for i, j := range r.jobs {
		sn := r.snap(i)
		inTab := tab[j.ID] == j
		if sn.closed {
			if inTab {
				r.failf("table", "table:finished-job-still-pending", "Job #%d (number %d) is finished but still in the pending table", i, j.ID)
			}
			if want, ok := c14StatusName[r.first[i]]; ok && uint64(sn.status) != want {
				r.failf("status", fmt.Sprintf("status:%s:got%d", r.first[i], sn.status), "Job #%d (number %d) was finished first by '%s' but its final Status is %d", i, j.ID, r.first[i], sn.status)
			}
			if j.IsDone() != true {
				r.failf("wait", "isdone:false-after-finish", "Job #%d finished but IsDone() = false", i)
			}
		} else if !inTab && !r.hung {
			owner := false
			for t, th := range r.prog {
				if th.kind == 'R' && !r.fin[t] && r.started[t] {
					owner = true
				}
			}
			if !owner {
				r.failf("table", "orphan:pending-job-untracked", "Job #%d (number %d) is not finished, not in the pending table and no handler is running: nothing can finish it", i, j.ID)
			}
		}
		// attribution: the result recorded must be the one meant for the Task that created the Job
		if sn.tag >= 0 && sn.tag < len(r.prog) && r.prog[sn.tag].kind == 'T' && sn.tag != r.creator[i] {
			// the result was meant for the Job of Task thread sn.tag. If that Task really got a Job with
			// this number (so its result can exist) and it is another object: stale result after the
			// number was handed out again.
			if jj := r.retJob[sn.tag]; jj != nil && jj != j && jj.ID == j.ID {
				r.failf("foreign", "misattributed:id-reuse", "Job #%d (number %d, created by thread %d) recorded the result meant for the earlier Job of thread %d with the same number", i, j.ID, r.creator[i], sn.tag)
			}
		}
	}
	for t, th := range r.prog {
		if th.dep < 0 || th.dep >= len(r.prog) {
			continue
		}
		var ji = -1
		if th.kind == 'W' || th.kind == 'D' {
			if j := r.retJob[th.dep]; j != nil {
				if v, ok := r.refOf[j]; ok {
					ji = v
				}
			}
		}
		if ji < 0 {
			continue
		}
		closed := c14ChanClosed(r.chans[ji])
		if th.kind == 'W' && !r.fin[t] && r.started[t] && closed && !r.hung {
			r.failf("wait", "blocked:wait-after-finish", "thread %d: Wait() on Job #%d is still blocked although the Job is finished", t, ji)
		}
		if th.kind == 'D' && r.fin[t] {
			if r.out[t] == "d0" && r.closedAtStart[t] {
				r.failf("wait", "isdone:false-after-finish", "thread %d: IsDone() on Job #%d returned false although the Job was finished before the call", t, ji)
			}
			if r.out[t] == "d1" && !closed {
				r.failf("wait", "isdone:true-before-finish", "thread %d: IsDone() on Job #%d returned true but the Job is not finished", t, ji)
			}
		}
	}
}

var c14Mu sync.Mutex // the hooks are process-global

// c14Execute runs one case on the real code and reports op line + oracle failures.
func c14Execute(c *Ctx, prog []c14Thread, sc []c14Entry, group string) {
	c14Mu.Lock()
	defer c14Mu.Unlock()
	r := c14NewRun(prog)
	r.runScript(sc)
	c2.VerifC14Install(nil) // the oracles below call the API from this goroutine: no yields
	r.finalOracles()
	res := "(aborted: " + r.hungAt + ")"
	if !r.hung {
		res = r.canon()
	}
	r.close()
	ptok, stok := c14ProgTok(prog), c14ScriptTok(sc)
	if !r.hung {
		c.Op("run F "+ptok+" "+stok, res)
	}
	for _, f := range r.fails {
		c.Fail(f.kind, f.key, f.detail+" | final: "+res, map[string]string{"threads": ptok, "script": stok, "group": group})
	}
	nontrivial := false
	kinds := map[byte]bool{}
	for _, t := range prog {
		kinds[t.kind] = true
	}
	if kinds['T'] && (kinds['R'] || kinds['C']) && len(sc) > 0 {
		nontrivial = true
	}
	c.Eval(nontrivial, ptok+" "+stok)
	c.Count("cases:" + group)
	for i := range r.jobs {
		if r.first[i] != "" {
			c.Count("finished-by:" + r.first[i])
		} else {
			c.Count("finished-by:none")
		}
	}
	for t := range prog {
		if strings.HasPrefix(r.out[t], "panic") {
			c.Count("thread-panic")
		}
		if prog[t].kind == 'R' && r.fin[t] {
			c.Count("handle:" + r.out[t])
		}
		if prog[t].kind == 'T' && r.fin[t] {
			c.Count("task:" + r.out[t])
		}
		if !r.fin[t] {
			c.Count("blocked:" + c14KindName(prog[t].kind))
		}
	}
}

// ---- generators -------------------------------------------------------------------------------

var c14IdPool = []int{2, 3, 5, 7, 65535, 300}

func c14GenProg(r *Rng, maxThreads int) []c14Thread {
	var prog []c14Thread
	nTasks := 1 + r.Intn(3)
	if r.Chance(15) {
		nTasks = 1
	}
	var taskIdx []int
	taskNum := map[int]int{}
	for i := 0; i < nTasks; i++ {
		t := c14Thread{kind: 'T'}
		if r.Chance(35) {
			// newJobID with scripted draws; small numbers so that collisions with pending ids,
			// 0 and 1 are drawn often
			nd := 1 + r.Intn(4)
			for k := 0; k < nd; k++ {
				switch r.Intn(6) {
				case 0:
					t.draws = append(t.draws, uint32(r.Intn(2))) // 0 / 1: rejected
				case 1:
					t.draws = append(t.draws, uint32(65536*(1+r.Intn(3))+c14IdPool[r.Intn(len(c14IdPool))]%65536)) // truncation to uint16
				default:
					t.draws = append(t.draws, uint32(c14IdPool[r.Intn(len(c14IdPool))]))
				}
			}
			if r.Chance(10) {
				t.draws = nil // every draw 0: gives up after 512 tries
			}
			// the number it will most likely get (first acceptable draw)
			taskNum[len(prog)] = -1
			for _, d := range t.draws {
				if v := int(d % 65536); v > 1 {
					taskNum[len(prog)] = v
					break
				}
			}
		} else {
			t.id = c14IdPool[r.Intn(len(c14IdPool))]
			if r.Chance(4) {
				t.id = 1 // caller-supplied 1: accepted by Task, never completed by a result
			}
			taskNum[len(prog)] = t.id
		}
		t.wf = r.Chance(8)
		taskIdx = append(taskIdx, len(prog))
		prog = append(prog, t)
	}
	n := nTasks + 1 + r.Intn(maxThreads-nTasks)
	for len(prog) < n {
		k := taskIdx[r.Intn(len(taskIdx))]
		num := taskNum[k]
		if num < 0 {
			num = c14IdPool[r.Intn(len(c14IdPool))]
		}
		switch x := r.Intn(100); {
		case x < 30: // result for Task k (normal / error-flagged); duplicates arise by repetition
			prog = append(prog, c14Thread{kind: 'R', id: num, ef: r.Chance(35), tag: k})
		case x < 36: // unknown number
			prog = append(prog, c14Thread{kind: 'R', id: []int{0, 1, 9, 4000, 65534}[r.Intn(5)], ef: r.Chance(30), tag: 900 + r.Intn(5)})
		case x < 58:
			prog = append(prog, c14Thread{kind: 'C', dep: k})
		case x < 72:
			prog = append(prog, c14Thread{kind: 'W', dep: k})
		case x < 84:
			prog = append(prog, c14Thread{kind: 'D', dep: k})
		case x < 92:
			prog = append(prog, c14Thread{kind: 'A', id: num})
		default:
			prog = append(prog, c14Thread{kind: 'F', id: num, mx: []int{0, 1, 3, 65535}[r.Intn(4)], cur: r.Intn(3)})
		}
	}
	return prog
}

func c14Steps(k byte) int {
	switch k {
	case 'R':
		return 7
	}
	return 2
}

func c14GenScript(r *Rng, prog []c14Thread) []c14Entry {
	var sc []c14Entry
	mode := r.Intn(10)
	switch {
	case mode == 0: // sequential in program order
		for t := range prog {
			sc = append(sc, c14Entry{t: t, lbl: "end"})
		}
	case mode == 1: // sequential in random order (entries for unstartable threads are no-ops)
		perm := make([]int, len(prog))
		for i := range perm {
			perm[i] = i
		}
		for i := len(perm) - 1; i > 0; i-- {
			j := r.Intn(i + 1)
			perm[i], perm[j] = perm[j], perm[i]
		}
		for _, t := range perm {
			sc = append(sc, c14Entry{t: t, lbl: "end"})
		}
	case mode == 2: // empty: the drain order
	default: // random interleaving of single actions, Tasks biased to the front
		total := 0
		for _, t := range prog {
			total += c14Steps(t.kind)
		}
		for t, th := range prog {
			if th.kind == 'T' && r.Chance(70) {
				sc = append(sc, c14Entry{t: t}, c14Entry{t: t})
			}
		}
		n := total + r.Intn(total+1)
		for i := 0; i < n; i++ {
			sc = append(sc, c14Entry{t: r.Intn(len(prog) + 1)}) // one index past the end: no such thread
		}
		if r.Chance(25) { // park one handler right before its close, let everybody else run
			for t, th := range prog {
				if th.kind == 'R' {
					sc = append([]c14Entry{{t: 0, lbl: "end"}, {t: t, lbl: []string{"H2", "H3", "H4", "H5"}[r.Intn(4)]}}, sc...)
					break
				}
			}
		}
	}
	return sc
}

// all interleavings of the actions of the given threads (after `prefix`), bounded
func c14AllSchedules(counts []int, tids []int, limit int) [][]int {
	var res [][]int
	var cur []int
	var rec func()
	rec = func() {
		if len(res) >= limit {
			return
		}
		doneAll := true
		for i := range counts {
			if counts[i] > 0 {
				doneAll = false
				counts[i]--
				cur = append(cur, tids[i])
				rec()
				cur = cur[:len(cur)-1]
				counts[i]++
			}
		}
		if doneAll {
			res = append(res, append([]int(nil), cur...))
		}
	}
	rec()
	return res
}

func runC14(c *Ctx) {
	runtime.GOMAXPROCS(4)
	// 0. corpus: minimised witnesses of the repaired defects and of the recorded finding (label scripts)
	c14Corpus(c)
	c14InfoJobs(c) // Jobs whose completion runs type-specific result processing (c14_s3.go)
	c14ViaEvents(c) // results through receive() and the event thread (c14_s3_ev.go)

	// 1. exhaustive small interleavings: one Job, {handle, Cancel} / {handle, handle} / {Cancel, Cancel,
	//    handle} / {handle, Wait} / {handle, IsDone} / {handle, accept} / {handle, frag}, every order of the atomic actions
	type small struct {
		name string
		prog string
		cnt  []int
		tid  []int
	}
	smalls := []small{
		{"handle|cancel", "T:5:0:-,R:5:0:0,C:0", []int{7, 2}, []int{1, 2}},
		{"handleErr|cancel", "T:5:0:-,R:5:1:0,C:0", []int{7, 2}, []int{1, 2}},
		{"handle|handle", "T:5:0:-,R:5:0:0,R:5:1:0", []int{7, 7}, []int{1, 2}},
		{"handle|wait", "T:5:0:-,R:5:0:0,W:0", []int{7, 3}, []int{1, 2}},
		{"handle|isdone", "T:5:0:-,R:5:0:0,D:0", []int{7, 2}, []int{1, 2}},
		{"cancel|wait", "T:5:0:-,C:0,W:0", []int{2, 3}, []int{1, 2}},
		{"handle|accept", "T:5:0:-,R:5:0:0,A:5", []int{7, 2}, []int{1, 2}},
		{"handle|frag", "T:5:0:-,R:5:1:0,F:5:3:1", []int{7, 2}, []int{1, 2}},
		{"cancel|cancel|handle", "T:5:0:-,C:0,C:0,R:5:0:0", []int{2, 2, 7}, []int{1, 2, 3}},
		{"task|task same number", "T:5:0:-,T:5:0:-,R:5:0:0", []int{2, 2, 3}, []int{0, 1, 2}},
		{"task|handle", "T:5:0:-,R:5:0:0", []int{2, 7}, []int{0, 1}},
		{"handle|cancel|wait", "T:5:0:-,R:5:0:0,C:0,W:0", []int{7, 2, 3}, []int{1, 2, 3}},
	}
	lim := c.N(1200, 100000)
	for _, sm := range smalls {
		prog, _, err := c14ParseCase(sm.prog, "-")
		if err != nil {
			panic(err)
		}
		scheds := c14AllSchedules(append([]int(nil), sm.cnt...), sm.tid, 200000)
		c.Extra["exhaustive:"+sm.name] = len(scheds)
		stride := 1
		if len(scheds) > lim {
			stride = len(scheds)/lim + 1
		}
		c.Cases("small:"+sm.name, (len(scheds)+stride-1)/stride, func(r *Rng, i int) {
			sch := scheds[(i*stride+int(c.Seed))%len(scheds)]
			var sc []c14Entry
			if sm.tid[0] != 0 { // the Task runs first unless it is itself interleaved
				sc = append(sc, c14Entry{t: 0, lbl: "end"})
			}
			for _, t := range sch {
				sc = append(sc, c14Entry{t: t})
			}
			c14Execute(c, prog, sc, "small")
		})
	}

	// 2. random programs and schedules
	c.Cases("random", c.N(10000, 250000), func(r *Rng, i int) {
		prog := c14GenProg(r, 3+r.Intn(6))
		sc := c14GenScript(r, prog)
		c14Execute(c, prog, sc, "random")
	})

	runC14S(c) // sub-step model (c14_s3_sub.go): single writes of the locked regions, lock-free readers

	// 2b. the SvResync gate: a system packet that carries a Job number is only acted on while that Job
	// is pending (receiveSingle, the consumer of hasJob). Numbers tried: 0 and 1 (never handed out), a
	// pending one, the neighbours of a pending one, one that was pending and is not any more
	// (finished / cancelled), a random one.
	c.Cases("resync", c.N(1500, 20000), func(r *Rng, i int) {
		s := c2.VerifC14NewSession(8)
		c2.VerifC14SetSleep(s, 10*time.Second, 5)
		var pend []uint16
		for k := r.Intn(5); k > 0; k-- {
			id := uint16(2 + r.Intn(65534))
			if r.Chance(20) {
				id = uint16(2 + r.Intn(4)) // right above the reserved numbers
			}
			c2.VerifC14TableSet(s, id)
			pend = append(pend, id)
		}
		gone := uint16(2 + r.Intn(65534))
		c2.VerifC14TableSet(s, gone)
		c2.VerifC14TableDel(s, gone)
		var id uint16
		switch x := i % 8; {
		case x == 0:
			id = 0
		case x == 1:
			id = 1
		case x == 2 && len(pend) > 0:
			id = pend[r.Intn(len(pend))]
		case x == 3 && len(pend) > 0:
			id = pend[r.Intn(len(pend))] + 1
		case x == 4 && len(pend) > 0:
			id = pend[r.Intn(len(pend))] - 1
		case x == 5:
			id = gone
		case x == 6 && len(pend) > 0:
			id = pend[0]
		default:
			id = uint16(r.Intn(65536))
		}
		q := &com.Packet{ID: c2.SvResync, Job: id, Device: c2.VerifC14Device(s)}
		q.WriteUint8(c2.VerifC12InfoSync)
		a := c12Gen(r, false)
		a.client, a.closing = true, false
		a.sleep, a.jitter = int64(42*time.Minute), 77
		if err := a.build().VerifC12Write(c2.VerifC12InfoSync, q); err != nil {
			return
		}
		applied := c2.VerifC14Resync(s, q)
		isPend := false
		tab := make([]string, 0, len(pend))
		for _, p := range pend {
			tab = append(tab, strconv.Itoa(int(p)))
			if p == id {
				isPend = true
			}
		}
		t := strings.Join(tab, ".")
		if t == "" {
			t = "-"
		}
		ans := "ignored"
		if applied {
			ans = "applied"
		}
		c.Op(fmt.Sprintf("resync %s %d", t, id), ans)
		in := map[string]interface{}{"pending": pend, "resync_job": id}
		switch {
		case applied && !isPend:
			k := "other"
			if id < 2 {
				k = "reserved-number"
			} else if id == gone {
				k = "finished-job"
			}
			c.Fail("resync", "resync:unknown-job-applied:"+k, fmt.Sprintf("an SvResync carrying Job number %d, which is not pending, changed the Session's settings", id), in)
		case !applied && isPend:
			c.Fail("resync", "resync:pending-job-ignored", fmt.Sprintf("the SvResync of pending Job %d was ignored", id), in)
		}
		c.Count(fmt.Sprintf("resync:%s", ans))
		c.Eval(true, fmt.Sprint("resync", pend, id))
	})

	// 3. id allocation: real newJobID on a pre-filled table with a scripted PRNG vs the model
	c.Cases("newid", c.N(1000, 20000), func(r *Rng, i int) {
		c14NewID(c, r)
	})

	// 4. free-running stress in a child process (a fatal runtime error must not kill the run)
	c.Cases("stress", 1, func(r *Rng, i int) {
		c14StressParent(c, r)
	})
}

func c14NewID(c *Ctx, r *Rng) {
	c14Mu.Lock()
	defer c14Mu.Unlock()
	s := c2.VerifC14NewSession(c14SendCap)
	var tab []int
	seen := map[int]bool{}
	nt := r.Intn(6)
	for k := 0; k < nt; k++ {
		id := 2 + r.Intn(6)
		if r.Chance(20) {
			id = 65530 + r.Intn(6)
		}
		if !seen[id] {
			seen[id] = true
			tab = append(tab, id)
			c2.VerifC14TableSet(s, uint16(id))
		}
	}
	var draws []uint32
	nd := r.Intn(8)
	if r.Chance(10) {
		nd = 510 + r.Intn(5) // around the 512-try bound
	}
	for k := 0; k < nd; k++ {
		var d uint32
		switch r.Intn(5) {
		case 0:
			d = uint32(r.Intn(2))
		case 1:
			d = uint32(65536*r.Intn(4) + r.Intn(8))
		case 2:
			d = uint32(r.U64())
		default:
			d = uint32(2 + r.Intn(6))
		}
		if nd >= 500 && k < 509+r.Intn(4) {
			if len(tab) > 0 && r.Bool() {
				d = uint32(tab[r.Intn(len(tab))])
			} else {
				d = uint32(r.Intn(2))
			}
		}
		draws = append(draws, d)
	}
	pos := 0
	c2.VerifC14Install(&c2.VerifC14Hooks{Rand: func() uint32 {
		if pos < len(draws) {
			pos++
			return draws[pos-1]
		}
		return 0
	}})
	got := c2.VerifC14NewJobID(s)
	c2.VerifC14Install(nil)
	ts := make([]string, len(tab))
	for i, v := range tab {
		ts[i] = strconv.Itoa(v)
	}
	ds := make([]string, len(draws))
	for i, v := range draws {
		ds[i] = strconv.FormatUint(uint64(v), 10)
	}
	j := func(x []string) string {
		if len(x) == 0 {
			return "-"
		}
		return strings.Join(x, ".")
	}
	c.Op("newid "+j(ts)+" "+j(ds), strconv.Itoa(int(got)))
	if got == 1 || (got != 0 && seen[int(got)]) {
		c.Fail("jobid", "jobid:not-fresh", fmt.Sprintf("newJobID returned %d with table %v", got, tab), map[string]interface{}{"table": tab, "draws": draws})
	}
	if got == 0 {
		c.Count("newid:gave-up")
	} else {
		c.Count("newid:ok")
	}
	c.Eval(len(tab) > 0 && len(draws) > 1, "newid "+j(ts)+" "+j(ds))
}

// ---- corpus -----------------------------------------------------------------------------------

func c14CorpusDir() string {
	if b := os.Getenv("VERIF_BUILD"); b != "" {
		return filepath.Join(filepath.Dir(b), "corpus", "C14")
	}
	return filepath.Join("..", "corpus", "C14")
}

func c14Corpus(c *Ctx) {
	files, _ := filepath.Glob(filepath.Join(c14CorpusDir(), "*.txt"))
	sort.Strings(files)
	type cs struct{ threads, script, name string }
	var all []cs
	for _, f := range files {
		b, err := os.ReadFile(f)
		if err != nil {
			continue
		}
		for _, line := range strings.Split(string(b), "\n") {
			line = strings.TrimSpace(line)
			if line == "" || strings.HasPrefix(line, "#") {
				continue
			}
			f2 := strings.Fields(line)
			if len(f2) != 2 {
				continue
			}
			all = append(all, cs{f2[0], f2[1], filepath.Base(f)})
		}
	}
	c.Extra["corpus_cases"] = len(all)
	c.Cases("corpus", len(all), func(r *Rng, i int) {
		prog, sc, err := c14ParseCase(all[i].threads, all[i].script)
		if err != nil {
			c.Fail("corpus", "corpus:bad-line", err.Error(), all[i].threads)
			return
		}
		c14Execute(c, prog, sc, "corpus")
	})
}

// ---- free-running stress (child process) -------------------------------------------------------

func c14StressParent(c *Ctx, r *Rng) {
	dir := filepath.Join(c.OutDir, "stress")
	os.MkdirAll(dir, 0o755)
	tier := c.Tier
	cmd := exec.Command(os.Args[0], "C14stress", "--out", dir, "--seed", strconv.FormatUint(c.Seed, 10), "--tier", tier)
	done := make(chan struct{})
	var out []byte
	var err error
	go func() { out, err = cmd.CombinedOutput(); close(done) }()
	tmo := time.Duration(c.N(40, 240)) * time.Second
	select {
	case <-done:
	case <-time.After(tmo):
		cmd.Process.Kill()
		<-done
		c.Fail("stress", "stress:timeout", "free-running stress did not finish within "+tmo.String(), string(out[max(0, len(out)-1500):]))
		c.Eval(true, "stress")
		return
	}
	s := string(out)
	for _, line := range strings.Split(s, "\n") {
		if strings.HasPrefix(line, "FAIL ") {
			f := strings.SplitN(line[5:], " ", 2)
			d := ""
			if len(f) > 1 {
				d = f[1]
			}
			c.Fail("stress", f[0], "free-running stress: "+d, map[string]interface{}{"seed": c.Seed, "tier": tier})
		}
		if strings.HasPrefix(line, "STAT ") {
			f := strings.Fields(line)
			if len(f) == 3 {
				v, _ := strconv.Atoi(f[2])
				c.Extra["stress:"+f[1]] = v
			}
		}
	}
	if err != nil {
		key := "stress:crash"
		switch {
		case strings.Contains(s, "concurrent map read and map write"), strings.Contains(s, "concurrent map writes"), strings.Contains(s, "concurrent map iteration"):
			key = "fatal:concurrent-map-access"
		case strings.Contains(s, "close of closed channel"):
			key = "panic:double-close:free-running"
		case strings.Contains(s, "close of nil channel"):
			key = "panic:close-nil:free-running"
		case strings.Contains(s, "all goroutines are asleep"):
			key = "stress:deadlock"
		}
		c.Fail("stress", key, "free-running stress child died: "+err.Error(), s[max(0, len(s)-2500):])
	}
	c.Eval(true, "stress")
}

func max(a, b int) int {
	if a > b {
		return a
	}
	return b
}

// runC14StressChild: many goroutines on real Sessions with no scheduler installed. Prints FAIL lines;
// a fatal runtime error kills this child only.
func runC14StressChild(c *Ctx) {
	runtime.GOMAXPROCS(8)
	c2.VerifC14Install(nil)
	iters := c.N(20000, 400000)
	r := NewRng(c.Seed, 77)
	fail := func(key, f string, a ...interface{}) { fmt.Printf("FAIL %s %s\n", key, fmt.Sprintf(f, a...)) }
	var mu sync.Mutex
	panics := map[string]int{}
	guard := func(where string, fn func()) {
		defer func() {
			if e := recover(); e != nil {
				mu.Lock()
				panics[where+":"+c14PanicClass(e)]++
				mu.Unlock()
			}
		}()
		fn()
	}
	stuck, badStatus, notDone, inTable := 0, 0, 0, 0
	t0 := time.Now()
	budget := time.Duration(c.N(20, 150)) * time.Second
	done := 0
	for it := 0; it < iters && time.Since(t0) < budget; it++ {
		done++
		s := c2.VerifC14NewSession(64)
		dev := c2.VerifC14Device(s)
		id := uint16(2 + r.Intn(5))
		var j *c2.Job
		var err error
		// Task racing with the (very fast) result for it
		var wg sync.WaitGroup
		ef := r.Chance(40)
		mk := func() *com.Packet {
			p := &com.Packet{ID: c2.VerifC14RvResult, Job: id, Device: dev}
			if ef {
				p.Flags |= com.FlagError
				p.WriteString("x")
			}
			return p
		}
		early := r.Chance(30)
		if early {
			wg.Add(1)
			go func() { defer wg.Done(); guard("handle", func() { c2.VerifC14Handle(s, mk()) }) }()
		}
		guard("task", func() { j, err = s.Task(&com.Packet{ID: 0xC8, Job: id}) })
		if err != nil || j == nil {
			wg.Wait()
			continue
		}
		nH, nC := 1+r.Intn(2), r.Intn(3)
		waitRet := make(chan struct{})
		go func() { guard("wait", func() { j.Wait() }); close(waitRet) }()
		for k := 0; k < nH; k++ {
			wg.Add(1)
			go func() { defer wg.Done(); guard("handle", func() { c2.VerifC14Handle(s, mk()) }) }()
		}
		for k := 0; k < nC; k++ {
			wg.Add(1)
			go func() { defer wg.Done(); guard("cancel", func() { j.Cancel() }) }()
		}
		wg.Add(3)
		go func() { defer wg.Done(); guard("accept", func() { c2.VerifC14Accept(s, id) }) }()
		go func() { defer wg.Done(); guard("isdone", func() { j.IsDone() }) }()
		go func() {
			defer wg.Done()
			guard("hasjob", func() {
				for k := 0; k < 20; k++ {
					c2.VerifC14HasJob(s, id)
					s.Job(id)
					s.Jobs()
				}
			})
		}()
		// a second Task on another number keeps the table busy (map writes racing the unlocked readers)
		wg.Add(1)
		go func() {
			defer wg.Done()
			guard("task", func() {
				for k := 0; k < 4; k++ {
					if j2, e := s.Task(&com.Packet{ID: 0xC8, Job: uint16(100 + k)}); e == nil && j2 != nil {
						j2.Cancel()
					}
				}
			})
		}()
		wg.Wait()
		select {
		case <-waitRet:
		case <-time.After(10 * time.Second):
			stuck++
		}
		if !j.IsDone() {
			notDone++
		}
		if st := uint64(j.Status); st != c2.VerifC14StatusCompleted && st != c2.VerifC14StatusError && st != c2.VerifC14StatusCanceled {
			badStatus++
		} else if st == c2.VerifC14StatusCanceled && nC == 0 {
			badStatus++
		} else if st == c2.VerifC14StatusError && !ef || st == c2.VerifC14StatusCompleted && ef {
			badStatus++
		}
		if v, ok := c2.VerifC14TableGet(s, id); ok && v == j {
			inTable++
		}
	}
	fmt.Printf("STAT iterations %d\n", done)
	for k, v := range panics {
		cl := k[strings.LastIndex(k, ":")+1:]
		wh := k[:strings.LastIndex(k, ":")]
		key := "panic:" + wh
		if cl == "closed" {
			key = "panic:double-close:" + wh
		} else if cl == "nil" {
			key = "panic:close-nil:" + wh
		}
		fail(key, "%d panics (%s) in %d free-running iterations", v, k, done)
	}
	if stuck > 0 {
		fail("blocked:wait-after-finish", "%d of %d Wait() calls did not return within 10s after all finishing events ran", stuck, done)
	}
	if notDone > 0 {
		fail("isdone:false-after-finish", "%d of %d Jobs report IsDone()=false after completion and cancellation ran", notDone, done)
	}
	if badStatus > 0 {
		fail("status:free-running-inconsistent", "%d of %d Jobs ended with a Status that no finishing event of the run explains", badStatus, done)
	}
	if inTable > 0 {
		fail("table:finished-job-still-pending", "%d of %d finished Jobs still in the table", inTable, done)
	}
}
