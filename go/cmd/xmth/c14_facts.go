package main

import (
	"fmt"
	"go/ast"
	"go/parser"
	"go/token"
	"strconv"

	"github.com/iDigitalFlame/xmt/c2"
)

// Facts for C14: the status constants (from the compiled package) and the integer literals of the
// id allocation loop and of the job-number guards (from the current source text, by go/parser).
func init() {
	factProviders = append(factProviders, func(f *factSet, repo string) error {
		f.Nat("c14StatusWaiting", c2.VerifC14StatusWaiting)
		f.Nat("c14StatusAccepted", c2.VerifC14StatusAccepted)
		f.Nat("c14StatusReceiving", c2.VerifC14StatusReceiving)
		f.Nat("c14StatusCompleted", c2.VerifC14StatusCompleted)
		f.Nat("c14StatusError", c2.VerifC14StatusError)
		f.Nat("c14StatusCanceled", c2.VerifC14StatusCanceled)
		fs := token.NewFileSet()
		file, err := parser.ParseFile(fs, repo+"/c2/session_no_implant.go", nil, 0)
		if err != nil {
			return err
		}
		// lit(fn, lhs, op) = the integer literal y of the first comparison `lhs op y` in method fn.
		lit := func(fn, lhs string, op token.Token) (uint64, error) {
			var res *uint64
			for _, d := range file.Decls {
				fd, ok := d.(*ast.FuncDecl)
				if !ok || fd.Name.Name != fn || fd.Body == nil {
					continue
				}
				ast.Inspect(fd.Body, func(n ast.Node) bool {
					be, ok := n.(*ast.BinaryExpr)
					if !ok || res != nil || be.Op != op {
						return true
					}
					if c14ExprString(be.X) != lhs {
						return true
					}
					if bl, ok := be.Y.(*ast.BasicLit); ok && bl.Kind == token.INT {
						if v, err := strconv.ParseUint(bl.Value, 0, 64); err == nil {
							res = &v
						}
					}
					return true
				})
			}
			if res == nil {
				return 0, fmt.Errorf("c14 facts: no comparison `%s %s <int>` in %s", lhs, op, fn)
			}
			return *res, nil
		}
		type q struct {
			name, fn, lhs string
			op            token.Token
		}
		for _, x := range []q{
			{"c14JobIdTries", "newJobID", "c", token.LSS},     // for ; c < 512; c++
			{"c14JobIdMinExcl", "newJobID", "i", token.GTR},   // !ok && i > 1
			{"c14HandleMinJob", "handle", "p.Job", token.LSS}, // p.Job < 2
			{"c14AcceptMinJob", "accept", "i", token.LSS},     // i < 2
			{"c14FragMinJob", "frag", "i", token.LSS},         // i < 2
		} {
			v, err := lit(x.fn, x.lhs, x.op)
			if err != nil {
				return err
			}
			f.Nat(x.name, v)
		}
		return nil
	})
}

func c14ExprString(e ast.Expr) string {
	switch v := e.(type) {
	case *ast.Ident:
		return v.Name
	case *ast.SelectorExpr:
		return c14ExprString(v.X) + "." + v.Sel.Name
	case *ast.ParenExpr:
		return c14ExprString(v.X)
	}
	return "?"
}
