package main

import (
	"fmt"
	"time"

	"github.com/iDigitalFlame/xmt/c2"
	"github.com/iDigitalFlame/xmt/c2/task"
	"github.com/iDigitalFlame/xmt/com"
)

// Group "infojobs" of C14 (session 3): the completion path of Session.handle runs type-specific
// result processing (handleInfoResult for the Jobs that change the Session's own view: MvProxy,
// MvMigrate, MvRefresh, MvTime, MvProfile) BETWEEN taking the Job out of the table and releasing its
// waiters. Whatever the result body is - well-formed with zero / one / several entries, empty,
// truncated, garbage - the Job must still finish exactly once: waiters released, IsDone, final
// status, out of the table, and the handler must not panic. Oracle only (the interleaving model of
// C14 does not look at result bodies).
func c14InfoJobs(c *Ctx) {
	types := []uint8{task.MvProxy, task.MvMigrate, task.MvRefresh, task.MvTime, task.MvProfile, task.MvSpawn, 0xC8}
	c.Cases("infojobs", c.N(420, 4200), func(r *Rng, i int) {
		t := types[i%len(types)]
		s := c2.VerifC14NewSession(c14SendCap)
		in := map[string]interface{}{"job_type": t}
		var j *c2.Job
		var err error
		if p := c14Guard(func() { j, err = s.Task(&com.Packet{ID: t}) }); p != "" || err != nil || j == nil {
			c.Fail("infojobs", "infojobs:task", fmt.Sprintf("Task(type 0x%X) failed: %v %s", t, err, p), in)
			return
		}
		c2.VerifC14Drain(s)
		res := &com.Packet{ID: c2.VerifC14RvResult, Job: j.ID, Device: c2.VerifC14Device(s)}
		var body []byte
		switch k := (i / len(types)) % 10; k {
		case 0: // no body
		case 1:
			body = []byte{0} // a count of zero (e.g. "no proxies left")
		case 2:
			body = []byte{1} // announces one entry, nothing follows
		case 3:
			body = []byte{1, 1, 1, 'p', 1, 1, 'a'} // one (name, address) pair in the short-string form
		case 4:
			body = []byte{2, 1, 1, 'p', 1, 1, 'a', 1, 1, 'q', 1, 1, 'b'}
		case 5:
			body = []byte{255}
		case 6:
			body = r.Bytes(1 + r.Intn(40))
		case 7:
			body = append([]byte{0, 0, 0, 0, 0, 0, 0, 0, 0, 0}, r.Bytes(r.Intn(30))...)
		case 8:
			body = r.Bytes(200 + r.Intn(200))
		default:
			body = []byte{3, 1, 0, 1, 0, 1, 0, 1, 0}
		}
		res.Write(body)
		in["result_hex"] = hx(body)
		c.Count(fmt.Sprintf("infojobs:type-0x%X", t))
		var handled bool
		if p := c14Guard(func() { handled = c2.VerifC14Handle(s, res) }); p != "" {
			c.Fail("panic", "panic:handle:info-result", fmt.Sprintf("Session.handle panicked while completing a Job of type 0x%X: %s", t, p), in)
		} else if !handled {
			c.Fail("infojobs", "infojobs:not-handled", "handle() did not accept the result of a pending Job", in)
		}
		if !c2.VerifC14TryLock(s) {
			c.Fail("panic", "lock:held-after-quiescence", "the session lock is still held after handle() returned", in)
			return
		}
		done := make(chan struct{})
		go func() { j.Wait(); close(done) }()
		select {
		case <-done:
		case <-time.After(2 * time.Second):
			c.Fail("once", "never-released:info-result", fmt.Sprintf("Wait() still blocks after the result of the Job (type 0x%X) was processed", t), in)
		}
		if !j.IsDone() {
			c.Fail("once", "not-done:info-result", fmt.Sprintf("IsDone() is false after the result was processed (Status=%d)", j.Status), in)
		}
		if j.Status != c2.StatusCompleted && j.Status != c2.StatusError {
			c.Fail("status", "status:info-result", fmt.Sprintf("final Status %d is neither Completed nor Error", j.Status), in)
		}
		if _, ok := c2.VerifC14TableGet(s, j.ID); ok {
			c.Fail("table", "table:info-result", "the finished Job is still in the pending table", in)
		}
		c.Eval(true, fmt.Sprintf("infojobs %d %s", t, hx(body)))
	})
}

func c14Guard(f func()) (p string) {
	defer func() {
		if e := recover(); e != nil {
			p = fmt.Sprint(e)
		}
	}()
	f()
	return ""
}
