package main

import (
	"fmt"
	"time"

	"github.com/iDigitalFlame/xmt/c2"
	"github.com/iDigitalFlame/xmt/com"
)

// Group "viaevents" of C14 (session 3): results do not reach Session.handle directly; a connection
// thread hands them to receive(), which unpacks batches and queues one event per result, and the
// Server's event thread runs event.process on each: handle first, then the Session's Receive callback
// if there is one. One or two pending Jobs, their results delivered singly or as ONE batch through
// the real receive(), events processed afterwards, with and without a Receive callback: every Job
// finishes exactly once with ITS OWN result.
func c14ViaEvents(c *Ctx) {
	stuck := 0
	c.Cases("viaevents", c.N(400, 6000), func(r *Rng, i int) {
		if stuck >= 8 {
			return // enough evidence: every further blocked Wait costs a timeout
		}
		s := c2.VerifC14NewSession(c14SendCap)
		withCb := i%2 == 0
		calls := 0
		if withCb {
			s.Receive = func(*c2.Session, *com.Packet) { calls++ }
		}
		nj := 1 + r.Intn(3)
		batch := nj > 1 && r.Chance(70)
		in := map[string]interface{}{"jobs": nj, "batch": batch, "receive_callback": withCb}
		var jobs []*c2.Job
		for k := 0; k < nj; k++ {
			j, err := s.Task(&com.Packet{ID: 0xC8})
			if err != nil || j == nil {
				c.Fail("viaevents", "viaevents:task", fmt.Sprint(err), in)
				return
			}
			jobs = append(jobs, j)
		}
		c2.VerifC14Drain(s)
		mk := func(k int) *com.Packet {
			p := &com.Packet{ID: c2.VerifC14RvResult, Job: jobs[k].ID, Device: c2.VerifC14Device(s)}
			p.WriteUint32(uint32(0xA0000000 + k))
			p.WriteUint16(jobs[k].ID)
			return p
		}
		feed := func(p *com.Packet) {
			var err error
			if pn := c14Guard(func() { err = c2.VerifC14ReceiveVia(s, p) }); pn != "" {
				c.Fail("panic", "panic:receive:result", pn, in)
			} else if err != nil {
				c.Fail("viaevents", "viaevents:receive-error", err.Error(), in)
			}
		}
		if batch {
			b := &com.Packet{ID: c2.VerifC14RvResult, Device: c2.VerifC14Device(s), Flags: com.FlagMulti}
			b.Flags.SetLen(uint16(nj))
			for k := 0; k < nj; k++ {
				mk(k).MarshalStream(b)
			}
			feed(b)
		} else {
			for k := 0; k < nj; k++ {
				feed(mk(k))
			}
		}
		if pn := c14Guard(func() { c2.VerifC14ProcessEvents(s) }); pn != "" {
			c.Fail("panic", "panic:event.process", pn, in)
		}
		for k, j := range jobs {
			done := make(chan struct{})
			go func() { j.Wait(); close(done) }()
			select {
			case <-done:
			case <-time.After(400 * time.Millisecond):
				stuck++
				c.Fail("once", "viaevents:never-released", fmt.Sprintf("Job %d of %d: Wait() still blocks after its result went through receive() and the event thread", k, nj), in)
				continue
			}
			if j.Status != c2.StatusCompleted {
				c.Fail("status", "viaevents:status", fmt.Sprintf("Job %d: Status %d after a plain result", k, j.Status), in)
			}
			if j.Result == nil {
				c.Fail("result", "viaevents:no-result", fmt.Sprintf("Job %d finished without a Result", k), in)
				continue
			}
			b := j.Result.Payload()
			if len(b) != 6 || b[3] != byte(k) || uint16(b[4])<<8|uint16(b[5]) != j.ID || j.Result.Job != j.ID {
				c.Fail("result", "viaevents:foreign-result", fmt.Sprintf("Job %d (number %d) holds a Result that is not its own: job field %d, payload %x", k, j.ID, j.Result.Job, b), in)
			}
		}
		c.Count(fmt.Sprintf("viaevents:batch=%v:cb=%v", batch, withCb))
		c.Eval(true, fmt.Sprintf("viaevents %d %v %v", nj, batch, withCb))
	})
}
