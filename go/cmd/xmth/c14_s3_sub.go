package main

// C14, sub-step extension (model XMT/JobSub.lean, op `runS`).
//
// The cooperative scheduler of c14.go, at the granularity of the single shared-memory writes inside
// the locked regions of Job.Cancel and Session.frag (yield points verifC14YieldS, cooperative lock
// acquisition verifC14Lock), with lock-free reader threads:
//   w:k  j.Wait();  st := j.Status; res := j.Result; e := len(j.Error) > 0     (yields R1, R2, R3)
//   d:k  if j.IsDone() { the same three reads }
//   e:k  j.IsError()
// Direct oracles (independent of the model), after EVERY single action: a Job whose done channel is
// closed has a final Status, namely that of the event that closed it, and it never changes again;
// what a reader read after Wait returned / IsDone said true is the final Status / Result / Error of
// that Job; the Result carries the Job's own number; no panic; a waiter is not stuck on a finished
// Job; the lock is free once everything stopped.

import (
	"fmt"
	"go/ast"
	"go/parser"
	"go/token"
	"runtime"
	"sort"
	"strconv"
	"strings"
	"time"

	"github.com/iDigitalFlame/xmt/c2"
	"github.com/iDigitalFlame/xmt/com"
)

type c14sObs struct {
	has         [3]bool
	st          uint8
	res         *com.Packet
	err         bool
	doneTrue    bool // Wait returned / IsDone said true
	closedAtRun bool // the Job was finished before the thread's first action
}

type c14sRun struct {
	*c14Run
	obs    []c14sObs
	jobsS  []*c2.Job // creation order (= order in which the Task threads returned a Job)
	chS    []chan struct{}
	firstS []string
	finalS []uint8
}

func c14sIsReader(k byte) bool { return k == 'w' || k == 'd' || k == 'e' }

func c14sParse(threads, script string) ([]c14Thread, []c14Entry, error) {
	// the reader kinds are parsed as W (same token shape) and renamed
	var kinds []byte
	toks := strings.Split(threads, ",")
	for i, tok := range toks {
		k := byte(0)
		if len(tok) > 1 && c14sIsReader(tok[0]) {
			k = tok[0]
			toks[i] = "W" + tok[1:]
		}
		kinds = append(kinds, k)
	}
	prog, sc, err := c14ParseCase(strings.Join(toks, ","), script)
	if err != nil {
		return nil, nil, err
	}
	for i := range prog {
		if kinds[i] != 0 {
			prog[i].kind = kinds[i]
		} else if prog[i].kind == 'W' || prog[i].kind == 'D' {
			return nil, nil, fmt.Errorf("thread kind %c is not part of the sub-step model", prog[i].kind)
		}
	}
	return prog, sc, nil
}

func c14sProgTok(p []c14Thread) string {
	s := make([]string, len(p))
	for i := range p {
		if c14sIsReader(p[i].kind) {
			s[i] = fmt.Sprintf("%c:%d", p[i].kind, p[i].dep)
		} else {
			s[i] = p[i].tok()
		}
	}
	return strings.Join(s, ",")
}

func (r *c14sRun) bodyS(t int) (out string) {
	th := r.prog[t]
	if !c14sIsReader(th.kind) {
		return r.body(t)
	}
	defer func() {
		if e := recover(); e != nil {
			out = "panic:" + c14PanicClass(e)
			r.failf("panic", "panic:reader:"+string(th.kind), "thread %d (%c:%d): %v", t, th.kind, th.dep, e)
		}
	}()
	j := r.retJob[th.dep]
	o := &r.obs[t]
	reads := func() {
		c2.VerifC14YieldPoint("R1")
		if j != nil {
			o.st, o.has[0] = uint8(j.Status), true
		}
		c2.VerifC14YieldPoint("R2")
		if j != nil {
			o.res, o.has[1] = j.Result, true
		}
		c2.VerifC14YieldPoint("R3")
		if j != nil {
			o.err, o.has[2] = len(j.Error) > 0, true
		}
	}
	switch th.kind {
	case 'w':
		j.Wait()
		if j == nil {
			return "ret"
		}
		o.doneTrue = true
		reads()
		return "ret"
	case 'd':
		if !j.IsDone() {
			return "d0"
		}
		if j == nil {
			return "d1"
		}
		o.doneTrue = true
		reads()
		return "d1"
	}
	if j.IsError() {
		o.err, o.has[2] = true, true
		return "d1"
	}
	return "d0"
}

func c14sNewRun(prog []c14Thread) *c14sRun {
	n := len(prog)
	r := &c14Run{prog: prog, s: c2.VerifC14NewSession(c14SendCap), msgs: make(chan c14Msg), resume: make([]chan struct{}, n),
		label: make([]string, n), fin: make([]bool, n), out: make([]string, n), drawPos: make([]int, n),
		retJob: make([]*c2.Job, n), refOf: map[*c2.Job]int{}, pkTag: map[*com.Packet]int{}, started: make([]bool, n),
		closedAtStart: make([]bool, n)}
	rs := &c14sRun{c14Run: r, obs: make([]c14sObs, n)}
	for t := 0; t < n; t++ {
		r.label[t] = "start"
		r.resume[t] = make(chan struct{})
		go func(t int) {
			<-r.resume[t]
			if r.abandon {
				return
			}
			o := rs.bodyS(t)
			r.out[t] = o
			r.msgs <- c14Msg{t: t, done: true}
		}(t)
	}
	c2.VerifC14Install(&c2.VerifC14Hooks{
		Yield: func(label string) {
			t := r.cur
			r.msgs <- c14Msg{t: t, label: label}
			<-r.resume[t]
			if r.abandon {
				runtime.Goexit()
			}
		},
		Rand: func() uint32 {
			t := r.cur
			d := r.prog[t].draws
			if r.drawPos[t] < len(d) {
				r.drawPos[t]++
				return d[r.drawPos[t]-1]
			}
			return 0
		},
	})
	c2.VerifC14InstallS(true)
	return rs
}

func (r *c14sRun) steppableS(t int) bool {
	if t < 0 || t >= len(r.prog) || r.fin[t] || r.hung {
		return false
	}
	th := r.prog[t]
	if th.kind == 'C' || c14sIsReader(th.kind) {
		if th.dep < 0 || th.dep >= len(r.prog) || !r.fin[th.dep] {
			return false
		}
	}
	return true
}

var c14sFinal = map[uint8]bool{uint8(c2.VerifC14StatusCompleted): true, uint8(c2.VerifC14StatusError): true, uint8(c2.VerifC14StatusCanceled): true}

// stepS releases thread t for exactly one action; "Lb" (lock held by a parked thread) and "Wb"
// (receive would block) are no-op steps: the thread stays where it was.
func (r *c14sRun) stepS(t int) {
	if !r.steppableS(t) {
		return
	}
	th := r.prog[t]
	if !r.started[t] {
		r.started[t] = true
		if c14sIsReader(th.kind) {
			if j := r.retJob[th.dep]; j != nil {
				if i, ok := r.refOf[j]; ok {
					r.obs[t].closedAtRun = c14ChanClosed(r.chS[i])
				}
			}
		}
	}
	if th.kind == 'T' && th.wf {
		c2.VerifC14Fill(r.s, c14SendCap-1)
	}
	before := make([]bool, len(r.jobsS))
	for i := range r.jobsS {
		before[i] = c14ChanClosed(r.chS[i])
	}
	r.cur = t
	r.resume[t] <- struct{}{}
	select {
	case m := <-r.msgs:
		if m.done {
			r.fin[t] = true
		} else if m.label != "Lb" && m.label != "Wb" {
			r.label[t] = m.label
		}
	case <-time.After(c14StepTimeout):
		r.hung, r.hungAt = true, r.label[t]
		r.failf("hang", "hang:"+c14KindName(th.kind)+":"+r.label[t], "thread %d (%s) did not reach a yield point within %v after %s", t, c14sProgTok(r.prog[t:t+1]), c14StepTimeout, r.label[t])
		return
	}
	r.pub = append(r.pub, c2.VerifC14Drain(r.s)...)
	if th.kind == 'T' && r.fin[t] && r.retJob[t] != nil {
		j := r.retJob[t]
		r.refOf[j] = len(r.jobsS)
		r.jobsS = append(r.jobsS, j)
		ch := c2.VerifC14Done(j)
		if ch == nil {
			ch = make(chan struct{})
			r.failf("task", "task:new-job-without-done", "Task returned a Job with a nil done channel")
		}
		r.chS = append(r.chS, ch)
		r.firstS = append(r.firstS, "")
		r.finalS = append(r.finalS, 0)
	}
	if th.kind == 'e' && r.fin[t] && r.out[t] == "d1" {
		if j := r.retJob[th.dep]; j != nil {
			if i, ok := r.refOf[j]; ok && !c14ChanClosed(r.chS[i]) {
				r.failf("status", "reader:iserror-true-before-done", "thread %d: IsError() = true on Job #%d (number %d) whose done channel is not closed yet", t, i, j.ID)
			}
		}
	}
	// the G.4 oracle: in EVERY state between two single actions a released Job has its final Status
	for i, j := range r.jobsS {
		closed := c14ChanClosed(r.chS[i])
		if i < len(before) && !before[i] && closed {
			ev := "by-" + c14KindName(th.kind)
			switch {
			case th.kind == 'R' && th.ef:
				ev = "error"
			case th.kind == 'R':
				ev = "completed"
			case th.kind == 'C':
				ev = "canceled"
			default:
				r.failf("once", "closed-by:"+c14KindName(th.kind), "Job #%d closed by thread %d", i, t)
			}
			r.firstS[i] = ev
			r.finalS[i] = uint8(j.Status)
			if want, ok := c14StatusName[ev]; ok && uint64(j.Status) != want {
				r.failf("status", fmt.Sprintf("substep:released-with-status%d:%s", j.Status, ev), "Job #%d (number %d): thread %d (%s) closed the done channel while Status is %d (final Status of '%s' is %d): a waiter released now reads a Status that is not final", i, j.ID, t, c14sProgTok(r.prog[t:t+1]), j.Status, ev, want)
			}
		}
		if i < len(before) && before[i] && !closed {
			r.failf("once", "reopened", "Job #%d done channel not closed any more", i)
		}
		if closed && i < len(before) && before[i] && uint8(j.Status) != r.finalS[i] {
			r.failf("status", "substep:status-changed-after-release:"+c14KindName(th.kind), "Job #%d (number %d): Status changed %d -> %d by thread %d (%s) after the waiters were released", i, j.ID, r.finalS[i], j.Status, t, c14sProgTok(r.prog[t:t+1]))
			r.finalS[i] = uint8(j.Status)
		}
		if c2.VerifC14DoneNil(j) && !closed {
			r.failf("once", "substep:done-nil-before-close", "Job #%d: the done field is nil but the channel is not closed (Wait returns at once, IsDone says true, for a Job that is not finished)", i)
		}
	}
}

func (r *c14sRun) mappedS(t int) string {
	if r.fin[t] {
		return "end"
	}
	return r.label[t]
}

func (r *c14sRun) runScriptS(sc []c14Entry) {
	for _, e := range sc {
		if e.lbl == "" {
			r.stepS(e.t)
			continue
		}
		for k := 0; k < 16; k++ {
			if e.t < 0 || e.t >= len(r.prog) || r.mappedS(e.t) == e.lbl || r.fin[e.t] {
				break
			}
			was := r.mappedS(e.t)
			r.stepS(e.t)
			if r.mappedS(e.t) == was {
				break
			}
		}
	}
	n := len(r.prog)
	for round := 0; round < 12*n+12 && !r.hung; round++ {
		moved := false
		for t := 0; t < n; t++ {
			was := r.mappedS(t)
			r.stepS(t)
			if r.mappedS(t) != was {
				moved = true
			}
		}
		if !moved {
			break
		}
	}
}

func (r *c14sRun) resTag(p *com.Packet) string {
	if p == nil {
		return "-"
	}
	if g, ok := r.pkTag[p]; ok {
		return strconv.Itoa(g)
	}
	return "?"
}

// canonS: same format as XMT.Drv.C14.showStateS
func (r *c14sRun) canonS() string {
	b := func(x bool) string {
		if x {
			return "1"
		}
		return "0"
	}
	thr := make([]string, len(r.prog))
	for t, th := range r.prog {
		switch {
		case !r.fin[t]:
			thr[t] = "blk@" + r.mappedS(t)
		case r.out[t] == "job":
			thr[t] = "job" + strconv.Itoa(r.refOf[r.retJob[t]])
		default:
			thr[t] = r.out[t]
		}
		if (th.kind == 'w' || th.kind == 'd') && r.fin[t] {
			o := r.obs[t]
			f := []string{"_", "_", "_"}
			if o.has[0] {
				f[0] = strconv.Itoa(int(o.st))
			}
			if o.has[1] {
				f[1] = r.resTag(o.res)
			}
			if o.has[2] {
				f[2] = b(o.err)
			}
			thr[t] += "[" + strings.Join(f, "/") + "]"
		}
	}
	jobs := make([]string, len(r.jobsS))
	for i, j := range r.jobsS {
		jobs[i] = fmt.Sprintf("%d/%d/%s/%s/%s/%s/%d/%d", j.ID, uint8(j.Status), b(c14ChanClosed(r.chS[i])), b(c2.VerifC14DoneNil(j)),
			r.resTag(j.Result), b(len(j.Error) > 0), j.Frags, j.Current)
	}
	tab := c2.VerifC14TablePeek(r.s)
	var ids []int
	for id := range tab {
		ids = append(ids, int(id))
	}
	sort.Ints(ids)
	var te []string
	for _, id := range ids {
		ref := -1
		if j := tab[uint16(id)]; j != nil {
			if v, ok := r.refOf[j]; ok {
				ref = v
			}
		}
		te = append(te, fmt.Sprintf("%d>%d", id, ref))
	}
	pub := make([]string, len(r.pub))
	for i, p := range r.pub {
		pub[i] = strconv.Itoa(int(p))
	}
	d := func(s string) string {
		if s == "" {
			return "-"
		}
		return s
	}
	return fmt.Sprintf("thr=%s jobs=%s tab=%s n=%d pub=%s lock=%s", d(strings.Join(thr, ",")), d(strings.Join(jobs, ";")),
		d(strings.Join(te, ",")), len(tab), d(strings.Join(pub, ".")), b(!c2.VerifC14LockFree(r.s)))
}

func (r *c14sRun) finalOraclesS() {
	if r.hung {
		return
	}
	if !c2.VerifC14LockFree(r.s) {
		r.failf("panic", "lock:held-after-quiescence", "the session lock is still held after every thread stopped")
	}
	tab := c2.VerifC14TablePeek(r.s)
	for i, j := range r.jobsS {
		closed := c14ChanClosed(r.chS[i])
		if closed && tab[j.ID] == j {
			r.failf("table", "table:finished-job-still-pending", "Job #%d (number %d) is finished but still in the pending table", i, j.ID)
		}
		if closed {
			if want, ok := c14StatusName[r.firstS[i]]; ok && uint64(j.Status) != want {
				r.failf("status", fmt.Sprintf("status:%s:got%d", r.firstS[i], j.Status), "Job #%d (number %d) was finished first by '%s' but its final Status is %d", i, j.ID, r.firstS[i], j.Status)
			}
			if j.Result != nil && j.Result.Job != j.ID {
				r.failf("foreign", "foreign:result-of-other-number", "Job #%d (number %d) holds a result packet with Job number %d", i, j.ID, j.Result.Job)
			}
			if (r.firstS[i] == "canceled") && (j.Result != nil || len(j.Error) > 0) {
				r.failf("foreign", "foreign:cancelled-job-has-result", "Job #%d (number %d) was cancelled but holds a Result / Error", i, j.ID)
			}
		}
	}
	for t, th := range r.prog {
		if !c14sIsReader(th.kind) || th.dep < 0 || th.dep >= len(r.prog) {
			continue
		}
		j := r.retJob[th.dep]
		if j == nil {
			continue
		}
		i, ok := r.refOf[j]
		if !ok {
			continue
		}
		closed := c14ChanClosed(r.chS[i])
		o := r.obs[t]
		who := map[byte]string{'w': "wait", 'd': "isdone", 'e': "iserror"}[th.kind]
		if th.kind == 'w' && !r.fin[t] && r.started[t] && closed && !o.doneTrue {
			r.failf("wait", "blocked:wait-after-finish", "thread %d: Wait() on Job #%d is still blocked although the Job is finished", t, i)
		}
		if o.doneTrue && !closed {
			r.failf("wait", "reader:done-before-finish:"+who, "thread %d: %s reported Job #%d done, but its channel is not closed", t, who, i)
		}
		if th.kind == 'd' && r.fin[t] && r.out[t] == "d0" && o.closedAtRun {
			r.failf("wait", "isdone:false-after-finish", "thread %d: IsDone() on Job #%d returned false although the Job was finished before the call", t, i)
		}
		if o.has[0] && o.doneTrue {
			if !c14sFinal[o.st] {
				r.failf("status", fmt.Sprintf("reader:nonfinal-status%d:%s", o.st, who), "thread %d: after %s reported Job #%d (number %d) done, j.Status read %d, which is not a final Status (the Job ended with %d, finished by '%s')", t, who, i, j.ID, o.st, j.Status, r.firstS[i])
			} else if o.st != uint8(j.Status) {
				r.failf("status", "reader:status-changed-after-done:"+who, "thread %d: after %s reported Job #%d done, j.Status read %d but the Job ended with %d", t, who, i, o.st, j.Status)
			}
		}
		if o.has[1] && o.doneTrue && o.res != j.Result {
			r.failf("foreign", "reader:result-changed-after-done:"+who, "thread %d: the Result read after %s reported Job #%d done is not the Job's final Result", t, who, i)
		}
		if o.has[1] && o.res != nil && o.res.Job != j.ID {
			r.failf("foreign", "reader:foreign-result:"+who, "thread %d: Result read from Job #%d (number %d) carries Job number %d", t, i, j.ID, o.res.Job)
		}
		if o.has[2] && o.doneTrue && o.err != (len(j.Error) > 0) {
			r.failf("status", "reader:error-changed-after-done:"+who, "thread %d: the Error read after %s reported Job #%d done differs from the final one", t, who, i)
		}
		if th.kind == 'e' && r.fin[t] {
			if r.out[t] == "d1" && r.firstS[i] != "error" {
				r.failf("status", "reader:iserror-true-without-error", "thread %d: IsError() = true on Job #%d, which was finished by '%s'", t, i, r.firstS[i])
			}
			if r.out[t] == "d0" && o.closedAtRun && r.firstS[i] == "error" {
				r.failf("status", "reader:iserror-false-after-error", "thread %d: IsError() = false on Job #%d, which was finished by an error result before the call", t, i)
			}
		}
	}
}

func c14sExecute(c *Ctx, prog []c14Thread, sc []c14Entry, group string) {
	c14Mu.Lock()
	defer c14Mu.Unlock()
	r := c14sNewRun(prog)
	r.runScriptS(sc)
	c2.VerifC14Install(nil)
	c2.VerifC14InstallS(false)
	r.finalOraclesS()
	res := "(aborted: " + r.hungAt + ")"
	if !r.hung {
		res = r.canonS()
	}
	r.close()
	ptok, stok := c14sProgTok(prog), c14ScriptTok(sc)
	if !r.hung {
		c.Op("runS F "+ptok+" "+stok, res)
	}
	for _, f := range r.fails {
		c.Fail(f.kind, f.key, f.detail+" | final: "+res, map[string]string{"threads": ptok, "script": stok, "group": group, "op": "runS"})
	}
	kinds := map[byte]bool{}
	for _, t := range prog {
		kinds[t.kind] = true
	}
	c.Eval(kinds['T'] && (kinds['R'] || kinds['C']) && (kinds['w'] || kinds['d'] || kinds['e']) && len(sc) > 0, "S "+ptok+" "+stok)
	c.Count("cases:" + group)
	for t := range prog {
		if c14sIsReader(prog[t].kind) && r.obs[t].doneTrue {
			c.Count("reader-saw-done:" + string(prog[t].kind))
		}
		if !r.fin[t] {
			c.Count("blockedS:" + string(prog[t].kind))
		}
	}
}

func c14sSteps(k byte, ef bool) int {
	switch k {
	case 'R':
		if ef {
			return 8
		}
		return 6
	case 'C':
		return 7
	case 'w', 'd':
		return 5
	case 'e', 'F':
		return 3
	}
	return 2
}

func c14sGenProg(r *Rng) []c14Thread {
	prog := c14GenProg(r, 3+r.Intn(5))
	for i := range prog {
		switch prog[i].kind {
		case 'W':
			prog[i].kind = 'w'
		case 'D':
			prog[i].kind = []byte{'d', 'e'}[r.Intn(2)]
		}
	}
	// at least one reader of a Task's Job
	if r.Chance(70) {
		prog = append(prog, c14Thread{kind: []byte{'w', 'd', 'e', 'w'}[r.Intn(4)], dep: 0})
	}
	return prog
}

func c14sGenScript(r *Rng, prog []c14Thread) []c14Entry {
	var sc []c14Entry
	total := 0
	for t, th := range prog {
		total += c14sSteps(th.kind, th.ef)
		if th.kind == 'T' && r.Chance(75) {
			sc = append(sc, c14Entry{t: t, lbl: "end"})
		}
	}
	if r.Chance(35) { // park a Cancel inside its locked region, let the others run against it
		for t, th := range prog {
			if th.kind == 'C' {
				sc = append(sc, c14Entry{t: t, lbl: []string{"Cm", "Cd", "Cs", "Cc", "Cn"}[r.Intn(5)]})
				break
			}
		}
	}
	if r.Chance(20) {
		for t, th := range prog {
			if th.kind == 'w' {
				sc = append(sc, c14Entry{t: t, lbl: "W2"})
			}
		}
	}
	n := total + r.Intn(total+1)
	for i := 0; i < n; i++ {
		sc = append(sc, c14Entry{t: r.Intn(len(prog) + 1)})
	}
	return sc
}

// witnesses (label scripts) of the sub-step defects; on the repaired code they pass
var c14sCorpus = [][2]string{
	// Cancel parked after close(done), before the Status store (order before the repair): the
	// released waiter reads Status = Waiting. Lean: XMT.Props.C14.orig_cancel_releases_before_status
	{"T:5:0:-,C:0,w:0", "0@end,2@W2,1@Cs,2@end,1@end"},
	{"T:5:0:-,C:0,d:0", "0@end,1@Cs,2@end,1@end"},
	{"T:5:0:-,A:5,C:0,w:0", "0@end,1@end,3@W2,2@Cs,3@end,2@end"},
	{"T:5:0:-,C:0,w:0", "0@end,2@W2,1@Cc,2@end,1@Cn,2@end,1@end"},
	{"T:5:0:-,C:0,e:0", "0@end,1@Cn,2@end,1@end"},
	// handle: error-flagged result, reader between the stores
	{"T:5:0:-,R:5:1:0,w:0", "0@end,2@W2,1@H2e,2@end,1@H4,2@end,1@H5,2@end,1@end"},
	{"T:5:0:-,R:5:1:0,e:0", "0@end,1@H5,2@end,1@end"},
	// Cancel inside its region against handle / accept / frag / Task needing the lock
	{"T:5:0:-,C:0,R:5:0:0,w:0", "0@end,1@Cd,2@end,3@end,1@end"},
	{"T:5:0:-,C:0,A:5,F:5:3:1,T:7:0:-", "0@end,1@Cc,2@end,3@end,4@end,1@end"},
	{"T:5:0:-,F:5:3:1,C:0,d:0", "0@end,1@F3,2@end,3@end,1@end"},
}

func runC14S(c *Ctx) {
	c.Cases("sub:corpus", len(c14sCorpus), func(r *Rng, i int) {
		prog, sc, err := c14sParse(c14sCorpus[i][0], c14sCorpus[i][1])
		if err != nil {
			c.Fail("corpus", "corpus:bad-line", err.Error(), c14sCorpus[i][0])
			return
		}
		c14sExecute(c, prog, sc, "sub:corpus")
	})
	type small struct {
		name, prog string
		cnt, tid   []int
	}
	smalls := []small{
		{"cancel|waitRd", "T:5:0:-,C:0,w:0", []int{7, 6}, []int{1, 2}},
		{"cancel|doneRd", "T:5:0:-,C:0,d:0", []int{7, 5}, []int{1, 2}},
		{"cancel|isError", "T:5:0:-,C:0,e:0", []int{7, 3}, []int{1, 2}},
		{"handleErr|waitRd", "T:5:0:-,R:5:1:0,w:0", []int{8, 6}, []int{1, 2}},
		{"handleErr|isError", "T:5:0:-,R:5:1:0,e:0", []int{8, 3}, []int{1, 2}},
		{"handle|cancel|waitRd", "T:5:0:-,R:5:0:0,C:0,w:0", []int{6, 7, 6}, []int{1, 2, 3}},
		{"cancel|cancel|doneRd", "T:5:0:-,C:0,C:0,d:0", []int{7, 7, 5}, []int{1, 2, 3}},
		{"accept|cancel|waitRd", "T:5:0:-,A:5,C:0,w:0", []int{2, 7, 6}, []int{1, 2, 3}},
		{"frag|cancel|doneRd", "T:5:0:-,F:5:3:1,C:0,d:0", []int{3, 7, 5}, []int{1, 2, 3}},
		{"cancel|task same number", "T:5:0:-,C:0,T:5:0:-,R:5:0:2", []int{7, 2, 6}, []int{1, 2, 3}},
	}
	lim := c.N(250, 20000)
	for _, sm := range smalls {
		prog, _, err := c14sParse(sm.prog, "-")
		if err != nil {
			panic(err)
		}
		scheds := c14AllSchedules(append([]int(nil), sm.cnt...), sm.tid, 60000)
		c.Extra["exhaustiveS:"+sm.name] = len(scheds)
		stride := 1
		if len(scheds) > lim {
			stride = len(scheds)/lim + 1
		}
		c.Cases("sub:"+sm.name, (len(scheds)+stride-1)/stride, func(r *Rng, i int) {
			sch := scheds[(i*stride+int(c.Seed)*7)%len(scheds)]
			if len(scheds) >= 60000 { // enumeration cut off (depth-first: biased): a random interleaving instead
				sch = append([]int(nil), scheds[0]...)
				for a := len(sch) - 1; a > 0; a-- {
					b := r.Intn(a + 1)
					sch[a], sch[b] = sch[b], sch[a]
				}
			}
			sc := []c14Entry{{t: 0, lbl: "end"}}
			for _, t := range sch {
				sc = append(sc, c14Entry{t: t})
			}
			c14sExecute(c, prog, sc, "sub:small")
		})
	}
	c.Cases("sub:random", c.N(2500, 60000), func(r *Rng, i int) {
		prog := c14sGenProg(r)
		c14sExecute(c, prog, c14sGenScript(r, prog), "sub:random")
	})
}

// ---- facts: the ORDER of the shared-memory writes inside the locked / finishing regions --------

// c14sStmtNames renders the statements of a block as write names, in source order:
// assignments to j.<fields> ("assign:Status,done"), map stores ("mapnil"), delete / close calls.
func c14sStmtNames(list []ast.Stmt, recv string, out *[]string, cond bool) {
	q := ""
	if cond {
		q = "?"
	}
	var expr func(e ast.Expr)
	assign := func(a *ast.AssignStmt) {
		var fields []string
		for _, l := range a.Lhs {
			switch v := l.(type) {
			case *ast.SelectorExpr:
				if id, ok := v.X.(*ast.Ident); ok && id.Name == recv {
					fields = append(fields, v.Sel.Name)
				}
			case *ast.IndexExpr:
				if strings.HasSuffix(c14ExprString(v.X), "jobs") {
					*out = append(*out, q+"mapset")
				}
			}
		}
		if len(fields) > 0 {
			*out = append(*out, q+"assign:"+strings.Join(fields, ","))
		}
		for _, r := range a.Rhs {
			expr(r)
		}
	}
	expr = func(e ast.Expr) {
		ce, ok := e.(*ast.CallExpr)
		if !ok {
			return
		}
		switch f := ce.Fun.(type) {
		case *ast.Ident:
			if f.Name == "close" || f.Name == "delete" {
				*out = append(*out, q+f.Name)
			}
		case *ast.SelectorExpr:
			if f.Sel.Name == "ReadString" && len(ce.Args) == 1 {
				if u, ok := ce.Args[0].(*ast.UnaryExpr); ok && u.Op == token.AND {
					if se, ok := u.X.(*ast.SelectorExpr); ok {
						*out = append(*out, q+"call:ReadString(&"+se.Sel.Name+")")
					}
				}
			}
		}
	}
	for _, st := range list {
		switch v := st.(type) {
		case *ast.AssignStmt:
			assign(v)
		case *ast.ExprStmt:
			expr(v.X)
		case *ast.IfStmt:
			if a, ok := v.Init.(*ast.AssignStmt); ok {
				assign(a)
			}
			// the body of `if j.done != nil {…}` / `if ok {…}` is the normal path, other ifs are conditional
			c := c14sCondString(v.Cond)
			inner := cond || !(c == recv+".done != nil" || c == "ok")
			if c == "!ok" || strings.Contains(c, "== nil") || strings.Contains(c, "Enabled") || strings.Contains(c, "Update") || strings.Contains(c, "Moving") {
				continue // early returns, logging, event queueing
			}
			c14sStmtNames(v.Body.List, recv, out, inner)
		}
	}
}

func c14sCondString(e ast.Expr) string {
	switch v := e.(type) {
	case *ast.BinaryExpr:
		return c14sCondString(v.X) + " " + v.Op.String() + " " + c14sCondString(v.Y)
	case *ast.UnaryExpr:
		return v.Op.String() + c14sCondString(v.X)
	case *ast.BasicLit:
		return v.Value
	case *ast.CallExpr:
		return c14sCondString(v.Fun) + "()"
	}
	return c14ExprString(e)
}

func init() {
	factProviders = append(factProviders, func(f *factSet, repo string) error {
		fs := token.NewFileSet()
		body := func(file, fn string) ([]ast.Stmt, error) {
			pf, err := parser.ParseFile(fs, repo+"/"+file, nil, 0)
			if err != nil {
				return nil, err
			}
			for _, d := range pf.Decls {
				if fd, ok := d.(*ast.FuncDecl); ok && fd.Name.Name == fn && fd.Body != nil && fd.Recv != nil {
					return fd.Body.List, nil
				}
			}
			return nil, fmt.Errorf("c14s facts: no method %s in %s", fn, file)
		}
		lean := func(xs []string) string {
			q := make([]string, len(xs))
			for i, x := range xs {
				q[i] = strconv.Quote(x)
			}
			return "[" + strings.Join(q, ", ") + "]"
		}
		for _, x := range []struct{ name, file, fn string }{
			{"c14sCancelOrder", "c2/job.go", "Cancel"},
			{"c14sHandleOrder", "c2/session_no_implant.go", "handle"},
			{"c14sAcceptOrder", "c2/session_no_implant.go", "accept"},
			{"c14sFragOrder", "c2/session_no_implant.go", "frag"},
		} {
			b, err := body(x.file, x.fn)
			if err != nil {
				return err
			}
			var names []string
			c14sStmtNames(b, "j", &names, false)
			f.Raw(x.name, "List String", lean(names))
		}
		return nil
	})
}
