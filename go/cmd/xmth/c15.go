package main

// C15 — packets are only ever processed in the session of the device they name.
//
// The harness drives the REAL c2.Listener.talk / talkSub / conn.process(Multiple) / conn.resolve,
// c2.Server.Session / Remove and c2.Proxy.accept / talk / talkSub (through the in-package hook
// go/hooks/c2/zz_verif_c15.go; no sockets) with histories over small pools of device IDs that
// contain REAL pairs of IDs whose 32-bit device.ID.Hash values collide (birthday search at run
// time, deterministic from the seed).  Every history is (a) printed as one op line that the Lean
// model (XMT/Route.lean) replays, and (b) judged step by step by direct oracles that only look at
// the real code's observable effects.

import (
	"errors"
	"fmt"
	"io"
	"sort"
	"strconv"
	"strings"
	"sync"

	"github.com/iDigitalFlame/xmt/c2"
	"github.com/iDigitalFlame/xmt/com"
	"github.com/iDigitalFlame/xmt/com/limits"
	"github.com/iDigitalFlame/xmt/device"
)

// ---- colliding IDs ------------------------------------------------------------------------------

var (
	c15CollMu    sync.Mutex
	c15CollCache = map[uint64][][2]device.ID{}
)

func c15RandID(r *Rng) device.ID {
	var i device.ID
	copy(i[:], r.Bytes(device.IDSize))
	if i[0] == 0 {
		i[0] = 1
	}
	return i
}

// c15Collisions returns `want` pairs of distinct IDs with equal Hash(), found by a birthday search
// over random IDs (about 2^16.5 draws for the first pair).
func c15Collisions(seed uint64, want int) ([][2]device.ID, int) {
	c15CollMu.Lock()
	defer c15CollMu.Unlock()
	if v, ok := c15CollCache[seed]; ok && len(v) >= want {
		return v[:want], 0
	}
	r := NewRng(seed, 0xC15C0111)
	seen := make(map[uint32]device.ID, 1<<18)
	var out [][2]device.ID
	n := 0
	for len(out) < want && n < 1<<24 {
		i := c15RandID(r)
		n++
		h := i.Hash()
		if o, ok := seen[h]; ok && o != i {
			out = append(out, [2]device.ID{o, i})
			continue
		}
		seen[h] = i
	}
	c15CollCache[seed] = out
	return out, n
}

// ---- packet specifications ----------------------------------------------------------------------

// c15Sub describes one packet without nested content. dev indexes the case's ID pool.
// pay: 'e' empty, 'd' 8 data bytes, 'h' valid hello device info, 'x' 3 garbage bytes.
type c15Sub struct {
	dev   int
	pid   uint8
	job   uint16
	flags uint64
	pay   byte
}

// c15Tag is one tag of a top-level packet: the hash of pool id `idx` (what a proxy that serves
// that device announces), or a literal value when idx < 0.
type c15Tag struct {
	idx int
	lit uint32
}

type c15Pkt struct {
	c15Sub
	tags []c15Tag
	subs []c15Sub
}

func (s c15Sub) tok(sep string) string {
	return strings.Join([]string{strconv.Itoa(s.dev), strconv.Itoa(int(s.pid)), strconv.Itoa(int(s.job)),
		strconv.FormatUint(s.flags, 10), string(rune(s.pay))}, sep)
}

func (p c15Pkt) tok(ids []device.ID) string {
	t := "-"
	if len(p.tags) > 0 {
		x := make([]string, len(p.tags))
		for i, g := range p.tags {
			x[i] = strconv.FormatUint(uint64(g.val(ids)), 10)
		}
		t = strings.Join(x, "+")
	}
	s := "-"
	if len(p.subs) > 0 {
		x := make([]string, len(p.subs))
		for i := range p.subs {
			x[i] = p.subs[i].tok(",")
		}
		s = strings.Join(x, "/")
	}
	return p.c15Sub.tok(":") + ":" + t + ":" + s
}

func (g c15Tag) val(ids []device.ID) uint32 {
	if g.idx >= 0 {
		return ids[g.idx].Hash()
	}
	return g.lit
}

func c15Payload(n *com.Packet, id device.ID, kind byte) {
	switch kind {
	case 'd':
		n.Write([]byte{0xC1, 0x5C, 1, 2, 3, 4, 5, 6})
	case 'h':
		// the hello BODY repeats a device ID (Machine.ID in the device information); nothing may route
		// by it: the table, the look-up and every check go by the ID in the packet header. One hello in
		// three carries another ID in its body (what a crafted client can send).
		body := id
		if n.Job%3 == 0 {
			for k := 8; k < len(body); k++ {
				body[k] ^= byte(0x5A + k)
			}
		}
		c2.VerifC15HelloPayload(n, body, false)
	case 'x':
		n.Write([]byte{0xFF, 0xFE, 0xFD})
	}
}

func (s c15Sub) build(ids []device.ID) *com.Packet {
	n := &com.Packet{ID: s.pid, Job: s.job, Flags: com.Flag(s.flags), Device: ids[s.dev]}
	c15Payload(n, ids[s.dev], s.pay)
	return n
}

func (p c15Pkt) build(ids []device.ID) *com.Packet {
	n := &com.Packet{ID: p.pid, Job: p.job, Flags: com.Flag(p.flags), Device: ids[p.dev]}
	if len(p.subs) > 0 {
		for _, s := range p.subs {
			s.build(ids).MarshalStream(n)
		}
	} else {
		c15Payload(n, ids[p.dev], p.pay)
	}
	for _, g := range p.tags {
		n.Tags = append(n.Tags, g.val(ids))
	}
	return n
}

// ---- canonical rendering (shared with the model's output format) ---------------------------------

func c15Idx(ids []device.ID, i device.ID) string {
	for k := range ids {
		if ids[k] == i {
			return strconv.Itoa(k)
		}
	}
	return "?"
}

func c15ErrClass(err error) string {
	switch {
	case err == nil:
		return "nil"
	case errors.Is(err, io.ErrClosedPipe):
		return "closed"
	case errors.Is(err, io.ErrShortBuffer):
		return "short"
	case errors.Is(err, c2.ErrMalformedPacket):
		return "malformed"
	case errors.Is(err, com.ErrMalformedTag):
		return "badtag"
	case errors.Is(err, c2.ErrInvalidPacketCount):
		return "count"
	case errors.Is(err, io.EOF), errors.Is(err, io.ErrUnexpectedEOF), errors.Is(err, io.ErrNoProgress):
		return "unmarshal"
	case strings.Contains(err.Error(), "does not match our own device ID"):
		return "mismatch"
	}
	return "other(" + err.Error() + ")"
}

type c15Leaf struct {
	dev device.ID
	pid uint8
	job uint16
}

// c15Leaves unpacks a reply packet into its leaf packets (containers flattened, in order).
func c15Leaves(n *com.Packet) ([]c15Leaf, error) {
	if n == nil {
		return nil, nil
	}
	if n.Flags&com.FlagMulti != 0 {
		var out []c15Leaf
		for x := n.Flags.Len(); x > 0; x-- {
			var v com.Packet
			if err := v.UnmarshalStream(n); err != nil {
				return out, err
			}
			l, err := c15Leaves(&v)
			if out = append(out, l...); err != nil {
				return out, err
			}
		}
		return out, nil
	}
	return []c15Leaf{{n.Device, n.ID, n.Job}}, nil
}

func c15LeafStr(ids []device.ID, l []c15Leaf) string {
	if len(l) == 0 {
		return "-"
	}
	s := make([]string, len(l))
	for i := range l {
		s[i] = fmt.Sprintf("%s.%d.%d", c15Idx(ids, l[i].dev), l[i].pid, l[i].job)
	}
	return strings.Join(s, ",")
}

func c15List(s []string) string {
	if len(s) == 0 {
		return "-"
	}
	return strings.Join(s, ",")
}

// ---- one server-side history ----------------------------------------------------------------------

type c15Step struct {
	kind byte // 'T' talk, 'S' talkSub, 'L' lookup, 'R' remove, 'Q' queue
	pkt  c15Pkt
	o    bool // talkSub: channel mode flag
	id   int
	leaf c15Leaf
}

func (s c15Step) tok(ids []device.ID) string {
	switch s.kind {
	case 'T':
		return "T" + s.pkt.tok(ids)
	case 'S':
		o := "0"
		if s.o {
			o = "1"
		}
		return "S" + o + s.pkt.c15Sub.tok(":")
	case 'A':
		return "A" + s.pkt.c15Sub.tok(":")
	case 'L':
		return "L" + strconv.Itoa(s.id)
	case 'R':
		return "R" + strconv.Itoa(s.id)
	}
	return fmt.Sprintf("Q%d.%d.%d", s.id, s.leaf.pid, s.leaf.job)
}

// who names which hash in a step: used by the oracles to attribute a foreign effect to a site.
type c15Named struct {
	devs  map[device.ID]string // device named by a packet element -> site that handles it
	tags  map[uint32]int       // tag value -> pool index the harness meant (-1: literal)
	sites map[uint32]string    // hash -> site through which that hash is looked up
}

func c15NamedOf(ids []device.ID, st c15Step) c15Named {
	n := c15Named{devs: map[device.ID]string{}, tags: map[uint32]int{}, sites: map[uint32]string{}}
	top := "Listener.talk"
	if st.kind == 'S' {
		top = "Listener.talkSub"
	}
	n.devs[ids[st.pkt.dev]] = top
	n.sites[ids[st.pkt.dev].Hash()] = top
	if st.pkt.flags&uint64(com.FlagMultiDevice) != 0 {
		for _, s := range st.pkt.subs {
			if _, ok := n.devs[ids[s.dev]]; !ok {
				n.devs[ids[s.dev]] = "Listener.talkSub"
			}
			if _, ok := n.sites[ids[s.dev].Hash()]; !ok {
				n.sites[ids[s.dev].Hash()] = "Listener.talkSub"
			}
		}
	}
	for _, g := range st.pkt.tags {
		v := g.val(ids)
		n.tags[v] = g.idx
		if _, ok := n.sites[v]; !ok {
			n.sites[v] = "conn.resolve"
		}
	}
	return n
}

func (n c15Named) site(h uint32) string {
	if s, ok := n.sites[h]; ok {
		return s
	}
	return "unknown-site"
}

// c15Quiet suppresses failure reports while a history is re-executed as a controlled experiment.
var c15Quiet bool

// c15WithoutTags re-executes steps[0..si] on a fresh real Server with the tags of step si removed
// and reports (from the real code's observable effects only) whether the Session of pool id
// `target` is still touched / still contributes a leaf in step si.  Used to attribute a foreign
// effect either to tag resolution or to the hash look-up of a packet element when both use the
// same 32-bit value in one step.
func c15WithoutTags(c *Ctx, ids []device.ID, steps []c15Step, si int, target device.ID) (touched, leaf bool) {
	if c15Quiet {
		return false, false
	}
	cp := append([]c15Step(nil), steps[:si+1]...)
	cp[si].pkt.tags = nil
	c15Quiet = true
	out := c15RunServer(c, ids, cp, "")
	c15Quiet = false
	parts := strings.Split(out, " | ")
	if len(parts) < 2 {
		return false, false
	}
	last := parts[len(parts)-2]
	idx := c15Idx(ids, target)
	for _, f := range strings.Fields(last) {
		if strings.HasPrefix(f, "t=") {
			for _, x := range strings.Split(f[2:], ",") {
				if x == idx {
					touched = true
				}
			}
		}
		if strings.HasPrefix(f, "T:ok") {
			seg := strings.Split(f, ":")
			if len(seg) >= 4 {
				for _, x := range strings.Split(seg[3], ",") {
					if strings.HasPrefix(x, idx+".") {
						leaf = true
					}
				}
			}
		}
	}
	return
}

// c15RunServer executes one history on a fresh real Server/Listener, returns the canonical
// answer line, and evaluates the oracles.
func c15RunServer(c *Ctx, ids []device.ID, steps []c15Step, opline string) string {
	env := c2.VerifC15NewEnv()
	defer env.Close()
	var out []string
	input := map[string]interface{}{"op": opline}
	fail := func(kind, key, detail string) {
		if !c15Quiet {
			c.Fail(kind, key, detail, input)
		}
	}
	for si, st := range steps {
		switch st.kind {
		case 'L':
			ok, got := env.Lookup(ids[st.id])
			if !ok {
				out = append(out, "L:-")
				// completeness: if the table holds a session with exactly this ID, it must be returned
				for _, e := range env.Table() {
					if e.ID == ids[st.id] && !ids[st.id].Empty() {
						fail("lookup", "lookup-missed:Server.Session", fmt.Sprintf("step %d: Session(%s) returned nil although that device is registered", si, ids[st.id]))
					}
				}
			} else {
				out = append(out, "L:"+c15Idx(ids, got))
				if got != ids[st.id] {
					fail("lookup", "lookup-foreign:Server.Session", fmt.Sprintf("step %d: Server.Session(%s) returned the Session of device %s (hash 0x%X for both)", si, ids[st.id], got, got.Hash()))
				}
			}
		case 'R':
			before := env.Table()
			if !env.Remove(ids[st.id]) {
				fail("harness", "sync-timeout:Server.Remove", "server event loop did not drain")
			}
			after := env.Table()
			left := map[device.ID]bool{}
			for _, e := range after {
				left[e.ID] = true
			}
			for _, e := range before {
				if !left[e.ID] && e.ID != ids[st.id] {
					fail("remove", "remove-foreign:Server.Remove", fmt.Sprintf("step %d: Server.Remove(%s) removed the Session of device %s", si, ids[st.id], e.ID))
				}
				if left[e.ID] && e.ID == ids[st.id] {
					fail("remove", "remove-missed:Server.Remove", fmt.Sprintf("step %d: Server.Remove(%s) left that Session registered", si, ids[st.id]))
				}
			}
			env.Drain()
			out = append(out, "R")
		case 'Q':
			for _, e := range env.Table() {
				if e.ID == ids[st.id] {
					env.QueueTo(e.Ptr, &com.Packet{ID: st.leaf.pid, Job: st.leaf.job, Device: ids[st.id]})
				}
			}
			out = append(out, "Q")
		case 'T', 'S':
			named := c15NamedOf(ids, st)
			env.ClearMarks()
			before := env.Table()
			prev := map[device.ID]c2.VerifC15Sess{}
			for _, e := range before {
				prev[e.ID] = e
			}
			var (
				res    string
				leaves []c15Leaf
				lerr   error
			)
			if st.kind == 'T' {
				o := env.Talk("A", st.pkt.build(ids))
				if o.Err != nil {
					res = "err:" + c15ErrClass(o.Err)
				} else {
					leaves, lerr = c15Leaves(o.Next)
					h := "-"
					if !o.HostNil {
						h = c15Idx(ids, o.HostID)
					}
					ok := "0"
					if o.OK {
						ok = "1"
					}
					sb := make([]string, len(o.Subs))
					for i := range o.Subs {
						sb[i] = strconv.FormatUint(uint64(o.Subs[i]), 10)
					}
					res = "ok" + ok + ":h" + h + ":" + c15LeafStr(ids, leaves) + ":s" + c15List(sb)
				}
			} else {
				has, hid, q, r, err := env.TalkSub("A", st.pkt.c15Sub.build(ids), st.o)
				if err != nil {
					res = "err:" + c15ErrClass(err)
				} else {
					leaves, lerr = c15Leaves(r)
					h := "-"
					if has {
						h = c15Idx(ids, hid)
					}
					res = "ok:h" + h + ":q" + strconv.FormatUint(uint64(q), 10) + ":" + c15LeafStr(ids, leaves)
				}
			}
			if lerr != nil {
				fail("reply", "reply-unreadable:"+named.site(ids[st.pkt.dev].Hash()), "reply container does not unpack: "+lerr.Error())
			}
			if !env.Sync() {
				fail("harness", "sync-timeout:Listener.talk", "server event loop did not drain")
			}
			recv, one, news, _ := env.Drain()
			after := env.Table()
			var touched, keyed, rs, os, ns []string
			for _, e := range after {
				p, existed := prev[e.ID]
				if existed && p.Ptr != e.Ptr {
					existed = false
				}
				if e.Host != "" || e.LastSet {
					touched = append(touched, c15Idx(ids, e.ID))
					legitTag := false
					if idx, ok := named.tags[e.Key]; ok && idx >= 0 && ids[idx] == e.ID {
						legitTag = true // the peer announced (by tag) that it serves exactly this device
					}
					if _, ok := named.devs[e.ID]; !ok && !legitTag {
						site := named.site(e.Key)
						what := "touch-foreign:"
						if _, viaTag := named.tags[e.Key]; viaTag && site != "conn.resolve" {
							// the same 32-bit value is used by a tag and by a packet element:
							// controlled experiment on the real code without the tags
							if still, _ := c15WithoutTags(c, ids, steps, si, e.ID); !still {
								site = "conn.resolve"
							}
						}
						if site == "conn.resolve" {
							what = "tag-collision-touch:"
						}
						fail("effects", what+site, fmt.Sprintf("step %d: host/Last of the Session of device %s was updated by a packet that does not name it (hash 0x%X shared with a named device)", si, e.ID, e.Key))
					}
				}
				if existed && p.Pub != e.Pub {
					// (p.Pub is the 0xA5 sentinel written by ClearMarks just before the step)
					keyed = append(keyed, c15Idx(ids, e.ID))
					if _, ok := named.devs[e.ID]; !ok {
						fail("effects", "key-foreign:"+named.site(e.Key), fmt.Sprintf("step %d: key material of the Session of device %s was replaced by a packet that does not name it", si, e.ID))
					} else if st.kind == 'T' && st.pkt.flags&uint64(com.FlagMultiDevice) != 0 {
						// inside a batch: only an element that names this device AND carries FlagCrypt may re-key it
						okk := false
						for _, s := range st.pkt.subs {
							if ids[s.dev] == e.ID && s.flags&uint64(com.FlagCrypt) != 0 && s.pay != 'e' {
								okk = true
							}
						}
						site := "conn.processMultiple"
						for _, s := range st.pkt.subs {
							if ids[s.dev] != e.ID && ids[s.dev].Hash() == e.Key {
								site = "Listener.talkSub" // reached through a colliding batch element
							}
						}
						if !okk {
							fail("effects", "key-foreign:"+site, fmt.Sprintf("step %d: key material of the Session of device %s was replaced although no packet naming it carried key data", si, e.ID))
						}
					}
				}
				if e.Key != e.ID.Hash() {
					fail("table", "table-key:Server.sessions", fmt.Sprintf("step %d: Session %s stored under key 0x%X", si, e.ID, e.Key))
				}
			}
			for _, e := range before {
				// a registered Session must not be displaced by another device's traffic
				found := false
				for _, a := range after {
					if a.Ptr == e.Ptr {
						found = true
					}
				}
				if !found {
					if _, ok := named.devs[e.ID]; !ok {
						fail("effects", "displaced:"+named.site(e.Key), fmt.Sprintf("step %d: the Session of device %s was displaced from the table by a packet that does not name it", si, e.ID))
					}
				}
			}
			sort.Strings(touched)
			sort.Strings(keyed)
			for _, x := range recv {
				rs = append(rs, fmt.Sprintf("%s>%s.%d.%d", c15Idx(ids, x.Sess), c15Idx(ids, x.Dev), x.ID, x.Job))
				if x.Sess != x.Dev {
					site := named.site(x.Dev.Hash())
					if x.Sess.Hash() != x.Dev.Hash() {
						site = "receive"
					}
					what := "handler-foreign:"
					if st.kind == 'T' && st.pkt.flags&uint64(com.FlagMultiDevice) == 0 {
						for _, s := range st.pkt.subs {
							if ids[s.dev] == x.Dev && s.flags&uint64(com.FlagMultiDevice) != 0 {
								what = "mdflag-bypass:" // element flagged MultiDevice skips receive's device test
							}
						}
					}
					fail("effects", what+site, fmt.Sprintf("step %d: the handler of Session %s fired for a packet naming device %s", si, x.Sess, x.Dev))
				}
			}
			for _, x := range one {
				os = append(os, c15Idx(ids, x))
			}
			for _, x := range news {
				ns = append(ns, c15Idx(ids, x))
				if _, ok := named.devs[x]; !ok {
					fail("effects", "register-foreign:"+named.site(x.Hash()), fmt.Sprintf("step %d: a Session for %s was created although no packet names it", si, x))
				}
			}
			// outbound: every leaf handed to this connection names a device the peer serves
			for _, l := range leaves {
				if _, ok := named.devs[l.dev]; ok {
					continue
				}
				viaTag := false
				if idx, ok := named.tags[l.dev.Hash()]; ok {
					viaTag = true
					if idx >= 0 && ids[idx] == l.dev {
						continue
					}
				}
				if viaTag && named.site(l.dev.Hash()) != "conn.resolve" {
					if _, still := c15WithoutTags(c, ids, steps, si, l.dev); still {
						viaTag = false
					}
				}
				if viaTag {
					fail("outbound", "tag-collision-outbound:conn.resolve", fmt.Sprintf("step %d: a queued packet of device %s was handed to the connection of %s, which announced a tag for another device with the same hash 0x%X", si, l.dev, ids[st.pkt.dev], l.dev.Hash()))
				} else {
					fail("outbound", "outbound-foreign:"+named.site(l.dev.Hash()), fmt.Sprintf("step %d: a packet naming device %s was handed to the connection of %s", si, l.dev, ids[st.pkt.dev]))
				}
			}
			// unknown device, not a hello: re-registration request and nothing else
			if st.kind == 'T' && st.pkt.pid != c2.SvHello && !ids[st.pkt.dev].Empty() {
				if _, known := prev[ids[st.pkt.dev]]; !known {
					if !(len(leaves) == 1 && leaves[0].pid == c2.SvRegister && leaves[0].dev == ids[st.pkt.dev]) {
						fail("unknown", "unknown-no-register:Listener.talk", fmt.Sprintf("step %d: packet from unregistered device %s answered with %s instead of SvRegister", si, ids[st.pkt.dev], res))
					}
					if len(touched)+len(keyed)+len(rs)+len(ns) > 0 {
						fail("unknown", "unknown-side-effect:Listener.talk", fmt.Sprintf("step %d: packet from unregistered device %s had effects touched=%v keyed=%v recv=%v new=%v", si, ids[st.pkt.dev], touched, keyed, rs, ns))
					}
				}
			}
			out = append(out, fmt.Sprintf("%c:%s t=%s k=%s r=%s o=%s n=%s", st.kind, res, c15List(touched), c15List(keyed), c15List(rs), c15List(os), c15List(ns)))
		}
	}
	var tb []string
	for _, e := range env.Table() {
		tb = append(tb, fmt.Sprintf("%d:%s:%d", e.Key, c15Idx(ids, e.ID), e.Queued))
	}
	out = append(out, "tbl="+c15List(tb))
	return strings.Join(out, " | ")
}

// c15RelaySteps: a proxy P (ids[0]) relays for others. C (ids[1]) and sometimes D (ids[2]) are
// registered, k packets are queued for C, then P sends a multi-device batch that carries C's tag and
// whose elements leave the reply empty (oneshots, nested batches) or fill it (a packet of P itself /
// of D): the reply is then built from the tag-resolved batches alone, or merged with them. Returns
// the steps and the packets queued for C.
func c15RelaySteps(r *Rng, ids []device.ID) ([]c15Step, []c15Leaf) {
	var queued []c15Leaf
	// directed: a proxy P relays for others. C (and D) are registered, k packets are queued for C,
	// then P sends a multi-device batch that carries C's tag and whose elements leave the reply
	// empty (oneshots, nested batches), or fill it (a packet of P itself / of D): the reply is
	// then built from the tag-resolved batches alone, or merged with them
	pi, ci, di := 0, 1, 2
	hello := func(d int) c15Step {
		return c15Step{kind: 'T', pkt: c15Pkt{c15Sub: c15Sub{dev: d, pid: c2.SvHello, job: uint16(1 + r.Intn(65000)), pay: 'h'}}}
	}
	steps := []c15Step{hello(pi), hello(ci)}
	if r.Bool() {
		steps = append(steps, hello(di))
	}
	// the registration answers are fetched first, so that only the queued packets remain
	poll := func(d int) c15Step {
		return c15Step{kind: 'T', pkt: c15Pkt{c15Sub: c15Sub{dev: d, pid: 0, job: 0, pay: 'e'}}}
	}
	if r.Chance(70) {
		steps = append(steps, poll(ci))
	}
	for k := 1 + r.Intn(3); k > 0; k-- {
		lf := c15Leaf{dev: ids[ci], pid: []uint8{0x14, 0xC8, 7, 9}[r.Intn(4)], job: uint16(2 + r.Intn(60000))}
		queued = append(queued, lf)
		steps = append(steps, c15Step{kind: 'Q', id: ci, leaf: lf})
	}
	if r.Chance(30) {
		steps = append(steps, c15Step{kind: 'Q', id: pi, leaf: c15Leaf{pid: 0x14, job: uint16(2 + r.Intn(60000))}})
	}
	b := c15Pkt{c15Sub: c15Sub{dev: pi, pid: 0, job: 0, pay: 'e'}}
	for k := 1 + r.Intn(2); k > 0; k-- {
		e := c15Sub{dev: di, pid: 0x14, job: uint16(2 + r.Intn(60000)), pay: 'd'}
		switch r.Intn(5) {
		case 0:
			e.flags = uint64(com.FlagOneshot)
		case 1:
			e.flags = uint64(com.FlagMulti)
		case 2:
			e.dev = pi
		case 3:
			e.flags = uint64(com.FlagOneshot)
			e.dev = len(ids) - 1
		}
		b.subs = append(b.subs, e)
	}
	f := com.Flag(com.FlagMulti | com.FlagMultiDevice)
	f.SetLen(uint16(len(b.subs)))
	b.flags = uint64(f)
	b.tags = []c15Tag{{idx: ci}}
	if r.Chance(25) {
		b.tags = append(b.tags, c15Tag{idx: di})
	}
	steps = append(steps, c15Step{kind: 'T', pkt: b}, poll(ci), poll(pi))
	return steps, queued
}

// ---- generators -----------------------------------------------------------------------------------

var c15DataIDs = []uint8{0, 1, 3, 4, 6, 7, 0x14, 0xC8}

func c15GenSub(r *Rng, nids int, dev int) c15Sub {
	s := c15Sub{dev: dev, job: uint16(2 + r.Intn(60000)), pay: 'e'}
	switch x := r.Intn(10); {
	case x < 3:
		// NOTE: a hello with an EMPTY payload is never generated for talkSub / batch elements:
		// readDeviceInfo -> io.ReadFull on a never-written Chunk spins forever (Chunk.Read returns
		// (0, nil)); that hang belongs to C04 and is reported there, it would only stall this run.
		s.pid = c2.SvHello
		s.pay = 'h'
		if r.Chance(10) {
			s.pay = 'x'
		}
	case x < 8:
		s.pid = []uint8{0x14, 0xC8, 7}[r.Intn(3)]
		s.pay = "de"[r.Intn(2)]
	default:
		s.pid = c15DataIDs[r.Intn(len(c15DataIDs))]
		s.pay = "de"[r.Intn(2)]
		if s.pid < 2 && r.Bool() {
			s.job = 0
		}
	}
	if r.Chance(12) {
		s.flags |= uint64(com.FlagCrypt)
	}
	if r.Chance(6) {
		s.flags |= uint64(com.FlagProxy)
	}
	if r.Chance(4) {
		s.flags |= uint64(com.FlagOneshot)
	}
	if r.Chance(3) {
		s.flags |= uint64(com.FlagError)
	}
	return s
}

func c15GenPkt(r *Rng, nids int, dev int, reg []int) c15Pkt {
	p := c15Pkt{c15Sub: c15GenSub(r, nids, dev)}
	p.flags &^= uint64(com.FlagOneshot) // top-level oneshots never reach talk (handle() diverts them)
	if r.Chance(25) {
		// a batch
		k := r.Intn(5)
		md := r.Chance(75)
		for j := 0; j < k; j++ {
			d := r.Intn(nids)
			foreignInSingle := !md && r.Chance(35) // an element of a single-device batch that names another device
			if (!md && !foreignInSingle) || (md && r.Chance(25)) {
				d = dev
			}
			s := c15GenSub(r, nids, d)
			if foreignInSingle && r.Chance(50) {
				s.flags |= uint64(com.FlagProxy)
			}
			if r.Chance(5) {
				s.flags |= uint64(com.FlagMulti)
			}
			if r.Chance(4) {
				s.flags |= uint64(com.FlagMultiDevice)
			}
			p.subs = append(p.subs, s)
		}
		p.pid, p.pay = 0, 'e'
		f := com.Flag(p.flags&^uint64(com.FlagCrypt)) | com.FlagMulti
		if md {
			f |= com.FlagMultiDevice
		}
		n := len(p.subs)
		if r.Chance(8) {
			n += 1 - r.Intn(3)
		}
		if n > 0 {
			f.SetLen(uint16(n))
		}
		p.flags = uint64(f)
	}
	if r.Chance(30) {
		k := 1 + r.Intn(3)
		for j := 0; j < k; j++ {
			switch x := r.Intn(20); {
			case x == 0:
				p.tags = append(p.tags, c15Tag{idx: -1, lit: 0})
			case x == 1:
				p.tags = append(p.tags, c15Tag{idx: -1, lit: uint32(r.U64()) | 1})
			default:
				p.tags = append(p.tags, c15Tag{idx: r.Intn(nids)})
			}
		}
	}
	return p
}

// ---- one proxy-side history -----------------------------------------------------------------------

// c15RunProxy executes one history on a fresh real Proxy whose parent Session is ids[0].
// Steps: 'A' = a packet coming down from the server through receive() of the parent (reaches
// Proxy.accept when it does not name the parent), 'T' = Proxy.talk, 'S' = Proxy.talkSub.
func c15RunProxy(c *Ctx, ids []device.ID, steps []c15Step, opline string) string {
	px := c2.VerifC15NewProxy(ids[0])
	var out []string
	input := map[string]interface{}{"op": opline}
	fail := func(kind, key, detail string) { c.Fail(kind, key, detail, input) }
	for si, st := range steps {
		px.ClearSeen()
		before := px.Clients()
		prev := map[uint32]c2.VerifC15Client{}
		for _, e := range before {
			prev[e.Key] = e
		}
		dev := ids[st.pkt.dev]
		var (
			res, site string
			leaves    []c15Leaf
		)
		switch st.kind {
		case 'A':
			site = "Proxy.accept"
			if err := px.Receive(st.pkt.c15Sub.build(ids)); err != nil {
				res = "A:err:" + c15ErrClass(err)
			} else {
				res = "A:ok"
			}
		case 'T':
			site = "Proxy.talk"
			o := px.Talk("A", st.pkt.build(ids))
			if o.Err != nil {
				res = "T:err:" + c15ErrClass(o.Err)
			} else {
				leaves, _ = c15Leaves(o.Next)
				h := "-"
				if !o.HostNil {
					h = c15Idx(ids, o.HostID)
				}
				ok := "0"
				if o.OK {
					ok = "1"
				}
				res = "T:ok" + ok + ":h" + h + ":" + c15LeafStr(ids, leaves)
			}
		case 'S':
			site = "Proxy.talkSub"
			has, hid, q, r, err := px.TalkSub("A", st.pkt.c15Sub.build(ids), st.o)
			if err != nil {
				res = "S:err:" + c15ErrClass(err)
			} else {
				leaves, _ = c15Leaves(r)
				h := "-"
				if has {
					h = c15Idx(ids, hid)
				}
				res = "S:ok:h" + h + ":q" + strconv.FormatUint(uint64(q), 10) + ":" + c15LeafStr(ids, leaves)
			}
		}
		mid := px.Clients()
		closed := px.Prune()
		up := px.Upstream()
		pev := px.ParentEvents()
		var seen, fwd, qd, cl, ns, pr []string
		for _, e := range mid {
			p, existed := prev[e.Key]
			if existed && p.ID != e.ID {
				fail("effects", "displaced:"+site, fmt.Sprintf("step %d: proxy client %s was replaced by %s", si, p.ID, e.ID))
				existed = false
			}
			if !existed {
				ns = append(ns, c15Idx(ids, e.ID))
				if e.ID != dev {
					fail("effects", "register-foreign:"+site, fmt.Sprintf("step %d: a proxy client for %s was created by a packet naming %s", si, e.ID, dev))
				}
			}
			if e.Seen {
				seen = append(seen, c15Idx(ids, e.ID))
				if e.ID != dev {
					fail("effects", "touch-foreign:"+site, fmt.Sprintf("step %d: proxy client %s was marked seen by a packet naming %s (same hash 0x%X)", si, e.ID, dev, e.Key))
				}
			}
			if e.Key != e.ID.Hash() {
				fail("table", "table-key:Proxy.clients", fmt.Sprintf("step %d: client %s stored under key 0x%X", si, e.ID, e.Key))
			}
			if st.kind == 'A' {
				n0 := 0
				if existed {
					n0 = len(p.Queued)
				}
				if n0 > len(e.Queued) {
					n0 = len(e.Queued)
				}
				for _, qx := range e.Queued[n0:] {
					qd = append(qd, fmt.Sprintf("%s>%s.%d.%d", c15Idx(ids, e.ID), c15Idx(ids, qx.Dev), qx.ID, qx.Job))
					if qx.Dev != e.ID {
						fail("effects", "queued-foreign:"+site, fmt.Sprintf("step %d: a packet naming %s was queued for proxy client %s (same hash 0x%X)", si, qx.Dev, e.ID, e.Key))
					}
				}
			}
		}
		for _, h := range closed {
			if p, ok := prev[h]; ok {
				cl = append(cl, c15Idx(ids, p.ID))
				if p.ID != dev {
					fail("effects", "close-foreign:"+site, fmt.Sprintf("step %d: proxy client %s was removed by a shutdown packet naming %s", si, p.ID, dev))
				}
			} else {
				for _, e := range mid {
					if e.Key == h {
						cl = append(cl, c15Idx(ids, e.ID))
						if e.ID != dev {
							fail("effects", "close-foreign:"+site, fmt.Sprintf("step %d: proxy client %s was removed by a shutdown packet naming %s", si, e.ID, dev))
						}
					}
				}
			}
		}
		for _, u := range up {
			fwd = append(fwd, fmt.Sprintf("%s.%d.%d", c15Idx(ids, u.Dev), u.ID, u.Job))
			if u.Dev != dev {
				fail("effects", "forward-foreign:"+site, fmt.Sprintf("step %d: a packet naming %s was forwarded upstream while handling a packet naming %s", si, u.Dev, dev))
			}
		}
		for _, u := range pev {
			pr = append(pr, fmt.Sprintf("%s.%d.%d", c15Idx(ids, u.Dev), u.ID, u.Job))
			if u.Dev != ids[0] {
				what := "handler-foreign:receive"
				if st.pkt.flags&uint64(com.FlagMultiDevice) != 0 {
					what = "mdflag-bypass:receive"
				}
				fail("effects", what, fmt.Sprintf("step %d: the parent Session %s handled a packet naming %s itself", si, ids[0], u.Dev))
			}
		}
		// outbound: what is handed to this connection names the device the connection serves
		for _, l := range leaves {
			if l.dev != dev {
				fail("outbound", "outbound-foreign:"+site, fmt.Sprintf("step %d: a packet naming %s was handed to the connection of %s", si, l.dev, dev))
			}
		}
		// unknown device, not a hello: re-registration request, no effects
		if st.kind != 'A' && st.pkt.pid != c2.SvHello && !dev.Empty() {
			known := false
			for _, e := range before {
				if e.ID == dev {
					known = true
				}
			}
			if !known && !strings.Contains(res, "err:") {
				if !(len(leaves) == 1 && leaves[0].pid == c2.SvRegister && leaves[0].dev == dev) {
					fail("unknown", "unknown-no-register:"+site, fmt.Sprintf("step %d: packet from unknown device %s answered with %s", si, dev, res))
				}
				if len(seen)+len(fwd)+len(cl)+len(ns) > 0 {
					fail("unknown", "unknown-side-effect:"+site, fmt.Sprintf("step %d: packet from unknown device %s had effects seen=%v fwd=%v closed=%v new=%v", si, dev, seen, fwd, cl, ns))
				}
			}
		}
		sort.Strings(seen)
		out = append(out, fmt.Sprintf("%s s=%s f=%s q=%s c=%s n=%s p=%s", res, c15List(seen), c15List(fwd), c15List(qd), c15List(cl), c15List(ns), c15List(pr)))
	}
	var tb []string
	for _, e := range px.Clients() {
		l := make([]c15Leaf, len(e.Queued))
		for i, q := range e.Queued {
			l[i] = c15Leaf{q.Dev, q.ID, q.Job}
		}
		tb = append(tb, fmt.Sprintf("%d:%s:%s", e.Key, c15Idx(ids, e.ID), c15LeafStr(ids, l)))
	}
	if len(tb) == 0 {
		out = append(out, "cl=-")
	} else {
		out = append(out, "cl="+strings.Join(tb, ";"))
	}
	return strings.Join(out, " | ")
}

func c15OpLine(kind string, ids []device.ID, steps []c15Step) string {
	hexids := make([]string, len(ids))
	for k := range ids {
		hexids[k] = hx(ids[k][:])
	}
	toks := make([]string, len(steps))
	for k := range steps {
		toks[k] = steps[k].tok(ids)
	}
	return kind + " " + strings.Join(hexids, ",") + " " + strings.Join(toks, " ")
}

// ---- directed scenarios ---------------------------------------------------------------------------

// c15Directed: hand-written histories over ids = [a, b, c, d] with Hash(a) == Hash(b).
func c15Directed() [][]c15Step {
	hello := func(d int, job uint16, flags uint64) c15Step {
		return c15Step{kind: 'T', pkt: c15Pkt{c15Sub: c15Sub{dev: d, pid: c2.SvHello, job: job, flags: flags, pay: 'h'}}}
	}
	data := func(d int, pid uint8, job uint16, flags uint64, pay byte) c15Step {
		return c15Step{kind: 'T', pkt: c15Pkt{c15Sub: c15Sub{dev: d, pid: pid, job: job, flags: flags, pay: pay}}}
	}
	batch := func(d int, md bool, n int, subs ...c15Sub) c15Step {
		f := com.Flag(com.FlagMulti)
		if md {
			f |= com.FlagMultiDevice
		}
		if n > 0 {
			f.SetLen(uint16(n))
		}
		return c15Step{kind: 'T', pkt: c15Pkt{c15Sub: c15Sub{dev: d, job: 9, flags: uint64(f), pay: 'e'}, subs: subs}}
	}
	q := func(d int, job uint16) c15Step { return c15Step{kind: 'Q', id: d, leaf: c15Leaf{pid: 0xC8, job: job}} }
	look := func(d int) c15Step { return c15Step{kind: 'L', id: d} }
	crypt, one, mdev := uint64(com.FlagCrypt), uint64(com.FlagOneshot), uint64(com.FlagMultiDevice)
	withTags := func(s c15Step, idx ...int) c15Step {
		for _, i := range idx {
			s.pkt.tags = append(s.pkt.tags, c15Tag{idx: i})
		}
		return s
	}
	return [][]c15Step{
		// lookup by a colliding, unregistered ID
		{hello(0, 11, 0), look(1), look(0), look(2)},
		// traffic from the colliding ID: must be told to register, the registered session untouched
		{hello(0, 11, 0), q(0, 77), data(1, 0x14, 5, 0, 'd'), data(1, 0x14, 6, crypt, 'd'), look(0), data(0, 0x14, 7, 0, 'd')},
		// hello from the colliding ID: refused, never replaces / touches the registered one
		{hello(0, 11, 0), hello(1, 12, 0), hello(1, 13, crypt), look(0), look(1), data(0, 7, 8, 0, 'e')},
		// removal by the colliding ID leaves the registered session alone; own removal works
		{hello(0, 11, 0), {kind: 'R', id: 1}, look(0), {kind: 'R', id: 0}, look(0), hello(1, 12, 0), look(1), look(0)},
		// batch through a proxy-capable client c: elements naming a (registered), b (collides), d (new)
		{hello(0, 11, 0), hello(2, 12, 0), q(0, 70),
			batch(2, true, 3, c15Sub{dev: 0, pid: 0x14, job: 5, pay: 'd'}, c15Sub{dev: 1, pid: 0x14, job: 6, pay: 'd'}, c15Sub{dev: 3, pid: c2.SvHello, job: 7, pay: 'h'})},
		{hello(0, 11, 0), hello(2, 12, 0),
			batch(2, true, 2, c15Sub{dev: 3, pid: c2.SvHello, job: 7, pay: 'h'}, c15Sub{dev: 1, pid: c2.SvHello, job: 6, pay: 'h'})},
		// oneshot carrying key data inside a batch must not re-key the carrying session
		{hello(2, 12, 0), batch(2, true, 2, c15Sub{dev: 3, pid: 0x14, job: 5, flags: one | crypt, pay: 'd'}, c15Sub{dev: 2, pid: 0x14, job: 6, pay: 'd'})},
		{hello(2, 12, 0), hello(3, 13, 0), batch(2, true, 1, c15Sub{dev: 3, pid: 0x14, job: 5, flags: one | crypt, pay: 'd'})},
		// tags: c announces that it serves b (tag = hash(b)) while a (same hash) is registered directly
		{hello(0, 11, 0), hello(2, 12, 0), q(0, 70), withTags(data(2, 0x14, 5, 0, 'd'), 1), look(0)},
		// tags: legitimate use (c serves d, d registered through c)
		{hello(2, 12, 0), batch(2, true, 1, c15Sub{dev: 3, pid: c2.SvHello, job: 7, pay: 'h'}), q(3, 71), withTags(data(2, 0, 0, 0, 'e'), 3)},
		// an element flagged MultiDevice inside a same-device batch names another device
		{hello(0, 11, 0), batch(0, false, 2, c15Sub{dev: 3, pid: 0x14, job: 5, flags: mdev, pay: 'd'}, c15Sub{dev: 0, pid: 0x14, job: 6, pay: 'd'})},
		// an element naming another device inside a same-device batch (no flag): refused
		{hello(0, 11, 0), batch(0, false, 2, c15Sub{dev: 0, pid: 0x14, job: 6, pay: 'd'}, c15Sub{dev: 3, pid: 0x14, job: 5, pay: 'd'})},
	}
}

func runC15(c *Ctx) {
	pairs, draws := c15Collisions(c.Seed, 3)
	if len(pairs) < 3 {
		c.Fail("harness", "no-collision-found", "birthday search found no colliding IDs", nil)
		return
	}
	c.Extra["collision_search_draws"] = draws
	c.Extra["colliding_pair"] = pairs[0][0].Full() + " / " + pairs[0][1].Full()
	for _, p := range pairs {
		c.Op("hash "+hx(p[0][:])+" "+hx(p[1][:]), fmt.Sprintf("%d %d", p[0].Hash(), p[1].Hash()))
	}
	// A. FNV model of device.ID.Hash against the real one (also on prefixes' worth of variety)
	c15ChanProc(c) // top-level packets on a channel connection (c15_s3.go)
	c.Cases("hash", c.N(300, 5000), func(r *Rng, i int) {
		a, b := c15RandID(r), c15RandID(r)
		if r.Chance(20) {
			b = a
			b[r.Intn(32)] ^= byte(1 << r.Intn(8))
		}
		c.Op("hash "+hx(a[:])+" "+hx(b[:]), fmt.Sprintf("%d %d", a.Hash(), b.Hash()))
		c.Eval(true, hx(a[:])+hx(b[:]))
	})
	// A2. directed scenarios (always run; they contain the witnesses of the fixed defects and of
	// the known findings)
	dir := c15Directed()
	c.Cases("dir", len(dir), func(r *Rng, i int) {
		ids := []device.ID{pairs[0][0], pairs[0][1], c15RandID(r), c15RandID(r)}
		op := c15OpLine("srv", ids, dir[i])
		c.Op(op, c15RunServer(c, ids, dir[i], op))
		c.Count("dir")
		c.Eval(true, op)
	})
	// B. server side histories
	c.Cases("srv", c.N(3000, 120000), func(r *Rng, i int) {
		var ids []device.ID
		withColl := r.Chance(80)
		if withColl {
			p := pairs[r.Intn(len(pairs))]
			ids = append(ids, p[0], p[1])
			if r.Chance(20) {
				q := pairs[r.Intn(len(pairs))]
				if q != p {
					ids = append(ids, q[0], q[1])
				}
			}
		}
		for k := 1 + r.Intn(3); k > 0; k-- {
			ids = append(ids, c15RandID(r))
		}
		if r.Chance(8) {
			var z device.ID
			copy(z[:], r.Bytes(32))
			z[0] = 0
			ids = append(ids, z)
		}
		// shuffle so that the colliding pair is not always 0/1
		for k := len(ids) - 1; k > 0; k-- {
			j := r.Intn(k + 1)
			ids[k], ids[j] = ids[j], ids[k]
		}
		n := 3 + r.Intn(9)
		var steps []c15Step
		var reg []int
		warm := r.Intn(4)
		for k := 0; k < n; k++ {
			d := r.Intn(len(ids))
			x := r.Intn(100)
			if k < warm {
				x = 0
			}
			switch {
			case x < 30:
				// registration attempt
				p := c15Pkt{c15Sub: c15Sub{dev: d, pid: c2.SvHello, job: uint16(1 + r.Intn(65000)), pay: 'h'}}
				if r.Chance(10) {
					p.flags |= uint64(com.FlagProxy)
				}
				if r.Chance(5) {
					p.pay = "ex"[r.Intn(2)]
				}
				steps = append(steps, c15Step{kind: 'T', pkt: p})
				reg = append(reg, d)
			case x < 65:
				steps = append(steps, c15Step{kind: 'T', pkt: c15GenPkt(r, len(ids), d, reg)})
			case x < 72:
				steps = append(steps, c15Step{kind: 'S', pkt: c15Pkt{c15Sub: c15GenSub(r, len(ids), d)}, o: r.Chance(30)})
			case x < 84:
				steps = append(steps, c15Step{kind: 'Q', id: d, leaf: c15Leaf{pid: []uint8{0x14, 0xC8, 7, 9}[r.Intn(4)], job: uint16(2 + r.Intn(60000))}})
			case x < 94:
				steps = append(steps, c15Step{kind: 'L', id: d})
			default:
				steps = append(steps, c15Step{kind: 'R', id: d})
			}
		}
		if i%8 == 3 && len(ids) >= 3 {
			steps, _ = c15RelaySteps(r, ids)
			c.Count("srv:directed-relay")
		}
		hexids := make([]string, len(ids))
		for k := range ids {
			hexids[k] = hx(ids[k][:])
		}
		toks := make([]string, len(steps))
		for k := range steps {
			toks[k] = steps[k].tok(ids)
			c.Count("srv-step:" + string(rune(steps[k].kind)))
		}
		op := "srv " + strings.Join(hexids, ",") + " " + strings.Join(toks, " ")
		ans := c15RunServer(c, ids, steps, op)
		c.Op(op, ans)
		if withColl {
			c.Count("srv:with-colliding-pair")
		}
		if strings.Contains(ans, "err:") {
			c.Count("srv:some-error")
		}
		c.Eval(withColl && len(steps) >= 4, op)
	})
	// B2. channel mode: ONE long-lived connection of a proxy P; every packet read from it carries the
	// current tag list. After each packet the Sessions redirected to the connection are compared with
	// the model, and a packet queued for a device lands on P's connection only if P's LATEST packet
	// names it.
	c.Cases("chan", c.N(600, 12000), func(r *Rng, i int) {
		ids := []device.ID{c15RandID(r)}
		if r.Chance(40) && len(pairs) > 0 {
			p := pairs[r.Intn(len(pairs))]
			ids = append(ids, p[0], p[1])
		}
		for k := 2 + r.Intn(3); k > 0; k-- {
			ids = append(ids, c15RandID(r))
		}
		env := c2.VerifC15NewEnv()
		defer env.Close()
		hello := func(d int) bool {
			n := &com.Packet{ID: c2.SvHello, Device: ids[d], Job: uint16(1 + r.Intn(60000))}
			c2.VerifC15HelloPayload(n, ids[d], true)
			return env.Talk("A", n).Err == nil
		}
		if !hello(0) {
			return
		}
		ch := env.NewChan(ids[0])
		if ch == nil {
			return
		}
		toks := []string{"H0"}
		outs := []string{"H"}
		input := map[string]interface{}{}
		redir := func() string {
			var l []string
			for _, d := range ch.Redirected() {
				l = append(l, c15Idx(ids, d))
			}
			sort.Strings(l)
			return c15List(l)
		}
		var latest map[uint32]bool
		n := 3 + r.Intn(8)
		for k := 0; k < n; k++ {
			switch x := r.Intn(100); {
			case x < 35:
				d := 1 + r.Intn(len(ids)-1)
				hello(d)
				toks = append(toks, fmt.Sprintf("H%d", d))
				outs = append(outs, "H")
			default:
				var tags []uint32
				var tt []string
				nt := r.Intn(4)
				if r.Chance(30) {
					nt = 0
				}
				for j := 0; j < nt; j++ {
					if r.Chance(8) {
						v := uint32(r.U64()) | 1
						tags = append(tags, v)
						tt = append(tt, fmt.Sprintf("n%d", v))
					} else {
						d := r.Intn(len(ids))
						tags = append(tags, ids[d].Hash())
						tt = append(tt, fmt.Sprintf("i%d", d))
					}
				}
				if k == n-1 && r.Chance(10) {
					tags = append(tags, 0)
					tt = append(tt, "n0")
				}
				tok := "C-"
				if len(tt) > 0 {
					tok = "C" + strings.Join(tt, "+")
				}
				toks = append(toks, tok)
				err := ch.Resolve(tags)
				if err != nil {
					outs = append(outs, "C:err r="+redir())
				} else {
					outs = append(outs, "C:ok r="+redir())
					latest = map[uint32]bool{}
					for _, t := range tags {
						latest[t] = true
					}
					// direct oracle: queue one packet for every registered device
					for d := 1; d < len(ids); d++ {
						found, via := ch.QueueFor(ids[d], &com.Packet{ID: 0x14, Job: uint16(2 + r.Intn(60000)), Device: ids[d]})
						if found && via && !latest[ids[d].Hash()] {
							input["op"] = "chan " + strings.Join(toks, " ")
							c.Fail("outbound", "chan-stale-redirect:conn.resolve", fmt.Sprintf("a packet queued for device %s was handed to the channel connection of %s although the latest packet read from that connection does not name it (tags %v)", ids[d], ids[0], tt), input)
						}
						if found && via {
							c.Count("chan:queued-via-host")
						}
					}
				}
			}
		}
		hexids := make([]string, len(ids))
		for k := range ids {
			hexids[k] = hx(ids[k][:])
		}
		op := "chan " + strings.Join(hexids, ",") + " " + strings.Join(toks, " ")
		c.Op(op, strings.Join(outs, " | "))
		c.Eval(len(toks) >= 4, op)
	})
	// B3. relaying: a proxy's parent Session forwards a client's packet with write(); when it is larger
	// than the fragment limit the fragments must still name the client, not the relaying Session
	c.Cases("relayfrag", c.N(120, 1500), func(r *Rng, i int) {
		saveF := limits.Frag
		defer func() { limits.Frag = saveF }()
		F := []int{64, 100, 257, 1000}[r.Intn(4)]
		limits.Frag = F
		relay, client := c15RandID(r), c15RandID(r)
		snd, _ := c2.VerifC02NewSession(relay, false, 4096)
		p := &com.Packet{ID: uint8(0x20 + r.Intn(0x80)), Job: uint16(2 + r.Intn(60000)), Device: client}
		p.Write(r.Bytes(F + 1 + r.Intn(3*F)))
		if r.Chance(30) {
			p.Flags |= com.FlagProxy
		}
		if err := snd.VerifC02Write(true, p); err != nil {
			return
		}
		frs := snd.VerifC02Drain()
		for k, f := range frs {
			if f.Device != client {
				c.Fail("relay", "relay-fragment-relabelled:Session.write", fmt.Sprintf("fragment %d of %d of a packet naming %s, written by the relaying Session %s, names %s", k, len(frs), client, relay, f.Device),
					map[string]interface{}{"F": F, "relay": relay.String(), "client": client.String(), "fragments": len(frs)})
				break
			}
		}
		c.Count(fmt.Sprintf("relayfrag:frags=%d", minInt(len(frs), 5)))
		c.Eval(len(frs) >= 2, fmt.Sprint("relayfrag", F, len(frs), i))
	})
	// C. proxy side histories: ids[0] is the parent Session of the proxy
	c.Cases("prx", c.N(2000, 80000), func(r *Rng, i int) {
		ids := []device.ID{c15RandID(r)}
		withColl := r.Chance(80)
		if withColl {
			p := pairs[r.Intn(len(pairs))]
			ids = append(ids, p[0], p[1])
		}
		for k := 1 + r.Intn(2); k > 0; k-- {
			ids = append(ids, c15RandID(r))
		}
		if r.Chance(6) {
			var z device.ID
			copy(z[:], r.Bytes(32))
			z[0] = 0
			ids = append(ids, z)
		}
		n := 3 + r.Intn(9)
		warm := r.Intn(3)
		var steps []c15Step
		for k := 0; k < n; k++ {
			d := 1 + r.Intn(len(ids)-1)
			x := r.Intn(100)
			if k < warm {
				x = 0
			}
			switch {
			case x < 28:
				steps = append(steps, c15Step{kind: 'T', pkt: c15Pkt{c15Sub: c15Sub{dev: d, pid: c2.SvHello, job: uint16(1 + r.Intn(65000)), pay: 'h'}}})
			case x < 50:
				s := c15GenSub(r, len(ids), d)
				s.flags &^= uint64(com.FlagOneshot)
				if r.Chance(8) {
					s.pid = c2.SvShutdown
				}
				steps = append(steps, c15Step{kind: 'T', pkt: c15Pkt{c15Sub: s}})
			case x < 65:
				s := c15GenSub(r, len(ids), d)
				if r.Chance(8) {
					s.pid = c2.SvShutdown
				}
				steps = append(steps, c15Step{kind: 'S', pkt: c15Pkt{c15Sub: s}, o: r.Chance(30)})
			default:
				// a packet coming down from the server
				if r.Chance(10) {
					d = 0
				}
				s := c15Sub{dev: d, pid: []uint8{0, 1, 4, 6, 7, 0x14, 0xC8, 0xC8}[r.Intn(8)], job: uint16(2 + r.Intn(60000)), pay: "de"[r.Intn(2)]}
				if r.Chance(10) {
					s.flags |= uint64(com.FlagCrypt)
				}
				if r.Chance(4) {
					s.flags |= uint64(com.FlagMultiDevice)
				}
				steps = append(steps, c15Step{kind: 'A', pkt: c15Pkt{c15Sub: s}})
			}
			c.Count("prx-step:" + string(rune(steps[len(steps)-1].kind)))
		}
		op := c15OpLine("prx", ids, steps)
		c.Op(op, c15RunProxy(c, ids, steps, op))
		if withColl {
			c.Count("prx:with-colliding-pair")
		}
		c.Eval(withColl && len(steps) >= 4, op)
	})
	// C2. the server asks a client that runs a Proxy to register again (SvRegister for the parent):
	// Proxy.subsRegister queues a re-registration request for every proxied client. Each client's queue
	// must receive its OWN request - a packet that names that client - and nothing naming anybody else
	// (oracle only; the routing model has no step for it).
	c.Cases("prx-register", c.N(150, 2500), func(r *Rng, i int) {
		parent := c15RandID(r)
		px := c2.VerifC15NewProxy(parent)
		k := 2 + r.Intn(4)
		var ids []device.ID
		if r.Chance(40) && len(pairs) > 0 {
			p := pairs[r.Intn(len(pairs))]
			ids = append(ids, p[0]) // one half of a colliding pair is as good a client as any
		}
		for len(ids) < k {
			ids = append(ids, c15RandID(r))
		}
		in := map[string]interface{}{"parent": hx(parent[:]), "clients": len(ids)}
		for _, id := range ids {
			n := &com.Packet{ID: c2.SvHello, Job: uint16(2 + r.Intn(60000)), Device: id}
			c2.VerifC15HelloPayload(n, id, false)
			if o := px.Talk("A", n); o.Err != nil {
				return
			}
		}
		px.Upstream()
		before := map[device.ID]int{}
		for _, cl := range px.Clients() {
			before[cl.ID] = len(cl.Queued)
		}
		if len(before) != len(ids) {
			return
		}
		if err := px.Receive(&com.Packet{ID: c2.SvRegister, Job: uint16(2 + r.Intn(60000)), Device: parent}); err != nil {
			c.Fail("register", "prx-register:receive-error", err.Error(), in)
			return
		}
		for _, cl := range px.Clients() {
			nw := cl.Queued[before[cl.ID]:]
			own := 0
			for _, l := range nw {
				switch {
				case l.Dev != cl.ID:
					c.Fail("effects", "prx-register:foreign-request:Proxy.subsRegister", fmt.Sprintf("the queue of proxied client %s received a packet (ID %#x) that names device %s", hx(cl.ID[:4]), l.ID, hx(l.Dev[:4])), in)
					c.Eval(true, fmt.Sprint("prx-register", in))
					return
				case l.ID == c2.SvRegister:
					own++
				}
			}
			if own != 1 {
				c.Fail("effects", "prx-register:no-own-request:Proxy.subsRegister", fmt.Sprintf("proxied client %s received %d re-registration requests of its own, expected one", hx(cl.ID[:4]), own), in)
				c.Eval(true, fmt.Sprint("prx-register", in))
				return
			}
		}
		// the same step on the model (op prxreg): for each client, in the order registered, the device
		// its new request names
		var hexes, ans []string
		byID := map[device.ID]c2.VerifC15Client{}
		for _, cl := range px.Clients() {
			byID[cl.ID] = cl
		}
		for k, id := range ids {
			hexes = append(hexes, hx(id[:]))
			var nw []string
			for _, l := range byID[id].Queued[before[id]:] {
				nw = append(nw, c15Idx(ids, l.Dev))
			}
			ans = append(ans, fmt.Sprintf("%d>%s", k, strings.Join(nw, ",")))
		}
		c.Op("prxreg "+strings.Join(hexes, ","), strings.Join(ans, " "))
		c.Count(fmt.Sprintf("prx-register:clients=%d", len(ids)))
		c.Eval(true, fmt.Sprint("prx-register", in))
	})
	// D. supporting stress (a test, not a proof): registration is sequential (the property
	// quantifies over histories, not interleavings), then several goroutines — one per group of
	// devices, the two halves of each colliding pair in DIFFERENT goroutines — send traffic through
	// the real Listener.talk / Server.Session concurrently.
	c.Cases("stress", c.N(2, 12), func(r *Rng, i int) {
		const G = 6
		env := c2.VerifC15NewEnv()
		defer env.Close()
		groups := make([][]device.ID, G)
		for k, p := range pairs {
			groups[(2*k)%G] = append(groups[(2*k)%G], p[0])
			groups[(2*k+1)%G] = append(groups[(2*k+1)%G], p[1])
		}
		for g := range groups {
			groups[g] = append(groups[g], c15RandID(r), c15RandID(r))
		}
		registered := map[device.ID]bool{}
		order := r.Intn(2)
		for g := 0; g < G; g++ {
			gg := g
			if order == 1 {
				gg = G - 1 - g
			}
			for _, id := range groups[gg] {
				n := &com.Packet{ID: c2.SvHello, Job: 7, Device: id}
				c2.VerifC15HelloPayload(n, id, false)
				if o := env.Talk("R", n); o.Err == nil {
					registered[id] = true
				}
			}
		}
		env.Sync()
		env.Drain()
		iters := c.N(300, 3000)
		sent := make([]map[device.ID]int, G)
		var wg sync.WaitGroup
		var mu sync.Mutex
		var bad []string
		for g := 0; g < G; g++ {
			sent[g] = map[device.ID]int{}
			wg.Add(1)
			go func(g int, rr *Rng) {
				defer wg.Done()
				defer func() {
					if e := recover(); e != nil {
						mu.Lock()
						bad = append(bad, fmt.Sprintf("panic:Listener.talk|%v", e))
						mu.Unlock()
					}
				}()
				for k := 0; k < iters; k++ {
					id := groups[g][rr.Intn(len(groups[g]))]
					if rr.Chance(20) {
						any := groups[rr.Intn(G)]
						q := any[rr.Intn(len(any))]
						if ok, got := env.Lookup(q); ok && got != q {
							mu.Lock()
							bad = append(bad, fmt.Sprintf("lookup-foreign:Server.Session|Session(%s) returned %s", q, got))
							mu.Unlock()
						} else if !ok && registered[q] {
							mu.Lock()
							bad = append(bad, fmt.Sprintf("lookup-missed:Server.Session|Session(%s) returned nil although registered", q))
							mu.Unlock()
						}
						continue
					}
					n := &com.Packet{ID: 0x14, Job: uint16(2 + k%60000), Device: id}
					n.WriteUint32(uint32(k))
					o := env.Talk("S", n)
					switch {
					case o.Err != nil:
						mu.Lock()
						bad = append(bad, fmt.Sprintf("unknown-no-register:Listener.talk|talk(%s) failed: %v", id, o.Err))
						mu.Unlock()
					case registered[id]:
						sent[g][id]++
						if o.HostNil || o.HostID != id {
							mu.Lock()
							bad = append(bad, fmt.Sprintf("outbound-foreign:Listener.talk|connection of %s got host %s", id, o.HostID))
							mu.Unlock()
						}
					default:
						if l, _ := c15Leaves(o.Next); len(l) != 1 || l[0].pid != c2.SvRegister || l[0].dev != id {
							mu.Lock()
							bad = append(bad, fmt.Sprintf("unknown-no-register:Listener.talk|unregistered %s not told to register", id))
							mu.Unlock()
						}
					}
				}
			}(g, NewRng(c.Seed, uint64(0xC15000+i*16+g)))
		}
		wg.Wait()
		if !env.Sync() {
			c.Fail("harness", "sync-timeout:stress", "server event loop did not drain", nil)
		}
		recv, _, _, _ := env.Drain()
		got := map[device.ID]int{}
		for _, x := range recv {
			if x.Sess != x.Dev {
				bad = append(bad, fmt.Sprintf("handler-foreign:Listener.talk|handler of %s fired for a packet naming %s", x.Sess, x.Dev))
			}
			got[x.Sess]++
		}
		for g := 0; g < G; g++ {
			for id, n := range sent[g] {
				if got[id] != n {
					bad = append(bad, fmt.Sprintf("delivery-count:Listener.talk|device %s sent %d packets, its handler fired %d times", id, n, got[id]))
				}
			}
		}
		seen := map[string]bool{}
		for _, b := range bad {
			kv := strings.SplitN(b, "|", 2)
			if !seen[kv[0]] {
				seen[kv[0]] = true
				c.Fail("stress", kv[0], "concurrent traffic: "+kv[1], map[string]interface{}{"stress_case": i, "goroutines": G, "iterations": iters})
			}
		}
		nreg := 0
		for range registered {
			nreg++
		}
		c.Count("stress:runs")
		c.Stats["stress:packets"] += G * iters
		c.Eval(nreg >= 2*G, fmt.Sprintf("stress-%d-%d", c.Seed, i))
	})
}

func init() { register("C15", runC15) }
