package main

import (
	"fmt"
	"go/ast"
	"go/parser"
	"go/token"
	"sort"
	"strconv"

	"github.com/iDigitalFlame/xmt/c2"
	"github.com/iDigitalFlame/xmt/c2/task"
)

// Facts for C15: packet ids / flag bits (compiled constants of the current tree) and the two
// literals of device.ID.Hash (FNV basis and prime), taken from the source of the function.
func init() {
	factProviders = append(factProviders, func(f *factSet, repo string) error {
		cs := c2.VerifC15Consts()
		ks := make([]string, 0, len(cs))
		for k := range cs {
			ks = append(ks, k)
		}
		sort.Strings(ks)
		for _, k := range ks {
			f.Nat(k, cs[k])
		}
		f.Nat("c15MvRefresh", uint64(task.MvRefresh))
		basis, prime, bits, err := c15HashLiterals(repo + "/device/id.go")
		if err != nil {
			return err
		}
		f.Nat("c15FnvBasis", basis)
		f.Nat("c15FnvPrime", prime)
		f.Nat("c15HashBits", bits)
		return nil
	})
}

// c15HashLiterals parses `func (i ID) Hash() uint32 { h := uint32(B); for … { h *= P; h ^= … } }`.
func c15HashLiterals(path string) (basis, prime, bits uint64, err error) {
	fs := token.NewFileSet()
	file, err := parser.ParseFile(fs, path, nil, 0)
	if err != nil {
		return 0, 0, 0, err
	}
	for _, d := range file.Decls {
		fn, ok := d.(*ast.FuncDecl)
		if !ok || fn.Name.Name != "Hash" || fn.Recv == nil || fn.Body == nil {
			continue
		}
		if id, ok := fn.Type.Results.List[0].Type.(*ast.Ident); ok {
			switch id.Name {
			case "uint32":
				bits = 32
			case "uint64":
				bits = 64
			}
		}
		var mulSeen, xorSeen bool
		ast.Inspect(fn.Body, func(n ast.Node) bool {
			a, ok := n.(*ast.AssignStmt)
			if !ok || len(a.Rhs) != 1 {
				return true
			}
			switch a.Tok {
			case token.DEFINE:
				if c, ok := a.Rhs[0].(*ast.CallExpr); ok && len(c.Args) == 1 {
					if l, ok := c.Args[0].(*ast.BasicLit); ok {
						basis, _ = strconv.ParseUint(l.Value, 0, 64)
					}
				}
			case token.MUL_ASSIGN:
				if l, ok := a.Rhs[0].(*ast.BasicLit); ok {
					prime, _ = strconv.ParseUint(l.Value, 0, 64)
					mulSeen = !xorSeen // multiply must come before the xor (FNV-1, not FNV-1a)
				}
			case token.XOR_ASSIGN:
				xorSeen = true
			}
			return true
		})
		if basis == 0 || prime == 0 || bits == 0 || !mulSeen || !xorSeen {
			return 0, 0, 0, fmt.Errorf("device.ID.Hash no longer has the shape h := uintN(B); h *= P; h ^= b (basis=%d prime=%d bits=%d)", basis, prime, bits)
		}
		return basis, prime, bits, nil
	}
	return 0, 0, 0, fmt.Errorf("device.ID.Hash not found in %s", path)
}
