package main

import (
	"fmt"

	"github.com/iDigitalFlame/xmt/c2"
	"github.com/iDigitalFlame/xmt/com"
	"github.com/iDigitalFlame/xmt/device"
)

// Group "chanproc" of C15 (session 3): top-level packets read from a CHANNEL connection go through
// conn.process(…, true), which does not look the Session up by the packet's device (the connection
// already has its host); what keeps a packet naming another device out of the host's Session is the
// dispatch on the flags: a MultiDevice packet goes to processMultiple (each element dispatched by its
// own device, a zero count refused), everything else to the host's receive() with its device test.
// Packets with every combination of the Multi / MultiDevice / Frag flags and counts 0..2, naming the
// host or another registered device, are processed on a channel connection of the host: whatever the
// flags, no packet may be handled in the Session of a device it does not name.
func c15ChanProc(c *Ctx) {
	c.Cases("chanproc", c.N(400, 6000), func(r *Rng, i int) {
		ids := []device.ID{c15RandID(r), c15RandID(r), c15RandID(r)}
		env := c2.VerifC15NewEnv()
		defer env.Close()
		for d := range ids {
			n := &com.Packet{ID: c2.SvHello, Device: ids[d], Job: uint16(1 + r.Intn(60000))}
			c2.VerifC15HelloPayload(n, ids[d], true)
			if env.Talk("A", n).Err != nil {
				return
			}
		}
		ch := env.NewChan(ids[0])
		if ch == nil {
			return
		}
		env.Sync()
		env.Drain()
		names := r.Intn(3) // the device the top-level packet names
		var f com.Flag
		fl := ""
		if r.Chance(55) {
			f |= com.FlagMultiDevice
			fl += "D"
		}
		if r.Chance(35) {
			f |= com.FlagMulti
			fl += "M"
		}
		cnt := []int{0, 0, 0, 1, 2}[r.Intn(5)]
		n := &com.Packet{ID: 0x14, Job: uint16(2 + r.Intn(60000)), Device: ids[names], Flags: f}
		if cnt > 0 && f&com.FlagMulti != 0 {
			n.Flags.SetLen(uint16(cnt))
			for k := 0; k < cnt; k++ {
				e := &com.Packet{ID: 0x14, Job: uint16(2 + r.Intn(60000)), Device: ids[r.Intn(3)]}
				e.WriteUint8(uint8(k))
				e.MarshalStream(n)
			}
		} else if cnt > 0 {
			n.Flags.SetLen(uint16(cnt)) // a count without elements (fragment-style header)
			n.Flags.SetPosition(0)
		}
		in := map[string]interface{}{"host": ids[0].String(), "names": ids[names].String(), "flags": fl, "count": cnt}
		var err error
		if p := c14Guard(func() { err = ch.Process(n) }); p != "" {
			c.Fail("panic", "panic:conn.process:channel", p, in)
			return
		}
		env.Sync()
		recv, _, _, _ := env.Drain()
		for _, x := range recv {
			if x.Sess != x.Dev && f&com.FlagMulti == 0 {
				// (elements of a batch that carry the MultiDevice exemption are the recorded finding
				// mdflag-bypass and are judged by the srv group; here the top-level packet is not a batch)
				c.Fail("route", "chanproc:foreign-packet-processed", fmt.Sprintf("a top-level packet naming device %s (flags %q, count %d) read from the channel connection of %s was handled in the Session of %s (process returned %v)", x.Dev, fl, cnt, ids[0], x.Sess, err), in)
			}
		}
		c.Count(fmt.Sprintf("chanproc:flags=%s:count=%d:own=%v", fl, cnt, names == 0))
		c.Eval(true, fmt.Sprintf("chanproc %s %d %d", fl, cnt, names))
	})
}
