package main

// C16 — closing always terminates cleanly on both sides, from any state, repeatedly.
//
// Three parts:
//  (i)   schedule replay: the rewritten copies of c2/session.go, vars.go, channel.go, types.go
//        (lib/props/C16.json "rewrites") call verifC16Yield(pc) in front of every atomic action of
//        the Lean model XMT/Close.lean (the label IS the model's pc). Every model thread is a real
//        goroutine running the real function; a cooperative scheduler releases exactly one at a
//        time following the schedule, and only when the action is enabled, so the interleaving
//        executed here is the one the model is run on. Final states are compared with the model
//        (c.Op) and the property is evaluated directly on the real objects (no panic, nobody left
//        blocked once the Session closes, lock free, unlisting requested, waiters released).
//  (ii)  end-to-end runs (c16_e2e.go) in child processes: real Server + Listener + clients over
//        loopback TCP, close issued at enumerated protocol steps from either side, 1..4 concurrent
//        callers, repeated.
//  (iii) free-running stress of the server-side close path (child process, GOMAXPROCS 8).

import (
	"context"
	"errors"
	"fmt"
	"io"
	"net"
	"os"
	"os/exec"
	"path/filepath"
	"runtime"
	"sort"
	"strconv"
	"strings"
	"sync"
	"time"

	"github.com/iDigitalFlame/xmt/c2"
	"github.com/iDigitalFlame/xmt/c2/cfg"
	"github.com/iDigitalFlame/xmt/data"
)

func init() {
	register("C16", runC16)
	register("C16stress", runC16StressChild)
}

// ---- scripted profile (client side replay) -------------------------------------------------------

type c16Prof struct {
	script string // per connection attempt: 'o' ok, 'f' connect fails; afterwards ok
	ci     int
	reply  []byte
	v      *c2.VerifC16Session
	final  int // connection attempts made with the Shutdown flag set (the final SvShutdown exchange)
}

func (p *c16Prof) Jitter() int8                                         { return 0 }
func (p *c16Prof) Switch(bool) bool                                     { return false }
func (p *c16Prof) Sleep() time.Duration                                 { return 0 }
func (p *c16Prof) WorkHours() *cfg.WorkHours                            { return nil }
func (p *c16Prof) KillDate() (time.Time, bool)                          { return time.Time{}, false }
func (p *c16Prof) TrustedKey(data.PublicKey) bool                       { return true }
func (p *c16Prof) Next() (string, cfg.Wrapper, cfg.Transform)           { return "verif:16", nil, nil }
func (p *c16Prof) Listen(context.Context, string) (net.Listener, error) { return nil, errors.New("no") }
func (p *c16Prof) Connect(x context.Context, _ string) (net.Conn, error) {
	r := byte('o')
	if p.ci < len(p.script) {
		r = p.script[p.ci]
	}
	p.ci++
	if p.v != nil && p.v.ShutdownFlag() {
		p.final++
	}
	if x.Err() != nil {
		return nil, x.Err()
	}
	if r == 'f' {
		return nil, errors.New("scripted connect failure")
	}
	return &c16Conn{rd: append([]byte(nil), p.reply...)}, nil
}

type c16Conn struct{ rd, wr []byte }

func (c *c16Conn) Read(b []byte) (int, error) {
	if len(c.rd) == 0 {
		return 0, io.EOF
	}
	n := copy(b, c.rd)
	c.rd = c.rd[n:]
	return n, nil
}
func (c *c16Conn) Write(b []byte) (int, error)      { c.wr = append(c.wr, b...); return len(b), nil }
func (c *c16Conn) Close() error                     { return nil }
func (c *c16Conn) LocalAddr() net.Addr              { return c16Addr{} }
func (c *c16Conn) RemoteAddr() net.Addr             { return c16Addr{} }
func (c *c16Conn) SetDeadline(time.Time) error      { return nil }
func (c *c16Conn) SetReadDeadline(time.Time) error  { return nil }
func (c *c16Conn) SetWriteDeadline(time.Time) error { return nil }

type c16Addr struct{}

func (c16Addr) Network() string { return "verif" }
func (c16Addr) String() string  { return "verif:16" }

// ---- one replay case -----------------------------------------------------------------------------

type c16Case struct {
	client, hasRecv, canRecv bool
	q                        int
	prog                     []string // thread tokens, see XMT.Drv.C16.parseKind
	sched                    []int
}

func (k c16Case) opLine(variant string) string {
	s := make([]string, len(k.sched))
	for i, t := range k.sched {
		s[i] = strconv.Itoa(t)
	}
	sc := strings.Join(s, ".")
	if sc == "" {
		sc = "-"
	}
	return fmt.Sprintf("run %s %s %s %s %d %s %s", variant, b01(k.client), b01(k.hasRecv), b01(k.canRecv), k.q, strings.Join(k.prog, ","), sc)
}

type c16Msg struct {
	t    int
	pc   int
	done bool
}

type c16Run struct {
	k       c16Case
	v       *c2.VerifC16Session
	cur     int
	msgs    chan c16Msg
	resume  []chan struct{}
	label   []int // pc the thread is parked in front of
	fin     []bool
	out     []string
	abandon bool
	hung    bool
	fails   []c14Fail
	told    bool // a next() thread handed the SvShutdown packet to the wire
	prof    *c16Prof
}

const c16StepTimeout = 6 * time.Second

func (r *c16Run) failf(kind, key, f string, a ...interface{}) {
	for _, x := range r.fails {
		if x.key == key {
			return
		}
	}
	r.fails = append(r.fails, c14Fail{kind, key, fmt.Sprintf(f, a...)})
}

var c16CloseChan = map[int]string{43: "send", 46: "wake", 49: "recv", 52: "ev", 54: "ch"}
var c16SendChan = map[int]string{2: "send", 3: "send", 26: "wake", 27: "wake", 88: "wake"}

func c16KindName(tok string) string {
	switch tok[0] {
	case 'C':
		return "close"
	case 'R':
		return "recvShutdown"
	case 'L':
		return "listen"
	case 'W':
		return "wait"
	case 'S':
		return "queue"
	case 'K':
		return "wake"
	case 'H':
		return "chanWake"
	case 'X':
		return "cancel"
	case 'E':
		return "eventThread"
	case 'N':
		return "next"
	}
	return "?"
}

func (r *c16Run) body(t int) (out string) {
	tok := r.k.prog[t]
	defer func() {
		if e := recover(); e != nil {
			s := fmt.Sprint(e)
			at := r.label[t]
			switch {
			case strings.Contains(s, "close of closed channel"):
				ch := c16CloseChan[at]
				out = "panic:close:" + ch
				r.failf("panic", "panic:double-close:"+ch, "thread %d (%s) at pc %d: %v", t, tok, at, e)
			case strings.Contains(s, "send on closed channel"):
				ch := c16SendChan[at]
				out = "panic:send:" + ch
				r.failf("panic", "panic:send-on-closed:"+ch+":"+c16KindName(tok), "thread %d (%s) at pc %d: %v", t, tok, at, e)
			default:
				out = "panic:other"
				r.failf("panic", "panic:other:"+c16KindName(tok), "thread %d (%s) at pc %d: %v", t, tok, at, e)
			}
		}
	}()
	v := r.v
	switch tok[0] {
	case 'C':
		v.Close(tok == "C1")
	case 'R':
		v.RecvShutdown()
	case 'L':
		v.Listen()
	case 'W':
		v.WaitCh()
	case 'S':
		v.Queue()
	case 'K':
		v.Wake()
	case 'H':
		v.ChanWake()
	case 'X':
		r.yield(90)
		v.Cancel()
	case 'E':
		v.EvLoop()
	case 'N':
		if v.Next() {
			r.told = true
		}
	}
	return "ret"
}

func (r *c16Run) yield(pc int) {
	t := r.cur
	// yield points inside helper functions that are not actions of this thread's model program
	if tok := r.k.prog[t]; pc >= 70 && pc <= 73 && tok[0] != 'N' {
		return
	}
	r.msgs <- c16Msg{t: t, pc: pc}
	<-r.resume[t]
	if r.abandon {
		runtime.Goexit()
	}
}

func c16NewRun(k c16Case) *c16Run {
	n := len(k.prog)
	r := &c16Run{k: k, msgs: make(chan c16Msg), resume: make([]chan struct{}, n), label: make([]int, n), fin: make([]bool, n), out: make([]string, n)}
	if k.client {
		sc := ""
		for _, tok := range k.prog {
			if tok[0] == 'L' && len(tok) > 2 && tok[2:] != "-" {
				sc = tok[2:]
			}
		}
		p := &c16Prof{script: sc}
		r.v = c2.VerifC16NewClientSession(p, k.hasRecv, k.canRecv, k.q)
		p.reply = c2.VerifC19Reply(r.v.S.ID)
		p.v = r.v
		r.prof = p
	} else {
		r.v = c2.VerifC16NewServerSession(k.hasRecv, k.canRecv, k.q)
	}
	c2.VerifC16Install(&c2.VerifC16Hooks{Yield: r.yield})
	for t := 0; t < n; t++ {
		r.resume[t] = make(chan struct{})
		go func(t int) {
			<-r.resume[t]
			if r.abandon {
				return
			}
			o := r.body(t)
			r.out[t] = o
			r.msgs <- c16Msg{t: t, done: true}
		}(t)
	}
	// priming: every thread runs up to its first yield point (no shared access happens before it)
	for t := 0; t < n && !r.hung; t++ {
		r.release(t)
	}
	return r
}

// release lets thread t run to its next yield point (or to its end).
func (r *c16Run) release(t int) {
	r.cur = t
	r.resume[t] <- struct{}{}
	select {
	case m := <-r.msgs:
		if m.done {
			r.fin[t] = true
			r.label[t] = 99
		} else {
			r.label[t] = m.pc
		}
	case <-time.After(c16StepTimeout):
		r.hung = true
		r.failf("hang", fmt.Sprintf("hang:step:%s@%d", c16KindName(r.k.prog[t]), r.label[t]), "thread %d (%s) did not reach a yield point within %v after pc %d", t, r.k.prog[t], c16StepTimeout, r.label[t])
	}
}

func (r *c16Run) enabled(t int) bool {
	if t < 0 || t >= len(r.k.prog) || r.fin[t] || r.hung {
		return false
	}
	switch r.label[t] {
	case 28, 80:
		return r.v.ChClosed()
	case 40, 7:
		return r.v.LockFree()
	case 86:
		return r.v.RLockFree()
	case 94:
		return r.v.CtxDone() || r.v.EvClosed()
	}
	return true
}

func (r *c16Run) step(t int) {
	if r.enabled(t) {
		r.release(t)
	}
}

func (r *c16Run) run() {
	for _, t := range r.k.sched {
		r.step(t)
	}
	n := len(r.k.prog)
	for round := 0; round < 64*n+64 && !r.hung; round++ {
		before := append([]int(nil), r.label...)
		for t := 0; t < n; t++ {
			r.step(t)
		}
		moved := false
		for t := range before {
			if before[t] != r.label[t] {
				moved = true
			}
		}
		if !moved {
			break
		}
	}
}

func (r *c16Run) close() {
	c2.VerifC16Install(nil)
	r.abandon = true
	for t := range r.resume {
		if !r.fin[t] && !(r.hung && t == r.cur) {
			close(r.resume[t])
		}
	}
	r.v.StopTick()
	r.v.Cancel()
}

// canonical final state, same format as XMT.Drv.C16.showState; also evaluates the direct oracles
func (r *c16Run) finish() string {
	c2.VerifC16Install(&c2.VerifC16Hooks{}) // observations below must not park
	o := r.v.Obs()
	thr := make([]string, len(r.k.prog))
	anyBlocked := ""
	for t := range r.k.prog {
		if r.fin[t] {
			thr[t] = r.out[t]
		} else {
			thr[t] = "blk@" + strconv.Itoa(r.label[t])
			if anyBlocked == "" {
				anyBlocked = fmt.Sprintf("%s@%d", c16KindName(r.k.prog[t]), r.label[t])
			}
		}
	}
	ev := !o.LockFree // placeholder to keep vet quiet
	_ = ev
	evClosed := r.k.client && r.v.EvClosed()
	sendC, wakeC, recvC := r.v.ClosedChans()
	st := b01(o.Closing) + b01(o.Shutdown) + b01(o.Closed) + b01(o.SendClose) + b01(o.WakeClose) + b01(o.RecvClose) + b01(o.ShutdownWait)
	ch := b01(sendC) + b01(wakeC) + b01(recvC) + b01(o.ChClosed) + b01(evClosed)
	d := strings.Join(thr, ",")
	if d == "" {
		d = "-"
	}
	res := fmt.Sprintf("thr=%s st=%s ch=%s peek=%s q=%d del=%d lock=%s", d, st, ch, b01(o.Peek), o.SendLen, o.DelReq, b01(!o.LockFree))

	// ---- the property, on the real objects --------------------------------------------------
	if !r.hung {
		if (o.Closing || o.Closed) && anyBlocked != "" {
			// once the Session is closing every call must return and every waiter be released,
			// provided somebody drives the shutdown: on the client that is the listen goroutine.
			driver := !r.k.client
			for _, tok := range r.k.prog {
				if tok[0] == 'L' {
					driver = true
				}
			}
			if driver {
				r.failf("hang", "hang:"+anyBlocked, "the Session is closing (state %s) and no thread can move, but thread(s) are still blocked: %s", st, d)
			}
		}
		if !o.LockFree {
			r.failf("lock", "lock:held-after-quiescence", "the Session lock is held although no thread is running (%s)", d)
		}
		if o.ChClosed && !o.Closed {
			r.failf("state", "state:done-without-closed", "Done() is closed but IsClosed() is false")
		}
		if o.Closed && anyBlocked == "" && !o.ChClosed {
			r.failf("waiter", "waiter:closed-without-done", "IsClosed() but Done() was never closed: waiters stay blocked")
		}
		if !r.k.client && o.Closed && o.DelReq == 0 {
			r.failf("unlist", "unlist:no-request", "server-side Session closed but no request to unlist it reached the Server")
		}
		// a reachable peer is told: a client that was asked to close (Closing) and shut down must at
		// least have attempted the final SvShutdown exchange when every connect would have succeeded
		if r.k.client && r.prof != nil && !strings.Contains(r.prof.script, "f") && o.Closing && o.Closed && r.prof.final == 0 {
			r.failf("untold", "untold:reachable-peer-never-attempted", "the client Session was closing and has shut down, every connection attempt would have succeeded, yet no attempt was made with the Shutdown flag set: the server is never told (%s)", d)
		}
		// a server-side Close() that returned must leave the request on its way to the client
		if !r.k.client && !o.Closing && !o.Closed && !o.ShutdownWait && !o.Peek && !r.told {
			for t, tok := range r.k.prog {
				if tok[0] == 'C' && r.fin[t] {
					r.failf("lost", "lost-shutdown:peek-overwritten", "server-side Close() (thread %d) returned, but the SvShutdown packet it stored in s.peek is gone without having been sent and the Session is not closing: the client is never told (%s)", t, d)
					break
				}
			}
		}
		for t, tok := range r.k.prog {
			if tok[0] == 'W' && r.fin[t] && !o.ChClosed {
				r.failf("waiter", "waiter:released-early", "Wait() returned although the Session never closed")
			}
		}
	}
	return res
}

var c16Mu sync.Mutex

func c16Execute(c *Ctx, k c16Case, group string) {
	c16Mu.Lock()
	defer c16Mu.Unlock()
	r := c16NewRun(k)
	if !r.hung {
		r.run()
	}
	res := "(aborted)"
	if !r.hung {
		res = r.finish()
		c.Op(k.opLine("F"), res)
	}
	r.close()
	for _, f := range r.fails {
		c.Fail(f.kind, f.key, f.detail+" | final: "+res, map[string]interface{}{"op": k.opLine("F"), "group": group})
	}
	kinds := map[byte]int{}
	for _, tok := range k.prog {
		kinds[tok[0]]++
	}
	closers := kinds['C'] + kinds['R'] + kinds['X']
	c.Eval(closers > 0 && len(k.prog) > 1 && len(k.sched) > 0, k.opLine("F"))
	c.Count("replay:" + group)
	if k.client {
		c.Count("role:client")
	} else {
		c.Count("role:server")
	}
	if strings.Contains(res, "st=1") || strings.Contains(res, "st=001") {
		c.Count("final:closing-or-closed")
	} else {
		c.Count("final:open")
	}
	if strings.Contains(res, "blk@") {
		c.Count("final:some-thread-blocked")
	}
	if strings.Contains(res, "panic:") {
		c.Count("final:thread-panicked")
	}
	c.Count(fmt.Sprintf("closers:%d", closers))
}

// ---- generators ------------------------------------------------------------------------------------

func c16GenProg(r *Rng, client bool) []string {
	var p []string
	add := func(tok string, n int) {
		for i := 0; i < n; i++ {
			p = append(p, tok)
		}
	}
	closeTok := func() string {
		if r.Chance(70) {
			return "C1"
		}
		return "C0"
	}
	if client {
		hasCancel := r.Chance(25)
		sc := ""
		n := r.Intn(7)
		for i := 0; i < n; i++ {
			if r.Chance(30) && !hasCancel {
				sc += "f"
			} else {
				sc += "o"
			}
		}
		if r.Chance(6) && !hasCancel {
			sc = "fffffffff"[:6+r.Intn(4)] // error budget exhausted: the loop gives up by itself
		}
		if sc == "" {
			sc = "-"
		}
		add("L:"+sc, 1)
		for i, n := 0, r.Intn(4); i < n; i++ {
			p = append(p, closeTok())
		}
		add("R", r.Intn(3)*r.Intn(2))
		add("W", r.Intn(3))
		add("E", r.Intn(2))
		if hasCancel {
			add("X", 1)
		} else {
			// Wake()/chanWake() put a wake token without setting Closing: with a cancelled context
			// wait()'s select then has two ready cases and Go picks at random (the model prefers the
			// context), so these are not combined with a cancel thread in the differential run
			add("K", r.Intn(2)*r.Intn(2))
			add("H", r.Intn(2)*r.Intn(2))
		}
		add("S", r.Intn(2)*r.Intn(2))
	} else {
		add("R", 1+r.Intn(3))
		if r.Chance(15) {
			p = p[:0]
		}
		for i, n := 0, r.Intn(3); i < n; i++ {
			p = append(p, closeTok())
		}
		add("W", r.Intn(3))
		add("H", r.Intn(3)*r.Intn(2))
		add("S", r.Intn(2)*r.Intn(2))
		add("N", r.Intn(2)*r.Intn(2))
		add("X", r.Intn(2)*r.Intn(2))
		if len(p) == 0 {
			add("R", 2)
		}
	}
	// shuffle
	for i := len(p) - 1; i > 0; i-- {
		j := r.Intn(i + 1)
		p[i], p[j] = p[j], p[i]
	}
	return p
}

func c16GenSched(r *Rng, n int) []int {
	var s []int
	switch r.Intn(8) {
	case 0: // sequential
		for t := 0; t < n; t++ {
			for i := 0; i < 30; i++ {
				s = append(s, t)
			}
		}
	case 1: // empty: the drain order
	case 2: // bursts
		for i, m := 0, 4+r.Intn(12); i < m; i++ {
			t := r.Intn(n)
			for j, l := 0, 1+r.Intn(9); j < l; j++ {
				s = append(s, t)
			}
		}
	default: // single actions, one index past the end = no such thread
		for i, m := 0, 10+r.Intn(40*n/2+1); i < m; i++ {
			s = append(s, r.Intn(n+1))
		}
	}
	return s
}

func c16Interleavings(counts []int, tids []int, limit int) [][]int {
	var res [][]int
	var cur []int
	var rec func()
	rec = func() {
		if len(res) >= limit {
			return
		}
		doneAll := true
		for i := range counts {
			if counts[i] > 0 {
				doneAll = false
				counts[i]--
				cur = append(cur, tids[i])
				rec()
				cur = cur[:len(cur)-1]
				counts[i]++
			}
		}
		if doneAll {
			res = append(res, append([]int(nil), cur...))
		}
	}
	rec()
	return res
}

func rep(t, n int) []int {
	s := make([]int, n)
	for i := range s {
		s[i] = t
	}
	return s
}

func runC16(c *Ctx) {
	runtime.GOMAXPROCS(4)
	// 0. corpus: witness schedules of the repaired defects (run first)
	c16Corpus(c)

	// 1. exhaustive interleavings of the critical actions for small shapes
	type small struct {
		name    string
		client  bool
		prog    []string
		prefix  []int
		cnt     []int
		tid     []int
		hasRecv bool
	}
	smalls := []small{
		// two handlers with the client's SvShutdown: both run the ack + Remove + ShutdownWait first,
		// then Closing() check, ShutdownWait load, transition, Lock .. of both are interleaved
		{"srv:recvShutdown|recvShutdown", false, []string{"R", "R"}, append(rep(0, 5), rep(1, 5)...), []int{6, 6}, []int{0, 1}, false},
		{"srv:recvShutdown|recvShutdown|recvShutdown", false, []string{"R", "R", "R"}, append(append(rep(0, 5), rep(1, 5)...), rep(2, 5)...), []int{4, 4, 4}, []int{0, 1, 2}, true},
		{"srv:recvShutdown|Close", false, []string{"R", "C1"}, rep(0, 3), []int{6, 6}, []int{0, 1}, false},
		{"srv:recvShutdown|chanWake", false, []string{"R", "H", "W"}, rep(0, 7), []int{9, 4}, []int{0, 1}, false},
		{"cli:Close|Close|listen", true, []string{"L:-", "C1", "C1"}, nil, []int{5, 5, 4}, []int{1, 2, 0}, false},
		{"cli:Close|recvShutdown|listen", true, []string{"L:o", "C1", "R"}, rep(0, 2), []int{5, 4, 4}, []int{1, 2, 0}, false},
		{"cli:cancel|eventThread|listen", true, []string{"L:oo", "X", "E", "W"}, nil, []int{1, 5, 6}, []int{1, 2, 0}, false},
	}
	lim := c.N(250, 12000)
	for _, sm := range smalls {
		scheds := c16Interleavings(append([]int(nil), sm.cnt...), sm.tid, 400000)
		c.Extra["exhaustive:"+sm.name] = len(scheds)
		stride := 1
		if len(scheds) > lim {
			stride = len(scheds)/lim + 1
		}
		c.Cases("small:"+sm.name, (len(scheds)+stride-1)/stride, func(r *Rng, i int) {
			sch := scheds[(i*stride+int(c.Seed))%len(scheds)]
			k := c16Case{client: sm.client, hasRecv: sm.hasRecv, prog: sm.prog, sched: append(append([]int(nil), sm.prefix...), sch...)}
			c16Execute(c, k, "small")
		})
	}

	// 2. random programs x random schedules
	c.Cases("random", c.N(2500, 40000), func(r *Rng, i int) {
		client := r.Chance(50)
		prog := c16GenProg(r, client)
		k := c16Case{client: client, hasRecv: r.Chance(40), canRecv: r.Chance(30), q: []int{0, 0, 1, 3, 127, 128}[r.Intn(6)], prog: prog, sched: c16GenSched(r, len(prog))}
		c16Execute(c, k, "random")
	})

	c16S3Main(c) // Server / Listener teardown replay (c16_s3.go)

	// 3. end-to-end scenarios (child processes)
	c16E2EParent(c)

	// 4. free-running stress of the server-side close path (child process)
	c.Cases("stress", 1, func(r *Rng, i int) { c16StressParent(c) })
}

// ---- corpus ------------------------------------------------------------------------------------------

func c16CorpusDir() string {
	if b := os.Getenv("VERIF_BUILD"); b != "" {
		return filepath.Join(filepath.Dir(b), "corpus", "C16")
	}
	return filepath.Join("..", "corpus", "C16")
}

func c16ParseOp(f []string) (c16Case, bool) {
	// run <variant> <client> <hasRecv> <canRecv> <q> <threads> <sched>
	if len(f) != 8 || f[0] != "run" {
		return c16Case{}, false
	}
	k := c16Case{client: f[2] == "1", hasRecv: f[3] == "1", canRecv: f[4] == "1"}
	k.q, _ = strconv.Atoi(f[5])
	k.prog = strings.Split(f[6], ",")
	if f[7] != "-" {
		for _, t := range strings.Split(f[7], ".") {
			v, err := strconv.Atoi(t)
			if err != nil {
				return c16Case{}, false
			}
			k.sched = append(k.sched, v)
		}
	}
	return k, true
}

func c16Corpus(c *Ctx) {
	files, _ := filepath.Glob(filepath.Join(c16CorpusDir(), "*.txt"))
	sort.Strings(files)
	var all []c16Case
	for _, f := range files {
		b, err := os.ReadFile(f)
		if err != nil {
			continue
		}
		for _, line := range strings.Split(string(b), "\n") {
			line = strings.TrimSpace(line)
			if line == "" || strings.HasPrefix(line, "#") {
				continue
			}
			if k, ok := c16ParseOp(strings.Fields(line)); ok {
				all = append(all, k)
			} else {
				c.Fail("corpus", "corpus:bad-line", line, line)
			}
		}
	}
	c.Extra["corpus_cases"] = len(all)
	c.Cases("corpus", len(all), func(r *Rng, i int) { c16Execute(c, all[i], "corpus") })
	// a Listener closed while it has no socket (the state Replace leaves between dropping the old socket
	// and binding the new one, in which Replace itself calls Close when binding fails): 1..4 callers
	c.Cases("nosocket", 4, func(r *Rng, i int) {
		p, ret, closed := c2.VerifC16CloseWithoutSocket(1 + i)
		in := map[string]interface{}{"callers": 1 + i, "state": "stateReplacing set, listener == nil, listen() running"}
		switch {
		case p != "":
			c.Fail("panic", "panic:Listener.Close:no-socket", "Listener.Close() panicked on a Listener without a socket: "+p, in)
		case !ret:
			c.Fail("hang", "hang:call:Listener.Close:no-socket", "Listener.Close() did not return on a Listener without a socket", in)
		case !closed:
			c.Fail("waiter", "waiter:Listener.Done:no-socket", "Listener.Close() returned but Done() is not closed", in)
		}
		c.Eval(true, fmt.Sprint("nosocket", i))
	})
}

// ---- end-to-end parent ---------------------------------------------------------------------------------

func c16Scenarios(c *Ctx) []c16Scen {
	moments := []string{"idle", "exchange", "gate", "channel", "queued", "reassembly", "offhours"}
	sides := []string{"client", "server", "remove", "both-cs", "both-sc", "ctx-client", "listener", "srvclose", "ctx-server", "fleet"}
	var res []c16Scen
	i := 0
	for _, m := range moments {
		for _, s := range sides {
			callers := []int{1, 2, 3, 4}[(i+int(c.Seed))%4]
			repeat := []int{0, 1, 2}[(i/2+int(c.Seed))%3]
			clients := 1 + (i+int(c.Seed)/2)%2
			if m == "offhours" {
				// the client does not poll outside its work hours: only a close on the client side can be
				// expected to go through (the server cannot reach it)
				if s == "client" || s == "ctx-client" {
					res = append(res, c16Scen{m, s, callers, repeat, 1})
					i++
				}
				continue
			}
			if s == "fleet" {
				if m != "idle" {
					continue
				}
				// more than 32 sessions (two removal requests each, queue of 64)
				res = append(res, c16Scen{m, s, 1, 0, 40 + int(c.Seed)%8})
				i++
				continue
			}
			res = append(res, c16Scen{m, s, callers, repeat, clients})
			if c.Thorough() {
				for k := 1; k <= 4; k++ {
					res = append(res, c16Scen{m, s, k, (k + i) % 3, 1 + (k+i)%2})
				}
			}
			i++
		}
	}
	return res
}

type c16ChildRes struct {
	unconfirmed int // liveness failures of a first run that two re-runs of the scenario did not show again
	sc          c16Scen
	seed        uint64
	out         string
	err         error
	tmo         bool
	fails       [][2]string
}

func c16E2EParent(c *Ctx) {
	if c.Only >= 0 && c.Only/1000000 != c16GroupBase("e2e") {
		return
	}
	scs := c16Scenarios(c)
	reps := c.N(2, 6)
	type job struct {
		idx int
		sc  c16Scen
		sd  uint64
	}
	var jobs []job
	for i, sc := range scs {
		for k := 0; k < reps; k++ {
			jobs = append(jobs, job{i*100 + k, sc, c.Seed*1000 + uint64(k)})
		}
	}
	results := make([]c16ChildRes, len(jobs))
	var wg sync.WaitGroup
	sem := make(chan struct{}, 6)
	for ji, j := range jobs {
		id := c16GroupBase("e2e")*1000000 + j.idx
		if c.Only >= 0 && c.Only != id {
			continue
		}
		wg.Add(1)
		sem <- struct{}{}
		go func(ji int, j job) {
			defer wg.Done()
			defer func() { <-sem }()
			res := c16RunChild(c, j.sc, j.sd, ji)
			// an end-to-end run samples ONE real schedule over real sockets and timers. A liveness failure
			// (something did not happen within the budget) that does not recur when the same scenario is
			// run again twice is not reported: the systematic part of this check is the schedule replay
			// above, and a change that breaks a scenario outright fails every time. Crashes, time-outs of
			// the whole child and the diagnosed findings are never second-guessed.
			if len(res.fails) > 0 && !res.tmo && res.err == nil && strings.Contains(res.out, "\nDONE") {
				soft := true
				for _, f := range res.fails {
					k := f[0]
					if !(strings.HasPrefix(k, "hang:") || strings.HasPrefix(k, "state:") || strings.HasPrefix(k, "waiter:") || strings.HasPrefix(k, "listed:") || strings.HasPrefix(k, "leak:")) {
						soft = false
					}
				}
				if soft {
					again := 0
					for _, d := range []uint64{7, 13} {
						r2 := c16RunChild(c, j.sc, j.sd+d, ji+100000+int(d))
						if len(r2.fails) > 0 || r2.tmo || r2.err != nil {
							again++
						}
					}
					if again == 0 {
						res.unconfirmed = len(res.fails)
						res.fails = nil
					}
				}
			}
			results[ji] = res
		}(ji, j)
	}
	wg.Wait()
	for ji, j := range jobs {
		id := c16GroupBase("e2e")*1000000 + j.idx
		if c.Only >= 0 && c.Only != id {
			continue
		}
		res := results[ji]
		c.curCase = id
		in := map[string]interface{}{"scenario": j.sc.String(), "child_seed": j.sd, "replay": "VERIF_C16_SCEN=" + j.sc.String() + " build/xmth C16e2e --out /tmp/x --seed " + strconv.FormatUint(j.sd, 10)}
		for _, f := range res.fails {
			kind := f[0]
			if i := strings.Index(kind, ":"); i > 0 {
				kind = kind[:i]
			}
			c.Fail("e2e:"+kind, f[0], "end-to-end "+j.sc.String()+": "+f[1], in)
		}
		switch {
		case res.tmo:
			c.Fail("e2e:hang", "hang:e2e-child:"+j.sc.Side, "end-to-end scenario "+j.sc.String()+" did not finish within the child timeout", in)
		case res.err != nil || !strings.Contains(res.out, "\nDONE"):
			key := "crash:e2e:" + c16CrashSig(res.out)
			c.Fail("e2e:panic", key, "end-to-end scenario "+j.sc.String()+": child died: "+tail(res.out, 1800), in)
		}
		if res.unconfirmed > 0 {
			c.Count("e2e:unconfirmed-liveness-failure:" + j.sc.Moment + "/" + j.sc.Side)
		}
		c.Eval(true, "e2e "+j.sc.String()+" "+strconv.FormatUint(j.sd, 10))
		c.Count("e2e:moment:" + j.sc.Moment)
		c.Count("e2e:side:" + j.sc.Side)
		c.Count(fmt.Sprintf("e2e:callers:%d", j.sc.Callers))
	}
	c.Extra["e2e_children"] = len(jobs)
}

func c16GroupBase(group string) int {
	base := uint64(0)
	for _, ch := range group {
		base = base*131 + uint64(ch)
	}
	return int(base % 1000)
}

func tail(s string, n int) string {
	if len(s) > n {
		return s[len(s)-n:]
	}
	return s
}

// c16CrashSig: class of a fatal panic and the library function it happened in
func c16CrashSig(out string) string {
	cls := "exit"
	switch {
	case strings.Contains(out, "close of closed channel"):
		cls = "double-close"
	case strings.Contains(out, "send on closed channel"):
		cls = "send-on-closed"
	case strings.Contains(out, "concurrent map"):
		cls = "concurrent-map-access"
	case strings.Contains(out, "all goroutines are asleep"):
		cls = "deadlock"
	case strings.Contains(out, "panic:"):
		cls = "panic"
	}
	fn := ""
	if i := strings.Index(out, "[running]"); i >= 0 {
		for _, l := range strings.Split(out[i:], "\n") {
			if strings.HasPrefix(l, "github.com/iDigitalFlame/xmt/") {
				l = strings.TrimPrefix(l, "github.com/iDigitalFlame/xmt/")
				if j := strings.LastIndex(l, "("); j > 0 {
					l = l[:j]
				}
				fn = l
				break
			}
		}
	}
	return cls + ":" + fn
}

func c16RunChild(c *Ctx, sc c16Scen, seed uint64, idx int) c16ChildRes {
	dir := filepath.Join(c.OutDir, "e2e", strconv.Itoa(idx))
	os.MkdirAll(dir, 0o755)
	cmd := exec.Command(os.Args[0], "C16e2e", "--out", dir, "--seed", strconv.FormatUint(seed, 10), "--tier", c.Tier)
	cmd.Env = append(os.Environ(), "VERIF_C16_SCEN="+sc.String())
	res := c16ChildRes{sc: sc, seed: seed}
	done := make(chan struct{})
	var out []byte
	go func() { out, res.err = cmd.CombinedOutput(); close(done) }()
	select {
	case <-done:
	case <-time.After(90 * time.Second):
		cmd.Process.Kill()
		<-done
		res.tmo = true
	}
	res.out = string(out)
	for _, line := range strings.Split(res.out, "\n") {
		if strings.HasPrefix(line, "FAIL ") {
			f := strings.SplitN(line[5:], " ", 2)
			d := ""
			if len(f) > 1 {
				d = f[1]
			}
			res.fails = append(res.fails, [2]string{f[0], d})
		}
	}
	os.RemoveAll(dir)
	return res
}

// ---- free-running stress (child process) ---------------------------------------------------------------

func c16StressParent(c *Ctx) {
	dir := filepath.Join(c.OutDir, "stress")
	os.MkdirAll(dir, 0o755)
	cmd := exec.Command(os.Args[0], "C16stress", "--out", dir, "--seed", strconv.FormatUint(c.Seed, 10), "--tier", c.Tier)
	done := make(chan struct{})
	var out []byte
	var err error
	go func() { out, err = cmd.CombinedOutput(); close(done) }()
	tmo := time.Duration(c.N(60, 300)) * time.Second
	in := map[string]interface{}{"seed": c.Seed, "tier": c.Tier}
	select {
	case <-done:
	case <-time.After(tmo):
		cmd.Process.Kill()
		<-done
		c.Fail("stress", "hang:stress", "free-running stress did not finish within "+tmo.String(), tail(string(out), 1500))
		c.Eval(true, "stress")
		return
	}
	s := string(out)
	for _, line := range strings.Split(s, "\n") {
		if strings.HasPrefix(line, "FAIL ") {
			f := strings.SplitN(line[5:], " ", 2)
			d := ""
			if len(f) > 1 {
				d = f[1]
			}
			c.Fail("stress", f[0], "free-running stress: "+d, in)
		}
		if strings.HasPrefix(line, "STAT ") {
			f := strings.Fields(line)
			if len(f) == 3 {
				v, _ := strconv.Atoi(f[2])
				c.Extra["stress:"+f[1]] = v
			}
		}
	}
	if err != nil {
		c.Fail("stress", "crash:stress:"+c16CrashSig(s), "free-running stress child died: "+err.Error(), tail(s, 2500))
	}
	c.Eval(true, "stress")
}

// runC16StressChild: k goroutines carry the client's SvShutdown to one real server-side Session at
// the same time (plus Close(), Wait(), chanWake()), no scheduler installed, all cores.
func runC16StressChild(c *Ctx) {
	runtime.GOMAXPROCS(8)
	c2.VerifC16Install(nil)
	iters := c.N(60000, 1500000)
	budget := time.Duration(c.N(25, 200)) * time.Second
	r := NewRng(c.Seed, 1616)
	var mu sync.Mutex
	panics := map[string]int{}
	guard := func(where string, fn func()) {
		defer func() {
			if e := recover(); e != nil {
				s := fmt.Sprint(e)
				cl := "other"
				switch {
				case strings.Contains(s, "close of closed channel"):
					cl = "double-close"
				case strings.Contains(s, "send on closed channel"):
					cl = "send-on-closed"
				}
				mu.Lock()
				panics[cl+":"+where]++
				mu.Unlock()
			}
		}()
		fn()
	}
	t0 := time.Now()
	done, stuck, notClosed, noUnlist, lockHeld := 0, 0, 0, 0, 0
	for it := 0; it < iters && time.Since(t0) < budget; it++ {
		done++
		v := c2.VerifC16NewServerSession(r.Chance(30), r.Chance(20), r.Intn(3))
		nR, nC, nW, nH := 2+r.Intn(3), r.Intn(2), 1, r.Intn(2)
		var wg sync.WaitGroup
		start := make(chan struct{})
		waitRet := make(chan struct{}, nW)
		for k := 0; k < nW; k++ {
			go func() { guard("Wait", v.WaitCh); waitRet <- struct{}{} }()
		}
		spawn := func(where string, fn func()) {
			wg.Add(1)
			go func() { defer wg.Done(); <-start; guard(where, fn) }()
		}
		for k := 0; k < nR; k++ {
			spawn("recvShutdown", v.RecvShutdown)
		}
		for k := 0; k < nC; k++ {
			spawn("Close", func() { v.Close(true) })
		}
		for k := 0; k < nH; k++ {
			spawn("chanWake", v.ChanWake)
		}
		close(start)
		wg.Wait()
		for k := 0; k < nW; k++ {
			select {
			case <-waitRet:
			case <-time.After(10 * time.Second):
				stuck++
			}
		}
		o := v.Obs()
		if !o.Closed || !o.ChClosed {
			notClosed++
		}
		if o.DelReq == 0 {
			noUnlist++
		}
		if !o.LockFree {
			lockHeld++
		}
		v.Cancel()
	}
	fmt.Printf("STAT iterations %d\n", done)
	fail := func(key, f string, a ...interface{}) { fmt.Printf("FAIL %s %s\n", key, fmt.Sprintf(f, a...)) }
	for k, n := range panics {
		i := strings.Index(k, ":")
		fail("panic:"+k[:i]+":free-running:"+k[i+1:], "%d panics (%s) in %d free-running iterations", n, k, done)
	}
	if stuck > 0 {
		fail("hang:Wait:free-running", "%d Wait() calls not released within 10s after the client's SvShutdown was processed", stuck)
	}
	if notClosed > 0 {
		fail("state:not-closed:free-running", "%d of %d Sessions not closed after the client's SvShutdown was processed", notClosed, done)
	}
	if noUnlist > 0 {
		fail("unlist:no-request", "%d of %d closed Sessions without a request to unlist", noUnlist, done)
	}
	if lockHeld > 0 {
		fail("lock:held-after-quiescence", "%d of %d Sessions with the lock left held", lockHeld, done)
	}
}
