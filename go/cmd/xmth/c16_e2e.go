package main

// C16 — end-to-end part: a real Server + Listener + 1..2 real client Sessions in ONE process over
// loopback TCP; close / remove / context cancellation is issued at an enumerated protocol step,
// from either side, by 1..4 concurrent callers, repeatedly. Everything here runs in a CHILD process
// (a double close is a fatal-ish panic on a library goroutine, a missed wake is a hang), one
// scenario per child; the parent (c16.go) enforces the timeout and classifies the output.
//
// The oracle is the property itself, evaluated on the real objects only (no model involved):
//   every close call returns within the budget, Wait/Done are released, the peer IsClosed, the
//   Server stops listing the session, Listener.Wait / Server.Wait are released, the goroutine
//   count returns to the baseline, nothing panics.

import (
	"context"
	"fmt"
	"os"
	"runtime"
	"sort"
	"strconv"
	"strings"
	"sync"
	"sync/atomic"
	"time"

	"github.com/iDigitalFlame/xmt/c2"
	"github.com/iDigitalFlame/xmt/c2/cfg"
	"github.com/iDigitalFlame/xmt/c2/task"
	"github.com/iDigitalFlame/xmt/com"
	"github.com/iDigitalFlame/xmt/data"
	"github.com/iDigitalFlame/xmt/device/local"
)

func init() { register("C16e2e", runC16E2EChild) }

// c16Scen is one end-to-end scenario. Canonical text form: moment/side/callers/repeat/clients.
type c16Scen struct {
	Moment  string // idle | exchange | gate | channel | queued | reassembly
	Side    string // client | server | remove | both-cs | both-sc | ctx-client | ctx-server | listener | srvclose
	Callers int    // concurrent callers of the close call (1..4)
	Repeat  int    // the close call is issued again this many times after it returned
	Clients int    // 1..2
}

func (s c16Scen) String() string {
	return fmt.Sprintf("%s/%s/%d/%d/%d", s.Moment, s.Side, s.Callers, s.Repeat, s.Clients)
}

func c16ParseScen(t string) (c16Scen, bool) {
	f := strings.Split(t, "/")
	if len(f) != 5 {
		return c16Scen{}, false
	}
	a, e1 := strconv.Atoi(f[2])
	b, e2 := strconv.Atoi(f[3])
	c, e3 := strconv.Atoi(f[4])
	if e1 != nil || e2 != nil || e3 != nil || a < 1 || a > 16 || b < 0 || c < 1 || c > 64 {
		return c16Scen{}, false
	}
	return c16Scen{f[0], f[1], a, b, c}, true
}

const (
	c16Sleep  = 10 * time.Millisecond // client profile sleep
	c16Budget = 6 * time.Second       // every close call / release must happen within this
)

type c16Child struct {
	fails []string
	obs   []string
}

func (k *c16Child) fail(key, f string, a ...interface{}) {
	for _, x := range k.fails {
		if strings.HasPrefix(x, key+" ") {
			return
		}
	}
	k.fails = append(k.fails, key+" "+fmt.Sprintf(f, a...))
}
func (k *c16Child) ob(key string, v interface{}) { k.obs = append(k.obs, fmt.Sprintf("%s=%v", key, v)) }

// within runs fn in a goroutine and reports whether it returned within the budget.
func c16Within(d time.Duration, fn func()) bool {
	ch := make(chan struct{})
	go func() { fn(); close(ch) }()
	select {
	case <-ch:
		return true
	case <-time.After(d):
		return false
	}
}

func c16Until(d time.Duration, cond func() bool) bool {
	t0 := time.Now()
	for time.Since(t0) < d {
		if cond() {
			return true
		}
		time.Sleep(2 * time.Millisecond)
	}
	return cond()
}

// goroutine accounting: only goroutines that run code of the repository count (the net poller,
// timers and the harness' own helpers do not).
func c16RepoGoroutines() (int, string) {
	buf := make([]byte, 1<<20)
	n := runtime.Stack(buf, true)
	var cnt int
	var sample []string
	for _, g := range strings.Split(string(buf[:n]), "\n\n") {
		if !strings.Contains(g, "github.com/iDigitalFlame/xmt/") {
			continue
		}
		// the goroutine calling us (main) has harness frames on top of it but no c2 frame
		cnt++
		// name = the goroutine's entry function (deepest library frame)
		name := ""
		for _, l := range strings.Split(g, "\n") {
			if strings.HasPrefix(l, "github.com/iDigitalFlame/xmt/") {
				l = strings.TrimPrefix(l, "github.com/iDigitalFlame/xmt/")
				if i := strings.LastIndex(l, "("); i > 0 {
					l = l[:i]
				}
				name = l
			}
		}
		sample = append(sample, name)
	}
	sort.Strings(sample)
	return cnt, strings.Join(sample, ",")
}

func c16Frag(group, total, pos uint16, job uint16, body int) *com.Packet {
	n := &com.Packet{ID: 0xC8, Job: job}
	n.Flags.SetGroup(group)
	n.Flags.SetLen(total)
	n.Flags.SetPosition(pos)
	n.Write(make([]byte, body))
	return n
}

func runC16E2EChild(c *Ctx) {
	sc, ok := c16ParseScen(os.Getenv("VERIF_C16_SCEN"))
	if !ok {
		fmt.Println("FAIL harness:bad-scenario " + os.Getenv("VERIF_C16_SCEN"))
		return
	}
	runtime.GOMAXPROCS(4)
	k := &c16Child{}
	c16RunScenario(k, sc, NewRng(c.Seed, 1600))
	for _, o := range k.obs {
		fmt.Println("OBS " + o)
	}
	for _, f := range k.fails {
		fmt.Println("FAIL " + f)
	}
	fmt.Println("DONE")
}

func c16RunScenario(k *c16Child, sc c16Scen, r *Rng) {
	// the echo Tasker; `gate` (when armed) parks the Tasker until released: "mid-exchange".
	var gateArmed int32
	gate := make(chan struct{})
	var inTask int32
	task.Mappings[0xC8] = func(x context.Context, rd data.Reader, w data.Writer) error {
		atomic.AddInt32(&inTask, 1)
		if atomic.LoadInt32(&gateArmed) == 1 {
			select {
			case <-gate:
			case <-time.After(c16Budget):
			}
		}
		b := make([]byte, 4096)
		for {
			n, err := rd.Read(b)
			if n > 0 {
				w.Write(b[:n])
			}
			if err != nil || n == 0 {
				break
			}
		}
		return nil
	}
	base, _ := c16RepoGoroutines()
	k.ob("g_base", base)

	sctx, scancel := context.WithCancel(context.Background())
	defer scancel()
	srv := c2.NewServerContext(sctx, nil)
	srv.Keys.Fill()
	lp, err := cfg.Build(cfg.ConnectTCP, cfg.Host("127.0.0.1:0"))
	if err != nil {
		k.fail("harness:setup", "listener profile: %v", err)
		return
	}
	l, err := srv.Listen("c16", "127.0.0.1:0", lp)
	if err != nil {
		k.fail("harness:setup", "listen: %v", err)
		return
	}
	cp, err := cfg.Build(cfg.ConnectTCP, cfg.Host(l.Address()), cfg.Sleep(c16Sleep), cfg.Jitter(0))
	if err != nil {
		k.fail("harness:setup", "client profile: %v", err)
		return
	}
	cctx, ccancel := context.WithCancel(context.Background())
	defer ccancel()
	var cs []*c2.Session
	for i := 0; i < sc.Clients; i++ {
		if i > 0 {
			// every client of this process would carry the same device id: give the next one its own
			if sc.Clients > 2 {
				local.UUID[len(local.UUID)-2], local.UUID[len(local.UUID)-3] = byte(i), byte(i>>8)|0x40
			} else {
				local.UUID[len(local.UUID)-1] ^= byte(i)
			}
			local.Device.ID = local.UUID
		}
		s, err := c2.ConnectContext(cctx, nil, cp)
		if err != nil {
			k.fail("harness:setup", "connect %d: %v", i, err)
			return
		}
		cs = append(cs, s)
	}
	if !c16Until(c16Budget, func() bool { return len(srv.Sessions()) == sc.Clients }) {
		k.fail("harness:setup", "server lists %d sessions, want %d", len(srv.Sessions()), sc.Clients)
		return
	}
	ss := srv.Sessions()
	k.ob("server_sessions", len(ss))

	// a few quiet exchanges so that the session is past registration
	time.Sleep(3 * c16Sleep)

	// ---- bring the pair to the protocol step --------------------------------------------------
	var jobs []*c2.Job
	switch sc.Moment {
	case "idle":
	case "offhours": // the client sits in the work-hours wait (today is not a working day) when close is issued
		for i, s := range ss {
			w := &cfg.WorkHours{Days: 127 &^ (1 << uint(time.Now().Weekday()))}
			j, err := s.SetWorkHours(w)
			if err != nil || j == nil {
				k.fail("harness:setup", "SetWorkHours on session %d: %v", i, err)
				return
			}
			// the answer may never come: the client can reach its work-hours wait before the result is
			// queued, and then does not poll. What matters here is that the client HAS the rule.
			if !c16Until(c16Budget, func() bool { return cs[0].WorkHours() != nil }) {
				k.fail("harness:setup", "the work-hours order for session %d did not reach the client", i)
				return
			}
		}
		time.Sleep(5 * c16Sleep)
	case "exchange": // a task is on its way / being answered while close is issued
		for _, s := range ss {
			if j, err := s.Task(&com.Packet{ID: 0xC8, Chunk: data.Chunk{}}); err == nil {
				jobs = append(jobs, j)
			}
		}
	case "gate": // the client's Tasker is parked inside the task when close is issued
		atomic.StoreInt32(&gateArmed, 1)
		for _, s := range ss {
			n := &com.Packet{ID: 0xC8}
			n.Write(r.Bytes(64))
			if j, err := s.Task(n); err == nil {
				jobs = append(jobs, j)
			}
		}
		if !c16Until(c16Budget, func() bool { return atomic.LoadInt32(&inTask) > 0 }) {
			k.fail("harness:setup", "the Tasker was never invoked")
		}
	case "channel":
		for _, s := range cs {
			s.SetChannel(true)
		}
		if !c16Until(c16Budget, func() bool {
			for _, s := range ss {
				if !s.InChannel() {
					return false
				}
			}
			return true
		}) {
			k.ob("channel_not_reached", 1)
		}
	case "queued":
		for _, s := range ss {
			for i := 0; i < 6; i++ {
				n := &com.Packet{ID: 0xC8}
				n.Write(r.Bytes(32 + i))
				if j, err := s.Task(n); err == nil {
					jobs = append(jobs, j)
				}
			}
		}
		for _, s := range cs {
			for i := 0; i < 6; i++ {
				n := &com.Packet{ID: 0xC8, Job: uint16(3000 + i), Device: s.ID}
				n.Write(r.Bytes(16))
				s.Write(n)
			}
		}
	case "reassembly": // first fragment of a 3-fragment group delivered in both directions
		for i, s := range ss {
			s.Write(c16Frag(uint16(0x100+i), 3, 0, uint16(200+i), 128))
		}
		for i, s := range cs {
			n := c16Frag(uint16(0x200+i), 3, 0, uint16(300+i), 128)
			n.Device = s.ID
			s.Write(n)
		}
		time.Sleep(4 * c16Sleep)
	default:
		k.fail("harness:bad-scenario", "moment %q", sc.Moment)
		return
	}
	_ = jobs

	// ---- issue the close ------------------------------------------------------------------------
	type call struct {
		name string
		fn   func()
	}
	var calls []call
	add := func(name string, fn func()) {
		for i := 0; i < sc.Callers; i++ {
			calls = append(calls, call{name, fn})
		}
	}
	closeClients := func() {
		for _, s := range cs {
			s.Close()
		}
	}
	closeServerSide := func() {
		for _, s := range ss {
			s.Close()
		}
	}
	expectSessionsClosed := true
	switch sc.Side {
	case "client":
		add("client.Close", closeClients)
	case "server":
		add("serverSession.Close", closeServerSide)
	case "remove":
		add("Server.Remove", func() {
			for _, s := range ss {
				srv.Remove(s.ID, true)
			}
		})
	case "both-cs":
		add("client.Close", closeClients)
		add("serverSession.Close", closeServerSide)
	case "both-sc":
		add("serverSession.Close", closeServerSide)
		add("client.Close", closeClients)
	case "ctx-client":
		add("client.ctx.cancel", ccancel)
	case "listener":
		add("Listener.Close", func() { l.Close() })
		expectSessionsClosed = false
	case "fleet":
		var slow sync.Once
		srv.Shutdown = func(*c2.Session) { slow.Do(func() { time.Sleep(1500 * time.Millisecond) }) }
		// every client closes at once while the Server thread is busy in an operator callback for a
		// moment: more removal requests than the Server's queue holds must still all be honoured
		add("client.Close", closeClients)
	case "srvclose":
		add("Server.Close", func() { srv.Close() })
		expectSessionsClosed = false
	case "ctx-server":
		add("server.ctx.cancel", scancel)
		expectSessionsClosed = false
	default:
		k.fail("harness:bad-scenario", "side %q", sc.Side)
		return
	}
	if sc.Moment == "gate" {
		// the Tasker is released shortly AFTER the close calls were issued
		go func() { time.Sleep(3 * c16Sleep); atomic.StoreInt32(&gateArmed, 0); close(gate) }()
	}
	for round := 0; round <= sc.Repeat; round++ {
		var wg sync.WaitGroup
		var late int32
		var lateName atomic.Value
		for _, cl := range calls {
			wg.Add(1)
			go func(cl call) {
				defer wg.Done()
				if !c16Within(c16Budget, cl.fn) {
					atomic.AddInt32(&late, 1)
					lateName.Store(cl.name)
				}
			}(cl)
		}
		wg.Wait()
		if late > 0 {
			k.fail("hang:call:"+fmt.Sprint(lateName.Load()), "%d of %d concurrent calls did not return within %v (round %d)", late, len(calls), c16Budget, round)
			break
		}
	}

	// ---- the property, on the real objects ------------------------------------------------------
	if expectSessionsClosed && (sc.Side == "server" || sc.Side == "remove") {
		// diagnose the recorded finding precisely: the operator's Close() returned, yet the packet it
		// stored in s.peek was overwritten by the connection handler before it went out
		lost := false
		c16Until(c16Budget, func() bool {
			for _, s := range cs {
				if !s.IsClosed() {
					return false
				}
			}
			return true
		})
		for i, s := range ss {
			if !s.IsClosed() && !c2.VerifC16ShutdownPending(s) {
				lost = true
				k.fail("lost-shutdown:peek-overwritten:e2e", "server-side session %d: Close() returned, the SvShutdown packet is no longer pending, the Session is not closing and the client was never told", i)
			}
		}
		if lost {
			expectSessionsClosed = false
			for _, s := range ss {
				s.Close()
			}
		}
	}
	if expectSessionsClosed {
		for i, s := range cs {
			if !c16Within(c16Budget, s.Wait) {
				k.fail("hang:client.Wait", "client %d: Wait() not released within %v after %s", i, c16Budget, sc.Side)
			}
			select {
			case <-s.Done():
			default:
				k.fail("waiter:client.Done", "client %d: Done() not closed", i)
			}
			if !s.IsClosed() {
				k.fail("state:client.IsClosed", "client %d: IsClosed() = false after close", i)
			}
			if s.IsActive() {
				k.fail("state:client.IsActive", "client %d: IsActive() = true after close", i)
			}
		}
		for i, s := range ss {
			if !c16Within(c16Budget, s.Wait) {
				k.fail("hang:serverSession.Wait", "server-side session %d: Wait() not released within %v after %s (peer reachable)", i, c16Budget, sc.Side)
				continue
			}
			if !s.IsClosed() {
				k.fail("state:serverSession.IsClosed", "server-side session %d: IsClosed() = false", i)
			}
		}
		if !c16Until(c16Budget, func() bool { return len(srv.Sessions()) == 0 }) {
			k.fail("listed:Server.Sessions", "the Server still lists %d session(s) %v after the close handshake", len(srv.Sessions()), c16Budget)
		}
		// the server and listener are still usable and were not torn down by a session close
		if !srv.IsActive() || !l.IsActive() {
			k.fail("state:server-stopped-by-session-close", "Server active=%v Listener active=%v", srv.IsActive(), l.IsActive())
		}
		if n, who := c16GoroutinesSettle(base + 2); n > base+2 {
			// +2: Server.listen and Listener.listen are still (rightly) running
			k.fail("leak:goroutines-after-session-close", "%d goroutines of the library still running after the sessions closed (baseline %d + server loop + listener loop): %s", n, base, who)
		}
	}
	// ---- tear everything down: Listener, Server -------------------------------------------------
	switch sc.Side {
	case "listener":
		if !c16Within(c16Budget, l.Wait) {
			k.fail("hang:Listener.Wait", "Listener.Wait() not released after Listener.Close()")
		}
		if l.IsActive() {
			k.fail("state:Listener.IsActive", "listener still active after Close")
		}
	case "srvclose", "ctx-server":
		if !c16Within(c16Budget, srv.Wait) {
			k.fail("hang:Server.Wait", "Server.Wait() not released after %s", sc.Side)
		}
		if !c16Within(c16Budget, l.Wait) {
			k.fail("hang:Listener.Wait", "Listener.Wait() not released after %s", sc.Side)
		}
		if srv.IsActive() {
			k.fail("state:Server.IsActive", "server still active after %s", sc.Side)
		}
	}
	// final teardown, twice (repeatedly) and concurrently
	var wg sync.WaitGroup
	for i := 0; i < 2; i++ {
		wg.Add(1)
		go func() {
			defer wg.Done()
			if !c16Within(c16Budget, func() { srv.Close() }) {
				k.fail("hang:call:Server.Close", "Server.Close() did not return within %v", c16Budget)
			}
		}()
	}
	wg.Wait()
	if !c16Within(c16Budget, func() { srv.Close() }) {
		k.fail("hang:call:Server.Close", "repeated Server.Close() did not return within %v", c16Budget)
	}
	if !c16Within(c16Budget, srv.Wait) {
		k.fail("hang:Server.Wait", "Server.Wait() not released after Server.Close()")
	}
	if !c16Within(c16Budget, l.Wait) {
		k.fail("hang:Listener.Wait", "Listener.Wait() not released after Server.Close()")
	}
	if !c16Within(c16Budget, func() { l.Close() }) {
		k.fail("hang:call:Listener.Close", "Listener.Close() after Server.Close() did not return")
	}
	if !expectSessionsClosed {
		// the peer is no longer reachable: the clients give up by themselves (error budget) or are
		// closed here; either way Close must return and release the waiters.
		for i, s := range cs {
			if !c16Within(c16Budget, func() { s.Close() }) {
				k.fail("hang:call:client.Close-unreachable", "client %d: Close() with the server gone did not return within %v", i, c16Budget)
				continue
			}
			if !c16Within(c16Budget, s.Wait) {
				k.fail("hang:client.Wait-unreachable", "client %d: Wait() not released with the server gone", i)
			}
		}
	}
	ccancel()
	scancel()
	if n, who := c16GoroutinesSettle(base); n > base {
		k.fail("leak:goroutines-after-teardown", "%d goroutines of the library still running after everything was closed (baseline %d): %s", n, base, who)
	}
	k.ob("tasker_calls", atomic.LoadInt32(&inTask))
}

func c16GoroutinesSettle(want int) (int, string) {
	var n int
	var who string
	c16Until(3*time.Second, func() bool { n, who = c16RepoGoroutines(); return n <= want })
	return n, who
}
