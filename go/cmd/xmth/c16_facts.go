package main

// Facts for C16, regenerated from the CURRENT source text by go/parser on every run.
// The Lean model consumes them as the code-variant flags of `XMT.Close.cfgF` (so the theorems are
// about the tree that is there now; a reverted repair flips a flag and the `decide` obligations in
// XMT/Props/C16.lean no longer close) and as constants.

import (
	"bytes"
	"fmt"
	"go/ast"
	"go/parser"
	"go/printer"
	"go/token"
	"os"
	"path/filepath"
	"strconv"
	"strings"

	"github.com/iDigitalFlame/xmt/c2"
)

func c16Str(fs *token.FileSet, n ast.Node) string {
	var b bytes.Buffer
	printer.Fprint(&b, fs, n)
	return strings.Join(strings.Fields(b.String()), " ")
}

// c16Func returns the declaration of func/method `name` whose receiver type (without *) is recv
// ("" = plain function).
func c16Func(file *ast.File, recv, name string) *ast.FuncDecl {
	for _, d := range file.Decls {
		fd, ok := d.(*ast.FuncDecl)
		if !ok || fd.Name.Name != name || fd.Body == nil {
			continue
		}
		r := ""
		if fd.Recv != nil && len(fd.Recv.List) == 1 {
			switch t := fd.Recv.List[0].Type.(type) {
			case *ast.StarExpr:
				if id, ok := t.X.(*ast.Ident); ok {
					r = id.Name
				}
			case *ast.Ident:
				r = t.Name
			}
		}
		if r == recv {
			return fd
		}
	}
	return nil
}

func c16EndsInReturn(b *ast.BlockStmt) bool {
	if b == nil || len(b.List) == 0 {
		return false
	}
	_, ok := b.List[len(b.List)-1].(*ast.ReturnStmt)
	return ok
}

func leanBool(b bool) string {
	if b {
		return "true"
	}
	return "false"
}

func init() {
	factProviders = append(factProviders, func(f *factSet, repo string) error {
		fs := token.NewFileSet()
		parse := func(rel string) (*ast.File, error) { return parser.ParseFile(fs, filepath.Join(repo, rel), nil, 0) }
		sess, err := parse("c2/session.go")
		if err != nil {
			return err
		}
		// --- close(): the closing transition -------------------------------------------------------
		cl := c16Func(sess, "Session", "close")
		if cl == nil {
			return fmt.Errorf("c16 facts: (*Session).close not found")
		}
		guard, plain := false, false
		ast.Inspect(cl.Body, func(n ast.Node) bool {
			switch x := n.(type) {
			case *ast.IfStmt:
				if c16Str(fs, x.Cond) == "!s.state.trySet(stateClosing)" && c16EndsInReturn(x.Body) {
					guard = true
				}
			case *ast.CallExpr:
				if c16Str(fs, x) == "s.state.Set(stateClosing)" {
					plain = true
				}
			}
			return true
		})
		f.Raw("c16CloseTrySet", "Bool", leanBool(guard && !plain))

		// --- shutdown(): order of flag sets and channel closes -----------------------------------
		sd := c16Func(sess, "Session", "shutdown")
		if sd == nil {
			return fmt.Errorf("c16 facts: (*Session).shutdown not found")
		}
		var order []string
		ast.Inspect(sd.Body, func(n ast.Node) bool {
			if x, ok := n.(*ast.CallExpr); ok {
				s := c16Str(fs, x)
				switch {
				case strings.HasPrefix(s, "close("):
					order = append(order, s)
				case strings.HasPrefix(s, "s.state.Set("), s == "s.lock.Lock()", s == "s.lock.Unlock()", s == "s.m.close()", strings.HasPrefix(s, "s.s.Remove("):
					order = append(order, s)
				}
			}
			return true
		})
		q := make([]string, len(order))
		for i, s := range order {
			q[i] = strconv.Quote(s)
		}
		f.Raw("c16ShutdownOrder", "List String", "["+strings.Join(q, ", ")+"]")

		// --- listen(): the connect-error arm ------------------------------------------------------
		li := c16Func(sess, "Session", "listen")
		if li == nil {
			return fmt.Errorf("c16 facts: (*Session).listen not found")
		}
		errArm := ""
		ast.Inspect(li.Body, func(n ast.Node) bool {
			x, ok := n.(*ast.IfStmt)
			if !ok || errArm != "" || c16Str(fs, x.Cond) != "err != nil" || x.Init == nil || c16Str(fs, x.Init) != "e = false" {
				return true
			}
			if len(x.Body.List) > 0 {
				if in, ok := x.Body.List[0].(*ast.IfStmt); ok && len(in.Body.List) == 1 {
					if br, ok := in.Body.List[0].(*ast.BranchStmt); ok && br.Tok == token.BREAK {
						errArm = c16Str(fs, in.Cond)
					}
				}
			}
			return true
		})
		if errArm != "s.state.Shutdown()" && errArm != "s.state.Closing()" {
			return fmt.Errorf("c16 facts: listen's connect-error arm not recognised (%q)", errArm)
		}
		f.Raw("c16ListenBreakOnShutdown", "Bool", leanBool(errArm == "s.state.Shutdown()"))

		// --- chanWake(): read lock across check and send ------------------------------------------
		ch, err := parse("c2/channel.go")
		if err != nil {
			return err
		}
		cw := c16Func(ch, "Session", "chanWake")
		if cw == nil {
			return fmt.Errorf("c16 facts: (*Session).chanWake not found")
		}
		locked := len(cw.Body.List) >= 2 && c16Str(fs, cw.Body.List[0]) == "s.lock.RLock()" &&
			c16Str(fs, cw.Body.List[len(cw.Body.List)-1]) == "s.lock.RUnlock()"
		ast.Inspect(cw.Body, func(n ast.Node) bool {
			b, ok := n.(*ast.BlockStmt)
			if !ok {
				return true
			}
			for i, st := range b.List {
				if _, ok := st.(*ast.ReturnStmt); ok {
					if i == 0 || c16Str(fs, b.List[i-1]) != "s.lock.RUnlock()" {
						locked = false
					}
				}
			}
			return true
		})
		f.Raw("c16ChanWakeLocked", "Bool", leanBool(locked))

		// --- eventer.listen: returns when the queue is closed ---------------------------------------
		ty, err := parse("c2/types.go")
		if err != nil {
			return err
		}
		ev := c16Func(ty, "eventer", "listen")
		if ev == nil {
			return fmt.Errorf("c16 facts: eventer.listen not found")
		}
		evRet := false
		ast.Inspect(ev.Body, func(n ast.Node) bool {
			cc, ok := n.(*ast.CommClause)
			if !ok || cc.Comm == nil || c16Str(fs, cc.Comm) != "v, ok := <-e" || len(cc.Body) == 0 {
				return true
			}
			if in, ok := cc.Body[0].(*ast.IfStmt); ok && c16Str(fs, in.Cond) == "!ok" && c16EndsInReturn(in.Body) {
				evRet = true
			}
			return true
		})
		f.Raw("c16EventerReturns", "Bool", leanBool(evRet))

		// --- the flags the close path tests are never cleared anywhere in package c2 ---------------
		mono := true
		files, _ := filepath.Glob(filepath.Join(repo, "c2", "*.go"))
		for _, p := range files {
			if strings.HasSuffix(p, "_test.go") {
				continue
			}
			src, err := os.ReadFile(p)
			if err != nil {
				return err
			}
			af, err := parser.ParseFile(fs, p, src, 0)
			if err != nil {
				return err
			}
			ast.Inspect(af, func(n ast.Node) bool {
				x, ok := n.(*ast.CallExpr)
				if !ok {
					return true
				}
				sel, ok := x.Fun.(*ast.SelectorExpr)
				if !ok || (sel.Sel.Name != "Unset" && sel.Sel.Name != "tryUnset" && sel.Sel.Name != "stateUnset") {
					return true
				}
				for _, a := range x.Args {
					s := c16Str(fs, a)
					for _, fl := range []string{"stateClosing", "stateClosed", "stateShutdown", "stateSendClose", "stateWakeClose", "stateRecvClose"} {
						if strings.Contains(s, fl) && !strings.Contains(s, fl+"Wait") || (fl == "stateShutdown" && strings.Contains(s, "stateShutdownWait")) {
							mono = false
						}
					}
				}
				return true
			})
		}
		f.Raw("c16MonotoneFlags", "Bool", leanBool(mono))


		// --- receiveSingle: the SvShutdown acknowledgement is queued under the Session lock ---------
		vf, err := parse("c2/vars.go")
		if err != nil {
			return err
		}
		rs := c16Func(vf, "", "receiveSingle")
		if rs == nil {
			return fmt.Errorf("c16 facts: receiveSingle not found")
		}
		ackSeen, ackLocked := false, false
		ast.Inspect(rs.Body, func(n ast.Node) bool {
			b, ok := n.(*ast.BlockStmt)
			if !ok {
				return true
			}
			for i, st := range b.List {
				if c16Str(fs, st) == "s.write(true, &com.Packet{ID: SvShutdown, Job: 1, Device: s.ID})" {
					ackSeen = true
					ackLocked = i > 0 && i+1 < len(b.List) && c16Str(fs, b.List[i-1]) == "s.lock.Lock()" && c16Str(fs, b.List[i+1]) == "s.lock.Unlock()"
				}
			}
			return true
		})
		if !ackSeen {
			return fmt.Errorf("c16 facts: the SvShutdown acknowledgement write was not found in receiveSingle")
		}
		f.Raw("c16AckLocked", "Bool", leanBool(ackLocked))

		// --- MigrateProfile: every error exit after `s.state.Set(stateMoving)` rolls the flag back ---
		// (a Session left "moving" never sends its final SvShutdown and never closes its Done channel)
		noRollback, err := c16MigrateExits(repo + "/c2/session.go")
		if err != nil {
			return err
		}
		f.Nat("c16MigrateExitsNoRollback", noRollback)

		// --- constants ----------------------------------------------------------------------------
		f.Nat("c16MaxErrors", uint64(c2.VerifC16MaxErrors))
		lf, err := parse("c2/listener.go")
		if err != nil {
			return err
		}
		var caps []uint64
		ast.Inspect(lf, func(n ast.Node) bool {
			kv, ok := n.(*ast.KeyValueExpr)
			if !ok || c16Str(fs, kv.Key) != "send" {
				return true
			}
			if c, ok := kv.Value.(*ast.CallExpr); ok && len(c.Args) == 2 && c16Str(fs, c.Fun) == "make" {
				if v, err := strconv.ParseUint(c16Str(fs, c.Args[1]), 0, 64); err == nil {
					caps = append(caps, v)
				}
			}
			return true
		})
		if len(caps) == 0 {
			return fmt.Errorf("c16 facts: capacity of the send channel not found in c2/listener.go")
		}
		for _, v := range caps {
			if v != caps[0] {
				return fmt.Errorf("c16 facts: send channel capacities differ: %v", caps)
			}
		}
		f.Nat("c16SendCap", caps[0])
		return nil
	})
}

// c16MigrateExits counts the error returns (`return 0, …`) of (*Session).MigrateProfile that come after
// the call s.state.Set(stateMoving) and whose own block does not call s.state.Unset(stateMoving) before
// returning.
func c16MigrateExits(file string) (uint64, error) {
	fs := token.NewFileSet()
	af, err := parser.ParseFile(fs, file, nil, 0)
	if err != nil {
		return 0, err
	}
	isCall := func(e ast.Expr, method string) bool {
		ce, ok := e.(*ast.CallExpr)
		if !ok || len(ce.Args) != 1 {
			return false
		}
		se, ok := ce.Fun.(*ast.SelectorExpr)
		if !ok || se.Sel.Name != method {
			return false
		}
		a, ok := ce.Args[0].(*ast.Ident)
		return ok && a.Name == "stateMoving"
	}
	for _, d := range af.Decls {
		fd, ok := d.(*ast.FuncDecl)
		if !ok || fd.Name.Name != "MigrateProfile" || fd.Body == nil {
			continue
		}
		setPos := token.NoPos
		ast.Inspect(fd.Body, func(n ast.Node) bool {
			if ce, ok := n.(*ast.CallExpr); ok && isCall(ce, "Set") && setPos == token.NoPos {
				setPos = ce.Pos()
			}
			return true
		})
		if setPos == token.NoPos {
			return 0, fmt.Errorf("c16 facts: s.state.Set(stateMoving) not found in MigrateProfile")
		}
		bad := uint64(0)
		var visit func(list []ast.Stmt)
		visit = func(list []ast.Stmt) {
			rolled := false
			for _, st := range list {
				switch x := st.(type) {
				case *ast.ExprStmt:
					if isCall(x.X, "Unset") {
						rolled = true
					}
				case *ast.ReturnStmt:
					if x.Pos() > setPos && len(x.Results) == 2 {
						if bl, ok := x.Results[0].(*ast.BasicLit); ok && bl.Value == "0" && !rolled {
							bad++
						}
					}
				case *ast.IfStmt:
					if in, ok := x.Init.(*ast.ExprStmt); ok && isCall(in.X, "Unset") {
						rolled = true // `if s.state.Unset(stateMoving); … {`
					}
					visit(x.Body.List)
					if el, ok := x.Else.(*ast.BlockStmt); ok {
						visit(el.List)
					}
				case *ast.BlockStmt:
					visit(x.List)
				case *ast.ForStmt:
					visit(x.Body.List)
				case *ast.SwitchStmt:
					for _, c := range x.Body.List {
						visit(c.(*ast.CaseClause).Body)
					}
				case *ast.SelectStmt:
					for _, c := range x.Body.List {
						visit(c.(*ast.CommClause).Body)
					}
				}
			}
		}
		visit(fd.Body.List)
		return bad, nil
	}
	return 0, fmt.Errorf("c16 facts: MigrateProfile not found")
}
