package main

// C16, extension (Server / Listener teardown): regenerated facts, schedule replay of the real
// Server.listen / Server.shutdown / Server.Close / Listener.listen / Listener.Close / Server.Remove /
// registration under a cooperative scheduler at the granularity of XMT/Teardown.lean, free-running
// oracles. Hooked into runC16 by one call (c16S3Main).

import (
	"fmt"
	"go/ast"
	"go/parser"
	"go/token"
	"os"
	"path/filepath"
	"runtime"
	"strconv"
	"strings"
	"time"

	"github.com/iDigitalFlame/xmt/c2"
)

// c16S3Order lists, in source order, the statements of `body` that touch shared state of the teardown:
// calls (rendered), channel sends and receives.
func c16S3Order(fs *token.FileSet, body ast.Node, keep func(string) bool) []string {
	var order []string
	ast.Inspect(body, func(n ast.Node) bool {
		switch x := n.(type) {
		case *ast.CallExpr:
			if s := c16Str(fs, x); keep(s) {
				order = append(order, s)
			}
		case *ast.SendStmt:
			order = append(order, c16Str(fs, x))
		case *ast.UnaryExpr:
			if x.Op == token.ARROW {
				order = append(order, c16Str(fs, x))
			}
		case *ast.AssignStmt:
			if s := c16Str(fs, x); s == "s.active = nil" {
				order = append(order, s)
			}
		}
		return true
	})
	return order
}

func init() {
	factProviders = append(factProviders, func(f *factSet, repo string) error {
		fs := token.NewFileSet()
		parse := func(rel string) (*ast.File, error) { return parser.ParseFile(fs, filepath.Join(repo, rel), nil, 0) }
		srv, err := parse("c2/server.go")
		if err != nil {
			return err
		}
		lsn, err := parse("c2/listener.go")
		if err != nil {
			return err
		}
		// --- Server.listen: how the loop claims the run word -----------------------------------------
		li := c16Func(srv, "Server", "listen")
		if li == nil || len(li.Body.List) == 0 {
			return fmt.Errorf("c16s3 facts: (*Server).listen not found")
		}
		cas, claim := false, ""
		if is, ok := li.Body.List[0].(*ast.IfStmt); ok && c16EndsInReturn(is.Body) {
			claim = c16Str(fs, is.Cond)
		}
		switch claim {
		case "!atomic.CompareAndSwapUint32(&s.run, 0, 1)":
			cas = true
		case "atomic.SwapUint32(&s.run, 1) != 0":
		default:
			return fmt.Errorf("c16s3 facts: first statement of (*Server).listen is not the run-word claim: %q", claim)
		}
		f.Raw("c16SrvLoopCAS", "Bool", leanBool(cas))
		// --- Server.shutdown / Server.Close / Remove statement order ------------------------------------
		sd := c16Func(srv, "Server", "shutdown")
		if sd == nil {
			return fmt.Errorf("c16s3 facts: (*Server).shutdown not found")
		}
		f.Raw("c16SrvShutdownOrder", "List String", leanStrList(c16S3Order(fs, sd.Body, func(s string) bool {
			return s == "s.cancel()" || s == "v.Close()" || strings.HasPrefix(s, "close(") || strings.HasPrefix(s, "atomic.") || strings.HasPrefix(s, "delete(")
		})))
		sc := c16Func(srv, "Server", "Close")
		if sc == nil {
			return fmt.Errorf("c16s3 facts: (*Server).Close not found")
		}
		f.Raw("c16SrvCloseOrder", "List String", leanStrList(c16S3Order(fs, sc.Body, func(s string) bool {
			return s == "s.cancel()" || s == "s.shutdown()" || strings.HasPrefix(s, "atomic.")
		})))
		rm := c16Func(srv, "Server", "Remove")
		if rm == nil || len(rm.Body.List) == 0 {
			return fmt.Errorf("c16s3 facts: (*Server).Remove not found")
		}
		first, ok := rm.Body.List[0].(*ast.IfStmt)
		if !ok || c16Str(fs, first.Cond) != "!shutdown" {
			return fmt.Errorf("c16s3 facts: (*Server).Remove does not start with `if !shutdown`")
		}
		f.Raw("c16SrvRemoveOrder", "List String", leanStrList(c16S3Order(fs, first.Body, func(s string) bool { return s == "s.IsActive()" })))
		// --- Listener.Close and the exit sequence of Listener.listen ------------------------------------
		lc := c16Func(lsn, "Listener", "Close")
		if lc == nil {
			return fmt.Errorf("c16s3 facts: (*Listener).Close not found")
		}
		keepL := func(s string) bool {
			return strings.HasPrefix(s, "l.state.") || s == "l.cancel()" || s == "l.listener.Close()" || strings.HasPrefix(s, "close(")
		}
		f.Raw("c16LsnCloseOrder", "List String", leanStrList(c16S3Order(fs, lc.Body, keepL)))
		ll := c16Func(lsn, "Listener", "listen")
		if ll == nil {
			return fmt.Errorf("c16s3 facts: (*Listener).listen not found")
		}
		var exit []string
		after := false
		for _, st := range ll.Body.List {
			if _, ok := st.(*ast.ForStmt); ok {
				after = true
				continue
			}
			if after {
				exit = append(exit, c16S3Order(fs, st, keepL)...)
			}
		}
		f.Raw("c16LsnExitOrder", "List String", leanStrList(exit))
		// --- channel capacities (NewServerContext) ---------------------------------------------------
		caps := map[string]uint64{}
		ast.Inspect(srv, func(n ast.Node) bool {
			kv, ok := n.(*ast.KeyValueExpr)
			if !ok {
				return true
			}
			k := c16Str(fs, kv.Key)
			if k != "delSession" && k != "delListener" {
				return true
			}
			if c, ok := kv.Value.(*ast.CallExpr); ok && len(c.Args) == 2 && c16Str(fs, c.Fun) == "make" {
				if v, err := strconv.ParseUint(c16Str(fs, c.Args[1]), 0, 64); err == nil {
					caps[k] = v
				}
			}
			return true
		})
		if len(caps) != 2 {
			return fmt.Errorf("c16s3 facts: capacities of delSession / delListener not found: %v", caps)
		}
		f.Nat("c16DelListenerCap", caps["delListener"])
		f.Nat("c16DelSessionCap", caps["delSession"])
		return nil
	})
}

// ---- schedule replay of the teardown -----------------------------------------------------------------

// thread tokens (XMT.Drv.C16.parseTKind): P loop, Z Server.Close, X cancel, A<j> Listener j's listen
// goroutine, B<j> Listener.Close, M<i> Server.Remove(i,false), G<j>:<i> registration of Session i at j
type c16S3Case struct {
	nl, ns, nsAll int
	prog          []string
	sched         []int
}

type c16S3Run struct {
	k      c16S3Case
	e      *c2.VerifC16S3Env
	cur    int
	msgs   chan c16Msg
	resume []chan struct{}
	label  []int
	lsn    []int // Listener the thread is working on (from the last yield)
	fin    []bool
	out    []string
	eff    []int // the schedule as executed: t + 1000*arm
	dlClosed, dsClosed bool
	abandon, hung      bool
	fails  []c14Fail
	trace  []string
}

var c16S3Debug = os.Getenv("VERIF_C16S3_DEBUG") != ""

var c16S3CloseChan = map[int]string{115: "new", 116: "delListener", 117: "delSession", 118: "events", 119: "ch", 139: "lch"}
var c16S3SendChan = map[int]string{137: "delListener", 151: "delSession"}

func c16S3KindName(tok string) string {
	switch tok[0] {
	case 'P':
		return "loop"
	case 'Z':
		return "Server.Close"
	case 'X':
		return "cancel"
	case 'A':
		return "Listener.listen"
	case 'B':
		return "Listener.Close"
	case 'M':
		return "Server.Remove"
	case 'G':
		return "register"
	}
	return "?"
}

func (r *c16S3Run) failf(kind, key, f string, a ...interface{}) {
	for _, x := range r.fails {
		if x.key == key {
			return
		}
	}
	r.fails = append(r.fails, c14Fail{kind, key, fmt.Sprintf(f, a...)})
}

func c16S3Arg(tok string) (int, int) {
	a := strings.Split(tok[1:], ":")
	j, _ := strconv.Atoi(a[0])
	i := 0
	if len(a) > 1 {
		i, _ = strconv.Atoi(a[1])
	}
	return j, i
}

func (r *c16S3Run) body(t int) (out string) {
	tok := r.k.prog[t]
	defer func() {
		if e := recover(); e != nil {
			s := fmt.Sprint(e)
			at := r.label[t]
			switch {
			case strings.Contains(s, "close of closed channel"):
				ch := c16S3CloseChan[at]
				out = "panic:close:" + ch
				r.failf("panic", "panic:teardown:double-close:"+ch+":"+c16S3KindName(tok), "thread %d (%s) at pc %d: %v", t, tok, at, e)
			case strings.Contains(s, "send on closed channel"):
				ch := c16S3SendChan[at]
				out = "panic:send:" + ch
				r.failf("panic", "panic:teardown:send-on-closed:"+ch+":"+c16S3KindName(tok), "thread %d (%s) at pc %d: %v", t, tok, at, e)
			default:
				out = "panic:other"
				r.failf("panic", "panic:teardown:other:"+c16S3KindName(tok), "thread %d (%s) at pc %d: %v", t, tok, at, e)
			}
		}
	}()
	j, i := c16S3Arg(tok)
	switch tok[0] {
	case 'P':
		r.e.Loop()
	case 'Z':
		r.e.SClose()
	case 'X':
		r.yield(190, -1)
		r.e.Cancel()
	case 'A':
		r.e.LListen(j)
	case 'B':
		r.e.LClose(j)
	case 'M':
		r.e.Remove(j)
	case 'G':
		if err := r.e.Register(j, i); err != nil && os.Getenv("VERIF_C16S3_DEBUG") != "" {
			fmt.Fprintln(os.Stderr, "register:", err)
		}
	}
	return "ret"
}

func (r *c16S3Run) yield(pc, l int) {
	t := r.cur
	tok := r.k.prog[t]
	// Server.Remove reached through a Session closed by Server.shutdown, talk's tail etc.: only the
	// yield points of the thread's own model program are actions
	switch {
	case (pc == 150 || pc == 151) && tok[0] != 'M':
		return
	case (pc == 160 || pc == 161) && tok[0] != 'G':
		return
	}
	r.msgs <- c16Msg{t: t, pc: pc*1000 + (l + 1)}
	<-r.resume[t]
	if r.abandon {
		runtime.Goexit()
	}
}

func c16S3NewRun(k c16S3Case) *c16S3Run {
	n := len(k.prog)
	r := &c16S3Run{k: k, msgs: make(chan c16Msg), resume: make([]chan struct{}, n), label: make([]int, n), lsn: make([]int, n), fin: make([]bool, n), out: make([]string, n)}
	r.e = c2.VerifC16S3New(k.nl, k.ns, k.nsAll)
	c2.VerifC16Install(nil)
	c2.VerifC16S3Install(&c2.VerifC16S3Hooks{Yield: r.yield})
	for t := 0; t < n; t++ {
		r.resume[t] = make(chan struct{})
		go func(t int) {
			<-r.resume[t]
			if r.abandon {
				return
			}
			o := r.body(t)
			r.out[t] = o
			r.msgs <- c16Msg{t: t, done: true}
		}(t)
	}
	for t := 0; t < n && !r.hung; t++ {
		r.release(t)
	}
	return r
}

func (r *c16S3Run) release(t int) {
	r.cur = t
	r.resume[t] <- struct{}{}
	select {
	case m := <-r.msgs:
		if m.done {
			r.fin[t] = true
			r.label[t] = 999
		} else {
			r.label[t] = m.pc / 1000
			r.lsn[t] = m.pc%1000 - 1
		}
	case <-time.After(c16StepTimeout):
		r.hung = true
		r.failf("hang", fmt.Sprintf("hang:teardown:step:%s@%d", c16S3KindName(r.k.prog[t]), r.label[t]), "thread %d (%s) did not reach a yield point within %v after pc %d", t, r.k.prog[t], c16StepTimeout, r.label[t])
	}
}

func (r *c16S3Run) enabled(t int) bool {
	if t < 0 || t >= len(r.k.prog) || r.fin[t] || r.hung {
		return false
	}
	e := r.e
	switch r.label[t] {
	case 101:
		return e.CtxDone() || e.DLLen() > 0 || e.DSLen() > 0 || r.dlClosed || r.dsClosed
	case 113:
		return !e.AnyActive() || e.DLLen() > 0 || r.dlClosed
	case 122:
		return e.ChClosed()
	case 132:
		return e.SockClosed(r.lsn[t])
	case 137:
		return e.DLLen() < e.DLCap() || r.dlClosed
	case 144:
		return e.LchClosed(r.lsn[t])
	case 151:
		return e.DSLen() < e.DSCap() || r.dsClosed
	}
	return true
}

// step releases thread t if the REAL objects say its next action can proceed and records the entry of
// the executed schedule (for the select of the Server loop: with the arm Go chose).
func (r *c16S3Run) step(t int) bool {
	if !r.enabled(t) {
		return false
	}
	from := r.label[t]
	r.release(t)
	if r.hung {
		return false
	}
	arm := 0
	to := r.label[t]
	if from == 101 {
		switch to {
		case 103:
			arm = 1
		case 104:
			arm = 2
		case 999:
			arm = 3 // `l := <-s.new` on the closed channel: nil dereference
		case 101:
			arm = 4 // events arm (closed channel, zero event): no shared access
		}
	}
	if to == 112 {
		arm = r.lsn[t] + 1 // the entry `range s.active` fetched: 0 = none left, j+1 = Listener j
	}
	if from == 116 && to == 117 {
		r.dlClosed = true
	}
	if from == 117 && to == 118 {
		r.dsClosed = true
	}
	r.eff = append(r.eff, t+1000*arm)
	if c16S3Debug {
		r.trace = append(r.trace, fmt.Sprintf("%d:%d>%d", t, from, to))
	}
	return true
}

func (r *c16S3Run) run() {
	for _, t := range r.k.sched {
		r.step(t)
	}
	n := len(r.k.prog)
	for round := 0; round < 400*n+400 && !r.hung; round++ {
		moved := false
		for t := 0; t < n; t++ {
			if r.step(t) {
				moved = true
			}
		}
		if !moved {
			break
		}
	}
}

func (r *c16S3Run) close() {
	c2.VerifC16S3Install(nil)
	r.abandon = true
	for t := range r.resume {
		if !r.fin[t] && !(r.hung && t == r.cur) {
			close(r.resume[t])
		}
	}
	r.e.Cancel()
}

func c16S3Ints(v []int, sep string) string {
	if len(v) == 0 {
		return "-"
	}
	s := make([]string, len(v))
	for i, x := range v {
		s[i] = strconv.Itoa(x)
	}
	return strings.Join(s, sep)
}

func (r *c16S3Run) opLine() string {
	return fmt.Sprintf("tdn F %d %d %d %s %s", r.k.nl, r.k.ns, r.k.nsAll, strings.Join(r.k.prog, ","), c16S3Ints(r.eff, "."))
}

// finish renders the final state (format of XMT.Drv.C16.showT) and evaluates the direct oracles.
func (r *c16S3Run) finish() string {
	c2.VerifC16S3Install(nil)
	e := r.e
	n := len(r.k.prog)
	thr := make([]string, n)
	blocked := ""
	for t := range r.k.prog {
		if r.fin[t] {
			thr[t] = r.out[t]
		} else {
			thr[t] = "blk@" + strconv.Itoa(r.label[t])
			if blocked == "" {
				blocked = fmt.Sprintf("%s@%d", c16S3KindName(r.k.prog[t]), r.label[t])
			}
		}
	}
	ctx, run, chC := e.CtxDone(), e.Run(), e.ChClosed()
	act, lsn, listed, told := "", []string{}, "", ""
	for j := 0; j < r.k.nl; j++ {
		act += b01(e.Active(j))
		cg, cd, cx := e.LState(j)
		lsn = append(lsn, b01(cg)+b01(cd)+b01(cx)+b01(e.SockClosed(j))+b01(e.LchClosed(j)))
	}
	for i := 0; i < r.k.nsAll; i++ {
		listed += b01(e.Listed(i))
		told += b01(e.Told(i))
	}
	dl, ds, newC, dlC, dsC, evC := e.Drain()
	d := func(s string) string {
		if s == "" {
			return "-"
		}
		return s
	}
	res := fmt.Sprintf("thr=%s srv=%s%d ch=%s dl=%s ds=%s act=%s lsn=%s listed=%s told=%s quiet=1", d(strings.Join(thr, ",")), b01(ctx), run,
		b01(newC)+b01(dlC)+b01(dsC)+b01(evC)+b01(chC), c16S3Ints(dl, "."), c16S3Ints(ds, "."), d(act), d(strings.Join(lsn, ",")), d(listed), d(told))

	// ---- the property, on the real objects ----------------------------------------------------------
	if !r.hung {
		// who drives the teardown: the Server loop (started first: it is inside its loop or has run
		// shutdown) or, for a Server whose loop never started, a Server.Close caller; every Listener
		// needs its own goroutine
		has := map[byte]int{}
		lgo := map[int]bool{}
		for _, tok := range r.k.prog {
			has[tok[0]]++
			if tok[0] == 'A' {
				j, _ := c16S3Arg(tok)
				lgo[j] = true
			}
		}
		allL := true
		for j := 0; j < r.k.nl; j++ {
			allL = allL && lgo[j]
		}
		driven := allL && ((has['P'] > 0 && run != 0) || (run == 0 && has['Z'] > 0))
		if ctx && driven && blocked != "" {
			for t, tok := range r.k.prog {
				if !r.fin[t] && strings.ContainsRune("PZAB", rune(tok[0])) {
					key := fmt.Sprintf("hang:teardown:%s@%d", c16S3KindName(tok), r.label[t])
					if r.k.nl > e.DLCap() {
						key = fmt.Sprintf("hang:teardown:%d-listeners:cap(delListener)=%d", r.k.nl, e.DLCap())
					}
					r.failf("hang", key,
						"the Server is closing (run word %d), every Listener has its goroutine and no thread can move, but thread %d (%s) is blocked at pc %d (%d Listeners, cap(delListener) = %d): %s", run, t, tok, r.label[t], r.k.nl, e.DLCap(), strings.Join(thr, ","))
					break
				}
			}
		}
		if chC && !(newC && dlC && dsC && evC) {
			r.failf("state", "state:teardown:done-before-closes", "Server.Done() is closed but not all of new/delListener/delSession/events are")
		}
		for t, tok := range r.k.prog {
			if tok[0] == 'Z' && r.fin[t] && r.out[t] == "ret" {
				if !chC {
					r.failf("waiter", "waiter:teardown:Server.Close-returned-early", "Server.Close() returned although Server.Done() is not closed")
				}
				for j := 0; j < r.k.nl; j++ {
					if lgo[j] && driven && !e.LchClosed(j) {
						r.failf("waiter", "waiter:teardown:Listener.Wait", "Server.Close() returned but Listener %d's Done() is not closed", j)
					}
				}
			}
			if tok[0] == 'B' && r.fin[t] && r.out[t] == "ret" {
				j, _ := c16S3Arg(tok)
				if _, cd, _ := e.LState(j); !cd || !e.LchClosed(j) {
					r.failf("waiter", "waiter:teardown:Listener.Close-returned-early", "Listener.Close() of Listener %d returned but the Listener is not closed", j)
				}
			}
		}
	}
	return res
}

func c16S3Execute(c *Ctx, k c16S3Case, group string) {
	c16Mu.Lock()
	defer c16Mu.Unlock()
	r := c16S3NewRun(k)
	if !r.hung {
		r.run()
	}
	res, op := "(aborted)", ""
	if !r.hung {
		res = r.finish()
		op = r.opLine()
		c.Op(op, res)
		if c16S3Debug {
			fmt.Fprintln(os.Stderr, "TRACE", op, "|", strings.Join(r.trace, " "))
		}
	}
	r.close()
	c2.VerifC16Install(nil)
	in := fmt.Sprintf("tdn-in %d %d %d %s %s", k.nl, k.ns, k.nsAll, strings.Join(k.prog, ","), c16S3Ints(k.sched, "."))
	for _, f := range r.fails {
		c.Fail(f.kind, f.key, f.detail+" | final: "+res, map[string]interface{}{"op": op, "input": in, "group": group})
	}
	closers := 0
	for _, tok := range k.prog {
		if strings.ContainsRune("ZXB", rune(tok[0])) {
			closers++
		}
	}
	c.Eval(closers > 0 && len(k.prog) > 1, in)
	c.Count("teardown:" + group)
	if strings.Contains(res, "blk@") {
		c.Count("teardown:final:some-thread-blocked")
	}
	if strings.Contains(res, "panic:") {
		c.Count("teardown:final:thread-panicked")
	}
	if strings.Contains(res, " ch=11111") {
		c.Count("teardown:final:server-closed")
	}
}

func c16S3GenProg(r *Rng, nl, ns, nsAll int) []string {
	var p []string
	if r.Chance(85) {
		p = append(p, "P")
	}
	for j := 0; j < nl; j++ {
		if r.Chance(90) {
			p = append(p, "A"+strconv.Itoa(j))
		}
		if r.Chance(35) {
			p = append(p, "B"+strconv.Itoa(j))
		}
	}
	for k := r.Intn(3); k > 0; k-- {
		p = append(p, "Z")
	}
	if r.Chance(30) {
		p = append(p, "X")
	}
	for i := 0; i < ns; i++ {
		if r.Chance(50) {
			p = append(p, "M"+strconv.Itoa(i))
		}
	}
	for i := ns; i < nsAll && nl > 0; i++ {
		p = append(p, fmt.Sprintf("G%d:%d", r.Intn(nl), i))
	}
	// shuffle
	for i := len(p) - 1; i > 0; i-- {
		j := r.Intn(i + 1)
		p[i], p[j] = p[j], p[i]
	}
	if len(p) == 0 {
		p = []string{"Z"}
	}
	return p
}

func c16S3ParseIn(f []string) (c16S3Case, bool) {
	var k c16S3Case
	if len(f) != 6 || f[0] != "tdn-in" {
		return k, false
	}
	k.nl, _ = strconv.Atoi(f[1])
	k.ns, _ = strconv.Atoi(f[2])
	k.nsAll, _ = strconv.Atoi(f[3])
	k.prog = strings.Split(f[4], ",")
	if f[5] != "-" {
		for _, x := range strings.Split(f[5], ".") {
			v, err := strconv.Atoi(x)
			if err != nil {
				return k, false
			}
			k.sched = append(k.sched, v)
		}
	}
	return k, true
}

// witness schedules (Lean: XMT.Props.C16.td_*)
var c16S3Corpus = []string{
	// late start of the Server loop between two Server.Close callers that both saw run == 0
	"tdn-in 0 0 0 Z,Z,P 0.0.1.1.0.0.0.0.0.0.0.0.0.0.2.1.1.1.1.1.1",
	// Server.Remove: IsActive() passed, the Server shuts down, then the send
	"tdn-in 0 1 1 M0,P,Z 1.0.2.2.1.1.1.1.1.1.1.1.1.1.0",
	// plain teardown: loop, two Listeners, Close
	"tdn-in 2 1 1 P,A0,A1,Z -",
}

// C16s3: the teardown groups alone (development aid; ./check C16 runs them as part of runC16)
func init() { register("C16s3", c16S3Main) }

func c16S3Main(c *Ctx) {
	c.Cases("teardown:corpus", len(c16S3Corpus), func(r *Rng, i int) {
		if k, ok := c16S3ParseIn(strings.Fields(c16S3Corpus[i])); ok {
			c16S3Execute(c, k, "corpus")
		}
	})
	c.Cases("teardown:random", c.N(500, 8000), func(r *Rng, i int) {
		nl := []int{0, 1, 1, 2, 2, 3}[r.Intn(6)]
		ns := r.Intn(3)
		nsAll := ns + r.Intn(2)
		prog := c16S3GenProg(r, nl, ns, nsAll)
		k := c16S3Case{nl: nl, ns: ns, nsAll: nsAll, prog: prog, sched: c16GenSched(r, len(prog))}
		c16S3Execute(c, k, "random")
	})
	c16S3Free(c)
	// Proxy teardown: what a still-running connection thread of a proxied client reads after Proxy.Close()
	c.Cases("teardown:proxy-late-reader", 1, func(r *Rng, i int) {
		res := c2.VerifC16S3ProxyLateReader()
		c.Count("teardown:proxy-late-reader")
		c.Eval(true, "proxy-late-reader")
		if res != "ok" {
			c.Fail("panic", "panic:proxy:nil-deref:prefix-after-close", "after Proxy.Close() returned, a connection thread of a proxied client calling h.prefix() / Proxy.talk: "+res,
				map[string]interface{}{"input": "proxy-late-reader", "group": "teardown:proxy-late-reader"})
		}
	})
	// more Listeners than cap(delListener): Server.shutdown closes them one after the other
	c.Cases("teardown:many-listeners", 4, func(r *Rng, i int) {
		nl := []int{5, 15, 16, 17}[i]
		prog := []string{"P"}
		for j := 0; j < nl; j++ {
			prog = append(prog, "A"+strconv.Itoa(j))
		}
		prog = append(prog, "Z")
		c16S3Execute(c, c16S3Case{nl: nl, prog: prog}, "many-listeners")
	})
}

// free-running: the real goroutines (go s.listen(), go l.listen() for k Listeners on socket-less
// net.Listeners), then Server.Close() from 1..2 callers; k around cap(s.delListener)
func c16S3Free(c *Ctx) {
	c.Cases("teardown:free", 4, func(r *Rng, i int) {
		nl := []int{4, 15, 16, 17}[i]
		callers := 1 + i%2
		res := c2.VerifC16S3FreeRun(nl, callers, 2500*time.Millisecond)
		in := fmt.Sprintf("tdn-free %d %d", nl, callers)
		c.Count("teardown:free")
		c.Eval(true, in)
		if res != "ok" {
			c.Fail("hang", fmt.Sprintf("hang:teardown:%d-listeners:cap(delListener)=%d", nl, c2.VerifC16S3New(0, 0, 0).DLCap()),
				fmt.Sprintf("free-running Server with %d Listeners, %d concurrent Server.Close() callers: %s", nl, callers, res),
				map[string]interface{}{"input": in, "group": "teardown:free"})
		}
	})
}
