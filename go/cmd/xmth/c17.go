package main

// C17 — profile groups rotate as the selector promises and yield only their own entries.
//
// Real code under test: cfg.Config.Build on multi-group configs made with the public Setting
// constructors, then call histories of Switch / Next / Sleep / Jitter / KillDate / WorkHours /
// TrustedKey / Connect / Listen on the returned cfg.Profile.
//   * scripted run: the PRNG words group.go consumes are scripted (rewrite + hook), every history is
//     one model-comparable op line (exact differential) and is also judged by the direct oracles;
//   * free run: same config and history under the real PRNG, judged by the direct oracles only
//     (set-valued contracts), plus a liveness check for the random / semi selectors.

import (
	"context"
	"errors"
	"fmt"
	"net"
	"os"
	"reflect"
	"regexp"
	"runtime"
	"strconv"
	"strings"
	"time"

	"github.com/iDigitalFlame/xmt/c2/cfg"
	"github.com/iDigitalFlame/xmt/data"
)

// ---- facts ------------------------------------------------------------------------------------

func init() {
	factProviders = append(factProviders, func(f *factSet, repo string) error {
		f.Nat("c17SelLastValid", uint64(cfg.SelectorLastValid))
		f.Nat("c17SelRoundRobin", uint64(cfg.SelectorRoundRobin))
		f.Nat("c17SelRandom", uint64(cfg.SelectorRandom))
		f.Nat("c17SelSemiRoundRobin", uint64(cfg.SelectorSemiRoundRobin))
		f.Nat("c17SelSemiRandom", uint64(cfg.SelectorSemiRandom))
		f.Nat("c17SelSemiLastValid", uint64(cfg.SelectorSemiLastValid))
		// literal n of the `util.FastRandN(n) != 0` guards in (*Group).Switch: syntactic fact
		src, err := os.ReadFile(repo + "/c2/cfg/group.go")
		if err != nil {
			return err
		}
		ms := regexp.MustCompile(`FastRandN\((\d+)\)\s*!=\s*0`).FindAllStringSubmatch(string(src), -1)
		if len(ms) == 0 {
			return errors.New("c17: no `FastRandN(<literal>) != 0` guard found in c2/cfg/group.go")
		}
		for _, m := range ms {
			if m[1] != ms[0][1] {
				return errors.New("c17: the semi selectors use different FastRandN literals: " + m[1] + " vs " + ms[0][1])
			}
		}
		n, _ := strconv.ParseUint(ms[0][1], 10, 64)
		f.Nat("c17SemiN", n)
		f.Nat("c17SemiGuards", uint64(len(ms)))
		// weight clamp of Config.build, measured on the compiled code: weight byte 255 builds to the cap
		p, err := cfg.Config{0xA0, 0, 1, 'a', 0xA3, 255, byte(cfg.Separator), 0xA0, 0, 1, 'b'}.Build()
		if err != nil {
			return fmt.Errorf("c17: two-group probe config does not build: %v", err)
		}
		ok, _, ws, _, _ := cfg.VerifGroupC17(p)
		if !ok || len(ws) != 2 {
			return errors.New("c17: two-group probe config did not build into a *Group with two entries")
		}
		f.Nat("c17WeightCap", uint64(ws[0]))
		// insertion-sort threshold of the Go standard library's sort.Sort (pdqsort): the exact
		// order among equal weights is modelled only up to this length
		zs, err := os.ReadFile(runtime.GOROOT() + "/src/sort/zsortinterface.go")
		if err != nil {
			return err
		}
		mi := regexp.MustCompile(`maxInsertion\s*=\s*(\d+)`).FindStringSubmatch(string(zs))
		if mi == nil {
			return errors.New("c17: maxInsertion not found in sort/zsortinterface.go")
		}
		v, _ := strconv.ParseUint(mi[1], 10, 64)
		f.Nat("c17SortInsertionMax", v)
		return nil
	})
	register("C17", runC17)
}

// ---- generated configuration --------------------------------------------------------------------

type c17Group struct {
	weight   int // raw Weight() argument (0 = no setting)
	sels     []uint8
	hosts    []string
	wv, tv   int // wrapper / transform variant ids (0 = none)
	sleep    time.Duration
	jitter   int // -1 = no setting
	kill     int // 0 none, 1 zero time, 2 date
	killAt   time.Time
	work     *cfg.WorkHours
	keys     []data.PublicKey
	conn     int
	tailFA   int // 0 none; 1: Weight(250) is the group's LAST setting; 2: a kill date whose low byte is 0xFA is last
	//          (the group's encoding then ends in 0xFA, the value of the group separator)
	settings []cfg.Setting
	ref      cfg.Profile // the same settings built alone (single profile): reference values
	refW     cfg.Wrapper
	refT     cfg.Transform
}

func (g *c17Group) sel() uint8 {
	if len(g.sels) == 0 {
		return 0
	}
	return g.sels[len(g.sels)-1]
}

var c17Selectors = []uint8{uint8(cfg.SelectorLastValid), uint8(cfg.SelectorRoundRobin), uint8(cfg.SelectorRandom),
	uint8(cfg.SelectorSemiRoundRobin), uint8(cfg.SelectorSemiRandom), uint8(cfg.SelectorSemiLastValid)}

var c17SelName = map[uint8]string{0: "none", uint8(cfg.SelectorLastValid): "last-valid", uint8(cfg.SelectorRoundRobin): "round-robin",
	uint8(cfg.SelectorRandom): "random", uint8(cfg.SelectorSemiRoundRobin): "semi-round-robin",
	uint8(cfg.SelectorSemiRandom): "semi-random", uint8(cfg.SelectorSemiLastValid): "semi-last-valid"}

func c17Wrapper(v int) []cfg.Setting {
	switch {
	case v == 0:
		return nil
	case v == 1:
		return []cfg.Setting{cfg.WrapHex}
	case v == 2:
		return []cfg.Setting{cfg.WrapZlib}
	case v == 3:
		return []cfg.Setting{cfg.WrapGzip}
	case v == 4:
		return []cfg.Setting{cfg.WrapBase64}
	case v >= 100 && v < 200:
		return []cfg.Setting{cfg.WrapXOR([]byte{byte(v), 0x55, byte(v * 7), 1})}
	case v >= 200 && v < 300:
		return []cfg.Setting{cfg.WrapCBK(byte(v), byte(v+1), byte(v*3), byte(v*5+1))}
	}
	return []cfg.Setting{cfg.WrapHex, cfg.WrapXOR([]byte{byte(v), 0x77, 3})}
}

func c17Transform(v int) []cfg.Setting {
	switch {
	case v == 0:
		return nil
	case v == 1:
		return []cfg.Setting{cfg.TransformB64}
	case v >= 100 && v < 200:
		return []cfg.Setting{cfg.TransformB64Shift(v - 99)}
	}
	// (TransformDNS is avoided: Config.validate/build reject a DNS setting at any offset larger than its
	// domain count — `x < i` compares the remaining count with the offset — which is C08/C09's subject)
	return []cfg.Setting{cfg.TransformB64Shift(v - 50)}
}

var c17Conns = []cfg.Setting{nil, cfg.ConnectTCP, cfg.ConnectUDP, cfg.ConnectPipe, cfg.ConnectTLSNoVerify}

var c17Weights = []int{0, 0, 1, 1, 2, 2, 3, 5, 10, 50, 50, 99, 100, 100, 101, 150, 200, 255, 256, 300, 356}

func c17GenGroup(r *Rng, j int, n int) *c17Group {
	g := &c17Group{jitter: -1}
	g.weight = c17Weights[r.Intn(len(c17Weights))]
	if r.Chance(30) {
		g.weight = r.Intn(8)
	}
	nh := []int{1, 1, 1, 2, 2, 3, 4, 0}[r.Intn(8)]
	for k := 0; k < nh; k++ {
		g.hosts = append(g.hosts, fmt.Sprintf("g%dh%d.test:%d", j, k, 1000+j))
	}
	// identity: a group without hosts gets a unique sleep
	if nh == 0 || r.Chance(70) {
		g.sleep = time.Duration(j+1)*time.Second + time.Duration(r.Intn(1000))*time.Millisecond
	}
	if r.Chance(60) {
		g.jitter = []int{0, 1, 10, 50, 99, 100, 101, 127, 128, 200, 254, 255}[r.Intn(12)]
		if r.Chance(50) {
			g.jitter = (j*7 + 3) % 101
		}
	}
	switch r.Intn(4) {
	case 0:
		g.kill = 1
	case 1:
		g.kill, g.killAt = 2, time.Unix(int64(1700000000+j*86400+r.Intn(1000)), 0)
	}
	if r.Chance(40) {
		g.work = &cfg.WorkHours{Days: uint8(1 + r.Intn(127)), StartHour: uint8(r.Intn(24)), StartMin: uint8(r.Intn(60)), EndHour: uint8(r.Intn(24)), EndMin: uint8(r.Intn(60))}
		if r.Chance(15) {
			g.work = &cfg.WorkHours{}
		}
	}
	for k, nk := 0, []int{0, 0, 1, 2}[r.Intn(4)]; k < nk; k++ {
		var pk data.PublicKey
		copy(pk[:], r.Bytes(len(pk)))
		pk[0] |= 1
		g.keys = append(g.keys, pk)
	}
	switch r.Intn(5) {
	case 0:
	case 1:
		g.wv = 1 + r.Intn(4)
	case 2:
		g.wv = 100 + j%100
	case 3:
		g.wv = 200 + j%100
	default:
		g.wv = 300 + j%100
	}
	switch r.Intn(4) {
	case 0:
	case 1:
		g.tv = 1
	case 2:
		g.tv = 100 + j%100
	default:
		g.tv = 200 + j%50
	}
	g.conn = r.Intn(len(c17Conns))
	if r.Chance(12) {
		g.tailFA = 1 + r.Intn(2)
		if g.tailFA == 1 {
			g.weight = 250
		} else {
			g.kill, g.killAt = 2, time.Unix(int64(1700000000+j*86400)&^0xFF|0xFA, 0)
		}
	}
	return g
}

func (g *c17Group) build() error {
	var s []cfg.Setting
	for _, h := range g.hosts {
		s = append(s, cfg.Host(h))
	}
	if g.weight > 0 && g.tailFA != 1 {
		s = append(s, cfg.Weight(uint(g.weight)))
	}
	if g.sleep > 0 {
		s = append(s, cfg.Sleep(g.sleep))
	}
	if g.jitter >= 0 {
		s = append(s, cfg.Jitter(uint(g.jitter)))
	}
	switch {
	case g.tailFA == 2:
	case g.kill == 1:
		s = append(s, cfg.KillDate(time.Time{}))
	case g.kill == 2:
		s = append(s, cfg.KillDate(g.killAt))
	}
	if g.work != nil {
		s = append(s, *g.work)
	}
	for _, k := range g.keys {
		s = append(s, cfg.KeyPin(k))
	}
	s = append(s, c17Wrapper(g.wv)...)
	s = append(s, c17Transform(g.tv)...)
	if c := c17Conns[g.conn]; c != nil {
		s = append(s, c)
	}
	switch g.tailFA {
	case 1:
		s = append(s, cfg.Weight(uint(g.weight)))
	case 2:
		s = append(s, cfg.KillDate(g.killAt))
	}
	g.settings = s
	// reference: the group's own settings (without selector) built alone
	ref, err := cfg.Build(s...)
	if err != nil {
		return err
	}
	g.ref = ref
	sv := cfg.VerifRandC17
	cfg.VerifRandC17 = nil
	_, g.refW, g.refT = ref.Next()
	cfg.VerifRandC17 = sv
	return nil
}

// rawWeight is the byte cfg.Weight() stores (Weight(0) adds no setting).
func (g *c17Group) rawWeight() int { return g.weight & 0xFF }

// ---- observation helpers ------------------------------------------------------------------------

var c17Canceled = func() context.Context {
	x, f := context.WithCancel(context.Background())
	f()
	return x
}()

// connClass classifies what Connect does without touching the network (cancelled context).
func c17ConnClass(p cfg.Profile) (s string) {
	defer func() {
		if e := recover(); e != nil {
			s = fmt.Sprintf("panic:%v", e)
		}
	}()
	c, err := p.Connect(c17Canceled, "127.0.0.1:9")
	if c != nil {
		c.Close()
	}
	if err == nil {
		return "connected"
	}
	if err == cfg.ErrNotAConnector {
		return "none"
	}
	var oe *net.OpError
	if errors.As(err, &oe) {
		return "net:" + oe.Net
	}
	return "err:" + reflect.TypeOf(err).String()
}

func c17ListenClass(p cfg.Profile) (s string) {
	defer func() {
		if e := recover(); e != nil {
			s = fmt.Sprintf("panic:%v", e)
		}
	}()
	l, err := p.Listen(c17Canceled, "256.256.256.256:99999")
	if l != nil {
		l.Close()
	}
	if err == cfg.ErrNotAListener {
		return "0"
	}
	return "1"
}

func c17Same(a, b interface{}) bool { return reflect.DeepEqual(a, b) }

func c17WorkTag(w *cfg.WorkHours) uint64 {
	if w == nil {
		return 0
	}
	return 1 + (uint64(w.Days)<<32 | uint64(w.StartHour)<<24 | uint64(w.StartMin)<<16 | uint64(w.EndHour)<<8 | uint64(w.EndMin))
}

func c17KillStr(t time.Time, ok bool) string {
	b := "0"
	if ok {
		b = "1"
	}
	return fmt.Sprintf("%d:%s", t.Unix(), b)
}

// ---- one case -----------------------------------------------------------------------------------

type c17Op struct {
	code  string // s0 s1 nx sl ji kd wh tk co li
	key   int    // tk: index into case key table
	draws []uint32
}

type c17Case struct {
	groups  []*c17Group // non-empty groups in config order
	conf    cfg.Config
	sel     uint8 // effective selector: last non-zero one in config order
	ops     []c17Op
	keys    []data.PublicKey
	connTag map[string]int
	tailFA  int // groups whose encoding ends in 0xFA
}

func c17Draw(r *Rng) uint32 {
	switch r.Intn(8) {
	case 0:
		return 0
	case 1:
		return 1<<30 - 1 // largest word with FastRandN(4) == 0
	case 2:
		return 1 << 30 // smallest word with FastRandN(4) == 1
	case 3:
		return 0xFFFFFFFF
	case 4:
		return uint32(r.Intn(1 << 30))
	}
	return uint32(r.U64())
}

func c17Gen(r *Rng, malformed bool) (*c17Case, error) {
	cs := &c17Case{connTag: map[string]int{}}
	n := []int{2, 2, 2, 3, 3, 3, 4, 4, 5, 6, 8, 11, 12, 13, 16, 24, 1, 2, 3, 5}[r.Intn(20)]
	selMode := r.Intn(10) // 0: no selector; 1: selector in several groups; else one selector somewhere
	for j := 0; j < n; j++ {
		g := c17GenGroup(r, j, n)
		cs.groups = append(cs.groups, g)
	}
	if r.Chance(25) { // many equal weights: exercises the order among ties
		w := c17Weights[r.Intn(len(c17Weights))]
		for _, g := range cs.groups {
			if r.Chance(70) {
				g.weight = w
			}
		}
	}
	switch {
	case selMode == 0:
	case selMode == 1:
		for _, g := range cs.groups {
			if r.Chance(50) {
				g.sels = append(g.sels, c17Selectors[r.Intn(6)])
			}
			if r.Chance(10) {
				g.sels = append(g.sels, c17Selectors[r.Intn(6)])
			}
		}
	default:
		cs.groups[r.Intn(n)].sels = []uint8{c17Selectors[r.Intn(6)]}
	}
	var c cfg.Config
	if malformed && r.Chance(40) {
		c = append(c, byte(cfg.Separator)) // leading separator = empty first group
	}
	for j, g := range cs.groups {
		if err := g.build(); err != nil {
			return nil, fmt.Errorf("group %d alone does not build: %v", j, err)
		}
		s := append([]cfg.Setting(nil), g.settings...)
		var sels []cfg.Setting
		for _, x := range g.sels { // selector position inside the group is irrelevant; vary it
			for _, q := range []cfg.Setting{cfg.SelectorLastValid, cfg.SelectorRoundRobin, cfg.SelectorRandom, cfg.SelectorSemiRoundRobin, cfg.SelectorSemiRandom, cfg.SelectorSemiLastValid} {
				if b := cfg.Bytes(q); len(b) == 1 && b[0] == x {
					sels = append(sels, q)
				}
			}
		}
		if r.Bool() && g.tailFA == 0 {
			s = append(s, sels...)
		} else {
			s = append(sels, s...)
		}
		if g.tailFA != 0 {
			cs.tailFA++
		}
		if len(s) == 0 { // a group with no settings at all is skipped by Build; keep it non-empty
			s = append(s, cfg.Jitter(uint((j*7+3)%101)))
			g.jitter = (j*7 + 3) % 101
			if err := g.build(); err != nil {
				return nil, err
			}
		}
		c.AddGroup(s...)
		if malformed && r.Chance(30) {
			c = append(c, byte(cfg.Separator)) // empty group in between / trailing separator
		}
		if x := g.sel(); x > 0 {
			cs.sel = x
		}
	}
	cs.conf = c
	// key table for TrustedKey: all pinned keys, one unknown key, the empty key
	for _, g := range cs.groups {
		cs.keys = append(cs.keys, g.keys...)
	}
	var unk data.PublicKey
	copy(unk[:], r.Bytes(len(unk)))
	unk[1] |= 1
	cs.keys = append(cs.keys, unk, data.PublicKey{})
	// history
	L := []int{1, 2, 3, 5, 8, n, n + 1, 2 * n, 2*n + 1, 3*n + 2, 40}[r.Intn(11)]
	mix := r.Intn(4) // 0: switches only; 1: mostly switches; 2: balanced; 3: accessor first
	for k := 0; k < L; k++ {
		var op c17Op
		x := r.Intn(100)
		switch {
		case mix == 0 || (mix == 1 && x < 75) || (mix >= 2 && x < 40):
			if mix == 3 && k == 0 {
				op.code = "nx"
			} else if r.Chance(35) {
				op.code = "s1"
			} else {
				op.code = "s0"
			}
		default:
			op.code = []string{"nx", "nx", "nx", "sl", "ji", "kd", "wh", "tk", "co", "li"}[r.Intn(10)]
			if op.code == "tk" {
				op.key = r.Intn(len(cs.keys))
			}
		}
		op.draws = []uint32{c17Draw(r), c17Draw(r), c17Draw(r)}
		cs.ops = append(cs.ops, op)
	}
	return cs, nil
}

// identify maps an entry (as exposed by the hook) to the index of the configured group.
func (cs *c17Case) identify(hosts []string, sleep time.Duration) int {
	for j, g := range cs.groups {
		if len(hosts) > 0 || len(g.hosts) > 0 {
			if len(hosts) == len(g.hosts) && len(hosts) > 0 && hosts[0] == g.hosts[0] {
				return j
			}
			continue
		}
		if g.ref.Sleep() == sleep {
			return j
		}
	}
	return -1
}

func (cs *c17Case) connTagOf(class string) int {
	if class == "none" {
		return 0
	}
	if t, ok := cs.connTag[class]; ok {
		return t
	}
	t := len(cs.connTag) + 1
	cs.connTag[class] = t
	return t
}

func (cs *c17Case) input() map[string]interface{} {
	var gs []string
	for _, g := range cs.groups {
		gs = append(gs, fmt.Sprintf("weight=%d hosts=%v sel=%v", g.weight, g.hosts, g.sels))
	}
	var ops []string
	for _, o := range cs.ops {
		ops = append(ops, o.tok(cs))
	}
	return map[string]interface{}{"config": hx(cs.conf), "selector": c17SelName[cs.sel], "groups": gs, "ops": strings.Join(ops, ",")}
}

func (o c17Op) tok(cs *c17Case) string {
	s := o.code
	if o.code == "tk" {
		k := cs.keys[o.key]
		e := "0"
		if k.Empty() {
			e = "1"
		}
		s += fmt.Sprintf(":%s:%d", e, k.Hash())
	}
	for _, d := range o.draws {
		s += ":" + strconv.FormatUint(uint64(d), 10)
	}
	return s
}

// entryTok renders a configured group as the model's Entry (reference values from the group's own
// single-profile build; weight as the raw byte: the model applies Build's clamp).
func (cs *c17Case) entryTok(g *c17Group) string {
	hs := "."
	if len(g.hosts) > 0 {
		var x []string
		for _, h := range g.hosts {
			x = append(x, hx([]byte(h)))
		}
		hs = strings.Join(x, "+")
	}
	ks := "."
	if len(g.keys) > 0 {
		var x []string
		for _, k := range g.keys {
			x = append(x, strconv.FormatUint(uint64(k.Hash()), 10))
		}
		ks = strings.Join(x, "+")
	}
	kt, kok := g.ref.KillDate()
	kd := "0"
	if kok {
		kd = "1"
	}
	return fmt.Sprintf("%d/%d/%s/%d/%d/%d/%d/%d/%s/%d/%s/%d", g.rawWeight(), g.sel(), hs, g.wv, g.tv,
		int64(g.ref.Sleep()), g.ref.Jitter(), kt.Unix(), kd, c17WorkTag(g.ref.WorkHours()), ks, 2*cs.connTagOf(c17ConnClass(g.ref))+int(c17ListenClass(g.ref)[0]-'0'))
}

// tags of a returned wrapper / transform: variant id of the first configured group whose reference
// value is deeply equal (-1: belongs to no configured group at all).
func (cs *c17Case) wrapTag(w cfg.Wrapper) int {
	for _, g := range cs.groups {
		if c17Same(g.refW, w) {
			return g.wv
		}
	}
	return -1
}
func (cs *c17Case) transTag(t cfg.Transform) int {
	for _, g := range cs.groups {
		if c17Same(g.refT, t) {
			return g.tv
		}
	}
	return -1
}

type c17State struct {
	order []int // configured-group index of every entry, in the Group's order
	cur   int   // index into order; -1 nil
}

func c17Observe(cs *c17Case, p cfg.Profile) (st c17State, ok bool, why string) {
	isg, _, _, hosts, cur := cfg.VerifGroupC17(p)
	if !isg {
		return st, false, "not a group"
	}
	sl := cfg.VerifGroupSleepsC17(p)
	for i := range hosts {
		j := cs.identify(hosts[i], sl[i])
		if j < 0 {
			return st, false, fmt.Sprintf("entry %d (hosts %v) is none of the configured groups", i, hosts[i])
		}
		st.order = append(st.order, j)
	}
	st.cur = cur
	return st, true, ""
}

var c17FailSeen = map[string]int{}

// runHistory executes the case's history on a freshly built profile. scripted: PRNG words come from
// the ops. Returns the model-comparable output line ("" when not scripted).
func c17RunHistory(c *Ctx, cs *c17Case, scripted bool, mode string) string {
	in := cs.input()
	in["prng"] = mode
	fail := func(kind, key, detail string) {
		// every failure is counted; the first 25 per key are written out with their replayable input
		c.Count("fail:" + key)
		if c17FailSeen[key]++; c17FailSeen[key] <= 25 {
			c.Fail(kind, key, detail, in)
		}
	}
	p, err := cs.conf.Build()
	if err != nil {
		// every group builds alone and selectors/separators are always valid: Build must succeed
		fail("build", "build-error:multi-group", "multi-group config does not build although every group builds alone: "+err.Error())
		return "build-error"
	}
	n := len(cs.groups)
	var out []string
	if n == 1 {
		if ok, _, _ := cfg.VerifSingleC17(p); !ok {
			fail("build", "build-kind:single", fmt.Sprintf("one configured group built into %T, not a single profile", p))
		}
		out = append(out, "single")
	} else {
		st, ok, why := c17Observe(cs, p)
		if !ok {
			fail("membership", "entries-foreign:Build", why)
			return "bad-build"
		}
		_, sel, ws, _, _ := cfg.VerifGroupC17(p)
		// (1) entries are exactly the configured groups, ordered by descending weight
		seen := map[int]bool{}
		for _, j := range st.order {
			seen[j] = true
		}
		if len(st.order) != n || len(seen) != n {
			fail("membership", "entries-not-permutation:Build", fmt.Sprintf("entries %v are not a permutation of the %d configured groups", st.order, n))
		}
		for i := 1; i < len(ws); i++ {
			if ws[i-1] < ws[i] {
				fail("order", "not-descending:Build", fmt.Sprintf("entry weights %v are not in descending order", ws))
				break
			}
		}
		for i, j := range st.order {
			want := cs.groups[j].rawWeight()
			if want > 100 {
				want = 100
			}
			if int(ws[i]) != want {
				fail("order", "weight-value:Build", fmt.Sprintf("group %d configured weight byte %d built as %d", j, cs.groups[j].rawWeight(), ws[i]))
			}
		}
		if sel != cs.sel {
			fail("selector", "selector-value:Build", fmt.Sprintf("selector %#x built, last configured selector is %#x", sel, cs.sel))
		}
		if st.cur != -1 {
			fail("cursor", "cursor-preset:Build", "freshly built group already has an active entry")
		}
		o := make([]string, len(st.order))
		for i, j := range st.order {
			o[i] = strconv.Itoa(j)
		}
		out = append(out, "group", strings.Join(o, ","), "sel="+strconv.Itoa(int(sel)), "|")
		if sel == 0 {
			c.Count("selector:none(out of scope)")
		}
	}
	if n == 1 {
		out = append(out, "|")
	}
	// history
	var script []uint32
	exhausted := false
	if scripted {
		cfg.VerifRandC17 = func() (uint32, bool) {
			if len(script) == 0 {
				exhausted = true
				return 0, false
			}
			v := script[0]
			script = script[1:]
			return v, true
		}
	} else {
		cfg.VerifRandC17 = nil
	}
	defer func() { cfg.VerifRandC17 = nil }()
	visited := map[int]bool{}
	moves, switches := 0, 0
	sinceFull := map[int]bool{}
	for k, op := range cs.ops {
		script = append(script[:0], op.draws...)
		before := c17State{cur: -1}
		if n > 1 {
			before, _, _ = c17Observe(cs, p)
		}
		var res string
		var ret bool
		var h string
		var w cfg.Wrapper
		var t cfg.Transform
		panicked := func() (s string) {
			defer func() {
				if e := recover(); e != nil {
					s = fmt.Sprint(e)
				}
			}()
			switch op.code {
			case "s0", "s1":
				ret = p.Switch(op.code == "s1")
				res = "F"
				if ret {
					res = "T"
				}
			case "nx":
				h, w, t = p.Next()
				res = fmt.Sprintf("n:%s:%d:%d", hx([]byte(h)), cs.wrapTag(w), cs.transTag(t))
			case "sl":
				res = fmt.Sprintf("sl:%d", int64(p.Sleep()))
			case "ji":
				res = fmt.Sprintf("ji:%d", p.Jitter())
			case "kd":
				kt, kok := p.KillDate()
				res = "kd:" + c17KillStr(kt, kok)
			case "wh":
				res = fmt.Sprintf("wh:%d", c17WorkTag(p.WorkHours()))
			case "tk":
				res = "tk:0"
				if p.TrustedKey(cs.keys[op.key]) {
					res = "tk:1"
				}
			case "co":
				res = fmt.Sprintf("co:%d", cs.connTagOf(c17ConnClass(p)))
			case "li":
				res = "li:" + c17ListenClass(p)
			}
			return ""
		}()
		if panicked != "" {
			fail("panic", "panic:"+c17OpName(op.code), fmt.Sprintf("op %d (%s) panicked: %s", k, op.code, panicked))
			out = append(out, "panic")
			break
		}
		if exhausted {
			exhausted = false
			fail("harness", "script-exhausted", "more PRNG words consumed than scripted")
		}
		if n == 1 {
			// a single profile never switches and answers with its own values
			g := cs.groups[0]
			c17CheckOwn(cs, g, p, op, res, ret, h, w, t, fail, k)
			if c17IsSwitch(op.code) && ret {
				fail("switch-report", "switch-true:single", "Switch on a single profile returned true")
			}
			out = append(out, res)
			continue
		}
		after, ok, why := c17Observe(cs, p)
		if !ok {
			fail("membership", "entries-foreign:"+c17OpName(op.code), why)
			break
		}
		out = append(out, res+"@"+c17CurStr(after))
		// (2) the active entry is one of the configured groups, and set after any call
		if after.cur < 0 {
			fail("cursor", "cursor-invalid:"+c17OpName(op.code), fmt.Sprintf("after op %d (%s) the active entry is %d (-1 unset, -2 not one of the entries)", k, op.code, after.cur))
			break
		}
		if !reflect.DeepEqual(after.order, before.order) {
			fail("order", "order-changed:"+c17OpName(op.code), fmt.Sprintf("op %d (%s) changed the entry order %v -> %v", k, op.code, before.order, after.order))
		}
		g := cs.groups[after.order[after.cur]]
		visited[after.order[after.cur]] = true
		// (3) what is handed out belongs to the active group
		c17CheckOwn(cs, g, p, op, res, ret, h, w, t, fail, k)
		sn := c17SelName[cs.sel]
		if !c17IsSwitch(op.code) {
			// accessors only initialise the cursor
			if before.cur >= 0 && after.cur != before.cur {
				fail("accessor-moves", "accessor-moved-cursor:"+c17OpName(op.code), fmt.Sprintf("op %d (%s) moved the active entry %d -> %d", k, op.code, before.cur, after.cur))
			}
			if before.cur < 0 && cs.sel != uint8(cfg.SelectorRandom) && cs.sel != uint8(cfg.SelectorSemiRandom) && after.cur != 0 {
				fail("init", "init-not-first:"+sn, fmt.Sprintf("first use selected entry %d, not the highest-weight entry 0", after.cur))
			}
			continue
		}
		// (4) Switch reports a change iff the active entry changed
		switches++
		changed := after.cur != before.cur
		if changed {
			moves++
		}
		if ret != changed {
			fail("switch-report", "switch-report:"+sn, fmt.Sprintf("op %d Switch(%v) returned %v but the active entry went %d -> %d", k, op.code == "s1", ret, before.cur, after.cur))
		}
		// (5) selector contracts
		failed := op.code == "s1"
		succ := 0
		if before.cur >= 0 {
			succ = (before.cur + 1) % n
		}
		stay := before.cur >= 0 && after.cur == before.cur
		step := after.cur == succ
		bad := ""
		switch cs.sel {
		case uint8(cfg.SelectorLastValid):
			if before.cur >= 0 && !failed && !stay {
				bad = "last-valid changed the group without a reported failure"
			} else if (before.cur < 0 || failed) && !step {
				bad = "last-valid did not move to the next group in order after a failure / on first use"
			}
		case uint8(cfg.SelectorRoundRobin):
			if !step {
				bad = "round-robin did not move to the next group in order"
			}
		case uint8(cfg.SelectorSemiRoundRobin):
			if !(stay || step) || (before.cur < 0 && !step) {
				bad = "semi-round-robin neither stayed nor moved to the next group in order"
			}
		case uint8(cfg.SelectorSemiLastValid):
			if (before.cur < 0 || failed) && !step {
				bad = "semi-last-valid did not move to the next group in order after a failure / on first use"
			} else if !(stay || step) {
				bad = "semi-last-valid neither stayed nor moved to the next group in order"
			}
		case uint8(cfg.SelectorRandom), uint8(cfg.SelectorSemiRandom):
			// any configured group (checked above); semi-random may stay
		default:
			c.Count("selector:none-switch")
		}
		if bad != "" {
			fail("selector-contract", "contract:"+sn, fmt.Sprintf("op %d Switch(%v): %s (entry %d -> %d of %d)", k, failed, bad, before.cur, after.cur, n))
		}
		// round-robin visits every group before repeating
		if cs.sel == uint8(cfg.SelectorRoundRobin) {
			if sinceFull[after.cur] {
				if len(sinceFull) != n {
					fail("selector-contract", "contract:round-robin-repeat", fmt.Sprintf("round-robin revisited entry %d after only %d of %d groups", after.cur, len(sinceFull), n))
				}
				sinceFull = map[int]bool{}
			}
			sinceFull[after.cur] = true
		}
	}
	// liveness under the real PRNG: a random / semi selector that never moves in a long history
	if !scripted && n > 1 && switches >= 150 && moves == 0 && cs.sel != uint8(cfg.SelectorLastValid) && cs.sel != 0 {
		fail("selector-contract", "stuck:"+c17SelName[cs.sel], fmt.Sprintf("%d Switch calls never changed the active group", switches))
	}
	if !scripted && n > 1 && switches >= 150 {
		c.Count(fmt.Sprintf("free:%s:moved=%d%%", c17SelName[cs.sel], (moves*100/switches+5)/10*10))
	}
	if !scripted {
		return ""
	}
	return strings.Join(out, " ")
}

func c17IsSwitch(code string) bool { return code == "s0" || code == "s1" }

func c17OpName(code string) string {
	switch code {
	case "s0", "s1":
		return "Switch"
	case "nx":
		return "Next"
	case "sl":
		return "Sleep"
	case "ji":
		return "Jitter"
	case "kd":
		return "KillDate"
	case "wh":
		return "WorkHours"
	case "tk":
		return "TrustedKey"
	case "co":
		return "Connect"
	}
	return "Listen"
}

func c17CurStr(st c17State) string {
	if st.cur < 0 || st.cur >= len(st.order) {
		return "-"
	}
	return strconv.Itoa(st.order[st.cur])
}

// c17CheckOwn: the value an accessor returned must be the active group's own (reference = the group's
// settings built alone).
func c17CheckOwn(cs *c17Case, g *c17Group, p cfg.Profile, op c17Op, res string, ret bool, h string, w cfg.Wrapper, t cfg.Transform, fail func(kind, key, detail string), k int) {
	name := c17OpName(op.code)
	switch op.code {
	case "nx":
		rw, rt := g.refW, g.refT
		if len(g.hosts) == 0 {
			if h != "" {
				fail("own-entry", "foreign-host:Next", fmt.Sprintf("op %d: active group has no hosts but Next returned %q", k, h))
			}
		} else {
			found := false
			for _, x := range g.hosts {
				found = found || x == h
			}
			if !found {
				fail("own-entry", "foreign-host:Next", fmt.Sprintf("op %d: Next returned host %q, active group's hosts are %v", k, h, g.hosts))
			}
		}
		if !c17Same(rw, w) {
			fail("own-entry", "foreign-wrapper:Next", fmt.Sprintf("op %d: Next returned wrapper %T%v, the active group's is %T%v", k, w, w, rw, rw))
		}
		if !c17Same(rt, t) {
			fail("own-entry", "foreign-transform:Next", fmt.Sprintf("op %d: Next returned transform %T%v, the active group's is %T%v", k, t, t, rt, rt))
		}
	case "sl":
		if want := fmt.Sprintf("sl:%d", int64(g.ref.Sleep())); res != want {
			fail("own-entry", "foreign-value:"+name, fmt.Sprintf("op %d: got %s, active group's own value %s", k, res, want))
		}
	case "ji":
		if want := fmt.Sprintf("ji:%d", g.ref.Jitter()); res != want {
			fail("own-entry", "foreign-value:"+name, fmt.Sprintf("op %d: got %s, active group's own value %s", k, res, want))
		}
	case "kd":
		kt, kok := g.ref.KillDate()
		if want := "kd:" + c17KillStr(kt, kok); res != want {
			fail("own-entry", "foreign-value:"+name, fmt.Sprintf("op %d: got %s, active group's own value %s", k, res, want))
		}
	case "wh":
		if !c17Same(g.ref.WorkHours(), p.WorkHours()) {
			fail("own-entry", "foreign-value:"+name, fmt.Sprintf("op %d: got %s, active group's own value wh:%d", k, res, c17WorkTag(g.ref.WorkHours())))
		}
	case "tk":
		want := "tk:0"
		if g.ref.TrustedKey(cs.keys[op.key]) {
			want = "tk:1"
		}
		if res != want {
			fail("own-entry", "foreign-value:"+name, fmt.Sprintf("op %d: got %s, active group's own value %s", k, res, want))
		}
	case "co":
		if want := fmt.Sprintf("co:%d", cs.connTagOf(c17ConnClass(g.ref))); res != want {
			fail("own-entry", "foreign-value:"+name, fmt.Sprintf("op %d: got %s, active group's own connector class %s", k, res, want))
		}
	case "li":
		if want := "li:" + c17ListenClass(g.ref); res != want {
			fail("own-entry", "foreign-value:"+name, fmt.Sprintf("op %d: got %s, active group's own value %s", k, res, want))
		}
	}
}

func runC17(c *Ctx) {
	c17Ews(c) // the host container of the ews build variant (c17_ews.go)
	insMax := 12
	if zs, err := os.ReadFile(runtime.GOROOT() + "/src/sort/zsortinterface.go"); err == nil {
		if mi := regexp.MustCompile(`maxInsertion\s*=\s*(\d+)`).FindStringSubmatch(string(zs)); mi != nil {
			insMax, _ = strconv.Atoi(mi[1])
		}
	}
	one := func(r *Rng, malformed bool) {
		cs, err := c17Gen(r, malformed)
		if err != nil {
			c.Fail("generator", "generator:group-build", err.Error(), nil)
			return
		}
		n := len(cs.groups)
		c.Count(fmt.Sprintf("groups:%d", n))
		c.Count("selector:" + c17SelName[cs.sel])
		if cs.tailFA > 0 {
			c.Count("groups:encoding-ends-in-0xFA")
		}
		// entries first (fixes the connector tag table before the history runs)
		var ents []string
		for _, g := range cs.groups {
			ents = append(ents, cs.entryTok(g))
		}
		var ops []string
		nsw := 0
		for _, o := range cs.ops {
			ops = append(ops, o.tok(cs))
			c.Count("op:" + c17OpName(o.code))
			if c17IsSwitch(o.code) {
				nsw++
			}
		}
		out := c17RunHistory(c, cs, true, "scripted")
		order := "auto"
		if n > insMax && strings.HasPrefix(out, "group ") {
			// beyond the insertion-sort threshold the order among equal weights is the library's:
			// the model checks that the order is a descending permutation and continues from it
			order = strings.Fields(out)[1]
			c.Count("order:given")
		}
		c.Op(fmt.Sprintf("run %s %s %s", order, strings.Join(ents, ";"), strings.Join(ops, ",")), out)
		c17RunHistory(c, cs, false, "real")
		c.Eval(n >= 2 && nsw > 0 && cs.sel != 0, hx(cs.conf)+strings.Join(ops, ","))
	}
	c.Cases("hist", c.N(2500, 40000), func(r *Rng, i int) { one(r, false) })
	c.Cases("shape", c.N(600, 8000), func(r *Rng, i int) { one(r, true) })
	if c.Seed == 1 || c.Thorough() {
		runC17SessionProbe(c)
	}
	runC17Consumer(c)
	runC17S3(c) // s3: the real loop on real multi-group profiles against XMT/GroupLoop.lean (c17_s3.go)
	// long free-PRNG histories: liveness and rotation order of every selector
	c.Cases("long", c.N(60, 600), func(r *Rng, i int) {
		cs, err := c17Gen(r, false)
		if err != nil {
			c.Fail("generator", "generator:group-build", err.Error(), nil)
			return
		}
		if len(cs.groups) < 2 {
			return
		}
		// force one of the six selectors
		for _, g := range cs.groups {
			g.sels = nil
		}
		cs.sel = c17Selectors[i%6]
		var cc cfg.Config
		for j, g := range cs.groups {
			s := append([]cfg.Setting(nil), g.settings...)
			if j == 0 {
				for _, q := range []cfg.Setting{cfg.SelectorLastValid, cfg.SelectorRoundRobin, cfg.SelectorRandom, cfg.SelectorSemiRoundRobin, cfg.SelectorSemiRandom, cfg.SelectorSemiLastValid} {
					if b := cfg.Bytes(q); b[0] == cs.sel {
						s = append(s, q)
						g.sels = []uint8{cs.sel}
					}
				}
			}
			if len(s) == 0 {
				s = append(s, cfg.Jitter(uint((j*7+3)%101)))
				g.jitter = (j*7 + 3) % 101
				g.build()
			}
			cc.AddGroup(s...)
		}
		cs.conf = cc
		cs.ops = nil
		for k := 0; k < 400; k++ {
			op := c17Op{code: "s0"}
			if r.Chance(30) {
				op.code = "s1"
			}
			if r.Chance(20) {
				op.code = "nx"
			}
			cs.ops = append(cs.ops, op)
		}
		c.Count("long:" + c17SelName[cs.sel])
		c17RunHistory(c, cs, false, "real")
		c.Eval(true, "long"+hx(cs.conf)+strconv.Itoa(i))
	})
}
