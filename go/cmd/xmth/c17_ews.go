package main

import (
	"encoding/hex"
	"fmt"
	"strings"

	"verifharness/ewsbox"
)

// Group "ews" of C17: the host container of the `ews && implant` build variant (c2/x_ews.go), which
// holds the host the client Session connects to between profile switches. The repository's own code
// (mounted copy, see go/ewsbox) is driven with Set/Wrap/Unwrap/String sequences: (a) the pattern of
// (*Session).listen - Unwrap, Set on a switch, String for Connect, Wrap - with hosts whose lengths
// shrink and grow; (b) free sequences. Every String() result is compared with the Lean model
// (XMT/HostBox.lean, op `hb`), and in pattern (a) directly with the host of the last switch.
func c17Ews(c *Ctx) {
	lens := []int{1, 2, 5, 9, 11, 15, 16, 17, 18, 22, 31, 32, 33, 40, 64, 65, 3, 0}
	c.Cases("ews", c.N(600, 6000), func(r *Rng, i int) {
		var b ewsbox.Box
		var script []uint32
		ewsbox.Rand = func() uint32 {
			if len(script) == 0 {
				return 0xDEAD00 // more than 16 draws per Wrap: visible as a model difference
			}
			w := script[0]
			script = script[1:]
			return w
		}
		defer func() { ewsbox.Rand = nil }()
		host := func() string {
			n := lens[r.Intn(len(lens))]
			if r.Chance(20) {
				n = r.Intn(70)
			}
			bs := r.Bytes(n)
			for k := range bs {
				if r.Chance(70) {
					bs[k] = "abcdefghijklmnopqrstuvwxyz0123456789.:-"[int(bs[k])%39]
				}
			}
			return string(bs)
		}
		var ops, outs []string
		get := func() string {
			s := b.String()
			if len(s) == 0 {
				outs = append(outs, "-")
			} else {
				outs = append(outs, hex.EncodeToString([]byte(s)))
			}
			ops = append(ops, "g")
			return s
		}
		set := func(h string) {
			b.Set(h)
			if len(h) == 0 {
				ops = append(ops, "s:-")
			} else {
				ops = append(ops, "s:"+hex.EncodeToString([]byte(h)))
			}
		}
		wrap := func() {
			kb := r.Bytes(16)
			if r.Chance(15) {
				kb[0] = 0
			}
			script = script[:0]
			for _, x := range kb {
				script = append(script, uint32(x)|uint32(r.Intn(1<<20))<<8)
			}
			b.Wrap()
			ops = append(ops, "w:"+hex.EncodeToString(kb))
		}
		in := func() interface{} { return map[string]interface{}{"ops": strings.Join(ops, " ")} }
		if i%3 != 0 {
			// (a) the connection loop
			cur := host()
			for len(cur) == 0 {
				cur = host()
			}
			set(cur)
			turns := 2 + r.Intn(12)
			for t := 0; t < turns; t++ {
				b.Unwrap()
				ops = append(ops, "u")
				if r.Chance(55) {
					cur = host()
					set(cur)
					if len(cur) < 12 {
						c.Count("ews:switch-to-shorter-or-short")
					}
				}
				if got := get(); got != cur {
					c.Fail("own", "ews:host-not-active-group", fmt.Sprintf("turn %d: the connector was given host %q, the active group's host is %q", t, got, cur), in())
				}
				wrap()
			}
			c.Count("ews:loop")
		} else {
			// (b) free sequences (String while wrapped, double Unwrap, Set while wrapped ...)
			for k, n := 0, 3+r.Intn(14); k < n; k++ {
				switch r.Intn(5) {
				case 0, 1:
					set(host())
				case 2:
					wrap()
				case 3:
					b.Unwrap()
					ops = append(ops, "u")
				}
				get()
			}
			c.Count("ews:free")
		}
		out := "."
		if len(outs) > 0 {
			out = strings.Join(outs, " ")
		}
		c.Op("hb "+strings.Join(ops, " "), out)
		c.Eval(len(ops) > 4, "ews "+strings.Join(ops, " "))
	})
}
