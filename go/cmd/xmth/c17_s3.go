package main

// C17, extension s3: the REAL connection loop (*Session).listen (c2/session.go) driving a REAL built
// multi-group profile (*cfg.Group), against the composed model XMT/GroupLoop.lean (op `gloop`).
//
// World: the virtual clock / session log of the C19 harness (no kill date, no work hours, jitter
// off: wait() draws no PRNG word), ONE scripted PRNG stream behind every util.FastRandN call of
// group.go (overlay rewrite of C17), and a scripted Connector per entry (installed into the built
// entries by the hook cfg.VerifSetConnC17; hosts, wrapper, transform, weights and order are what
// Build produced).  The answer of a successful exchange is encoded with the wrapper / transform of
// the entry whose connector was called, so a loop that pairs a host with another group's wrapper
// does not get its exchange through.  The loop is ended by the script running out (a sentinel panic
// out of Connect, recovered here) or by the loop itself ("Too many errors").

import (
	"context"
	"errors"
	"fmt"
	"io"
	"net"
	"strconv"
	"strings"
	"time"

	"github.com/iDigitalFlame/xmt/c2"
	"github.com/iDigitalFlame/xmt/c2/cfg"
	"github.com/iDigitalFlame/xmt/data"
)

type c17s3Stop struct{}

type c17s3Rec struct {
	swArg, swRes bool
	cur          int // configured-group index of the active entry after Connect (-1 none)
	called       int // configured-group index of the entry whose connector was called (-1 none)
	host         string
	w, t         int
	errs         uint8
	res          byte
}

// c17s3Prof wraps the real *Group only to observe the calls listen makes; every call goes through.
type c17s3Prof struct {
	cfg.Profile
	cs      *c17Case
	env     *c19Env
	script  string
	ci      int
	recs    []c17s3Rec
	pend    c17s3Rec
	cur     byte
	called  int
	problem string
	left    func() int
	preErr  uint8 // s.errors / unconsumed PRNG words when the last Switch call was entered
	preLeft int
}

func (p *c17s3Prof) Switch(e bool) bool {
	p.preErr, p.preLeft = p.env.h.Errors(), p.left()
	r := p.Profile.Switch(e)
	p.pend = c17s3Rec{swArg: e, swRes: r}
	return r
}

func (p *c17s3Prof) Connect(x context.Context, a string) (net.Conn, error) {
	if p.ci >= len(p.script) {
		panic(c17s3Stop{})
	}
	p.cur = p.script[p.ci]
	p.ci++
	p.called = -1
	rec := p.pend
	rec.host, rec.errs = a, p.env.h.Errors()
	w, t := p.env.h.WT()
	rec.w, rec.t = p.cs.wrapTag(w), p.cs.transTag(t)
	c, err := p.Profile.Connect(x, a)
	rec.res = p.cur
	if err != nil {
		rec.res = 'f'
	}
	rec.cur, rec.called = -1, p.called
	if st, ok, _ := c17Observe(p.cs, p.Profile); ok && st.cur >= 0 && st.cur < len(st.order) {
		rec.cur = st.order[st.cur]
	}
	p.recs = append(p.recs, rec)
	return c, err
}

// c17s3Connector is the Connector installed into one built entry.
type c17s3Connector struct {
	p   *c17s3Prof
	idx int // configured-group index
}

func (k *c17s3Connector) Connect(_ context.Context, _ string) (net.Conn, error) {
	k.p.called = k.idx
	if k.p.cur == 'f' {
		return nil, errors.New("scripted connect failure")
	}
	c := &c17s3Conn{}
	if k.p.cur == 'o' {
		g := k.p.cs.groups[k.idx]
		b, err := c2.VerifC17Reply(c19ID, g.refW, g.refT)
		if err != nil {
			k.p.problem = "reply encoding: " + err.Error()
		}
		c.rd = b
	}
	return c, nil
}

type c17s3Conn struct{ rd []byte }

func (c *c17s3Conn) Read(b []byte) (int, error) {
	if len(c.rd) == 0 {
		return 0, io.EOF
	}
	n := copy(b, c.rd)
	c.rd = c.rd[n:]
	return n, nil
}
func (c *c17s3Conn) Write(b []byte) (int, error)      { return len(b), nil }
func (c *c17s3Conn) Close() error                     { return nil }
func (c *c17s3Conn) LocalAddr() net.Addr              { return c19Addr{} }
func (c *c17s3Conn) RemoteAddr() net.Addr             { return c19Addr{} }
func (c *c17s3Conn) SetDeadline(time.Time) error      { return nil }
func (c *c17s3Conn) SetReadDeadline(time.Time) error  { return nil }
func (c *c17s3Conn) SetWriteDeadline(time.Time) error { return nil }

var c17s3Settings = []cfg.Setting{cfg.SelectorLastValid, cfg.SelectorRoundRobin, cfg.SelectorRandom, cfg.SelectorSemiRoundRobin, cfg.SelectorSemiRandom, cfg.SelectorSemiLastValid}

// c17s3Gen: 2..n groups (every group with at least one host unless hostless is asked for), one of the
// six selectors (or none) in a random group.
func c17s3Gen(r *Rng, i int) (*c17Case, bool) {
	for try := 0; try < 50; try++ {
		cs, err := c17Gen(r, false)
		if err != nil || len(cs.groups) < 2 || len(cs.groups) > 12 {
			continue
		}
		hostless := r.Chance(8)
		for j, g := range cs.groups {
			g.sels = nil
			if len(g.hosts) == 0 && !hostless {
				g.hosts = []string{fmt.Sprintf("g%dh0.test:%d", j, 1000+j)}
			}
			if g.conn == 0 && r.Chance(85) { // mostly connectors; sometimes an entry that is not a Connector
				g.conn = 1
			}
			if err := g.build(); err != nil {
				return nil, false
			}
		}
		cs.sel = 0
		if x := i % 7; x < 6 {
			cs.sel = c17Selectors[x]
		}
		at := r.Intn(len(cs.groups))
		var cc cfg.Config
		for j, g := range cs.groups {
			s := append([]cfg.Setting(nil), g.settings...)
			if j == at && cs.sel != 0 {
				for _, q := range c17s3Settings {
					if b := cfg.Bytes(q); b[0] == cs.sel {
						s = append(s, q)
						g.sels = []uint8{cs.sel}
					}
				}
			}
			if len(s) == 0 {
				s = append(s, cfg.Jitter(uint((j*7+3)%101)))
				g.jitter = (j*7 + 3) % 101
				if err := g.build(); err != nil {
					return nil, false
				}
			}
			cc.AddGroup(s...)
			if r.Chance(15) {
				// the inert "percent" selector settings (valSelectorPercent 0xA8 / valSelectorPercentRoundRobin
				// 0xA9, one argument byte of any value): accepted by Build, no effect on selector or entries
				cc = append(cc, []byte{0xA8, 0xA9}[r.Intn(2)], []byte{0, 1, 50, 100, 101, 200, 255}[r.Intn(7)])
			}
		}
		cs.conf = cc
		return cs, true
	}
	return nil, false
}

func c17s3Script(r *Rng, i int) string {
	n := []int{1, 2, 3, 5, 8, 12, 16, 24, 40}[r.Intn(9)]
	b := make([]byte, n)
	mode := r.Intn(5)
	for k := range b {
		switch mode {
		case 0:
			b[k] = 'f'
		case 1:
			b[k] = "ooooef"[r.Intn(6)]
		case 2:
			b[k] = "eeeffo"[r.Intn(6)]
		case 3:
			b[k] = 'e'
		default:
			b[k] = "oef"[r.Intn(3)]
		}
	}
	return string(b)
}

func c17s3One(c *Ctx, cs *c17Case, script string, draws []uint32, now int64) {
	in := cs.input()
	delete(in, "ops")
	in["connector_script"] = script
	in["draws"] = draws
	fail := func(kind, key, detail string) {
		c.Count("fail:" + key)
		if c17FailSeen[key]++; c17FailSeen[key] <= 25 {
			c.Fail(kind, key, detail, in)
		}
	}
	// entries first (fixes the connector tag table), last field = the connection hint of this world:
	// 2 = a (scripted) Connector, 0 = not a Connector
	var ents []string
	for _, g := range cs.groups {
		tok := cs.entryTok(g)
		k := strings.LastIndexByte(tok, '/')
		if g.conn == 0 {
			tok = tok[:k] + "/0"
		} else {
			tok = tok[:k] + "/2"
		}
		ents = append(ents, tok)
	}
	p, err := cs.conf.Build()
	if err != nil {
		fail("build", "build-error:multi-group", "multi-group config does not build although every group builds alone: "+err.Error())
		return
	}
	st, ok, why := c17Observe(cs, p)
	if !ok {
		fail("membership", "entries-foreign:Build", why)
		return
	}
	_, sel, _, _, _ := cfg.VerifGroupC17(p)
	l := &c19LoopCase{sleep: int64(time.Millisecond) * 50, now: now}
	e := l.env()
	e.limit = 4*len(script) + 50
	e.install()
	defer c19Uninstall()
	pr := &c17s3Prof{Profile: p, cs: cs, env: e, script: script, called: -1}
	cfg.VerifSetConnC17(p, func(i int) (interface{}, bool) {
		j := st.order[i]
		if cs.groups[j].conn == 0 {
			return nil, false
		}
		return &c17s3Connector{p: pr, idx: j}, false
	})
	// ONE PRNG stream for group.go (an exhausted stream yields 0, as the model's `pop`)
	rest := append([]uint32(nil), draws...)
	cfg.VerifRandC17 = func() (uint32, bool) {
		if len(rest) == 0 {
			return 0, true
		}
		v := rest[0]
		rest = rest[1:]
		return v, true
	}
	defer func() { cfg.VerifRandC17 = nil }()
	pr.left = func() int { return len(rest) }
	x, cancel := context.WithCancel(context.Background())
	e.cancel = cancel
	e.h = c2.VerifC19New(x, e, pr, c19ID, time.Duration(l.sleep), 0, time.Time{}, nil)
	pan, stopped := "", false
	func() {
		defer func() {
			if q := recover(); q != nil {
				if _, ok := q.(c17s3Stop); ok {
					stopped = true
					return
				}
				pan = fmt.Sprint(q)
			}
		}()
		e.h.Listen()
	}()
	e.h.StopTick()
	cancel()
	if pan != "" {
		fail("panic", "panic:Session.listen:"+c19PanicClass(pan), "listen() panicked on a multi-group profile: "+pan)
		return
	}
	if e.waits > e.limit {
		fail("runaway", "loop:runaway", "the client loop did not end within the wait budget")
		return
	}
	if pr.problem != "" {
		c.Count("s3:skipped:" + pr.problem)
		return
	}
	// ---- answer line ----
	o := make([]string, len(st.order))
	for i, j := range st.order {
		o[i] = strconv.Itoa(j)
	}
	out := []string{"gloop", strings.Join(o, ","), "sel=" + strconv.Itoa(int(sel)), "|"}
	for _, rc := range pr.recs {
		cur := "-"
		if rc.cur >= 0 {
			cur = strconv.Itoa(rc.cur)
		}
		h := "-"
		if rc.host != "" {
			h = hx([]byte(rc.host))
		}
		out = append(out, fmt.Sprintf("%s%s@%s:%s:%d:%d:%d:%c", b01(rc.swArg), map[bool]string{true: "T", false: "F"}[rc.swRes], cur, h, rc.w, rc.t, rc.errs, rc.res))
	}
	ee := false
	if n := len(pr.recs); n > 0 {
		ee = pr.recs[n-1].res != 'o'
	}
	fe, fl := e.h.Errors(), len(rest)
	if stopped { // the turn the script ran out in had already called Switch: state as of its start
		fe, fl = pr.preErr, pr.preLeft
	}
	out = append(out, "|", "cont="+b01(stopped), fmt.Sprintf("errors=%d", fe), "e="+b01(ee), fmt.Sprintf("left=%d", fl))
	order := "auto"
	if len(cs.groups) > 12 {
		order = strings.Join(o, ",")
	}
	dt := "-"
	if len(draws) > 0 {
		x := make([]string, len(draws))
		for i, d := range draws {
			x[i] = strconv.FormatUint(uint64(d), 10)
		}
		dt = strings.Join(x, ",")
	}
	c.Op(fmt.Sprintf("gloop %s %s %s %s", order, strings.Join(ents, ";"), dt, c19ScriptTok(script)), strings.Join(out, " "))
	// ---- direct oracles on the real loop ----
	maxE := int(c2.VerifC19MaxErrors)
	streak := 0 // consecutive failed attempts up to and including the current one
	for k, rc := range pr.recs {
		// the selector is told the truth
		if want := k > 0 && pr.recs[k-1].res != 'o'; rc.swArg != want {
			fail("switch-report", "switch:failure-misreported:Session.listen", fmt.Sprintf("attempt %d: Switch(%v) but the previous attempt %s", k+1, rc.swArg, map[bool]string{true: "failed", false: "succeeded (or there was none)"}[want]))
		}
		// what the loop connects with is the active group's own
		if rc.cur >= 0 {
			g := cs.groups[rc.cur]
			if len(g.hosts) > 0 {
				own := false
				for _, h := range g.hosts {
					own = own || h == rc.host
				}
				if !own {
					fail("loop-own", "loop:foreign-host:Session.listen", fmt.Sprintf("attempt %d: active group %d, host %q is not one of its hosts %v", k+1, rc.cur, rc.host, g.hosts))
				}
			}
			if len(g.hosts) == 0 && rc.host != "" {
				// the point HostsNE excludes (Lean: loop_hostless_group_keeps_foreign_host): no panic, the
				// loop keeps the previous group's host
				c.Count("s3:hostless:kept-foreign-host")
			}
			if rc.w != g.wv || rc.t != g.tv {
				fail("loop-own", "loop:foreign-wrapper:Session.listen", fmt.Sprintf("attempt %d: active group %d (wrapper %d, transform %d) but the Session uses wrapper %d, transform %d", k+1, rc.cur, g.wv, g.tv, rc.w, rc.t))
			}
			if rc.called >= 0 && rc.called != rc.cur {
				fail("loop-own", "loop:foreign-connector:Session.listen", fmt.Sprintf("attempt %d: active group %d but the connector of group %d was called", k+1, rc.cur, rc.called))
			}
		} else {
			fail("loop-own", "loop:no-active-entry:Session.listen", fmt.Sprintf("attempt %d: no active entry", k+1))
		}
		// no reported change: same entry, same host as the attempt before
		if k > 0 && !rc.swRes && (rc.cur != pr.recs[k-1].cur || rc.host != pr.recs[k-1].host) {
			fail("loop-keep", "loop:moved-without-switch:Session.listen", fmt.Sprintf("attempt %d: Switch reported no change but group/host moved from %d/%q to %d/%q", k+1, pr.recs[k-1].cur, pr.recs[k-1].host, rc.cur, rc.host))
		}
		if k > 0 && rc.swRes && rc.cur == pr.recs[k-1].cur {
			fail("loop-keep", "loop:switch-without-move:Session.listen", fmt.Sprintf("attempt %d: Switch reported a change but the active group is still %d", k+1, rc.cur))
		}
		if rc.res == 'o' {
			streak = 0
		} else {
			streak++
		}
	}
	// the error budget, exactly: a counter that a reported switch lowers by one (not below 0), a failed
	// attempt raises by one and a good exchange clears; the loop ends at a connect error met with more
	// than maxErrors on it, or at a failed exchange that takes it above maxErrors - and only then
	cnt, endAt := 0, -1
	for k, rc := range pr.recs {
		if rc.swRes && cnt > 0 {
			cnt--
		}
		if int(rc.errs) != cnt {
			fail("giveup", "giveup:counter:Session.listen", fmt.Sprintf("attempt %d: error counter is %d, %d failure(s) not forgiven so far", k+1, rc.errs, cnt))
			break
		}
		switch rc.res {
		case 'f':
			if cnt <= maxE {
				cnt++
			} else if endAt < 0 {
				endAt = k
			}
		case 'e':
			if cnt++; cnt > maxE && endAt < 0 {
				endAt = k
			}
		default:
			cnt = 0
		}
	}
	if n := len(pr.recs); n > 0 {
		if endAt >= 0 && (stopped || endAt != n-1) {
			fail("giveup", "giveup:late:Session.listen", fmt.Sprintf("the error budget (%d) was used up at attempt %d but the loop went on", maxE, endAt+1))
		}
		if endAt < 0 && !stopped {
			fail("giveup", "giveup:early:Session.listen", fmt.Sprintf("the loop gave up at attempt %d with %d on the error counter; the budget is %d", n, cnt, maxE))
		}
	}
	if !stopped {
		// the loop gave up by itself: only after more than maxErrors consecutive failures
		if streak <= maxE {
			fail("giveup", "giveup:premature:Session.listen", fmt.Sprintf("the loop gave up (\"Too many errors\") after %d consecutive failed attempt(s); the budget is %d", streak, maxE))
		}
	} else if n := len(pr.recs); n > 0 {
		// still going although the last maxErrors+2 attempts failed and no switch forgave anything
		ns := 0
		for k := n - 1; k >= 0 && pr.recs[k].res != 'o' && !pr.recs[k].swRes; k-- {
			ns++
		}
		if ns > maxE+2 {
			fail("giveup", "giveup:late:Session.listen", fmt.Sprintf("the loop is still going after %d consecutive failed attempts without any profile switch", ns))
		}
	}
	c.Count("s3:sel=" + c17SelName[sel])
	c.Count(fmt.Sprintf("s3:ended=%s", map[bool]string{true: "script", false: "gave-up"}[stopped]))
	nsw := 0
	for _, rc := range pr.recs {
		if rc.swRes {
			nsw++
		}
	}
	c.Eval(len(pr.recs) >= 2 && sel != 0, "gloop:"+hx(cs.conf)+script+dt)
	if nsw > 0 {
		c.Count("s3:switched")
	}
}

// c17s3Empty: the point `g.entries != []` excludes: the zero-value Group. Every call must return the
// documented default without a panic and without drawing a PRNG word (model op `gempty`, theorem
// empty_group_defaults).
func c17s3Empty(c *Ctx, r *Rng) {
	g := new(cfg.Group)
	var ops, out []string
	var unk data.PublicKey
	copy(unk[:], r.Bytes(len(unk)))
	unk[1] |= 1
	calls := cfg.VerifRandCallsC17
	pan := func() (s string) {
		defer func() {
			if e := recover(); e != nil {
				s = fmt.Sprint(e)
			}
		}()
		for k, n := 0, 1+r.Intn(12); k < n; k++ {
			switch code := []string{"s0", "s1", "nx", "sl", "ji", "kd", "wh", "tk", "tke", "co", "li"}[r.Intn(11)]; code {
			case "s0", "s1":
				ops, out = append(ops, code), append(out, map[bool]string{true: "T", false: "F"}[g.Switch(code == "s1")]+"@-")
			case "nx":
				h, w, t := g.Next()
				if h != "" || w != nil || t != nil {
					c.Fail("empty-group", "empty-group:next-not-default", "zero-value Group: Next() returned something", nil)
				}
				ops, out = append(ops, code), append(out, "n:-:0:0@-")
			case "sl":
				ops, out = append(ops, code), append(out, fmt.Sprintf("sl:%d@-", int64(g.Sleep())))
			case "ji":
				ops, out = append(ops, code), append(out, fmt.Sprintf("ji:%d@-", g.Jitter()))
			case "kd":
				t, ok := g.KillDate()
				if !t.IsZero() {
					c.Fail("empty-group", "empty-group:killdate-not-default", "zero-value Group: KillDate() returned a date", nil)
				}
				ops, out = append(ops, code), append(out, "kd:0:"+b01(ok)+"@-")
			case "wh":
				w := uint64(0)
				if g.WorkHours() != nil {
					w = 1
				}
				ops, out = append(ops, code), append(out, fmt.Sprintf("wh:%d@-", w))
			case "tk":
				ops, out = append(ops, fmt.Sprintf("tk:0:%d", unk.Hash())), append(out, "tk:"+b01(g.TrustedKey(unk))+"@-")
			case "tke":
				ops, out = append(ops, "tk:1:0"), append(out, "tk:"+b01(g.TrustedKey(data.PublicKey{}))+"@-")
			case "co":
				_, err := g.Connect(c17Canceled, "x:1")
				ops, out = append(ops, code), append(out, "co:"+b01(err != cfg.ErrNotAConnector)+"@-")
			case "li":
				_, err := g.Listen(c17Canceled, "x:1")
				ops, out = append(ops, code), append(out, "li:"+b01(err != cfg.ErrNotAListener)+"@-")
			}
		}
		return ""
	}()
	if pan != "" {
		c.Fail("panic", "panic:Group:empty", "a call on the zero-value Group panicked: "+pan, map[string]interface{}{"ops": strings.Join(ops, ",")})
		return
	}
	if cfg.VerifRandCallsC17 != calls {
		c.Fail("empty-group", "empty-group:draws", "a call on the zero-value Group drew a PRNG word", map[string]interface{}{"ops": strings.Join(ops, ",")})
	}
	c.Op("gempty 0 "+strings.Join(ops, ","), "gempty | "+strings.Join(out, " "))
	c.Eval(true, "gempty:"+strings.Join(ops, ","))
}

func runC17S3(c *Ctx) {
	c.Cases("gempty", c.N(40, 400), func(r *Rng, i int) { c17s3Empty(c, r) })
	c.Cases("gloop", c.N(700, 10000), func(r *Rng, i int) {
		cs, ok := c17s3Gen(r, i)
		if !ok {
			c.Count("s3:gen-skip")
			return
		}
		script := c17s3Script(r, i)
		nd := []int{0, 2, 200, 200, 200}[r.Intn(5)]
		draws := make([]uint32, nd)
		for k := range draws {
			draws[k] = c17Draw(r)
		}
		c17s3One(c, cs, script, draws, 1709500000000000000+int64(r.Intn(1000000))*1000000)
	})
}
