package main

// C17, consumer probe (observation only, never a verdict): the real client Session connect loop
// (c2/session.go listen: `if s.p.Switch(e) { h, s.w, s.t = s.p.Next(); ...; s.errors-- }`) driven by
// a built two-group profile over loopback TCP, one group pointing at a live Listener and one at a
// closed port.  What is recorded (evidence "extra"): whether the Session is still alive after the
// selector moved it onto the dead group once.

import (
	"fmt"
	"net"
	"strings"
	"time"

	"github.com/iDigitalFlame/xmt/c2"
	"github.com/iDigitalFlame/xmt/c2/cfg"
)

func c17DeadAddr() (string, error) {
	l, err := net.Listen("tcp", "127.0.0.1:0")
	if err != nil {
		return "", err
	}
	a := l.Addr().String()
	l.Close()
	return a, nil
}

// c17SessionProbe returns "alive" / "closed" / "setup:<err>".
func c17SessionProbe(sel cfg.Setting, deadSecond bool) (res string) {
	defer func() {
		if e := recover(); e != nil {
			res = fmt.Sprintf("setup:panic:%v", e)
		}
	}()
	srv := c2.NewServer(nil)
	defer srv.Close()
	srv.Keys.Fill()
	lp, err := cfg.Build(cfg.ConnectTCP, cfg.Host("127.0.0.1:0"))
	if err != nil {
		return "setup:" + err.Error()
	}
	l, err := srv.Listen("c17", "127.0.0.1:0", lp)
	if err != nil {
		return "setup:" + err.Error()
	}
	live := l.Address()
	second := live
	if deadSecond {
		if second, err = c17DeadAddr(); err != nil {
			return "setup:" + err.Error()
		}
	}
	var c cfg.Config
	c.AddGroup(cfg.Host(live), cfg.ConnectTCP, cfg.Sleep(40*time.Millisecond), cfg.Jitter(0), cfg.Weight(50), sel)
	c.AddGroup(cfg.Host(second), cfg.ConnectTCP, cfg.Sleep(40*time.Millisecond), cfg.Jitter(0), cfg.Weight(10))
	p, err := c.Build()
	if err != nil {
		return "setup:" + err.Error()
	}
	s, err := c2.Connect(nil, p)
	if err != nil {
		return "setup:connect:" + err.Error()
	}
	defer s.Close()
	select {
	case <-s.Done():
		return "closed"
	case <-time.After(1200 * time.Millisecond):
	}
	if s.IsClosed() {
		return "closed"
	}
	return "alive"
}

func runC17SessionProbe(c *Ctx) {
	if c.Only >= 0 {
		return
	}
	for _, x := range []struct {
		name string
		sel  cfg.Setting
		dead bool
	}{
		{"round-robin/both-groups-live", cfg.SelectorRoundRobin, false},
		{"round-robin/second-group-dead", cfg.SelectorRoundRobin, true},
		{"last-valid/second-group-dead", cfg.SelectorLastValid, true},
	} {
		r := c17SessionProbe(x.sel, x.dead)
		c.Extra["session-probe:"+x.name] = r
		c.Count("session-probe:" + x.name + "=" + r)
	}
}

// runC17Consumer: the consumer of the selector contract, `(*Session).listen` (c2/session.go): before
// every connection attempt it calls `p.Switch(e)` and `e` must say whether the PREVIOUS attempt failed
// (connect error or failed exchange) - "last-valid changes only after a reported failure" is only as
// good as that report. The real listen() runs on the virtual clock and scripted Connector of the C19
// harness (no kill date, no work hours, jitter off), the arguments of Switch are compared with the
// client-loop model (op `loop`, XMT/ClientLoop.lean, field `sw`) and checked directly.
func runC17Consumer(c *Ctx) {
	c.Cases("consumer", c.N(400, 6000), func(r *Rng, i int) {
		l := &c19LoopCase{sleep: int64(time.Millisecond) * int64(1+r.Intn(5000)), now: 1709500000000000000 + int64(r.Intn(1000000))*1000000}
		n := 1 + r.Intn(12)
		b := make([]byte, n)
		for k := range b {
			b[k] = "oooeeff"[r.Intn(7)]
		}
		if i < 27 { // every script of length 3 over {o, e, f}
			b = []byte{"oef"[i%3], "oef"[i/3%3], "oef"[i/9%3]}
		}
		l.script = string(b)
		c19Loop(c, l)
		c19Uninstall() // the virtual clock and the scripted PRNG must not leak into the other groups
		c.Eval(strings.ContainsAny(l.script, "ef") && strings.Contains(l.script, "o"), "consumer:"+l.script)
	})
}
