package main

// C18 facts: codec schemas and normalised function bodies extracted from the CURRENT source of the
// task / filter / sentinel codecs by a go/ast walk (DESIGN §5.1).
//
//   c18_schema_<Type>_marshal / _unmarshal : List (String × String)
//       for the straight-line functions: ordered (struct field, wire kind) of every primitive call
//       (kinds: b u8 u16 u32 u64 by sl filter; "?" for anything the walker does not recognise)
//   c18_fields_<Type> : List String         the struct's field names (embedded fields by type name)
//   c18_body_<Func>   : List String         normalised statement list of the guarded functions
//       (`if err := X; err != nil { return err }` collapsed to `X`, bugtrack blocks dropped)
//   c18_sentPathDownload : Nat              guard constant of the sentinelPath codec

import (
	"bytes"
	"fmt"
	"go/ast"
	"go/parser"
	"go/printer"
	"go/token"
	"path/filepath"
	"strconv"
	"strings"

	"github.com/iDigitalFlame/xmt/cmd/filter"
	"github.com/iDigitalFlame/xmt/man"
)

type c18File struct {
	fset *token.FileSet
	f    *ast.File
}

func c18Parse(repo, rel string) (*c18File, error) {
	fs := token.NewFileSet()
	f, err := parser.ParseFile(fs, filepath.Join(repo, rel), nil, 0)
	if err != nil {
		return nil, err
	}
	return &c18File{fs, f}, nil
}

// fn finds a function; recv is "" for plain functions, else the receiver's type name.
func (c *c18File) fn(recv, name string) *ast.FuncDecl {
	for _, d := range c.f.Decls {
		fd, ok := d.(*ast.FuncDecl)
		if !ok || fd.Name.Name != name {
			continue
		}
		if recv == "" {
			if fd.Recv == nil {
				return fd
			}
			continue
		}
		if fd.Recv == nil || len(fd.Recv.List) != 1 {
			continue
		}
		t := fd.Recv.List[0].Type
		if s, ok := t.(*ast.StarExpr); ok {
			t = s.X
		}
		if id, ok := t.(*ast.Ident); ok && id.Name == recv {
			return fd
		}
	}
	return nil
}

func (c *c18File) structFields(name string) []string {
	var out []string
	ast.Inspect(c.f, func(n ast.Node) bool {
		ts, ok := n.(*ast.TypeSpec)
		if !ok || ts.Name.Name != name {
			return true
		}
		st, ok := ts.Type.(*ast.StructType)
		if !ok {
			return false
		}
		for _, f := range st.Fields.List {
			if len(f.Names) == 0 { // embedded: named after the type
				t := f.Type
				if s, ok := t.(*ast.StarExpr); ok {
					t = s.X
				}
				switch x := t.(type) {
				case *ast.Ident:
					out = append(out, x.Name)
				case *ast.SelectorExpr:
					out = append(out, x.Sel.Name)
				}
				continue
			}
			for _, n := range f.Names {
				if n.Name != "_" {
					out = append(out, n.Name)
				}
			}
		}
		return false
	})
	return out
}

func (c *c18File) expr(e ast.Node) string {
	var b bytes.Buffer
	printer.Fprint(&b, c.fset, e)
	return strings.Join(strings.Fields(b.String()), " ")
}

// errCall recognises `if err := CALL; err != nil { return err }` (also with `=`) and returns CALL.
func errCall(s ast.Stmt) ast.Expr {
	is, ok := s.(*ast.IfStmt)
	if !ok || is.Init == nil || is.Else != nil {
		return nil
	}
	as, ok := is.Init.(*ast.AssignStmt)
	if !ok || len(as.Lhs) != 1 || len(as.Rhs) != 1 {
		return nil
	}
	if id, ok := as.Lhs[0].(*ast.Ident); !ok || id.Name != "err" {
		return nil
	}
	be, ok := is.Cond.(*ast.BinaryExpr)
	if !ok || be.Op != token.NEQ {
		return nil
	}
	if x, ok := be.X.(*ast.Ident); !ok || x.Name != "err" {
		return nil
	}
	if y, ok := be.Y.(*ast.Ident); !ok || y.Name != "nil" {
		return nil
	}
	if len(is.Body.List) != 1 {
		return nil
	}
	rs, ok := is.Body.List[0].(*ast.ReturnStmt)
	if !ok || len(rs.Results) != 1 {
		return nil
	}
	if id, ok := rs.Results[0].(*ast.Ident); !ok || id.Name != "err" {
		return nil
	}
	return as.Rhs[0]
}

func isBugtrack(s ast.Stmt) bool {
	is, ok := s.(*ast.IfStmt)
	if !ok || is.Init != nil {
		return false
	}
	se, ok := is.Cond.(*ast.SelectorExpr)
	if !ok {
		return false
	}
	id, ok := se.X.(*ast.Ident)
	return ok && id.Name == "bugtrack" && se.Sel.Name == "Enabled"
}

// body renders the normalised statement list of a function.
func (c *c18File) body(stmts []ast.Stmt, out *[]string) {
	for _, s := range stmts {
		if isBugtrack(s) {
			continue
		}
		if e := errCall(s); e != nil {
			*out = append(*out, c.expr(e))
			continue
		}
		switch x := s.(type) {
		case *ast.ReturnStmt:
			r := make([]string, len(x.Results))
			for i := range x.Results {
				r[i] = c.expr(x.Results[i])
			}
			*out = append(*out, strings.TrimSpace("ret "+strings.Join(r, ", ")))
		case *ast.IfStmt:
			h := "if "
			if x.Init != nil {
				h += c.expr(x.Init) + "; "
			}
			*out = append(*out, h+c.expr(x.Cond)+" {")
			c.body(x.Body.List, out)
			for x.Else != nil {
				if eb, ok := x.Else.(*ast.BlockStmt); ok {
					*out = append(*out, "} else {")
					c.body(eb.List, out)
					break
				}
				ei := x.Else.(*ast.IfStmt)
				h = "} else if "
				if ei.Init != nil {
					h += c.expr(ei.Init) + "; "
				}
				*out = append(*out, h+c.expr(ei.Cond)+" {")
				c.body(ei.Body.List, out)
				x = ei
			}
			*out = append(*out, "}")
		case *ast.ForStmt:
			h := "for "
			if x.Init != nil {
				h += c.expr(x.Init)
			}
			h += "; "
			if x.Cond != nil {
				h += c.expr(x.Cond)
			}
			h += "; "
			if x.Post != nil {
				h += c.expr(x.Post)
			}
			*out = append(*out, h+" {")
			c.body(x.Body.List, out)
			*out = append(*out, "}")
		case *ast.BlockStmt:
			c.body(x.List, out)
		default:
			*out = append(*out, c.expr(s))
		}
	}
}

var c18Kinds = map[string]string{
	"Bool": "b", "Uint8": "u8", "Int8": "u8", "Uint16": "u16", "Int16": "u16",
	"Uint32": "u32", "Int32": "u32", "Float32": "u32",
	"Uint64": "u64", "Int64": "u64", "Float64": "u64", "Int": "u64", "Uint": "u64",
	"Bytes": "by", "String": "by",
}

// field strips conversions, parentheses, & and * and returns the selected field of the receiver.
func field(e ast.Expr, recv string) (string, bool) {
	for {
		switch x := e.(type) {
		case *ast.ParenExpr:
			e = x.X
		case *ast.UnaryExpr:
			if x.Op != token.AND {
				return "", false
			}
			e = x.X
		case *ast.StarExpr:
			e = x.X
		case *ast.CallExpr: // conversion T(x) / (*T)(x)
			if len(x.Args) != 1 {
				return "", false
			}
			e = x.Args[0]
		case *ast.SelectorExpr:
			id, ok := x.X.(*ast.Ident)
			if !ok || id.Name != recv {
				return "", false
			}
			return x.Sel.Name, true
		default:
			return "", false
		}
	}
}

// schema translates a straight-line Marshal/UnmarshalStream body into (field, kind) pairs.
func (c *c18File) schema(fd *ast.FuncDecl) [][2]string {
	var out [][2]string
	if fd == nil || fd.Recv == nil || len(fd.Recv.List[0].Names) != 1 || len(fd.Type.Params.List) != 1 || len(fd.Type.Params.List[0].Names) != 1 {
		return [][2]string{{"<missing function>", "?"}}
	}
	recv := fd.Recv.List[0].Names[0].Name
	io := fd.Type.Params.List[0].Names[0].Name
	bad := func(n ast.Node) { out = append(out, [2]string{c.expr(n), "?"}) }
	for i, s := range fd.Body.List {
		var e ast.Expr
		if e = errCall(s); e == nil {
			rs, ok := s.(*ast.ReturnStmt)
			if ok && len(rs.Results) == 1 && i == len(fd.Body.List)-1 {
				if id, ok := rs.Results[0].(*ast.Ident); ok && id.Name == "nil" {
					continue
				}
				e = rs.Results[0]
			}
		}
		ce, ok := e.(*ast.CallExpr)
		if e == nil || !ok {
			bad(s)
			continue
		}
		se, ok := ce.Fun.(*ast.SelectorExpr)
		if !ok {
			bad(s)
			continue
		}
		isIO := func(a ast.Expr) bool { id, ok := a.(*ast.Ident); return ok && id.Name == io }
		name := se.Sel.Name
		switch {
		case isIO(se.X) && len(ce.Args) == 1 && (strings.HasPrefix(name, "Write") || strings.HasPrefix(name, "Read")):
			k, ok := c18Kinds[strings.TrimPrefix(strings.TrimPrefix(name, "Write"), "Read")]
			f, ok2 := field(ce.Args[0], recv)
			if !ok || !ok2 {
				bad(s)
				continue
			}
			out = append(out, [2]string{f, k})
		case c.expr(se.X) == "data" && (name == "WriteStringList" || name == "ReadStringList") && len(ce.Args) == 2 && isIO(ce.Args[0]):
			f, ok := field(ce.Args[1], recv)
			if !ok {
				bad(s)
				continue
			}
			out = append(out, [2]string{f, "sl"})
		case name == "MarshalStream" && len(ce.Args) == 1 && isIO(ce.Args[0]):
			// p.Filter.MarshalStream(w)  (method of *filter.Filter on a pointer field)
			f, ok := field(se.X, recv)
			if !ok {
				bad(s)
				continue
			}
			out = append(out, [2]string{f, "filter"})
		case c.expr(se.X) == "filter" && name == "UnmarshalStream" && len(ce.Args) == 2 && isIO(ce.Args[0]):
			f, ok := field(ce.Args[1], recv)
			if !ok {
				bad(s)
				continue
			}
			out = append(out, [2]string{f, "filter"})
		default:
			bad(s)
		}
	}
	return out
}

func leanStr(s string) string { return strconv.Quote(s) }

func leanStrListC18(l []string) string {
	q := make([]string, len(l))
	for i := range l {
		q[i] = leanStr(l[i])
	}
	return "[" + strings.Join(q, ", ") + "]"
}

func leanPairs(l [][2]string) string {
	q := make([]string, len(l))
	for i := range l {
		q[i] = "(" + leanStr(l[i][0]) + ", " + leanStr(l[i][1]) + ")"
	}
	return "[" + strings.Join(q, ", ") + "]"
}

// c18Extract is shared by the facts provider and by the harness (which prints the schemas into the
// evidence and uses the struct field lists to check its reflective generators are complete).
type c18Facts struct {
	schemas map[string][][2]string
	fields  map[string][]string
	bodies  map[string][]string
}

func c18Extract(repo string) (*c18Facts, error) {
	res := &c18Facts{map[string][][2]string{}, map[string][]string{}, map[string][]string{}}
	for _, t := range []struct{ name, enc, dec string }{
		{"Process", "c2/task/v_process.go", "c2/task/process.go"},
		{"DLL", "c2/task/v_dll.go", "c2/task/dll.go"},
		{"Zombie", "c2/task/zombie.go", "c2/task/zombie.go"},
		{"Assembly", "c2/task/v_assembly.go", "c2/task/assembly.go"},
	} {
		e, err := c18Parse(repo, t.enc)
		if err != nil {
			return nil, err
		}
		d, err := c18Parse(repo, t.dec)
		if err != nil {
			return nil, err
		}
		res.schemas[t.name+"_marshal"] = e.schema(e.fn(t.name, "MarshalStream"))
		res.schemas[t.name+"_unmarshal"] = d.schema(d.fn(t.name, "UnmarshalStream"))
		res.fields[t.name] = d.structFields(t.name)
	}
	fl, err := c18Parse(repo, "cmd/filter/filter.go")
	if err != nil {
		return nil, err
	}
	sn, err := c18Parse(repo, "man/sentinel.go")
	if err != nil {
		return nil, err
	}
	res.fields["Filter"] = fl.structFields("Filter")
	res.fields["Sentinel"] = sn.structFields("Sentinel")
	res.fields["sentinelPath"] = sn.structFields("sentinelPath")
	for _, b := range []struct {
		key, recv, name string
		f               *c18File
	}{
		{"Filter_isEmpty", "Filter", "isEmpty", fl},
		{"Filter_MarshalStream", "Filter", "MarshalStream", fl},
		{"Filter_UnmarshalStream", "Filter", "UnmarshalStream", fl},
		{"Filter_unmarshalStream", "Filter", "unmarshalStream", fl},
		{"filter_UnmarshalStream", "", "UnmarshalStream", fl},
		{"Sentinel_MarshalStream", "Sentinel", "MarshalStream", sn},
		{"Sentinel_UnmarshalStream", "Sentinel", "UnmarshalStream", sn},
		{"Sentinel_Read", "Sentinel", "Read", sn},
		{"Sentinel_Write", "Sentinel", "Write", sn},
		{"Sentinel_read", "Sentinel", "read", sn},
		{"Sentinel_write", "Sentinel", "write", sn},
		{"sentinelPath_MarshalStream", "sentinelPath", "MarshalStream", sn},
		{"sentinelPath_UnmarshalStream", "sentinelPath", "UnmarshalStream", sn},
	} {
		fd := b.f.fn(b.recv, b.name)
		if fd == nil {
			res.bodies[b.key] = []string{"<missing function>"}
			continue
		}
		var out []string
		b.f.body(fd.Body.List, &out)
		res.bodies[b.key] = out
	}
	return res, nil
}

func init() {
	factProviders = append(factProviders, func(f *factSet, repo string) error {
		f.Nat("c18_sentPathDownload", uint64(man.VerifSentPathDownload))
		f.Nat("c18_sentPathZombie", uint64(man.VerifSentPathZombie))
		f.Nat("c18_filterEmpty", uint64(uint8(filter.Empty)))
		x, err := c18Extract(repo)
		if err != nil {
			return fmt.Errorf("c18 facts: %w", err)
		}
		for k, v := range x.schemas {
			f.Raw("c18_schema_"+k, "List (String × String)", leanPairs(v))
		}
		for k, v := range x.fields {
			f.Raw("c18_fields_"+k, "List String", leanStrListC18(v))
		}
		for k, v := range x.bodies {
			f.Raw("c18_body_"+k, "List String", leanStrListC18(v))
		}
		return nil
	})
}
