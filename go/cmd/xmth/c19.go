package main

import (
	"context"
	"errors"
	"fmt"
	"github.com/iDigitalFlame/xmt/c2/task"
	"io"
	"math"
	"net"
	"os"
	"path/filepath"
	"runtime"
	"sort"
	"strconv"
	"strings"
	"time"

	"github.com/PurpleSec/logx"
	"github.com/iDigitalFlame/xmt/c2"
	"github.com/iDigitalFlame/xmt/c2/cfg"
	"github.com/iDigitalFlame/xmt/data"
	"github.com/iDigitalFlame/xmt/device"
	"github.com/iDigitalFlame/xmt/util"
)

// ---- virtual environment: clock, PRNG words, connector, session log ---------------------------

// c19Env is the scripted world one real client Session runs in: a virtual clock (read by
// WorkHours.Work and the kill-date guards through the overlay rewrite of time.Now()), the raw
// 32-bit PRNG words behind util.FastRand (overlay rewrite in util/rand.go), an in-memory
// Connector, and the session log, which is where the chosen delays are observed ("Sleeping for",
// "WorkHours instructed us to wait").  Virtual time advances exactly by the reported delay.
type c19Env struct {
	now        time.Time
	draws      []uint32
	di         int
	otherDraws int
	// flags at the time of the last Connect call (listen's own shutdown() sets them all afterwards)
	lastClosing, lastShutdown bool
	script                    string // per connection attempt: 'f' Connect fails, 'e' exchange fails, 'o' exchange ok; afterwards 'f'
	ci                        int
	events                    []string
	sw                        []bool
	h                         *c2.VerifC19Session
	id                        device.ID
	reply                     []byte
	limit                     int // hard stop on the number of log-observed waits (runaway guard)
	waits                     int
	cancel                    context.CancelFunc
	// what the Profile reports (used by connectContextInner only)
	pSleep time.Duration
	pKill  *time.Time
	pWork  *cfg.WorkHours
	// observations
	sleeps   []time.Duration
	workWait []time.Duration
	conns    []c19ConnEv
}

type c19ConnEv struct {
	at       time.Time
	flag     bool // the session's shutdown flag was set when Connect was called
	shutdown bool // the first packet written on it was SvShutdown
	wrote    bool
	res      byte
}

func (e *c19Env) clock() time.Time { return e.now }
func (e *c19Env) rand() uint32 {
	// only the words drawn inside (*Session).wait are scripted (and counted); every other consumer
	// in package c2 (job ids, the re-key lottery in keyNextSync) gets a constant that keeps it on
	// its common path (no key rotation)
	if !c19InWait() {
		e.otherDraws++
		return ^uint32(0)
	}
	if len(e.draws) == 0 {
		return 0
	}
	v := e.draws[e.di%len(e.draws)]
	e.di++
	return v
}
func (e *c19Env) install() {
	cfg.VerifNow = e.clock
	util.VerifFastRand = e.rand
}
func c19Uninstall() {
	cfg.VerifNow = nil
	util.VerifFastRand = nil
}

// c19InWait reports whether (*Session).wait is on the call stack.
func c19InWait() bool {
	var pcs [24]uintptr
	n := runtime.Callers(3, pcs[:])
	fr := runtime.CallersFrames(pcs[:n])
	for {
		f, more := fr.Next()
		if strings.HasSuffix(f.Function, "c2.(*Session).wait") {
			return true
		}
		if !more {
			return false
		}
	}
}

// logx.Log
func (e *c19Env) SetLevel(_ logx.Level)        {}
func (e *c19Env) SetPrefix(string)             {}
func (e *c19Env) SetPrintLevel(_ logx.Level)   {}
func (e *c19Env) Print(...interface{})         {}
func (e *c19Env) Panic(...interface{})         {}
func (e *c19Env) Println(...interface{})       {}
func (e *c19Env) Panicln(...interface{})       {}
func (e *c19Env) Info(string, ...interface{})  {}
func (e *c19Env) Error(string, ...interface{}) {}
func (e *c19Env) Fatal(string, ...interface{}) {}
func (e *c19Env) Printf(string, ...interface{}) {
}
func (e *c19Env) Panicf(string, ...interface{})  {}
func (e *c19Env) Warning(string, ...interface{}) {}
func (e *c19Env) Trace(f string, a ...interface{}) {
	if strings.Contains(f, "Sleeping for") && len(a) == 2 {
		if d, ok := a[1].(time.Duration); ok {
			e.sleeps = append(e.sleeps, d)
			e.events = append(e.events, fmt.Sprintf("s%d", int64(d)))
			e.advance(d)
		}
	}
}
func (e *c19Env) Debug(f string, a ...interface{}) {
	if strings.Contains(f, "WorkHours instructed us to wait") && len(a) == 2 {
		if s, ok := a[1].(string); ok {
			d, err := time.ParseDuration(s)
			if err != nil {
				e.events = append(e.events, "w?"+s)
				return
			}
			e.workWait = append(e.workWait, d)
			e.events = append(e.events, fmt.Sprintf("w%d", int64(d)))
			e.advance(d)
		}
	}
}

// advance: the timer armed with d fires — virtual time moves by d and the pending select returns.
func (e *c19Env) advance(d time.Duration) {
	e.now = e.now.Add(d)
	e.waits++
	if e.limit > 0 && e.waits > e.limit && e.cancel != nil {
		e.cancel()
	}
	if e.h != nil {
		e.h.Wake()
	}
}

// cfg.Profile
func (e *c19Env) Jitter() int8 { return -1 }
func (e *c19Env) Switch(b bool) bool {
	e.sw = append(e.sw, b) // what listen reports to the selector before every connection attempt
	return false
}
func (e *c19Env) Sleep() time.Duration      { return e.pSleep }
func (e *c19Env) WorkHours() *cfg.WorkHours { return e.pWork }
func (e *c19Env) KillDate() (time.Time, bool) {
	if e.pKill == nil {
		return time.Time{}, false
	}
	return *e.pKill, true
}
func (e *c19Env) TrustedKey(data.PublicKey) bool                       { return true }
func (e *c19Env) Next() (string, cfg.Wrapper, cfg.Transform)           { return "verif:1", nil, nil }
func (e *c19Env) Listen(context.Context, string) (net.Listener, error) { return nil, errors.New("no") }
func (e *c19Env) Connect(_ context.Context, _ string) (net.Conn, error) {
	r := byte('f')
	if e.ci < len(e.script) {
		r = e.script[e.ci]
	}
	e.ci++
	sd := e.h != nil && e.h.ShutdownFlag()
	e.lastClosing, e.lastShutdown = e.h != nil && e.h.Closing(), sd
	e.conns = append(e.conns, c19ConnEv{at: e.now, res: r, flag: sd})
	tag := string(r)
	if sd {
		tag += "S"
	}
	e.events = append(e.events, fmt.Sprintf("c%d:%s", e.now.UnixNano(), tag))
	if r == 'f' {
		return nil, errors.New("scripted connect failure")
	}
	c := &c19Conn{e: e, idx: len(e.conns) - 1}
	if r == 'o' {
		c.rd = append([]byte(nil), e.reply...)
	}
	return c, nil
}

type c19Conn struct {
	e   *c19Env
	idx int
	rd  []byte
	wr  []byte
}

func (c *c19Conn) Read(b []byte) (int, error) {
	if len(c.rd) == 0 {
		return 0, io.EOF
	}
	n := copy(b, c.rd)
	c.rd = c.rd[n:]
	return n, nil
}
func (c *c19Conn) Write(b []byte) (int, error) { c.wr = append(c.wr, b...); return len(b), nil }
func (c *c19Conn) Close() error {
	ev := &c.e.conns[c.idx]
	if !ev.wrote {
		ev.wrote = true
		ev.shutdown = len(c.wr) > 0 && c2.VerifC19PacketID(c.wr) == c2.VerifC19SvShutdown
	}
	return nil
}
func (c *c19Conn) LocalAddr() net.Addr              { return c19Addr{} }
func (c *c19Conn) RemoteAddr() net.Addr             { return c19Addr{} }
func (c *c19Conn) SetDeadline(time.Time) error      { return nil }
func (c *c19Conn) SetReadDeadline(time.Time) error  { return nil }
func (c *c19Conn) SetWriteDeadline(time.Time) error { return nil }

type c19Addr struct{}

func (c19Addr) Network() string { return "verif" }
func (c19Addr) String() string  { return "verif:1" }

// ---- generators ----------------------------------------------------------------------------------

var (
	c19DayPool  = []int{0, 1, 2, 4, 8, 16, 32, 64, 3, 62, 65, 85, 42, 126, 127, 128, 129, 200, 254, 255}
	c19HourPool = []int{0, 0, 1, 8, 9, 12, 17, 22, 23, 23, 24, 25, 255}
	c19MinPool  = []int{0, 0, 1, 29, 30, 58, 59, 59, 60, 60, 61, 255}
	c19Zones    = []int{0, 0, 3600, -8 * 3600, 5*3600 + 1800, 14 * 3600, -12 * 3600, 5*3600 + 2700, -(9*3600 + 1800), 1}
	c19Dates    = [][3]int{{2024, 3, 3}, {2024, 2, 28}, {2024, 2, 29}, {2023, 12, 31}, {2024, 12, 28}, {1970, 1, 1}, {2038, 1, 17}, {2100, 2, 27}, {2025, 6, 30}}
)

func c19GenRule(r *Rng) cfg.WorkHours {
	var w cfg.WorkHours
	switch r.Intn(10) {
	case 0:
		w.Days = uint8(r.Intn(256))
	default:
		w.Days = uint8(c19DayPool[r.Intn(len(c19DayPool))])
	}
	hour := func() uint8 {
		if r.Chance(60) {
			return uint8(r.Intn(24))
		}
		return uint8(c19HourPool[r.Intn(len(c19HourPool))])
	}
	min := func() uint8 {
		if r.Chance(55) {
			return uint8(r.Intn(60))
		}
		return uint8(c19MinPool[r.Intn(len(c19MinPool))])
	}
	w.StartHour, w.StartMin, w.EndHour, w.EndMin = hour(), min(), hour(), min()
	switch r.Intn(12) {
	case 0:
		w.StartHour, w.StartMin = 0, 0
	case 1:
		w.EndHour, w.EndMin = 0, 0
	case 2:
		w.StartHour, w.StartMin, w.EndHour, w.EndMin = 0, 0, 0, 0
	case 3:
		w.EndHour, w.EndMin = w.StartHour, w.StartMin // start == end
	case 4, 5, 6:
		// make the end not earlier than the start (the class the property speaks about)
		if int(w.EndHour)*60+int(w.EndMin) < int(w.StartHour)*60+int(w.StartMin) {
			w.StartHour, w.EndHour = w.EndHour, w.StartHour
			w.StartMin, w.EndMin = w.EndMin, w.StartMin
		}
	}
	return w
}

func c19RuleTok(w *cfg.WorkHours, sep string) string {
	if w == nil {
		return "-"
	}
	return fmt.Sprintf("%d%s%d%s%d%s%d%s%d", w.Days, sep, w.StartHour, sep, w.StartMin, sep, w.EndHour, sep, w.EndMin)
}

func c19Zone(off int) *time.Location {
	if off == 0 {
		return time.UTC
	}
	return time.FixedZone("V", off)
}

// local midnight of the day of n
func c19Midnight(n time.Time) time.Time {
	y, m, d := n.Date()
	return time.Date(y, m, d, 0, 0, 0, 0, n.Location())
}

// boundary instants of one local day for a rule
func c19Instants(r *Rng, w cfg.WorkHours, day time.Time) []time.Time {
	mid := c19Midnight(day)
	s := mid.Add(time.Duration(w.StartHour)*time.Hour + time.Duration(w.StartMin)*time.Minute)
	e := mid.Add(time.Duration(w.EndHour)*time.Hour + time.Duration(w.EndMin)*time.Minute)
	out := []time.Time{mid, mid.Add(1), mid.Add(24*time.Hour - 1), mid.Add(time.Duration(r.U64() % uint64(24*time.Hour)))}
	for _, b := range []time.Time{s, e} {
		for _, d := range []time.Duration{-1, 0, 1} {
			t := b.Add(d)
			if !t.Before(mid) && t.Before(mid.Add(24*time.Hour)) {
				out = append(out, t)
			}
		}
	}
	out = append(out, mid.Add(time.Duration(r.Intn(1440))*time.Minute))
	return out
}

// ---- the property, evaluated directly (independent of the Lean model) -----------------------------

// c19Outside: is the local time n outside the configured days / start-end window?  `carry` selects
// the reading of a minute value of exactly 60 (not valid per Verify): carried into the hour (true)
// or treated like any other out-of-range value, i.e. the bound is ignored (false).  For rules that
// pass Verify both readings coincide.  ok=false: the rule's end is before its start (not covered).
func c19Outside(w cfg.WorkHours, n time.Time, carry bool) (outside, covered bool) {
	tod := time.Duration(n.Hour())*time.Hour + time.Duration(n.Minute())*time.Minute + time.Duration(n.Second())*time.Second + time.Duration(n.Nanosecond())
	maxMin := uint8(59)
	if carry {
		maxMin = 60
	}
	dayOK := w.Days == 0 || w.Days >= 127 || (w.Days>>uint(n.Weekday()))&1 == 1
	start, hasStart := time.Duration(0), false
	if !(w.StartHour == 0 && w.StartMin == 0) && w.StartHour <= 23 && w.StartMin <= maxMin {
		start, hasStart = time.Duration(w.StartHour)*time.Hour+time.Duration(w.StartMin)*time.Minute, true
	}
	_ = hasStart
	end, hasEnd := time.Duration(0), false
	if !(w.EndHour == 0 && w.EndMin == 0) && w.EndHour <= 23 && w.EndMin <= maxMin {
		end, hasEnd = time.Duration(w.EndHour)*time.Hour+time.Duration(w.EndMin)*time.Minute, true
	}
	if hasEnd && end < start {
		return false, false
	}
	return !dayOK || tod < start || (hasEnd && tod > end), true
}

func c19Valid(w cfg.WorkHours) bool {
	return w.StartHour <= 23 && w.EndHour <= 23 && w.StartMin <= 59 && w.EndMin <= 59
}

// c19CheckWork evaluates the work-hours clause on the real code at instant n.
func c19CheckWork(c *Ctx, w cfg.WorkHours, n time.Time, d time.Duration) {
	in := map[string]interface{}{"rule": c19RuleTok(&w, ","), "now": n.Format(time.RFC3339Nano), "weekday": n.Weekday().String(), "work": d.String()}
	if d < 0 {
		c.Fail("work-negative", "work:negative", "Work() returned a negative duration", in)
		return
	}
	if d > 24*time.Hour {
		c.Fail("work-too-long", "work:longer-than-a-day", "Work() returned more than a day", in)
	}
	oa, ca := c19Outside(w, n, true)
	ob, cb := c19Outside(w, n, false)
	if !ca || !cb {
		// the end is before the start (under one of the readings of minute 60): not covered
		c.Count("work:end-before-start")
		return
	}
	okA := (d > 0) == oa
	okB := (d > 0) == ob
	if !okA && !okB {
		what := "go"
		if d > 0 {
			what = "wait"
		}
		where := "inside"
		if (ca && oa) || (!ca && ob) {
			where = "outside"
		}
		cls := "valid"
		if !c19Valid(w) {
			cls = "out-of-range"
		}
		c.Fail("work-window", "work:"+what+"-while-"+where+":"+cls, fmt.Sprintf("Work() says %s (%s) but the local time is %s the configured window", what, d, where), in)
	}
	if d > 0 {
		c.Count("work:wait")
	} else {
		c.Count("work:go")
	}
}

func c19Verr(err error) string {
	if err == nil {
		return "ok"
	}
	for _, k := range []string{"EndMin", "EndHour", "StartMin", "StartHour"} {
		if strings.Contains(err.Error(), k) {
			return k
		}
	}
	return "err:" + err.Error()
}

func b01(b bool) string {
	if b {
		return "1"
	}
	return "0"
}

// c19WorkAt sets the virtual clock, calls the real Work(), emits the op (when emit) and runs the oracle.
func c19WorkAt(c *Ctx, e *c19Env, w cfg.WorkHours, n time.Time, emit bool) {
	e.now = n
	var d time.Duration
	func() {
		defer func() {
			if x := recover(); x != nil {
				c.Fail("panic", "panic:WorkHours.Work", fmt.Sprint(x), map[string]interface{}{"rule": c19RuleTok(&w, ","), "now": n.Format(time.RFC3339Nano)})
				d = -1
			}
		}()
		d = w.Work()
	}()
	if emit {
		ns := n.Sub(c19Midnight(n))
		c.Op(fmt.Sprintf("work %s %d %d", c19RuleTok(&w, " "), int(n.Weekday()), int64(ns)), fmt.Sprint(int64(d)))
		_, off := n.Zone()
		c.Op(fmt.Sprintf("inst %d %d", int64(off)*1e9, n.UnixNano()), fmt.Sprintf("%d %d", int(n.Weekday()), int64(ns)))
	}
	c19CheckWork(c, w, n, d)
	if w.Empty() && d != 0 {
		c.Fail("empty-waits", "work:empty-rule-waits", "an Empty() rule made Work() wait", map[string]interface{}{"rule": c19RuleTok(&w, ","), "now": n.Format(time.RFC3339Nano)})
	}
}

// ---- jitter / wait ---------------------------------------------------------------------------------

const c19MaxI64 = int64(^uint64(0) >> 1)

var c19SleepPool = []int64{
	int64(time.Millisecond), int64(time.Millisecond) + 1, 2*int64(time.Millisecond) - 1, 2 * int64(time.Millisecond), 3 * int64(time.Millisecond),
	int64(time.Second), int64(time.Minute), int64(time.Hour), 24 * int64(time.Hour), 999999999, 1000000001,
	1 << 62, 1<<62 - 1, 1<<62 + 1, 1<<62 + 500000, 1<<62 + 1000000, 4611686018428775808, c19MaxI64, c19MaxI64 - 1, c19MaxI64 - 999999, 1 << 61, 3 << 61,
	1, 2, 999999, 500000, 0, -1, -1000000,
}

// raw word x with FastRandN(n)(x) == v  (smallest such x): x = ceil(v * 2^32 / n)
func c19RawFor(v, n uint64) uint32 {
	return uint32((v<<32 + n - 1) / n)
}

// draws for wait(): [r1] hi lo sign.  dTarget is the wanted Int63n result (must be < sleep/ms).
func c19Draws(jitter uint8, hit bool, dTarget uint64, neg bool) []uint32 {
	var q []uint32
	if jitter != 100 {
		if hit && jitter > 0 {
			q = append(q, c19RawFor(uint64(jitter)-1, 100))
		} else {
			q = append(q, c19RawFor(uint64(jitter)%100, 100)) // FastRandN(100) == jitter → not below jitter
		}
	}
	q = append(q, uint32(dTarget>>32), uint32(dTarget))
	if neg {
		q = append(q, 1<<31)
	} else {
		q = append(q, 0)
	}
	return q
}

func c19DrawTok(q []uint32) string {
	if len(q) == 0 {
		return "0"
	}
	s := make([]string, len(q))
	for i := range q {
		s[i] = fmt.Sprint(q[i])
	}
	return strings.Join(s, ",")
}

var c19ID = func() device.ID {
	var id device.ID
	for i := range id {
		id[i] = byte(i*7 + 1)
	}
	return id
}()

// c19Delay runs the real (*Session).wait once with the given sleep/jitter/draws (no kill date, no
// work hours) and returns the model-comparable answer.
func c19Delay(c *Ctx, sleep int64, jitter uint8, q []uint32) string {
	e := &c19Env{now: time.Unix(1700000000, 0), draws: q, id: c19ID}
	e.install()
	in := map[string]interface{}{"sleep_ns": sleep, "jitter": jitter, "draws": q}
	e.h = c2.VerifC19New(context.Background(), e, e, c19ID, time.Duration(sleep), jitter, time.Time{}, nil)
	e.h.Wake()
	pan := ""
	func() {
		defer func() {
			if x := recover(); x != nil {
				pan = fmt.Sprint(x)
			}
		}()
		e.h.Wait()
	}()
	e.h.StopTick()
	ans := ""
	switch {
	case pan != "":
		ans = fmt.Sprintf("panic %d", e.di)
		c.Fail("panic", "panic:Session.wait:"+c19PanicClass(pan), "wait() panicked: "+pan, in)
	case len(e.sleeps) == 0:
		ans = fmt.Sprintf("none %d", e.di)
		if sleep >= 1 {
			c.Fail("delay-missing", "delay:none", "wait() did not sleep although sleep >= 1", in)
		}
	default:
		w := int64(e.sleeps[0])
		ans = fmt.Sprintf("sleep %d %d", w, e.di)
		in["delay_ns"] = w
		switch {
		case len(e.sleeps) != 1:
			c.Fail("delay-count", "delay:multiple", "wait() slept more than once", in)
		case w <= 0:
			c.Fail("delay-nonpositive", "delay:non-positive", "the chosen delay is not positive", in)
		case uint64(w) > 2*uint64(sleep):
			c.Fail("delay-range", "delay:more-than-one-sleep-off", "the chosen delay is further than one sleep from the configured sleep", in)
		case (jitter == 0 || jitter > 100) && (w != sleep || e.di != 0):
			c.Fail("delay-nojitter", "delay:jitter-off-differs", "jitter is off but the delay differs from the sleep (or the PRNG was consulted)", in)
		case sleep <= int64(time.Millisecond) && w != sleep:
			c.Fail("delay-small", "delay:small-sleep-differs", "sleep <= 1ms but the delay differs from the sleep", in)
		}
		if w != sleep {
			c.Count("delay:jittered")
		} else {
			c.Count("delay:plain")
		}
	}
	return ans
}

func c19PanicClass(p string) string {
	switch {
	case strings.Contains(p, "non-positive interval"):
		return "non-positive-interval"
	case strings.Contains(p, "divide by zero"):
		return "divide-by-zero"
	case strings.Contains(p, "nil pointer"):
		return "nil-pointer"
	}
	return "other"
}

// ---- the client loop on virtual time ----------------------------------------------------------------

type c19LoopCase struct {
	sleep  int64
	jitter uint8
	kill   *int64 // unix ns
	work   *cfg.WorkHours
	off    int
	now    int64
	draws  []uint32
	script string
}

func (l *c19LoopCase) killTok() string {
	if l.kill == nil {
		return "-"
	}
	return fmt.Sprint(*l.kill)
}
func (l *c19LoopCase) input() map[string]interface{} {
	return map[string]interface{}{"sleep_ns": l.sleep, "jitter": l.jitter, "kill_unix_ns": l.killTok(), "work": c19RuleTok(l.work, ","),
		"zone_offset_s": l.off, "start_unix_ns": l.now, "draws": l.draws, "connector_script": l.script}
}
func (l *c19LoopCase) env() *c19Env {
	e := &c19Env{now: time.Unix(0, l.now).In(c19Zone(l.off)), draws: l.draws, script: l.script, id: c19ID, reply: c2.VerifC19Reply(c19ID), limit: 200}
	return e
}
func (l *c19LoopCase) killTime() time.Time {
	if l.kill == nil {
		return time.Time{}
	}
	return time.Unix(0, *l.kill)
}

func (e *c19Env) state(loop bool) string {
	tr := "."
	if len(e.events) > 0 {
		tr = strings.Join(e.events, " ")
	}
	cl, sd := e.h.Closing(), e.h.ShutdownFlag()
	if loop {
		cl, sd = e.lastClosing, e.lastShutdown
	}
	sw := ""
	for _, b := range e.sw {
		sw += b01(b)
	}
	return fmt.Sprintf("%s | closing=%s shutdown=%s errors=%d draws=%d now=%d sw=%s", tr, b01(cl), b01(sd), e.h.Errors(), e.di, e.now.UnixNano(), sw)
}

// oracle over the observations of one run (wait or loop)
func c19CheckRun(c *Ctx, l *c19LoopCase, e *c19Env, what string) {
	in := l.input()
	in["trace"] = strings.Join(e.events, " ")
	for _, d := range e.sleeps {
		if d <= 0 || uint64(d) > 2*uint64(l.sleep) {
			c.Fail("delay-range", "delay:loop-out-of-range", fmt.Sprintf("%s: delay %d not within (0, 2*sleep]", what, int64(d)), in)
		}
		if (l.jitter == 0 || l.jitter > 100) && int64(d) != l.sleep {
			c.Fail("delay-nojitter", "delay:jitter-off-differs", what+": jitter off but delay differs", in)
		}
	}
	for _, d := range e.workWait {
		if d <= 0 || d > 24*time.Hour {
			c.Fail("work-range", "work:loop-wait-out-of-range", fmt.Sprintf("%s: work-hours wait %s not within (0, 24h]", what, d), in)
		}
	}
	nShut := 0
	for i, cv := range e.conns {
		if cv.flag {
			nShut++
			if i != len(e.conns)-1 {
				c.Fail("shutdown-not-last", "kill:shutdown-connection-not-last", what+": a connection was opened after the shutdown notification", in)
			}
		}
		if cv.wrote && cv.flag != cv.shutdown {
			c.Fail("shutdown-packet", "kill:shutdown-flag-packet-mismatch", what+": shutdown flag and first packet on the connection disagree", in)
		}
		if l.kill != nil && cv.at.UnixNano() > *l.kill {
			c.Count("kill:connect-after-kill")
			if cv.flag {
				c.Fail("connect-after-kill", "kill:connect-after-kill:shutdown-notify",
					fmt.Sprintf("%s: connection opened %s after the kill date to deliver the shutdown notification", what, time.Duration(cv.at.UnixNano()-*l.kill)), in)
			} else {
				c.Fail("connect-after-kill", "kill:connect-after-kill:regular",
					fmt.Sprintf("%s: regular connection opened %s after the kill date", what, time.Duration(cv.at.UnixNano()-*l.kill)), in)
			}
		}
	}
	if nShut > 1 {
		c.Fail("shutdown-twice", "kill:shutdown-connection-twice", what+": more than one shutdown connection", in)
	}
	// the selector is told the truth: Switch(e) before attempt k+1 reports a failure iff attempt k
	// failed (connect error or failed exchange); the first call reports none
	for k, b := range e.sw {
		want := k > 0 && k-1 < len(e.conns) && e.conns[k-1].res != 'o'
		if b != want {
			c.Fail("switch-report", "switch:failure-misreported:Session.listen",
				fmt.Sprintf("%s: Switch(%v) before connection attempt %d, but the previous attempt %s", what, b, k+1, map[bool]string{true: "failed", false: "succeeded (or there was none)"}[want]), in)
			break
		}
	}
}

func c19Loop(c *Ctx, l *c19LoopCase) {
	e := l.env()
	e.install()
	x, cancel := context.WithCancel(context.Background())
	e.cancel = cancel
	e.h = c2.VerifC19New(x, e, e, c19ID, time.Duration(l.sleep), l.jitter, l.killTime(), l.work)
	if (l.now/1000)%4 == 1 {
		// a Profile that says nothing about sleep, jitter, kill date or work hours is swapped in at the
		// first turn (a MvProfile order moving the client to another host): every setting stays
		e.h.Swap(e)
		c.Count("loop:profile-swap")
	}
	pan := ""
	func() {
		defer func() {
			if p := recover(); p != nil {
				pan = fmt.Sprint(p)
			}
		}()
		e.h.Listen()
	}()
	e.h.StopTick()
	cancel()
	if pan != "" {
		c.Fail("panic", "panic:Session.listen:"+c19PanicClass(pan), "listen() panicked: "+pan, l.input())
		e.events = append(e.events, "panic")
	}
	if e.waits > e.limit {
		c.Fail("runaway", "loop:runaway", "the client loop did not end within the wait budget", l.input())
		return
	}
	c.Op(fmt.Sprintf("loop %d %d %s %s %d %d %s %s 64", l.sleep, l.jitter, l.killTok(), c19RuleTok(l.work, ","), int64(l.off)*1e9, l.now, c19DrawTok(l.draws), c19ScriptTok(l.script)), e.state(true))
	c19CheckRun(c, l, e, "listen")
	nc := len(e.conns)
	if nc > 12 {
		nc = 12
	}
	c.Count(fmt.Sprintf("loop:conns=%d", nc))
}

func c19ScriptTok(s string) string {
	if s == "" {
		return "-"
	}
	return s
}

// one call of the real wait() (work hours + kill date + delay) on virtual time
func c19Wait(c *Ctx, l *c19LoopCase) {
	e := l.env()
	e.install()
	x, cancel := context.WithCancel(context.Background())
	defer cancel()
	e.cancel = cancel
	e.h = c2.VerifC19New(x, e, e, c19ID, time.Duration(l.sleep), l.jitter, l.killTime(), l.work)
	entry := e.now
	pan := ""
	func() {
		defer func() {
			if p := recover(); p != nil {
				pan = fmt.Sprint(p)
			}
		}()
		e.h.Wait()
	}()
	e.h.StopTick()
	if pan != "" {
		c.Fail("panic", "panic:Session.wait:"+c19PanicClass(pan), "wait() panicked: "+pan, l.input())
		e.events = append(e.events, "panic")
	}
	if e.waits > e.limit {
		c.Fail("runaway", "loop:runaway-wait", "wait() did not return within the wait budget", l.input())
		return
	}
	c.Op(fmt.Sprintf("wait %d %d %s %s %d %d %s", l.sleep, l.jitter, l.killTok(), c19RuleTok(l.work, ","), int64(l.off)*1e9, l.now, c19DrawTok(l.draws)), e.state(false))
	c19CheckRun(c, l, e, "wait")
	in := l.input()
	in["trace"] = strings.Join(e.events, " ")
	if l.kill != nil {
		// the gate itself: after wait() returns, "go on and connect" (not closing) is only allowed
		// while the kill date has not passed
		if !e.h.Closing() && e.now.UnixNano() > *l.kill {
			c.Fail("kill-gate", "kill:wait-returns-open-after-kill", "wait() returned without the closing flag although the kill date has passed", in)
		}
		if e.h.Closing() && e.now.UnixNano() <= *l.kill {
			c.Fail("kill-gate", "kill:wait-closes-before-kill", "wait() set the closing flag although the kill date has not passed", in)
		}
		if entry.UnixNano() > *l.kill && l.work == nil && len(e.sleeps) > 0 {
			c.Fail("kill-gate", "kill:sleeps-after-kill", "wait() slept although the kill date had already passed on entry", in)
		}
	}
	if e.h.Closing() {
		c.Count("wait:closing")
	} else {
		c.Count("wait:open")
	}
}

// first connection: the real connectContextInner with a failing Connector
func c19First(c *Ctx, l *c19LoopCase) {
	e := l.env()
	e.pSleep = time.Duration(l.sleep)
	if l.kill != nil {
		k := l.killTime()
		e.pKill = &k
	}
	e.pWork = l.work
	e.script = "f"
	e.install()
	cfg.VerifSleep = func(d time.Duration) {
		e.events = append(e.events, fmt.Sprintf("w%d", int64(d)))
		e.workWait = append(e.workWait, d)
		e.now = e.now.Add(d)
	}
	defer func() { cfg.VerifSleep = nil }()
	pan := ""
	var err error
	func() {
		defer func() {
			if p := recover(); p != nil {
				pan = fmt.Sprint(p)
			}
		}()
		_, err = c2.VerifC19Connect(context.Background(), e, e)
	}()
	in := l.input()
	if pan != "" {
		c.Fail("panic", "panic:connectContextInner", pan, in)
		return
	}
	ans := "killed"
	if len(e.conns) > 0 {
		ans = fmt.Sprintf("connect %d", e.conns[0].at.UnixNano())
	} else if err == nil || !strings.Contains(err.Error(), "killdate") {
		ans = "noconnect:" + fmt.Sprint(err)
	}
	c.Op(fmt.Sprintf("first %s %s %d %d", l.killTok(), c19RuleTok(l.work, ","), int64(l.off)*1e9, l.now), ans)
	if l.kill != nil {
		for _, cv := range e.conns {
			if cv.at.UnixNano() > *l.kill {
				c.Fail("connect-after-kill", "kill:first-connect-after-kill", "connectContextInner opened a connection after the kill date", in)
			}
		}
		if len(e.conns) == 0 && e.now.UnixNano() <= *l.kill {
			c.Fail("kill-gate", "kill:first-connect-refused-before-kill", "connectContextInner refused to connect although the kill date has not passed", in)
		}
	}
	if len(e.conns) > 0 {
		c.Count("first:connect")
	} else {
		c.Count("first:killed")
	}
}

func c19GenLoop(r *Rng) *c19LoopCase {
	l := &c19LoopCase{}
	switch r.Intn(6) {
	case 0:
		l.sleep = c19SleepPool[r.Intn(9)]
	case 1:
		l.sleep = int64(time.Second) * int64(1+r.Intn(7200))
	default:
		l.sleep = int64(time.Millisecond) * int64(1+r.Intn(600000))
	}
	l.jitter = []uint8{0, 0, 5, 10, 50, 99, 100, 100, 101, 255}[r.Intn(10)]
	l.off = c19Zones[r.Intn(len(c19Zones))]
	dt := c19Dates[r.Intn(len(c19Dates))]
	start := time.Date(dt[0], time.Month(dt[1]), dt[2]+r.Intn(7), 0, 0, 0, 0, c19Zone(l.off)).Add(time.Duration(r.U64() % uint64(24*time.Hour)))
	l.now = start.UnixNano()
	if r.Chance(85) {
		// kill date around the next few sleeps (second resolution mostly, as time.Unix(v, 0) yields)
		span := 6 * l.sleep
		k := l.now - l.sleep + int64(r.U64()%uint64(span+l.sleep))
		switch r.Intn(5) {
		case 0:
			k = l.now + int64(1+r.Intn(5))*l.sleep // exactly on a (jitter-free) wake-up
		case 1:
			k = l.now + int64(1+r.Intn(5))*l.sleep - 1
		case 2:
			k = l.now + int64(1+r.Intn(5))*l.sleep + 1
		}
		if r.Chance(50) {
			k -= k % int64(time.Second)
		}
		l.kill = &k
	}
	if r.Chance(35) {
		w := c19GenRule(r)
		if r.Chance(60) { // permissive day masks so that the loop mostly runs
			w.Days = []uint8{0, 127, 255, 62, 65}[r.Intn(5)]
		}
		if w.StartHour == 23 && w.StartMin == 60 {
			// 23:60 is read as 24:00: a window that never opens, the client waits day after day
			// (covered by the rule-level groups; here it would only exhaust the wait budget)
			w.StartMin = 59
		}
		l.work = &w
	}
	n := 1 + r.Intn(4)
	for i := 0; i < n; i++ {
		l.draws = append(l.draws, uint32(r.U64()))
	}
	if r.Chance(30) {
		l.draws = append(l.draws, 0, 1<<31, ^uint32(0))
	}
	sl := r.Intn(13)
	var sb strings.Builder
	for i := 0; i < sl; i++ {
		sb.WriteByte("ooooooeef"[r.Intn(9)])
	}
	l.script = sb.String()
	return l
}

// ---- corpus: witnesses of past failures, always run first -------------------------------------------

func c19Corpus(c *Ctx) {
	files, _ := filepath.Glob("../corpus/C19/*.ops")
	sort.Strings(files)
	for _, f := range files {
		b, err := os.ReadFile(f)
		if err != nil {
			continue
		}
		for _, line := range strings.Split(string(b), "\n") {
			line = strings.TrimSpace(line)
			if line == "" || strings.HasPrefix(line, "#") {
				continue
			}
			c.Cases("corpus:"+line, 1, func(_ *Rng, _ int) {
				if !c19RunLine(c, strings.Fields(line)) {
					c.Fail("corpus", "corpus:unparsable", "cannot parse corpus line", line)
				}
				c.Eval(true, "corpus:"+line)
				c.Count("corpus")
			})
		}
	}
}

func c19ParseDraws(s string) ([]uint32, bool) {
	var q []uint32
	for _, t := range strings.Split(s, ",") {
		v, err := strconv.ParseUint(t, 10, 32)
		if err != nil {
			return nil, false
		}
		q = append(q, uint32(v))
	}
	return q, true
}

func c19ParseRule(s string) (*cfg.WorkHours, bool) {
	if s == "-" {
		return nil, true
	}
	p := strings.Split(s, ",")
	if len(p) != 5 {
		return nil, false
	}
	var v [5]uint8
	for i := range p {
		x, err := strconv.ParseUint(p[i], 10, 8)
		if err != nil {
			return nil, false
		}
		v[i] = uint8(x)
	}
	return &cfg.WorkHours{Days: v[0], StartHour: v[1], StartMin: v[2], EndHour: v[3], EndMin: v[4]}, true
}

// c19RunLine replays one op line (`delay …`, `loop …`, `wait …`, `work …`) on the real code.
func c19RunLine(c *Ctx, f []string) bool {
	if len(f) == 0 {
		return false
	}
	switch {
	case f[0] == "delay" && len(f) == 4:
		s, e1 := strconv.ParseInt(f[1], 10, 64)
		j, e2 := strconv.ParseUint(f[2], 10, 8)
		q, ok := c19ParseDraws(f[3])
		if e1 != nil || e2 != nil || !ok {
			return false
		}
		c.Op(strings.Join(f, " "), c19Delay(c, s, uint8(j), q))
		return true
	case (f[0] == "loop" && len(f) == 10) || (f[0] == "wait" && len(f) == 8):
		l := &c19LoopCase{}
		var err error
		if l.sleep, err = strconv.ParseInt(f[1], 10, 64); err != nil {
			return false
		}
		j, err := strconv.ParseUint(f[2], 10, 8)
		if err != nil {
			return false
		}
		l.jitter = uint8(j)
		if f[3] != "-" {
			k, err := strconv.ParseInt(f[3], 10, 64)
			if err != nil {
				return false
			}
			l.kill = &k
		}
		var ok bool
		if l.work, ok = c19ParseRule(f[4]); !ok {
			return false
		}
		off, err := strconv.ParseInt(f[5], 10, 64)
		if err != nil {
			return false
		}
		l.off = int(off / 1e9)
		if l.now, err = strconv.ParseInt(f[6], 10, 64); err != nil {
			return false
		}
		if l.draws, ok = c19ParseDraws(f[7]); !ok {
			return false
		}
		if f[0] == "wait" {
			c19Wait(c, l)
			return true
		}
		if f[8] != "-" {
			l.script = f[8]
		}
		c19Loop(c, l)
		return true
	case f[0] == "first" && len(f) == 5:
		l := &c19LoopCase{sleep: int64(time.Second)}
		if f[1] != "-" {
			k, err := strconv.ParseInt(f[1], 10, 64)
			if err != nil {
				return false
			}
			l.kill = &k
		}
		var ok bool
		if l.work, ok = c19ParseRule(f[2]); !ok {
			return false
		}
		off, e1 := strconv.ParseInt(f[3], 10, 64)
		now, e2 := strconv.ParseInt(f[4], 10, 64)
		if e1 != nil || e2 != nil {
			return false
		}
		l.off, l.now = int(off/1e9), now
		c19First(c, l)
		return true
	case f[0] == "work" && len(f) == 8:
		w, ok := c19ParseRule(strings.Join(f[1:6], ","))
		wd, e1 := strconv.Atoi(f[6])
		ns, e2 := strconv.ParseInt(f[7], 10, 64)
		if !ok || e1 != nil || e2 != nil || wd < 0 || wd > 6 {
			return false
		}
		e := &c19Env{id: c19ID}
		e.install()
		// 2024-03-03 is a Sunday
		c19WorkAt(c, e, *w, time.Date(2024, 3, 3+wd, 0, 0, 0, 0, time.UTC).Add(time.Duration(ns)), true)
		return true
	}
	return false
}

// ---- entry point --------------------------------------------------------------------------------------

func runC19(c *Ctx) {
	defer c19Uninstall()
	c19Corpus(c)
	c19Delivered(c) // settings -> Config (-> JSON -> Config) -> Profile: the configured rule / kill date are the delivered ones (c19_s3.go)

	// A. work-hours rule x instants (boundaries of every day of a week, several zones / dates)
	c.Cases("work", c.N(700, 9000), func(r *Rng, i int) {
		w := c19GenRule(r)
		e := &c19Env{id: c19ID}
		e.install()
		c.Op("verify "+c19RuleTok(&w, " "), c19Verr(w.Verify())+" empty="+b01(w.Empty()))
		if w.Empty() {
			c.Count("rule:empty")
		}
		if !c19Valid(w) {
			c.Count("rule:out-of-range")
		} else {
			c.Count("rule:valid")
		}
		off := c19Zones[r.Intn(len(c19Zones))]
		dt := c19Dates[r.Intn(len(c19Dates))]
		loc := c19Zone(off)
		days := 7
		if !c.Thorough() {
			days = 3
		}
		first := r.Intn(7)
		for k := 0; k < days; k++ {
			day := time.Date(dt[0], time.Month(dt[1]), dt[2]+first+k, 12, 0, 0, 0, loc)
			for _, n := range c19Instants(r, w, day) {
				c19WorkAt(c, e, w, n, true)
			}
		}
		// an empty rule never waits; Verify accepts exactly the in-range rules
		if (w.Verify() == nil) != c19Valid(w) {
			c.Fail("verify", "verify:range", "Verify() does not accept exactly the in-range rules", c19RuleTok(&w, ","))
		}
		c.Eval(!w.Empty(), "work:"+c19RuleTok(&w, ","))
	})

	// B. all 256 day masks x edge tuples x one week on a coarse grid; oracle on every instant, model
	// comparison on a sample (thorough: 1-minute grid)
	c.Cases("grid", c.N(24, 160), func(r *Rng, i int) {
		w := c19GenRule(r)
		e := &c19Env{id: c19ID}
		e.install()
		stepMin := 1
		if !c.Thorough() {
			stepMin = 7
		}
		loc := c19Zone(c19Zones[r.Intn(len(c19Zones))])
		base := time.Date(2024, 3, 3, 0, 0, 0, 0, loc)
		masks := []int{int(w.Days)}
		if i%4 == 0 {
			masks = masks[:0]
			for m := 0; m < 256; m++ {
				masks = append(masks, m)
			}
			stepMin *= 30
		}
		for _, m := range masks {
			w.Days = uint8(m)
			k := 0
			for t := 0; t < 7*1440; t += stepMin {
				c19WorkAt(c, e, w, base.Add(time.Duration(t)*time.Minute), k%53 == 0)
				k++
			}
		}
		c.Eval(true, fmt.Sprintf("grid:%d:%s", len(masks), c19RuleTok(&w, ",")))
	})

	// C. the jittered delay: sleep pool x jitter x scripted draws (directed at the interval ends and
	// at the int64 boundary)
	c.Cases("delay", c.N(4000, 60000), func(r *Rng, i int) {
		var sleep int64
		switch r.Intn(5) {
		case 0, 1:
			sleep = c19SleepPool[r.Intn(len(c19SleepPool))]
		case 2:
			sleep = int64(r.U64() >> 1)
			if sleep == 0 {
				sleep = 1
			}
		case 3:
			sleep = int64(time.Millisecond) * int64(1+r.Intn(100000))
		default:
			sleep = 1 + int64(r.U64()%uint64(10*time.Second))
		}
		jitter := []uint8{0, 1, 2, 10, 50, 99, 100, 100, 100, 101, 127, 128, 255, uint8(r.Intn(256))}[r.Intn(14)]
		if sleep < 1 {
			// outside the property's domain (wait returns without sleeping); model comparison only
			c.Op(fmt.Sprintf("delay %d %d 7,7,7,7", sleep, jitter), c19Delay(c, sleep, jitter, []uint32{7, 7, 7, 7}))
			c.Eval(false, "")
			c.Count("sleep:non-positive")
			return
		}
		n := uint64(sleep) / uint64(time.Millisecond)
		var q []uint32
		if n == 0 || r.Chance(25) {
			for k := 0; k < 4; k++ {
				q = append(q, uint32(r.U64()))
			}
		} else {
			var d uint64
			switch r.Intn(7) {
			case 0:
				d = 0
			case 1:
				d = n - 1
			case 2:
				d = n / 2
			case 3, 4:
				// aim sleep + d*ms at the int64 boundary: 2^63 - sleep over ms, rounded both ways
				gap := (uint64(1)<<63 - uint64(sleep)) / uint64(time.Millisecond)
				d = gap + uint64(r.Intn(3)) - 1
				if d >= n {
					d = n - 1
				}
			default:
				d = r.U64() % n
			}
			q = c19Draws(jitter, r.Chance(80), d, r.Chance(40))
		}
		c.Op(fmt.Sprintf("delay %d %d %s", sleep, jitter, c19DrawTok(q)), c19Delay(c, sleep, jitter, q))
		c.Eval(sleep > int64(time.Millisecond) && jitter > 0 && jitter <= 100, fmt.Sprintf("delay:%d:%d:%v", sleep, jitter, q))
		switch {
		case jitter == 0 || jitter > 100:
			c.Count("jitter:off")
		case jitter == 100:
			c.Count("jitter:always")
		default:
			c.Count("jitter:sometimes")
		}
	})

	// D. one wait(): work hours, kill date before / inside / after the sleep
	c.Cases("wait", c.N(1500, 20000), func(r *Rng, i int) {
		l := c19GenLoop(r)
		c19Wait(c, l)
		c.Eval(l.kill != nil || l.work != nil, fmt.Sprintf("wait:%v", l.input()))
	})

	// E. the whole client loop against an in-memory Connector: no connection after the kill date
	c.Cases("loop", c.N(1200, 15000), func(r *Rng, i int) {
		l := c19GenLoop(r)
		c19Loop(c, l)
		c.Eval(l.kill != nil, fmt.Sprintf("loop:%v", l.input()))
	})

	// E2. a sleep ordered by the server (MvTime packet, client handler muxHandleInternal) and the delay
	// chosen afterwards: a non-positive ordered sleep leaves the setting as it was; the delay of the next
	// wait() is positive and within the sleep in force plus or minus one sleep
	c.Cases("ordered", c.N(400, 5000), func(r *Rng, i int) {
		l := &c19LoopCase{sleep: int64(time.Millisecond) * int64(1+r.Intn(600000)), now: 1709500000000000000 + int64(r.Intn(1000000))*1000000}
		l.jitter = []uint8{0, 0, 10, 50, 100}[r.Intn(5)]
		for k := 0; k < 6; k++ {
			l.draws = append(l.draws, uint32(r.U64()))
		}
		e := l.env()
		e.install()
		defer c19Uninstall()
		x, cancel := context.WithCancel(context.Background())
		defer cancel()
		e.cancel = cancel
		e.h = c2.VerifC19New(x, e, e, c19ID, time.Duration(l.sleep), l.jitter, time.Time{}, nil)
		defer e.h.StopTick()
		d := []int64{-1, -5000000000, 0, math.MinInt64, int64(time.Millisecond) * int64(1+r.Intn(600000)), int64(time.Millisecond) * int64(1+r.Intn(600000)), 1}[r.Intn(7)]
		j := []int{-1, -1, 0, 25, 100}[r.Intn(5)]
		in := map[string]interface{}{"sleep_ns": l.sleep, "jitter": l.jitter, "ordered_sleep_ns": d, "ordered_jitter": j}
		if err := e.h.Order(task.Duration(time.Duration(d), j)); err != nil {
			c.Fail("order", "order:handler-error", "the MvTime handler failed: "+err.Error(), in)
			return
		}
		eff := l.sleep
		if d > 0 {
			eff = d
		}
		if int64(e.h.Sleep()) != eff {
			c.Fail("order", "order:sleep-setting", fmt.Sprintf("sleep was %d ns, %d ns ordered: the client now has %d ns (a non-positive order leaves the sleep unchanged)", l.sleep, d, int64(e.h.Sleep())), in)
		}
		e.h.Wait()
		switch {
		case len(e.sleeps) != 1:
			c.Fail("delay-range", "order:no-delay", fmt.Sprintf("after the order the client chose %d delays in one wait(), expected one", len(e.sleeps)), in)
		case e.sleeps[0] <= 0 || uint64(e.sleeps[0]) > 2*uint64(eff):
			c.Fail("delay-range", "order:delay-out-of-range", fmt.Sprintf("delay %d ns with a sleep of %d ns in force", int64(e.sleeps[0]), eff), in)
		}
		c.Count(fmt.Sprintf("ordered:d%+d", c19Sign(d)))
		c.Eval(true, fmt.Sprint("ordered", l.sleep, d, j))
	})

	// E2. a work-hours rule that reaches the client over the wire (the MvTime order, handler
	// muxHandleInternal -> WorkHours.UnmarshalStream) or through the local setter SetWorkHours: the rule
	// in force afterwards is the rule ordered, field by field, and it decides the way the ordered rule
	// decides; a rule the setter rejects (Verify error) leaves the rule in force untouched.
	c.Cases("ordered-work", c.N(500, 6000), func(r *Rng, i int) {
		l := &c19LoopCase{sleep: int64(time.Second), now: 1709500000000000000 + int64(r.Intn(1000000))*1000000}
		e := l.env()
		e.install()
		defer c19Uninstall()
		x, cancel := context.WithCancel(context.Background())
		defer cancel()
		e.cancel = cancel
		var w0 *cfg.WorkHours
		if r.Chance(60) {
			v := c19GenRule(r)
			for !c19Valid(v) {
				v = c19GenRule(r)
			}
			w0 = &v
		}
		e.h = c2.VerifC19New(x, e, e, c19ID, time.Duration(l.sleep), 0, time.Time{}, w0)
		defer e.h.StopTick()
		w := c19GenRule(r)
		same := func(a, b *cfg.WorkHours) bool {
			if a == nil || b == nil || a.Empty() || b.Empty() {
				return (a == nil || a.Empty()) == (b == nil || b.Empty())
			}
			return *a == *b
		}
		tok := func(a *cfg.WorkHours) string {
			if a == nil {
				return "none"
			}
			return c19RuleTok(a, ",")
		}
		in := map[string]interface{}{"in_force": tok(w0), "ordered": c19RuleTok(&w, ",")}
		want := &w
		switch i % 3 {
		case 0, 1: // over the wire
			in["path"] = "MvTime order"
			err := e.h.Order(task.WorkHours(w.Days, w.StartHour, w.StartMin, w.EndHour, w.EndMin))
			switch {
			case err != nil && c19Valid(w):
				c.Fail("order", "order:work-handler-error", "the MvTime handler rejected a valid rule: "+err.Error(), in)
				return
			case err != nil:
				want = w0
				c.Count("ordered-work:wire-rejected")
			}
		default: // the local setter
			in["path"] = "SetWorkHours"
			v := w
			err := e.h.SetWork(&v)
			if (w.Verify() != nil) != (err != nil && err != c2.ErrNoTask) {
				c.Fail("order", "order:work-setter-verdict", fmt.Sprintf("SetWorkHours returned %v for a rule Verify() judges %v", err, w.Verify()), in)
				return
			}
			if w.Verify() != nil {
				want = w0
				c.Count("ordered-work:setter-rejected")
			}
		}
		got := e.h.Work()
		in["now_in_force"] = tok(got)
		if !same(got, want) {
			c.Fail("order", "order:work-rule", fmt.Sprintf("the rule in force is %s, expected %s", tok(got), tok(want)), in)
			c.Eval(true, fmt.Sprint("ordered-work", in))
			return
		}
		// ... and it decides as the expected rule decides (model comparison on the rule in force)
		if got != nil && want != nil {
			off := c19Zones[r.Intn(len(c19Zones))]
			dt := c19Dates[r.Intn(len(c19Dates))]
			day := time.Date(dt[0], time.Month(dt[1]), dt[2]+r.Intn(7), 12, 0, 0, 0, c19Zone(off))
			for _, n := range c19Instants(r, *want, day) {
				c19WorkAt(c, e, *got, n, true)
			}
		}
		c.Count("ordered-work:" + in["path"].(string))
		c.Eval(true, fmt.Sprint("ordered-work", in))
	})

	// F. the first connection (connectContextInner)
	c.Cases("first", c.N(600, 6000), func(r *Rng, i int) {
		l := c19GenLoop(r)
		c19First(c, l)
		c.Eval(l.kill != nil, fmt.Sprintf("first:%v", l.input()))
	})
}

func init() { register("C19", runC19) }

func c19Sign(v int64) int {
	switch {
	case v < 0:
		return -1
	case v > 0:
		return 1
	}
	return 0
}
