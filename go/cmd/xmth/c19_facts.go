package main

import (
	"bytes"
	"fmt"
	"go/ast"
	"go/parser"
	"go/printer"
	"go/token"
	"strconv"
	"time"

	"github.com/iDigitalFlame/xmt/c2"
)

// Facts for C19: the integer literals the anchored functions compare against, read from the
// CURRENT source by go/parser (so `> 60` becoming `> 59`, or `< 101` becoming `<= 101`, changes the
// model's constants or fails the extraction), plus the time constants and the loop's error budget.

type c19Func struct {
	fset *token.FileSet
	fn   *ast.FuncDecl
}

func c19FindFunc(path, recv, name string) (*c19Func, error) {
	fset := token.NewFileSet()
	f, err := parser.ParseFile(fset, path, nil, 0)
	if err != nil {
		return nil, err
	}
	for _, d := range f.Decls {
		fd, ok := d.(*ast.FuncDecl)
		if !ok || fd.Name.Name != name || fd.Body == nil {
			continue
		}
		r := ""
		if fd.Recv != nil && len(fd.Recv.List) == 1 {
			t := fd.Recv.List[0].Type
			if s, ok := t.(*ast.StarExpr); ok {
				t = s.X
			}
			if id, ok := t.(*ast.Ident); ok {
				r = id.Name
			}
		}
		if r == recv {
			return &c19Func{fset, fd}, nil
		}
	}
	return nil, fmt.Errorf("%s: func (%s) %s not found", path, recv, name)
}

func (c *c19Func) str(e ast.Node) string {
	var b bytes.Buffer
	printer.Fprint(&b, c.fset, e)
	return b.String()
}

// cmp returns the single integer literal L such that the function body contains `<operand> <op> L`
// (every occurrence must agree).
func (c *c19Func) cmp(operand, op string) (uint64, error) {
	var vals []uint64
	ast.Inspect(c.fn.Body, func(n ast.Node) bool {
		b, ok := n.(*ast.BinaryExpr)
		if !ok || b.Op.String() != op {
			return true
		}
		l, ok := b.Y.(*ast.BasicLit)
		if !ok || l.Kind != token.INT || c.str(b.X) != operand {
			return true
		}
		if v, err := strconv.ParseUint(l.Value, 0, 64); err == nil {
			vals = append(vals, v)
		}
		return true
	})
	if len(vals) == 0 {
		return 0, fmt.Errorf("%s: no comparison `%s %s <int>`", c.fn.Name.Name, operand, op)
	}
	for _, v := range vals {
		if v != vals[0] {
			return 0, fmt.Errorf("%s: comparisons `%s %s <int>` disagree: %v", c.fn.Name.Name, operand, op, vals)
		}
	}
	return vals[0], nil
}

// callArgs returns the integer literal first arguments of every call of fun, in source order.
func (c *c19Func) callArgs(fun string) []uint64 {
	var vals []uint64
	ast.Inspect(c.fn.Body, func(n ast.Node) bool {
		ce, ok := n.(*ast.CallExpr)
		if !ok || c.str(ce.Fun) != fun || len(ce.Args) != 1 {
			return true
		}
		if l, ok := ce.Args[0].(*ast.BasicLit); ok && l.Kind == token.INT {
			if v, err := strconv.ParseUint(l.Value, 0, 64); err == nil {
				vals = append(vals, v)
			}
		}
		return true
	})
	return vals
}

func init() {
	factProviders = append(factProviders, func(f *factSet, repo string) error {
		f.Nat("c19Millisecond", uint64(time.Millisecond))
		f.Nat("c19Minute", uint64(time.Minute))
		f.Nat("c19Hour", uint64(time.Hour))
		f.Nat("c19MaxErrors", uint64(c2.VerifC19MaxErrors))
		wh := repo + "/c2/cfg/workhours.go"
		work, err := c19FindFunc(wh, "WorkHours", "Work")
		if err != nil {
			return err
		}
		for _, x := range [][3]string{
			{"c19WorkDaysBelow", "w.Days", "<"},
			{"c19WorkStartHourMax", "w.StartHour", ">"}, {"c19WorkStartMinMax", "w.StartMin", ">"},
			{"c19WorkEndHourMax", "w.EndHour", ">"}, {"c19WorkEndMinMax", "w.EndMin", ">"},
		} {
			v, err := work.cmp(x[1], x[2])
			if err != nil {
				return err
			}
			f.Nat(x[0], v)
		}
		// `w.Days > 0` and `w.Days > 126` both occur: the all-days threshold is the larger literal.
		{
			var mx uint64
			ast.Inspect(work.fn.Body, func(n ast.Node) bool {
				if b, ok := n.(*ast.BinaryExpr); ok && b.Op == token.GTR && work.str(b.X) == "w.Days" {
					if l, ok := b.Y.(*ast.BasicLit); ok {
						if v, err := strconv.ParseUint(l.Value, 0, 64); err == nil && v > mx {
							mx = v
						}
					}
				}
				return true
			})
			f.Nat("c19WorkDaysAbove", mx)
		}
		ver, err := c19FindFunc(wh, "WorkHours", "Verify")
		if err != nil {
			return err
		}
		for _, x := range [][2]string{{"c19VerifyEndMinMax", "w.EndMin"}, {"c19VerifyEndHourMax", "w.EndHour"},
			{"c19VerifyStartMinMax", "w.StartMin"}, {"c19VerifyStartHourMax", "w.StartHour"}} {
			v, err := ver.cmp(x[1], ">")
			if err != nil {
				return err
			}
			f.Nat(x[0], v)
		}
		emp, err := c19FindFunc(wh, "WorkHours", "Empty")
		if err != nil {
			return err
		}
		v, err := emp.cmp("w.Days", ">")
		if err != nil {
			return err
		}
		f.Nat("c19EmptyDaysAbove", v)
		wt, err := c19FindFunc(repo+"/c2/session.go", "Session", "wait")
		if err != nil {
			return err
		}
		if v, err = wt.cmp("s.jitter", "<"); err != nil {
			return err
		}
		f.Nat("c19JitterBelow", v)
		if v, err = wt.cmp("s.jitter", "=="); err != nil {
			return err
		}
		f.Nat("c19JitterAlways", v)
		if v, err = wt.cmp("s.sleep", "<"); err != nil {
			return err
		}
		f.Nat("c19SleepBelow", v)
		// shape facts of wait(): is the kill date tested before / after the final sleep select, and
		// does the jitter fallback `w = s.sleep` trigger on `w <= 0` (1) or only on `w == 0` (0).
		var before, after uint64
		sel := -1
		for i, st := range wt.fn.Body.List {
			if _, ok := st.(*ast.SelectStmt); ok {
				sel = i
			}
		}
		if sel < 0 {
			return fmt.Errorf("wait: no top-level select statement")
		}
		for i, st := range wt.fn.Body.List {
			is, ok := st.(*ast.IfStmt)
			if !ok || !bytes.Contains([]byte(wt.str(is.Cond)), []byte(".After(s.kill)")) {
				continue
			}
			if i < sel {
				before++
			} else {
				after++
			}
		}
		f.Nat("c19KillCheckBeforeSleep", before)
		f.Nat("c19KillCheckAfterSleep", after)
		fb := int64(-1)
		ast.Inspect(wt.fn.Body, func(n ast.Node) bool {
			is, ok := n.(*ast.IfStmt)
			if !ok || is.Init != nil || len(is.Body.List) != 1 || wt.str(is.Body.List[0]) != "w = s.sleep" {
				return true
			}
			switch wt.str(is.Cond) {
			case "w <= 0", "w < 1":
				fb = 1
			case "w == 0":
				fb = 0
			}
			return true
		})
		if fb < 0 {
			return fmt.Errorf("wait: jitter fallback `if w ?? 0 { w = s.sleep }` not found")
		}
		f.Nat("c19JitterFallbackLe", uint64(fb))
		args := wt.callArgs("util.FastRandN")
		if len(args) != 2 {
			return fmt.Errorf("wait: expected two util.FastRandN(<int>) calls, found %v", args)
		}
		f.Nat("c19JitterRandN", args[0])
		f.Nat("c19SignRandN", args[1])
		return nil
	})
}
