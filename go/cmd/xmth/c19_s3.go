package main

import (
	"encoding/json"
	"fmt"
	"time"

	"github.com/iDigitalFlame/xmt/c2/cfg"
)

// Group "delivered" of C19 (session 3): "exactly as CONFIGURED" - the rule and the kill date that
// gate a client are the ones its Profile hands out, so the path from the configured setting to the
// Profile accessor is part of the property: (a) settings -> Config -> Build -> Profile.WorkHours() /
// KillDate(): field for field the configured values, for every day mask 0..255; (b) the operator's
// JSON export/import of the same Config (MarshalJSON -> UnmarshalJSON -> Build), run under several
// local time zones: the kill date is the same instant, and the delivered work-hours rule gates
// exactly like the configured one at the boundary instants of a week (the JSON form spells the day
// mask as letters, so the byte itself may legitimately differ: 0x7F / 0xFF / 0 all mean every day).
func c19Delivered(c *Ctx) {
	zones := []*time.Location{time.UTC, time.FixedZone("E3", 3*3600), time.FixedZone("W8", -8*3600), time.FixedZone("E545", 5*3600+45*60), time.FixedZone("E14", 14*3600)}
	c.Cases("delivered", c.N(512, 4096), func(r *Rng, i int) {
		w := c19GenRule(r)
		w.Days = uint8(i % 256) // every day mask, twice in the quick tier
		for !c19Valid(w) {
			w = c19GenRule(r)
			w.Days = uint8(i % 256)
		}
		var kill time.Time
		killSet := r.Chance(80)
		if killSet && r.Chance(85) {
			kill = time.Unix(int64(1600000000+r.Intn(400000000)), 0)
			if r.Chance(20) {
				kill = time.Unix(int64(r.Intn(1<<31)), 0)
			}
		}
		in := map[string]interface{}{"rule": c19RuleTok(&w, ","), "kill_unix": kill.Unix(), "kill_set": killSet}
		ss := []cfg.Setting{cfg.Host("h.test:1"), cfg.ConnectTCP, w}
		if killSet {
			ss = append(ss, cfg.KillDate(kill))
		}
		if r.Bool() { // setting order is irrelevant
			ss[2], ss[len(ss)-1] = ss[len(ss)-1], ss[2]
		}
		conf := cfg.Pack(ss...)
		sameRule := func(a *cfg.WorkHours, b cfg.WorkHours) bool {
			if a == nil {
				return false
			}
			if b.Days == 0 && b.StartHour == 0 && b.StartMin == 0 && b.EndHour == 0 && b.EndMin == 0 {
				return a.Empty()
			}
			return *a == b
		}
		check := func(p cfg.Profile, path string, exact bool, e *c19Env) {
			w := w
			if !exact {
				// the JSON form spells the day set with the letters SMTWRFS; by that format a leading 'S'
				// is Sunday, so a Saturday-only set (one letter 'S') is not expressible and reads back as
				// Sunday-only: a limit of the operator format (DESIGN B.4), not of the gating this
				// property is about. The expectation is therefore the configured rule AS THE FORMAT
				// CARRIES IT (reference rendering + reference parsing below), everything else exact.
				w.Days = c19JSONDays(w.Days)
			}
			pw := p.WorkHours()
			if exact && !sameRule(pw, w) {
				c.Fail("delivered", "delivered:workhours:"+path, fmt.Sprintf("Profile.WorkHours() = %s, configured %s", c19RuleTok(pw, ","), c19RuleTok(&w, ",")), in)
			}
			kd, ok := p.KillDate()
			switch {
			case ok != killSet:
				c.Fail("delivered", "delivered:killdate-set:"+path, fmt.Sprintf("Profile.KillDate() set=%v, configured set=%v", ok, killSet), in)
			case ok && kill.IsZero() && !kd.IsZero():
				c.Fail("delivered", "delivered:killdate:"+path, fmt.Sprintf("Profile.KillDate() = %s, configured: cleared (zero)", kd.UTC().Format(time.RFC3339)), in)
			case ok && !kill.IsZero() && !kd.Equal(kill):
				c.Fail("delivered", "delivered:killdate:"+path, fmt.Sprintf("Profile.KillDate() = %s (%d), configured %s (%d): off by %s", kd.UTC().Format(time.RFC3339), kd.Unix(), kill.UTC().Format(time.RFC3339), kill.Unix(), kd.Sub(kill)), in)
			}
			// gating behaviour of the delivered rule at the boundary instants of three days
			if pw == nil {
				if !w.Empty() {
					c.Fail("delivered", "delivered:workhours-missing:"+path, "the Profile has no work-hours rule, one was configured", in)
				}
				return
			}
			loc := zones[r.Intn(len(zones))]
			for k := 0; k < 3; k++ {
				day := time.Date(2024, 2, 26+((i+k)%7), 12, 0, 0, 0, loc)
				for _, n := range c19Instants(r, w, day) {
					e.now = n
					a, b := w.Work(), pw.Work()
					if (a > 0) != (b > 0) {
						c.Fail("delivered", "delivered:gating:"+path, fmt.Sprintf("at %s (%s) the configured rule says wait=%v, the rule the Profile delivers (%s) says wait=%v", n.Format(time.RFC3339), n.Weekday(), a > 0, c19RuleTok(pw, ","), b > 0), in)
						return
					}
				}
			}
		}
		e := &c19Env{id: c19ID}
		e.install()
		p, err := conf.Build()
		if err != nil || p == nil {
			c.Fail("delivered", "delivered:build", fmt.Sprintf("the configured settings do not build: %v", err), in)
			return
		}
		check(p, "build", true, e)
		c.Count("delivered:build")
		// operator JSON export / import under a local zone
		saved := time.Local
		time.Local = zones[(i/3)%len(zones)]
		js, err := json.Marshal(conf)
		var back cfg.Config
		if err == nil {
			err = json.Unmarshal(js, &back)
		}
		time.Local = saved
		if err != nil {
			c.Fail("delivered", "delivered:json", fmt.Sprintf("JSON export/import of a valid Config failed: %v", err), in)
			return
		}
		p2, err := back.Build()
		if err != nil || p2 == nil {
			c.Fail("delivered", "delivered:json-build", fmt.Sprintf("the re-imported Config does not build: %v", err), in)
			return
		}
		check(p2, "json", false, e)
		c.Count("delivered:json")
		c.Eval(true, fmt.Sprintf("delivered %s %d %v", c19RuleTok(&w, ","), kill.Unix(), killSet))
	})
}

// c19JSONDays is the day mask after a trip through the JSON letter form, written from the format's
// description (c2/cfg/z_json.go parseDayString / workhours_no_implant.go dayNumToString): 0 and
// anything above 126 mean every day and are written "SMTWRFS", which reads back as 0; otherwise one
// letter per set day in the order S M T W R F S, where on reading an 'S' in first position is Sunday
// and any other 'S' is Saturday.
func c19JSONDays(d uint8) uint8 {
	if d == 0 || d > 126 {
		return 0
	}
	var letters []byte
	for k, ch := range []byte("SMTWRFS") {
		if d&(1<<uint(k)) != 0 {
			letters = append(letters, ch)
		}
	}
	if string(letters) == "SMTWRFS" {
		return 0
	}
	var out uint8
	for i, ch := range letters {
		switch ch {
		case 'S':
			if i == 0 {
				out |= 1
			} else {
				out |= 64
			}
		case 'M':
			out |= 2
		case 'T':
			out |= 4
		case 'W':
			out |= 8
		case 'R':
			out |= 16
		case 'F':
			out |= 32
		}
	}
	return out
}
