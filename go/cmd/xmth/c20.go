package main

// C20 — UTF-16 and name-hash helpers under the Windows wrappers match the reference.
//
// Real code under test (all of it compiles on linux): device/winapi/utf16.go (UTF16FromString,
// UTF16PtrFromString, UTF16ToString, UTF16PtrToString, UTF16EncodeStd, UTF16Decode, FnvHash and,
// through the in-package hook, utf16Encode / utf16EncodeRune / utf16DecodeRune) and
// device/regedit/entry.go (Entry.ToString / ToStringList / ToInteger / ToBinary).
// device/winapi/registry/{key,value,handle}.go are `//go:build windows` and are not reachable here.
//
// References (independent of the Lean model): Go's unicode/utf16 and hash/fnv; for the registry
// decoders encoding/binary + unicode/utf16 and a guard-page placement of the value (mmap, the pages
// before and after the value are PROT_NONE) so that any read outside the value faults.

import (
	"bufio"
	"bytes"
	"encoding/binary"
	"encoding/hex"
	"fmt"
	"hash/fnv"
	"os"
	"path/filepath"
	"runtime/debug"
	"strconv"
	"strings"
	"syscall"
	"unicode/utf16"
	"unicode/utf8"
	"unsafe"

	"github.com/iDigitalFlame/xmt/device/regedit"
	"github.com/iDigitalFlame/xmt/device/winapi"
	"github.com/iDigitalFlame/xmt/device/winapi/registry"
)

// ---- formatting ---------------------------------------------------------------------------------

func c20Ints(rs []rune) string {
	if len(rs) == 0 {
		return "-"
	}
	var b strings.Builder
	for i, r := range rs {
		if i > 0 {
			b.WriteByte(',')
		}
		b.WriteString(strconv.FormatInt(int64(r), 10))
	}
	return b.String()
}

func c20U16s(u []uint16) string {
	if len(u) == 0 {
		return "-"
	}
	var b strings.Builder
	for i, r := range u {
		if i > 0 {
			b.WriteByte(',')
		}
		b.WriteString(strconv.FormatUint(uint64(r), 10))
	}
	return b.String()
}

func c20Err(err error) string {
	switch err {
	case syscall.EINVAL:
		return "einval"
	case registry.ErrUnexpectedType:
		return "type"
	case registry.ErrUnexpectedSize:
		return "size"
	}
	return "other:" + strings.ReplaceAll(err.Error(), " ", "_")
}

func c20Out(val string, err error, pan string) string {
	if pan != "" {
		return "panic " + pan
	}
	if err != nil {
		return "err " + c20Err(err)
	}
	return "ok " + val
}

// c20Try runs f, containing panics (including memory faults, which SetPanicOnFault turns into
// panics for this goroutine) and returning their text.
func c20Try(f func()) (pan string) {
	old := debug.SetPanicOnFault(true)
	defer func() {
		debug.SetPanicOnFault(old)
		if e := recover(); e != nil {
			pan = strings.ReplaceAll(fmt.Sprint(e), " ", "_")
			if pan == "" {
				pan = "panic"
			}
		}
	}()
	f()
	return ""
}

func eqU16(a, b []uint16) bool {
	if len(a) != len(b) {
		return false
	}
	for i := range a {
		if a[i] != b[i] {
			return false
		}
	}
	return true
}
func eqRunes(a, b []rune) bool {
	if len(a) != len(b) {
		return false
	}
	for i := range a {
		if a[i] != b[i] {
			return false
		}
	}
	return true
}
func eqStrs(a, b []string) bool {
	if len(a) != len(b) {
		return false
	}
	for i := range a {
		if a[i] != b[i] {
			return false
		}
	}
	return true
}

// ---- guard-page memory ----------------------------------------------------------------------------

type c20Guard struct {
	mem  []byte
	page int
	n    int // accessible bytes
}

func newC20Guard(pages int) (*c20Guard, error) {
	pg := os.Getpagesize()
	m, err := syscall.Mmap(-1, 0, (pages+2)*pg, syscall.PROT_READ|syscall.PROT_WRITE, syscall.MAP_ANON|syscall.MAP_PRIVATE)
	if err != nil {
		return nil, err
	}
	if err = syscall.Mprotect(m[:pg], syscall.PROT_NONE); err != nil {
		return nil, err
	}
	if err = syscall.Mprotect(m[(pages+1)*pg:], syscall.PROT_NONE); err != nil {
		return nil, err
	}
	return &c20Guard{mem: m, page: pg, n: pages * pg}, nil
}

// atEnd returns a copy of d whose last byte is the last accessible byte before the guard page.
func (g *c20Guard) atEnd(d []byte) []byte {
	e := g.page + g.n
	s := g.mem[e-len(d) : e : e]
	copy(s, d)
	return s
}

// atStart returns a copy of d whose first byte is the first accessible byte after the guard page.
func (g *c20Guard) atStart(d []byte) []byte {
	s := g.mem[g.page : g.page+len(d) : g.page+len(d)]
	copy(s, d)
	return s
}

// selfTest checks that a one-byte over-read and under-read really fault (and are contained).
func (g *c20Guard) selfTest() bool {
	d := g.atEnd([]byte{1, 2, 3, 4})
	var sink byte
	p1 := c20Try(func() { sink += *(*byte)(unsafe.Pointer(uintptr(unsafe.Pointer(&d[3])) + 1)) })
	d = g.atStart([]byte{1, 2, 3, 4})
	p2 := c20Try(func() { sink += *(*byte)(unsafe.Pointer(uintptr(unsafe.Pointer(&d[0])) - 1)) })
	p3 := c20Try(func() { sink += d[0] + d[3] })
	_ = sink
	return p1 != "" && p2 != "" && p3 == ""
}

// ---- alphabets and generators ---------------------------------------------------------------------

// string pieces: ASCII, NUL, 2-byte, last before the surrogates, top of the BMP, first / some /
// last supplementary-plane character, a UTF-8-encoded lone surrogate (invalid UTF-8), an invalid
// byte, a truncated 4-byte sequence.
var c20StrAlpha = []string{"a", "\x00", "é", "\ud7ff", "\uffff", "\U00010000", "\U0001F600", "\U0010FFFF",
	"\xed\xa0\x80", "\xff", "\xf0\x9f"}

var c20RuneAlpha = []rune{'a', 0, 0xD7FF, 0xD800, 0xDBFF, 0xDC00, 0xDFFF, 0xE000, 0xFFFF, 0x10000, 0x10FFFF,
	0x110000, -1, -0x80000000, 0x7FFFFFFF}

var c20U16Alpha = []uint16{'a', 0, 0xD7FF, 0xD800, 0xDBFF, 0xDC00, 0xDFFF, 0xE000, 0xFFFF}

var c20LenPool = []int{0, 1, 2, 3, 4, 5, 7, 8, 15, 16, 17, 31, 32, 33, 63, 64, 65, 127, 128, 129, 255, 256, 257, 600}

// enumSize: number of words of length <= maxLen over an alphabet of size k.
func enumSize(k, maxLen int) int {
	n, p := 0, 1
	for l := 0; l <= maxLen; l++ {
		n += p
		p *= k
	}
	return n
}

// enumWord: the idx-th word (shortlex) over k symbols: returns symbol indexes.
func enumWord(k, idx int) []int {
	l, p := 0, 1
	for idx >= p {
		idx -= p
		p *= k
		l++
	}
	w := make([]int, l)
	for j := l - 1; j >= 0; j-- {
		w[j] = idx % k
		idx /= k
	}
	return w
}

func c20RandRune(r *Rng, forString bool) rune {
	switch x := r.Intn(20); {
	case x < 7:
		return rune(0x20 + r.Intn(0x5f))
	case x < 9:
		return rune(0x80 + r.Intn(0xD800-0x80))
	case x < 11:
		return rune(0xE000 + r.Intn(0x2000))
	case x < 15:
		return rune(0x10000 + r.Intn(0x100000))
	case x < 16:
		return []rune{0xD7FF, 0xE000, 0xFFFD, 0xFFFF, 0x10000, 0x10FFFF, 0x103FF, 0x10400}[r.Intn(8)]
	case x < 17:
		if forString {
			return 'z'
		}
		return rune(0xD800 + r.Intn(0x800))
	case x < 18:
		if forString {
			return 0x1F600
		}
		return []rune{-1, 0x110000, -0x80000000, 0x7FFFFFFF, rune(int32(r.U64()))}[r.Intn(5)]
	case x < 19:
		return 0
	}
	return rune(r.Intn(0x110000))
}

// bytes that matter to a UTF-8 decoder: ASCII, NUL, continuation bytes, every kind of lead byte
// (incl. the overlong C0/C1/E0/F0 and out-of-range F4..F7 neighbourhoods), invalid bytes.
var c20BytePool = []byte{0x00, 0x41, 0x7F, 0x80, 0x8F, 0x90, 0x9F, 0xA0, 0xBF, 0xC0, 0xC1, 0xC2, 0xDF, 0xE0, 0xE1, 0xEC, 0xED,
	0xEE, 0xEF, 0xF0, 0xF1, 0xF3, 0xF4, 0xF5, 0xF7, 0xF8, 0xFF}

func c20RandString(r *Rng) string {
	n := c20LenPool[r.Intn(len(c20LenPool))]
	if r.Chance(60) {
		n = r.Intn(12)
	}
	if r.Chance(20) { // arbitrary bytes (mostly ill-formed UTF-8)
		b := make([]byte, n)
		nul := r.Chance(15)
		for i := range b {
			if r.Chance(70) {
				b[i] = c20BytePool[r.Intn(len(c20BytePool))]
			} else {
				b[i] = byte(r.U64())
			}
			if b[i] == 0 && !nul {
				b[i] = 0x80
			}
		}
		return string(b)
	}
	nulFree := r.Chance(85)
	var b strings.Builder
	for i := 0; i < n; i++ {
		if r.Chance(6) {
			b.WriteString(c20StrAlpha[8+r.Intn(3)]) // invalid UTF-8
			continue
		}
		x := c20RandRune(r, true)
		if x >= 0xD800 && x < 0xE000 {
			x = 0xFFFD
		}
		if x == 0 && nulFree {
			x = 'n'
		}
		b.WriteRune(x)
	}
	return b.String()
}

func c20RandU16(r *Rng) []uint16 {
	n := c20LenPool[r.Intn(len(c20LenPool))]
	if r.Chance(60) {
		n = r.Intn(12)
	}
	u := make([]uint16, n)
	nulFree := r.Chance(60)
	for i := range u {
		switch x := r.Intn(12); {
		case x < 4:
			u[i] = uint16(0x20 + r.Intn(0x5f))
		case x < 6:
			u[i] = uint16(0xD800 + r.Intn(0x400))
		case x < 8:
			u[i] = uint16(0xDC00 + r.Intn(0x400))
		case x < 9:
			u[i] = 0
		case x < 10:
			u[i] = c20U16Alpha[r.Intn(len(c20U16Alpha))]
		default:
			u[i] = uint16(r.U64())
		}
		if u[i] == 0 && nulFree {
			u[i] = 'n'
		}
	}
	return u
}

func hasNulU16(u []uint16) bool {
	for _, x := range u {
		if x == 0 {
			return true
		}
	}
	return false
}

func wellFormedU16(u []uint16) bool {
	for i := 0; i < len(u); i++ {
		switch {
		case u[i] >= 0xD800 && u[i] < 0xDC00:
			if i+1 >= len(u) || u[i+1] < 0xDC00 || u[i+1] >= 0xE000 {
				return false
			}
			i++
		case u[i] >= 0xDC00 && u[i] < 0xE000:
			return false
		}
	}
	return true
}

// ---- per-input checks -------------------------------------------------------------------------------

// checkString: UTF16FromString / UTF16PtrFromString / round trip / FnvHash on one Go string.
func c20CheckString(c *Ctx, s string) (nontrivial bool) {
	in := map[string]interface{}{"string_hex": hex.EncodeToString([]byte(s)), "quoted": strconv.QuoteToASCII(s)}
	rs := []rune(s)
	hasNul := strings.IndexByte(s, 0) >= 0
	// the three facts about the Go runtime's []rune(string) conversion that the model assumes
	rz := []rune(s + "\x00")
	zero := false
	scalar := true
	for _, x := range rs {
		if x == 0 {
			zero = true
		}
		if x < 0 || x > 0x10FFFF || (x >= 0xD800 && x < 0xE000) {
			scalar = false
		}
	}
	if !eqRunes(rz, append(append([]rune(nil), rs...), 0)) || zero != hasNul || !scalar || (len(s) == 0) != (len(rs) == 0) {
		c.Fail("assumption", "assumption:rune-conversion", "[]rune(string) does not behave as the model assumes", in)
	}
	supp := false
	for _, x := range rs {
		if x >= 0x10000 {
			supp = true
		}
	}
	nontrivial = supp || hasNul || !utf8.ValidString(s)
	switch {
	case hasNul:
		c.Count("str:nul")
	case supp:
		c.Count("str:supplementary")
	case !utf8.ValidString(s):
		c.Count("str:invalid-utf8")
	default:
		c.Count("str:bmp")
	}
	var u []uint16
	var err error
	pan := c20Try(func() { u, err = winapi.UTF16FromString(s) })
	c.Op("fsb "+hx([]byte(s)), c20Out(c20U16s(u), err, pan)) // model from the bytes of the string
	c.Op("fs "+c20Ints(rs), c20Out(c20U16s(u), err, pan))    // model from []rune(s)
	c.Op("r8 "+hx([]byte(s)), c20Ints(rs))                   // the model's UTF-8 decoding vs Go's []rune(s)
	ref := utf16.Encode(rs)
	switch {
	case pan != "":
		c.Fail("panic", "panic:UTF16FromString", "UTF16FromString panicked: "+pan, in)
	case hasNul && err == nil:
		c.Fail("nul", "fromstring:nul-accepted", "string contains NUL but UTF16FromString returned no error: "+c20U16s(u), in)
	case hasNul && err != syscall.EINVAL:
		c.Fail("nul", "fromstring:wrong-error", "string contains NUL, error is not EINVAL: "+err.Error(), in)
	case !hasNul && err != nil:
		c.Fail("encode", "fromstring:spurious-error", "NUL-free string rejected: "+err.Error(), in)
	case !hasNul:
		want := append(append([]uint16(nil), ref...), 0)
		if !eqU16(u, want) {
			key := "fromstring:units"
			if len(u) == 0 || u[len(u)-1] != 0 {
				key = "fromstring:no-terminator"
			} else if len(u) < len(want) {
				key = "fromstring:truncated"
			}
			c.Fail("encode", key, fmt.Sprintf("UTF16FromString = [%s], standard encoding + NUL = [%s]", c20U16s(u), c20U16s(want)), in)
		} else {
			// exactly one terminator: no NUL word before the last
			if hasNulU16(u[:len(u)-1]) {
				c.Fail("encode", "fromstring:inner-nul", "NUL word inside the encoding of a NUL-free string", in)
			}
			// inverse on valid text
			var back string
			p2 := c20Try(func() { back = winapi.UTF16ToString(u) })
			if p2 != "" {
				c.Fail("panic", "panic:UTF16ToString", "UTF16ToString panicked: "+p2, in)
			} else if want := string(rs); back != want {
				c.Fail("roundtrip", "roundtrip:string", fmt.Sprintf("UTF16ToString(UTF16FromString(s)) = %q, want %q", back, want), in)
			}
			// pointer variants (safe: the buffer is known to be terminated here)
			var ps string
			p3 := c20Try(func() {
				p, e := winapi.UTF16PtrFromString(s)
				if e != nil {
					panic("UTF16PtrFromString error " + e.Error())
				}
				ps = winapi.UTF16PtrToString(p)
			})
			if p3 != "" || ps != string(rs) {
				c.Fail("roundtrip", "roundtrip:ptr", fmt.Sprintf("UTF16PtrToString(UTF16PtrFromString(s)) = %q (%s), want %q", ps, p3, string(rs)), in)
			}
		}
	}
	if len(s) == 0 {
		if p5 := c20Try(func() {
			if winapi.UTF16PtrToString(nil) != "" {
				panic("non-empty result")
			}
		}); p5 != "" {
			c.Fail("decode", "ptrtostring:nil", "UTF16PtrToString(nil): "+p5, in)
		}
	}
	if hasNul {
		var p *uint16
		var e error
		if p4 := c20Try(func() { p, e = winapi.UTF16PtrFromString(s) }); p4 != "" || e != syscall.EINVAL || p != nil {
			c.Fail("nul", "ptrfromstring:nul-accepted", "UTF16PtrFromString accepted a string with NUL", in)
		}
	}
	// FnvHash
	var h uint32
	ph := c20Try(func() { h = winapi.FnvHash(s) })
	f := fnv.New32()
	f.Write([]byte(s))
	c.Op("fnv "+hx([]byte(s)), strconv.FormatUint(uint64(h), 10))
	c.Op("reffnv "+hx([]byte(s)), strconv.FormatUint(uint64(f.Sum32()), 10))
	if ph != "" {
		c.Fail("panic", "panic:FnvHash", "FnvHash panicked: "+ph, in)
	} else if h != f.Sum32() {
		key := "fnv:differs-ascii"
		for i := 0; i < len(s); i++ {
			if s[i] >= 0x80 {
				key = "fnv:differs-multibyte"
			}
		}
		c.Fail("fnv", key, fmt.Sprintf("FnvHash = %#x, 32-bit FNV-1 (hash/fnv) = %#x", h, f.Sum32()), in)
	}
	return
}

// checkRunes: UTF16EncodeStd and utf16Encode on an arbitrary rune slice (any int32).
func c20CheckRunes(c *Ctx, rs []rune) (nontrivial bool) {
	in := map[string]interface{}{"runes": c20Ints(rs)}
	ref := utf16.Encode(rs)
	var u []uint16
	pan := c20Try(func() { u = winapi.UTF16EncodeStd(rs) })
	c.Op("es "+c20Ints(rs), c20Out(c20U16s(u), nil, pan))
	c.Op("refenc "+c20Ints(rs), c20U16s(ref))
	for _, x := range rs {
		if x >= 0x10000 || x < 0 || (x >= 0xD800 && x < 0xE000) {
			nontrivial = true
		}
	}
	if pan != "" {
		c.Fail("panic", "panic:UTF16EncodeStd", "UTF16EncodeStd panicked: "+pan, in)
	} else if !eqU16(u, ref) {
		key := "encodestd:units"
		if len(u) < len(ref) {
			key = "encodestd:truncated"
		}
		c.Fail("encode", key, fmt.Sprintf("UTF16EncodeStd = [%s], unicode/utf16 = [%s]", c20U16s(u), c20U16s(ref)), in)
	}
	var err error
	u = nil
	pan = c20Try(func() { u, err = winapi.VerifUTF16Encode(rs) })
	c.Op("enc "+c20Ints(rs), c20Out(c20U16s(u), err, pan))
	inner := false
	for i, x := range rs {
		if x == 0 && i+1 < len(rs) {
			inner = true
		}
	}
	switch {
	case pan != "":
		c.Fail("panic", "panic:utf16Encode", "utf16Encode panicked: "+pan, in)
	case inner && err != syscall.EINVAL:
		c.Fail("nul", "encode:nul-accepted", "utf16Encode accepted a NUL before the last rune", in)
	case !inner && err != nil:
		c.Fail("encode", "encode:spurious-error", "utf16Encode rejected: "+err.Error(), in)
	case !inner && !eqU16(u, ref):
		key := "encode:units"
		if len(u) < len(ref) {
			key = "encode:truncated"
		}
		c.Fail("encode", key, fmt.Sprintf("utf16Encode = [%s], unicode/utf16 = [%s]", c20U16s(u), c20U16s(ref)), in)
	}
	// inverse on valid text (scalar values, no NUL): decode(encode) = id
	valid := true
	for _, x := range rs {
		if x <= 0 || x > 0x10FFFF || (x >= 0xD800 && x < 0xE000) {
			valid = false
		}
	}
	if valid && pan == "" {
		var back []rune
		if p := c20Try(func() { back = winapi.UTF16Decode(winapi.UTF16EncodeStd(rs)) }); p != "" || !eqRunes(back, rs) {
			c.Fail("roundtrip", "roundtrip:runes", fmt.Sprintf("UTF16Decode(UTF16EncodeStd(rs)) = [%s] %s", c20Ints(back), p), in)
		}
	}
	return
}

// checkU16: UTF16Decode / UTF16ToString / UTF16PtrToString on an arbitrary uint16 buffer.
func c20CheckU16(c *Ctx, g *c20Guard, u []uint16) (nontrivial bool) {
	in := map[string]interface{}{"u16": c20U16s(u)}
	cut := u
	for i, x := range u {
		if x == 0 {
			cut = u[:i]
			break
		}
	}
	for _, x := range cut {
		if x >= 0xD800 && x < 0xE000 {
			nontrivial = true
		}
	}
	if len(cut) != len(u) {
		nontrivial = true
		c.Count("u16:with-nul")
	} else {
		c.Count("u16:nul-free")
	}
	ref := utf16.Decode(cut)
	var rs []rune
	pan := c20Try(func() { rs = winapi.UTF16Decode(append([]uint16(nil), u...)) })
	c.Op("dec "+c20U16s(u), c20Out(c20Ints(rs), nil, pan))
	c.Op("refdec "+c20U16s(cut), c20Ints(ref))
	if pan != "" {
		c.Fail("panic", "panic:UTF16Decode", "UTF16Decode panicked: "+pan, in)
		return
	}
	if !eqRunes(rs, ref) {
		c.Fail("decode", "decode:runes", fmt.Sprintf("UTF16Decode = [%s], unicode/utf16 up to the first NUL = [%s]", c20Ints(rs), c20Ints(ref)), in)
	}
	var s string
	if p := c20Try(func() { s = winapi.UTF16ToString(u) }); p != "" || s != string(ref) {
		c.Fail("decode", "tostring:differs", fmt.Sprintf("UTF16ToString = %q %s, want %q", s, p, string(ref)), in)
	}
	// the decoder must not read past the buffer: place it flush against a guard page
	if g != nil && len(u) > 0 && 2*len(u) <= g.n {
		raw := make([]byte, 2*len(u))
		for i, x := range u {
			binary.LittleEndian.PutUint16(raw[2*i:], x)
		}
		for _, place := range []string{"end", "start"} {
			var m []byte
			if place == "end" {
				m = g.atEnd(raw)
			} else {
				m = g.atStart(raw)
			}
			gu := unsafe.Slice((*uint16)(unsafe.Pointer(&m[0])), len(u))
			var rs2 []rune
			if p := c20Try(func() { rs2 = winapi.UTF16Decode(gu) }); p != "" {
				c.Fail("bounds", "oob-read:UTF16Decode", "UTF16Decode faulted on a buffer placed at the "+place+" of guarded memory: "+p, in)
			} else if !eqRunes(rs2, ref) {
				c.Fail("decode", "decode:placement-dependent", "UTF16Decode result depends on the memory around the buffer", in)
			}
			// UTF16PtrToString requires a terminator inside the buffer (documented precondition)
			if len(cut) != len(u) {
				var ps string
				if p := c20Try(func() { ps = winapi.UTF16PtrToString(&gu[0]) }); p != "" {
					c.Fail("bounds", "oob-read:UTF16PtrToString", "UTF16PtrToString faulted on a terminated buffer at the "+place+" of guarded memory: "+p, in)
				} else if ps != string(ref) {
					c.Fail("decode", "ptrtostring:differs", fmt.Sprintf("UTF16PtrToString = %q, want %q", ps, string(ref)), in)
				}
			}
		}
	}
	// inverse on valid text: well-formed, NUL-free UTF-16 survives decode → encode
	if wellFormedU16(u) && !hasNulU16(u) {
		var back []uint16
		var err error
		p := c20Try(func() { back, err = winapi.UTF16FromString(winapi.UTF16ToString(u)) })
		want := append(append([]uint16(nil), u...), 0)
		if len(u) == 0 {
			want = []uint16{0}
		}
		if p != "" || err != nil || !eqU16(back, want) {
			c.Fail("roundtrip", "roundtrip:u16", fmt.Sprintf("UTF16FromString(UTF16ToString(u)) = [%s] %v %s, want [%s]", c20U16s(back), err, p, c20U16s(want)), in)
		}
		c.Count("u16:well-formed")
	}
	return
}

// ---- registry values ------------------------------------------------------------------------------

type c20RegRes struct{ s, l, i, b, str string }

func c20RegRun(ty uint32, d []byte) (res c20RegRes, strs []string, str string, iv uint64) {
	e := regedit.Entry{Name: "v", Type: ty, Data: d}
	var err error
	p := c20Try(func() { str, err = e.ToString() })
	res.s = c20Out(c20Ints([]rune(str)), err, p)
	p = c20Try(func() { strs, err = e.ToStringList() })
	segs := make([]string, len(strs))
	for k := range strs {
		segs[k] = c20Ints([]rune(strs[k]))
	}
	sl := "."
	if len(segs) > 0 {
		sl = strings.Join(segs, "|")
	}
	res.l = c20Out(fmt.Sprintf("%d %s", len(strs), sl), err, p)
	p = c20Try(func() { iv, err = e.ToInteger() })
	res.i = c20Out(strconv.FormatUint(iv, 10), err, p)
	var bb []byte
	p = c20Try(func() { bb, err = e.ToBinary() })
	res.b = c20Out(hx(bb), err, p)
	// the display form (String() of the build variant without the implant tag) decodes the same value
	// bytes through the same UTF-16 helpers: same bounds obligation
	var disp string
	p = c20Try(func() { disp = fmt.Sprint(e) })
	res.str = c20Out(c20Ints([]rune(disp)), nil, p)
	return
}

// c20RegStringRef is the reference of Entry.String() (device/regedit/v_no_implant.go): the display
// form of a value, written from the documented value layouts.
func c20RegStringRef(ty uint32, d []byte) string {
	var out string
	switch ty {
	case 0:
		out = "" // Name is set by the harness
	case 4:
		if len(d) == 4 {
			out = strconv.FormatUint(uint64(binary.LittleEndian.Uint32(d)), 10)
		}
	case 11:
		if len(d) == 8 {
			out = strconv.FormatUint(binary.LittleEndian.Uint64(d), 10)
		}
	case 3:
		out = hex.EncodeToString(d)
	case 7:
		if len(d) >= 3 {
			u := c20LEWords(d)
			if len(u) > 0 && u[len(u)-1] == 0 {
				u = u[:len(u)-1]
			}
			var parts []string
			from := 0
			for i, x := range u {
				if x == 0 {
					parts = append(parts, string(utf16.Decode(u[from:i])))
					from = i + 1
				}
			}
			out = strings.Join(parts, ", ")
		}
	case 1, 2:
		if len(d) >= 3 {
			u := c20LEWords(d)
			for i, x := range u {
				if x == 0 {
					u = u[:i]
					break
				}
			}
			out = string(utf16.Decode(u))
		}
	}
	return "ok " + c20Ints([]rune(out))
}

func c20LEWords(d []byte) []uint16 {
	u := make([]uint16, len(d)/2)
	for i := range u {
		u[i] = binary.LittleEndian.Uint16(d[2*i:])
	}
	return u
}

// reference results (written against the documented Windows semantics / x/sys/windows/registry)
func c20RegRef(ty uint32, d []byte) c20RegRes {
	var r c20RegRes
	switch {
	case ty != 1 && ty != 2:
		r.s = "err type"
	case len(d) < 3:
		r.s = "err size"
	default:
		u := c20LEWords(d)
		for i, x := range u {
			if x == 0 {
				u = u[:i]
				break
			}
		}
		r.s = "ok " + c20Ints(utf16.Decode(u))
	}
	switch {
	case ty != 7:
		r.l = "err type"
	case len(d) < 3:
		r.l = "err size"
	default:
		u := c20LEWords(d)
		if u[len(u)-1] == 0 {
			u = u[:len(u)-1]
		}
		var out []string
		from := 0
		for i, x := range u {
			if x == 0 {
				out = append(out, c20Ints(utf16.Decode(u[from:i])))
				from = i + 1
			}
		}
		if len(out) == 0 {
			r.l = "ok 0 ."
		} else {
			r.l = fmt.Sprintf("ok %d %s", len(out), strings.Join(out, "|"))
		}
	}
	switch {
	case ty == 4 && len(d) == 4:
		r.i = "ok " + strconv.FormatUint(uint64(binary.LittleEndian.Uint32(d)), 10)
	case ty == 11 && len(d) == 8:
		r.i = "ok " + strconv.FormatUint(binary.LittleEndian.Uint64(d), 10)
	case ty == 4 || ty == 11:
		r.i = "err size"
	default:
		r.i = "err type"
	}
	if ty == 3 {
		r.b = "ok " + hx(d)
	} else {
		r.b = "err type"
	}
	return r
}

func c20CheckReg(c *Ctx, g *c20Guard, ty uint32, d []byte) (nontrivial bool) {
	in := map[string]interface{}{"type": ty, "data_hex": hex.EncodeToString(d)}
	heap, _, _, _ := c20RegRun(ty, append([]byte(nil), d...))
	t := strconv.FormatUint(uint64(ty), 10)
	c.Op("rs "+t+" "+hx(d), heap.s)
	c.Op("rl "+t+" "+hx(d), heap.l)
	c.Op("ri "+t+" "+hx(d), heap.i)
	c.Op("rb "+t+" "+hx(d), heap.b)
	ref := c20RegRef(ty, d)
	cmp := func(fn, got, want string) {
		if strings.HasPrefix(got, "panic ") {
			c.Fail("panic", "panic:Entry."+fn, "Entry."+fn+" panicked: "+got, in)
		} else if got != want {
			c.Fail("registry", "reg-value:"+fn, fmt.Sprintf("Entry.%s = %q, reference = %q", fn, got, want), in)
		}
	}
	cmp("ToString", heap.s, ref.s)
	cmp("ToStringList", heap.l, ref.l)
	cmp("ToInteger", heap.i, ref.i)
	cmp("ToBinary", heap.b, ref.b)
	cmp("String", heap.str, c20RegStringRef(ty, d))
	if g != nil && len(d) <= g.n {
		for _, place := range []string{"end", "start"} {
			var m []byte
			if place == "end" {
				m = g.atEnd(d)
			} else {
				m = g.atStart(d)
			}
			gr, _, _, _ := c20RegRun(ty, m)
			chk := func(fn, got, want string) {
				if strings.HasPrefix(got, "panic ") {
					c.Fail("bounds", "oob-read:Entry."+fn, "Entry."+fn+" faulted with the value placed at the "+place+" of guarded memory (read outside the value): "+got, in)
				} else if got != want {
					c.Fail("bounds", "placement-dependent:Entry."+fn, "Entry."+fn+" result depends on memory outside the value: "+got+" vs "+want, in)
				}
			}
			chk("ToString", gr.s, heap.s)
			chk("ToStringList", gr.l, heap.l)
			chk("ToInteger", gr.i, heap.i)
			chk("ToBinary", gr.b, heap.b)
			chk("String", gr.str, heap.str)
		}
		c.Count("reg:guarded")
	}
	if ty <= 12 || ty == 0xFFFFFFFF {
		c.Count("reg:type-" + t)
	} else {
		c.Count("reg:type-random")
	}
	switch {
	case len(d) < 3:
		c.Count("reg:len<3")
	case len(d)%2 == 1:
		c.Count("reg:len-odd")
	default:
		c.Count("reg:len-even")
	}
	return len(d) >= 3 && (ty == 1 || ty == 2 || ty == 7) || (ty == 4 || ty == 11)
}

var c20RegTypes = []uint32{0, 1, 2, 3, 4, 5, 6, 7, 8, 10, 11, 12, 0xFFFFFFFF}

func c20UTF16LE(s []uint16) []byte {
	b := make([]byte, 2*len(s))
	for i, x := range s {
		binary.LittleEndian.PutUint16(b[2*i:], x)
	}
	return b
}

func c20GenReg(r *Rng) (uint32, []byte) {
	ty := c20RegTypes[r.Intn(len(c20RegTypes))]
	if r.Chance(70) {
		ty = []uint32{1, 2, 7, 4, 11, 3}[r.Intn(6)]
	}
	if r.Chance(3) {
		ty = uint32(r.U64())
	}
	var d []byte
	switch r.Intn(6) {
	case 0: // short / arbitrary lengths
		d = r.Bytes(r.Intn(18))
		for j := range d {
			if r.Chance(40) {
				d[j] = 0
			}
		}
	case 1: // a string value with 0, 1 or 2 terminators, maybe a stray odd byte
		u := c20RandU16(r)
		for k := r.Intn(3); k > 0; k-- {
			u = append(u, 0)
		}
		d = c20UTF16LE(u)
		if r.Chance(30) {
			d = append(d, byte(r.U64()))
		}
	case 2: // MULTI_SZ
		var u []uint16
		for k := r.Intn(5); k > 0; k-- {
			s := c20RandU16(r)
			if len(s) > 20 {
				s = s[:20]
			}
			u = append(u, s...)
			if !r.Chance(10) {
				u = append(u, 0)
			}
		}
		if r.Chance(75) {
			u = append(u, 0)
		}
		d = c20UTF16LE(u)
		if r.Chance(25) {
			d = append(d, byte(r.U64()))
		}
	case 3: // integers and their neighbours
		d = r.Bytes([]int{3, 4, 5, 7, 8, 9, 4, 8}[r.Intn(8)])
		if r.Chance(30) {
			for j := range d {
				d[j] = 0xFF
			}
		}
	case 4:
		d = r.Bytes(c20LenPool[r.Intn(len(c20LenPool))])
	default:
		d = r.Bytes(1 + r.Intn(9))
	}
	return ty, d
}

// ---- corpus ----------------------------------------------------------------------------------------

// corpus lines: `str <hex bytes>` | `runes <csv>` | `u16 <csv>` | `reg <type> <hex bytes>`
func c20Corpus() []string {
	lines := []string{
		"str f09f9880",         // U+1F600: terminator was dropped
		"str 61f09f988062",     // a U+1F600 b: trailing runes were dropped
		"str c3a9",             // é: FnvHash skipped the continuation byte
		"runes 65,128512,66,0", // UTF16EncodeStd
		"u16 55357,0,56832",    // high surrogate right before the NUL
		"reg 7 41000000420043", // MULTI_SZ with odd trailing byte
		"reg 1 410042",
	}
	dir := filepath.Join(os.Getenv("VERIF_BUILD"), "..", "corpus", "C20")
	ents, _ := os.ReadDir(dir)
	for _, e := range ents {
		f, err := os.Open(filepath.Join(dir, e.Name()))
		if err != nil {
			continue
		}
		sc := bufio.NewScanner(f)
		for sc.Scan() {
			l := strings.TrimSpace(sc.Text())
			if l != "" && !strings.HasPrefix(l, "#") {
				lines = append(lines, l)
			}
		}
		f.Close()
	}
	return lines
}

func c20ParseInts(s string) ([]int64, bool) {
	if s == "-" || s == "" {
		return nil, true
	}
	var out []int64
	for _, t := range strings.Split(s, ",") {
		v, err := strconv.ParseInt(t, 10, 64)
		if err != nil {
			return nil, false
		}
		out = append(out, v)
	}
	return out, true
}

// ---- driver ----------------------------------------------------------------------------------------

func runC20(c *Ctx) {
	g, gerr := newC20Guard(8)
	if gerr != nil || !g.selfTest() {
		c.Fail("harness", "harness:guard-pages", fmt.Sprintf("guard-page memory unavailable or not faulting (%v)", gerr), nil)
		g = nil
	} else {
		c.Count("guard:selftest-ok")
	}
	// 0. corpus (past failures) first
	corpus := c20Corpus()
	c.Cases("corpus", len(corpus), func(r *Rng, i int) {
		f := strings.Fields(corpus[i])
		nt := false
		switch {
		case len(f) == 2 && f[0] == "str":
			if b, err := hex.DecodeString(f[1]); err == nil {
				nt = c20CheckString(c, string(b))
			}
		case len(f) == 2 && f[0] == "runes":
			if v, ok := c20ParseInts(f[1]); ok {
				rs := make([]rune, len(v))
				for k := range v {
					rs[k] = rune(v[k])
				}
				nt = c20CheckRunes(c, rs)
			}
		case len(f) == 2 && f[0] == "u16":
			if v, ok := c20ParseInts(f[1]); ok {
				u := make([]uint16, len(v))
				for k := range v {
					u[k] = uint16(v[k])
				}
				nt = c20CheckU16(c, g, u)
			}
		case len(f) == 3 && f[0] == "reg":
			t, e1 := strconv.ParseUint(f[1], 10, 32)
			b, e2 := hex.DecodeString(strings.TrimPrefix(f[2], "-"))
			if e1 == nil && e2 == nil {
				nt = c20CheckReg(c, g, uint32(t), b)
			}
		}
		c.Eval(nt, "corpus:"+corpus[i])
	})
	// 1. exhaustive small strings over the class alphabet (every position of every class)
	ks := len(c20StrAlpha)
	c.Cases("strx", enumSize(ks, c.N(3, 4)), func(r *Rng, i int) {
		var b strings.Builder
		for _, x := range enumWord(ks, i) {
			b.WriteString(c20StrAlpha[x])
		}
		nt := c20CheckString(c, b.String())
		c.Eval(nt, "s:"+b.String())
	})
	// 1b. the model's UTF-8 decoding against Go's []rune(s): all byte strings of <= 2 (thorough 3)
	// bytes over the decoder-relevant byte pool, then random 3..5-byte strings over the pool
	kb := len(c20BytePool)
	nex := enumSize(kb, c.N(2, 3))
	c.Cases("utf8x", nex+c.N(4000, 40000), func(r *Rng, i int) {
		var b []byte
		if i < nex {
			for _, x := range enumWord(kb, i) {
				b = append(b, c20BytePool[x])
			}
		} else {
			b = make([]byte, 3+r.Intn(3))
			for j := range b {
				b[j] = c20BytePool[r.Intn(kb)]
			}
		}
		s := string(b)
		rs := []rune(s)
		c.Op("r8 "+hx(b), c20Ints(rs))
		if !eqRunes([]rune(s+"\x00"), append(append([]rune(nil), rs...), 0)) {
			c.Fail("assumption", "assumption:rune-conversion", "[]rune(s+NUL) != []rune(s)+[0]", map[string]interface{}{"string_hex": hex.EncodeToString(b)})
		}
		c.Count("utf8:cases")
		c.Eval(!utf8.Valid(b), "u8:"+s)
	})
	// 2. one supplementary-plane rune at every position of strings of every length up to L
	L := c.N(24, 80)
	c.Cases("strpos", L*(L+1)/2, func(r *Rng, i int) {
		l, p := 1, i
		for p >= l {
			p -= l
			l++
		}
		rs := make([]rune, l)
		for k := range rs {
			rs[k] = rune('a' + k%26)
		}
		rs[p] = []rune{0x10000, 0x1F600, 0x10FFFF}[i%3]
		s := string(rs)
		nt := c20CheckString(c, s)
		c20CheckRunes(c, rs)
		c.Eval(nt, "s:"+s)
	})
	// 3. random strings (lengths from the boundary pool)
	c.Cases("strr", c.N(3000, 60000), func(r *Rng, i int) {
		s := c20RandString(r)
		nt := c20CheckString(c, s)
		c.Eval(nt, "s:"+s)
	})
	// 4. rune slices: exhaustive small over the int32 class alphabet, then random
	kr := len(c20RuneAlpha)
	c.Cases("runex", enumSize(kr, c.N(3, 4)), func(r *Rng, i int) {
		w := enumWord(kr, i)
		rs := make([]rune, len(w))
		for k, x := range w {
			rs[k] = c20RuneAlpha[x]
		}
		nt := c20CheckRunes(c, rs)
		c.Eval(nt, "r:"+c20Ints(rs))
	})
	c.Cases("runer", c.N(2500, 50000), func(r *Rng, i int) {
		n := c20LenPool[r.Intn(len(c20LenPool))]
		if r.Chance(60) {
			n = r.Intn(12)
		}
		rs := make([]rune, n)
		for k := range rs {
			rs[k] = c20RandRune(r, false)
		}
		nt := c20CheckRunes(c, rs)
		c.Eval(nt, "r:"+c20Ints(rs))
	})
	// 5. single-rune helpers on every boundary and random values
	c.Cases("rune1", c.N(600, 20000), func(r *Rng, i int) {
		edges := []rune{-1, 0, 0x7F, 0xD7FF, 0xD800, 0xDBFF, 0xDC00, 0xDFFF, 0xE000, 0xFFFF, 0x10000, 0x10001, 0x103FF, 0x10400,
			0x10FFFF, 0x110000, 0x7FFFFFFF, -0x80000000}
		var x rune
		if i < len(edges) {
			x = edges[i]
		} else {
			x = c20RandRune(r, false)
		}
		a, b := winapi.VerifUTF16EncodeRune(x)
		c.Op("er "+strconv.FormatInt(int64(x), 10), fmt.Sprintf("%d,%d", a, b))
		ra, rb := utf16.EncodeRune(x)
		if rune(a) != ra || rune(b) != rb {
			c.Fail("encode", "encoderune:differs", fmt.Sprintf("utf16EncodeRune(%#x) = %#x,%#x; unicode/utf16 = %#x,%#x", x, a, b, ra, rb), map[string]interface{}{"rune": x})
		}
		// decode pairs: around the surrogate boundaries and random
		pool := []rune{0xD7FF, 0xD800, 0xD801, 0xDBFF, 0xDC00, 0xDC01, 0xDFFF, 0xE000, 'a', 0, -1, 0x10000}
		r1, r2 := pool[r.Intn(len(pool))], pool[r.Intn(len(pool))]
		if r.Bool() {
			r1, r2 = rune(0xD800+r.Intn(0x400)), rune(0xDC00+r.Intn(0x400))
		}
		d := winapi.VerifUTF16DecodeRune(r1, r2)
		c.Op(fmt.Sprintf("dr %d %d", r1, r2), strconv.FormatInt(int64(d), 10))
		if rd := utf16.DecodeRune(r1, r2); d != rd {
			c.Fail("decode", "decoderune:differs", fmt.Sprintf("utf16DecodeRune(%#x,%#x) = %#x; unicode/utf16 = %#x", r1, r2, d, rd), map[string]interface{}{"r1": r1, "r2": r2})
		}
		c.Eval(x >= 0x10000 && x <= 0x10FFFF, fmt.Sprintf("er:%d:%d:%d", x, r1, r2))
	})
	// 6. uint16 buffers: exhaustive small over the class alphabet, then random
	ku := len(c20U16Alpha)
	c.Cases("u16x", enumSize(ku, c.N(4, 5)), func(r *Rng, i int) {
		w := enumWord(ku, i)
		u := make([]uint16, len(w))
		for k, x := range w {
			u[k] = c20U16Alpha[x]
		}
		nt := c20CheckU16(c, g, u)
		c.Eval(nt, "u:"+c20U16s(u))
	})
	c.Cases("u16r", c.N(3000, 60000), func(r *Rng, i int) {
		u := c20RandU16(r)
		nt := c20CheckU16(c, g, u)
		c.Eval(nt, "u:"+c20U16s(u))
	})
	// 7. registry values: every type code of the pool x every length 0..12 x a few fillings, then
	// structured/random values
	nt0 := len(c20RegTypes)
	c.Cases("regx", nt0*13*4, func(r *Rng, i int) {
		ty := c20RegTypes[i%nt0]
		l := (i / nt0) % 13
		d := r.Bytes(l)
		switch i / (nt0 * 13) {
		case 0:
			for j := range d {
				d[j] = 0
			}
		case 1:
			for j := range d {
				d[j] = byte('A' + j)
				if j%2 == 1 {
					d[j] = 0
				}
			}
		case 2:
			for j := range d {
				d[j] = 0xFF
			}
		}
		nt := c20CheckReg(c, g, ty, d)
		c.Eval(nt, fmt.Sprintf("reg:%d:%x", ty, d))
	})
	c.Cases("regr", c.N(3000, 60000), func(r *Rng, i int) {
		ty, d := c20GenReg(r)
		nt := c20CheckReg(c, g, ty, d)
		c.Eval(nt, fmt.Sprintf("reg:%d:%x", ty, d))
	})
	// 8. FnvHash on API-name-like ASCII and on arbitrary bytes
	c.Cases("fnv", c.N(1500, 30000), func(r *Rng, i int) {
		var b []byte
		if r.Bool() {
			n := 1 + r.Intn(40)
			b = make([]byte, n)
			const al = "ABCDEFGHIJKLMNOPQRSTUVWXYZabcdefghijklmnopqrstuvwxyz0123456789_"
			for j := range b {
				b[j] = al[r.Intn(len(al))]
			}
		} else {
			b = r.Bytes(c20LenPool[r.Intn(len(c20LenPool))])
		}
		s := string(b)
		h := winapi.FnvHash(s)
		f := fnv.New32()
		f.Write(b)
		c.Op("fnv "+hx(b), strconv.FormatUint(uint64(h), 10))
		c.Op("reffnv "+hx(b), strconv.FormatUint(uint64(f.Sum32()), 10))
		if h != f.Sum32() {
			key := "fnv:differs-ascii"
			if bytes.IndexFunc(b, func(x rune) bool { return x >= 0x80 }) >= 0 || !utf8.Valid(b) {
				key = "fnv:differs-multibyte"
			}
			c.Fail("fnv", key, fmt.Sprintf("FnvHash = %#x, 32-bit FNV-1 (hash/fnv) = %#x", h, f.Sum32()), map[string]interface{}{"string_hex": hex.EncodeToString(b)})
		}
		c.Eval(len(b) > 0, "fnv:"+s)
	})
	runC20S3(c, g) // session-3 extension: display form (Entry.String), see c20_s3.go
}

func init() { register("C20", runC20) }
