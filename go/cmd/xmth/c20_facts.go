package main

import (
	"fmt"
	"go/ast"
	"go/parser"
	"go/token"
	"strconv"

	"github.com/iDigitalFlame/xmt/device/winapi"
	"github.com/iDigitalFlame/xmt/device/winapi/registry"
)

// Facts for C20: the UTF-16 constants (compiled values, via the in-package hook), the registry type
// codes, and three syntactic facts read from the current source with go/parser: the FNV offset
// basis and prime literals inside FnvHash and the `1 << 29` array bound of the unsafe []uint16
// view in regedit.Entry.ToString.
func init() {
	factProviders = append(factProviders, func(f *factSet, repo string) error {
		f.Nat("utfSelf", uint64(winapi.VerifUtfSelf))
		f.Nat("utfSurgA", uint64(winapi.VerifUtfSurgA))
		f.Nat("utfSurgB", uint64(winapi.VerifUtfSurgB))
		f.Nat("utfSurgC", uint64(winapi.VerifUtfSurgC))
		f.Nat("utfRuneMax", uint64(winapi.VerifUtfRuneMax))
		f.Nat("utfReplacement", uint64(winapi.VerifUtfReplacement))
		f.Nat("regTypeString", uint64(registry.TypeString))
		f.Nat("regTypeExpandString", uint64(registry.TypeExpandString))
		f.Nat("regTypeBinary", uint64(registry.TypeBinary))
		f.Nat("regTypeDword", uint64(registry.TypeDword))
		f.Nat("regTypeStringList", uint64(registry.TypeStringList))
		f.Nat("regTypeQword", uint64(registry.TypeQword))
		fs := token.NewFileSet()
		uf, err := parser.ParseFile(fs, repo+"/device/winapi/utf16.go", nil, 0)
		if err != nil {
			return err
		}
		var basis, prime uint64
		var haveB, haveP bool
		for _, d := range uf.Decls {
			fd, ok := d.(*ast.FuncDecl)
			if !ok || fd.Name.Name != "FnvHash" || fd.Body == nil {
				continue
			}
			ast.Inspect(fd.Body, func(n ast.Node) bool {
				as, ok := n.(*ast.AssignStmt)
				if !ok || len(as.Rhs) != 1 {
					return true
				}
				switch as.Tok {
				case token.DEFINE: // h := uint32(<basis>)
					if ce, ok := as.Rhs[0].(*ast.CallExpr); ok && len(ce.Args) == 1 {
						if id, ok := ce.Fun.(*ast.Ident); ok && id.Name == "uint32" {
							if bl, ok := ce.Args[0].(*ast.BasicLit); ok && bl.Kind == token.INT && !haveB {
								if v, err := strconv.ParseUint(bl.Value, 0, 64); err == nil {
									basis, haveB = v, true
								}
							}
						}
					}
				case token.MUL_ASSIGN: // h *= <prime>
					if bl, ok := as.Rhs[0].(*ast.BasicLit); ok && bl.Kind == token.INT && !haveP {
						if v, err := strconv.ParseUint(bl.Value, 0, 64); err == nil {
							prime, haveP = v, true
						}
					}
				}
				return true
			})
		}
		if !haveB || !haveP {
			return fmt.Errorf("C20 facts: FnvHash no longer has the shape `h := uint32(LIT) ... h *= LIT`")
		}
		f.Nat("fnvBasis", basis)
		f.Nat("fnvPrime", prime)
		ef, err := parser.ParseFile(fs, repo+"/device/regedit/entry.go", nil, 0)
		if err != nil {
			return err
		}
		var caps []uint64
		ast.Inspect(ef, func(n ast.Node) bool {
			at, ok := n.(*ast.ArrayType)
			if !ok || at.Len == nil {
				return true
			}
			if be, ok := at.Len.(*ast.BinaryExpr); ok && be.Op == token.SHL {
				x, ok1 := be.X.(*ast.BasicLit)
				y, ok2 := be.Y.(*ast.BasicLit)
				if ok1 && ok2 {
					a, e1 := strconv.ParseUint(x.Value, 0, 64)
					b, e2 := strconv.ParseUint(y.Value, 0, 64)
					if e1 == nil && e2 == nil && b < 63 {
						caps = append(caps, a<<b)
					}
				}
			}
			return true
		})
		if len(caps) == 0 {
			return fmt.Errorf("C20 facts: no `[1 << k]uint16` view found in device/regedit/entry.go")
		}
		for _, c := range caps {
			if c != caps[0] {
				return fmt.Errorf("C20 facts: the unsafe views in entry.go use different array bounds %v", caps)
			}
		}
		f.Nat("regArrayCap", caps[0])
		return nil
	})
}
